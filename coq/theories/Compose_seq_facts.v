(* Compose_seq_facts.v -- the sequence-based model (Seq.v) fed to the get_qubo model (Penalty.v).
   [C02, C03, C04 for the sequence formulation; end-to-end corollary]

   Adapter `seq_qdata`: what get_constraint_data() / get_objective_data() of
   SequenceBasedRoutingProblem hand to get_qubo, read off the model's own getters:
       (shape A, A_eq, b_eq, shape Q_eq, Q_eq) = Seq.constraint_data I   (Err = AssertionError; never, C07)
       r_eq = 0                                                           (literal in the code)
       (len c, c, shape Q, Q)                  = Seq.objective_data I
   On every instance this is `seq_d I`. *)
From Coq Require Import ZArith List Bool Lia PeanoNat.
From VQ Require Import Base LinAlg Penalty Penalty_facts Compose_facts.
From VQ Require Import Vrptw Vrptw_facts Seq Seq_facts.
Import ListNotations.
Open Scope Z_scope.

Definition seq_n (I : Seq.inst) : nat := Seq.num_variables I.
Definition seq_m (I : Seq.inst) : nat := Seq.num_rows I.

Definition seq_qdata (I : Seq.inst) : result (qdata Z) :=
  match Seq.constraint_data I with
  | Err e => Err e
  | Ok (sa, A, b, sr, R) =>
      match Seq.objective_data I with
      | (_, c, sq, Q) => Ok (mkQdata A sa b R sr 0 c Q sq)
      end
  end.

(* the pairs appended by build_quadratic_constraints (the asserts never fire: Seq_facts.R_ok) *)
Definition seq_E (I : Seq.inst) : list (nat * nat) := okl (Seq.R_entries I).

Lemma seq_E_ok I : Seq.R_entries I = Ok (seq_E I).
Proof. unfold seq_E. destruct (R_ok I) as [E HE]. rewrite HE. reflexivity. Qed.

Definition seq_d (I : Seq.inst) : qdata Z :=
  mkQdata (dense_rows (seq_m I) (seq_n I) (Amat I)) (seq_m I, seq_n I)
          (map (bvec I) (seq 0 (seq_m I)))
          (dense2_rows (seq_n I) (map (fun p => (p, 1)) (seq_E I))) (seq_n I, seq_n I) 0
          (map (cvec I) (seq 0 (seq_n I)))
          (dense2_rows (seq_n I) (q_entries I)) (seq_n I, seq_n I).

(* ---------- dense rows ---------- *)
Lemma dense_rows_dense m n M : dense_ok (m, n) (dense_rows m n M).
Proof.
  unfold dense_ok, dense_rows. cbn [fst snd]. split; [rewrite map_length, seq_length; reflexivity|].
  intros row Hin. apply in_map_iff in Hin. destruct Hin as [i [<- _]]. rewrite map_length, seq_length. reflexivity.
Qed.

Lemma dense_rows_entry m n M i j : (i < m)%nat -> (j < n)%nat -> Zmat_of (dense_rows m n M) i j = M i j.
Proof. intros Hi Hj. exact (nth_mat_tab Z 0 m n M i j Hi Hj). Qed.

Lemma dense2_rows_dense n E : dense_ok (n, n) (dense2_rows n E).
Proof.
  unfold dense_ok, dense2_rows. cbn [fst snd]. split; [rewrite map_length, seq_length; reflexivity|].
  intros row Hin. apply in_map_iff in Hin. destruct Hin as [i [<- _]]. rewrite map_length, seq_length. reflexivity.
Qed.

Lemma lsum_filter {T} (p : T -> bool) (l : list T) (f : T -> Z) :
  lsum (filter p l) f = lsum l (fun e => if p e then f e else 0).
Proof.
  induction l as [|a l IH]; [reflexivity|]. cbn [filter]. rewrite lsum_cons.
  destruct (p a); [rewrite lsum_cons, IH; reflexivity | rewrite IH; lia].
Qed.

Lemma dense2_rows_entry n E i j : (i < n)%nat -> (j < n)%nat -> Zmat_of (dense2_rows n E) i j = dense2 E i j.
Proof.
  intros Hi Hj. unfold Zmat_of, mat_of, dense2_rows.
  rewrite (nth_map_dflt _ (seq 0 n) O [] i) by (rewrite seq_length; exact Hi).
  rewrite seq_nth by exact Hi. cbn [plus]. cbv zeta.
  rewrite (nth_map_dflt _ (seq 0 n) O 0 j) by (rewrite seq_length; exact Hj).
  rewrite seq_nth by exact Hj. cbn [plus].
  rewrite lsum_filter. unfold dense2. apply lsum_ext. intros e _.
  destruct (Nat.eqb (fst (fst e)) i); destruct (Nat.eqb (snd (fst e)) j); reflexivity.
Qed.

Lemma map_seq_entry (f : nat -> Z) n k : (k < n)%nat -> Zvec_of (map f (seq 0 n)) k = f k.
Proof. intros Hk. exact (tab_nth n f k Hk). Qed.

(* ---------- the adapter ---------- *)
Theorem seq_adapter I :
  seq_qdata I = Ok (seq_d I) /\
  shapes_consistent Z (seq_n I) (seq_d I) /\ dr (seq_d I) = 0 /\
  dense_ok (dA_shape (seq_d I)) (dA (seq_d I)) /\
  dense_ok (dR_shape (seq_d I)) (dR (seq_d I)) /\
  dense_ok (dQo_shape (seq_d I)) (dQo (seq_d I)).
Proof.
  split.
  { unfold seq_qdata, Seq.constraint_data, Seq.objective_data. rewrite (seq_E_ok I). reflexivity. }
  split.
  { unfold shapes_consistent, seq_d. cbn [dA_shape db dR_shape dQo_shape dc].
    rewrite !map_length, !seq_length. repeat split; reflexivity. }
  split; [reflexivity|].
  unfold seq_d. cbn [dA dA_shape dR dR_shape dQo dQo_shape].
  split; [apply dense_rows_dense|]. split; apply dense2_rows_dense.
Qed.

(* the data as functions: what the builder reads from the dense lists *)
Definition seq_A (I : Seq.inst) : mat Z := Zmat_of (dA (seq_d I)).
Definition seq_b (I : Seq.inst) : vec Z := Zvec_of (db (seq_d I)).
Definition seq_R (I : Seq.inst) : mat Z := Zmat_of (dR (seq_d I)).
Definition seq_c (I : Seq.inst) : vec Z := Zvec_of (dc (seq_d I)).
Definition seq_Qo (I : Seq.inst) : mat Z := Zmat_of (dQo (seq_d I)).

Lemma seq_A_entry I r k : (r < seq_m I)%nat -> (k < seq_n I)%nat -> seq_A I r k = Amat I r k.
Proof. apply dense_rows_entry. Qed.
Lemma seq_b_entry I r : (r < seq_m I)%nat -> seq_b I r = bvec I r.
Proof. apply map_seq_entry. Qed.
Lemma seq_R_entry I i j : (i < seq_n I)%nat -> (j < seq_n I)%nat -> seq_R I i j = Rmat (seq_E I) i j.
Proof. apply dense2_rows_entry. Qed.
Lemma seq_c_entry I k : (k < seq_n I)%nat -> seq_c I k = cvec I k.
Proof. apply map_seq_entry. Qed.
Lemma seq_Qo_entry I i j : (i < seq_n I)%nat -> (j < seq_n I)%nat -> seq_Qo I i j = Seq.Qo I i j.
Proof. apply dense2_rows_entry. Qed.

Theorem seq_R_nonneg I : R_nonneg (seq_n I) (seq_R I).
Proof. intros i j Hi Hj. rewrite seq_R_entry by assumption. apply Rmat_nonneg. Qed.

Lemma seq_mv I x r : (r < seq_m I)%nat -> Zmv (seq_n I) (seq_A I) x r = zmv (seq_n I) (Amat I) x r.
Proof.
  intros Hr. unfold Zmv, zmv, mv. apply sumZn_ext. intros j Hj. rewrite seq_A_entry by assumption. reflexivity.
Qed.

Lemma seq_qfR I x : Zqf (seq_n I) (seq_R I) x = zqf (seq_n I) (Rmat (seq_E I)) x.
Proof. apply Zqf_ext. intros i j Hi Hj. apply seq_R_entry; assumption. Qed.

Lemma seq_objective_eq I x :
  Zobjective (seq_n I) (seq_c I) (seq_Qo I) x =
  zdot (seq_n I) (cvec I) x + zqf (seq_n I) (Seq.Qo I) x.
Proof.
  unfold Zobjective, Penalty.objective. f_equal.
  - unfold zdot, dot. apply sumZn_ext. intros k Hk. rewrite seq_c_entry by exact Hk. reflexivity.
  - apply Zqf_ext. intros i j Hi Hj. apply seq_Qo_entry; assumption.
Qed.

(* ====================================================================== *)
(* feasible set = indicators of walk assignments (C07_iff)                  *)
(* ====================================================================== *)
Definition seq_is_walk (I : Seq.inst) (x : vec Z) : Prop :=
  exists W, walk_assignment I W /\ forall k, (k < seq_n I)%nat -> x k = indicator_free I W k.

Theorem seq_feasible_iff I x :
  seq_ok I -> (3 <= iL I)%nat -> Zbinary (seq_n I) x ->
  (Zfeasible (seq_m I) (seq_n I) (seq_A I) (seq_b I) (seq_R I) x <-> seq_is_walk I x).
Proof.
  intros (_ & _ & HN) HL Hb. unfold seq_n in *. rewrite <- nv_num in *.
  destruct (seq_iff I x HN HL Hb) as [E [HE Hiff]].
  assert (EE : E = seq_E I) by (pose proof (seq_E_ok I) as H; rewrite HE in H; inversion H; reflexivity).
  subst E. unfold seq_is_walk, seq_n. rewrite <- nv_num. rewrite <- Hiff. unfold Zfeasible.
  pose proof (seq_qfR I x) as Hq. unfold seq_n in Hq. rewrite <- nv_num in Hq. rewrite Hq.
  split; intros [H1 H2]; (split; [|exact H2]); intros r Hr.
  - pose proof (seq_mv I x r Hr) as Hm. pose proof (seq_b_entry I r Hr) as Hbe.
    unfold seq_n in Hm. rewrite <- nv_num in Hm. rewrite <- Hm, <- Hbe. apply H1. exact Hr.
  - pose proof (seq_mv I x r Hr) as Hm. pose proof (seq_b_entry I r Hr) as Hbe.
    unfold seq_n in Hm. rewrite <- nv_num in Hm. rewrite Hm, Hbe. apply H1. exact Hr.
Qed.

(* ====================================================================== *)
(* C03                                                                      *)
(* ====================================================================== *)
Definition seq_feas_value (I : Seq.inst) (S : Z) (x : vec Z) : Z :=
  Zqubo_value (seq_n I)
    (Zget_qubo (seq_m I) true (Zchoose_rho true S None) (seq_A I, seq_b I, seq_R I) (seq_c I, seq_Qo I)) x.

Theorem seq_feas_nonneg I S x : Zbinary (seq_n I) x -> 0 <= seq_feas_value I S x.
Proof. intros Hb. exact (feas_value_nonneg _ _ _ _ _ _ _ S (seq_R_nonneg I) x Hb). Qed.

Theorem seq_feas_zero_iff I S x :
  seq_ok I -> (3 <= iL I)%nat -> Zbinary (seq_n I) x ->
  (seq_feas_value I S x = 0 <-> seq_is_walk I x).
Proof.
  intros Hok HL Hb. rewrite <- (seq_feasible_iff I x Hok HL Hb).
  exact (feas_value_zero_iff _ _ _ _ _ (seq_c I) (seq_Qo I) S (seq_R_nonneg I) x Hb).
Qed.

(* ====================================================================== *)
(* C04: coefficient bound                                                   *)
(* ====================================================================== *)
(* arc.get_cost() for arc in self.arcs.values() *)
Definition seq_costs (I : Seq.inst) : list Z := map (fun kv : (nat * nat) * arc => acost (snd kv)) (arcs (ig I)).
(* get_sufficient_penalty(False) *)
Definition seq_S (I : Seq.inst) : Z := S_seq (Z.of_nat (iL I)) (seq_costs I) (ivc I).
(* len(self.vehicle_cost) == self.max_vehicles  (set_max_vehicles, make_feasible keep it) *)
Definition vc_aligned (I : Seq.inst) : Prop := length (ivc I) = iV I.

Lemma lsum_sumZ {T} (l : list T) (f : T -> Z) : lsum l f = sumZ (map f l).
Proof. induction l as [|a l IH]; [reflexivity|]. rewrite lsum_cons. cbn [map]. rewrite sumZ_cons, IH. reflexivity. Qed.

Lemma lsum_le {T} (l : list T) (f g : T -> Z) : (forall a, In a l -> f a <= g a) -> lsum l f <= lsum l g.
Proof. intros H. rewrite !lsum_sumZ. apply sumZ_map_le. exact H. Qed.

Lemma lsum_const {T} (l : list T) c : lsum l (fun _ => c) = Z.of_nat (length l) * c.
Proof. rewrite lsum_sumZ. apply sumZ_map_const. Qed.

Lemma sum_abs_dense1 n E : sumZn n (fun k => Z.abs (dense1 E k)) <= lsum E (fun e => Z.abs (snd e)).
Proof.
  induction E as [|e E IH].
  - unfold dense1. cbn [lsum fold_right]. rewrite sumZn_const. lia.
  - rewrite lsum_cons. eapply Z.le_trans.
    + apply (sumZn_le n _ (fun k => Z.abs (if Nat.eqb (fst e) k then snd e else 0) + Z.abs (dense1 E k))).
      intros k _. unfold dense1. rewrite lsum_cons. apply Z.abs_triangle.
    + rewrite sumZn_add. assert (H1 := sumZn_delta_abs_le n (fst e) (snd e)). lia.
Qed.

Lemma sum_abs_dense2 n E :
  sumZn n (fun i => sumZn n (fun j => Z.abs (dense2 E i j))) <= lsum E (fun e => Z.abs (snd e)).
Proof.
  induction E as [|e E IH].
  - unfold dense2. cbn [lsum fold_right].
    rewrite (sumZn_ext n _ (fun _ => 0)) by (intros i _; rewrite sumZn_const; lia).
    rewrite sumZn_const. lia.
  - rewrite lsum_cons. eapply Z.le_trans.
    + apply (sumZn_le n _ (fun i =>
               sumZn n (fun j => Z.abs (if natpair_eqb (fst (fst e), snd (fst e)) (i, j) then snd e else 0))
               + sumZn n (fun j => Z.abs (dense2 E i j)))).
      intros i _. rewrite <- sumZn_add. apply sumZn_le. intros j _.
      unfold dense2. rewrite lsum_cons. unfold natpair_eqb. cbn [fst snd]. apply Z.abs_triangle.
    + rewrite sumZn_add. assert (H1 := sumZn_delta2_abs_le n (fst (fst e)) (snd (fst e)) (snd e)). lia.
Qed.

Lemma fixed_val_01 I t : fixed_val I t = 0 \/ fixed_val I t = 1.
Proof.
  unfold fixed_val. destruct t as [[v s] n]. destruct (fixed I (v, s, n)) as [z|] eqn:E; [|left; reflexivity].
  apply fixed_Some in E. destruct E as (_ & _ & _ & Hr). exact (rule_binary I s n z Hr).
Qed.

Lemma abs_mul_01 a f : (f = 0 \/ f = 1) -> Z.abs (a * f) <= Z.abs a.
Proof. intros [->| ->]; [rewrite Z.mul_0_r; cbn; apply Z.abs_nonneg | rewrite Z.mul_1_r; apply Z.le_refl]. Qed.

(* every call of the objective loop contributes its coefficient to at most one entry *)
Lemma entries_le_calls I :
  lsum (c_entries I) (fun e => Z.abs (snd e)) + lsum (q_entries I) (fun e => Z.abs (snd e))
  <= lsum (obj_calls I) (fun c => Z.abs (obj_coeff I c)).
Proof.
  unfold c_entries, q_entries. rewrite !lsum_flat_map, <- lsum_add. apply lsum_le.
  intros [[v s] [[ni nj] a]] _.
  destruct (var_index I (v, s, ni)) as [k1|]; destruct (var_index I (v, S s, nj)) as [k2|];
    rewrite ?lsum_cons, ?lsum_nil; cbn [fst snd].
  - assert (H := Z.abs_nonneg (obj_coeff I (v, s, (ni, nj, a)))). lia.
  - assert (H := abs_mul_01 (obj_coeff I (v, s, (ni, nj, a))) _ (fixed_val_01 I (v, S s, nj))). lia.
  - assert (H := abs_mul_01 (obj_coeff I (v, s, (ni, nj, a))) _ (fixed_val_01 I (v, s, ni))). lia.
  - assert (H := Z.abs_nonneg (obj_coeff I (v, s, (ni, nj, a)))). lia.
Qed.

(* sum over all calls = (L-1) * sum over vehicles and arcs *)
Lemma calls_sum I :
  lsum (obj_calls I) (fun c => Z.abs (obj_coeff I c)) =
  Z.of_nat (iL I - 1) *
  lsum (seq 0 (iV I)) (fun v => lsum (arcs (ig I)) (fun kv => Z.abs (acost (snd kv) + vcost I v))).
Proof.
  unfold obj_calls. rewrite lsum_flat_map, <- lsum_scal. apply lsum_ext. intros v _.
  rewrite lsum_flat_map.
  rewrite (lsum_ext _ _ (fun _ => lsum (arcs (ig I)) (fun kv => Z.abs (acost (snd kv) + vcost I v)))).
  - rewrite lsum_const, seq_length. reflexivity.
  - intros s _. rewrite lsum_map. apply lsum_ext. intros [k a] _. reflexivity.
Qed.

Lemma S_seq_sum I :
  vc_aligned I ->
  sumZ (flat_map (fun a => map (fun v => Z.abs (a + v)) (ivc I)) (seq_costs I)) =
  lsum (seq 0 (iV I)) (fun v => lsum (arcs (ig I)) (fun kv => Z.abs (acost (snd kv) + vcost I v))).
Proof.
  intros Hvc. rewrite lsum_swap. rewrite sumZ_flat_map. unfold seq_costs. rewrite map_map.
  rewrite lsum_sumZ. apply sumZ_map_ext. intros kv _.
  rewrite (sumZ_nth (fun v => Z.abs (acost (snd kv) + v)) (ivc I) 0), Hvc.
  rewrite <- zsum_lsum. unfold zsum, vcost. reflexivity.
Qed.

Theorem seq_coeff_bound_model I :
  vc_aligned I -> coeff_sum (seq_n I) (cvec I) (Seq.Qo I) <= seq_S I.
Proof.
  intros Hvc. unfold coeff_sum.
  assert (H1 := sum_abs_dense1 (seq_n I) (c_entries I)).
  assert (H2 := sum_abs_dense2 (seq_n I) (q_entries I)).
  assert (H3 := entries_le_calls I). rewrite calls_sum in H3.
  unfold seq_S, S_seq. rewrite (S_seq_sum I Hvc).
  set (X := lsum (seq 0 (iV I)) (fun v => lsum (arcs (ig I)) (fun kv => Z.abs (acost (snd kv) + vcost I v)))) in *.
  assert (HX : 0 <= X).
  { unfold X. apply lsum_nonneg. intros v _. apply lsum_nonneg. intros kv _. apply Z.abs_nonneg. }
  assert (HL : Z.of_nat (iL I - 1) <= Z.of_nat (iL I)) by lia.
  fold (cvec I) in H1. unfold cvec in *. unfold Seq.Qo.
  assert (Z.of_nat (iL I - 1) * X <= Z.of_nat (iL I) * X) by nia.
  lia.
Qed.

Theorem seq_coeff_bound I :
  vc_aligned I -> coeff_sum (seq_n I) (seq_c I) (seq_Qo I) <= seq_S I.
Proof.
  intros Hvc. eapply Z.le_trans; [|apply (seq_coeff_bound_model I Hvc)].
  apply Z.eq_le_incl. unfold coeff_sum. f_equal.
  - apply sumZn_ext. intros k Hk. rewrite seq_c_entry by exact Hk. reflexivity.
  - apply sumZn_ext. intros i Hi. apply sumZn_ext. intros j Hj. rewrite seq_Qo_entry by assumption. reflexivity.
Qed.

(* ====================================================================== *)
(* C04: exactness                                                           *)
(* ====================================================================== *)
Definition seq_default_value (I : Seq.inst) (x : vec Z) : Z :=
  Zqubo_value (seq_n I)
    (Zget_qubo (seq_m I) false (Zchoose_rho false (seq_S I) None) (seq_A I, seq_b I, seq_R I) (seq_c I, seq_Qo I)) x.

Definition seq_qubo_min (I : Seq.inst) (x : vec Z) : Prop :=
  Zbinary (seq_n I) x /\ forall y, Zbinary (seq_n I) y -> seq_default_value I x <= seq_default_value I y.

(* c.x + x'Qo x on the model's objective *)
Definition seq_cost (I : Seq.inst) (x : vec Z) : Z :=
  zdot (seq_n I) (cvec I) x + zqf (seq_n I) (Seq.Qo I) x.

Definition seq_opt (I : Seq.inst) (x : vec Z) : Prop :=
  Zbinary (seq_n I) x /\ seq_is_walk I x /\
  forall y, Zbinary (seq_n I) y -> seq_is_walk I y -> seq_cost I x <= seq_cost I y.

Lemma seq_opt_iff I x :
  seq_ok I -> (3 <= iL I)%nat ->
  (is_constrained_opt (seq_n I) (seq_m I) (seq_A I) (seq_b I) (seq_R I) (seq_c I) (seq_Qo I) x <-> seq_opt I x).
Proof.
  intros Hok HL. unfold is_constrained_opt, seq_opt, seq_cost. split.
  - intros [Hb [Hf Hopt]]. split; [exact Hb|]. split; [apply (seq_feasible_iff I x Hok HL Hb); exact Hf|].
    intros y Hy Hfy. rewrite <- !seq_objective_eq. apply Hopt; [exact Hy|].
    apply (seq_feasible_iff I y Hok HL Hy); exact Hfy.
  - intros [Hb [Hf Hopt]]. split; [exact Hb|]. split; [apply (seq_feasible_iff I x Hok HL Hb); exact Hf|].
    intros y Hy Hfy. rewrite !seq_objective_eq. apply Hopt; [exact Hy|].
    apply (seq_feasible_iff I y Hok HL Hy); exact Hfy.
Qed.

Theorem seq_exact I :
  seq_ok I -> (3 <= iL I)%nat -> vc_aligned I ->
  (exists z, Zbinary (seq_n I) z /\ seq_is_walk I z) ->
  (forall x, seq_qubo_min I x <-> seq_opt I x) /\
  (forall x y, seq_qubo_min I x -> seq_opt I y -> seq_default_value I x = seq_cost I y).
Proof.
  intros Hok HL Hvc [z [Hbz Hfz]].
  destruct (default_exact (seq_n I) (seq_m I) (seq_A I) (seq_b I) (seq_R I) (seq_c I) (seq_Qo I) (seq_S I)
              (seq_R_nonneg I) (seq_coeff_bound I Hvc)) as [H1 H2].
  { exists z. split; [exact Hbz | apply (seq_feasible_iff I z Hok HL Hbz); exact Hfz]. }
  split.
  - intros x. rewrite <- (seq_opt_iff I x Hok HL). exact (H1 x).
  - intros x y Hx Hy. unfold seq_cost. rewrite <- seq_objective_eq.
    apply H2; [exact Hx | apply (seq_opt_iff I y Hok HL); exact Hy].
Qed.

(* a walk assignment exists  ->  its indicator is a binary feasible vector *)
Lemma indicator_free_binary I W : Zbinary (seq_n I) (indicator_free I W).
Proof.
  intros k _. unfold indicator_free. destruct (var_tuple I k) as [[[v s] n]|]; [|left; reflexivity].
  destruct (Nat.eqb (W v s) n); [right | left]; reflexivity.
Qed.

(* ====================================================================== *)
(* end to end                                                               *)
(* ====================================================================== *)
Theorem seq_e2e I x :
  seq_ok I -> (3 <= iL I)%nat -> vc_aligned I ->
  (exists W, walk_assignment I W) ->
  seq_qubo_min I x ->
  exists W, walk_assignment I W /\
            (forall k, (k < seq_n I)%nat -> x k = indicator_free I W k) /\
            Seq.decode I (tab (seq_n I) x) = Ok (walks I W) /\
            zsum (iV I) (fun v => zsum (iL I - 1) (fun s => Seq.cost I (W v s, W v (S s)) + vcost I v))
            = seq_default_value I x /\
            (forall y, Zbinary (seq_n I) y -> seq_default_value I x <= seq_default_value I y).
Proof.
  intros Hok HL Hvc [W0 HW0] Hmin.
  assert (Hex : exists z, Zbinary (seq_n I) z /\ seq_is_walk I z).
  { exists (indicator_free I W0). split; [apply indicator_free_binary|]. exists W0. split; [exact HW0|]. intros; reflexivity. }
  destruct (seq_exact I Hok HL Hvc Hex) as [Hsets Hval].
  assert (Hopt : seq_opt I x) by (apply Hsets; exact Hmin).
  pose proof Hopt as [Hb [[W [HW Hx]] Hbest]].
  exists W. split; [exact HW|]. split; [exact Hx|].
  split.
  { unfold seq_n in *. rewrite <- nv_num in *. apply (decode_walks I W); [exact Hok | exact HL | exact HW | apply tab_length |].
    intros k Hk. rewrite tab_nth by exact Hk. apply Hx. exact Hk. }
  split.
  { rewrite (Hval x x Hmin Hopt). unfold seq_cost, seq_n in *. rewrite <- nv_num in *.
    symmetry. apply (seq_objective I W x Hok HL HW Hx). }
  exact (proj2 Hmin).
Qed.

(* ====================================================================== *)
(* C02: the penalty and the builder's output in the vocabulary of Seq.v     *)
(* ====================================================================== *)
Lemma seq_penalty_eq I x :
  Zpenalty (seq_m I) (seq_n I) (seq_A I) (seq_b I) (seq_R I) x =
  sumZn (seq_m I) (fun r => (zmv (seq_n I) (Amat I) x r - bvec I r) * (zmv (seq_n I) (Amat I) x r - bvec I r))
  + zqf (seq_n I) (Rmat (seq_E I)) x.
Proof.
  unfold Zpenalty, penalty. f_equal.
  - unfold resid_sq. apply sumZn_ext. intros r Hr.
    pose proof (seq_mv I x r Hr) as Hm. unfold Zmv in Hm. rewrite Hm, (seq_b_entry I r Hr). reflexivity.
  - exact (seq_qfR I x).
Qed.

Theorem seq_builder_output I feas pp S :
  Zget_qubo_impl feas pp S (seq_d I) =
  let Qk := Zget_qubo (seq_m I) feas (Zchoose_rho feas S pp) (seq_A I, seq_b I, seq_R I) (seq_c I, seq_Qo I) in
  Ok (seq_n I, mat_tab Z (seq_n I) (seq_n I) (fst Qk), snd Qk).
Proof.
  destruct (seq_adapter I) as (_ & Hs & Hr & _).
  unfold Zget_qubo_impl, get_qubo_impl.
  rewrite (checked_ok_explicit Z 0 1 Z.add Z.mul Z.opp Z.eqb Z.eqb_eq (seq_n I) feas _ (seq_d I) Hr Hs).
  unfold model_Qk, seq_d. cbn [dA db dR dc dQo]. rewrite map_length, seq_length. reflexivity.
Qed.

Theorem seq_dims I feas rho :
  exists Q k,
    Zget_qubo_checked feas rho (seq_d I) = Ok (seq_n I, Q, k) /\
    length Q = seq_n I /\ (forall row, In row Q -> length row = seq_n I) /\
    forall x, Zbinary (seq_n I) x ->
      Zqf (seq_n I) (Zmat_of Q) x + k =
      (if feas then 0 else seq_cost I x)
      + rho * (sumZn (seq_m I) (fun r => (zmv (seq_n I) (Amat I) x r - bvec I r)
                                        * (zmv (seq_n I) (Amat I) x r - bvec I r))
               + zqf (seq_n I) (Rmat (seq_E I)) x).
Proof.
  destruct (seq_adapter I) as (_ & Hs & Hr & _).
  destruct (checked_identity Z 0 1 Z.add Z.mul Z.sub Z.opp Zth Z.eqb Z.eqb_eq (seq_n I) feas rho
              (seq_d I) Hr Hs) as (Q & k & E & L1 & L2 & Hid).
  exists Q, k. split; [exact E|]. split; [exact L1|]. split; [exact L2|].
  intros x Hb. pose proof (Hid x Hb) as H0.
  unfold seq_d in H0. cbn [dA db dR dc dQo] in H0. rewrite map_length, seq_length in H0.
  assert (H : Zqf (seq_n I) (Zmat_of Q) x + k =
              (if feas then 0 else Zobjective (seq_n I) (seq_c I) (seq_Qo I) x)
              + rho * Zpenalty (seq_m I) (seq_n I) (seq_A I) (seq_b I) (seq_R I) x) by exact H0.
  rewrite seq_penalty_eq, seq_objective_eq in H. exact H.
Qed.
