(* Sampler.v -- executable model of tools/sampling.py (operator overloads of SimpleSampler,
   RatioSampler.__init__, the rvs methods of the combinators) and of the `sample` helper of
   examples/mirp_random.py.  Definitions only; lemmas are in Sampler_facts.v.

   Carrier: any type K with operations 0 1 + * - opp and a TOTAL, uninterpreted division
   kdiv (numpy's array division never raises); the ring laws are only assumed in
   Sampler_facts.v.  Arrays of shape (m,) are lists; a leaf's rvs(size) is the oracle
   [d id occurrence size].

   SumSampler / ProductSampler hold a tuple of arbitrary length, so [Sum] / [Prod] carry a
   list (the overloads only ever build pairs, see [hand_add] ...); rvs goes through the list
   with [map] + [mseq], which is the list comprehension of the source. *)
From Coq Require Import List Arith Bool QArith Qcanon.
From VQ Require Import Base.
Import ListNotations.

(* ---------- draw log and the state monad used for "calls happen in this order" ---------- *)
(* one entry per call of a leaf's rvs: (leaf id, requested size) *)
Definition dlog := list (nat * nat).
Definition M (A : Type) := dlog -> A * dlog.
Definition ret {A} (a : A) : M A := fun st => (a, st).
Definition bind {A B} (x : M A) (f : A -> M B) : M B :=
  fun st => let (a, st1) := x st in f a st1.
(* [c1, c2, ...] evaluated left to right *)
Fixpoint mseq {A} (l : list (M A)) : M (list A) :=
  match l with
  | [] => ret []
  | x :: r => bind x (fun a => bind (mseq r) (fun rest => ret (a :: rest)))
  end.
(* how many times leaf i has been drawn so far *)
Fixpoint occ (i : nat) (st : dlog) : nat :=
  match st with
  | [] => O
  | (j, _) :: r => if Nat.eqb i j then S (occ i r) else occ i r
  end.

Section Sampler.
  Variable K : Type.
  Variables (k0 k1 : K) (kadd kmul ksub kdiv : K -> K -> K) (kopp : K -> K).

  (* ---------- sampler objects ---------- *)
  Inductive sampler :=
  | Leaf (i : nat)                    (* WrapperSampler(rv) or any other leaf object; i = identity of the object *)
  | Const (c : K)                     (* ConstantSampler(c) *)
  | Neg (p : sampler)                 (* NegatedSampler(p) *)
  | Sum (l : list sampler)            (* SumSampler(tuple) *)
  | Prod (l : list sampler)           (* ProductSampler(tuple) *)
  | Ratio (n dn : sampler).           (* RatioSampler after __init__ *)

  (* right operand of a dunder method: a sampler or a numbers.Real *)
  Inductive operand := OS (s : sampler) | OC (c : K).

  (* ---------- hand model of the overloads (tools/sampling.py:23-61) ---------- *)
  (* `if isinstance(x, Real): x = ConstantSampler(x)` *)
  Definition wrap (x : operand) : sampler := match x with OS s => s | OC c => Const c end.

  Definition hand_neg (self : sampler) : sampler := Neg self.
  Definition hand_add (self : sampler) (other : operand) : sampler := Sum [self; wrap other].
  Definition hand_radd (self : sampler) (other : operand) : sampler := Sum [wrap other; self].
  (* __sub__: a constant is negated as a number, a sampler through its __neg__ *)
  Definition hand_sub (self : sampler) (other : operand) : sampler :=
    match other with
    | OC c => Sum [self; Const (kopp c)]
    | OS o => Sum [self; hand_neg o]
    end.
  Definition hand_rsub (self : sampler) (other : operand) : sampler := Sum [wrap other; hand_neg self].
  Definition hand_mul (self : sampler) (other : operand) : sampler := Prod [self; wrap other].
  Definition hand_rmul (self : sampler) (other : operand) : sampler := Prod [wrap other; self].
  (* RatioSampler.__init__ wraps a Real numerator and a Real denominator *)
  Definition hand_ratio_init (numerator denominator : operand) : sampler :=
    Ratio (wrap numerator) (wrap denominator).
  Definition hand_truediv (self : sampler) (other : operand) : sampler := hand_ratio_init (OS self) other.
  Definition hand_rtruediv (self : sampler) (other : operand) : sampler := hand_ratio_init other (OS self).

  Record overloads := mkOv {
    o_neg : sampler -> sampler;
    o_add : sampler -> operand -> sampler;  o_radd : sampler -> operand -> sampler;
    o_sub : sampler -> operand -> sampler;  o_rsub : sampler -> operand -> sampler;
    o_mul : sampler -> operand -> sampler;  o_rmul : sampler -> operand -> sampler;
    o_truediv : sampler -> operand -> sampler;  o_rtruediv : sampler -> operand -> sampler }.

  Definition hand_table : overloads :=
    mkOv hand_neg hand_add hand_radd hand_sub hand_rsub hand_mul hand_rmul hand_truediv hand_rtruediv.

  (* ---------- numpy on arrays of shape (m,) ---------- *)
  Definition vec := list K.
  Fixpoint zipw (f : K -> K -> K) (a b : vec) : vec :=
    match a, b with
    | x :: a', y :: b' => f x y :: zipw f a' b'
    | _, _ => []
    end.
  Definition np_ones (size : nat) : vec := repeat k1 size.
  Definition vscale (c : K) (v : vec) : vec := map (kmul c) v.       (* scalar * array *)
  Definition vneg (v : vec) : vec := map kopp v.                      (* -array *)
  Definition vdiv (a b : vec) : vec := zipw kdiv a b.                 (* array / array *)
  (* np.sum(vals, axis=0) / np.prod(vals, axis=0) for a non-empty list of equally long arrays:
     the reduction starts from the first array.  (For an empty list numpy returns a 0-d
     scalar; the model returns [] -- no operator builds an empty tuple.) *)
  Definition np_sum_axis0 (vals : list vec) : vec :=
    match vals with [] => [] | v :: r => fold_left (zipw kadd) r v end.
  Definition np_prod_axis0 (vals : list vec) : vec :=
    match vals with [] => [] | v :: r => fold_left (zipw kmul) r v end.

  (* ---------- rvs ---------- *)
  (* the array returned by the occurrence-th call of leaf i's rvs with the given size *)
  Variable d : nat -> nat -> nat -> vec.

  Definition draw_leaf (size i : nat) : M vec :=
    fun st => (d i (occ i st) size, st ++ [(i, size)]).

  (* the rvs methods, tools/sampling.py:71-132, written over the already-formed calls
     `self.<field>.rvs(size)` of the fields *)
  Definition hand_rvs_Constant (constant : K) (size : nat) : M vec :=
    ret (vscale constant (np_ones size)).
  Definition hand_rvs_Negated (positive_rvs : M vec) : M vec :=
    bind positive_rvs (fun x => ret (vneg x)).
  Definition hand_rvs_Sum (summands_rvs : list (M vec)) : M vec :=
    bind (mseq summands_rvs) (fun vals => ret (np_sum_axis0 vals)).
  Definition hand_rvs_Product (multiplicands_rvs : list (M vec)) : M vec :=
    bind (mseq multiplicands_rvs) (fun vals => ret (np_prod_axis0 vals)).
  Definition hand_rvs_Ratio (numerator_rvs denominator_rvs : M vec) : M vec :=
    bind numerator_rvs (fun numer => bind denominator_rvs (fun denom => ret (vdiv numer denom))).

  Definition rvs (size : nat) : sampler -> M vec :=
    fix rvs (s : sampler) : M vec :=
      match s with
      | Leaf i => draw_leaf size i
      | Const c => hand_rvs_Constant c size
      | Neg p => hand_rvs_Negated (rvs p)
      | Sum l => hand_rvs_Sum (map rvs l)
      | Prod l => hand_rvs_Product (map rvs l)
      | Ratio n dn => hand_rvs_Ratio (rvs n) (rvs dn)
      end.

  (* ---------- source expressions and Python's operator dispatch ---------- *)
  Inductive aexp :=
  | ALeaf (i : nat) | AConst (c : K)
  | AAdd (a b : aexp) | ASub (a b : aexp) | AMul (a b : aexp) | ADiv (a b : aexp)
  | ANeg (a : aexp).

  (* x op y : x.__op__(y) when x is a sampler; a number on the left returns NotImplemented
     for a sampler on the right, so y.__rop__(x) runs; two numbers are plain arithmetic *)
  Definition dispatch (f rf : sampler -> operand -> sampler) (kf : K -> K -> K) (x y : operand) : operand :=
    match x with
    | OS a => OS (f a y)
    | OC c => match y with
              | OS b => OS (rf b x)
              | OC c' => OC (kf c c')
              end
    end.

  Fixpoint compile_op (T : overloads) (e : aexp) : operand :=
    match e with
    | ALeaf i => OS (Leaf i)
    | AConst c => OC c
    | AAdd a b => dispatch (o_add T) (o_radd T) kadd (compile_op T a) (compile_op T b)
    | ASub a b => dispatch (o_sub T) (o_rsub T) ksub (compile_op T a) (compile_op T b)
    | AMul a b => dispatch (o_mul T) (o_rmul T) kmul (compile_op T a) (compile_op T b)
    | ADiv a b => dispatch (o_truediv T) (o_rtruediv T) kdiv (compile_op T a) (compile_op T b)
    | ANeg a => match compile_op T a with
                | OS s => OS (o_neg T s)
                | OC c => OC (kopp c)
                end
    end.

  (* an expression without a leaf is a number: `.rvs` on it raises AttributeError *)
  Definition compile_with (T : overloads) (e : aexp) : result sampler :=
    match compile_op T e with OS s => Ok s | OC _ => Err AttributeError end.
  Definition compile := compile_with hand_table.

  (* every tuple held by a Sum/Prod node has exactly two entries *)
  Fixpoint pairs_only (s : sampler) : bool :=
    match s with
    | Leaf _ | Const _ => true
    | Neg p => pairs_only p
    | Sum l | Prod l => Nat.eqb (length l) 2 && forallb pairs_only l
    | Ratio n dn => pairs_only n && pairs_only dn
    end.

  Fixpoint has_leaf (e : aexp) : bool :=
    match e with
    | ALeaf _ => true | AConst _ => false
    | AAdd a b | ASub a b | AMul a b | ADiv a b => has_leaf a || has_leaf b
    | ANeg a => has_leaf a
    end.

  (* ---------- reference semantics: the expression applied to the arrays of its leaves ---------- *)
  Fixpoint leaves (e : aexp) : list nat :=
    match e with
    | ALeaf i => [i] | AConst _ => []
    | AAdd a b | ASub a b | AMul a b | ADiv a b => leaves a ++ leaves b
    | ANeg a => leaves a
    end.

  Definition lift2 (f : K -> K -> K) (x y : M vec) : M vec :=
    bind x (fun a => bind y (fun b => ret (zipw f a b))).

  (* every leaf occurrence is drawn once, left to right; operators act element by element;
     a constant is the same number in every position *)
  Fixpoint spec (m : nat) (e : aexp) : M vec :=
    match e with
    | ALeaf i => draw_leaf m i
    | AConst c => ret (repeat c m)
    | AAdd a b => lift2 kadd (spec m a) (spec m b)
    | ASub a b => lift2 ksub (spec m a) (spec m b)
    | AMul a b => lift2 kmul (spec m a) (spec m b)
    | ADiv a b => lift2 kdiv (spec m a) (spec m b)
    | ANeg a => bind (spec m a) (fun x => ret (map kopp x))
    end.

  (* scalar reading: the p-th leaf occurrence (left to right) of e has value [nth p vals] *)
  Fixpoint aeval (vals : list K) (e : aexp) (p : nat) : K :=
    match e with
    | ALeaf _ => nth p vals k0
    | AConst c => c
    | AAdd a b => kadd (aeval vals a p) (aeval vals b (p + length (leaves a)))
    | ASub a b => ksub (aeval vals a p) (aeval vals b (p + length (leaves a)))
    | AMul a b => kmul (aeval vals a p) (aeval vals b (p + length (leaves a)))
    | ADiv a b => kdiv (aeval vals a p) (aeval vals b (p + length (leaves a)))
    | ANeg a => kopp (aeval vals a p)
    end.

  (* the arrays handed out to the leaf occurrences [ls], starting from log st *)
  Fixpoint leaf_arrays (m : nat) (ls : list nat) (st : dlog) : list vec :=
    match ls with
    | [] => []
    | i :: r => d i (occ i st) m :: leaf_arrays m r (st ++ [(i, m)])
    end.

  (* ---------- sample(vari, size) of examples/mirp_random.py:16-30 ---------- *)
  Inductive pyval :=
  | PSampler (s : sampler)            (* isinstance(vari, Sampleable_Type) *)
  | PScalar (c : K)                   (* np.isscalar(vari) *)
  | PSeq (l : list K).                (* list / tuple / 1-d array *)

  Definition is_scalar (v : pyval) : bool := match v with PScalar _ => true | _ => false end.
  Definition pylen (v : pyval) : nat := match v with PSeq l => length l | _ => O end.

  Definition sample (v : pyval) (size : nat) : M (result pyval) :=
    match v with
    | PSampler s => bind (rvs size s) (fun a => ret (Ok (PSeq a)))
    | _ =>
        if is_scalar v && Nat.eqb size 1 then ret (Ok v)
        else if negb (is_scalar v) && Nat.eqb (pylen v) size then ret (Ok v)
        else ret (Err ValueError)
    end.
End Sampler.

Arguments Leaf {K} i.
Arguments Const {K} c.
Arguments Neg {K} p.
Arguments Sum {K} l.
Arguments Prod {K} l.
Arguments Ratio {K} n dn.
Arguments OS {K} s.
Arguments OC {K} c.
Arguments wrap {K} x.
Arguments hand_neg {K} self.
Arguments hand_add {K} self other.
Arguments hand_radd {K} self other.
Arguments hand_sub {K} kopp self other.
Arguments hand_rsub {K} self other.
Arguments hand_mul {K} self other.
Arguments hand_rmul {K} self other.
Arguments hand_ratio_init {K} numerator denominator.
Arguments hand_truediv {K} self other.
Arguments hand_rtruediv {K} self other.
Arguments mkOv {K}.
Arguments o_neg {K}. Arguments o_add {K}. Arguments o_radd {K}. Arguments o_sub {K}. Arguments o_rsub {K}.
Arguments o_mul {K}. Arguments o_rmul {K}. Arguments o_truediv {K}. Arguments o_rtruediv {K}.
Arguments hand_table {K} kopp.
Arguments zipw {K} f a b.
Arguments np_ones {K} k1 size.
Arguments vscale {K} kmul c v.
Arguments vneg {K} kopp v.
Arguments vdiv {K} kdiv a b.
Arguments np_sum_axis0 {K} kadd vals.
Arguments np_prod_axis0 {K} kmul vals.
Arguments draw_leaf {K} d size i.
Arguments hand_rvs_Constant {K} k1 kmul constant size.
Arguments hand_rvs_Negated {K} kopp positive_rvs.
Arguments hand_rvs_Sum {K} kadd summands_rvs.
Arguments hand_rvs_Product {K} kmul multiplicands_rvs.
Arguments hand_rvs_Ratio {K} kdiv numerator_rvs denominator_rvs.
Arguments rvs {K} k1 kadd kmul kdiv kopp d size s.
Arguments ALeaf {K} i.
Arguments AConst {K} c.
Arguments AAdd {K} a b.
Arguments ASub {K} a b.
Arguments AMul {K} a b.
Arguments ADiv {K} a b.
Arguments ANeg {K} a.
Arguments dispatch {K} f rf kf x y.
Arguments compile_op {K} kadd kmul ksub kdiv kopp T e.
Arguments compile_with {K} kadd kmul ksub kdiv kopp T e.
Arguments compile {K} kadd kmul ksub kdiv kopp e.
Arguments has_leaf {K} e.
Arguments pairs_only {K} s.
Arguments leaves {K} e.
Arguments lift2 {K} f x y.
Arguments spec {K} kadd kmul ksub kdiv kopp d m e.
Arguments aeval {K} k0 kadd kmul ksub kdiv kopp vals e p.
Arguments leaf_arrays {K} d m ls st.
Arguments PSampler {K} s.
Arguments PScalar {K} c.
Arguments PSeq {K} l.
Arguments is_scalar {K} v.
Arguments pylen {K} v.
Arguments sample {K} k1 kadd kmul kdiv kopp d v size.

(* ================= the Qc instance used by the correspondence ================= *)
Definition q0 : Qc := Q2Qc 0.
Definition q1 : Qc := Q2Qc 1.

(* recorded stub-leaf arrays: leaf id -> arrays in the order in which that leaf was drawn *)
Definition dtable := list (nat * list (list Qc)).
Fixpoint dt_get (i : nat) (t : dtable) : list (list Qc) :=
  match t with
  | [] => []
  | (j, a) :: r => if Nat.eqb i j then a else dt_get i r
  end.
Definition dt_draw (t : dtable) (i k size : nat) : list Qc := nth k (dt_get i t) [].

Definition qrvs (t : dtable) := rvs q1 Qcplus Qcmult Qcdiv Qcopp (dt_draw t).
Definition qcompile := compile Qcplus Qcmult Qcminus Qcdiv Qcopp.
Definition qsample (t : dtable) := sample q1 Qcplus Qcmult Qcdiv Qcopp (dt_draw t).

Definition qvec_eqb (a b : list Qc) : bool := list_eqb (fun x y : Qc => Qeq_bool x y) a b.
Definition log_eqb (a b : dlog) : bool := list_eqb natpair_eqb a b.

(* expression case: expression, size, leaf arrays, what the implementation returned
   (array or exception class), the implementation's draw log.
   tags: 1 outcome kind (array / exception), 2 shape, 3 values, 4 draw log *)
Definition scase := (aexp Qc * nat * dtable * result (list Qc) * dlog)%type.

Definition check_scase (c : scase) : list nat :=
  let '(e, m, t, res, lg) := c in
  match qcompile e with
  | Err cls => chk 1 (result_eqb qvec_eqb res (Err cls)) ++ chk 4 (log_eqb lg [])
  | Ok s =>
      let (v, st) := qrvs t m s [] in
      match res with
      | Err _ => [1%nat]
      | Ok a => chk 2 (Nat.eqb (length a) m && Nat.eqb (length v) m) ++ chk 3 (qvec_eqb a v)
      end ++ chk 4 (log_eqb lg st)
  end.

(* sample() case: the argument (a sampler given by its expression, a scalar, a sequence),
   size, leaf arrays, the observation, the draw log.  The observation of a normal return
   is (returned object `is` the argument, kind 0 scalar / 1 sequence, values).
   tags: 1 outcome kind, 2 identity flag, 3 kind/values, 4 draw log, 5 the expression is a sampler *)
Inductive harg := HExp (e : aexp Qc) | HScalar (c : Qc) | HSeq (l : list Qc).
Definition hcase := (harg * nat * dtable * result (bool * nat * list Qc) * dlog)%type.

Definition check_hcase (c : hcase) : list nat :=
  let '(a, size, t, res, lg) := c in
  let arg := match a with
             | HExp e => match qcompile e with Ok s => Some (PSampler s) | Err _ => None end
             | HScalar x => Some (PScalar x)
             | HSeq l => Some (PSeq l)
             end in
  match arg with
  | None => [5%nat]
  | Some v =>
      let (r, st) := qsample t v size [] in
      match r, res with
      | Err cls, Err cls' => chk 1 (errcls_eqb cls cls')
      | Ok (PSampler _), _ => [1%nat]
      | Ok (PScalar x), Ok (same, kind, vals) =>
          chk 2 same ++ chk 3 (Nat.eqb kind 0 && qvec_eqb vals [x])
      | Ok (PSeq l), Ok (same, kind, vals) =>
          chk 2 (Bool.eqb same (negb (match v with PSampler _ => true | _ => false end)))
          ++ chk 3 (Nat.eqb kind 1 && qvec_eqb vals l)
      | _, _ => [1%nat]
      end ++ chk 4 (log_eqb lg st)
  end.
