(* PyVrptw.v -- the Python vocabulary that harness/translate_vrptw.py prints into
   (coq/gen/VrptwGen.v).  Definitions only.

   The translator emits the statement / expression structure of the Python source 1:1; what
   each Python construct MEANS is defined here:

     object state     a VRPTW object (and a RoutingProblem, which holds one in self.vrptw) is a
                      Vrptw.graph; a method is a function  graph -> args -> M T  with
                      M T = graph * result T : the state after the call (also when the call
                      raised -- a mutation made before the raise stays) and the value / exception
     value classes    Node and Arc objects are the records of Vrptw.v (an Arc refers to its
                      endpoint Node objects by their names, as in the hand model)
     list / dict ops  index, in, [], append, pop, remove, insert, items, clear, update, d[k] = v,
                      rebinding an attribute to a fresh dict()
     loops            `for x in <list>: <statements that call methods>`  -> for_each
     numbers          positions are nat, data Z, window ends ext (float with +inf); an int that
                      meets a float in a comparison is embedded with Fin

   Nothing here mentions the hand-model functions add_node / add_arc_gen / set_depot. *)
From VQ Require Import Base Vrptw.

(* ---------- state + exception ---------- *)
Definition M (A : Type) : Type := (graph * result A)%type.

Definition ret {A} (g : graph) (v : A) : M A := (g, Ok v).
Definition raise {A} (g : graph) (e : errcls) : M A := (g, Err e).

(* evaluate something that may raise, in state g *)
Definition try_ {A B} (r : result A) (g : graph) (k : A -> M B) : M B :=
  match r with Ok v => k v | Err e => (g, Err e) end.

(* call a method: continue in the state it left behind *)
Definition call {A B} (p : M A) (k : graph -> A -> M B) : M B :=
  match p with (g, Ok v) => k g v | (g, Err e) => (g, Err e) end.

(* `for x in l: body` where the body calls methods / changes the object and assigns no local: the
   body runs once per element, in list order, each time in the state the previous run left; the first
   exception ends the loop and propagates with the state reached *)
Fixpoint for_each {A} (body : graph -> A -> M unit) (l : list A) (g : graph) : M unit :=
  match l with
  | [] => ret g tt
  | x :: l' => call (body g x) (fun g' _ => for_each body l' g')
  end.

(* ---------- attribute stores on the graph object ---------- *)
Definition set_names (l : list nat) (g : graph) : graph := mkGraph l (nodes g) (arcs g).
Definition set_nodes (l : list node) (g : graph) : graph := mkGraph (names g) l (arcs g).
Definition set_arcs (a : dict arc) (g : graph) : graph := mkGraph (names g) (nodes g) a.

(* ---------- Node / Arc objects ---------- *)
(* Node: fields name, demand, time_window (a pair) *)
Definition new_Node (name : nat) (demand : Z) (time_window : Z * ext) : node :=
  mkNode name demand (fst time_window) (snd time_window).
Definition node_name (n : node) : nat := nname n.
Definition node_demand (n : node) : Z := ndemand n.
Definition node_time_window (n : node) : Z * ext := (nlo n, nhi n).

(* Arc: fields origin, destination (Node objects, held by name), travel_time, cost *)
Definition new_Arc (origin destination : node) (travel_time cost : Z) : arc :=
  mkArc (nname origin) (nname destination) travel_time cost.

(* arc.origin.name / arc.destination.name: the name of the endpoint Node object the Arc holds *)
Definition arc_origin_name (a : arc) : nat := aorig a.
Definition arc_destination_name (a : arc) : nat := adest a.

(* ---------- Python lists ---------- *)
Definition py_in (x : nat) (l : list nat) : bool := memb x l.

(* l.index(x): first position, ValueError when absent *)
Definition py_index (x : nat) (l : list nat) : result nat :=
  match index_of x l with Some i => Ok i | None => Err ValueError end.

(* l[i] for i >= 0: IndexError when out of range *)
Definition py_getitem {A} (l : list A) (i : nat) : result A :=
  match nth_error l i with Some x => Ok x | None => Err IndexError end.

Definition py_append {A} (l : list A) (x : A) : list A := l ++ [x].

(* l.pop(i): the element and the remaining list; IndexError when out of range *)
Definition py_pop {A} (l : list A) (i : nat) : result (A * list A) :=
  match nth_error l i with Some x => Ok (x, remove_nth i l) | None => Err IndexError end.

(* l.remove(x): drop the first occurrence; ValueError when absent *)
Fixpoint remove_first (x : nat) (l : list nat) : option (list nat) :=
  match l with
  | [] => None
  | y :: l' => if Nat.eqb x y then Some l' else option_map (cons y) (remove_first x l')
  end.
Definition py_remove (x : nat) (l : list nat) : result (list nat) :=
  match remove_first x l with Some l' => Ok l' | None => Err ValueError end.

(* l.insert(i, x) for i >= 0 (beyond the end: append) *)
Definition py_insert {A} (i : nat) (x : A) (l : list A) : list A := firstn i l ++ x :: skipn i l.

(* ---------- Python dicts keyed by (int, int), insertion ordered ---------- *)
Definition dict_items {V} (d : dict V) : list ((nat * nat) * V) := d.
Definition dict_keys {V} (d : dict V) : list (nat * nat) := map fst d.
Definition dict_values {V} (d : dict V) : list V := map snd d.
Definition dict_clear {V} : dict V := [].
(* dict() / {} : a fresh empty dict an attribute is re-bound to (the old dict object is left as it is) *)
Definition dict_new {V} : dict V := [].
(* d[k]: KeyError when absent *)
Definition py_dict_getitem {V} (k : nat * nat) (d : dict V) : result V :=
  match dict_get k d with Some v => Ok v | None => Err KeyError end.
Definition dict_in {V} (k : nat * nat) (d : dict V) : bool := dict_mem k d.
(* d.update(list of (key, value)): assignments in list order *)
Definition dict_update {V} (kvs : list ((nat * nat) * V)) (d : dict V) : dict V :=
  fold_left (fun d kv => dict_set (fst kv) (snd kv) d) kvs d.

(* ---------- numbers ---------- *)
Definition nat_eq (a b : nat) : bool := Nat.eqb a b.
Definition nat_ne (a b : nat) : bool := negb (Nat.eqb a b).
Definition nat_lt (a b : nat) : bool := Nat.ltb a b.
Definition nat_le (a b : nat) : bool := Nat.leb a b.
Definition nat_gt (a b : nat) : bool := Nat.ltb b a.
Definition nat_ge (a b : nat) : bool := Nat.leb b a.

Definition z_eq (a b : Z) : bool := Z.eqb a b.
Definition z_ne (a b : Z) : bool := negb (Z.eqb a b).
Definition z_lt (a b : Z) : bool := Z.ltb a b.
Definition z_le (a b : Z) : bool := Z.leb a b.
Definition z_gt (a b : Z) : bool := Z.ltb b a.
Definition z_ge (a b : Z) : bool := Z.leb b a.

(* floats that may be +inf *)
Definition fl_eq (a b : ext) : bool := ext_eqb a b.
Definition fl_ne (a b : ext) : bool := negb (ext_eqb a b).
Definition fl_le (a b : ext) : bool := ext_leb a b.
Definition fl_ge (a b : ext) : bool := ext_leb b a.
Definition fl_lt (a b : ext) : bool := negb (ext_leb b a).
Definition fl_gt (a b : ext) : bool := negb (ext_leb a b).
(* inf + finite = inf *)
Definition fl_plus (a : ext) (z : Z) : ext := ext_add a z.
Definition fl_isinf (a : ext) : bool := match a with PInf => true | Fin _ => false end.

(* ---------- histories run with arbitrary method implementations ---------- *)
(* The same dispatch as Vrptw.step, but over method implementations given as arguments (the
   generated ones are plugged in by genprops/C15_gen.v), and keeping whatever state a raising
   call leaves behind. *)
Section GenRun.
  Variable f_add_node : graph -> nat -> Z -> Z * ext -> M unit.
  Variable f_add_arc : graph -> nat -> nat -> Z -> Z -> M bool.
  Variable f_set_depot : graph -> nat -> M unit.
  Variable f_seq_add_node : bool -> graph -> nat -> Z -> Z * ext -> M unit.
  Variable f_seq_add_arc : bool -> graph -> nat -> nat -> Z -> Z -> M bool.
  Variable f_seq_set_depot : bool -> graph -> nat -> M unit.

  Definition none_of (p : M unit) : graph * result (option bool) :=
    (fst p, match snd p with Ok _ => Ok None | Err e => Err e end).
  Definition some_of (p : M bool) : graph * result (option bool) :=
    (fst p, match snd p with Ok b => Ok (Some b) | Err e => Err e end).

  Definition gstep (c : gclass) (g : graph) (o : gop) : graph * result (option bool) :=
    match o, c with
    | OpAddNode nm dem lo hi, Base => none_of (f_add_node g nm dem (lo, hi))
    | OpAddNode nm dem lo hi, Seq s => none_of (f_seq_add_node s g nm dem (lo, hi))
    | OpAddArc o d tm cost, Base => some_of (f_add_arc g o d tm cost)
    | OpAddArc o d tm cost, Seq s => some_of (f_seq_add_arc s g o d tm cost)
    | OpSetDepot nm, Base => none_of (f_set_depot g nm)
    | OpSetDepot nm, Seq s => none_of (f_seq_set_depot s g nm)
    end.

  Definition grun (c : gclass) (ops : list gop) (g : graph) : graph :=
    fold_left (fun g o => fst (gstep c g o)) ops g.

  Fixpoint gtrace (c : gclass) (ops : list gop) (g : graph) : list (graph * result (option bool)) :=
    match ops with
    | [] => []
    | o :: ops' => let r := gstep c g o in r :: gtrace c ops' (fst r)
    end.
End GenRun.

(* how a hand-model outcome reads as a method outcome: an exception leaves the state as it was *)
Definition lift_unit (g : graph) (r : result graph) : M unit :=
  match r with Ok g' => (g', Ok tt) | Err e => (g, Err e) end.
Definition lift_bool (g : graph) (r : result (graph * bool)) : M bool :=
  match r with Ok (g', b) => (g', Ok b) | Err e => (g, Err e) end.
