(* Penalty_facts.v -- proofs about the get_qubo model (Penalty.v).  [C02, C03, C04] *)
From Coq Require Import ZArith List Bool Lia QArith Qcanon Ring PeanoNat FinFun.
From VQ Require Import Base LinAlg Penalty.
Import ListNotations.

(* ====================================================================== *)
(* C02: the algebraic identity, over any commutative ring                  *)
(* ====================================================================== *)
Section IdentityGeneric.
  Variables (K : Type) (k0 k1 : K) (kadd kmul ksub : K -> K -> K) (kopp : K -> K).
  Hypothesis Kring : ring_theory k0 k1 kadd kmul ksub kopp (@eq K).
  Add Ring Kr2 : Kring.

  Notation "0" := k0.
  Notation "1" := k1.
  Infix "+" := kadd.
  Infix "*" := kmul.
  Infix "-" := ksub.
  Notation "- x" := (kopp x).
  Notation sumK := (sum_n k0 kadd).
  Notation dotK := (dot K k0 kadd kmul).
  Notation qfK := (qf K k0 kadd kmul).
  Notation binK := (binary K k0 k1).

  Lemma qf_zero n x : qfK n (fun _ _ => 0) x = 0.
  Proof.
    unfold qf. rewrite (sum_ext K k0 kadd n _ (fun _ => 0)).
    - apply (sum_zero K k0 k1 kadd kmul ksub kopp Kring).
    - intros i _. rewrite (sum_ext K k0 kadd n _ (fun _ => 0)).
      + apply (sum_zero K k0 k1 kadd kmul ksub kopp Kring).
      + intros j _. ring.
  Qed.

  Lemma dot_opp_scal n a (v x : vec K) :
    dotK n (fun i => - (a * v i)) x = - (a * dotK n v x).
  Proof.
    unfold dot.
    rewrite <- (sum_scal_l K k0 k1 kadd kmul ksub kopp Kring).
    rewrite <- (sum_opp K k0 k1 kadd kmul ksub kopp Kring).
    apply (sum_ext K k0 kadd). intros i _. ring.
  Qed.

  Lemma qf_pen_matrix m n A b R x :
    binK n x ->
    qfK n (pen_matrix K k0 k1 kadd kmul kopp m A b R) x + dotK m b b =
    penalty K k0 kadd kmul ksub m n A b R x.
  Proof.
    intros Hb. unfold pen_matrix, penalty.
    rewrite (qf_add K k0 k1 kadd kmul ksub kopp Kring n
               (fun i j => R i j + AtA K k0 kadd kmul m A i j)
               (fun i j => if Nat.eqb i j then - (two K k1 kadd * Atb K k0 kadd kmul m A b i) else 0)).
    rewrite (qf_add K k0 k1 kadd kmul ksub kopp Kring n R (AtA K k0 kadd kmul m A)).
    rewrite (qf_diag_binary K k0 k1 kadd kmul ksub kopp Kring n
               (fun i => - (two K k1 kadd * Atb K k0 kadd kmul m A b i)) x Hb).
    rewrite dot_opp_scal.
    rewrite (resid_sq_expand K k0 k1 kadd kmul ksub kopp Kring).
    unfold two. ring.
  Qed.

  Lemma qf_obj_matrix n c Qo x :
    binK n x -> qfK n (obj_matrix K k0 kadd c Qo) x = objective K k0 kadd kmul n c Qo x.
  Proof.
    intros Hb. unfold obj_matrix, objective.
    rewrite (qf_add K k0 k1 kadd kmul ksub kopp Kring n Qo (fun i j => if Nat.eqb i j then c i else 0)).
    rewrite (qf_diag_binary K k0 k1 kadd kmul ksub kopp Kring n c x Hb). ring.
  Qed.

  (* x'Qx + k = [objective] + rho * (|Ax-b|^2 + x'Rx)   for every binary x *)
  Theorem get_qubo_identity n m A b R c Qo rho feas x :
    binK n x ->
    qubo_value K k0 kadd kmul n (get_qubo K k0 k1 kadd kmul kopp m feas rho (A, b, R) (c, Qo)) x =
    (if feas then 0 else objective K k0 kadd kmul n c Qo x) + rho * penalty K k0 kadd kmul ksub m n A b R x.
  Proof.
    intros Hb. unfold qubo_value, get_qubo; cbn [fst snd].
    rewrite <- (qf_pen_matrix m n A b R x Hb).
    destruct feas.
    - rewrite (qf_add K k0 k1 kadd kmul ksub kopp Kring n
                 (fun i j => rho * pen_matrix K k0 k1 kadd kmul kopp m A b R i j) (fun _ _ => 0)).
      rewrite (qf_scal K k0 k1 kadd kmul ksub kopp Kring), qf_zero. ring.
    - rewrite (qf_add K k0 k1 kadd kmul ksub kopp Kring n
                 (fun i j => rho * pen_matrix K k0 k1 kadd kmul kopp m A b R i j)
                 (obj_matrix K k0 kadd c Qo)).
      rewrite (qf_scal K k0 k1 kadd kmul ksub kopp Kring), (qf_obj_matrix n c Qo x Hb). ring.
  Qed.

  (* the statement in the vocabulary of the property text *)
  Corollary get_qubo_identity_expanded n m A b R c Qo rho feas x :
    binK n x ->
    let Qk := get_qubo K k0 k1 kadd kmul kopp m feas rho (A, b, R) (c, Qo) in
    qfK n (fst Qk) x + snd Qk =
    (if feas then 0 else dotK n c x + qfK n Qo x)
    + rho * (resid_sq K k0 kadd kmul ksub m n A b x + qfK n R x).
  Proof. intros Hb Qk. exact (get_qubo_identity n m A b R c Qo rho feas x Hb). Qed.

  (* ---------- shapes ---------- *)
  Variable keqb : K -> K -> bool.
  Hypothesis keqb_eq : forall a b, keqb a b = true <-> a = b.

  Notation checked := (get_qubo_checked K k0 k1 kadd kmul kopp keqb).

  Lemma length_mat_tab r c (M : mat K) :
    length (mat_tab K r c M) = r /\ forall row, In row (mat_tab K r c M) -> length row = c.
  Proof.
    unfold mat_tab. split.
    - rewrite map_length, seq_length. reflexivity.
    - intros row Hin. apply in_map_iff in Hin. destruct Hin as [i [<- _]].
      rewrite map_length, seq_length. reflexivity.
  Qed.

  Lemma nth_mat_tab r c (M : mat K) i j :
    (i < r)%nat -> (j < c)%nat -> mat_of K k0 (mat_tab K r c M) i j = M i j.
  Proof.
    intros Hi Hj. unfold mat_of, mat_tab.
    rewrite (nth_indep _ [] (map (fun j0 => M O j0) (seq O c))) by (rewrite map_length, seq_length; auto).
    rewrite (map_nth (fun i0 => map (fun j0 => M i0 j0) (seq O c)) (seq O r) O i).
    rewrite seq_nth by auto. cbn [plus].
    rewrite (nth_indep _ 0 (M i O)) by (rewrite map_length, seq_length; auto).
    rewrite (map_nth (fun j0 => M i j0) (seq O c) O j).
    rewrite seq_nth by auto. reflexivity.
  Qed.

  (* consistent shapes: Ok, an n x n matrix whose entries are those of get_qubo *)
  Theorem checked_ok n feas rho (d : qdata K) :
    dr d = 0 -> shapes_consistent K n d ->
    exists Q k,
      checked feas rho d = Ok (n, Q, k) /\
      length Q = n /\ (forall row, In row Q -> length row = n) /\
      let Qk := get_qubo K k0 k1 kadd kmul kopp (length (db d)) feas rho
                  (mat_of K k0 (dA d), vec_of K k0 (db d), mat_of K k0 (dR d))
                  (vec_of K k0 (dc d), mat_of K k0 (dQo d)) in
      k = snd Qk /\ forall i j, (i < n)%nat -> (j < n)%nat -> mat_of K k0 Q i j = fst Qk i j.
  Proof.
    intros Hr [HA [HR [HQ Hc]]].
    unfold get_qubo_checked. rewrite HA, HR, HQ, Hc. cbn [fst snd].
    assert (E0 : keqb (dr d) 0 = true) by (apply keqb_eq; exact Hr).
    rewrite E0, Nat.eqb_refl, !natpair_eqb_refl. cbn [negb].
    set (Qk := get_qubo K k0 k1 kadd kmul kopp (length (db d)) feas rho _ _).
    exists (mat_tab K n n (fst Qk)), (snd Qk).
    destruct (length_mat_tab n n (fst Qk)) as [L1 L2].
    split; [destruct feas; [reflexivity | rewrite Nat.eqb_refl; reflexivity]|].
    split; [exact L1|]. split; [exact L2|]. split; [reflexivity|].
    intros i j Hi Hj. apply nth_mat_tab; auto.
  Qed.

  (* exactly which inconsistency makes it fail; the only error class is ValueError *)
  Theorem checked_err_iff feas rho (d : qdata K) :
    (exists e, checked feas rho d = Err e) <->
    (dr d <> 0 \/ fst (dA_shape d) <> length (db d)
     \/ dR_shape d <> (snd (dA_shape d), snd (dA_shape d))
     \/ (feas = false /\ (dQo_shape d <> (length (dc d), length (dc d))
                          \/ length (dc d) <> snd (dA_shape d)))).
  Proof.
    unfold get_qubo_checked.
    destruct (keqb (dr d) 0) eqn:E0; cbn [negb].
    2:{ split; [intros _; left; intros H; apply keqb_eq in H; congruence | intros _; eexists; reflexivity]. }
    apply keqb_eq in E0.
    destruct (Nat.eqb_spec (fst (dA_shape d)) (length (db d))) as [E1|E1]; cbn [negb].
    2:{ split; [intros _; right; left; exact E1 | intros _; eexists; reflexivity]. }
    destruct (natpair_eqb (dR_shape d) (snd (dA_shape d), snd (dA_shape d))) eqn:E2; cbn [negb].
    2:{ apply natpair_eqb_neq in E2.
        split; [intros _; right; right; left; exact E2 | intros _; eexists; reflexivity]. }
    apply natpair_eqb_eq in E2.
    destruct feas.
    { split; [intros [e H]; discriminate|].
      intros [H|[H|[H|[H _]]]]; try contradiction; discriminate. }
    destruct (natpair_eqb (dQo_shape d) (length (dc d), length (dc d))) eqn:E3; cbn [negb].
    2:{ apply natpair_eqb_neq in E3.
        split; [intros _; right; right; right; split; [reflexivity|left; exact E3]
               | intros _; eexists; reflexivity]. }
    apply natpair_eqb_eq in E3.
    destruct (Nat.eqb_spec (length (dc d)) (snd (dA_shape d))) as [E4|E4]; cbn [negb].
    2:{ split; [intros _; right; right; right; split; [reflexivity|right; exact E4]
               | intros _; eexists; reflexivity]. }
    split; [intros [e H]; discriminate|].
    intros [H|[H|[H|[_ [H|H]]]]]; contradiction.
  Qed.

  Theorem checked_err_class feas rho (d : qdata K) e :
    checked feas rho d = Err e -> e = ValueError.
  Proof.
    unfold get_qubo_checked.
    repeat match goal with
           | |- context [if ?c then _ else _] => destruct c
           end; intros H; inversion H; reflexivity.
  Qed.
End IdentityGeneric.

(* ---------- instances ---------- *)
Open Scope Z_scope.

Definition Z_identity := get_qubo_identity_expanded Z 0 1 Z.add Z.mul Z.sub Z.opp Zth.
Definition Qc_identity :=
  get_qubo_identity_expanded Qc (Q2Qc 0) 1%Qc Qcplus Qcmult Qcminus Qcopp Qcrt.

Lemma Qc_eq_bool_iff (a b : Qc) : Qc_eq_bool a b = true <-> a = b.
Proof.
  split; [apply Qc_eq_bool_correct|]. intros ->. unfold Qc_eq_bool.
  destruct (Qc_eq_dec b b); [reflexivity|contradiction].
Qed.

(* ====================================================================== *)
(* sums over Z                                                             *)
(* ====================================================================== *)
Lemma sumZn_S n f : sumZn (S n) f = sumZn n f + f n.
Proof. reflexivity. Qed.

Lemma sumZn_ext n f g : (forall i, (i < n)%nat -> f i = g i) -> sumZn n f = sumZn n g.
Proof. apply (sum_ext Z 0 Z.add). Qed.

Lemma sumZn_nonneg n f : (forall i, (i < n)%nat -> 0 <= f i) -> 0 <= sumZn n f.
Proof.
  induction n as [|n IH]; intros H; cbn [sum_n]; [lia|].
  assert (0 <= sumZn n f) by (apply IH; intros; apply H; lia).
  assert (0 <= f n) by (apply H; lia). lia.
Qed.

Lemma sumZn_le n f g : (forall i, (i < n)%nat -> f i <= g i) -> sumZn n f <= sumZn n g.
Proof.
  induction n as [|n IH]; intros H; cbn [sum_n]; [lia|].
  assert (sumZn n f <= sumZn n g) by (apply IH; intros; apply H; lia).
  assert (f n <= g n) by (apply H; lia). lia.
Qed.

Lemma sumZn_zero_iff n f :
  (forall i, (i < n)%nat -> 0 <= f i) ->
  (sumZn n f = 0 <-> forall i, (i < n)%nat -> f i = 0).
Proof.
  induction n as [|n IH]; intros H; cbn [sum_n].
  - split; [intros _ i Hi; lia | reflexivity].
  - assert (H1 : forall i, (i < n)%nat -> 0 <= f i) by (intros; apply H; lia).
    assert (H2 := sumZn_nonneg n f H1). assert (H3 : 0 <= f n) by (apply H; lia).
    split.
    + intros E i Hi. assert (E1 : sumZn n f = 0) by lia. assert (E2 : f n = 0) by lia.
      destruct (Nat.eq_dec i n) as [->|Hne]; [exact E2|].
      apply (proj1 (IH H1) E1). lia.
    + intros E. assert (E1 : sumZn n f = 0) by (apply (IH H1); intros; apply E; lia).
      rewrite E1, (E n) by lia. reflexivity.
Qed.

Lemma sumZn_add n f g : sumZn n (fun i => f i + g i) = sumZn n f + sumZn n g.
Proof. apply (sum_add Z 0 1 Z.add Z.mul Z.sub Z.opp Zth). Qed.

Lemma sumZn_sub n f g : sumZn n (fun i => f i - g i) = sumZn n f - sumZn n g.
Proof. apply (sum_sub Z 0 1 Z.add Z.mul Z.sub Z.opp Zth). Qed.

Lemma sumZn_scal_l n c f : sumZn n (fun i => c * f i) = c * sumZn n f.
Proof. apply (sum_scal_l Z 0 1 Z.add Z.mul Z.sub Z.opp Zth). Qed.

Lemma sumZn_const n c : sumZn n (fun _ => c) = Z.of_nat n * c.
Proof. induction n as [|n IH]; cbn [sum_n]; [lia|]. rewrite IH. lia. Qed.

Lemma sumZn_swap n m (f : nat -> nat -> Z) :
  sumZn n (fun i => sumZn m (fun j => f i j)) = sumZn m (fun j => sumZn n (fun i => f i j)).
Proof. apply (sum_swap Z 0 1 Z.add Z.mul Z.sub Z.opp Zth). Qed.

Lemma sumZn_abs_le n f : Z.abs (sumZn n f) <= sumZn n (fun i => Z.abs (f i)).
Proof. induction n as [|n IH]; cbn [sum_n]; lia. Qed.

Lemma Zbinary_cases n x i : Zbinary n x -> (i < n)%nat -> x i = 0 \/ x i = 1.
Proof. intros H Hi. exact (H i Hi). Qed.

(* ====================================================================== *)
(* C03: the penalty is non-negative and vanishes exactly on the feasible set *)
(* ====================================================================== *)
Definition R_nonneg (n : nat) (R : mat Z) : Prop :=
  forall i j, (i < n)%nat -> (j < n)%nat -> 0 <= R i j.

Lemma qf_R_term_nonneg n R x i j :
  R_nonneg n R -> Zbinary n x -> (i < n)%nat -> (j < n)%nat -> 0 <= R i j * x i * x j.
Proof.
  intros HR Hb Hi Hj. specialize (HR i j Hi Hj).
  destruct (Hb i Hi) as [Ei|Ei], (Hb j Hj) as [Ej|Ej]; rewrite Ei, Ej; lia.
Qed.

Theorem qf_R_nonneg n R x : R_nonneg n R -> Zbinary n x -> 0 <= Zqf n R x.
Proof.
  intros HR Hb. unfold Zqf, qf. apply sumZn_nonneg; intros i Hi.
  apply sumZn_nonneg; intros j Hj. apply (qf_R_term_nonneg n); auto.
Qed.

Theorem qf_R_zero_iff n R x :
  R_nonneg n R -> Zbinary n x ->
  (Zqf n R x = 0 <->
   forall i j, (i < n)%nat -> (j < n)%nat -> 0 < R i j -> x i * x j = 0).
Proof.
  intros HR Hb. unfold Zqf, qf.
  rewrite sumZn_zero_iff
    by (intros i Hi; apply sumZn_nonneg; intros j Hj; apply (qf_R_term_nonneg n); auto).
  split.
  - intros H i j Hi Hj Hpos. specialize (H i Hi).
    rewrite sumZn_zero_iff in H by (intros j' Hj'; apply (qf_R_term_nonneg n); auto).
    specialize (H j Hj).
    destruct (Hb i Hi) as [Ei|Ei], (Hb j Hj) as [Ej|Ej]; rewrite Ei, Ej in *; lia.
  - intros H i Hi.
    apply sumZn_zero_iff; [intros j' Hj'; apply (qf_R_term_nonneg n); auto|].
    intros j Hj. specialize (H i j Hi Hj). specialize (HR i j Hi Hj).
    destruct (Z.eq_dec (R i j) 0) as [E|E]; [rewrite E; lia|].
    assert (Hx : x i * x j = 0) by (apply H; lia).
    rewrite <- Z.mul_assoc, Hx. lia.
Qed.

Lemma resid_sq_nonneg m n A b x : 0 <= resid_sq Z 0 Z.add Z.mul Z.sub m n A b x.
Proof. unfold resid_sq. apply sumZn_nonneg; intros k _. apply Z.square_nonneg. Qed.

Lemma resid_sq_zero_iff m n A b x :
  resid_sq Z 0 Z.add Z.mul Z.sub m n A b x = 0 <-> forall k, (k < m)%nat -> Zmv n A x k = b k.
Proof.
  unfold resid_sq. rewrite sumZn_zero_iff by (intros k _; apply Z.square_nonneg).
  unfold Zmv. split; intros H k Hk; specialize (H k Hk).
  - apply Z.mul_eq_0 in H. lia.
  - rewrite H. lia.
Qed.

Theorem penalty_nonneg m n A b R x : R_nonneg n R -> Zbinary n x -> 0 <= Zpenalty m n A b R x.
Proof.
  intros HR Hb. unfold Zpenalty, penalty.
  assert (H1 := resid_sq_nonneg m n A b x). assert (H2 := qf_R_nonneg n R x HR Hb).
  fold (Zqf n R x). lia.
Qed.

Theorem penalty_zero_iff m n A b R x :
  R_nonneg n R -> Zbinary n x -> (Zpenalty m n A b R x = 0 <-> Zfeasible m n A b R x).
Proof.
  intros HR Hb. unfold Zpenalty, penalty, Zfeasible. fold (Zqf n R x).
  assert (H1 := resid_sq_nonneg m n A b x). assert (H2 := qf_R_nonneg n R x HR Hb).
  rewrite <- resid_sq_zero_iff. lia.
Qed.

(* feasibility mode, default penalty: rho = 0 + 1 and the value is the penalty *)
Lemma default_rho_feas S : Zchoose_rho true S None = 1.
Proof. reflexivity. Qed.

Lemma feas_value_is_penalty n m A b R c Qo S x :
  Zbinary n x ->
  Zqubo_value n (Zget_qubo m true (Zchoose_rho true S None) (A, b, R) (c, Qo)) x
  = Zpenalty m n A b R x.
Proof.
  intros Hb. unfold Zqubo_value, Zget_qubo.
  rewrite (get_qubo_identity Z 0 1 Z.add Z.mul Z.sub Z.opp Zth n m A b R c Qo _ true x Hb).
  rewrite default_rho_feas. unfold Zpenalty. lia.
Qed.

(* ====================================================================== *)
(* C04: exact penalty                                                       *)
(* ====================================================================== *)
Section ExactPenalty.
  Variable n : nat.
  Variables f P : vec Z -> Z.
  Variable feasible : vec Z -> Prop.
  Variables B rho : Z.
  Hypothesis P_nonneg : forall x, Zbinary n x -> 0 <= P x.
  Hypothesis P_zero : forall x, Zbinary n x -> (P x = 0 <-> feasible x).
  Hypothesis f_range : forall x y, Zbinary n x -> Zbinary n y -> f y - f x <= B.
  Hypothesis rho_big : B < rho.

  Definition Hval (x : vec Z) : Z := f x + rho * P x.
  Definition qubo_min (x : vec Z) : Prop := Zbinary n x /\ forall y, Zbinary n y -> Hval x <= Hval y.
  Definition constrained_opt (x : vec Z) : Prop :=
    Zbinary n x /\ feasible x /\ forall y, Zbinary n y -> feasible y -> f x <= f y.

  Lemma H_feasible x : Zbinary n x -> feasible x -> Hval x = f x.
  Proof. intros Hb Hf. unfold Hval. rewrite (proj2 (P_zero x Hb) Hf). lia. Qed.

  Lemma H_infeasible x y :
    Zbinary n x -> Zbinary n y -> ~ feasible x -> f y < Hval x.
  Proof.
    intros Hbx Hby Hnf. unfold Hval.
    assert (H1 := P_nonneg x Hbx).
    assert (H2 : P x <> 0) by (intros E; apply Hnf; apply (P_zero x Hbx); exact E).
    assert (H3 := f_range x y Hbx Hby).
    assert (H4 := f_range x x Hbx Hbx).
    assert (H5 : rho <= rho * P x) by nia.
    lia.
  Qed.

  Lemma qubo_min_feasible x : (exists z, Zbinary n z /\ feasible z) -> qubo_min x -> feasible x.
  Proof.
    intros [z [Hbz Hfz]] [Hbx Hmin].
    destruct (Z.eq_dec (P x) 0) as [E|E]; [apply (P_zero x Hbx); exact E|].
    exfalso.
    assert (Hnf : ~ feasible x) by (intros Hf; apply E; apply (P_zero x Hbx); exact Hf).
    assert (H1 := H_infeasible x z Hbx Hbz Hnf).
    assert (H2 := Hmin z Hbz). rewrite (H_feasible z Hbz Hfz) in H2. lia.
  Qed.

  Theorem exact_penalty_sets x :
    (exists z, Zbinary n z /\ feasible z) -> (qubo_min x <-> constrained_opt x).
  Proof.
    intros Hex. split.
    - intros Hq. assert (Hf := qubo_min_feasible x Hex Hq). destruct Hq as [Hbx Hmin].
      split; [exact Hbx|]. split; [exact Hf|].
      intros y Hby Hfy. specialize (Hmin y Hby).
      rewrite (H_feasible x Hbx Hf), (H_feasible y Hby Hfy) in Hmin. exact Hmin.
    - intros [Hbx [Hf Hopt]]. split; [exact Hbx|].
      intros y Hby. rewrite (H_feasible x Hbx Hf).
      destruct (Z.eq_dec (P y) 0) as [E|E].
      + assert (Hfy : feasible y) by (apply (P_zero y Hby); exact E).
        rewrite (H_feasible y Hby Hfy). apply Hopt; auto.
      + assert (Hnf : ~ feasible y) by (intros Hfy; apply E; apply (P_zero y Hby); exact Hfy).
        assert (H1 := H_infeasible y x Hby Hbx Hnf). lia.
  Qed.

  Theorem exact_penalty_value x y : qubo_min x -> constrained_opt y -> Hval x = f y.
  Proof.
    intros Hq Ho.
    assert (Hex : exists z, Zbinary n z /\ feasible z) by (exists y; destruct Ho as [? [? ?]]; auto).
    assert (Hx := proj1 (exact_penalty_sets x Hex) Hq).
    destruct Hx as [Hbx [Hfx Hoptx]]. destruct Ho as [Hby [Hfy Hopty]].
    rewrite (H_feasible x Hbx Hfx).
    assert (f x <= f y) by (apply Hoptx; auto). assert (f y <= f x) by (apply Hopty; auto). lia.
  Qed.
End ExactPenalty.

(* ---------- the range of the objective ---------- *)
Lemma lin_term_bound c x y : (x = 0 \/ x = 1) -> (y = 0 \/ y = 1) -> c * y - c * x <= Z.abs c.
Proof. intros [->| ->] [->| ->]; lia. Qed.

Lemma quad_term_bound q xi xj yi yj :
  (xi = 0 \/ xi = 1) -> (xj = 0 \/ xj = 1) -> (yi = 0 \/ yi = 1) -> (yj = 0 \/ yj = 1) ->
  q * yi * yj - q * xi * xj <= Z.abs q.
Proof. intros [->| ->] [->| ->] [->| ->] [->| ->]; lia. Qed.

Theorem objective_range n c Qo x y :
  Zbinary n x -> Zbinary n y ->
  Zobjective n c Qo y - Zobjective n c Qo x <= coeff_sum n c Qo.
Proof.
  intros Hx Hy. unfold Zobjective, objective, coeff_sum, dot, qf.
  assert (H1 : sumZn n (fun i => c i * y i) - sumZn n (fun i => c i * x i)
               <= sumZn n (fun i => Z.abs (c i))).
  { rewrite <- sumZn_sub. apply sumZn_le; intros i Hi. apply lin_term_bound; auto. }
  assert (H2 : sumZn n (fun i => sumZn n (fun j => Qo i j * y i * y j))
               - sumZn n (fun i => sumZn n (fun j => Qo i j * x i * x j))
               <= sumZn n (fun i => sumZn n (fun j => Z.abs (Qo i j)))).
  { rewrite <- sumZn_sub. apply sumZn_le; intros i Hi.
    rewrite <- sumZn_sub. apply sumZn_le; intros j Hj. apply quad_term_bound; auto. }
  lia.
Qed.

(* ---------- default penalty: rho = S + 1 with S >= coefficient sum ---------- *)
Section DefaultExact.
  Variables (n m : nat) (A : mat Z) (b : vec Z) (R : mat Z) (c : vec Z) (Qo : mat Z) (S : Z).
  Hypothesis HR : R_nonneg n R.
  Hypothesis HS : coeff_sum n c Qo <= S.

  Definition default_Qk := Zget_qubo m false (Zchoose_rho false S None) (A, b, R) (c, Qo).
  Definition default_value (x : vec Z) : Z := Zqubo_value n default_Qk x.

  Lemma default_value_eq x :
    Zbinary n x -> default_value x = Hval (Zobjective n c Qo) (Zpenalty m n A b R) (S + 1) x.
  Proof.
    intros Hb. unfold default_value, default_Qk, Zqubo_value, Zget_qubo, Hval.
    rewrite (get_qubo_identity Z 0 1 Z.add Z.mul Z.sub Z.opp Zth n m A b R c Qo _ false x Hb).
    reflexivity.
  Qed.

  Theorem default_exact_sets x :
    (exists z, Zbinary n z /\ Zfeasible m n A b R z) ->
    ((Zbinary n x /\ forall y, Zbinary n y -> default_value x <= default_value y) <->
     (Zbinary n x /\ Zfeasible m n A b R x /\
      forall y, Zbinary n y -> Zfeasible m n A b R y -> Zobjective n c Qo x <= Zobjective n c Qo y)).
  Proof.
    intros Hex.
    rewrite <- (exact_penalty_sets n (Zobjective n c Qo) (Zpenalty m n A b R) (Zfeasible m n A b R)
                  S (S + 1)
                  (fun x Hb => penalty_nonneg m n A b R x HR Hb)
                  (fun x Hb => penalty_zero_iff m n A b R x HR Hb)
                  (fun x y Hx Hy => Z.le_trans _ _ _ (objective_range n c Qo x y Hx Hy) HS)
                  ltac:(lia) x Hex).
    unfold qubo_min. split; intros [Hb H]; (split; [exact Hb|]); intros y Hy; specialize (H y Hy).
    - rewrite <- !default_value_eq; auto.
    - rewrite !default_value_eq; auto.
  Qed.

  Theorem default_exact_value x y :
    (Zbinary n x /\ forall z, Zbinary n z -> default_value x <= default_value z) ->
    (Zbinary n y /\ Zfeasible m n A b R y /\
     forall z, Zbinary n z -> Zfeasible m n A b R z -> Zobjective n c Qo y <= Zobjective n c Qo z) ->
    default_value x = Zobjective n c Qo y.
  Proof.
    intros [Hbx Hmin] Hopt. rewrite default_value_eq by exact Hbx.
    apply (exact_penalty_value n (Zobjective n c Qo) (Zpenalty m n A b R) (Zfeasible m n A b R)
             S (S + 1)
             (fun x Hb => penalty_nonneg m n A b R x HR Hb)
             (fun x Hb => penalty_zero_iff m n A b R x HR Hb)
             (fun x y Hx Hy => Z.le_trans _ _ _ (objective_range n c Qo x y Hx Hy) HS)
             ltac:(lia)).
    - split; [exact Hbx|]. intros z Hz. specialize (Hmin z Hz).
      rewrite !default_value_eq in Hmin; auto.
    - exact Hopt.
  Qed.
End DefaultExact.

(* ====================================================================== *)
(* C04: the sufficient penalties dominate the sum of |objective coefficients| *)
(* ====================================================================== *)
Lemma sumZ_app l1 l2 : sumZ (l1 ++ l2) = sumZ l1 + sumZ l2.
Proof. unfold sumZ. induction l1 as [|a l1 IH]; simpl; lia. Qed.

Lemma sumZ_cons a l : sumZ (a :: l) = a + sumZ l.
Proof. reflexivity. Qed.

Lemma sumZ_map_nonneg {A} (w : A -> Z) l : (forall a, 0 <= w a) -> 0 <= sumZ (map w l).
Proof.
  intros H. induction l as [|a l IH]; cbn [map]; [cbn; lia|]. rewrite sumZ_cons. specialize (H a). lia.
Qed.

Lemma sumZ_map_le {A} (f g : A -> Z) l :
  (forall a, In a l -> f a <= g a) -> sumZ (map f l) <= sumZ (map g l).
Proof.
  induction l as [|a l IH]; intros H; cbn [map]; [cbn; lia|]. rewrite !sumZ_cons.
  assert (f a <= g a) by (apply H; left; reflexivity).
  assert (sumZ (map f l) <= sumZ (map g l)) by (apply IH; intros; apply H; right; auto). lia.
Qed.

Lemma sumZ_map_ext {A} (f g : A -> Z) l :
  (forall a, In a l -> f a = g a) -> sumZ (map f l) = sumZ (map g l).
Proof. intros H. f_equal. apply map_ext_in. exact H. Qed.

(* a duplicate-free list included in another one has a smaller non-negative weight *)
Lemma sumZ_incl_le {A} (w : A -> Z) :
  (forall a, 0 <= w a) ->
  forall l l', NoDup l -> incl l l' -> sumZ (map w l) <= sumZ (map w l').
Proof.
  intros Hw. induction l as [|a l IH]; intros l' Hnd Hincl; cbn [map].
  - cbn. apply sumZ_map_nonneg; auto.
  - inversion Hnd as [|a' l0 Hnotin Hnd']; subst.
    assert (Hin : In a l') by (apply Hincl; left; reflexivity).
    destruct (in_split a l' Hin) as [l1 [l2 ->]].
    assert (Hincl' : incl l (l1 ++ l2)).
    { intros x Hx. assert (Hx' : In x (l1 ++ a :: l2)) by (apply Hincl; right; exact Hx).
      apply in_app_iff in Hx'. apply in_app_iff. destruct Hx' as [H|[H|H]]; auto.
      subst. contradiction. }
    specialize (IH (l1 ++ l2) Hnd' Hincl').
    rewrite map_app, sumZ_app in *. cbn [map]. rewrite !sumZ_cons. lia.
Qed.

Lemma sumZ_nth {A} (g : A -> Z) (l : list A) (d : A) :
  sumZ (map g l) = sumZn (length l) (fun i => g (nth i l d)).
Proof.
  induction l as [|x l IH] using rev_ind; [reflexivity|].
  rewrite map_app, sumZ_app, app_length. cbn [length map]. rewrite Nat.add_1_r, sumZn_S.
  rewrite app_nth2, Nat.sub_diag by lia. cbn [nth]. rewrite sumZ_cons. cbn [sumZ fold_right].
  rewrite IH. rewrite (sumZn_ext (length l) (fun i => g (nth i (l ++ [x]) d)) (fun i => g (nth i l d))).
  - lia.
  - intros i Hi. rewrite app_nth1 by exact Hi. reflexivity.
Qed.

Lemma sumZ_seq n f : sumZ (map f (seq O n)) = sumZn n f.
Proof.
  rewrite (sumZ_nth f (seq O n) O), seq_length. apply sumZn_ext. intros i Hi.
  rewrite seq_nth by exact Hi. reflexivity.
Qed.

Lemma sumZ_list_prod {A B} (h : A * B -> Z) (l1 : list A) (l2 : list B) :
  sumZ (map h (list_prod l1 l2)) = sumZ (map (fun x => sumZ (map (fun y => h (x, y)) l2)) l1).
Proof.
  induction l1 as [|x l1 IH]; [reflexivity|].
  cbn [list_prod map]. rewrite map_app, sumZ_app, map_map, IH, sumZ_cons. reflexivity.
Qed.

Lemma sumZ_flat_map {A} (g : A -> list Z) (l : list A) :
  sumZ (flat_map g l) = sumZ (map (fun a => sumZ (g a)) l).
Proof.
  induction l as [|a l IH]; [reflexivity|]. cbn [flat_map map]. rewrite sumZ_app, sumZ_cons, IH. reflexivity.
Qed.

Lemma sumZ_map_const {A} (l : list A) c : sumZ (map (fun _ => c) l) = Z.of_nat (length l) * c.
Proof. induction l as [|a l IH]; [reflexivity|]. cbn [map length]. rewrite sumZ_cons, IH. lia. Qed.

Lemma sumZ_map_scal {A} (f : A -> Z) (l : list A) c : sumZ (map (fun a => c * f a) l) = c * sumZ (map f l).
Proof. induction l as [|a l IH]; [cbn; lia|]. cbn [map]. rewrite !sumZ_cons, IH. lia. Qed.

Lemma coeff_sum_linear n c : coeff_sum n c (fun _ _ => 0) = sumZn n (fun i => Z.abs (c i)).
Proof.
  unfold coeff_sum.
  rewrite (sumZn_ext n (fun i => sumZn n (fun j => Z.abs 0)) (fun _ => 0)).
  - rewrite sumZn_const. lia.
  - intros i _. rewrite sumZn_const. lia.
Qed.

(* ---------- path ---------- *)
Theorem S_path_is_coeff_sum (rc : list Z) :
  coeff_sum (length rc) (Zvec_of rc) (fun _ _ => 0) = S_path rc.
Proof.
  rewrite coeff_sum_linear. unfold S_path, Zvec_of, vec_of.
  rewrite (sumZ_nth Z.abs rc 0). reflexivity.
Qed.

(* ---------- arc ---------- *)
Definition avar_conv (v : avar) : nat * (Z * Z) := (fst (fst v), (snd (fst v), snd v)).

Lemma avar_conv_inj : forall a b, avar_conv a = avar_conv b -> a = b.
Proof. intros [[a s] t] [[a' s'] t']; unfold avar_conv; cbn. intros H; inversion H; reflexivity. Qed.

Lemma sumZ_abs_nth_seq (costs : list Z) :
  sumZ (map (fun a => Z.abs (nth a costs 0)) (seq O (length costs))) = sumZ (map Z.abs costs).
Proof. rewrite sumZ_seq. symmetry. apply (sumZ_nth Z.abs costs 0). Qed.

Theorem S_arc_bounds_coeff_sum (costs grid : list Z) (vars : list avar) :
  NoDup vars ->
  (forall a s t, In (a, s, t) vars -> (a < length costs)%nat /\ In s grid /\ In t grid) ->
  coeff_sum (length vars) (arc_obj costs vars) (fun _ _ => 0) <= S_arc costs (length grid).
Proof.
  intros Hnd Hin. rewrite coeff_sum_linear. unfold arc_obj.
  rewrite <- (sumZ_nth (fun v => Z.abs (nth (avar_arc v) costs 0)) vars (O, 0, 0)).
  set (w := fun p : nat * (Z * Z) => Z.abs (nth (fst p) costs 0)).
  rewrite (sumZ_map_ext _ (fun v => w (avar_conv v)) vars) by (intros [[a s] t] _; reflexivity).
  rewrite <- (map_map avar_conv w).
  assert (Hle := sumZ_incl_le w (fun p => Z.abs_nonneg _) (map avar_conv vars)
                   (list_prod (seq O (length costs)) (list_prod grid grid))).
  assert (Hnd' : NoDup (map avar_conv vars)).
  { apply FinFun.Injective_map_NoDup; [exact avar_conv_inj | exact Hnd]. }
  assert (Hincl : incl (map avar_conv vars) (list_prod (seq O (length costs)) (list_prod grid grid))).
  { intros p Hp. apply in_map_iff in Hp. destruct Hp as [[[a s] t] [<- Hv]].
    destruct (Hin a s t Hv) as [Ha [Hs Ht]]. unfold avar_conv; cbn [fst snd].
    apply in_prod; [apply in_seq; lia | apply in_prod; auto]. }
  specialize (Hle Hnd' Hincl).
  eapply Z.le_trans; [exact Hle|]. clear Hle.
  rewrite sumZ_list_prod. unfold w; cbn [fst].
  rewrite (sumZ_map_ext _ (fun a => Z.of_nat (length (list_prod grid grid)) * Z.abs (nth a costs 0)))
    by (intros a _; apply sumZ_map_const).
  rewrite sumZ_map_scal, sumZ_abs_nth_seq, prod_length. unfold S_arc. lia.
Qed.

(* ---------- sequence ---------- *)
Lemma sumZn_delta_abs n k v :
  sumZn n (fun i => Z.abs (if Nat.eqb k i then v else 0)) = if Nat.ltb k n then Z.abs v else 0.
Proof.
  induction n as [|n IH]; [reflexivity|]. rewrite sumZn_S, IH.
  destruct (Nat.eqb_spec k n) as [E|E], (Nat.ltb_spec k n) as [H1|H1], (Nat.ltb_spec k (S n)) as [H2|H2];
    lia.
Qed.

Lemma sumZn_delta_abs_le n k v : sumZn n (fun i => Z.abs (if Nat.eqb k i then v else 0)) <= Z.abs v.
Proof. rewrite sumZn_delta_abs. destruct (Nat.ltb k n); lia. Qed.

Definition lin_abs (costs vcs : list Z) (lin : list lin_entry) : Z :=
  sumZ (map (fun e : lin_entry => Z.abs (tr_weight costs vcs (snd (fst e)))) lin).
Definition quad_abs (costs vcs : list Z) (quad : list quad_entry) : Z :=
  sumZ (map (fun e : quad_entry => Z.abs (tr_weight costs vcs (snd e))) quad).

Lemma seq_c_bound n costs vcs lin :
  (forall e, In e lin -> 0 <= snd e <= 1) ->
  sumZn n (fun i => Z.abs (seq_c costs vcs lin i)) <= lin_abs costs vcs lin.
Proof.
  induction lin as [|[[k t] fv] lin IH]; intros Hfv.
  - unfold seq_c, lin_abs. cbn [map sumZ fold_right]. rewrite sumZn_const. lia.
  - assert (Hfv' : forall e, In e lin -> 0 <= snd e <= 1) by (intros; apply Hfv; right; auto).
    specialize (IH Hfv'). assert (H01 := Hfv (k, t, fv) (or_introl eq_refl)). cbn [snd] in H01.
    unfold lin_abs in *. cbn [map fst snd]. rewrite sumZ_cons.
    eapply Z.le_trans.
    + apply (sumZn_le n _ (fun i => Z.abs (if Nat.eqb k i then tr_weight costs vcs t * fv else 0)
                                   + Z.abs (seq_c costs vcs lin i))).
      intros i _. unfold seq_c. cbn [map]. rewrite sumZ_cons. apply Z.abs_triangle.
    + rewrite sumZn_add.
      assert (H1 := sumZn_delta_abs_le n k (tr_weight costs vcs t * fv)).
      assert (H2 : Z.abs (tr_weight costs vcs t * fv) <= Z.abs (tr_weight costs vcs t)).
      { rewrite Z.abs_mul. assert (0 <= Z.abs (tr_weight costs vcs t)) by apply Z.abs_nonneg. nia. }
      lia.
Qed.

Lemma sumZn_delta2_abs_le n r c v :
  sumZn n (fun i => sumZn n (fun j => Z.abs (if natpair_eqb (r, c) (i, j) then v else 0))) <= Z.abs v.
Proof.
  eapply Z.le_trans; [|apply (sumZn_delta_abs_le n r v)].
  apply sumZn_le. intros i _. unfold natpair_eqb; cbn [fst snd].
  destruct (Nat.eqb r i); cbn [andb].
  - apply sumZn_delta_abs_le.
  - rewrite sumZn_const. lia.
Qed.

Lemma seq_Qo_bound n costs vcs quad :
  sumZn n (fun i => sumZn n (fun j => Z.abs (seq_Qo costs vcs quad i j))) <= quad_abs costs vcs quad.
Proof.
  induction quad as [|[[r c] t] quad IH].
  - unfold seq_Qo, quad_abs. cbn [map sumZ fold_right].
    rewrite (sumZn_ext n _ (fun _ => 0)) by (intros i _; rewrite sumZn_const; lia).
    rewrite sumZn_const. lia.
  - unfold quad_abs in *. cbn [map snd]. rewrite sumZ_cons.
    eapply Z.le_trans.
    + apply (sumZn_le n _ (fun i =>
               sumZn n (fun j => Z.abs (if natpair_eqb (r, c) (i, j) then tr_weight costs vcs t else 0))
               + sumZn n (fun j => Z.abs (seq_Qo costs vcs quad i j)))).
      intros i _. rewrite <- sumZn_add. apply sumZn_le. intros j _.
      unfold seq_Qo. cbn [map]. rewrite sumZ_cons. apply Z.abs_triangle.
    + rewrite sumZn_add. assert (H1 := sumZn_delta2_abs_le n r c (tr_weight costs vcs t)). lia.
Qed.

Definition seq_triples (lin : list lin_entry) (quad : list quad_entry) : list triple :=
  map (fun e : lin_entry => snd (fst e)) lin ++ map (fun e : quad_entry => snd e) quad.

Lemma seq_product_sum (Ln V : nat) (costs vcs : list Z) :
  length vcs = V ->
  sumZ (map (fun t : triple => Z.abs (tr_weight costs vcs t))
            (list_prod (list_prod (seq O V) (seq O Ln)) (seq O (length costs))))
  = Z.of_nat Ln * sumZ (flat_map (fun a => map (fun v => Z.abs (a + v)) vcs) costs).
Proof.
  intros HV.
  etransitivity.
  { apply (sumZ_list_prod (fun t : (nat * nat) * nat => Z.abs (tr_weight costs vcs t))
             (list_prod (seq O V) (seq O Ln)) (seq O (length costs))). }
  rewrite (sumZ_list_prod
             (fun p : nat * nat => sumZ (map (fun y => Z.abs (tr_weight costs vcs (p, y))) (seq O (length costs))))).
  cbn [tr_weight].
  rewrite (sumZ_map_ext _ (fun v => Z.of_nat Ln *
             sumZ (map (fun a => Z.abs (nth a costs 0 + nth v vcs 0)) (seq O (length costs)))) (seq O V)).
  2:{ intros v _. rewrite sumZ_map_const, seq_length. reflexivity. }
  rewrite sumZ_map_scal. f_equal.
  rewrite sumZ_seq.
  rewrite (sumZn_ext V _ (fun v => sumZn (length costs) (fun a => Z.abs (nth a costs 0 + nth v vcs 0))))
    by (intros v _; apply sumZ_seq).
  rewrite sumZn_swap.
  rewrite sumZ_flat_map.
  rewrite (sumZ_nth (fun a => sumZ (map (fun v => Z.abs (a + v)) vcs)) costs 0).
  apply sumZn_ext. intros a _.
  rewrite (sumZ_nth (fun v => Z.abs (nth a costs 0 + v)) vcs 0), HV. reflexivity.
Qed.

Theorem S_seq_bounds_coeff_sum (n : nat) (L : Z) (V : nat) (costs vcs : list Z)
        (lin : list lin_entry) (quad : list quad_entry) :
  0 <= L -> length vcs = V ->
  NoDup (seq_triples lin quad) ->
  (forall v si a, In (v, si, a) (seq_triples lin quad) ->
                  (v < V)%nat /\ Z.of_nat si + 1 < L /\ (a < length costs)%nat) ->
  (forall e, In e lin -> 0 <= snd e <= 1) ->
  coeff_sum n (seq_c costs vcs lin) (seq_Qo costs vcs quad) <= S_seq L costs vcs.
Proof.
  intros HL HV Hnd Hb Hfv. unfold coeff_sum.
  assert (H1 := seq_c_bound n costs vcs lin Hfv).
  assert (H2 := seq_Qo_bound n costs vcs quad).
  set (w := fun t : triple => Z.abs (tr_weight costs vcs t)).
  assert (H3 : lin_abs costs vcs lin + quad_abs costs vcs quad = sumZ (map w (seq_triples lin quad))).
  { unfold lin_abs, quad_abs, seq_triples. rewrite map_app, sumZ_app, !map_map. reflexivity. }
  set (Ln := Z.to_nat (L - 1)).
  assert (Hincl : incl (seq_triples lin quad)
                       (list_prod (list_prod (seq O V) (seq O Ln)) (seq O (length costs)))).
  { intros [[v si] a] Hin. destruct (Hb v si a Hin) as [Hv [Hs Ha]].
    apply in_prod; [apply in_prod|]; apply in_seq; unfold Ln; lia. }
  assert (H4 := sumZ_incl_le w (fun t => Z.abs_nonneg _) _ _ Hnd Hincl).
  unfold w at 2 in H4. rewrite (seq_product_sum Ln V costs vcs HV) in H4.
  unfold S_seq.
  set (X := sumZ (flat_map (fun a => map (fun v => Z.abs (a + v)) vcs) costs)) in *.
  assert (HX : 0 <= X).
  { unfold X. rewrite sumZ_flat_map. apply sumZ_map_nonneg. intros a.
    apply sumZ_map_nonneg. intros v. apply Z.abs_nonneg. }
  assert (HLn : Z.of_nat Ln <= L) by (unfold Ln; lia).
  assert (Z.of_nat Ln * X <= L * X) by nia.
  lia.
Qed.

(* ---------- the decidable structure tests used by the correspondence imply the hypotheses ---------- *)
Lemma nodupb_sound {A} (eqb : A -> A -> bool) :
  (forall a b, eqb a b = true <-> a = b) -> forall l, nodupb eqb l = true -> NoDup l.
Proof.
  intros Heq. induction l as [|x l IH]; intros H; [constructor|].
  cbn [nodupb] in H. apply andb_true_iff in H. destruct H as [H1 H2].
  constructor; [|apply IH; exact H2].
  intros Hin. apply negb_true_iff in H1.
  assert (E : existsb (eqb x) l = true) by (apply existsb_exists; exists x; split; [exact Hin | apply Heq; reflexivity]).
  congruence.
Qed.

Lemma avar_eqb_eq a b : avar_eqb a b = true <-> a = b.
Proof.
  destruct a as [[a s] t], b as [[a' s'] t']. unfold avar_eqb.
  rewrite !andb_true_iff, Nat.eqb_eq, !Z.eqb_eq.
  split; [intros [[-> ->] ->]; reflexivity | intros H; inversion H; auto].
Qed.

Lemma triple_eqb_eq a b : triple_eqb a b = true <-> a = b.
Proof.
  destruct a as [[a s] t], b as [[a' s'] t']. unfold triple_eqb.
  rewrite !andb_true_iff, !Nat.eqb_eq.
  split; [intros [[-> ->] ->]; reflexivity | intros H; inversion H; auto].
Qed.

Lemma memZ_In x l : memZ x l = true -> In x l.
Proof.
  unfold memZ. intros H. apply existsb_exists in H. destruct H as [y [Hy E]].
  apply Z.eqb_eq in E. subst. exact Hy.
Qed.

Theorem arc_struct_ok_sound costs grid vars :
  arc_struct_ok costs grid vars = true ->
  NoDup vars /\
  (forall a s t, In (a, s, t) vars -> (a < length costs)%nat /\ In s grid /\ In t grid).
Proof.
  unfold arc_struct_ok. rewrite andb_true_iff. intros [H1 H2]. split.
  - apply (nodupb_sound avar_eqb avar_eqb_eq). exact H1.
  - intros a s t Hin. rewrite forallb_forall in H2. specialize (H2 _ Hin). cbn in H2.
    rewrite !andb_true_iff in H2. destruct H2 as [[Ha Hs] Ht].
    apply Nat.ltb_lt in Ha. split; [exact Ha|]. split; apply memZ_In; assumption.
Qed.

Theorem seq_struct_ok_sound L V costs vcs lin quad :
  seq_struct_ok L V costs vcs lin quad = true ->
  length vcs = V /\ NoDup (seq_triples lin quad) /\
  (forall v si a, In (v, si, a) (seq_triples lin quad) ->
                  (v < V)%nat /\ Z.of_nat si + 1 < L /\ (a < length costs)%nat) /\
  (forall e, In e lin -> 0 <= snd e <= 1).
Proof.
  unfold seq_struct_ok. fold (seq_triples lin quad).
  rewrite !andb_true_iff. intros [[[H1 H2] H3] H4].
  split; [apply Nat.eqb_eq; exact H1|].
  split; [apply (nodupb_sound triple_eqb triple_eqb_eq); exact H2|].
  split.
  - intros v si a Hin. rewrite forallb_forall in H3. specialize (H3 _ Hin). cbn in H3.
    rewrite !andb_true_iff in H3. destruct H3 as [[Hv Hs] Ha].
    apply Nat.ltb_lt in Hv. apply Nat.ltb_lt in Ha. apply Z.ltb_lt in Hs. auto.
  - intros e Hin. rewrite forallb_forall in H4. specialize (H4 _ Hin).
    rewrite andb_true_iff in H4. destruct H4 as [Ha Hb].
    apply Z.leb_le in Ha. apply Z.leb_le in Hb. lia.
Qed.

(* ====================================================================== *)
(* C03 in terms of the QUBO that get_qubo(feasibility=True) returns         *)
(* ====================================================================== *)
Section FeasibilityQubo.
  Variables (n m : nat) (A : mat Z) (b : vec Z) (R : mat Z) (c : vec Z) (Qo : mat Z) (S : Z).
  Hypothesis HR : R_nonneg n R.

  Definition feas_value (x : vec Z) : Z :=
    Zqubo_value n (Zget_qubo m true (Zchoose_rho true S None) (A, b, R) (c, Qo)) x.

  Theorem feas_value_nonneg x : Zbinary n x -> 0 <= feas_value x.
  Proof.
    intros Hb. unfold feas_value. rewrite feas_value_is_penalty by exact Hb.
    apply penalty_nonneg; auto.
  Qed.

  Theorem feas_value_zero_iff x : Zbinary n x -> (feas_value x = 0 <-> Zfeasible m n A b R x).
  Proof.
    intros Hb. unfold feas_value. rewrite feas_value_is_penalty by exact Hb.
    apply penalty_zero_iff; auto.
  Qed.

  Theorem feas_min_zero_iff :
    (exists x, Zbinary n x /\ feas_value x = 0 /\ forall y, Zbinary n y -> feas_value x <= feas_value y)
    <-> (exists x, Zbinary n x /\ Zfeasible m n A b R x).
  Proof.
    split.
    - intros [x [Hb [E _]]]. exists x. split; [exact Hb|]. apply feas_value_zero_iff; auto.
    - intros [x [Hb Hf]]. exists x. split; [exact Hb|].
      assert (E : feas_value x = 0) by (apply feas_value_zero_iff; auto).
      split; [exact E|]. intros y Hy. rewrite E. apply feas_value_nonneg; auto.
  Qed.
End FeasibilityQubo.

(* ====================================================================== *)
(* C04 per formulation: default penalty S_F + 1                             *)
(* ====================================================================== *)
Definition is_default_min n m A b R c Qo S (x : vec Z) : Prop :=
  Zbinary n x /\ forall y, Zbinary n y -> default_value n m A b R c Qo S x <= default_value n m A b R c Qo S y.
Definition is_constrained_opt n m A b R c Qo (x : vec Z) : Prop :=
  Zbinary n x /\ Zfeasible m n A b R x /\
  forall y, Zbinary n y -> Zfeasible m n A b R y -> Zobjective n c Qo x <= Zobjective n c Qo y.

Theorem default_exact n m A b R c Qo S :
  R_nonneg n R -> coeff_sum n c Qo <= S ->
  (exists z, Zbinary n z /\ Zfeasible m n A b R z) ->
  (forall x, is_default_min n m A b R c Qo S x <-> is_constrained_opt n m A b R c Qo x) /\
  (forall x y, is_default_min n m A b R c Qo S x -> is_constrained_opt n m A b R c Qo y ->
               default_value n m A b R c Qo S x = Zobjective n c Qo y).
Proof.
  intros HR HS Hex. split.
  - intros x. exact (default_exact_sets n m A b R c Qo S HR HS x Hex).
  - intros x y. exact (default_exact_value n m A b R c Qo S HR HS x y).
Qed.

(* the three formulations: structure of the objective + their own S + 1 *)
Theorem arc_default_exact (costs grid : list Z) (vars : list avar) m A b R :
  NoDup vars ->
  (forall a s t, In (a, s, t) vars -> (a < length costs)%nat /\ In s grid /\ In t grid) ->
  R_nonneg (length vars) R ->
  (exists z, Zbinary (length vars) z /\ Zfeasible m (length vars) A b R z) ->
  let n := length vars in
  let c := arc_obj costs vars in
  let S := S_arc costs (length grid) in
  (forall x, is_default_min n m A b R c (fun _ _ => 0) S x <-> is_constrained_opt n m A b R c (fun _ _ => 0) x) /\
  (forall x y, is_default_min n m A b R c (fun _ _ => 0) S x -> is_constrained_opt n m A b R c (fun _ _ => 0) y ->
               default_value n m A b R c (fun _ _ => 0) S x = Zobjective n c (fun _ _ => 0) y).
Proof.
  intros Hnd Hin HR Hex. cbv zeta.
  apply default_exact; [exact HR | apply S_arc_bounds_coeff_sum; assumption | exact Hex].
Qed.

Theorem path_default_exact (rc : list Z) m A b R :
  R_nonneg (length rc) R ->
  (exists z, Zbinary (length rc) z /\ Zfeasible m (length rc) A b R z) ->
  let n := length rc in
  let c := Zvec_of rc in
  let S := S_path rc in
  (forall x, is_default_min n m A b R c (fun _ _ => 0) S x <-> is_constrained_opt n m A b R c (fun _ _ => 0) x) /\
  (forall x y, is_default_min n m A b R c (fun _ _ => 0) S x -> is_constrained_opt n m A b R c (fun _ _ => 0) y ->
               default_value n m A b R c (fun _ _ => 0) S x = Zobjective n c (fun _ _ => 0) y).
Proof.
  intros HR Hex. cbv zeta.
  apply default_exact; [exact HR | rewrite S_path_is_coeff_sum; apply Z.le_refl | exact Hex].
Qed.

Theorem seq_default_exact (n : nat) (L : Z) (V : nat) (costs vcs : list Z)
        (lin : list lin_entry) (quad : list quad_entry) m A b R :
  0 <= L -> length vcs = V ->
  NoDup (seq_triples lin quad) ->
  (forall v si a, In (v, si, a) (seq_triples lin quad) ->
                  (v < V)%nat /\ Z.of_nat si + 1 < L /\ (a < length costs)%nat) ->
  (forall e, In e lin -> 0 <= snd e <= 1) ->
  R_nonneg n R ->
  (exists z, Zbinary n z /\ Zfeasible m n A b R z) ->
  let c := seq_c costs vcs lin in
  let Qo := seq_Qo costs vcs quad in
  let S := S_seq L costs vcs in
  (forall x, is_default_min n m A b R c Qo S x <-> is_constrained_opt n m A b R c Qo x) /\
  (forall x y, is_default_min n m A b R c Qo S x -> is_constrained_opt n m A b R c Qo y ->
               default_value n m A b R c Qo S x = Zobjective n c Qo y).
Proof.
  intros HL HV Hnd Hb Hfv HR Hex. cbv zeta.
  apply default_exact; [exact HR | apply (S_seq_bounds_coeff_sum n L V); assumption | exact Hex].
Qed.
