(* Qubo_facts.v -- proofs about the model Qubo.v (properties C01, C13).
   Part 1: the pattern classification (strings).
   Part 2: algebra over an arbitrary commutative ring with elements half, quarter such that
           (1+1)*half = 1 and (1+1+(1+1))*quarter = 1.
   Part 3: the two instances Qc (axiom-free) and R, and the agreement of the truncating maps
           x2s_t / s2x_t with x2s / s2x on binary / spin vectors. *)
From Coq Require Import Ring Arith Lia List Bool String Ascii QArith Qcanon Reals.
From VQ Require Import Base LinAlg Qubo.
Import ListNotations.

(* ====================================================================================== *)
(* Part 1: classify                                                                         *)
(* ====================================================================================== *)
Lemma lower_ascii_idem c : lower_ascii (lower_ascii c) = lower_ascii c.
Proof. destruct c as [[] [] [] [] [] [] [] []]; reflexivity. Qed.

Lemma lower_idem s : lower (lower s) = lower s.
Proof. induction s as [|c s IH]; simpl; [reflexivity|]. rewrite lower_ascii_idem, IH. reflexivity. Qed.

Lemma classify_case_insensitive s t : lower s = lower t -> classify s = classify t.
Proof. unfold classify. intros ->. reflexivity. Qed.

Lemma classify_lower s : classify (lower s) = classify s.
Proof. apply classify_case_insensitive, lower_idem. Qed.

Lemma classify_upper_iff s : classify s = PUpper <-> lower s = "upper-triangular"%string.
Proof.
  unfold classify. destruct (String.eqb_spec (lower s) "upper-triangular") as [E|E].
  - tauto.
  - destruct (String.eqb (lower s) "symmetric"); split; intros H; try discriminate; contradiction.
Qed.

Lemma classify_sym_iff s : classify s = PSym <-> lower s = "symmetric"%string.
Proof.
  unfold classify. destruct (String.eqb_spec (lower s) "upper-triangular") as [E|E].
  - rewrite E. split; intros H; discriminate.
  - destruct (String.eqb_spec (lower s) "symmetric") as [F|F]; split; intros H;
      try discriminate; try contradiction; auto.
Qed.

Lemma classify_other_iff s :
  classify s = POther <-> (lower s <> "upper-triangular"%string /\ lower s <> "symmetric"%string).
Proof.
  unfold classify. destruct (String.eqb_spec (lower s) "upper-triangular") as [E|E].
  - split; [discriminate | intros [H _]; contradiction].
  - destruct (String.eqb_spec (lower s) "symmetric") as [F|F].
    + split; [discriminate | intros [_ H]; contradiction].
    + tauto.
Qed.

(* ====================================================================================== *)
(* Part 2: algebra                                                                          *)
(* ====================================================================================== *)
Section QuboFacts.
  Variables (K : Type) (k0 k1 : K) (kadd kmul ksub : K -> K -> K) (kopp : K -> K).
  Hypothesis Kring : ring_theory k0 k1 kadd kmul ksub kopp (@eq K).
  Add Ring KrQ : Kring.
  Variables (half quarter : K).

  Notation "0" := k0.
  Notation "1" := k1.
  Infix "+" := kadd.
  Infix "*" := kmul.
  Infix "-" := ksub.
  Notation "- x" := (kopp x).
  Notation vec := (LinAlg.vec K).
  Notation mat := (LinAlg.mat K).
  Notation sum_n := (LinAlg.sum_n k0 kadd).
  Notation qf := (LinAlg.qf K k0 kadd kmul).
  Notation dot := (LinAlg.dot K k0 kadd kmul).
  Notation total := (LinAlg.total K k0 kadd).
  Notation trace := (LinAlg.trace K k0 kadd).
  Notation transpose := (LinAlg.transpose K).
  Notation binary := (LinAlg.binary K k0 k1).
  Notation spin := (LinAlg.spin K k1 kopp).
  Notation two := (Qubo.two K k1 kadd).
  Notation four := (Qubo.four K k1 kadd).
  Notation x2s := (Qubo.x2s K k1 kadd kmul ksub).
  Notation s2x := (Qubo.s2x K k1 kmul ksub half).
  Notation eQ := (Qubo.eQ K k0 kadd kmul).
  Notation eI := (Qubo.eI K k0 kadd kmul).
  Notation colsum := (Qubo.colsum K k0 kadd).
  Notation rowsum := (Qubo.rowsum K k0 kadd).
  Notation q2i_J := (Qubo.q2i_J K k0 kmul quarter).
  Notation q2i_h := (Qubo.q2i_h K k0 kadd kmul kopp quarter).
  Notation q2i_c := (Qubo.q2i_c K k0 kadd kmul quarter).
  Notation q2i := (Qubo.q2i K k0 kadd kmul kopp quarter).
  Notation i2q_Q := (Qubo.i2q_Q K k0 k1 kadd kmul ksub).
  Notation i2q_c := (Qubo.i2q_c K k0 kadd).
  Notation i2q := (Qubo.i2q K k0 k1 kadd kmul ksub).
  Notation strict_lower := (Qubo.strict_lower K k0).
  Notation upper := (Qubo.upper K k0 kadd ksub).
  Notation sym := (Qubo.sym K kadd kmul half).
  Notation q2i_checked := (Qubo.q2i_checked K k0 kadd kmul kopp quarter).
  Notation i2q_checked := (Qubo.i2q_checked K k0 k1 kadd kmul ksub).
  Notation upper_checked := (Qubo.upper_checked K k0 kadd ksub).
  Notation sym_checked := (Qubo.sym_checked K kadd kmul half).
  Notation cQ := (Qubo.cQ K k0 kadd kmul ksub half).
  Notation cJ := (Qubo.cJ K k0 kadd kmul ksub half quarter).
  Notation ch := (Qubo.ch K k0 kadd kmul ksub kopp half quarter).
  Notation cc := (Qubo.cc K k0 kadd kmul ksub half quarter).
  Notation container_init := (Qubo.container_init K k0 kadd kmul ksub kopp half quarter).

  Hypothesis Hhalf : two * half = 1.
  Hypothesis Hquarter : four * quarter = 1.

  (* LinAlg's lemmas at this ring *)
  Let sum_ext := LinAlg.sum_ext K k0 kadd.
  Let sum_add := LinAlg.sum_add K k0 k1 kadd kmul ksub kopp Kring.
  Let sum_sub := LinAlg.sum_sub K k0 k1 kadd kmul ksub kopp Kring.
  Let sum_opp := LinAlg.sum_opp K k0 k1 kadd kmul ksub kopp Kring.
  Let sum_scal_l := LinAlg.sum_scal_l K k0 k1 kadd kmul ksub kopp Kring.
  Let sum_scal_r := LinAlg.sum_scal_r K k0 k1 kadd kmul ksub kopp Kring.
  Let sum_swap := LinAlg.sum_swap K k0 k1 kadd kmul ksub kopp Kring.
  Let qf_ext := LinAlg.qf_ext K k0 kadd kmul.
  Let qf_add := LinAlg.qf_add K k0 k1 kadd kmul ksub kopp Kring.
  Let qf_scal := LinAlg.qf_scal K k0 k1 kadd kmul ksub kopp Kring.
  Let qf_transpose := LinAlg.qf_transpose K k0 k1 kadd kmul ksub kopp Kring.
  Let qf_diag := LinAlg.qf_diag K k0 k1 kadd kmul ksub kopp Kring.
  Let qf_diag_binary := LinAlg.qf_diag_binary K k0 k1 kadd kmul ksub kopp Kring.

  (* ---------- double sums ---------- *)
  Definition sum2 (n : nat) (f : nat -> nat -> K) : K := sum_n n (fun i => sum_n n (fun j => f i j)).

  Lemma sum2_ext n f g :
    (forall i j, (i < n)%nat -> (j < n)%nat -> f i j = g i j) -> sum2 n f = sum2 n g.
  Proof. intros H. unfold sum2. apply sum_ext; intros i Hi. apply sum_ext; intros j Hj. auto. Qed.

  Lemma sum2_add n f g : sum2 n (fun i j => f i j + g i j) = sum2 n f + sum2 n g.
  Proof. unfold sum2. rewrite <- sum_add. apply sum_ext; intros i _. apply sum_add. Qed.

  Lemma sum2_sub n f g : sum2 n (fun i j => f i j - g i j) = sum2 n f - sum2 n g.
  Proof. unfold sum2. rewrite <- sum_sub. apply sum_ext; intros i _. apply sum_sub. Qed.

  Lemma sum2_scal_l n c f : sum2 n (fun i j => c * f i j) = c * sum2 n f.
  Proof. unfold sum2. rewrite <- sum_scal_l. apply sum_ext; intros i _. apply sum_scal_l. Qed.

  Lemma qf_sub n (A B : mat) x : qf n (fun i j => A i j - B i j) x = qf n A x - qf n B x.
  Proof.
    unfold LinAlg.qf. rewrite <- sum_sub. apply sum_ext; intros i _.
    rewrite <- sum_sub. apply sum_ext; intros j _. ring.
  Qed.

  (* ---------- row / column sums ---------- *)
  Lemma sum_rowsum n (Q : mat) : sum_n n (rowsum n Q) = total n Q.
  Proof. reflexivity. Qed.

  Lemma sum_colsum n (Q : mat) : sum_n n (colsum n Q) = total n Q.
  Proof. unfold Qubo.colsum, LinAlg.total. apply sum_swap. Qed.

  Lemma dot_rowsum n (Q : mat) x : dot n (rowsum n Q) x = sum2 n (fun i j => Q i j * x i).
  Proof.
    unfold LinAlg.dot, Qubo.rowsum, sum2. apply sum_ext; intros i _.
    symmetry. apply sum_scal_r.
  Qed.

  Lemma dot_colsum n (Q : mat) x : dot n (colsum n Q) x = sum2 n (fun i j => Q i j * x j).
  Proof.
    unfold LinAlg.dot, Qubo.colsum, sum2.
    rewrite (sum_swap n n (fun i j => Q i j * x j)).
    apply sum_ext; intros j _. symmetry. apply sum_scal_r.
  Qed.

  (* ---------- the variable maps ---------- *)
  Lemma x2s_zero (x : vec) i : x i = 0 -> x2s x i = 1.
  Proof. intros E. unfold Qubo.x2s, Qubo.two. rewrite E. ring. Qed.

  Lemma x2s_one (x : vec) i : x i = 1 -> x2s x i = - (1).
  Proof. intros E. unfold Qubo.x2s, Qubo.two. rewrite E. ring. Qed.

  Lemma s2x_one (s : vec) i : s i = 1 -> s2x s i = 0.
  Proof. intros E. unfold Qubo.s2x. rewrite E. ring. Qed.

  Lemma s2x_minus_one (s : vec) i : s i = - (1) -> s2x s i = 1.
  Proof.
    intros E. unfold Qubo.s2x. rewrite E.
    transitivity (two * half); [unfold Qubo.two; ring | exact Hhalf].
  Qed.

  Lemma x2s_spin n (x : vec) : binary n x -> spin n (x2s x).
  Proof.
    intros Hb i Hi. destruct (Hb i Hi) as [E|E]; [left; apply x2s_zero | right; apply x2s_one]; exact E.
  Qed.

  Lemma s2x_binary n (s : vec) : spin n s -> binary n (s2x s).
  Proof.
    intros Hs i Hi. destruct (Hs i Hi) as [E|E]; [left; apply s2x_one | right; apply s2x_minus_one]; exact E.
  Qed.

  (* the two maps are inverse to each other (pointwise; an algebraic identity) *)
  Lemma s2x_x2s (x : vec) i : s2x (x2s x) i = x i.
  Proof.
    unfold Qubo.s2x, Qubo.x2s.
    transitivity (two * half * x i); [unfold Qubo.two; ring | rewrite Hhalf; ring].
  Qed.

  Lemma x2s_s2x (s : vec) i : x2s (s2x s) i = s i.
  Proof.
    unfold Qubo.s2x, Qubo.x2s.
    transitivity (1 - two * half * (1 - s i)); [unfold Qubo.two; ring | rewrite Hhalf; ring].
  Qed.

  Lemma maps_inverse n (x s : vec) :
    (binary n x -> spin n (x2s x) /\ forall i, (i < n)%nat -> s2x (x2s x) i = x i) /\
    (spin n s -> binary n (s2x s) /\ forall i, (i < n)%nat -> x2s (s2x s) i = s i).
  Proof.
    split; intros H; split.
    - apply x2s_spin; exact H.
    - intros i _. apply s2x_x2s.
    - apply s2x_binary; exact H.
    - intros i _. apply x2s_s2x.
  Qed.

  (* ---------- expansion of forms at the spin image ---------- *)
  Lemma qf_x2s n (Q : mat) (x : vec) :
    qf n Q (x2s x) =
    total n Q - two * dot n (rowsum n Q) x - two * dot n (colsum n Q) x + four * qf n Q x.
  Proof.
    rewrite dot_rowsum, dot_colsum.
    change (qf n Q (x2s x)) with (sum2 n (fun i j => Q i j * x2s x i * x2s x j)).
    change (total n Q) with (sum2 n (fun i j => Q i j)).
    change (qf n Q x) with (sum2 n (fun i j => Q i j * x i * x j)).
    rewrite <- !sum2_scal_l, <- !sum2_sub, <- sum2_add.
    apply sum2_ext; intros i j _ _. unfold Qubo.x2s, Qubo.four, Qubo.two. ring.
  Qed.

  Lemma dot_x2s n (h x : vec) : dot n h (x2s x) = sum_n n h - two * dot n h x.
  Proof.
    unfold LinAlg.dot. rewrite <- sum_scal_l, <- sum_sub.
    apply sum_ext; intros i _. unfold Qubo.x2s. ring.
  Qed.

  (* ---------- QUBO_to_Ising ---------- *)
  Lemma q2i_J_diag (Q : mat) i : q2i_J Q i i = 0.
  Proof. unfold Qubo.q2i_J. rewrite Nat.eqb_refl. reflexivity. Qed.

  Lemma q2i_J_offdiag (Q : mat) i j : i <> j -> q2i_J Q i j = quarter * Q i j.
  Proof. intros H. unfold Qubo.q2i_J. destruct (Nat.eqb_spec i j); [contradiction | reflexivity]. Qed.

  Lemma qf_q2i_J n (Q : mat) (s : vec) :
    qf n (q2i_J Q) s = quarter * qf n Q s - quarter * sum_n n (fun i => Q i i * s i * s i).
  Proof.
    transitivity (qf n (fun i j => quarter * Q i j + (if Nat.eqb i j then (- quarter) * Q i i else 0)) s).
    { apply qf_ext; intros i j _ _. unfold Qubo.q2i_J.
      destruct (Nat.eqb_spec i j) as [->|_]; ring. }
    rewrite (qf_add n (fun i j => quarter * Q i j)
                    (fun i j => if Nat.eqb i j then (fun k => (- quarter) * Q k k) i else 0)).
    rewrite (qf_scal n quarter Q).
    rewrite (qf_diag n (fun k => (- quarter) * Q k k)).
    assert (E : sum_n n (fun i => (- quarter) * Q i i * s i * s i)
                = - (quarter * sum_n n (fun i => Q i i * s i * s i))).
    { rewrite <- sum_scal_l, <- sum_opp. apply sum_ext; intros i _. ring. }
    rewrite E. ring.
  Qed.

  Lemma sum_q2i_h n (Q : mat) : sum_n n (q2i_h n Q) = (- quarter) * (total n Q + total n Q).
  Proof.
    unfold Qubo.q2i_h.
    rewrite (sum_scal_l n (- quarter) (fun i => colsum n Q i + rowsum n Q i)).
    rewrite (sum_add n (colsum n Q) (rowsum n Q)), sum_colsum, sum_rowsum. reflexivity.
  Qed.

  Lemma dot_q2i_h n (Q : mat) x :
    dot n (q2i_h n Q) x = (- quarter) * (dot n (colsum n Q) x + dot n (rowsum n Q) x).
  Proof.
    unfold LinAlg.dot, Qubo.q2i_h. rewrite <- sum_add, <- sum_scal_l.
    apply sum_ext; intros i _. ring.
  Qed.

  Lemma x2s_sq n (x : vec) i : binary n x -> (i < n)%nat -> x2s x i * x2s x i = 1.
  Proof.
    intros Hb Hi. apply (LinAlg.spin_sq K k0 k1 kadd kmul ksub kopp Kring n); auto.
    apply x2s_spin; exact Hb.
  Qed.

  (* C01, direction QUBO -> Ising: any Q, symmetric or not *)
  Theorem q2i_energy n (Q : mat) (c : K) (x : vec) :
    binary n x -> eI n (q2i_J Q) (q2i_h n Q) (q2i_c n Q c) (x2s x) = eQ n Q c x.
  Proof.
    intros Hb. unfold Qubo.eI, Qubo.eQ, Qubo.q2i_c.
    rewrite qf_q2i_J.
    assert (E : sum_n n (fun i => Q i i * x2s x i * x2s x i) = trace n Q).
    { unfold LinAlg.trace. apply sum_ext; intros i Hi.
      transitivity (Q i i * (x2s x i * x2s x i)); [ring|]. rewrite (x2s_sq n x i Hb Hi). ring. }
    rewrite E, qf_x2s, dot_x2s, sum_q2i_h, dot_q2i_h.
    transitivity (four * quarter * qf n Q x + c).
    - unfold Qubo.four, Qubo.two. ring.
    - rewrite Hquarter. ring.
  Qed.

  Theorem q2i_energy_tuple n (Q : mat) (c : K) (x : vec) :
    binary n x ->
    let '(J, h, c') := q2i n Q c in eI n J h c' (x2s x) = eQ n Q c x.
  Proof. intros Hb. unfold Qubo.q2i. apply q2i_energy; exact Hb. Qed.

  (* ---------- Ising_to_QUBO ---------- *)
  Lemma qf_i2q_Q n (J : mat) (h x : vec) :
    binary n x ->
    qf n (i2q_Q n J h) x =
    four * qf n J x - two * (dot n (colsum n J) x + dot n (rowsum n J) x + dot n h x).
  Proof.
    intros Hb.
    transitivity (qf n (fun i j => four * J i j +
                   (if Nat.eqb i j then - (two * (colsum n J i + rowsum n J i + h i)) else 0)) x).
    { apply qf_ext; intros i j _ _. unfold Qubo.i2q_Q. destruct (Nat.eqb i j); ring. }
    rewrite (qf_add n (fun i j => four * J i j)
                    (fun i j => if Nat.eqb i j
                                then (fun k => - (two * (colsum n J k + rowsum n J k + h k))) i else 0)).
    rewrite (qf_scal n four J).
    rewrite (qf_diag_binary n (fun k => - (two * (colsum n J k + rowsum n J k + h k))) x Hb).
    assert (E : dot n (fun k => - (two * (colsum n J k + rowsum n J k + h k))) x
                = - (two * (dot n (colsum n J) x + dot n (rowsum n J) x + dot n h x))).
    { unfold LinAlg.dot. rewrite <- !sum_add, <- sum_scal_l, <- sum_opp.
      apply sum_ext; intros i _. ring. }
    rewrite E. ring.
  Qed.

  (* C01, direction Ising -> QUBO: J with an arbitrary diagonal *)
  Theorem i2q_energy n (J : mat) (h : vec) (c : K) (x : vec) :
    binary n x -> eQ n (i2q_Q n J h) (i2q_c n J h c) x = eI n J h c (x2s x).
  Proof.
    intros Hb. unfold Qubo.eI, Qubo.eQ, Qubo.i2q_c.
    rewrite (qf_i2q_Q n J h x Hb), qf_x2s, dot_x2s.
    unfold Qubo.four, Qubo.two. ring.
  Qed.

  (* the same statement read at an arbitrary spin vector s (x := s2x s) *)
  Theorem i2q_energy_spin n (J : mat) (h : vec) (c : K) (s : vec) :
    spin n s -> eQ n (i2q_Q n J h) (i2q_c n J h c) (s2x s) = eI n J h c s.
  Proof.
    intros Hs. rewrite (i2q_energy n J h c (s2x s) (s2x_binary n s Hs)).
    unfold Qubo.eI. f_equal. f_equal.
    - unfold LinAlg.qf. apply sum_ext; intros i _. apply sum_ext; intros j _.
      rewrite !x2s_s2x. reflexivity.
    - unfold LinAlg.dot. apply sum_ext; intros i _. rewrite x2s_s2x. reflexivity.
  Qed.

  (* ---------- to_upper_triangular ---------- *)
  Lemma upper_below (M : mat) i j : (j < i)%nat -> upper M i j = 0.
  Proof.
    intros H. unfold Qubo.upper, Qubo.strict_lower.
    destruct (Nat.ltb_spec j i); [|lia]. destruct (Nat.ltb_spec i j); [lia|]. ring.
  Qed.

  Lemma upper_diag (M : mat) i : upper M i i = M i i.
  Proof. unfold Qubo.upper, Qubo.strict_lower. rewrite Nat.ltb_irrefl. ring. Qed.

  Lemma upper_above (M : mat) i j : (i < j)%nat -> upper M i j = M i j + M j i.
  Proof.
    intros H. unfold Qubo.upper, Qubo.strict_lower.
    destruct (Nat.ltb_spec j i); [lia|]. destruct (Nat.ltb_spec i j); [|lia]. ring.
  Qed.

  (* for EVERY vector x *)
  Theorem upper_qf n (M : mat) (x : vec) : qf n (upper M) x = qf n M x.
  Proof.
    transitivity (qf n (fun i j => (fun i j => M i j + transpose (strict_lower M) i j) i j
                                   - strict_lower M i j) x).
    { apply qf_ext; intros i j _ _. reflexivity. }
    rewrite (qf_sub n (fun i j => M i j + transpose (strict_lower M) i j) (strict_lower M)).
    rewrite (qf_add n M (transpose (strict_lower M))).
    rewrite qf_transpose. ring.
  Qed.

  (* ---------- to_symmetric ---------- *)
  Lemma sym_symmetric (M : mat) i j : sym M i j = sym M j i.
  Proof. unfold Qubo.sym. ring. Qed.

  Theorem sym_qf n (M : mat) (x : vec) : qf n (sym M) x = qf n M x.
  Proof.
    transitivity (qf n (fun i j => half * (fun i j => M i j + transpose M i j) i j) x).
    { apply qf_ext; intros i j _ _. unfold Qubo.sym, LinAlg.transpose. ring. }
    rewrite (qf_scal n half (fun i j => M i j + transpose M i j)).
    rewrite (qf_add n M (transpose M)), qf_transpose.
    transitivity (two * half * qf n M x); [unfold Qubo.two; ring | rewrite Hhalf; ring].
  Qed.

  (* ---------- shape tests ---------- *)
  Lemma square_true sh : square sh = true <-> fst sh = snd sh.
  Proof. unfold square. apply Nat.eqb_eq. Qed.

  Lemma square_false sh : square sh = false <-> fst sh <> snd sh.
  Proof. unfold square. apply Nat.eqb_neq. Qed.

  Theorem nonsquare_rejected sh (pat : string) (M : mat) (h : vec) (c : K) hlen :
    fst sh <> snd sh ->
    upper_checked sh M = Err ValueError /\
    sym_checked sh M = Err ValueError /\
    container_init sh pat M c = Err ValueError /\
    q2i_checked sh M c = Err ValueError /\
    i2q_checked sh hlen M h c = Err ValueError.
  Proof.
    intros H. apply square_false in H.
    unfold Qubo.upper_checked, Qubo.sym_checked, Qubo.container_init, Qubo.q2i_checked, Qubo.i2q_checked.
    rewrite H. simpl. repeat split; reflexivity.
  Qed.

  Theorem square_accepted sh (pat : string) (M : mat) (h : vec) (c : K) :
    fst sh = snd sh ->
    let n := fst sh in
    let p := classify pat in
    upper_checked sh M = Ok (upper M) /\
    sym_checked sh M = Ok (sym M) /\
    container_init sh pat M c = Ok (cQ p M, c, cJ p M, ch n p M, cc n p M c) /\
    q2i_checked sh M c = Ok (q2i n M c) /\
    i2q_checked sh n M h c = Ok (i2q n M h c).
  Proof.
    intros H. apply square_true in H.
    unfold Qubo.upper_checked, Qubo.sym_checked, Qubo.container_init, Qubo.q2i_checked, Qubo.i2q_checked.
    rewrite H, Nat.eqb_refl. simpl. repeat split; reflexivity.
  Qed.

  (* ---------- QUBOContainer ---------- *)
  Lemma cQ_qf n p (M : mat) (x : vec) : qf n (cQ p M) x = qf n M x.
  Proof. destruct p; simpl; [apply upper_qf | apply sym_qf | reflexivity]. Qed.

  (* the container's QUBO value equals the original one at EVERY vector *)
  Theorem container_qubo n p (M : mat) (c : K) (x : vec) : eQ n (cQ p M) c x = eQ n M c x.
  Proof. unfold Qubo.eQ. rewrite cQ_qf. reflexivity. Qed.

  (* the container's Ising value at the spin image of a binary x equals the original QUBO value *)
  Theorem container_ising n p (M : mat) (c : K) (x : vec) :
    binary n x -> eI n (cJ p M) (ch n p M) (cc n p M c) (x2s x) = eQ n M c x.
  Proof.
    intros Hb. unfold Qubo.cJ, Qubo.ch, Qubo.cc.
    rewrite (q2i_energy n (cQ p M) c x Hb). apply container_qubo.
  Qed.

  Lemma cJ_diag p (M : mat) i : cJ p M i i = 0.
  Proof. unfold Qubo.cJ. apply q2i_J_diag. Qed.

  (* pattern "upper-triangular": Q is upper triangular, J strictly upper triangular *)
  Lemma cQ_upper_pattern (M : mat) i j : (j < i)%nat -> cQ PUpper M i j = 0.
  Proof. apply upper_below. Qed.

  Lemma cJ_upper_pattern (M : mat) i j : (j <= i)%nat -> cJ PUpper M i j = 0.
  Proof.
    intros H. unfold Qubo.cJ, Qubo.q2i_J. destruct (Nat.eqb_spec i j) as [_|Hne]; [reflexivity|].
    simpl. rewrite upper_below by lia. ring.
  Qed.

  (* pattern "symmetric": Q and J are symmetric *)
  Lemma cQ_sym_pattern (M : mat) i j : cQ PSym M i j = cQ PSym M j i.
  Proof. apply sym_symmetric. Qed.

  Lemma cJ_sym_pattern (M : mat) i j : cJ PSym M i j = cJ PSym M j i.
  Proof.
    unfold Qubo.cJ, Qubo.q2i_J. rewrite (Nat.eqb_sym j i).
    destruct (Nat.eqb i j); [reflexivity|]. simpl. rewrite (sym_symmetric M i j). reflexivity.
  Qed.

  (* any other string: Q is the matrix as given, J its off-diagonal part scaled by 1/4 *)
  Lemma cQ_other_pattern (M : mat) : cQ POther M = M.
  Proof. reflexivity. Qed.

  Lemma cJ_other_pattern (M : mat) i j : i <> j -> cJ POther M i j = quarter * M i j.
  Proof. intros H. unfold Qubo.cJ. simpl. apply q2i_J_offdiag; exact H. Qed.

  Theorem container_consistent n p (M : mat) (c : K) (x : vec) :
    binary n x ->
    eQ n (cQ p M) c x = eQ n M c x /\
    eI n (cJ p M) (ch n p M) (cc n p M c) (x2s x) = eQ n M c x /\
    (forall i, cJ p M i i = 0) /\
    match p with
    | PUpper => forall i j, ((j < i)%nat -> cQ p M i j = 0) /\ ((j <= i)%nat -> cJ p M i j = 0)
    | PSym => forall i j, cQ p M i j = cQ p M j i /\ cJ p M i j = cJ p M j i
    | POther => forall i j, cQ p M i j = M i j /\ (i <> j -> cJ p M i j = quarter * M i j)
    end.
  Proof.
    intros Hb. split; [apply container_qubo|]. split; [apply container_ising; exact Hb|].
    split; [intros i; apply cJ_diag|].
    destruct p; intros i j; split.
    - apply cQ_upper_pattern.
    - apply cJ_upper_pattern.
    - apply cQ_sym_pattern.
    - apply cJ_sym_pattern.
    - reflexivity.
    - apply cJ_other_pattern.
  Qed.
End QuboFacts.

(* ====================================================================================== *)
(* Part 3: instances                                                                        *)
(* ====================================================================================== *)
Lemma Qc_half_ok : (Qubo.two Qc 1%Qc Qcplus * Qc_half)%Qc = 1%Qc.
Proof. apply Qc_is_canon. reflexivity. Qed.

Lemma Qc_quarter_ok : (Qubo.four Qc 1%Qc Qcplus * Qc_quarter)%Qc = 1%Qc.
Proof. apply Qc_is_canon. reflexivity. Qed.

Lemma R_half_ok : (Qubo.two R 1%R Rplus * R_half)%R = 1%R.
Proof. unfold Qubo.two, R_half. field. Qed.

Lemma R_quarter_ok : (Qubo.four R 1%R Rplus * R_quarter)%R = 1%R.
Proof. unfold Qubo.four, Qubo.two, R_quarter. field. Qed.

(* astype(int) changes nothing on the values that occur for binary / spin vectors *)
Lemma trunc_Qc_zero : trunc_Qc 0%Qc = 0%Qc.
Proof. apply Qc_is_canon. reflexivity. Qed.
Lemma trunc_Qc_one : trunc_Qc 1%Qc = 1%Qc.
Proof. apply Qc_is_canon. reflexivity. Qed.
Lemma trunc_Qc_minus_one : trunc_Qc (- (1))%Qc = (- (1))%Qc.
Proof. apply Qc_is_canon. reflexivity. Qed.
Lemma trunc_Qc_two : trunc_Qc (1 + 1)%Qc = (1 + 1)%Qc.
Proof. apply Qc_is_canon. reflexivity. Qed.

(* on a binary vector the literal x_to_s (with astype(int)) is the algebraic map x2s *)
Lemma x2s_t_binary n (x : nat -> Qc) i :
  LinAlg.binary Qc 0%Qc 1%Qc n x -> (i < n)%nat -> x2s_t x i = x2s_Qc x i.
Proof.
  intros Hb Hi. unfold x2s_t, x2s_Qc, Qubo.x2s, Qubo.two.
  destruct (Hb i Hi) as [E|E]; rewrite E.
  - replace (1 - (1 + 1) * 0)%Qc with 1%Qc by ring. apply trunc_Qc_one.
  - replace (1 - (1 + 1) * 1)%Qc with (- (1))%Qc by ring. apply trunc_Qc_minus_one.
Qed.

(* on a spin vector the literal s_to_x is the algebraic map s2x *)
Lemma s2x_t_spin n (s : nat -> Qc) i :
  LinAlg.spin Qc 1%Qc Qcopp n s -> (i < n)%nat -> s2x_t s i = s2x_Qc s i.
Proof.
  intros Hs Hi. unfold s2x_t, s2x_Qc, Qubo.s2x.
  destruct (Hs i Hi) as [E|E]; rewrite E.
  - replace (1 - 1)%Qc with 0%Qc by ring. rewrite trunc_Qc_zero. reflexivity.
  - replace (1 - - (1))%Qc with (1 + 1)%Qc by ring. rewrite trunc_Qc_two. reflexivity.
Qed.

(* evaluate_Ising only looks at the first n entries of the spin vector *)
Lemma eI_Qc_ext n J h c (s s' : nat -> Qc) :
  (forall i, (i < n)%nat -> s i = s' i) -> eI_Qc n J h c s = eI_Qc n J h c s'.
Proof.
  intros H. unfold eI_Qc, Qubo.eI. f_equal. f_equal.
  - unfold LinAlg.qf. apply LinAlg.sum_ext; intros i Hi. apply LinAlg.sum_ext; intros j Hj.
    rewrite (H i Hi), (H j Hj). reflexivity.
  - unfold LinAlg.dot. apply LinAlg.sum_ext; intros i Hi. rewrite (H i Hi). reflexivity.
Qed.

(* C01 for the literal x_to_s (the one with astype(int)), carrier Qc *)
Theorem q2i_energy_literal_Qc n (Q : nat -> nat -> Qc) (c : Qc) (x : nat -> Qc) :
  LinAlg.binary Qc 0%Qc 1%Qc n x ->
  eI_Qc n (q2i_J_Qc Q) (q2i_h_Qc n Q) (q2i_c_Qc n Q c) (x2s_t x) = eQ_Qc n Q c x.
Proof.
  intros Hb. rewrite (eI_Qc_ext n _ _ _ (x2s_t x) (x2s_Qc x)).
  - exact (q2i_energy Qc 0%Qc 1%Qc Qcplus Qcmult Qcminus Qcopp Qcrt Qc_quarter Qc_quarter_ok n Q c x Hb).
  - intros i Hi. apply (x2s_t_binary n); assumption.
Qed.

Theorem i2q_energy_literal_Qc n (J : nat -> nat -> Qc) (h : nat -> Qc) (c : Qc) (x : nat -> Qc) :
  LinAlg.binary Qc 0%Qc 1%Qc n x ->
  eQ_Qc n (i2q_Q_Qc n J h) (i2q_c_Qc n J h c) x = eI_Qc n J h c (x2s_t x).
Proof.
  intros Hb. rewrite (eI_Qc_ext n _ _ _ (x2s_t x) (x2s_Qc x)).
  - exact (i2q_energy Qc 0%Qc 1%Qc Qcplus Qcmult Qcminus Qcopp Qcrt n J h c x Hb).
  - intros i Hi. apply (x2s_t_binary n); assumption.
Qed.
