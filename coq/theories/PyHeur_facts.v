(* PyHeur_facts.v -- lemmas about the combinators of PyHeur.v (generic part): they compute what the
   hand models Heur.v / Heur_arc.v use (Heur.remove_first, Path.set_nth, seq).  [C09] *)
From Coq Require Import ZArith List Bool Lia Arith.
From VQ Require Import Base Vrptw Path Heur Heur_facts PyEnumCore PyHeur.
Import ListNotations.

Lemma py_remove_first_nat x l : py_remove_first Nat.eqb x l = remove_first x l.
Proof. induction l as [|y l IH]; simpl; [reflexivity|]. rewrite IH. reflexivity. Qed.

Lemma py_list_remove_nat x l :
  py_list_remove Nat.eqb x l = match remove_first x l with Some l' => Ok l' | None => Err ValueError end.
Proof. unfold py_list_remove. rewrite py_remove_first_nat. reflexivity. Qed.

Lemma remove_first_length x l l' : remove_first x l = Some l' -> length l = S (length l').
Proof.
  revert l'. induction l as [|y l IH]; simpl; intros l'; [discriminate|].
  destruct (Nat.eqb x y).
  - intros H; inversion H; reflexivity.
  - destruct (remove_first x l) as [l1|]; simpl; [|discriminate].
    intros H; inversion H; subst. simpl. rewrite (IH l1 eq_refl). reflexivity.
Qed.

Lemma remove_first_Forall (P : nat -> Prop) x l l' :
  remove_first x l = Some l' -> Forall P l -> Forall P l'.
Proof.
  intros H HF. rewrite Forall_forall in *. intros y Hy.
  apply HF. destruct (remove_first_spec x l l' H) as (_ & B & _). auto.
Qed.

Lemma py_set_nth_eq {A} n (x : A) l : py_set_nth n x l = Path.set_nth n x l.
Proof. reflexivity. Qed.

Lemma path_set_nth_length {A} n (x : A) l : length (Path.set_nth n x l) = length l.
Proof. revert n. induction l as [|y l IH]; intros [|n]; simpl; auto. Qed.

Lemma np_set_item_nat a k v :
  (k < length a)%nat -> np_set_item a (Z.of_nat k) v = Ok (Path.set_nth k v a).
Proof.
  intros Hk. unfold np_set_item.
  assert (E : ((0 <=? Z.of_nat k) && (Z.of_nat k <? Z.of_nat (length a)))%Z = true).
  { apply andb_true_iff. split; [apply Z.leb_le | apply Z.ltb_lt]; lia. }
  rewrite E, Nat2Z.id, py_set_nth_eq. reflexivity.
Qed.

Lemma py_range2_z_sub1 a L : py_range2_z (Z.of_nat a) (Z.of_nat L - 1) = seq a (L - 1 - a).
Proof.
  unfold py_range2_z. rewrite Nat2Z.id. f_equal.
  destruct L as [|L]; [simpl; reflexivity|].
  replace (Z.of_nat (S L) - 1)%Z with (Z.of_nat L) by lia. rewrite Nat2Z.id. lia.
Qed.

Lemma py_range2_z_lit_sub1 (a : nat) L : py_range2_z (Z.of_nat a) (Z.of_nat L - 1) = seq a (L - 1 - a).
Proof. apply py_range2_z_sub1. Qed.

(* a loop whose body only appends f x *)
Lemma py_forM_append {A B} (f : A -> B) (body : A -> list B -> result (ctl * list B)) l used :
  (forall x st, body x st = Ok (CNext, py_append st (f x))) ->
  py_forM body l used = Ok (used ++ map f l).
Proof.
  intros Hb. revert used. induction l as [|x l IH]; intros used; simpl.
  - rewrite app_nil_r. reflexivity.
  - rewrite Hb, IH. unfold py_append. rewrite <- app_assoc. reflexivity.
Qed.

(* sort by key = insertion after all not-larger keys *)
Lemma py_insert_key_ext {A K} (ltb : K -> K -> bool) (k1 k2 : A -> K) x l :
  (forall y, k1 y = k2 y) -> py_insert_key ltb k1 x l = py_insert_key ltb k2 x l.
Proof. intros E. induction l as [|y l IH]; simpl; [reflexivity|]. rewrite !E, IH. reflexivity. Qed.
