(* TestFeas_compose_facts.v -- the generator half of C10 composed with C02 (dimensions), C09 (stored
   feasible solution of the path- and arc-based formulations).  The formulation models share
   identifiers, so they are required without Import and used with qualified names. *)
From Coq Require Import ZArith List Bool Lia String Ascii.
From VQ Require Import Base LinAlg Penalty Penalty_facts Export Export_facts TestFeas TestFeas_facts.
From VQ Require Vrptw Vrptw_facts Path Path_facts Heur Heur_facts Arc Arc_facts Heur_arc Heur_arc_facts.
From VQP Require C09 C09_arc.
Import ListNotations.
Local Open Scope string_scope.
Open Scope Z_scope.

(* ---------- the number in the file name is the dimension of the exported QUBOs (C02) ---------- *)
(* d: what get_constraint_data / get_objective_data report for an object with n = get_num_variables()
   variables (shapes_consistent, r_eq = 0: C02_arc/path/seq_dims).  Then get_qubo succeeds in both modes
   with an n x n matrix, and n is what the third field of every file name built on bname parses to. *)
Theorem name_is_dimension (n : nat) (feas : bool) (rho : Z) (d : qdata Z) (name sfx : string) :
  dr d = 0 -> shapes_consistent Z n d -> sall (not_char "_") name = true ->
  (exists Q k, Zget_qubo_checked feas rho d = Ok (n, Q, k) /\
               List.length Q = n /\ (forall row, In row Q -> List.length row = n)) /\
  name_nvars (bname name (N.of_nat n) ++ sfx) = Some (N.of_nat n).
Proof.
  intros Hr Hs Hn. split.
  - destruct (checked_ok Z 0 1 Z.add Z.mul Z.opp Z.eqb Z.eqb_eq n feas rho d Hr Hs) as (Q & k & E & L1 & L2 & _).
    exists Q, k. auto.
  - apply (name_carries_nvars name (N.of_nat n) sfx Hn).
Qed.

(* ---------- path-based: the vector make_feasible stores (C09_post_path) ---------- *)
Lemma Zmat_of_zero_matrix m i j : Zmat_of (Path.zero_matrix m) i j = 0.
Proof.
  unfold Zmat_of, mat_of, Path.zero_matrix.
  destruct (Nat.lt_ge_cases i m) as [Hi|Hi].
  - rewrite (nth_indep _ [] (repeat 0 m)) by (rewrite repeat_length; exact Hi).
    rewrite nth_repeat. apply nth_repeat.
  - rewrite (nth_overflow (repeat (repeat 0 m) m)) by (rewrite repeat_length; exact Hi). destruct j; reflexivity.
Qed.

Theorem path_stored_solution {npz : Type} (save : cdata -> npz) (load : npz -> cdata) :
  (forall d, load (save d) = d) ->
  forall (choose : Heur.kvdict -> nat) (dum_name : nat -> nat -> nat) st high st' x,
    Path_facts.PInv st -> Heur.mf_path choose dum_name st high = Ok (st', x) ->
    let n := List.length (Vrptw.nodes (Path.pg st')) in
    let m := List.length (Path.proutes st') in
    exists A,
      Path.constraint_data st' = Ok ((n - 1, m)%nat, A, repeat 1 (n - 1)%nat, Path.zero_matrix m, 0) /\
      List.length x = m /\
      forall sp, loadable m (mkCdata A sp (repeat 1 (n - 1)%nat) [] 0) ->
        convenience load (save (mkCdata A sp (repeat 1 (n - 1)%nat) [] 0)) (sol_bytes x)
        = Ok (repeat false (n - 1)%nat, 0, O).
Proof.
  intros Hls choose dum_name st high st' x HP H n m.
  destruct (C09.C09_post_path choose dum_name st high st' x HP H) as (_ & A & E & _ & Lx & Hb & _ & Hf).
  exists A. split; [exact E|]. split; [exact Lx|]. intros sp Hl.
  pose proof (convenience_of_feasible save load Hls x A sp (repeat 1 (n - 1)%nat) []
                (Zmat_of A) (Zvec_of (repeat 1 (n - 1)%nat)) (Zmat_of (Path.zero_matrix m))) as T.
  cbv zeta in T. rewrite Lx, repeat_length in T. apply T.
  - exact Hb.
  - exact Hl.
  - reflexivity.
  - reflexivity.
  - intros i j _ _. apply Zmat_of_zero_matrix.
  - exact Hf.
Qed.

(* ---------- arc-based: the vector make_feasible stores (C09_post_arc_qubo) ---------- *)
Theorem arc_stored_solution {npz : Type} (save : cdata -> npz) (load : npz -> cdata) :
  (forall d, load (save d) = d) ->
  forall I high I' x,
    Vrptw_facts.Inv (Arc.ig I) -> NoDup (Arc.igrid I) -> Heur_arc.mf_arc I high = Ok (I', x) ->
    let d := mkCdata (Arc.A_dense I') true (Arc.rhs I') [] 0 in
    List.length x = Arc.num_variables I' /\
    (loadable (Arc.num_variables I') d ->
     convenience load (save d) (sol_bytes x) = Ok (repeat false (List.length (Arc.rhs I')), 0, O)).
Proof.
  intros Hls I high I' x HI Hg H d.
  destruct (C09_arc.C09_post_arc I high I' x HI Hg H) as (Lx & Hb & _).
  split; [exact Lx|]. intros Hl.
  pose proof (C09_arc.C09_post_arc_qubo I high I' x HI Hg H (Zchoose_rho true 0 None) true) as V.
  cbv zeta in V.
  pose proof (convenience_of_zero_energy save load Hls x (Arc.A_dense I') true (Arc.rhs I') []
                (Zmat_of (Arc.A_dense I')) (Zvec_of (Arc.rhs I'))
                (fun _ _ => 0) (Zvec_of (Arc.objective I')) (fun _ _ => 0) 0) as T.
  cbv zeta in T. rewrite Lx in T. apply T.
  - exact Hb.
  - exact Hl.
  - reflexivity.
  - reflexivity.
  - reflexivity.
  - intros; lia.
  - exact V.
Qed.

(* ---------- sequence-based: the vector make_feasible stores (C09_post_seq, C09_post_seq_qubo) ---------- *)
From VQ Require Seq Seq_facts Heur_seq_facts.

Lemma Zmat_of_dense_rows m n (M : nat -> nat -> Z) k j :
  (k < m)%nat -> (j < n)%nat -> Zmat_of (Seq.dense_rows m n M) k j = M k j.
Proof.
  intros Hk Hj. unfold Zmat_of, mat_of, Seq.dense_rows.
  rewrite (nth_indep _ [] ((fun i => map (fun j => M i j) (seq 0 n)) O)) by (rewrite map_length, seq_length; exact Hk).
  rewrite (map_nth (fun i => map (fun j => M i j) (seq 0 n))), seq_nth by exact Hk.
  rewrite (nth_indep _ 0 ((fun j => M (0 + k)%nat j) O)) by (rewrite map_length, seq_length; exact Hj).
  rewrite (map_nth (fun j => M (0 + k)%nat j)), seq_nth by exact Hj. reflexivity.
Qed.

Lemma Zvec_of_tab m (f : nat -> Z) k : (k < m)%nat -> Zvec_of (map f (seq 0 m)) k = f k.
Proof.
  intros Hk. unfold Zvec_of, vec_of.
  rewrite (nth_indep _ 0 (f O)) by (rewrite map_length, seq_length; exact Hk).
  rewrite (map_nth f), seq_nth by exact Hk. reflexivity.
Qed.

(* A, b: the lists Seq.constraint_data reports; Q: ANY stored-entry list whose dense meaning is the
   model's R (the csr container sums the unit entries E per position) *)
Theorem seq_stored_solution {npz : Type} (save : cdata -> npz) (load : npz -> cdata) :
  (forall d, load (save d) = d) ->
  forall (strict : bool) I high I' x,
    Vrptw_facts.Inv (Seq.ig I) -> Seq_facts.seq_ok I -> (3 <= Seq.iL I)%nat ->
    Heur.mf_seq strict I high = Ok (I', x) ->
    let n := Seq.num_variables I' in
    let m := Seq.num_rows I' in
    let A := Seq.dense_rows m n (Seq.Amat I') in
    let b := map (Seq.bvec I') (seq 0 m) in
    exists E, Seq.R_entries I' = Ok E /\ List.length x = n /\
      forall Q sp,
        (forall i j, (i < n)%nat -> (j < n)%nat -> Seq.Rmat E i j = coo_dense Q i j) ->
        loadable n (mkCdata A sp b Q 0) ->
        convenience load (save (mkCdata A sp b Q 0)) (sol_bytes x) = Ok (repeat false m, 0, nnz Q).
Proof.
  intros Hls strict I high I' x HI Hok HL H n m A b.
  destruct (C09.C09_post_seq strict I high I' x HI Hok HL H) as (_ & Lx & Hb & _ & _).
  destruct (C09.C09_post_seq_qubo strict I high I' x HI Hok HL H) as (E & HE & V).
  exists E. split; [exact HE|]. split; [exact Lx|]. intros Q sp HRQ Hl.
  specialize (V (Zchoose_rho true 0 None) true). cbv zeta in V.
  pose proof (convenience_of_zero_energy save load Hls x A sp b Q
                (Seq.Amat I') (Seq.bvec I') (Seq.Rmat E) (Seq.cvec I') (Seq.Qo I') 0) as T.
  cbv zeta in T. fold n in Lx. rewrite Lx in T.
  assert (Lb : List.length b = m) by (unfold b; rewrite map_length, seq_length; reflexivity).
  rewrite Lb in T. apply T.
  - exact Hb.
  - exact Hl.
  - intros k j Hk Hj. symmetry. apply Zmat_of_dense_rows; assumption.
  - intros k Hk. symmetry. apply Zvec_of_tab. exact Hk.
  - exact HRQ.
  - intros i j _ _. apply Seq_facts.Rmat_nonneg.
  - exact V.
Qed.
