(* Heur.v -- executable models of the feasibility heuristics `make_feasible`.  Definitions only.  [C09]

   Part 1: PathBasedRoutingProblem.make_feasible with its helpers generate_route, get_sampled_key,
           add_routes_better (routing_problem/formulations/path_based_rp.py), on top of Path.v.
   The random draw of get_sampled_key (np.random.choice over the keys of the candidate dict) is the
   Section variable `choose`; the dummy node names f"mf_Dum_{u}" / f"mf_Dum_{u}_{k}" are the Section
   variable `dum_name u k` (k = 0 for the bare name). *)
From VQ Require Import Base Vrptw Path.

(* ---------- Python helpers ---------- *)
(* list.remove(x): None = ValueError *)
Fixpoint remove_first (x : nat) (l : list nat) : option (list nat) :=
  match l with
  | [] => None
  | y :: l' => if Nat.eqb x y then Some l' else option_map (cons y) (remove_first x l')
  end.

(* max(l, default=0) *)
Definition max_default0 (l : list Z) : Z :=
  match l with [] => 0 | x :: l' => fold_left Z.max l' x end.

(* VRPTW.estimate_max_vehicles: min(#arcs leaving the depot, #arcs entering the depot) *)
Definition max_vehicles (g : graph) : nat :=
  Nat.min (length (filter (fun kv => Nat.eqb (fst (fst kv)) 0) (arcs g)))
          (length (filter (fun kv => Nat.eqb (snd (fst kv)) 0) (arcs g))).

(* a dict int -> number with insertion order (PotentialNodesAndVals) *)
Definition kvdict := list (nat * Z).
Fixpoint kv_set (k : nat) (v : Z) (d : kvdict) : kvdict :=
  match d with
  | [] => [(k, v)]
  | (k', v') :: d' => if Nat.eqb k k' then (k', v) :: d' else (k', v') :: kv_set k v d'
  end.
Fixpoint kv_get (k : nat) (d : kvdict) : Z :=
  match d with
  | [] => 0
  | (k', v) :: d' => if Nat.eqb k k' then v else kv_get k d'
  end.
(* min(d, key=d.get): the first key whose value is minimal *)
Fixpoint argmin (best : nat * Z) (d : kvdict) : nat :=
  match d with
  | [] => fst best
  | (k, v) :: d' => if v <? snd best then argmin (k, v) d' else argmin best d'
  end.

(* list.index on a list of routes: None = ValueError *)
Fixpoint route_index (r : list nat) (rs : list (list nat)) : option nat :=
  match rs with
  | [] => None
  | s :: rs' => if list_eqb Nat.eqb r s then Some O else option_map S (route_index r rs')
  end.

(* feas_sol[self.routes.index(r)] = 1 for every r in routes *)
Fixpoint mark (routes stored : list (list nat)) (x : list Z) : result (list Z) :=
  match routes with
  | [] => Ok x
  | r :: rs =>
      match route_index r stored with
      | None => Err ValueError
      | Some i => mark rs stored (set_nth i 1 x)
      end
  end.

Section PathHeur.
  Variable choose : kvdict -> nat.            (* np.random.choice(list(d.keys()), p=pmf) *)
  Variable dum_name : nat -> nat -> nat.      (* f"mf_Dum_{u}" (k = 0), f"mf_Dum_{u}_{k}" (k >= 1) *)

  (* the candidate dict of one leg of generate_route: for n in unvisited, if check_arc(time, load,
     (cur, n)) is feasible, d[n] = arc cost + node_costs[n] + 10 * arrival time + vf[n] *)
  Definition potential (st : pstate) (ncosts vf : list Z) (cur : nat) (time load : Z) (unv : list nat)
    : kvdict :=
    fold_left (fun d n =>
                 match check_arc st time load (Z.of_nat cur) (Z.of_nat n) with
                 | (true, t', _) => kv_set n (cost_of (pg st) cur n + nth n ncosts 0 + 10 * t' + nth n vf 0) d
                 | (false, _, _) => d
                 end) unv [].

  (* the `for _ in range(maxLegs)` loop of generate_route (explore = 0).  An empty candidate dict makes
     get_sampled_key raise AssertionError, which is caught: break.  A draw outside the keys cannot come
     from np.random.choice: Err OtherError. *)
  Fixpoint gen_loop (st : pstate) (ncosts : list Z) (unv : list nat) (fuel : nat)
           (cur : nat) (r : list nat) (time load : Z) (vf : list Z) : result (list nat) :=
    match fuel with
    | O => Ok r
    | S f =>
        match potential st ncosts vf cur time load unv with
        | [] => Ok r
        | kv0 :: rest =>
            let d := kv0 :: rest in
            let mn := argmin kv0 rest in
            let s := choose d in
            if negb (memb s (map fst d)) then Err OtherError
            else
              match check_arc st time load (Z.of_nat cur) (Z.of_nat s) with
              | (_, time', load') =>
                  let vf' := set_nth cur (kv_get mn d) vf in
                  let r' := r ++ [s] in
                  if Nat.eqb s 0 then Ok r'
                  else gen_loop st ncosts unv f s r' time' load' vf'
              end
        end
    end.

  Definition generate_route (st : pstate) (ncosts : list Z) (unv : list nat) : result (list nat) :=
    let n := length (nodes (pg st)) in
    gen_loop st ncosts unv (2 + n) O [O] 0 (pinit st) (repeat 0 n).

  (* for n in r: if n == depot: continue; unvisited.remove(n) *)
  Fixpoint remove_customers (r unv : list nat) : result (list nat) :=
    match r with
    | [] => Ok unv
    | n :: r' =>
        if Nat.eqb n 0 then remove_customers r' unv
        else match remove_first n unv with
             | None => Err ValueError
             | Some unv' => remove_customers r' unv'
             end
    end.

  (* add_routes_better(0, node_costs, time_costs): the loop over range(num_vehicles) *)
  Fixpoint arb_loop (k : nat) (st : pstate) (ncosts : list Z) (unv : list nat) (routes : list (list nat))
    : result (pstate * list nat * list (list nat)) :=
    match k with
    | O => Ok (st, unv, routes)
    | S k' =>
        match generate_route st ncosts unv with
        | Err e => Err e
        | Ok r =>
            match add_route st (map ix r) with
            | (_, _, Err e) => Err e
            | (st1, _, Ok (feas, _)) =>
                if feas then
                  match remove_customers r unv with
                  | Err e => Err e
                  | Ok unv' => arb_loop k' st1 ncosts unv' (routes ++ [r])
                  end
                else arb_loop k' st1 ncosts unv routes
            end
        end
    end.

  (* the load change of the dummy stop *)
  Definition new_node_loading (st : pstate) (u : nat) : Z :=
    let loading := pinit st + - ndemand (node_at (pg st) u) in
    if loading <? 0 then - loading
    else if pcap st <? loading then pcap st - loading
    else 0.

  (* new_node = f"mf_Dum_{u}"; while new_node in node_names: suffix += 1; ...  The loop ends after at
     most len(node_names) + 1 candidates when the names are pairwise distinct (fuel; None = exhausted) *)
  Fixpoint fresh_name (nms : list nat) (u k fuel : nat) : option nat :=
    match fuel with
    | O => None
    | S f => if memb (dum_name u k) nms then fresh_name nms u (S k) f else Some (dum_name u k)
    end.

  (* one iteration of `for u in unvisited_indices` *)
  Definition mf_dummy (st : pstate) (high : Z) (dn : nat) (u : nat) : result (pstate * list nat) :=
    let g := pg st in
    match fresh_name (names g) u 0 (S (length (names g))) with
    | None => Err OtherError
    | Some nm =>
    match add_node g nm (- new_node_loading st u) 0 PInf with
    | Err e => Err e
    | Ok g1 =>
    match index_of nm (names g1) with
    | None => Err ValueError
    | Some ni =>
    match nth_error (names g1) u with
    | None => Err IndexError
    | Some un =>
    match add_arc g1 dn nm 0 high with
    | Err e => Err e
    | Ok (g2, _) =>
    match add_arc g2 nm un 0 high with
    | Err e => Err e
    | Ok (g3, _) =>
    match (if dict_mem (u, O) (arcs g3) then Ok (g3, true) else add_arc g3 un dn 0 0) with
    | Err e => Err e
    | Ok (g4, _) =>
        let r := [O; ni; u; O] in
        match add_route (with_graph st g4) (map ix r) with
        | (_, _, Err e) => Err e
        | (st', _, Ok (feas, _)) => if feas then Ok (st', r) else Err AssertionError
        end
    end end end end end end end.

  Fixpoint dummy_loop (st : pstate) (high : Z) (dn : nat) (us : list nat) (routes : list (list nat))
    : result (pstate * list (list nat)) :=
    match us with
    | [] => Ok (st, routes)
    | u :: us' =>
        match mf_dummy st high dn u with
        | Err e => Err e
        | Ok (st', r) => dummy_loop st' high dn us' (routes ++ [r])
        end
    end.

  (* make_feasible(high_cost): the new state and feasible_solution *)
  Definition mf_path (st : pstate) (high : Z) : result (pstate * list Z) :=
    let n := length (nodes (pg st)) in
    if Nat.eqb n 0 then Err IndexError                           (* node_costs[depot_index] = ... *)
    else
      let ncosts := set_nth 0 (max_default0 (pcosts st)) (repeat 0 n) in
      match arb_loop (max_vehicles (pg st)) st ncosts (seq 0 n) [] with
      | Err e => Err e
      | Ok (st1, unv, routes) =>
          match remove_first 0 unv with
          | None => Err ValueError
          | Some unv' =>
              match nth_error (names (pg st1)) 0 with
              | None => Err IndexError
              | Some dn =>
                  match dummy_loop st1 high dn unv' routes with
                  | Err e => Err e
                  | Ok (st2, routes') =>
                      match mark routes' (proutes st2) (repeat 0 (length (pcosts st2))) with
                      | Err e => Err e
                      | Ok x => Ok (st2, x)
                      end
                  end
              end
          end
      end.

  (* repeated invocations *)
  Fixpoint mf_path_iter (st : pstate) (highs : list Z) : list (result (pstate * list Z)) :=
    match highs with
    | [] => []
    | h :: hs =>
        match mf_path st h with
        | Err e => [Err e]
        | Ok (st', x) => Ok (st', x) :: mf_path_iter st' hs
        end
    end.
End PathHeur.

(* ---------- correspondence with the implementation (path) ---------- *)
(* deterministic stand-ins for np.random.choice: first key / last key of the candidate dict *)
Definition choose_first (d : kvdict) : nat := fst (hd (O, 0) d).
Definition choose_last (d : kvdict) : nat := fst (last d (O, 0)).
(* the mode of the distribution (explore = 0): the first key of minimal value *)
Definition choose_min (d : kvdict) : nat := match d with [] => O | kv0 :: rest => argmin kv0 rest end.
Definition oracle_of (c : nat) : kvdict -> nat :=
  match c with O => choose_first | S O => choose_last | _ => choose_min end.
(* names used by the harness: "mf_Dum_<u>" -> 100 + 16 u, "mf_Dum_<u>_<k>" -> 100 + 16 u + k *)
Definition harness_dum (u k : nat) : nat := (100 + 16 * u + k)%nat.

(* what is compared after each invocation: outcome class, and on success the solution vector, node
   names, nodes, arcs, stored routes and their costs *)
Definition pobs9 := result (list Z * list nat * list node_obs * list arc_obs * list (list nat) * list Z).

Definition observe9 (r : result (pstate * list Z)) : pobs9 :=
  match r with
  | Err e => Err e
  | Ok (st, x) =>
      let g := pg st in
      Ok (x, names g, map (fun n => (nname n, ndemand n, nlo n, nhi n)) (nodes g),
          map (fun kv => (fst kv, (aorig (snd kv), adest (snd kv), att (snd kv), acost (snd kv)))) (arcs g),
          proutes st, pcosts st)
  end.

Definition pobs9_eqb (a b : pobs9) : bool :=
  result_eqb (fun u v =>
    match u, v with
    | (x1, n1, nd1, a1, r1, c1), (x2, n2, nd2, a2, r2, c2) =>
        zl_eqb x1 x2 && nl_eqb n1 n2 && list_eqb node_obs_eqb nd1 nd2 && list_eqb arc_obs_eqb a1 a2
        && nm_eqb r1 r2 && zl_eqb c1 c2
    end) a b.

Fixpoint zip9 (k : nat) (ms is_ : list pobs9) : list nat :=
  match ms, is_ with
  | [], [] => []
  | m :: ms', i :: is' => if pobs9_eqb m i then zip9 (S k) ms' is' else [S k]
  | _, _ => [9%nat]
  end.

(* boolean form of the hypotheses of the totality theorem (Heur_facts.PathHyp) *)
Definition path_hypb (st : pstate) : bool :=
  match nodes (pg st) with
  | [] => false
  | d :: rest =>
      (ndemand d =? 0) && ext_eqb (nhi d) PInf && (0 <=? pinit st) && (pinit st <=? pcap st) &&
      forallb (fun nd => (- pcap st <=? ndemand nd) && (ndemand nd <=? pcap st) && ext_leb (Fin 0) (nhi nd)) rest
  end.

(* one case: graph history (base class), capacity, initial loading, candidate routes (add_route calls),
   oracle (0 = first key, 1 = last key, 2 = first key of minimal value), the high costs of the invocations, whether the harness
   regards the instance as inside the hypotheses of the totality claim, the observations.
   Tags: k = invocation k differs, 9 = different number of invocations observed, 8 = hypothesis flag *)
Definition pcase9 := (list gop * Z * Z * list (list elem) * nat * list Z * bool * list pobs9)%type.

Definition pstate_of (ops : list gop) (cap init : Z) (rs : list (list elem)) : pstate :=
  prun (map PAddRoute rs) (mkP (run Base ops empty_graph) cap init [] [] []).

Definition check_pcase9 (c : pcase9) : list nat :=
  match c with
  | (ops, cap, init, rs, orc, highs, hyp, impl) =>
      let st := pstate_of ops cap init rs in
      chk 8 (Bool.eqb hyp (path_hypb st)) ++
      zip9 O (map observe9 (mf_path_iter (oracle_of orc) harness_dum st highs)) impl
  end.

(* ====================================================================================================
   Part 2: SequenceBasedRoutingProblem.make_feasible (routing_problem/formulations/sequence_based_rp.py)
   on top of Seq.v.  `strict` is the object's flag (its add_arc uses the strict timing filter for
   customer origins).  reset_build_flags / the cache flags are irrelevant to the pure model: every
   query of Seq.v recomputes from the instance. *)
From VQ Require Import Seq.

(* a < b on extended numbers *)
Definition ext_ltb (a b : ext) : bool := negb (ext_leb b a).

Section SeqHeur.
  Variable strict : bool.

  (* list.sort(key = window end): stable; x goes before the first element with a larger key *)
  Fixpoint insert_by (g : graph) (x : nat) (l : list nat) : list nat :=
    match l with
    | [] => [x]
    | y :: l' => if ext_ltb (nhi (gnode g x)) (nhi (gnode g y)) then x :: l else y :: insert_by g x l'
    end.
  Definition sort_by_end (g : graph) (l : list nat) : list nat :=
    fold_left (fun acc x => insert_by g x acc) l [].

  (* `if not self.check_arc((i, j)): added = self.add_arc(names[i], names[j], 0, cost); if not added: raise` *)
  Definition ensure_arc (g : graph) (i j : nat) (cost : Z) : result graph :=
    if dict_mem (i, j) (arcs g) then Ok g
    else
      match nth_error (names g) i, nth_error (names g) j with
      | Some ni, Some nj =>
          match add_arc_gen strict g ni nj 0 cost with
          | Err e => Err e
          | Ok (g', true) => Ok g'
          | Ok (_, false) => Err ValueError
          end
      | _, _ => Err IndexError
      end.

  (* the loop `for si in range(1, L-1)` of one vehicle; ss = the remaining positions.
     Returns the graph, the node the vehicle stands on, the unvisited list, the used tuples. *)
  Fixpoint veh_loop (g : graph) (v : nat) (ss : list nat) (cur : nat) (unv : list nat) (used : list tuple)
    : result (graph * nat * list nat * list tuple) :=
    match ss with
    | [] => Ok (g, cur, unv, used)
    | si :: ss' =>
        match find (fun ni => dict_mem (cur, ni) (arcs g)) unv with
        | Some ni =>
            match remove_first ni unv with
            | None => Err ValueError
            | Some unv' => veh_loop g v ss' ni unv' (used ++ [(v, si, ni)])
            end
        | None =>
            match ensure_arc g cur O 0 with
            | Err e => Err e
            | Ok g' => Ok (g', cur, unv, used ++ map (fun sii => (v, sii, O)) (si :: ss'))
            end
        end
    end.

  (* one iteration of `for vi in range(self.max_vehicles)` *)
  Definition veh_step (L : nat) (g : graph) (v : nat) (unv : list nat) (used : list tuple)
    : result (graph * list nat * list tuple) :=
    match veh_loop g v (seq 1 (L - 2)) O unv used with
    | Err e => Err e
    | Ok (g1, cur, unv1, used1) =>
        match (if Nat.eqb cur 0 then Ok g1 else ensure_arc g1 cur O 0) with
        | Err e => Err e
        | Ok g2 => Ok (g2, unv1, used1)
        end
    end.

  Fixpoint veh_all (L : nat) (g : graph) (vs : list nat) (unv : list nat) (used : list tuple)
    : result (graph * list nat * list tuple) :=
    match vs with
    | [] => Ok (g, unv, used)
    | v :: vs' =>
        match veh_step L g v unv used with
        | Err e => Err e
        | Ok (g1, unv1, used1) => veh_all L g1 vs' unv1 used1
        end
    end.

  (* `for ni in unvisited_indices`: one dummy vehicle per customer left *)
  Fixpoint dummy_vehicles (L : nat) (high : Z) (g : graph) (V : nat) (vc : list Z) (us : list nat)
           (used : list tuple) : result (graph * nat * list Z * list tuple) :=
    match us with
    | [] => Ok (g, V, vc, used)
    | ni :: us' =>
        match ensure_arc g O ni high with
        | Err e => Err e
        | Ok g1 =>
            match ensure_arc g1 ni O high with
            | Err e => Err e
            | Ok g2 =>
                dummy_vehicles L high g2 (S V) (vc ++ [high]) us'
                  (used ++ (V, 1%nat, ni) :: map (fun si => (V, si, O)) (seq 2 (L - 3)))
            end
        end
    end.

  (* feasible_solution[get_var_index(v, s, n)] = 1; var_mapping_inverse[v, s, n] raises IndexError outside the
     array, a fixed tuple (-1 -> None) raises ValueError *)
  Fixpoint mark_tuples (I : inst) (used : list tuple) (x : list Z) : result (list Z) :=
    match used with
    | [] => Ok x
    | (v, s, n) :: rest =>
        if negb ((v <? iV I)%nat && (s <? iL I)%nat && (n <? iN I)%nat) then Err IndexError
        else match var_index I (v, s, n) with
             | None => Err ValueError
             | Some k => mark_tuples I rest (set_nth k 1 x)
             end
    end.

  Definition mf_seq (I : inst) (high : Z) : result (inst * list Z) :=
    let N := iN I in
    let L := iL I in
    match remove_first 0 (seq 0 N) with
    | None => Err ValueError                                   (* unvisited_indices.remove(0) *)
    | Some cust =>
        let unv := sort_by_end (ig I) cust in
        match veh_all L (ig I) (seq 0 (iV I)) unv [] with
        | Err e => Err e
        | Ok (g1, unv1, used1) =>
            match dummy_vehicles L high g1 (iV I) (ivc I) unv1 used1 with
            | Err e => Err e
            | Ok (g2, V2, vc2, used2) =>
                let I2 := mkInst g2 V2 L vc2 in
                match mark_tuples I2 used2 (repeat 0 (num_variables I2)) with
                | Err e => Err e
                | Ok x => Ok (I2, x)
                end
            end
        end
    end.

  Fixpoint mf_seq_iter (I : inst) (highs : list Z) : list (result (inst * list Z)) :=
    match highs with
    | [] => []
    | h :: hs =>
        match mf_seq I h with
        | Err e => [Err e]
        | Ok (I', x) => Ok (I', x) :: mf_seq_iter I' hs
        end
    end.
End SeqHeur.

(* ---------- correspondence (sequence) ---------- *)
(* after each invocation: outcome class; on success the vector, arcs, max_vehicles, vehicle_cost *)
Definition sobs9 := result (list Z * list ((nat * nat) * (Z * Z)) * nat * list Z).
Definition observe_s9 (r : result (inst * list Z)) : sobs9 :=
  match r with
  | Err e => Err e
  | Ok (J, x) => Ok (x, arcs_obs (ig J), iV J, ivc J)
  end.
Definition sobs9_eqb (a b : sobs9) : bool :=
  result_eqb (fun u v =>
    match u, v with
    | (x1, a1, v1, c1), (x2, a2, v2, c2) =>
        zlist_eqb x1 x2 && arcs_obs_eqb a1 a2 && Nat.eqb v1 v2 && zlist_eqb c1 c2
    end) a b.
Fixpoint zip_s9 (k : nat) (ms is_ : list sobs9) : list nat :=
  match ms, is_ with
  | [], [] => []
  | m :: ms', i :: is' => if sobs9_eqb m i then zip_s9 (S k) ms' is' else [S k]
  | _, _ => [9%nat]
  end.

(* boolean form of the hypotheses of the sequence totality theorem: seq_ok, L >= 3, SeqHyp *)
Definition seq_hypb (J : inst) : bool :=
  seq_okb J && Nat.leb 3 (iL J) &&
  match nodes (ig J) with
  | [] => false
  | d :: rest => ext_eqb (nhi d) PInf && forallb (fun nd => ext_leb (Fin (nlo d)) (nhi nd)) rest
  end.

(* strict flag, history on the formulation object (add_node ..., set_depot, add_arc ...), V, L, the
   high costs, whether the harness regards the instance as inside the hypotheses of the totality claim,
   the observations.  Tags as for the path cases; 99 = the constructor failed in the model *)
Definition scase9 := (bool * list gop * nat * nat * list Z * bool * list sobs9)%type.
Definition sinst_of (strict : bool) (ops : list gop) (V L : nat) : result inst :=
  match seq_init strict empty_graph with
  | Err e => Err e
  | Ok g0 => Ok (mkInst (run (Seq strict) ops g0) V L (repeat 0 V))
  end.
Definition check_scase9 (c : scase9) : list nat :=
  match c with
  | (strict, ops, V, L, highs, hyp, impl) =>
      match sinst_of strict ops V L with
      | Err _ => [99%nat]
      | Ok J => chk 8 (Bool.eqb hyp (seq_hypb J)) ++
                zip_s9 O (map observe_s9 (mf_seq_iter strict J highs)) impl
      end
  end.
