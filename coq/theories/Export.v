(* Export.v -- model of QUBOContainer.export (tools/qubo_tools.py) and of load_matrix /
   get_Ising_J_h (tools/load_tools.py, tools/qubo_tools.py), property C10.
   Definitions only; proofs in Export_facts.v.

   In-memory coefficients are exact rationals (Q; every float is one).  What is written to a file
   and read back is a number with two decimals: it is represented by its value in hundredths (Z).
   Part 1: record level (a file = the constant and the list of (row, col, value) records).
   Part 2: text level (a file = its lines as strings). *)
From Coq Require Import ZArith QArith List Bool Lia PeanoNat.
From VQ Require Import Base LinAlg.
Open Scope Z_scope.

(* ================= two-decimal rounding ================= *)
(* nearest integer to a/b, ties to the even one: what '.2f' does to the exact value of a float *)
Definition round_half_even (a : Z) (b : positive) : Z :=
  let fl := a / Zpos b in
  let r := a mod Zpos b in
  match (2 * r) ?= Zpos b with
  | Lt => fl
  | Gt => fl + 1
  | Eq => if Z.even fl then fl else fl + 1
  end.

(* value of q rounded to hundredths, in hundredths *)
Definition round2 (q : Q) : Z := round_half_even (100 * Qnum q) (Qden q).

(* ================= the in-memory problem handed to export ================= *)
Definition qmat := nat -> nat -> Q.
Definition qvec := nat -> Q.
Definition qmat_of (rows : list (list Q)) : qmat := fun i j => nth j (nth i rows []) 0%Q.
Definition qvec_of (l : list Q) : qvec := fun i => nth i l 0%Q.

(* export(as_ising):  Mat, d, constant = J, h, const_ising   or   Q, Q.diagonal(), const_qubo *)
Record problem := mkProblem {
  p_ising : bool;      (* as_ising *)
  p_n : nat;           (* n_vars *)
  p_mat : qmat;        (* self.J or self.Q, dense meaning (duplicates summed) *)
  p_h : qvec;          (* self.h; not used for a QUBO export *)
  p_const : Q          (* const_ising or const_qubo *)
}.

Definition dvec (p : problem) : qvec := if p_ising p then p_h p else fun i => p_mat p i i.

(* Python `value != 0` on the exact value *)
Definition is_zero (q : Q) : bool := (Qnum q =? 0).

(* the coefficient the file has to carry at (i, j): linear/diagonal term for i = j, coupling otherwise *)
Definition coefficient (p : problem) (i j : nat) : Q := if (i =? j)%nat then dvec p i else p_mat p i j.

(* ================= record level ================= *)
Definition entry := (nat * nat * Z)%type.
Definition e_row (e : entry) : nat := fst (fst e).
Definition e_col (e : entry) : nat := snd (fst e).
Definition e_val (e : entry) : Z := snd e.

(* for i in range(N): value = d[i]; if value != 0: write i i value *)
Definition diag_entries (p : problem) : list entry :=
  flat_map (fun i => if is_zero (dvec p i) then [] else [(i, i, round2 (dvec p i))]) (seq 0 (p_n p)).

(* sp.find(Mat): the non-zero entries of the summed matrix, row-major *)
Definition find_entries (n : nat) (M : qmat) : list (nat * nat * Q) :=
  flat_map (fun r => flat_map (fun c => if is_zero (M r c) then [] else [(r, c, M r c)]) (seq 0 n)) (seq 0 n).

(* for (r, c, v) in zip(rows, cols, vals): if r == c: continue; else write r c v *)
Definition offdiag_entries (p : problem) : list entry :=
  flat_map (fun t => match t with (r, c, v) => if (r =? c)%nat then [] else [(r, c, round2 v)] end)
           (find_entries (p_n p) (p_mat p)).

(* the records of the written file: the constant and the 'row col value' lines, in file order *)
Definition export_entries (p : problem) : Z * list entry :=
  (round2 (p_const p), diag_entries p ++ offdiag_entries p).

(* load_matrix on such records: numrows/numcols are running maxima starting from 0
   (max(numrows, max(row)) is the running maximum), size = max(numrows, numcols) + 1,
   coo_array(..., shape=(size, size)): the dense meaning sums duplicate records *)
Definition coo_dense (es : list entry) : nat -> nat -> Z :=
  fun i j => fold_right (fun e acc => if (e_row e =? i)%nat && (e_col e =? j)%nat then e_val e + acc else acc) 0 es.

Definition load_size (es : list entry) : nat :=
  let numrows := fold_left (fun a e => Nat.max a (e_row e)) es O in
  let numcols := fold_left (fun a e => Nat.max a (e_col e)) es O in
  S (Nat.max numrows numcols).

Definition loaded := (nat * (nat -> nat -> Z) * Z)%type.     (* size, matrix in hundredths, constant in hundredths *)
Definition load_entries (f : Z * list entry) : loaded :=
  (load_size (snd f), coo_dense (snd f), fst f).

(* get_Ising_J_h: h = copy of the diagonal, then the diagonal is zeroed *)
Definition split_J (M : nat -> nat -> Z) : nat -> nat -> Z := fun i j => if (i =? j)%nat then 0 else M i j.
Definition split_h (M : nat -> nat -> Z) : nat -> Z := fun i => M i i.

(* ================= energies ================= *)
Definition zsum (n : nat) (f : nat -> Z) : Z := sum_n 0 Z.add n f.
Fixpoint qsum (n : nat) (f : nat -> Q) : Q :=
  match n with O => 0%Q | S m => (qsum m f + f m)%Q end.

(* evaluate_Ising: dot(J.dot(s), s) + dot(h, s) + c ;  evaluate_QUBO: dot(Q.dot(x), x) + c *)
Definition ising_z (n : nat) (J : nat -> nat -> Z) (h : nat -> Z) (c : Z) (s : nat -> Z) : Z :=
  zsum n (fun i => zsum n (fun j => J i j * s j) * s i) + zsum n (fun i => h i * s i) + c.
Definition qubo_z (n : nat) (M : nat -> nat -> Z) (c : Z) (x : nat -> Z) : Z :=
  zsum n (fun i => zsum n (fun j => M i j * x j) * x i) + c.
Definition ising_q (n : nat) (J : qmat) (h : qvec) (c : Q) (s : nat -> Z) : Q :=
  (qsum n (fun i => qsum n (fun j => J i j * inject_Z (s j)) * inject_Z (s i))
   + qsum n (fun i => h i * inject_Z (s i)) + c)%Q.
Definition qubo_q (n : nat) (M : qmat) (c : Q) (x : nat -> Z) : Q :=
  (qsum n (fun i => qsum n (fun j => M i j * inject_Z (x j)) * inject_Z (x i)) + c)%Q.

(* energy of the in-memory problem, and of the problem read back from its file (in hundredths) *)
Definition energy_q (p : problem) (v : nat -> Z) : Q :=
  if p_ising p then ising_q (p_n p) (p_mat p) (p_h p) (p_const p) v
  else qubo_q (p_n p) (p_mat p) (p_const p) v.
Definition energy_loaded (ising : bool) (l : loaded) (v : nat -> Z) : Z :=
  match l with
  | (m, M, k) => if ising then ising_z m (split_J M) (split_h M) k v else qubo_z m M k v
  end.
(* energy of the in-memory problem after rounding every coefficient to hundredths *)
Definition energy_rounded (p : problem) (v : nat -> Z) : Z :=
  if p_ising p
  then ising_z (p_n p) (fun i j => round2 (p_mat p i j)) (fun i => round2 (p_h p i)) (round2 (p_const p)) v
  else qubo_z (p_n p) (fun i j => round2 (p_mat p i j)) (round2 (p_const p)) v.

(* ================= correspondence, record level ================= *)
Definition dense_of (m : nat) (M : nat -> nat -> Z) : list (list Z) :=
  map (fun i => map (fun j => M i j) (seq 0 m)) (seq 0 m).

Definition entry_eqb (a b : entry) : bool :=
  Nat.eqb (e_row a) (e_row b) && Nat.eqb (e_col a) (e_col b) && (e_val a =? e_val b).

Definition zrows_eqb : list (list Z) -> list (list Z) -> bool := list_eqb (list_eqb Z.eqb).

(* observed: the file's constant and records (hundredths, file order); the loader's result on that
   file: size, dense matrix, constant (hundredths); get_Ising_J_h of it: dense J and h *)
Definition cobs := (Z * list entry * (nat * list (list Z) * Z) * (list (list Z) * list Z))%type.
Definition ccase := (bool * nat * list (list Q) * list Q * Q * cobs)%type.

Definition problem_of (ising : bool) (n : nat) (rows : list (list Q)) (h : list Q) (c : Q) : problem :=
  mkProblem ising n (qmat_of rows) (qvec_of h) c.

Definition check_ccase (c : ccase) : list nat :=
  match c with
  | (ising, n, rows, h, k, (fk, fes, (lm, lM, lk), (sJ, sh))) =>
      let p := problem_of ising n rows h k in
      let ex := export_entries p in
      let ld := load_entries (fk, fes) in
      match ld with
      | (m, M, k') =>
          chk 1 (fst ex =? fk) ++
          chk 2 (list_eqb entry_eqb (snd ex) fes) ++
          chk 3 (Nat.eqb m lm) ++
          chk 4 (zrows_eqb (dense_of lm M) lM) ++
          chk 5 (k' =? lk) ++
          chk 6 (zrows_eqb (dense_of lm (split_J M)) sJ) ++
          chk 7 (list_eqb Z.eqb (map (split_h M) (seq 0 lm)) sh)
      end
  end.
