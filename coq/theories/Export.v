(* Export.v -- model of QUBOContainer.export (tools/qubo_tools.py) and of load_matrix /
   get_Ising_J_h (tools/load_tools.py, tools/qubo_tools.py), property C10.
   Definitions only; proofs in Export_facts.v.

   In-memory coefficients are exact rationals (Q; every float is one).  What is written to a file
   and read back is a number with two decimals: it is represented by its value in hundredths (Z).
   Part 1: record level (a file = the constant and the list of (row, col, value) records).
   Part 2: text level (a file = its lines as strings). *)
From Coq Require Import ZArith QArith List Bool Lia PeanoNat.
From VQ Require Import Base LinAlg.
Open Scope Z_scope.

(* ================= two-decimal rounding ================= *)
(* nearest integer to a/b, ties to the even one: what '.2f' does to the exact value of a float *)
Definition round_half_even (a : Z) (b : positive) : Z :=
  let fl := a / Zpos b in
  let r := a mod Zpos b in
  match (2 * r) ?= Zpos b with
  | Lt => fl
  | Gt => fl + 1
  | Eq => if Z.even fl then fl else fl + 1
  end.

(* value of q rounded to hundredths, in hundredths *)
Definition round2 (q : Q) : Z := round_half_even (100 * Qnum q) (Qden q).

(* ================= the in-memory problem handed to export ================= *)
Definition qmat := nat -> nat -> Q.
Definition qvec := nat -> Q.
Definition qmat_of (rows : list (list Q)) : qmat := fun i j => nth j (nth i rows []) 0%Q.
Definition qvec_of (l : list Q) : qvec := fun i => nth i l 0%Q.

(* export(as_ising):  Mat, d, constant = J, h, const_ising   or   Q, Q.diagonal(), const_qubo *)
Record problem := mkProblem {
  p_ising : bool;      (* as_ising *)
  p_n : nat;           (* n_vars *)
  p_mat : qmat;        (* self.J or self.Q, dense meaning (duplicates summed) *)
  p_h : qvec;          (* self.h; not used for a QUBO export *)
  p_const : Q          (* const_ising or const_qubo *)
}.

Definition dvec (p : problem) : qvec := if p_ising p then p_h p else fun i => p_mat p i i.

(* Python `value != 0` on the exact value *)
Definition is_zero (q : Q) : bool := (Qnum q =? 0).

(* the coefficient the file has to carry at (i, j): linear/diagonal term for i = j, coupling otherwise *)
Definition coefficient (p : problem) (i j : nat) : Q := if (i =? j)%nat then dvec p i else p_mat p i j.

(* ================= record level ================= *)
Definition entry := (nat * nat * Z)%type.
Definition e_row (e : entry) : nat := fst (fst e).
Definition e_col (e : entry) : nat := snd (fst e).
Definition e_val (e : entry) : Z := snd e.

(* for i in range(N): value = d[i]; if value != 0: write i i value *)
Definition diag_entries (p : problem) : list entry :=
  flat_map (fun i => if is_zero (dvec p i) then [] else [(i, i, round2 (dvec p i))]) (seq 0 (p_n p)).

(* sp.find(Mat): the non-zero entries of the summed matrix, row-major *)
Definition find_entries (n : nat) (M : qmat) : list (nat * nat * Q) :=
  flat_map (fun r => flat_map (fun c => if is_zero (M r c) then [] else [(r, c, M r c)]) (seq 0 n)) (seq 0 n).

(* for (r, c, v) in zip(rows, cols, vals): if r == c: continue; else write r c v *)
Definition offdiag_entries (p : problem) : list entry :=
  flat_map (fun t => match t with (r, c, v) => if (r =? c)%nat then [] else [(r, c, round2 v)] end)
           (find_entries (p_n p) (p_mat p)).

(* the records of the written file: the constant and the 'row col value' lines, in file order *)
Definition export_entries (p : problem) : Z * list entry :=
  (round2 (p_const p), diag_entries p ++ offdiag_entries p).

(* load_matrix on such records: numrows/numcols are running maxima starting from 0
   (max(numrows, max(row)) is the running maximum), size = max(numrows, numcols) + 1,
   coo_array(..., shape=(size, size)): the dense meaning sums duplicate records *)
Definition coo_dense (es : list entry) : nat -> nat -> Z :=
  fun i j => fold_right (fun e acc => if (e_row e =? i)%nat && (e_col e =? j)%nat then e_val e + acc else acc) 0 es.

Definition load_size (es : list entry) : nat :=
  let numrows := fold_left (fun a e => Nat.max a (e_row e)) es O in
  let numcols := fold_left (fun a e => Nat.max a (e_col e)) es O in
  S (Nat.max numrows numcols).

Definition loaded := (nat * (nat -> nat -> Z) * Z)%type.     (* size, matrix in hundredths, constant in hundredths *)
Definition load_entries (f : Z * list entry) : loaded :=
  (load_size (snd f), coo_dense (snd f), fst f).

(* get_Ising_J_h: h = copy of the diagonal, then the diagonal is zeroed *)
Definition split_J (M : nat -> nat -> Z) : nat -> nat -> Z := fun i j => if (i =? j)%nat then 0 else M i j.
Definition split_h (M : nat -> nat -> Z) : nat -> Z := fun i => M i i.

(* ================= energies ================= *)
Definition zsum (n : nat) (f : nat -> Z) : Z := sum_n 0 Z.add n f.
Fixpoint qsum (n : nat) (f : nat -> Q) : Q :=
  match n with O => 0%Q | S m => (qsum m f + f m)%Q end.

(* evaluate_Ising: dot(J.dot(s), s) + dot(h, s) + c ;  evaluate_QUBO: dot(Q.dot(x), x) + c *)
Definition ising_z (n : nat) (J : nat -> nat -> Z) (h : nat -> Z) (c : Z) (s : nat -> Z) : Z :=
  zsum n (fun i => zsum n (fun j => J i j * s j) * s i) + zsum n (fun i => h i * s i) + c.
Definition qubo_z (n : nat) (M : nat -> nat -> Z) (c : Z) (x : nat -> Z) : Z :=
  zsum n (fun i => zsum n (fun j => M i j * x j) * x i) + c.
Definition ising_q (n : nat) (J : qmat) (h : qvec) (c : Q) (s : nat -> Z) : Q :=
  (qsum n (fun i => qsum n (fun j => J i j * inject_Z (s j)) * inject_Z (s i))
   + qsum n (fun i => h i * inject_Z (s i)) + c)%Q.
Definition qubo_q (n : nat) (M : qmat) (c : Q) (x : nat -> Z) : Q :=
  (qsum n (fun i => qsum n (fun j => M i j * inject_Z (x j)) * inject_Z (x i)) + c)%Q.

(* energy of the in-memory problem, and of the problem read back from its file (in hundredths) *)
Definition energy_q (p : problem) (v : nat -> Z) : Q :=
  if p_ising p then ising_q (p_n p) (p_mat p) (p_h p) (p_const p) v
  else qubo_q (p_n p) (p_mat p) (p_const p) v.
Definition energy_loaded (ising : bool) (l : loaded) (v : nat -> Z) : Z :=
  match l with
  | (m, M, k) => if ising then ising_z m (split_J M) (split_h M) k v else qubo_z m M k v
  end.
(* energy of the in-memory problem after rounding every coefficient to hundredths *)
Definition energy_rounded (p : problem) (v : nat -> Z) : Z :=
  if p_ising p
  then ising_z (p_n p) (fun i j => round2 (p_mat p i j)) (fun i => round2 (p_h p i)) (round2 (p_const p)) v
  else qubo_z (p_n p) (fun i j => round2 (p_mat p i j)) (round2 (p_const p)) v.

(* a multiple of 1/100 *)
Definition hundredth (q : Q) : Prop := exists z : Z, (q == inject_Z z / 100)%Q.

(* ================= correspondence, record level ================= *)
Definition dense_of (m : nat) (M : nat -> nat -> Z) : list (list Z) :=
  map (fun i => map (fun j => M i j) (seq 0 m)) (seq 0 m).

Definition entry_eqb (a b : entry) : bool :=
  Nat.eqb (e_row a) (e_row b) && Nat.eqb (e_col a) (e_col b) && (e_val a =? e_val b).

Definition zrows_eqb : list (list Z) -> list (list Z) -> bool := list_eqb (list_eqb Z.eqb).

(* observed: the file's constant and records (hundredths, file order); the loader's result on that
   file: size, dense matrix, constant (hundredths); get_Ising_J_h of it: dense J and h *)
Definition cobs := (Z * list entry * (nat * list (list Z) * Z) * (list (list Z) * list Z))%type.
Definition ccase := (bool * nat * list (list Q) * list Q * Q * cobs)%type.

Definition problem_of (ising : bool) (n : nat) (rows : list (list Q)) (h : list Q) (c : Q) : problem :=
  mkProblem ising n (qmat_of rows) (qvec_of h) c.

Definition check_ccase (c : ccase) : list nat :=
  match c with
  | (ising, n, rows, h, k, (fk, fes, (lm, lM, lk), (sJ, sh))) =>
      let p := problem_of ising n rows h k in
      let ex := export_entries p in
      let ld := load_entries (fk, fes) in
      match ld with
      | (m, M, k') =>
          chk 1 (fst ex =? fk) ++
          chk 2 (list_eqb entry_eqb (snd ex) fes) ++
          chk 3 (Nat.eqb m lm) ++
          chk 4 (zrows_eqb (dense_of lm M) lM) ++
          chk 5 (k' =? lk) ++
          chk 6 (zrows_eqb (dense_of lm (split_J M)) sJ) ++
          chk 7 (list_eqb Z.eqb (map (split_h M) (seq 0 lm)) sh)
      end
  end.

(* ====================================================================================== *)
(* ================= Part 2: text level ================================================= *)
(* A file is the line "# Generated <timestamp>" followed by the lines below, joined by newlines
   (export writes "\n" before every line but the first, none at the end).  readlines() keeps the
   newline at the end of a line; split() / float() ignore it, so lines are modelled without it.
   int() and float() are modelled on the formats export produces (decimal digits; optional '-',
   digits, '.', two digits, surrounding blanks); any other text is a ValueError in the model. *)
From Coq Require Import String Ascii DecimalString DecimalNat DecimalN.

(* ---------- printing ---------- *)
(* '{i:d}' *)
Definition print_nat (n : nat) : string := NilEmpty.string_of_uint (Nat.to_uint n).
Definition print_N (n : N) : string := NilEmpty.string_of_uint (N.to_uint n).
Definition digit_char (k : nat) : ascii :=
  nth k ["0"; "1"; "2"; "3"; "4"; "5"; "6"; "7"; "8"; "9"]%char "0"%char.

(* sign slot ('-' for a negative value, else ' ' under the space flag, else nothing), integer part,
   '.', two digits;  z >= 0 is the magnitude in hundredths *)
Definition print_dec2 (neg space : bool) (z : Z) : string :=
  ((if neg then "-" else if space then " " else "") ++
   print_N (Z.to_N (z / 100)) ++ "." ++
   String (digit_char (Z.to_nat ((z mod 100) / 10))) (String (digit_char (Z.to_nat (z mod 10))) ""))%string.

(* '{value: .2f}' (space = true) and '{constant:.2f}' (space = false): the sign is that of the value
   (so a small negative value prints as -0.00), the digits are those of the rounded magnitude *)
Definition fmt2 (space : bool) (q : Q) : string := print_dec2 (Qnum q <? 0) space (Z.abs (round2 q)).

Definition const_line (q : Q) : string := ("# Constant term of objective = " ++ fmt2 false q)%string.
Definition record_line (i j : nat) (q : Q) : string :=
  (print_nat i ++ " " ++ print_nat j ++ " " ++ fmt2 true q)%string.

(* the lines of the file after the timestamp line *)
Definition export_text (p : problem) : list string :=
  (const_line (p_const p) :: "# Diagonal terms"%string ::
   flat_map (fun i => if is_zero (dvec p i) then [] else [record_line i i (dvec p i)]) (seq 0 (p_n p)) ++
   "# Off-Diagonal terms"%string ::
   flat_map (fun t => match t with (r, c, v) => if (r =? c)%nat then [] else [record_line r c v] end)
            (find_entries (p_n p) (p_mat p)))%list.

(* ---------- parsing ---------- *)
(* ASCII white space as str.split() / float() / int() see it: codes 9-13, 28-31, 32 *)
Definition is_ws (c : ascii) : bool :=
  let k := nat_of_ascii c in
  ((9 <=? k) && (k <=? 13) || (28 <=? k) && (k <=? 32))%nat.

(* line.split() *)
Fixpoint split_ws_aux (cur : string) (s : string) : list string :=
  match s with
  | EmptyString => match cur with EmptyString => [] | _ => [cur] end
  | String c s' =>
      if is_ws c then (match cur with EmptyString => [] | _ => [cur] end ++ split_ws_aux EmptyString s')%list
      else split_ws_aux (cur ++ String c EmptyString)%string s'
  end.
Definition split_ws (s : string) : list string := split_ws_aux EmptyString s.

(* line.split(c) for a single character c: empty fields are kept *)
Fixpoint split_on_aux (c : ascii) (cur : string) (s : string) : list string :=
  match s with
  | EmptyString => [cur]
  | String a s' =>
      if Ascii.eqb a c then cur :: split_on_aux c EmptyString s'
      else split_on_aux c (cur ++ String a EmptyString)%string s'
  end.
Definition split_on (c : ascii) (s : string) : list string := split_on_aux c EmptyString s.

Fixpoint lstrip (s : string) : string :=
  match s with
  | EmptyString => EmptyString
  | String c s' => if is_ws c then lstrip s' else s
  end.
Fixpoint all_ws (s : string) : bool :=
  match s with EmptyString => true | String c s' => is_ws c && all_ws s' end.

(* int(text) on a string of decimal digits *)
Definition parse_nat (s : string) : option nat :=
  match s with
  | EmptyString => None
  | _ => option_map Nat.of_uint (NilEmpty.uint_of_string s)
  end.
Definition parse_N (s : string) : option N :=
  match s with
  | EmptyString => None
  | _ => option_map N.of_uint (NilEmpty.uint_of_string s)
  end.
Definition digit_val (c : ascii) : option Z :=
  let k := nat_of_ascii c in
  if ((48 <=? k) && (k <=? 57))%nat then Some (Z.of_nat (k - 48)) else None.

(* the text before the first '.', and the text after it *)
Fixpoint split_at_dot (cur : string) (s : string) : option (string * string) :=
  match s with
  | EmptyString => None
  | String c s' => if Ascii.eqb c "."%char then Some (cur, s') else split_at_dot (cur ++ String c EmptyString)%string s'
  end.

(* float(text) on  blanks ['-'] digits '.' digit digit blanks ;  the value in hundredths *)
Definition parse_udec2 (s : string) : option Z :=
  match split_at_dot EmptyString s with
  | Some (ip, String d1 (String d2 rest)) =>
      match parse_N ip, digit_val d1, digit_val d2 with
      | Some a, Some x, Some y => if all_ws rest then Some (100 * Z.of_N a + 10 * x + y) else None
      | _, _, _ => None
      end
  | _ => None
  end.
Definition parse_dec2 (s : string) : option Z :=
  match lstrip s with
  | String c r => if Ascii.eqb c "-"%char then option_map Z.opp (parse_udec2 r) else parse_udec2 (String c r)
  | EmptyString => None
  end.

(* ---------- load_matrix on lines ---------- *)
Record lstate := mkL { l_entries : list entry; l_const : Z; l_matlen : option nat }.

Definition int_field (l : list string) (k : nat) : result nat :=
  match nth_error l k with
  | None => Err IndexError
  | Some s => match parse_nat s with Some v => Ok v | None => Err ValueError end
  end.
Definition float_field (l : list string) (k : nat) : result Z :=
  match nth_error l k with
  | None => Err IndexError
  | Some s => match parse_dec2 s with Some v => Ok v | None => Err ValueError end
  end.

(* the body of `for line in file_lines:` *)
Definition load_line (cc : ascii) (st : lstate) (line : string) : result lstate :=
  match line with
  | EmptyString => Err IndexError                                   (* line[0] *)
  | String c0 _ =>
      if Ascii.eqb c0 cc || Ascii.eqb c0 "#"%char then
        (* comment: the constant follows an equal sign if there is one *)
        match split_on "="%char line with
        | _ :: f :: _ =>
            match parse_dec2 f with
            | Some z => Ok (mkL (l_entries st) z (l_matlen st))
            | None => Err ValueError
            end
        | _ => Ok st
        end
      else if Ascii.eqb c0 "p"%char then
        (* sentinel line: p qubo 0 maxDiagonals nDiagonals nElements *)
        let contents := split_ws line in
        match int_field contents 4 with
        | Err e => Err e
        | Ok a => match int_field contents 5 with
                  | Err e => Err e
                  | Ok b => Ok (mkL (l_entries st) (l_const st) (Some (a + b)%nat))
                  end
        end
      else
        let contents := split_ws line in
        if (List.length contents =? 2)%nat then
          match int_field contents 1 with
          | Err e => Err e
          | Ok a => Ok (mkL (l_entries st) (l_const st) (Some a))
          end
        else
          match int_field contents 0 with
          | Err e => Err e
          | Ok r => match int_field contents 1 with
                    | Err e => Err e
                    | Ok c => match float_field contents 2 with
                              | Err e => Err e
                              | Ok v => Ok (mkL (l_entries st ++ [(r, c, v)])%list (l_const st) (l_matlen st))
                              end
                    end
          end
  end.

Fixpoint load_lines (cc : ascii) (st : lstate) (lines : list string) : result lstate :=
  match lines with
  | [] => Ok st
  | l :: rest => match load_line cc st l with
                 | Err e => Err e
                 | Ok st' => load_lines cc st' rest
                 end
  end.

(* load_matrix(filename, comment_char) *)
Definition load_text (cc : ascii) (lines : list string) : result loaded :=
  match load_lines cc (mkL [] 0 None) lines with
  | Err e => Err e
  | Ok st =>
      match l_matlen st with
      | Some k => if (List.length (l_entries st) =? k)%nat
                  then Ok (load_entries (l_const st, l_entries st))
                  else Err AssertionError          (* "Input matrix length discrepancy" *)
      | None => Ok (load_entries (l_const st, l_entries st))
      end
  end.

(* load_ising_matrix uses '#', load_qubo_matrix 'c' *)
Definition comment_char (ising : bool) : ascii := if ising then "#"%char else "c"%char.

(* ---------- character classes and the raw records, used in the statements ---------- *)
(* every character of s satisfies P *)
Fixpoint sall (P : ascii -> bool) (s : string) : bool :=
  match s with EmptyString => true | String c s' => P c && sall P s' end.

Definition digitc (c : ascii) : bool := let k := nat_of_ascii c in ((48 <=? k) && (k <=? 57))%nat.
Definition not_ws (c : ascii) : bool := negb (is_ws c).
Definition not_char (x : ascii) (c : ascii) : bool := negb (Ascii.eqb c x).

(* the (row, col, exact value) triples export walks through: diagonal loop, then off-diagonal loop *)
Definition raw := (nat * nat * Q)%type.
Definition raw_diag (p : problem) : list raw :=
  flat_map (fun i => if is_zero (dvec p i) then [] else [(i, i, dvec p i)]) (seq 0 (p_n p)).
Definition raw_off (p : problem) : list raw :=
  flat_map (fun t => match t with (r, c, v) => if (r =? c)%nat then [] else [(r, c, v)] end)
           (find_entries (p_n p) (p_mat p)).
Definition raw_line (t : raw) : string := match t with (i, j, q) => record_line i j q end.
Definition raw_entry (t : raw) : entry := match t with (i, j, q) => (i, j, round2 q) end.

(* ---------- bytes ---------- *)
Definition nl : ascii := "010"%char.
(* "".join(contents): every piece but the first starts with a newline; no newline at the end *)
Fixpoint join_lines (ls : list string) : string :=
  match ls with
  | [] => EmptyString
  | [l] => l
  | l :: rest => (l ++ String nl (join_lines rest))%string
  end.
(* f.readlines(): the text is cut after every newline, which stays at the end of its line
   (only "\n" is modelled as a line end; export writes no other) *)
Fixpoint read_lines_aux (cur : string) (s : string) : list string :=
  match s with
  | EmptyString => match cur with EmptyString => [] | _ => [cur] end
  | String c s' =>
      if Ascii.eqb c nl then (cur ++ String nl EmptyString)%string :: read_lines_aux EmptyString s'
      else read_lines_aux (cur ++ String c EmptyString)%string s'
  end.
Definition read_lines (s : string) : list string := read_lines_aux EmptyString s.

(* the bytes export writes (ts = the text of the timestamp comment after its '#') *)
Definition export_bytes (ts : string) (p : problem) : string := join_lines (String "#" ts :: export_text p).
(* load_matrix on the bytes of a file *)
Definition load_bytes (cc : ascii) (bytes : string) : result loaded := load_text cc (read_lines bytes).

(* ---------- correspondence, text level ---------- *)
(* ts: the first line of the written file after its '#'; raw: all bytes of the file; lines: the
   lines after the first one; and the loader's result on the file *)
Definition tcase :=
  (bool * nat * list (list Q) * list Q * Q * string * string * list string * (nat * list (list Z) * Z))%type.

Definition loaded_eqb (r : result loaded) (lm : nat) (lM : list (list Z)) (lk : Z) : bool :=
  match r with
  | Ok (m, M, k') => Nat.eqb m lm && zrows_eqb (dense_of lm M) lM && (k' =? lk)
  | Err _ => false
  end.

Definition check_tcase (c : tcase) : list nat :=
  match c with
  | (ising, n, rows, h, k, ts, raw, lines, (lm, lM, lk)) =>
      let p := problem_of ising n rows h k in
      chk 1 (list_eqb String.eqb (export_text p) lines) ++
      chk 2 (loaded_eqb (load_text (comment_char ising) (String "#" ts :: lines)) lm lM lk) ++
      chk 3 (String.eqb (export_bytes ts p) raw) ++
      chk 4 (loaded_eqb (load_bytes (comment_char ising) raw) lm lM lk)
  end.
