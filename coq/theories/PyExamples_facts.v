(* PyExamples_facts.v -- lemmas about the builder logs of PyExamples.v: inversion of the monad combinators, the
   numbering of port names, a canonical log compiles to Mirp_arcset_facts.canonical_ops and meets the hypotheses of
   the C12 theorems, port reads, f-string names. *)
From Coq Require Import QArith String Ascii DecimalString DecimalNat Lia.
From VQ Require Import Base Mirp Mirp_facts Mirp_graph_facts Mirp_arcset_facts PyExamples.
Local Open Scope Q_scope.

(* ---------- inversion of the monad combinators ---------- *)
Lemma bind_inv {A C} (m : B A) (f : A -> B C) log log' c :
  bind m f log = (log', Ok c) -> exists l1 a, m log = (l1, Ok a) /\ f a l1 = (log', Ok c).
Proof. unfold bind. destruct (m log) as [l1 [a|e]]; [eauto|discriminate]. Qed.

Lemma bind_lift_inv {A C} (r : result A) (f : A -> B C) log log' c :
  bind (lift r) f log = (log', Ok c) -> exists a, r = Ok a /\ f a log = (log', Ok c).
Proof. unfold bind, lift. destruct r as [a|e]; [eauto|discriminate]. Qed.

Lemma bind_assert_inv {C} (b : bool) (f : unit -> B C) log log' c :
  bind (lift (r_assert b)) f log = (log', Ok c) -> b = true /\ f tt log = (log', Ok c).
Proof. destruct b; unfold bind, lift, r_assert; [auto|discriminate]. Qed.

Lemma bind_emit {C} (o : pyop) (f : unit -> B C) log : bind (emit o) f log = f tt (log ++ [o]).
Proof. reflexivity. Qed.

Lemma bind_ret {A C} (a : A) (f : A -> B C) log : bind (ret a) f log = f a log.
Proof. reflexivity. Qed.

Lemma bind_read {A C} (g : list pyop -> A) (f : A -> B C) log :
  bind (fun l => (l, Ok (g l))) f log = f (g log) log.
Proof. reflexivity. Qed.

Lemma rbind_inv {A C} (m : result A) (f : A -> result C) c :
  rbind m f = Ok c -> exists a, m = Ok a /\ f a = Ok c.
Proof. destruct m as [a|e]; simpl; [eauto|discriminate]. Qed.

(* a loop whose body logs exactly one call per element and then updates the carried value (or raises) *)
Fixpoint fold_upd {X S} (upd : X -> S -> option S) (xs : list X) (s : S) : option S :=
  match xs with
  | [] => Some s
  | x :: r => match upd x s with Some s' => fold_upd upd r s' | None => None end
  end.

Lemma for_each_emit {X S} (body : X -> S -> B S) (op : X -> pyop) (upd : X -> S -> option S) :
  (forall x s log, exists r, body x s log = (log ++ [op x], r) /\ (forall s', r = Ok s' -> upd x s = Some s')) ->
  forall xs s log log' s',
    for_each xs body s log = (log', Ok s') -> log' = log ++ map op xs /\ fold_upd upd xs s = Some s'.
Proof.
  intros Hb. induction xs as [|x r IH]; intros s log log' s' H.
  - cbn in H. inversion H. subst. rewrite app_nil_r. auto.
  - cbn [for_each] in H. apply bind_inv in H. destruct H as [l1 [a [H1 H2]]].
    destruct (Hb x s log) as [rr [E U]]. rewrite E in H1. inversion H1. subst.
    destruct (IH _ _ _ _ H2) as [L F]. split.
    + rewrite L, <- app_assoc. reflexivity.
    + cbn [fold_upd]. rewrite (U a eq_refl). exact F.
Qed.

(* ---------- zip / enumerate ---------- *)
Lemma enum_from_fst {A} (l : list A) : forall k, map fst (enum_from k l) = seq k (length l).
Proof. induction l as [|x r IH]; intro k; simpl; [reflexivity|]. rewrite IH. reflexivity. Qed.

Lemma enum_from_snd {A} (l : list A) : forall k, map snd (enum_from k l) = l.
Proof. induction l as [|x r IH]; intro k; simpl; [reflexivity|]. rewrite IH. reflexivity. Qed.

Lemma enum_from_length {A} (l : list A) k : length (enum_from k l) = length l.
Proof. rewrite <- (map_length fst), enum_from_fst, seq_length. reflexivity. Qed.

Lemma enum_from_In {A} (l : list A) : forall k i x, In (i, x) (enum_from k l) -> (k <= i < k + length l)%nat /\ In x l.
Proof.
  induction l as [|y r IH]; intros k i x H; simpl in *; [tauto|].
  destruct H as [H|H].
  - inversion H. subst. split; [lia|auto].
  - destruct (IH _ _ _ H). split; [lia|auto].
Qed.

Lemma zip3_In {A C D} : forall (a : list A) (c : list C) (d : list D) x y z,
  In (x, y, z) (py_zip3 a c d) -> In x a /\ In y c /\ In z d.
Proof.
  induction a as [|x0 a IH]; intros c d x y z H; [destruct H|].
  destruct c as [|y0 c]; [destruct H|]. destruct d as [|z0 d]; [destruct H|].
  destruct H as [H|H].
  - inversion H. subst. simpl. auto.
  - destruct (IH _ _ _ _ _ H) as [P [Q0 R]]. simpl. auto.
Qed.

Lemma zip3_length {A C D} : forall (a : list A) (c : list C) (d : list D) n,
  length a = n -> length c = n -> length d = n -> length (py_zip3 a c d) = n.
Proof.
  induction a as [|x0 a IH]; intros c d n Ha Hc Hd; [simpl in *; auto|].
  destruct c as [|y0 c]; [simpl in *; lia|]. destruct d as [|z0 d]; [simpl in *; lia|].
  destruct n; [discriminate|]. simpl in *. f_equal. apply IH; lia.
Qed.

Lemma forallb_In {A} (p : A -> bool) l x : forallb p l = true -> In x l -> p x = true.
Proof. intros H Hin. rewrite forallb_forall in H. auto. Qed.

(* ---------- strings ---------- *)
Lemma append_inj_l a : forall x y, append a x = append a y -> x = y.
Proof. induction a as [|c a IH]; intros x y H; simpl in H; [auto|]. inversion H. auto. Qed.

Lemma append_nil_r s : append s EmptyString = s.
Proof. induction s as [|c s IH]; simpl; [reflexivity|]. rewrite IH. reflexivity. Qed.

Lemma show_nat_inj n m : show_nat n = show_nat m -> n = m.
Proof.
  unfold show_nat. intro H.
  assert (E : Nat.to_uint n = Nat.to_uint m).
  { assert (S1 := NilEmpty.usu (Nat.to_uint n)). assert (S2 := NilEmpty.usu (Nat.to_uint m)).
    rewrite H in S1. rewrite S1 in S2. inversion S2. reflexivity. }
  rewrite <- (Unsigned.of_to n), <- (Unsigned.of_to m), E. reflexivity.
Qed.

(* f"<prefix>{n}" determines n *)
Lemma fstr_prefix_inj a n m : fstr [FS a; FN n] = fstr [FS a; FN m] -> n = m.
Proof.
  unfold fstr. cbn [fold_right fpart_str]. rewrite !append_nil_r. intro H.
  apply show_nat_inj. exact (append_inj_l a _ _ H).
Qed.

(* ... and names with prefixes that start with different characters differ *)
Lemma fstr_head_neq c1 r1 c2 r2 n m : c1 <> c2 -> fstr [FS (String c1 r1); FN n] <> fstr [FS (String c2 r2); FN m].
Proof. unfold fstr. cbn [fold_right fpart_str append]. intros Hc H. inversion H. contradiction. Qed.

Lemma str_index_In x l : In x l -> str_index x l <> None.
Proof.
  induction l as [|y r IH]; intro H; [destruct H|]. simpl.
  destruct (String.eqb x y) eqn:E; [discriminate|].
  destruct H as [H|H]; [subst; rewrite String.eqb_refl in E; discriminate|].
  destruct (str_index x r); [discriminate|]. exfalso. apply IH; auto.
Qed.

Lemma str_index_lt x l : forall i, str_index x l = Some i -> (i < length l)%nat.
Proof.
  induction l as [|y r IH]; intros i H; [discriminate|]. simpl in H.
  destruct (String.eqb x y); [inversion H; simpl; lia|].
  destruct (str_index x r) as [j|]; [|discriminate]. inversion H. simpl. specialize (IH j eq_refl). lia.
Qed.

Lemma list_getr_lt {A} (l : list A) i : (i < length l)%nat -> exists x, list_getr l i = Ok x /\ In x l.
Proof.
  intro H. unfold list_getr. destruct (nth_error l i) as [x|] eqn:E.
  - exists x. split; [reflexivity|]. eapply nth_error_In; eauto.
  - apply nth_error_None in E. lia.
Qed.

Lemma str_nodup_sound l : str_nodup l = true -> NoDup l.
Proof.
  induction l as [|x r IH]; intro H; [constructor|]. simpl in H. apply andb_true_iff in H. destruct H as [H1 H2].
  constructor; [|auto]. intro Hin. apply negb_true_iff in H1.
  assert (E : existsb (String.eqb x) r = true).
  { apply existsb_exists. exists x. split; [auto|apply String.eqb_refl]. }
  congruence.
Qed.

(* ---------- split_nodes / parse_canonical ---------- *)
Definition node_op (p : pspec) : pyop := PAddNodes (ps_name p) (ps_init p) (ps_rate p) (ps_cap p).
Definition canon_tail (c : canon) : list pyop :=
  map node_op (c_ports c) ++
  [PTravel (c_dist c) (c_speed c) (c_unit c) (c_fs c) (c_fd c); PExit (c_etm c) (c_ec c); PEntry (c_limit c) (c_ntm c) (c_nc c)].

Lemma split_nodes_inv : forall ops ps tl, split_nodes ops = (ps, tl) -> ops = map node_op ps ++ tl.
Proof.
  induction ops as [|o ops IH]; intros ps tl H.
  - inversion H. reflexivity.
  - destruct o; try (inversion H; reflexivity).
    cbn [split_nodes] in H. destruct (split_nodes ops) as [ps' tl'] eqn:E. inversion H. subst.
    rewrite (IH ps' tl eq_refl). reflexivity.
Qed.

Lemma split_nodes_map ps tl :
  (match tl with PAddNodes _ _ _ _ :: _ => False | _ => True end) ->
  split_nodes (map node_op ps ++ tl) = (ps, tl).
Proof.
  intro Ht. induction ps as [|[[[n i] r] c] ps IH].
  - simpl. destruct tl as [|o tl]; [reflexivity|]. destruct o; try reflexivity. destruct Ht.
  - cbn [map app node_op split_nodes ps_name ps_init ps_rate ps_cap fst snd]. rewrite IH. reflexivity.
Qed.

Lemma parse_canonical_inv log c :
  parse_canonical log = Some c -> log = PInit (c_size c) (c_H c) :: canon_tail c.
Proof.
  unfold parse_canonical. destruct log as [|o rest]; [discriminate|]. destruct o; try discriminate.
  destruct (split_nodes rest) as [ps tl] eqn:E.
  destruct tl as [|o1 tl]; [discriminate|]. destruct o1; try discriminate.
  destruct tl as [|o2 tl]; [discriminate|]. destruct o2; try discriminate.
  destruct tl as [|o3 tl]; [discriminate|]. destruct o3; try discriminate.
  destruct tl; [|discriminate]. intro Hc. inversion Hc. subst. unfold canon_tail. cbn.
  rewrite (split_nodes_inv _ _ _ E). reflexivity.
Qed.

Lemma parse_canonical_intro size H ps f sp u fs fd et ec l nt nc :
  parse_canonical (PInit size H :: map node_op ps ++ [PTravel f sp u fs fd; PExit et ec; PEntry l nt nc])
  = Some (mkCanon size H ps f sp u fs fd et ec l nt nc).
Proof. unfold parse_canonical. rewrite split_nodes_map by exact I. reflexivity. Qed.

Lemma names_of_app a b : names_of (a ++ b) = names_of a ++ names_of b.
Proof. induction a as [|o a IH]; [reflexivity|]. destruct o; simpl; rewrite IH; reflexivity. Qed.

Lemma names_of_nodes ps : names_of (map node_op ps) = map ps_name ps.
Proof. induction ps as [|p ps IH]; [reflexivity|]. simpl. rewrite IH. reflexivity. Qed.

Lemma names_of_canon c : names_of (canon_tail c) = map ps_name (c_ports c).
Proof. unfold canon_tail. rewrite names_of_app, names_of_nodes. simpl. apply app_nil_r. Qed.

Lemma no_init_canon c : no_init (canon_tail c) = true.
Proof. unfold canon_tail. induction (c_ports c) as [|p ps IH]; [reflexivity|exact IH]. Qed.

(* ---------- reads of supply_ports / demand_ports agree with the model of the object ---------- *)
Lemma sports_mstep s o :
  sports (fst (mstep s o)) = match o with AddNodes n _ r _ => if Qltb 0 r then sports s ++ [n] else sports s | _ => sports s end /\
  dports (fst (mstep s o)) = match o with AddNodes n _ r _ => if Qltb 0 r then dports s else dports s ++ [n] | _ => dports s end.
Proof.
  destruct o as [name init rate cap|dist speed unit fs fd|tm c|limit tm c]; try (split; reflexivity).
  cbn [mstep]. unfold add_nodes, add_nodes_fuel.
  set (s1 := mkState (gr s) (if Qltb 0 rate then sports s ++ [name] else sports s)
                     (if Qltb 0 rate then dports s else dports s ++ [name]) (pm_set name [] (pmap s)) (csize s) (horizon s)).
  destruct (Qeq_bool rate 0).
  - cbn [fst]. split; reflexivity.
  - match goal with |- context [add_nodes_loop ?f s1 name init rate cap ?dl 0%nat []] =>
      destruct (add_nodes_loop_ports name init rate cap dl f s1 0%nat []) as [A [C _]];
      destruct (add_nodes_loop f s1 name init rate cap dl 0%nat []) as [s' [l|e]] end;
    cbn [fst] in *; rewrite A, C; split; reflexivity.
Qed.

Section Code.
  Variable code : string -> nat.

  Lemma ports_read_ops names : forall ops s,
    sports (mrun (flat_map (compile_op code names) ops) s) = sports s ++ map code (sup_ports_of ops) /\
    dports (mrun (flat_map (compile_op code names) ops) s) = dports s ++ map code (dem_ports_of ops).
  Proof.
    induction ops as [|o ops IH]; intro s.
    - simpl. rewrite !app_nil_r. auto.
    - cbn [flat_map]. rewrite mrun_app. destruct o as [sz h|n i r c|f sp u fs fd|t c|l t c];
        cbn [compile_op sup_ports_of dem_ports_of].
      + apply IH.
      + unfold mrun at 2 4. cbn [fold_left]. destruct (IH (fst (mstep s (AddNodes (code n) i r c)))) as [A C].
        destruct (sports_mstep s (AddNodes (code n) i r c)) as [P D]. rewrite A, C, P, D.
        destruct (Qltb 0 r); cbn [map]; rewrite <- ?app_assoc; auto.
      + unfold mrun at 2 4. cbn [fold_left]. match goal with |- context [mstep s ?o] => destruct (sports_mstep s o) as [P D];
          destruct (IH (fst (mstep s o))) as [A C] end. rewrite A, C, P, D. auto.
      + unfold mrun at 2 4. cbn [fold_left]. match goal with |- context [mstep s ?o] => destruct (sports_mstep s o) as [P D];
          destruct (IH (fst (mstep s o))) as [A C] end. rewrite A, C, P, D. auto.
      + unfold mrun at 2 4. cbn [fold_left]. match goal with |- context [mstep s ?o] => destruct (sports_mstep s o) as [P D];
          destruct (IH (fst (mstep s o))) as [A C] end. rewrite A, C, P, D. auto.
  Qed.

  (* ---------- the numbering of the port names ---------- *)
  Hypothesis code_inj : forall a b, code a = code b -> a = b.

  Lemma code_eqb a b : Nat.eqb (code a) (code b) = String.eqb a b.
  Proof.
    destruct (String.eqb a b) eqn:E.
    - apply String.eqb_eq in E. subst. apply Nat.eqb_refl.
    - apply Nat.eqb_neq. intro H. apply code_inj in H. subst. rewrite String.eqb_refl in E. discriminate.
  Qed.

  Lemma lookup_code_fees k d : lookup (code k) (code_fees code d) = sdict_get k d.
  Proof.
    induction d as [|[q v] d IH]; [reflexivity|]. cbn [code_fees map lookup sdict_get fst snd].
    rewrite code_eqb. destruct (String.eqb k q); [reflexivity|exact IH].
  Qed.

  Lemma lookup2_tab f a b v : forall prs,
    In (a, b) prs -> f a b = Ok v ->
    lookup2 (code a) (code b)
      (flat_map (fun ab => match f (fst ab) (snd ab) with
                           | Ok w => [((code (fst ab), code (snd ab)), w)]
                           | Err _ => []
                           end) prs) = Some v.
  Proof.
    induction prs as [|[a' b'] prs IH]; intros Hin Hf; [destruct Hin|].
    cbn [flat_map fst snd]. destruct (f a' b') as [w|e] eqn:E.
    - cbn [app lookup2]. unfold natpair_eqb. cbn [fst snd]. rewrite !code_eqb.
      destruct (String.eqb a a') eqn:Ea; destruct (String.eqb b b') eqn:Eb; cbn [andb].
      + apply String.eqb_eq in Ea, Eb. subst. congruence.
      + apply IH; auto. destruct Hin as [H|H]; [|auto]. inversion H. subst. rewrite String.eqb_refl in Eb. discriminate.
      + apply IH; auto. destruct Hin as [H|H]; [|auto]. inversion H. subst. rewrite String.eqb_refl in Ea. discriminate.
      + apply IH; auto. destruct Hin as [H|H]; [|auto]. inversion H. subst. rewrite String.eqb_refl in Ea. discriminate.
    - cbn [app]. apply IH; auto. destruct Hin as [H|H]; [|auto]. inversion H. subst. congruence.
  Qed.

  (* ---------- a canonical log compiles to canonical_ops and meets the hypotheses of C12_arcset ---------- *)
  Definition to_pdata (p : pspec) : pdata := mkP (code (ps_name p)) (ps_init p) (ps_rate p) (ps_cap p).
  Definition canon_pdata (c : canon) : list pdata := map to_pdata (c_ports c).
  Definition canon_table (c : canon) : list ((nat * nat) * Q) := tab_dist code (c_dist c) (map ps_name (c_ports c)).

  Lemma compile_nodes names ps : flat_map (compile_op code names) (map node_op ps) = map op_of (map to_pdata ps).
  Proof. induction ps as [|p ps IH]; [reflexivity|]. cbn [map flat_map app]. rewrite IH. reflexivity. Qed.

  Lemma compile_canon c :
    compile code (canon_tail c) =
    canonical_ops (canon_pdata c) (canon_table c) (c_speed c) (c_unit c) (code_fees code (c_fs c)) (code_fees code (c_fd c))
                  (c_etm c) (c_ec c) (c_limit c) (c_ntm c) (c_nc c).
  Proof.
    unfold compile. rewrite names_of_canon. unfold canon_tail, canonical_ops, canon_pdata, canon_table.
    rewrite flat_map_app. f_equal. apply compile_nodes.
  Qed.

  Lemma NoDup_map_code l : NoDup l -> NoDup (map code l).
  Proof.
    induction 1 as [|x l Hx ND IH]; [constructor|]. cbn [map]. constructor; [|auto].
    intro H. apply in_map_iff in H. destruct H as [y [E Hy]]. apply code_inj in E. subst. contradiction.
  Qed.

  Lemma canon_hyps c : canon_ok c ->
    ports_ok (c_size c) (canon_pdata c) /\
    tables_complete (canon_pdata c) (canon_table c) (code_fees code (c_fs c)) (code_fees code (c_fd c)).
  Proof.
    intros [Hs [ND [Hp [Hv Ht]]]]. split.
    - split.
      + unfold canon_pdata. rewrite map_map. cbn [to_pdata pname]. rewrite <- (map_map ps_name code). apply NoDup_map_code. exact ND.
      + intros p Hin. apply in_map_iff in Hin. destruct Hin as [q [<- Hq]]. exact (Hp q Hq).
    - intros sp dp Hsp Ss Hdp Sd. apply in_map_iff in Hsp. destruct Hsp as [p [<- Hp1]].
      apply in_map_iff in Hdp. destruct Hdp as [q [<- Hq1]].
      unfold is_sup in Ss, Sd. cbn [to_pdata prate pname] in *.
      destruct (Ht p q Hp1 Ss Hq1 Sd) as [[v Hd] [Hfs Hfd]].
      split; [|split].
      + unfold canon_table, tab_dist. rewrite (lookup2_tab (c_dist c) (ps_name p) (ps_name q) v); [discriminate| |exact Hd].
        apply in_prod; apply in_map; auto.
      + rewrite lookup_code_fees. exact Hfs.
      + rewrite lookup_code_fees. exact Hfd.
  Qed.

  Lemma ports_of_canon c : ports_of (compile code (canon_tail c)) = map code (map ps_name (c_ports c)).
  Proof.
    rewrite compile_canon. unfold canonical_ops, canon_pdata.
    induction (c_ports c) as [|p ps IH]; [reflexivity|]. cbn [map app ports_of op_of to_pdata pname]. rewrite IH. reflexivity.
  Qed.

  Lemma built_canon log c :
    parse_canonical log = Some c ->
    built code log = Some (mrun (compile code (canon_tail c)) (init_state (c_size c) (c_H c))).
  Proof. intro H. rewrite (parse_canonical_inv log c H). unfold built. rewrite no_init_canon. reflexivity. Qed.
End Code.

(* ---------- the computed checks are sound ---------- *)
Lemma Qltb_true a b : Qltb a b = true -> a < b.
Proof.
  unfold Qltb. intro H. apply negb_true_iff in H. apply Qnot_le_lt. intro L.
  apply Qle_bool_iff in L. congruence.
Qed.

Lemma Qeq_bool_false_neq a b : Qeq_bool a b = false -> ~ a == b.
Proof. intros H E. apply Qeq_bool_iff in E. congruence. Qed.

Lemma canon_okb_sound c : canon_okb c = true -> canon_ok c.
Proof.
  unfold canon_okb, canon_ok. intro H.
  repeat (apply andb_true_iff in H; destruct H as [H ?]).
  rename H into Hs. rename H0 into Ht. rename H1 into Hv. rename H2 into Hp. rename H3 into Hn.
  split; [apply Qltb_true; exact Hs|]. split; [apply str_nodup_sound; exact Hn|]. split; [|split].
  - intros p Hin. pose proof (forallb_In _ _ _ Hp Hin) as E. cbv beta in E.
    apply andb_true_iff in E. destruct E as [E1 E2]. split.
    + apply Qeq_bool_false_neq. apply negb_true_iff. exact E1.
    + apply Qle_bool_iff. exact E2.
  - apply Qeq_bool_false_neq. apply negb_true_iff. exact Hv.
  - intros sp dp Hsp Ss Hdp Sd. pose proof (forallb_In _ _ _ Ht Hsp) as E. cbv beta in E.
    rewrite Ss in E. cbn [negb orb] in E. pose proof (forallb_In _ _ _ E Hdp) as F. cbv beta in F.
    rewrite Sd in F. cbn [orb] in F.
    apply andb_true_iff in F. destruct F as [F F3]. apply andb_true_iff in F. destruct F as [F1 F2].
    split; [|split].
    + destruct (c_dist c (ps_name sp) (ps_name dp)) as [v|e]; [eauto|discriminate].
    + destruct (sdict_get (ps_name sp) (c_fs c)); [discriminate|discriminate].
    + destruct (sdict_get (ps_name dp) (c_fd c)); [discriminate|discriminate].
Qed.

Lemma port_c11_okb_sound size p : port_c11_okb size p = true ->
  0 < size /\ ~ ps_rate p == 0 /\ 0 <= ps_init p /\ ps_init p <= ps_cap p /\ size <= ps_cap p.
Proof.
  unfold port_c11_okb. intro H. repeat (apply andb_true_iff in H; destruct H as [H ?]).
  split; [apply Qltb_true; exact H|]. split; [apply Qeq_bool_false_neq; apply negb_true_iff; assumption|].
  repeat split; apply Qle_bool_iff; assumption.
Qed.

(* ---------- an injective numbering of strings exists (the theorems quantify over all of them) ---------- *)
Fixpoint str_code (s : string) : nat :=
  match s with
  | EmptyString => O
  | String c r => S (nat_of_ascii c + 256 * str_code r)
  end.

Lemma str_code_inj : forall a b, str_code a = str_code b -> a = b.
Proof.
  induction a as [|c a IH]; intros [|d b] H; simpl in H; try discriminate; [reflexivity|].
  assert (Bc := nat_ascii_bounded c). assert (Bd := nat_ascii_bounded d).
  assert (E1 : nat_of_ascii c = nat_of_ascii d) by lia.
  assert (E2 : str_code a = str_code b) by lia.
  f_equal; [|auto].
  rewrite <- (ascii_nat_embedding c), <- (ascii_nat_embedding d), E1. reflexivity.
Qed.

(* ---------- the C12 headlines for the object a canonical log describes ---------- *)
(* the conclusion of C12_arcset (props/C12.v), as a predicate of the build data *)
Definition arcset_statement size H ports dist speed unit fs fd etm ec limit ntm nc : Prop :=
  let ops := canonical_ops ports dist speed unit fs fd etm ec limit ntm nc in
  let g := gr (mrun ops (init_state size H)) in
  mtrace ops (init_state size H)
    = map (fun p => Ok (Some (p_vnames size H p))) ports ++ [Ok None; Ok None; Ok None] /\
  mnodes g = nodes_after size H ports ++ dum_nodes size 0 (length (c_early size H ports limit)) /\
  NoDup (map fst (marcs g)) /\
  (forall k a, In (k, a) (marcs g) ->
     pos_of (aorig a) (mnodes g) = Some (fst k) /\ pos_of (adest a) (mnodes g) = Some (snd k) /\
     has_arc g (aorig a, adest a, att a, acost a)) /\
  (forall x, has_arc g x <->
             spec_arc size H ports dist speed unit fs fd etm ec limit ntm nc x /\ passes (mnodes g) x) /\
  (forall p k, In p ports -> (k < pK size H p)%nat -> has_arc g (NVisit (pname p) k, NDepot, etm, ec)).

Section Headlines.
  Variable code : string -> nat.
  Hypothesis code_inj : forall a b, code a = code b -> a = b.

  (* the MIRP object after the calls of a canonical log *)
  Definition canon_state (c : canon) : mstate :=
    mrun (compile code (canon_tail c)) (init_state (c_size c) (c_H c)).

  Lemma canon_alternation c :
    0 < c_size c -> NoDup (map ps_name (c_ports c)) -> GInv (c_size c) (gr (canon_state c)).
  Proof.
    intros Hs ND. unfold canon_state. apply graph_invariant; [exact Hs|].
    rewrite ports_of_canon. apply NoDup_map_code; auto.
  Qed.

  Lemma canon_load c path :
    0 < c_size c -> NoDup (map ps_name (c_ports c)) ->
    walk_ok (gr (canon_state c)) 0 path -> interior_ok path ->
    Forall (fun l => l == 0 \/ l == c_size c) (loads (gr (canon_state c)) 0 path).
  Proof. intros Hs ND W I. apply load_in_0_size; auto. apply canon_alternation; auto. Qed.

  Lemma canon_arcset c : canon_ok c ->
    canon_state c = mrun (canonical_ops (canon_pdata code c) (canon_table code c) (c_speed c) (c_unit c)
                            (code_fees code (c_fs c)) (code_fees code (c_fd c)) (c_etm c) (c_ec c) (c_limit c) (c_ntm c) (c_nc c))
                         (init_state (c_size c) (c_H c)) /\
    arcset_statement (c_size c) (c_H c) (canon_pdata code c) (canon_table code c) (c_speed c) (c_unit c)
                     (code_fees code (c_fs c)) (code_fees code (c_fd c)) (c_etm c) (c_ec c) (c_limit c) (c_ntm c) (c_nc c).
  Proof.
    intro Hok. split.
    - unfold canon_state. rewrite compile_canon. reflexivity.
    - destruct (canon_hyps code code_inj c Hok) as [Hp Ht]. destruct Hok as [Hs [_ [_ [Hv _]]]].
      exact (arcset_final (c_size c) (c_H c) _ _ (c_speed c) (c_unit c) _ _ (c_etm c) (c_ec c) (c_limit c) (c_ntm c) (c_nc c)
                          Hs Hp Hv Ht).
  Qed.

  Lemma canonical_build_built b c :
    canonical_build_of b = Some c ->
    exists log, b [] = (log, Ok tt) /\ built code log = Some (canon_state c).
  Proof.
    unfold canonical_build_of. destruct (b []) as [log [[]|e]] eqn:E; [|discriminate].
    intro H. exists log. split; [reflexivity|]. apply built_canon. exact H.
  Qed.
End Headlines.

(* ---------- builders that number their ports: for i, (init, rate, cap) in enumerate(zip(..)): name = f"<pre>{i+1}" ---------- *)
Definition port_name (pre : string) (i : nat) : string := fstr [FS pre; FN (Nat.add i 1)].
Definition enum_spec (pre : string) (x : nat * (Q * Q * Q)) : pspec :=
  (port_name pre (fst x), fst (fst (snd x)), snd (fst (snd x)), snd (snd x)).
(* fees[name] = table[i] *)
Definition enum_upd (pre : string) (fees : list Q) (x : nat * (Q * Q * Q)) (s : sdict) : option sdict :=
  match nth_error fees (fst x) with
  | Some v => Some (sdict_set (port_name pre (fst x)) v s)
  | None => None
  end.

Lemma bind_supply_ports {C} (f : list string -> B C) log : bind mirp_supply_ports f log = f (sup_ports_of log) log.
Proof. reflexivity. Qed.
Lemma bind_demand_ports {C} (f : list string -> B C) log : bind mirp_demand_ports f log = f (dem_ports_of log) log.
Proof. reflexivity. Qed.

Lemma sup_ports_of_app a b : sup_ports_of (a ++ b) = sup_ports_of a ++ sup_ports_of b.
Proof.
  induction a as [|o a IH]; [reflexivity|]. destruct o; cbn [app sup_ports_of]; try exact IH.
  destruct (Qltb 0 rate); [cbn [app]; rewrite IH; reflexivity|exact IH].
Qed.
Lemma dem_ports_of_app a b : dem_ports_of (a ++ b) = dem_ports_of a ++ dem_ports_of b.
Proof.
  induction a as [|o a IH]; [reflexivity|]. destruct o; cbn [app dem_ports_of]; try exact IH.
  destruct (Qltb 0 rate); [exact IH|cbn [app]; rewrite IH; reflexivity].
Qed.

Lemma ports_of_nodes_sup ps : (forall p, In p ps -> Qltb 0 (ps_rate p) = true) ->
  sup_ports_of (map node_op ps) = map ps_name ps /\ dem_ports_of (map node_op ps) = [].
Proof.
  induction ps as [|p ps IH]; intro H; [split; reflexivity|].
  destruct IH as [A C]; [intros q Hq; apply H; right; exact Hq|].
  cbn [map node_op sup_ports_of dem_ports_of]. rewrite (H p (or_introl eq_refl)), A, C. split; reflexivity.
Qed.
Lemma ports_of_nodes_dem ps : (forall p, In p ps -> Qltb 0 (ps_rate p) = false) ->
  sup_ports_of (map node_op ps) = [] /\ dem_ports_of (map node_op ps) = map ps_name ps.
Proof.
  induction ps as [|p ps IH]; intro H; [split; reflexivity|].
  destruct IH as [A C]; [intros q Hq; apply H; right; exact Hq|].
  cbn [map node_op sup_ports_of dem_ports_of]. rewrite (H p (or_introl eq_refl)), A, C. split; reflexivity.
Qed.

Lemma enum_names pre xs : map ps_name (map (enum_spec pre) xs) = map (port_name pre) (map fst xs).
Proof. rewrite !map_map. reflexivity. Qed.

Lemma port_name_inj pre i j : port_name pre i = port_name pre j -> i = j.
Proof. unfold port_name. intro H. apply fstr_prefix_inj in H. lia. Qed.

Lemma NoDup_port_names pre l : NoDup l -> NoDup (map (port_name pre) l).
Proof.
  induction 1 as [|x l Hx ND IH]; [constructor|]. cbn [map]. constructor; [|auto].
  intro H. apply in_map_iff in H. destruct H as [y [E Hy]]. apply port_name_inj in E. subst. contradiction.
Qed.

Lemma NoDup_app_intro {A} (l m : list A) :
  NoDup l -> NoDup m -> (forall x, In x l -> In x m -> False) -> NoDup (l ++ m).
Proof.
  induction 1 as [|x l Hx ND IH]; intros Hm Hd; [exact Hm|]. cbn [app]. constructor.
  - intro H. apply in_app_or in H. destruct H as [H|H]; [contradiction|]. exact (Hd x (or_introl eq_refl) H).
  - apply IH; [exact Hm|]. intros y H1 H2. exact (Hd y (or_intror H1) H2).
Qed.

Lemma NoDup_two_prefixes c1 r1 c2 r2 l1 l2 : c1 <> c2 -> NoDup l1 -> NoDup l2 ->
  NoDup (map (port_name (String c1 r1)) l1 ++ map (port_name (String c2 r2)) l2).
Proof.
  intros Hc N1 N2. apply NoDup_app_intro.
  - apply NoDup_port_names; auto.
  - apply NoDup_port_names; auto.
  - intros x H1 H2. apply in_map_iff in H1. destruct H1 as [i [<- _]]. apply in_map_iff in H2. destruct H2 as [j [E _]].
    unfold port_name in E. symmetry in E. exact (fstr_head_neq c1 r1 c2 r2 _ _ Hc E).
Qed.

Lemma enum_spec_In pre (a c d : list Q) k p :
  In p (map (enum_spec pre) (enum_from k (py_zip3 a c d))) ->
  exists i, ps_name p = port_name pre i /\ In (ps_init p) a /\ In (ps_rate p) c /\ In (ps_cap p) d.
Proof.
  intro H. apply in_map_iff in H. destruct H as [[i [[x y] z]] [<- Hin]].
  apply enum_from_In in Hin. destruct Hin as [_ Hin]. apply zip3_In in Hin. destruct Hin as [A [C D]].
  exists i. cbn. auto.
Qed.

Lemma sdict_get_set_same k v d : sdict_get k (sdict_set k v d) = Some v.
Proof.
  induction d as [|[q w] d IH]; cbn [sdict_set sdict_get]; [rewrite String.eqb_refl; reflexivity|].
  destruct (String.eqb k q) eqn:E; cbn [sdict_get]; rewrite E; [reflexivity|exact IH].
Qed.

Lemma sdict_get_set_keeps k k' v d : sdict_get k' d <> None -> sdict_get k' (sdict_set k v d) <> None.
Proof.
  induction d as [|[q w] d IH]; cbn [sdict_set sdict_get]; [congruence|].
  destruct (String.eqb k q) eqn:E; cbn [sdict_get]; destruct (String.eqb k' q); auto; discriminate.
Qed.

Lemma fold_upd_keys pre fees : forall xs s s',
  fold_upd (enum_upd pre fees) xs s = Some s' ->
  (forall k, sdict_get k s <> None -> sdict_get k s' <> None) /\
  (forall x, In x xs -> sdict_get (port_name pre (fst x)) s' <> None).
Proof.
  induction xs as [|x xs IH]; intros s s' H.
  - inversion H. subst. split; [auto|intros x []].
  - cbn [fold_upd] in H. unfold enum_upd at 1 in H. destruct (nth_error fees (fst x)) as [v|]; [|discriminate].
    destruct (IH _ _ H) as [K1 K2]. split.
    + intros k Hk. apply K1. apply sdict_get_set_keeps. exact Hk.
    + intros y [<-|Hy]; [|auto]. apply K1. rewrite sdict_get_set_same. discriminate.
Qed.

Lemma list_indexr_In l x : In x l -> exists i, list_indexr l x = Ok i /\ (i < length l)%nat.
Proof.
  intro H. unfold list_indexr. destruct (str_index x l) as [i|] eqn:E.
  - exists i. split; [reflexivity|]. eapply str_index_lt; eauto.
  - exfalso. exact (str_index_In x l H E).
Qed.

(* a matrix of the asserted shape can be read at every position *)
Lemma mat_shape_get (m : mat) a b i j : mat_shape_is m a b = true -> (i < a)%nat -> (j < b)%nat ->
  exists row v, list_getr m i = Ok row /\ list_getr row j = Ok v.
Proof.
  unfold mat_shape_is. intros H Hi Hj. apply andb_true_iff in H. destruct H as [H1 H2]. apply Nat.eqb_eq in H1.
  destruct (list_getr_lt m i) as [row [E Hin]]; [lia|].
  pose proof (forallb_In _ _ _ H2 Hin) as L. cbv beta in L. apply Nat.eqb_eq in L.
  destruct (list_getr_lt row j) as [v [E2 _]]; [lia|]. eauto.
Qed.

Lemma zip3_proj (a c d : list Q) : forall n, length a = n -> length c = n -> length d = n ->
  map (fun x => fst (fst x)) (py_zip3 a c d) = a /\ map (fun x => snd (fst x)) (py_zip3 a c d) = c /\
  map (fun x => snd x) (py_zip3 a c d) = d.
Proof.
  revert c d. induction a as [|x a IH]; intros c d n Ha Hc Hd.
  - destruct c; destruct d; simpl in *; try lia. auto.
  - destruct c as [|y c]; [simpl in *; lia|]. destruct d as [|z d]; [simpl in *; lia|].
    destruct n; [discriminate|]. destruct (IH c d n) as [A [C D]]; simpl in *; try lia.
    rewrite A, C, D. auto.
Qed.

Lemma enum_spec_proj pre (a c d : list Q) n k : length a = n -> length c = n -> length d = n ->
  map ps_init (map (enum_spec pre) (enum_from k (py_zip3 a c d))) = a /\
  map ps_rate (map (enum_spec pre) (enum_from k (py_zip3 a c d))) = c /\
  map ps_cap (map (enum_spec pre) (enum_from k (py_zip3 a c d))) = d /\
  map ps_name (map (enum_spec pre) (enum_from k (py_zip3 a c d))) = map (port_name pre) (seq k n).
Proof.
  intros Ha Hc Hd. destruct (zip3_proj a c d n Ha Hc Hd) as [A [C D]].
  rewrite !map_map. unfold enum_spec, ps_init, ps_rate, ps_cap, ps_name. cbn [fst snd].
  rewrite <- (map_map snd (fun x => fst (fst x))), <- (map_map snd (fun x => snd (fst x))),
          <- (map_map snd (fun x => snd x)), <- (map_map fst (port_name pre)).
  rewrite enum_from_snd, enum_from_fst, (zip3_length a c d n Ha Hc Hd). auto.
Qed.

Lemma Qltb_asym a b : Qltb a b = true -> Qltb b a = false.
Proof.
  intro H. apply Qltb_true in H. unfold Qltb. apply negb_false_iff. apply Qle_bool_iff. apply Qlt_le_weak. exact H.
Qed.

Lemma Qltb_neq a b : Qltb a b = true -> ~ b == a.
Proof. intros H E. apply Qltb_true in H. rewrite E in H. exact (Qlt_irrefl _ H). Qed.
