(* PyMat.v -- a small dynamically typed language of Python / numpy / scipy.sparse VALUES and the
   operations on them that occur in RoutingProblem.get_qubo and in the three
   get_sufficient_penalty methods.  Definitions only.  [C02_gen, C04_gen]

   The translator harness/translate_getqubo.py prints the Python expression tree 1:1 into the
   combinators e_* / g_* below; what a numpy / scipy call MEANS is fixed here, not in the
   translator.  Everything is over an arbitrary carrier with ring operations, a boolean equality
   and an absolute value, bundled in `ring_ops` (so that the generated text needs no type
   information: the carrier is an implicit argument inferred from the values).

   Values (the dense meaning of the containers; sizes are explicit, entries are functions as in
   LinAlg.v):
     VNone, VBool b            None, True / False
     Scal k                    a Python / numpy number (int and float are not distinguished: exact ring elements)
     Vec n v                   1-d array / list of numbers of length n          (v : nat -> K)
     Mat r c M                 2-d array or sparse container of shape (r, c)    (M : nat -> nat -> K)
     VList l                   list / tuple / dict view / any iterable of values, in iteration order
     VDict kv                  dict in insertion order
   Every operation returns `result val` (Base.result): shape mismatches raise ValueError exactly
   where scipy / numpy raise it ("dimension mismatch", "inconsistent shapes"); an operand
   combination that is NOT modelled yields `Err OtherError` (fail closed: no theorem about the
   generated program can then be proved through it). *)
From Coq Require Import ZArith List Bool Arith.
From VQ Require Import Base LinAlg.
Import ListNotations.

Record ring_ops := mkOps {
  rK : Type;
  r0 : rK; r1 : rK;
  radd : rK -> rK -> rK; rmul : rK -> rK -> rK; rsub : rK -> rK -> rK;
  ropp : rK -> rK;
  reqb : rK -> rK -> bool;       (* == on numbers *)
  rabs : rK -> rK }.             (* np.fabs / abs *)

Inductive val (K : Type) :=
| VNone
| VBool (b : bool)
| Scal (k : K)
| Vec (n : nat) (v : nat -> K)
| Mat (r c : nat) (M : nat -> nat -> K)
| VList (l : list (val K))
| VDict (kv : list (val K * val K)).
Arguments VNone {K}. Arguments VBool {K} b. Arguments Scal {K} k. Arguments Vec {K} n v.
Arguments Mat {K} r c M. Arguments VList {K} l. Arguments VDict {K} kv.

(* ---------- the exception monad ---------- *)
Definition pret {A} (a : A) : result A := Ok a.
Definition pbind {A B} (x : result A) (f : A -> result B) : result B :=
  match x with Ok a => f a | Err e => Err e end.

Section Ops.
  Variable Ops : ring_ops.
  Notation K := (rK Ops).
  Notation k0 := (r0 Ops).
  Notation k1 := (r1 Ops).
  Infix "+" := (radd Ops).
  Infix "*" := (rmul Ops).
  Infix "-" := (rsub Ops).
  Notation "- x" := (ropp Ops x).
  Notation sumK := (sum_n (r0 Ops) (radd Ops)).
  Notation V := (val (rK Ops)).

  (* ---------- numbers ---------- *)
  Definition k_of_pos (p : positive) : K := Pos.iter_op (radd Ops) p k1.
  Definition k_of_Z (z : Z) : K :=
    match z with Z0 => k0 | Zpos p => k_of_pos p | Zneg p => - k_of_pos p end.
  (* len(...) *)
  Fixpoint k_of_nat (n : nat) : K := match n with O => k0 | S m => k_of_nat m + k1 end.
  (* x ** n  for a literal n *)
  Fixpoint kpow (x : K) (n : nat) : K := match n with O => k1 | S m => x * kpow x m end.

  (* ---------- arithmetic: a + b, a - b, a * b, -a ---------- *)
  Definition same_shape (r c r' c' : nat) : bool := Nat.eqb r r' && Nat.eqb c c'.

  Definition py_add (a b : V) : result V :=
    match a, b with
    | Scal x, Scal y => Ok (Scal (x + y))
    | Vec n u, Vec m v => if Nat.eqb n m then Ok (Vec n (fun i => u i + v i)) else Err ValueError
    | Mat r c M, Mat r' c' N =>
        if same_shape r c r' c' then Ok (Mat r c (fun i j => M i j + N i j)) else Err ValueError
    | _, _ => Err OtherError
    end.

  Definition py_sub (a b : V) : result V :=
    match a, b with
    | Scal x, Scal y => Ok (Scal (x - y))
    | Vec n u, Vec m v => if Nat.eqb n m then Ok (Vec n (fun i => u i - v i)) else Err ValueError
    | Mat r c M, Mat r' c' N =>
        if same_shape r c r' c' then Ok (Mat r c (fun i j => M i j - N i j)) else Err ValueError
    | _, _ => Err OtherError
    end.

  (* number * number, number * array, array * number (entrywise scaling) *)
  Definition py_mul (a b : V) : result V :=
    match a, b with
    | Scal x, Scal y => Ok (Scal (x * y))
    | Scal x, Vec n v => Ok (Vec n (fun i => x * v i))
    | Vec n v, Scal x => Ok (Vec n (fun i => v i * x))
    | Scal x, Mat r c M => Ok (Mat r c (fun i j => x * M i j))
    | Mat r c M, Scal x => Ok (Mat r c (fun i j => M i j * x))
    | _, _ => Err OtherError
    end.

  Definition py_neg (a : V) : result V :=
    match a with
    | Scal x => Ok (Scal (- x))
    | Vec n v => Ok (Vec n (fun i => - v i))
    | Mat r c M => Ok (Mat r c (fun i j => - M i j))
    | _ => Err OtherError
    end.

  Definition py_pow (a : V) (n : nat) : result V :=
    match a with
    | Scal x => Ok (Scal (kpow x n))
    | _ => Err OtherError
    end.

  (* ---------- linear algebra ---------- *)
  (* X.transpose() *)
  Definition py_transpose (a : V) : result V :=
    match a with
    | Mat r c M => Ok (Mat c r (transpose K M))
    | Vec n v => Ok (Vec n v)
    | _ => Err OtherError
    end.

  (* X.dot(Y): matrix-matrix, matrix-vector, vector-matrix, vector-vector; the inner sizes must
     agree (scipy / numpy: ValueError "dimension mismatch" / "shapes not aligned") *)
  Definition py_dot (a b : V) : result V :=
    match a, b with
    | Mat r c M, Mat r' c' N =>
        if Nat.eqb c r' then Ok (Mat r c' (fun i j => sumK c (fun k => M i k * N k j)))
        else Err ValueError
    | Mat r c M, Vec n v =>
        if Nat.eqb c n then Ok (Vec r (mv K (r0 Ops) (radd Ops) (rmul Ops) c M v)) else Err ValueError
    | Vec n u, Mat r c M =>
        if Nat.eqb n r then Ok (Vec c (fun j => sumK n (fun i => u i * M i j))) else Err ValueError
    | Vec n u, Vec m v =>
        if Nat.eqb n m then Ok (Scal (dot K (r0 Ops) (radd Ops) (rmul Ops) n u v)) else Err ValueError
    | _, _ => Err OtherError
    end.

  (* sparse.diags(v): the square matrix with v on the main diagonal; a 0-d argument is a TypeError *)
  Definition py_diags (a : V) : result V :=
    match a with
    | Vec n v => Ok (Mat n n (fun i j => if Nat.eqb i j then v i else k0))
    | Scal _ => Err TypeError
    | _ => Err OtherError
    end.

  (* np.atleast_1d(v): a number becomes an array of length 1, arrays are unchanged *)
  Definition py_atleast_1d (a : V) : result V :=
    match a with
    | Scal x => Ok (Vec (S O) (fun _ => x))
    | Vec n v => Ok (Vec n v)
    | Mat r c M => Ok (Mat r c M)
    | _ => Err OtherError
    end.

  (* np.fabs(x) / abs(x) *)
  Definition py_fabs (a : V) : result V :=
    match a with
    | Scal x => Ok (Scal (rabs Ops x))
    | Vec n v => Ok (Vec n (fun i => rabs Ops (v i)))
    | _ => Err OtherError
    end.

  (* float(x) *)
  Definition py_float (a : V) : result V :=
    match a with
    | Scal x => Ok (Scal x)
    | _ => Err TypeError
    end.

  (* len(x) *)
  Definition py_len (a : V) : result V :=
    match a with
    | VList l => Ok (Scal (k_of_nat (length l)))
    | VDict kv => Ok (Scal (k_of_nat (length kv)))
    | Vec n _ => Ok (Scal (k_of_nat n))
    | _ => Err TypeError
    end.

  (* d.values() *)
  Definition py_values (a : V) : result V :=
    match a with
    | VDict kv => Ok (VList (map snd kv))
    | _ => Err AttributeError
    end.

  (* iter(x): the elements in iteration order *)
  Definition py_iter (a : V) : result (list V) :=
    match a with
    | VList l => Ok l
    | VDict kv => Ok (map fst kv)
    | Vec n v => Ok (map (fun i => Scal (v i)) (seq O n))
    | _ => Err TypeError
    end.

  (* sum(iterable): 0 + x1 + x2 + ... from the left *)
  Definition py_sum (l : list V) : result V :=
    fold_left (fun acc x => pbind acc (fun a => py_add a x)) l (Ok (Scal k0)).

  (* ---------- truth values and tests ---------- *)
  (* bool(x) *)
  Definition py_truth (a : V) : result bool :=
    match a with
    | VNone => Ok false
    | VBool b => Ok b
    | Scal x => Ok (negb (reqb Ops x k0))
    | VList l => Ok (negb (Nat.eqb (length l) O))
    | VDict kv => Ok (negb (Nat.eqb (length kv) O))
    | Vec _ _ | Mat _ _ _ => Err ValueError
    end.

  Definition py_not (a : V) : result V := pbind (py_truth a) (fun b => Ok (VBool (negb b))).
  Definition py_is_none (a : V) : result V :=
    Ok (VBool match a with VNone => true | _ => false end).
  (* x is True / x is False: identity with the bool singleton, NOT truthiness *)
  Definition py_is_bool (c : bool) (a : V) : result V :=
    Ok (VBool match a with VBool b => Bool.eqb b c | _ => false end).
  Definition py_eq (a b : V) : result V :=
    match a, b with
    | Scal x, Scal y => Ok (VBool (reqb Ops x y))
    | _, _ => Err OtherError
    end.
  Definition py_ne (a b : V) : result V :=
    match a, b with
    | Scal x, Scal y => Ok (VBool (negb (reqb Ops x y)))
    | _, _ => Err OtherError
    end.

  (* ---------- expression combinators: sub-expressions are evaluated left to right ---------- *)
  Definition lift1 (op : V -> result V) (x : result V) : result V := pbind x op.
  Definition lift2 (op : V -> V -> result V) (x y : result V) : result V :=
    pbind x (fun a => pbind y (fun b => op a b)).

  Definition e_num (z : Z) : result V := Ok (Scal (k_of_Z z)).
  Definition e_none : result V := Ok VNone.
  Definition e_bool (b : bool) : result V := Ok (VBool b).
  Definition e_add := lift2 py_add.
  Definition e_sub := lift2 py_sub.
  Definition e_mul := lift2 py_mul.
  Definition e_neg := lift1 py_neg.
  Definition e_pow (x : result V) (n : nat) : result V := pbind x (fun a => py_pow a n).
  Definition e_transpose := lift1 py_transpose.
  Definition e_dot := lift2 py_dot.
  Definition e_diags := lift1 py_diags.
  Definition e_atleast_1d := lift1 py_atleast_1d.
  Definition e_fabs := lift1 py_fabs.
  Definition e_float := lift1 py_float.
  Definition e_len := lift1 py_len.
  Definition e_values := lift1 py_values.
  Definition e_not := lift1 py_not.
  Definition e_is_none := lift1 py_is_none.
  Definition e_is_not_none (x : result V) : result V := e_not (e_is_none x).
  Definition e_is_bool (c : bool) := lift1 (py_is_bool c).
  Definition e_is_not_bool (c : bool) (x : result V) : result V := e_not (e_is_bool c x).
  Definition e_eq := lift2 py_eq.
  Definition e_ne := lift2 py_ne.
  (* a and b / a or b as CONDITIONS (the translator accepts them only in tests) *)
  Definition e_and (x y : result V) : result V :=
    pbind x (fun a => pbind (py_truth a) (fun t => if t then y else Ok a)).
  Definition e_or (x y : result V) : result V :=
    pbind x (fun a => pbind (py_truth a) (fun t => if t then Ok a else y)).

  (* call of a method / function given as an oracle, one argument *)
  Definition e_call1 {T} (f : V -> result T) (x : result V) : result T := pbind x f.

  (* if test: A else: B   (the test is converted with bool()) *)
  Definition e_if {T} (test : result V) (A B : result T) : result T :=
    pbind test (fun c => pbind (py_truth c) (fun t => if t then A else B)).

  (* ---------- generator expressions ---------- *)
  Definition e_iter (x : result V) : result (list V) := pbind x py_iter.
  Definition g_yield (x : result V) : result (list V) := pbind x (fun a => Ok [a]).
  Fixpoint g_each (l : list V) (body : V -> result (list V)) : result (list V) :=
    match l with
    | [] => Ok []
    | a :: l' => pbind (body a) (fun ys => pbind (g_each l' body) (fun zs => Ok (ys ++ zs)))
    end.
  (* (... for x in it ...): the body yields the elements contributed by one x *)
  Definition g_for (it : result (list V)) (body : V -> result (list V)) : result (list V) :=
    pbind it (fun l => g_each l body).
  (* (... for x in it if test ...) *)
  Definition g_when (test : result V) (body : result (list V)) : result (list V) :=
    pbind test (fun c => pbind (py_truth c) (fun t => if t then body else Ok [])).
  Definition e_sum (g : result (list V)) : result V := pbind g py_sum.
End Ops.

Arguments e_num {Ops} z. Arguments e_none {Ops}. Arguments e_bool {Ops} b.
Arguments e_add {Ops} x y. Arguments e_sub {Ops} x y. Arguments e_mul {Ops} x y. Arguments e_neg {Ops} x.
Arguments e_pow {Ops} x n. Arguments e_transpose {Ops} x. Arguments e_dot {Ops} x y.
Arguments e_diags {Ops} x. Arguments e_atleast_1d {Ops} x. Arguments e_fabs {Ops} x. Arguments e_float {Ops} x.
Arguments e_len {Ops} x. Arguments e_values {Ops} x. Arguments e_not {Ops} x. Arguments e_is_none {Ops} x.
Arguments e_is_not_none {Ops} x. Arguments e_is_bool {Ops} c x. Arguments e_is_not_bool {Ops} c x.
Arguments e_eq {Ops} x y. Arguments e_ne {Ops} x y. Arguments e_and {Ops} x y. Arguments e_or {Ops} x y.
Arguments e_call1 {Ops T} f x. Arguments e_if {Ops T} test A B.
Arguments e_iter {Ops} x. Arguments g_yield {Ops} x. Arguments g_each {Ops} l body.
Arguments g_for {Ops} it body. Arguments g_when {Ops} test body. Arguments e_sum {Ops} g.

(* None or a number, as the argument penalty_parameter is documented *)
Definition opt_val {K} (o : option K) : val K :=
  match o with None => VNone | Some r => Scal r end.

(* the two carriers the correspondence files evaluate *)
Definition Zops : ring_ops := mkOps Z 0%Z 1%Z Z.add Z.mul Z.sub Z.opp Z.eqb Z.abs.
