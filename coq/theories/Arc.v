(* Arc.v -- executable model of routing_problem/formulations/arc_based_rp.py
   (class ArcBasedRoutingProblem): add_time_points, enumerate_variables_quicker,
   get_num_variables, get_var_index, get_var_tuple_index, build_objective,
   build_constraints_quicker, get_objective_data, get_constraint_data, get_routes.
   Definitions only.  [C05, C18]

   Conventions
   * the graph is Vrptw.graph (nodes with windows lo:Z / hi:ext, arcs : insertion ordered dict
     keyed by node positions); times are integers;
   * `for ... in self.time_points` loops with `continue` / `break` are the function `scan`:
     `break` is an early exit, NOT a filter;
   * self.nodes[i] is `nth i (nodes g) dummy_node`: arc keys of a VRPTW graph are node positions
     (Vrptw_facts.Inv), the theorems carry that as a hypothesis;
   * loops over `range(self.get_num_variables())` that read `self.var_mapping[col]` are modelled with
     the counter and the list lookup they use; the lookup cannot miss because the counter equals the
     length of the list (Arc_facts.num_variables_length, no hypothesis). *)
From VQ Require Import Base Vrptw.

Definition var := (nat * Z * nat * Z)%type.          (* (i, s, j, t) *)
Definition nt := (nat * Z)%type.                      (* (node, time) *)

Record inst := mkInst { ig : graph; igrid : list Z }.

(* ---------- np.sort (duplicates are kept) ---------- *)
Fixpoint insertZ (x : Z) (l : list Z) : list Z :=
  match l with
  | [] => [x]
  | y :: l' => if x <=? y then x :: l else y :: insertZ x l'
  end.
Fixpoint sortZ (l : list Z) : list Z :=
  match l with [] => [] | x :: l' => insertZ x (sortZ l') end.

(* add_time_points: self.time_points = np.sort(time_points) *)
Definition tp (I : inst) : list Z := sortZ (igrid I).

Definition node_at (g : graph) (i : nat) : node := nth i (nodes g) dummy_node.
Definition win_lo (g : graph) (i : nat) : Z := nlo (node_at g i).
Definition win_hi (g : graph) (i : nat) : ext := nhi (node_at g i).
Definition dummy_arc : arc := mkArc 0 0 0 0.
(* self.arcs[(i,j)] *)
Definition arc_at (g : graph) (i j : nat) : arc :=
  match dict_get (i, j) (arcs g) with Some a => a | None => dummy_arc end.

(* t > hi   (never true for hi = inf) *)
Definition above (t : Z) (hi : ext) : bool := negb (ext_leb (Fin t) hi).

(* for e in l:  if key e < lo: continue;  if key e > hi: break;  st = body e st *)
Fixpoint scan {A S : Type} (key : A -> Z) (lo : Z) (hi : ext) (body : A -> S -> S)
         (l : list A) (st : S) : S :=
  match l with
  | [] => st
  | e :: l' =>
      if key e <? lo then scan key lo hi body l' st
      else if above (key e) hi then st
      else scan key lo hi body l' (body e st)
  end.

(* ---------- enumerate_variables_quicker: state (var_mapping, num_vars) ---------- *)
Definition estate := (list var * nat)%type.

(* innermost body: third check, then append and count *)
Definition enum_t (i : nat) (s : Z) (j : nat) (trav : Z) (t : Z) (st : estate) : estate :=
  if s + trav >? t then st else (fst st ++ [(i, s, j, t)], S (snd st)).

Definition enum_s (g : graph) (tps : list Z) (i j : nat) (s : Z) (st : estate) : estate :=
  scan (fun t => t) (win_lo g j) (win_hi g j) (enum_t i s j (att (arc_at g i j))) tps st.

Definition enum_arc (g : graph) (tps : list Z) (k : nat * nat) (st : estate) : estate :=
  scan (fun s => s) (win_lo g (fst k)) (win_hi g (fst k)) (enum_s g tps (fst k) (snd k)) tps st.

Definition enumerate (I : inst) : estate :=
  fold_left (fun st kv => enum_arc (ig I) (tp I) (fst kv) st) (arcs (ig I)) ([], O).

Definition vars (I : inst) : list var := fst (enumerate I).            (* self.var_mapping *)
Definition num_variables (I : inst) : nat := snd (enumerate I).         (* self.num_variables *)

Definition var_eqb (a b : var) : bool :=
  match a, b with
  | (i, s, j, t), (i', s', j', t') => Nat.eqb i i' && (s =? s') && Nat.eqb j j' && (t =? t')
  end.
Definition nt_eqb (a b : nt) : bool := Nat.eqb (fst a) (fst b) && (snd a =? snd b).

(* list.index: first position, None for ValueError *)
Fixpoint find_index {A} (eqb : A -> A -> bool) (x : A) (l : list A) : option nat :=
  match l with
  | [] => None
  | y :: l' => if eqb x y then Some O else option_map S (find_index eqb x l')
  end.

Definition get_var_index (I : inst) (v : var) : option nat := find_index var_eqb v (vars I).
(* self.var_mapping[k] for k >= 0, None for IndexError *)
Definition get_var_tuple_index (I : inst) (k : nat) : option var := nth_error (vars I) k.

Definition orig (v : var) : nt := match v with (i, s, _, _) => (i, s) end.
Definition dest (v : var) : nt := match v with (_, _, j, t) => (j, t) end.
Definition onode (v : var) : nat := fst (orig v).
Definition dnode (v : var) : nat := fst (dest v).
Definition dep (v : var) : Z := snd (orig v).
Definition arr (v : var) : Z := snd (dest v).

(* ---------- build_objective ---------- *)
(* (`let`s only share work under vm_compute; `vs` is self.var_mapping, `nth_error vs k` is
   get_var_tuple_index I k) *)
Definition objective (I : inst) : list Z :=
  let vs := vars I in
  let g := ig I in
  map (fun k => match nth_error vs k with
                | Some v => acost (arc_at g (onode v) (dnode v))
                | None => 0    (* unreachable: num_variables = length var_mapping *)
                end) (seq 0 (num_variables I)).

(* ---------- build_constraints_quicker ---------- *)
Inductive cname := CFlow (i sidx : nat) | CNode (j : nat).
Definition cname_eqb (a b : cname) : bool :=
  match a, b with
  | CFlow i k, CFlow i' k' => Nat.eqb i i' && Nat.eqb k k'
  | CNode j, CNode j' => Nat.eqb j j'
  | _, _ => false
  end.

(* (flow_conservation_mapping, brhs, constraint_names, row_index) *)
Definition cstate := (list nt * list Z * list cname * nat)%type.
Definition c_fcm (st : cstate) : list nt := fst (fst (fst st)).
Definition c_brhs (st : cstate) : list Z := snd (fst (fst st)).
Definition c_names (st : cstate) : list cname := snd (fst st).
Definition c_row (st : cstate) : nat := snd st.

Definition flow_body (i : nat) (p : nat * Z) (st : cstate) : cstate :=
  (c_fcm st ++ [(i, snd p)], c_brhs st ++ [0], c_names st ++ [CFlow i (fst p)], S (c_row st)).

(* for s_index, s in enumerate(self.time_points) *)
Definition enumerate_list {A} (l : list A) : list (nat * A) := combine (seq 0 (length l)) l.

Definition flow_rows (g : graph) (tps : list Z) : cstate :=
  fold_left (fun st i => scan (fun p : nat * Z => snd p) (win_lo g i) (win_hi g i) (flow_body i)
                              (enumerate_list tps) st)
            (seq 1 (length (nodes g) - 1)) ([], [], [], O).

Definition fcm (I : inst) : list nt := c_fcm (flow_rows (ig I) (tp I)).

Definition trip := (Z * nat * nat)%type.              (* (value, row, column) *)

Definition flow_trips_of (m : list nt) (col : nat) (v : var) : list trip :=
  (match find_index nt_eqb (orig v) m with Some r => [(-1, r, col)] | None => [] end) ++
  (match find_index nt_eqb (dest v) m with Some r => [(1, r, col)] | None => [] end).

Definition visit_trips_of (row_index : nat) (col : nat) (v : var) : list trip :=
  if Nat.eqb (dnode v) 0 then [] else [(1, (row_index + (dnode v - 1))%nat, col)].

Definition over_cols (I : inst) (f : nat -> var -> list trip) : list trip :=
  let vs := vars I in
  flat_map (fun col => match nth_error vs col with     (* get_var_tuple_index(col) *)
                       | Some v => f col v
                       | None => []   (* unreachable, see header *)
                       end) (seq 0 (num_variables I)).

(* aval / arow / acol *)
Definition triplets (I : inst) : list trip :=
  let st := flow_rows (ig I) (tp I) in
  over_cols I (flow_trips_of (c_fcm st)) ++ over_cols I (visit_trips_of (c_row st)).

Definition rhs (I : inst) : list Z :=
  c_brhs (flow_rows (ig I) (tp I)) ++ repeat 1 (length (nodes (ig I)) - 1).

Definition constraint_names (I : inst) : list cname :=
  c_names (flow_rows (ig I) (tp I)) ++ map CNode (seq 1 (length (nodes (ig I)) - 1)).

Fixpoint sumz (l : list Z) : Z := match l with [] => 0 | x :: l' => x + sumz l' end.

(* dense meaning of a COO triplet list: duplicates are summed *)
Definition entry (T : list trip) (r c : nat) : Z :=
  sumz (map (fun tr : trip => match tr with (v, r', c') =>
                 if Nat.eqb r' r && Nat.eqb c' c then v else 0 end) T).

Definition A_shape (I : inst) : nat * nat := (length (rhs I), num_variables I).

Definition A_dense (I : inst) : list (list Z) :=
  let T := triplets I in
  let sh := A_shape I in
  map (fun r => map (fun c => entry T r c) (seq 0 (snd sh))) (seq 0 (fst sh)).

(* u . x over the first n positions *)
Definition dotn (n : nat) (u x : list Z) : Z :=
  sumz (map (fun k => nth k u 0 * nth k x 0) (seq 0 n)).

Definition Ax (I : inst) (x : list Z) : list Z :=
  let n := num_variables I in
  map (fun row => dotn n row x) (A_dense I).

Definition obj_value (I : inst) (x : list Z) : Z := dotn (num_variables I) (objective I) x.

(* ---------- get_routes ---------- *)
(* np.nonzero(solution)[0] *)
Definition nonzero (x : list Z) : list nat :=
  map fst (filter (fun p : nat * Z => negb (snd p =? 0)) (enumerate_list x)).

(* lexicographic order on (i, s, j, t)  (np.lexsort on the flipped columns) *)
Definition var_leb (a b : var) : bool :=
  match a, b with
  | (i, s, j, t), (i', s', j', t') =>
      if Nat.ltb i i' then true else if Nat.ltb i' i then false
      else if s <? s' then true else if s' <? s then false
      else if Nat.ltb j j' then true else if Nat.ltb j' j then false
      else t <=? t'
  end.
Fixpoint insertV (x : var) (l : list var) : list var :=
  match l with
  | [] => [x]
  | y :: l' => if var_leb x y then x :: l else y :: insertV x l'
  end.
Fixpoint sortV (l : list var) : list var :=
  match l with [] => [] | x :: l' => insertV x (sortV l') end.

(* for i,a in enumerate(tuples_ordered): if node_to_find == (a[0],a[1]): pop(i); break *)
Fixpoint pop_first (p : nt) (l : list var) : option (var * list var) :=
  match l with
  | [] => None
  | a :: l' =>
      if nt_eqb p (orig a) then Some (a, l')
      else match pop_first p l' with
           | Some (b, r) => Some (b, a :: r)
           | None => None
           end
  end.

(* visited[k] += 1 *)
Fixpoint incr (k : nat) (l : list Z) : option (list Z) :=
  match l, k with
  | [], _ => None
  | x :: l', O => Some (x + 1 :: l')
  | x :: l', S k' => option_map (cons x) (incr k' l')
  end.

(* check_node_time_compat *)
Definition compat (g : graph) (i : nat) (t : Z) : bool :=
  (win_lo g i <=? t) && ext_leb (Fin t) (win_hi g i).

Definition route := list nt.

(* the inner `while not route_finished` loop; every iteration but the last pops one tuple, so
   fuel = 1 + number of tuples left is enough *)
Fixpoint follow (fuel : nat) (g : graph) (a : var) (rest : list var) (r : route) (vis : list Z)
  : result (route * list var * list Z) :=
  match fuel with
  | O => Err OtherError
  | S f =>
      let r1 := r ++ [orig a] in
      match incr (dnode a) vis with
      | None => Err IndexError
      | Some vis1 =>
          if negb (compat g (dnode a) (arr a)) then Err AssertionError
          else match pop_first (dest a) rest with
               | Some (b, rest') => follow f g b rest' r1 vis1
               | None => Ok (r1 ++ [dest a], rest, vis1)
               end
      end
  end.

(* the outer `while len(tuples_ordered) > 0` loop *)
Fixpoint routes_loop (fuel : nat) (g : graph) (rest : list var) (rs : list route) (vis : list Z)
  : result (list route * list Z) :=
  match rest with
  | [] => Ok (rs, vis)
  | a :: rest0 =>
      match fuel with
      | O => Err OtherError
      | S f =>
          match follow (S (length rest0)) g a rest0 [] vis with
          | Err e => Err e
          | Ok (r, rest', vis') => routes_loop f g rest' (rs ++ [r]) vis'
          end
      end
  end.

Definition all_some {A} (l : list (option A)) : option (list A) :=
  fold_right (fun o acc => match o, acc with Some a, Some r => Some (a :: r) | _, _ => None end)
             (Some []) l.

Definition get_routes (I : inst) (x : list Z) : result (list route) :=
  match nonzero x with
  | [] =>
      (* if soln_var_indices.size == 0: assert len(self.nodes) <= 1; return [] *)
      if Nat.leb (length (nodes (ig I))) 1 then Ok [] else Err AssertionError
  | idxs =>
      match (let vs := vars I in all_some (map (nth_error vs) idxs)) with
      | None => Err ValueError       (* np.array of tuples and None: inhomogeneous shape *)
      | Some sel =>                  (* non-empty: as many tuples as indices *)
          let ordered := sortV sel in
          match routes_loop (length ordered) (ig I) ordered [] (repeat 0 (length (nodes (ig I)))) with
          | Err e => Err e
          | Ok (rs, vis) =>
              if forallb (fun c => c =? 1) (tl vis) then Ok rs else Err AssertionError
          end
      end
  end.

Definition decode := get_routes.

(* the selected tuples of a vector, in index order *)
Definition selected (I : inst) (x : list Z) : list var :=
  map fst (filter (fun p : var * Z => negb (snd p =? 0)) (combine (vars I) x)).

(* ---------- correspondence ---------- *)
Definition ovar_eqb := option_eqb var_eqb.
Definition onat_eqb := option_eqb Nat.eqb.
Definition route_eqb := list_eqb nt_eqb.

(* every tuple of nodes x times x nodes x times, in a fixed order (the harness uses the same);
   `times` is the grid plus a few values that are not on it *)
Definition tuple_space (n : nat) (times : list Z) : list var :=
  let ns := seq 0 n in
  flat_map (fun i => flat_map (fun s => flat_map (fun j => map (fun t => (i, s, j, t)) times) ns)
                              times) ns.

(* C18: graph, grid, lookup times, var_mapping, num_variables, get_var_index over the tuple space,
   get_var_tuple_index for 0 .. n+2 *)
Definition c18case := (graph * list Z * list Z * list var * nat * list (option nat) * list (option var))%type.
Definition check_c18case (c : c18case) : list nat :=
  match c with
  | (g, grid, times, ivars, inum, iidx, itup) =>
      let I := mkInst g grid in
      chk 1 (list_eqb var_eqb (vars I) ivars) ++
      chk 2 (Nat.eqb (num_variables I) inum) ++
      (* get_var_index I v = find_index var_eqb v (vars I), get_var_tuple_index I k = nth_error (vars I) k *)
      let vs := vars I in
      chk 3 (list_eqb onat_eqb (map (fun v => find_index var_eqb v vs) (tuple_space (length (nodes g)) times)) iidx) ++
      chk 4 (list_eqb ovar_eqb (map (nth_error vs) (seq 0 (inum + 3))) itup)
  end.

(* C05: graph, grid, dense A, b, c, shape of A, constraint names, get_routes on given vectors *)
Definition c05case := (graph * list Z * list (list Z) * list Z * list Z * (nat * nat) * list cname *
                       list (list Z * result (list route)))%type.
Definition check_c05case (c : c05case) : list nat :=
  match c with
  | (g, grid, iA, ib, ic, ishape, inames, idec) =>
      let I := mkInst g grid in
      chk 1 (list_eqb (list_eqb Z.eqb) (A_dense I) iA) ++
      chk 2 (list_eqb Z.eqb (rhs I) ib) ++
      chk 3 (list_eqb Z.eqb (objective I) ic) ++
      chk 4 (natpair_eqb (A_shape I) ishape) ++
      chk 5 (list_eqb cname_eqb (constraint_names I) inames) ++
      chk 6 (forallb (fun p : list Z * result (list route) =>
                        result_eqb (list_eqb route_eqb) (get_routes I (fst p)) (snd p)) idec)
  end.
