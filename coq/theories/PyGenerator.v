(* PyGenerator.v -- the vocabulary of the model GENERATED from examples/mirp_random.py:get_generator
   (coq/gen/GeneratorGen.v, written by harness/translate_generator.py on every run of bin/check C19), and the closed
   forms / supports the theorems of genprops/C19_generator_gen.v are stated with.  Definitions only; lemmas are in
   PyGenerator_facts.v.

   get_generator is straight-line code that BUILDS objects: it replaces absent parameters by scipy distributions,
   wraps distributions into WrapperSampler objects, builds sampler objects with Python's operators and passes them to
   the dataclass constructor RandomMIRP(...).  The generated file records

     gen_params        the parameters (name, "has the default None")
     gen_leaves        the leaf objects: a parameter (with the distribution put in its place when None is passed)
                       or a distribution created in the body
     gen_uses          every place where a leaf object is used, with the kinds of object it can be at that place
     gen_class_fields  the fields of the dataclass RandomMIRP in declaration order (name, "has a default")
     gen_call          the constructor call: (field the argument is bound to, value), in the order written

   Expressions are Sampler.aexp over the carrier Qc (exact rationals, real division Qcdiv). *)
From Coq Require Import List Arith Bool QArith Qcanon String.
From VQ Require Import Base Sampler.
Import ListNotations.

(* a Python numeric literal / exactly representable float: n/d in lowest terms *)
Definition qlit (n : Z) (d : positive) : Qc := Q2Qc (n # d).

(* ---------- the Qc instance of Sampler.v (division is the field division of Qc) ---------- *)
Definition gcompile := compile Qcplus Qcmult Qcminus Qcdiv Qcopp.
Definition grvs := rvs q1 Qcplus Qcmult Qcdiv Qcopp.
Definition gaeval := aeval q0 Qcplus Qcmult Qcminus Qcdiv Qcopp.
Definition gsample := sample q1 Qcplus Qcmult Qcdiv Qcopp.
(* the value of an expression of constants only (what Python computes before any sampler is involved) *)
Definition cval (e : aexp Qc) : Qc := gaeval [] e 0.

(* ---------- leaf objects ---------- *)
(* (loc, scale) of scipy.stats.uniform(loc, scale): support [loc, loc + scale]; both are constant expressions *)
Definition dist := (aexp Qc * aexp Qc)%type.
Inductive leafsrc :=
| LParam (pname : string) (default : option dist)   (* the parameter; [default] replaces a None *)
| LFresh (d : dist).                                 (* uniform(...) created in the body *)
Record leafinfo := mkLeaf { li_id : nat; li_src : leafsrc }.

(* one use of a leaf object: as an operand of + - * / or unary minus ([lu_operator]) or passed as it is to the
   constructor; the flags say which kinds of object the name can be bound to at that place:
   None / a raw scipy distribution (RVT) / a SimpleSampler *)
Record leafuse := mkUse { lu_id : nat; lu_operator : bool; lu_none : bool; lu_raw : bool; lu_sampler : bool }.

(* an operand of an operator must be a SimpleSampler (float / rv_frozen raises TypeError, None too; the reflected
   operators would accept a raw distribution on the left of a sampler, but not on the right of a number);
   a field sampled by sample() may be a SimpleSampler or a raw distribution (both are Sampleable_Type), not None *)
Definition use_ok (u : leafuse) : bool :=
  if lu_operator u then negb (lu_none u) && negb (lu_raw u) && lu_sampler u
  else negb (lu_none u) && (lu_raw u || lu_sampler u).
Definition uses_ok (us : list leafuse) : bool := forallb use_ok us.

(* ---------- the constructor call ---------- *)
Inductive fval :=
| FPar (name : string)        (* a parameter of get_generator passed on unchanged *)
| FNum (e : aexp Qc)          (* a number: expression of constants *)
| FExp (e : aexp Qc)          (* a sampler object / distribution: expression with leaves *)
| FNone.                      (* the literal None *)

Fixpoint field_of (call : list (string * fval)) (name : string) : option fval :=
  match call with
  | [] => None
  | (n, v) :: r => if String.eqb n name then Some v else field_of r name
  end.
(* the expression passed for a field; a leafless constant (which does not compile to a sampler) when the field is
   not bound to an expression *)
Definition fexp (call : list (string * fval)) (name : string) : aexp Qc :=
  match field_of call name with Some (FExp e) => e | _ => AConst q0 end.
Definition fnum (call : list (string * fval)) (name : string) : option Qc :=
  match field_of call name with Some (FNum e) => Some (cval e) | _ => None end.

Fixpoint count_name (n : string) (l : list string) : nat :=
  match l with [] => O | x :: r => (if String.eqb x n then 1 else 0) + count_name n r end.
(* dataclass __init__: every field without a default is bound exactly once, no field twice, no unknown field *)
Definition call_ok (fields : list (string * bool)) (call : list (string * fval)) : bool :=
  forallb (fun f : string * bool => let c := count_name (fst f) (map fst call) in
                                    if snd f then Nat.leb c 1 else Nat.eqb c 1) fields
  && forallb (fun a : string * fval => Nat.eqb (count_name (fst a) (map fst fields)) 1) call.

(* ---------- supports ---------- *)
Definition in_supp (lo hi x : Qc) : Prop := (lo <= x /\ x <= hi)%Qc.
Definition supp_of (d : dist) : Qc * Qc := (cval (fst d), (cval (fst d) + cval (snd d))%Qc).
(* every array the oracle hands out for leaf i has its entries in [lo, hi] *)
Definition draws_in (d : nat -> nat -> nat -> list Qc) (i : nat) (lo hi : Qc) : Prop :=
  forall k m x, In x (d i k m) -> in_supp lo hi x.

(* ---------- closed forms of the fields (scalar reading, one entry of the arrays) ---------- *)
Local Open Scope Qc_scope.
Definition cf_rate_supply (tbw : Qc) : Qc := qlit 1 1 / tbw.
Definition cf_rate_demand (tbw : Qc) : Qc := - qlit 1 1 / tbw.
Definition cf_cap_supply (tw tbw : Qc) : Qc := tw * (qlit 1 1 / tbw) + qlit 1 1.
Definition cf_cap_demand (tw tbw : Qc) : Qc := - (tw * (- qlit 1 1 / tbw)) + qlit 1 1.
Definition cf_init_demand (tw tbw : Qc) : Qc := cf_cap_demand tw tbw - qlit 1 1 / qlit 2 1.

(* the arrays handed to the leaf occurrences of an expression sampled with size m from log st, and entry j of the
   p-th of them *)
Definition occ_arrays (d : nat -> nat -> nat -> list Qc) (m : nat) (e : aexp Qc) (st : dlog) : list (list Qc) :=
  leaf_arrays d m (leaves e) st.
Definition entry (arrs : list (list Qc)) (p j : nat) : Qc := nth j (nth p arrs []) q0.

(* ---------- what "the field samples the closed form" means ---------- *)
(* every leaf returns an array of the requested size *)
Definition leaf_shape (d : nat -> nat -> nat -> list Qc) : Prop := forall i k m, length (d i k m) = m.

(* the expression e is a sampler object; sampled with ANY size m from ANY draw log st it returns an array of shape
   (m,), draws leaf i1 (one call, size m) -- the call number [occ i1 st] of that leaf -- and nothing else, and entry j of
   the result is cf applied to entry j of that array *)
Definition samples1 (d : nat -> nat -> nat -> list Qc) (e : aexp Qc) (i1 : nat) (cf : Qc -> Qc) : Prop :=
  exists s, gcompile e = Ok s /\ forall m st,
    let r := grvs d m s st in
    length (fst r) = m /\ snd r = st ++ [(i1, m)] /\
    forall j, (j < m)%nat -> nth j (fst r) q0 = cf (nth j (d i1 (occ i1 st) m) q0).
(* the same with two leaf occurrences, drawn in the order i1, i2 (i1 <> i2), one call each *)
Definition samples2 (d : nat -> nat -> nat -> list Qc) (e : aexp Qc) (i1 i2 : nat) (cf : Qc -> Qc -> Qc) : Prop :=
  exists s, gcompile e = Ok s /\ forall m st,
    let r := grvs d m s st in
    length (fst r) = m /\ snd r = st ++ [(i1, m); (i2, m)] /\
    forall j, (j < m)%nat ->
      nth j (fst r) q0 = cf (nth j (d i1 (occ i1 st) m) q0) (nth j (d i2 (occ i2 st) m) q0).

(* ---------- which (leaf, call number) pairs a sequence of samplings reads ---------- *)
Fixpoint occ_reads (m : nat) (ls : list nat) (st : dlog) : list (nat * nat) :=
  match ls with
  | [] => []
  | i :: r => (i, occ i st) :: occ_reads m r (st ++ [(i, m)])
  end.
(* expressions sampled one after the other with the given sizes, starting from log st *)
Fixpoint seq_reads (l : list (aexp Qc * nat)) (st : dlog) : list (list (nat * nat)) :=
  match l with
  | [] => []
  | (e, m) :: r => occ_reads m (leaves e) st :: seq_reads r (st ++ map (fun i : nat => (i, m)) (leaves e))
  end.
Fixpoint seq_log (l : list (aexp Qc * nat)) (st : dlog) : dlog :=
  match l with
  | [] => st
  | (e, m) :: r => seq_log r (st ++ map (fun i : nat => (i, m)) (leaves e))
  end.
