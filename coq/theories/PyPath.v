(* PyPath.v -- the Python-level combinators the translator harness/translate_path.py prints into
   (coq/gen/PathGen.v): what a list subscript, a dict lookup, a `for` loop with early `return`,
   `isinstance(x, str)`, `max`, a comparison with inf, an attribute read of self, ... MEAN.
   Definitions only; facts are in PyPath_facts.v.  The meaning of the numpy / scipy calls of
   get_math_program_data (np.ones, np.zeros, fancy-index write, boolean row mask, csr_array) is
   their dense meaning, stated here ("modelled, not verified", DESIGN section 5).       [C06 gen]

   Representation (fixed by the hand model Path.v): a Python int is a Z; an element of a candidate
   route is  inl name | inr int;  self is a Path.pstate;  self.routes holds lists of node indices
   (nat), self.route_node_visited holds flatnonzero arrays (list nat). *)
From VQ Require Import Base Vrptw Path.

(* ---------- exceptions: a computation that may raise ---------- *)
Definition rbind {A B} (x : result A) (f : A -> result B) : result B :=
  match x with Ok a => f a | Err e => Err e end.

(* ---------- loops with early exit ----------
   The loop body maps the loop-carried variables to  Cont (their new values)  or to
   Stop (what the enclosing function returns / raises at this point). *)
Inductive ctl (S R : Type) := Cont (s : S) | Stop (r : R).
Arguments Cont {S R} s.
Arguments Stop {S R} r.

(* for x in xs: body *)
Fixpoint for_each {X S R} (xs : list X) (body : X -> S -> ctl S R) (s : S) : ctl S R :=
  match xs with
  | [] => Cont s
  | x :: xs' => match body x s with
                | Cont s' => for_each xs' body s'
                | Stop r => Stop r
                end
  end.

(* range(n) for a Python int n: 0, 1, ..., n-1; empty when n <= 0 *)
Definition py_range (n : Z) : list Z := map Z.of_nat (seq 0 (Z.to_nat n)).

(* enumerate(l): (0, l[0]), (1, l[1]), ... *)
Fixpoint py_enumerate_from {A} (k : nat) (l : list A) : list (Z * A) :=
  match l with [] => [] | x :: l' => (Z.of_nat k, x) :: py_enumerate_from (S k) l' end.
Definition py_enumerate {A} (l : list A) : list (Z * A) := py_enumerate_from O l.

(* ---------- Python lists ---------- *)
Definition py_len {A} (l : list A) : Z := Z.of_nat (length l).

(* l[z]  (negative ints wrap; IndexError outside) *)
Definition py_getitem {A} (l : list A) (z : Z) : result A :=
  match py_pos (length l) z with
  | Some p => match nth_error l p with Some x => Ok x | None => Err IndexError end
  | None => Err IndexError
  end.

(* l[z] = x *)
Definition py_setitem {A} (l : list A) (z : Z) (x : A) : result (list A) :=
  match py_pos (length l) z with
  | Some p => Ok (set_nth p x l)
  | None => Err IndexError
  end.

(* [x] * n *)
Definition py_list_repeat {A} (x : A) (n : Z) : list A := repeat x (Z.to_nat n).

(* ---------- route elements (str | int) ---------- *)
(* isinstance(e, str) *)
Definition elem_is_str (e : elem) : bool := match e with inl _ => true | inr _ => false end.
(* e == z for an int z: a str is never equal to an int *)
Definition elem_eq_int (e : elem) (z : Z) : bool := match e with inr x => x =? z | inl _ => false end.
(* e used where Python needs an int (a list index): a str raises TypeError *)
Definition py_int_of_elem (e : elem) : result Z := match e with inr z => Ok z | inl _ => Err TypeError end.

(* ---------- self.<attribute> ---------- *)
Definition py_depot_index (st : pstate) : Z := 0.             (* VRPTW.depot_index is the constant 0 *)

(* self.get_node_index(e) = self.node_names.index(e): ValueError when absent (an int is never a name) *)
Definition py_get_node_index (st : pstate) (e : elem) : result Z :=
  match e with
  | inl nm => match index_of nm (names (pg st)) with
              | Some i => Ok (Z.of_nat i)
              | None => Err ValueError
              end
  | inr _ => Err ValueError
  end.

(* self.arcs[(a, b)]: KeyError when absent; a str or a negative int is never part of a key *)
Definition py_arcs_getitem (st : pstate) (k : elem * elem) : result arc :=
  match k with
  | (inr a, inr b) => match arc_get (pg st) a b with Some x => Ok x | None => Err KeyError end
  | _ => Err KeyError
  end.

(* The accessor methods of Arc and Node (vrptw.py) are generated from their source as well
   (gen_Arc_get_destination, ..., gen_Node_get_load in PathGen.v): a Node / Arc object is the record
   Vrptw.node / Vrptw.arc, and the Node object an Arc refers to is found by its unique name
   (Path.node_named). *)

(* comparisons with a float that may be inf *)
Definition ext_ltb (a b : ext) : bool := negb (ext_leb b a).
Definition ext_gtb (a b : ext) : bool := negb (ext_leb a b).
Definition ext_geb (a b : ext) : bool := ext_leb b a.

(* self.routes.append(r) / self.route_costs.append(c) / self.route_node_visited.append(v) *)
Definition st_append_routes (st : pstate) (r : list nat) : pstate :=
  mkP (pg st) (pcap st) (pinit st) (proutes st ++ [r]) (pcosts st) (pvisited st).
Definition st_append_route_costs (st : pstate) (c : Z) : pstate :=
  mkP (pg st) (pcap st) (pinit st) (proutes st) (pcosts st ++ [c]) (pvisited st).
Definition st_append_route_node_visited (st : pstate) (v : list nat) : pstate :=
  mkP (pg st) (pcap st) (pinit st) (proutes st) (pcosts st) (pvisited st ++ [v]).

(* ---------- numpy / scipy at their dense meaning (get_math_program_data) ---------- *)
(* np.ones(n): ValueError for a negative dimension *)
Definition np_ones {A} (one : A) (n : Z) : result (list A) :=
  if n <? 0 then Err ValueError else Ok (repeat one (Z.to_nat n)).
(* j * array *)
Definition np_scale (j : Z) (v : list Z) : list Z := map (Z.mul j) v.

(* a dense matrix: the list of its rows together with the column count (a 0 x m matrix has no rows) *)
Record mat := mkMat { mcols : nat; mrows : list (list Z) }.

(* M[r, c] = v for one index pair: IndexError outside; negative ints wrap *)
Definition mat_set1 (M : mat) (r c : Z) (v : Z) : result mat :=
  match py_pos (length (mrows M)) r, py_pos (mcols M) c with
  | Some p, Some q => Ok (mkMat (mcols M) (set_nth p (set_nth q v (nth p (mrows M) [])) (mrows M)))
  | _, _ => Err IndexError
  end.

(* M[rows, cols] = v with two index arrays of the same length (element-wise pairs, in order);
   arrays of different lengths (neither of length 1) cannot be broadcast: IndexError *)
Fixpoint mat_set_pairs (M : mat) (rows : list nat) (cols : list Z) (v : Z) : result mat :=
  match rows, cols with
  | [], [] => Ok M
  | r :: rows', c :: cols' =>
      match mat_set1 M (Z.of_nat r) c v with
      | Ok M' => mat_set_pairs M' rows' cols' v
      | Err e => Err e
      end
  | _, _ => Err IndexError
  end.

(* M[mask, :] for a boolean mask over the rows: IndexError when the mask has another length *)
Fixpoint mask_filter {A} (l : list A) (mask : list bool) : list A :=
  match l, mask with
  | x :: l', b :: mask' => if b then x :: mask_filter l' mask' else mask_filter l' mask'
  | _, _ => []
  end.
Definition mat_mask_rows (M : mat) (mask : list bool) : result mat :=
  if Nat.eqb (length mask) (length (mrows M)) then Ok (mkMat (mcols M) (mask_filter (mrows M) mask))
  else Err IndexError.

(* np.zeros((n, m)) and sparse.csr_array((n, m)): the all-zero n x m matrix (ValueError for a negative
   dimension); sparse.csr_array(M), np.array(l), np.asarray(l): the argument itself *)
Definition sparse_zeros (n m : Z) : mat := mkMat (Z.to_nat m) (repeat (repeat 0 (Z.to_nat m)) (Z.to_nat n)).
Definition mat_zeros (n m : Z) : result mat :=
  if (n <? 0) || (m <? 0) then Err ValueError else Ok (sparse_zeros n m).
(* A.shape *)
Definition mat_shape (M : mat) : nat * nat := (length (mrows M), mcols M).
