(* Routes_facts.v -- proofs for C08, path-based part: the path-based 0-1 program over a complete,
   current pool is the route-partition problem; its default-penalty QUBO has the optimal partitions
   as minimisers (composition with C04).  *)
From Coq Require Import ZArith List Bool Lia Sorting.Permutation.
From VQ Require Import Base LinAlg Vrptw Vrptw_facts Path Path_facts Penalty Penalty_facts Routes.
Import ListNotations.
Open Scope Z_scope.

(* ====================================================================== *)
(* 1. generic: sums over selected entries                                  *)
(* ====================================================================== *)
Lemma sumZn_shift n f : sumZn (S n) f = f O + sumZn n (fun j => f (S j)).
Proof.
  induction n as [|n IH]; [simpl; lia|].
  rewrite sumZn_S, IH. rewrite (sumZn_S n (fun j => f (S j))). lia.
Qed.

Lemma Zbinary_shift n x : Zbinary (S n) x -> Zbinary n (fun j => x (S j)).
Proof. intros H i Hi. apply H. lia. Qed.

Lemma sum_select {A} (w : A -> Z) (d : A) : forall (l : list A) x,
  Zbinary (length l) x ->
  sumZn (length l) (fun j => w (nth j l d) * x j) = sumZ (map w (select x l)).
Proof.
  induction l as [|a l IH]; intros x Hb; [reflexivity|].
  cbn [length]. rewrite sumZn_shift. cbn [nth select].
  rewrite (IH (fun j => x (S j)) (Zbinary_shift _ _ Hb)).
  destruct (Hb O ltac:(simpl; lia)) as [E|E]; rewrite E; simpl (_ =? _); cbv iota.
  - lia.
  - cbn [map]. rewrite sumZ_cons. lia.
Qed.

Lemma select_incl {A} (l : list A) : forall x a, In a (select x l) -> In a l.
Proof.
  induction l as [|b l IH]; intros x a; simpl; [tauto|].
  destruct (x O =? 0); simpl; intros H.
  - right. eapply IH; eauto.
  - destruct H as [H|H]; [auto|right; eapply IH; eauto].
Qed.

Lemma select_NoDup {A} (l : list A) : forall x, NoDup l -> NoDup (select x l).
Proof.
  induction l as [|b l IH]; intros x H; simpl; [constructor|].
  inversion H as [|? ? Hn Hd]; subst. destruct (x O =? 0); [apply IH; auto|].
  constructor; [|apply IH; auto]. intros Hin. apply Hn. eapply select_incl; eauto.
Qed.

Lemma select_Forall {A} (P : A -> Prop) (l : list A) : forall x, Forall P l -> Forall P (select x l).
Proof.
  intros x H. apply Forall_forall. intros a Ha. rewrite Forall_forall in H. apply H.
  eapply select_incl; eauto.
Qed.

Lemma select_ext {A} (l : list A) : forall x y,
  (forall j, (j < length l)%nat -> x j = y j) -> select x l = select y l.
Proof.
  induction l as [|b l IH]; intros x y H; simpl; [reflexivity|].
  rewrite (H O ltac:(simpl; lia)).
  rewrite (IH (fun j => x (S j)) (fun j => y (S j))); [reflexivity|].
  intros j Hj. apply H. simpl; lia.
Qed.

Lemma select_filter {A} (f : A -> bool) (d : A) (l : list A) :
  select (fun j => if f (nth j l d) then 1 else 0) l = filter f l.
Proof.
  induction l as [|b l IH]; [reflexivity|].
  cbn [select filter nth]. destruct (f b); simpl (_ =? _); cbv iota.
  - f_equal. exact IH.
  - exact IH.
Qed.

Lemma select_In_iff {A} (d : A) (l : list A) : forall x j,
  NoDup l -> Zbinary (length l) x -> (j < length l)%nat ->
  (In (nth j l d) (select x l) <-> x j = 1).
Proof.
  induction l as [|b l IH]; intros x j Hnd Hb Hj; [simpl in Hj; lia|].
  inversion Hnd as [|? ? Hn Hd]; subst.
  destruct j as [|j]; cbn [nth select].
  - destruct (Hb O ltac:(simpl; lia)) as [E|E]; rewrite E; simpl (_ =? _); cbv iota.
    + split; [|lia]. intros Hin. exfalso. apply Hn. eapply select_incl; eauto.
    + split; [reflexivity|]. intros _. left; reflexivity.
  - assert (Hj' : (j < length l)%nat) by (simpl in Hj; lia).
    assert (Hne : nth j l d <> b) by (intros E; apply Hn; rewrite <- E; apply nth_In; exact Hj').
    specialize (IH (fun k => x (S k)) j Hd (Zbinary_shift _ _ Hb) Hj'). cbv beta in IH.
    destruct (x O =? 0); [exact IH|].
    rewrite <- IH. split; [intros [H|H]; [congruence|exact H] | intros H; right; exact H].
Qed.

Lemma sumZ_map_perm {A} (w : A -> Z) l1 l2 : Permutation l1 l2 -> sumZ (map w l1) = sumZ (map w l2).
Proof.
  induction 1; cbn [map]; rewrite ?sumZ_cons; lia.
Qed.

Lemma route_in_In r R : route_in r R = true <-> In r R.
Proof.
  unfold route_in. rewrite existsb_exists. split.
  - intros (s & Hs & E). apply list_eqb_nat_eq in E. subst. exact Hs.
  - intros H. exists r. split; [exact H|]. apply list_eqb_nat_eq. reflexivity.
Qed.

Lemma filter_route_in_perm (l R : list (list nat)) :
  NoDup l -> NoDup R -> incl R l -> Permutation (filter (fun r => route_in r R) l) R.
Proof.
  intros Hl HR Hincl. apply NoDup_Permutation; [apply NoDup_filter; exact Hl | exact HR |].
  intros r. rewrite filter_In, route_in_In. split; [tauto|]. intros H. split; [apply Hincl; exact H | exact H].
Qed.

Lemma qf_zero_matrix n (M : mat Z) x : (forall i j, M i j = 0) -> Zqf n M x = 0.
Proof.
  intros H. unfold Zqf, qf. rewrite (sumZn_ext n _ (fun _ => 0)); [rewrite sumZn_const; lia|].
  intros i _. rewrite (sumZn_ext n _ (fun _ => 0)); [rewrite sumZn_const; lia|].
  intros j _. rewrite H. lia.
Qed.

(* ====================================================================== *)
(* 2. stored_current along histories                                       *)
(* ====================================================================== *)
Lemma valid_route_frame st st' r :
  pg st' = pg st -> pcap st' = pcap st -> pinit st' = pinit st ->
  valid_route st r -> valid_route st' r.
Proof. unfold valid_route. intros -> -> ->. tauto. Qed.

(* calls that are not add_node / add_arc leave graph, capacity and initial loading alone *)
Lemma pstep_frame st o : graph_op o = false ->
  pg (fst (pstep st o)) = pg st /\ pcap (fst (pstep st o)) = pcap st /\ pinit (fst (pstep st o)) = pinit st.
Proof.
  destruct o as [nm dem lo hi|o d tm cost|r|r|x]; simpl; try discriminate; intros _; auto.
  unfold add_route. cbv zeta. destruct (snd (check_route st r)) as [[[f c] v]|e]; simpl; auto.
  destruct (f && negb (route_mem (fst (check_route st r)) (proutes st))); simpl; auto.
Qed.

Lemma nth_error_snoc_cases {A} (l : list A) a j y :
  nth_error (l ++ [a]) j = Some y ->
  (nth_error l j = Some y /\ (j < length l)%nat) \/ (j = length l /\ y = a).
Proof.
  intros H. destruct (Nat.lt_ge_cases j (length l)) as [Hlt|Hge].
  - left. rewrite nth_error_app1 in H by exact Hlt. auto.
  - right. assert (Hj : (j < length (l ++ [a]))%nat) by (eapply nth_error_lt; eauto).
    rewrite app_length in Hj. simpl in Hj. assert (j = length l) by lia. subst j.
    rewrite nth_error_app2 in H by lia. rewrite Nat.sub_diag in H. simpl in H. inversion H. auto.
Qed.

Lemma stored_current_step st o :
  PInv st -> graph_op o = false -> stored_current st -> stored_current (fst (pstep st o)).
Proof.
  intros HP Hg Hc. destruct (pstep_inv st o HP) as [_ Hext].
  destruct (pstep_frame st o Hg) as (Eg & Ecap & Einit).
  set (st1 := fst (pstep st o)) in *.
  assert (Hfr : forall r, valid_route st r -> valid_route st1 r)
    by (intros r; apply valid_route_frame; auto).
  intros j r Hj. destruct Hext as [(Er & Ec & _)|(r0 & Er & Ec & Hv0 & _)].
  - rewrite Er in Hj. destruct (Hc j r Hj) as [Hv Hcost]. split; [auto|]. rewrite Ec, Eg. exact Hcost.
  - rewrite Er in Hj. rewrite Ec, Eg.
    destruct (nth_error_snoc_cases _ _ _ _ Hj) as [[Hj1 Hlt]|[-> ->]].
    + destruct (Hc j r Hj1) as [Hv Hcost]. split; [auto|].
      rewrite nth_error_app1 by (rewrite (pi_costs _ HP); exact Hlt). exact Hcost.
    + split; [auto|]. rewrite nth_error_app2 by (rewrite (pi_costs _ HP); lia).
      rewrite (pi_costs _ HP), Nat.sub_diag. reflexivity.
Qed.

(* every route stored after the last graph edit: the pool is current *)
Theorem stored_current_run ops : forall st,
  PInv st -> forallb (fun o => negb (graph_op o)) ops = true ->
  stored_current st -> stored_current (prun ops st).
Proof.
  induction ops as [|o ops IH]; intros st HP Hall Hc; [exact Hc|].
  simpl in Hall. apply andb_true_iff in Hall. destruct Hall as [Ho Hall].
  apply negb_true_iff in Ho. rewrite prun_cons. apply IH; auto.
  - apply (pstep_inv st o HP).
  - apply stored_current_step; auto.
Qed.

Lemma stored_current_nil st : proutes st = [] -> stored_current st.
Proof. intros E j r Hj. rewrite E in Hj. destruct j; discriminate. Qed.

Lemma pstep_no_route st o : route_op o = false -> proutes (fst (pstep st o)) = proutes st.
Proof.
  destruct o as [nm dem lo hi|o d tm cost|r|r|x]; simpl; try discriminate; intros _; auto.
  - destruct (add_node (pg st) nm dem lo hi); reflexivity.
  - destruct (add_arc (pg st) o d tm cost) as [[g' b]|e]; reflexivity.
Qed.

Lemma prun_no_route ops : forall st,
  forallb (fun o => negb (route_op o)) ops = true -> proutes (prun ops st) = proutes st.
Proof.
  induction ops as [|o ops IH]; intros st Hall; [reflexivity|].
  simpl in Hall. apply andb_true_iff in Hall. destruct Hall as [Ho Hall].
  apply negb_true_iff in Ho. rewrite prun_cons, IH by exact Hall. apply pstep_no_route; exact Ho.
Qed.

Lemma prun_app ops1 ops2 st : prun (ops1 ++ ops2) st = prun ops2 (prun ops1 st).
Proof. unfold prun. apply fold_left_app. Qed.

(* the usual way to use the class: build the graph (no add_route yet), then only add / check routes *)
Theorem stored_current_build_then_routes cap init build routes_ops :
  forallb (fun o => negb (route_op o)) build = true ->
  forallb (fun o => negb (graph_op o)) routes_ops = true ->
  stored_current (prun (build ++ routes_ops) (pempty cap init)).
Proof.
  intros Hb Hr. rewrite prun_app. apply stored_current_run; auto.
  - apply (prun_stored build (pempty cap init) (PInv_empty cap init)).
  - apply stored_current_nil. rewrite prun_no_route by exact Hb. reflexivity.
Qed.

(* ====================================================================== *)
(* 3. the path-based program over a complete, current pool                 *)
(* ====================================================================== *)
(* what the path-based program looks like (from C06's cover_spec) *)
Definition path_sys_spec (st : pstate) (s : zsys) : Prop :=
  zs_rows s = (num_nodes st - 1)%nat /\ zs_cols s = length (proutes st) /\
  (forall k j, (k < num_nodes st - 1)%nat -> (j < length (proutes st))%nat ->
     zs_A s k j = on_route (S k) (nth j (proutes st) [])) /\
  (forall k, (k < num_nodes st - 1)%nat -> zs_b s k = 1) /\
  (forall i j, zs_R s i j = 0) /\ (forall i j, zs_Qo s i j = 0) /\
  (forall j, zs_c s j = nth j (pcosts st) 0).

Lemma nth_repeat_lt {A} (x d : A) m i : (i < m)%nat -> nth i (repeat x m) d = x.
Proof. revert i; induction m as [|m IH]; intros [|i] H; simpl; auto; try lia. apply IH; lia. Qed.

Theorem path_sys_ok st : PInv st -> (0 < num_nodes st)%nat ->
  exists s, path_sys st = Ok s /\ path_sys_spec st s.
Proof.
  intros HP Hn. unfold num_nodes in *.
  destruct (cover_spec st HP Hn) as (A & E1 & E2 & E3 & E4 & E5 & E6).
  unfold path_sys. rewrite E2. cbn [fst snd]. eexists. split; [reflexivity|].
  unfold path_sys_spec, num_nodes. cbn [zs_rows zs_cols zs_A zs_b zs_R zs_c zs_Qo].
  split; [reflexivity|]. split; [reflexivity|]. split.
  { intros k j Hk Hj. destruct (nth_error (proutes st) j) as [r|] eqn:Er; [|apply nth_error_None in Er; lia].
    rewrite (nth_error_nth _ _ [] _ Er). unfold on_route. rewrite <- (E6 k j r Hk Er).
    unfold cover. rewrite E1. reflexivity. }
  split. { intros k Hk. unfold Zvec_of, vec_of. apply nth_repeat_lt; exact Hk. }
  split. { intros i j. apply zero_matrix_entry. }
  split. { intros i j. unfold objective_data. cbn [snd]. apply zero_matrix_entry. }
  intros j. reflexivity.
Qed.

Section PathProgram.
  Variables (st : pstate) (s : zsys).
  Hypothesis HP : PInv st.
  Hypothesis Hs : path_sys_spec st s.
  Hypothesis Hcur : stored_current st.

  Lemma Hrows : zs_rows s = (num_nodes st - 1)%nat.
  Proof. exact (proj1 Hs). Qed.
  Lemma Hcols : zs_cols s = length (proutes st).
  Proof. exact (proj1 (proj2 Hs)). Qed.

  Lemma path_cost_entry j : (j < length (proutes st))%nat ->
    zs_c s j = route_cost (pg st) (nth j (proutes st) []).
  Proof.
    intros Hj. destruct Hs as (_ & _ & _ & _ & _ & _ & Hc). rewrite Hc.
    destruct (nth_error (proutes st) j) as [r|] eqn:Er; [|apply nth_error_None in Er; lia].
    destruct (Hcur j r Er) as [_ Hcost]. rewrite (nth_error_nth _ _ [] _ Er).
    apply (nth_error_nth _ _ 0 _ Hcost).
  Qed.

  Lemma path_value_select x : Zbinary (zs_cols s) x ->
    sys_value s x = total_cost st (select x (proutes st)).
  Proof.
    intros Hb. unfold sys_value, Zobjective, objective.
    change (qf Z 0 Z.add Z.mul (zs_cols s) (zs_Qo s) x) with (Zqf (zs_cols s) (zs_Qo s) x).
    rewrite qf_zero_matrix by (apply Hs). unfold dot. rewrite Hcols in *.
    rewrite (sumZn_ext _ _ (fun j => route_cost (pg st) (nth j (proutes st) []) * x j))
      by (intros j Hj; rewrite path_cost_entry by exact Hj; reflexivity).
    rewrite (sum_select (route_cost (pg st)) [] (proutes st) x Hb). unfold total_cost. lia.
  Qed.

  Lemma path_row_select x k : Zbinary (zs_cols s) x -> (k < num_nodes st - 1)%nat ->
    Zmv (zs_cols s) (zs_A s) x k = visits (select x (proutes st)) (S k).
  Proof.
    intros Hb Hk. unfold Zmv, mv. rewrite Hcols in *.
    destruct Hs as (_ & _ & HA & _).
    rewrite (sumZn_ext _ _ (fun j => on_route (S k) (nth j (proutes st) []) * x j))
      by (intros j Hj; rewrite HA by assumption; reflexivity).
    rewrite (sum_select (on_route (S k)) [] (proutes st) x Hb). reflexivity.
  Qed.

  (* a feasible 0-1 vector selects a partition of the same cost *)
  Theorem path_feasible_partition x : sys_feasible s x ->
    partition st (select x (proutes st)) /\ total_cost st (select x (proutes st)) = sys_value s x /\
    indicator_of st (select x (proutes st)) x.
  Proof.
    intros [Hb [Hrow _]]. split; [|split].
    - split; [apply select_NoDup, (pi_nodup _ HP)|]. split.
      + apply select_Forall. apply Forall_forall. intros r Hr. apply In_nth_error in Hr.
        destruct Hr as [j Hj]. apply (Hcur j r Hj).
      + intros k Hk. destruct k as [|k]; [lia|].
        assert (Hk' : (k < num_nodes st - 1)%nat) by lia.
        rewrite <- (path_row_select x k Hb Hk').
        rewrite (Hrow k) by (rewrite Hrows; exact Hk'). apply Hs. exact Hk'.
    - symmetry. apply path_value_select; exact Hb.
    - intros j Hj. unfold indicator_vec.
      pose proof (select_In_iff [] (proutes st) x j (pi_nodup _ HP)) as Hiff.
      rewrite <- Hcols in Hiff at 1. specialize (Hiff Hb Hj).
      destruct (route_in (nth j (proutes st) []) (select x (proutes st))) eqn:E.
      + apply route_in_In in E. apply Hiff; exact E.
      + rewrite <- Hcols in Hj. destruct (Hb j Hj) as [E0|E1]; [exact E0|].
        apply Hiff in E1. apply route_in_In in E1. congruence.
  Qed.

  Hypothesis Hpool : pool_complete st.

  Lemma select_indicator R x : indicator_of st R x -> partition st R ->
    Permutation (select x (proutes st)) R.
  Proof.
    intros Hx (HndR & HvR & _).
    rewrite (select_ext (proutes st) x (indicator_vec st R) Hx).
    unfold indicator_vec.
    rewrite (select_filter (fun r => route_in r R) [] (proutes st)).
    apply filter_route_in_perm; [apply (pi_nodup _ HP) | exact HndR |].
    intros r Hr. apply Hpool. rewrite Forall_forall in HvR. apply HvR; exact Hr.
  Qed.

  Lemma indicator_binary R x : indicator_of st R x -> Zbinary (zs_cols s) x.
  Proof.
    intros Hx j Hj. rewrite Hcols in Hj. rewrite (Hx j Hj). unfold indicator_vec.
    destruct (route_in _ _); [right|left]; reflexivity.
  Qed.

  (* the indicator vector of a partition is feasible and costs the same *)
  Theorem path_partition_feasible R x : partition st R -> indicator_of st R x ->
    sys_feasible s x /\ sys_value s x = total_cost st R.
  Proof.
    intros HR Hx. pose proof (indicator_binary R x Hx) as Hb.
    pose proof (select_indicator R x Hx HR) as Hperm.
    split; [split; [exact Hb|split]|].
    - intros k Hk. rewrite Hrows in Hk. rewrite (path_row_select x k Hb Hk).
      unfold visits. rewrite (sumZ_map_perm _ _ _ Hperm).
      destruct HR as (_ & _ & Hvis). fold (visits R (S k)). rewrite Hvis by lia.
      symmetry. apply Hs; exact Hk.
    - apply qf_zero_matrix. apply Hs.
    - rewrite (path_value_select x Hb). unfold total_cost. apply sumZ_map_perm; exact Hperm.
  Qed.

  (* same sets of attained costs: equal feasibility, equal optimal values *)
  Theorem path_equiv v :
    (exists x, sys_feasible s x /\ sys_value s x = v) <-> (exists R, partition st R /\ total_cost st R = v).
  Proof.
    split.
    - intros (x & Hf & Hv). exists (select x (proutes st)).
      destruct (path_feasible_partition x Hf) as (Hp & Hc & _). split; [exact Hp|congruence].
    - intros (R & Hp & Hc). exists (indicator_vec st R).
      destruct (path_partition_feasible R (indicator_vec st R) Hp) as [Hf Hv]; [intros j _; reflexivity|].
      split; [exact Hf|congruence].
  Qed.

  (* constrained optima = indicator vectors of optimal partitions *)
  Theorem path_opt_iff x :
    (sys_feasible s x /\ forall y, sys_feasible s y -> sys_value s x <= sys_value s y) <->
    (exists R, optimal_partition st R /\ indicator_of st R x /\ Zbinary (zs_cols s) x).
  Proof.
    split.
    - intros [Hf Hmin]. exists (select x (proutes st)).
      destruct (path_feasible_partition x Hf) as (Hp & Hc & Hi).
      split; [|split; [exact Hi|apply Hf]]. split; [exact Hp|].
      intros R' HR'. rewrite Hc.
      destruct (path_partition_feasible R' (indicator_vec st R') HR') as [Hf' Hv']; [intros j _; reflexivity|].
      rewrite <- Hv'. apply Hmin; exact Hf'.
    - intros (R & [Hp Hopt] & Hi & _).
      destruct (path_partition_feasible R x Hp Hi) as [Hf Hv]. split; [exact Hf|].
      intros y Hy. destruct (path_feasible_partition y Hy) as (Hpy & Hcy & _).
      rewrite Hv, <- Hcy. apply Hopt; exact Hpy.
  Qed.
End PathProgram.

(* ====================================================================== *)
(* 4. composition with C04: the default-penalty path QUBO                  *)
(* ====================================================================== *)
Lemma sys_qubo_value_default s S x :
  sys_qubo_value s S x =
  default_value (zs_cols s) (zs_rows s) (zs_A s) (zs_b s) (zs_R s) (zs_c s) (zs_Qo s) S x.
Proof. reflexivity. Qed.

Lemma coeff_sum_path st s : PInv st -> path_sys_spec st s ->
  coeff_sum (zs_cols s) (zs_c s) (zs_Qo s) = S_path (pcosts st).
Proof.
  intros HP (_ & Hcols & _ & _ & _ & HQ & Hc).
  rewrite <- (S_path_is_coeff_sum (pcosts st)). rewrite Hcols, <- (pi_costs _ HP). unfold coeff_sum.
  f_equal.
  - apply sumZn_ext. intros i _. rewrite Hc. reflexivity.
  - apply sumZn_ext. intros i _. apply sumZn_ext. intros j _. rewrite HQ. reflexivity.
Qed.

Lemma constrained_opt_sys s x :
  is_constrained_opt (zs_cols s) (zs_rows s) (zs_A s) (zs_b s) (zs_R s) (zs_c s) (zs_Qo s) x <->
  (sys_feasible s x /\ forall y, sys_feasible s y -> sys_value s x <= sys_value s y).
Proof.
  unfold is_constrained_opt, sys_feasible, sys_value. split.
  - intros (Hb & Hf & Hmin). split; [split; assumption|]. intros y [Hyb Hyf]. apply Hmin; assumption.
  - intros [[Hb Hf] Hmin]. split; [exact Hb|]. split; [exact Hf|]. intros y Hyb Hyf. apply Hmin. split; assumption.
Qed.

(* the default-penalty QUBO of the path-based object (rho = S_path + 1): its binary minimisers are the
   indicator vectors of the optimal partitions, its minimum is the least partition cost *)
Theorem path_qubo st s :
  PInv st -> path_sys_spec st s -> stored_current st -> pool_complete st ->
  (exists R, partition st R) ->
  (forall x, sys_qubo_min s (S_path (pcosts st)) x <->
             exists R, optimal_partition st R /\ indicator_of st R x /\ Zbinary (zs_cols s) x) /\
  (forall x R, sys_qubo_min s (S_path (pcosts st)) x -> optimal_partition st R ->
               sys_qubo_value s (S_path (pcosts st)) x = total_cost st R).
Proof.
  intros HP Hs Hcur Hpool (R0 & HR0).
  assert (Hex : exists z, Zbinary (zs_cols s) z /\ Zfeasible (zs_rows s) (zs_cols s) (zs_A s) (zs_b s) (zs_R s) z).
  { exists (indicator_vec st R0).
    destruct (path_partition_feasible st s HP Hs Hcur Hpool R0 (indicator_vec st R0) HR0) as [[Hb Hf] _];
      [intros j _; reflexivity|]. split; assumption. }
  assert (HRn : R_nonneg (zs_cols s) (zs_R s)).
  { intros i j _ _. destruct Hs as (_ & _ & _ & _ & HR & _). rewrite HR. lia. }
  destruct (default_exact (zs_cols s) (zs_rows s) (zs_A s) (zs_b s) (zs_R s) (zs_c s) (zs_Qo s)
              (S_path (pcosts st)) HRn) as [Hsets Hval];
    [rewrite (coeff_sum_path st s HP Hs); apply Z.le_refl | exact Hex |].
  split.
  - intros x. change (sys_qubo_min s (S_path (pcosts st)) x) with
      (is_default_min (zs_cols s) (zs_rows s) (zs_A s) (zs_b s) (zs_R s) (zs_c s) (zs_Qo s) (S_path (pcosts st)) x).
    rewrite Hsets, constrained_opt_sys. apply (path_opt_iff st s HP Hs Hcur Hpool).
  - intros x R Hx HR.
    assert (Hy : is_constrained_opt (zs_cols s) (zs_rows s) (zs_A s) (zs_b s) (zs_R s) (zs_c s) (zs_Qo s)
                   (indicator_vec st R)).
    { apply constrained_opt_sys. apply (path_opt_iff st s HP Hs Hcur Hpool). exists R.
      split; [exact HR|]. split; [intros j _; reflexivity|].
      apply (indicator_binary st s Hs R). intros j _; reflexivity. }
    rewrite sys_qubo_value_default. rewrite (Hval x (indicator_vec st R) Hx Hy).
    destruct HR as [HpR _].
    destruct (path_partition_feasible st s HP Hs Hcur Hpool R (indicator_vec st R) HpR) as [_ Hv];
      [intros j _; reflexivity|]. exact Hv.
Qed.

(* ====================================================================== *)
(* 5. a pool that holds every valid route: add_route on every candidate     *)
(* ====================================================================== *)
Lemma simple_lists_complete : forall fuel avail cs,
  (length cs <= fuel)%nat -> NoDup cs -> incl cs avail -> In cs (simple_lists fuel avail).
Proof.
  induction fuel as [|f IH]; intros avail cs Hlen Hnd Hincl.
  - destruct cs; [left; reflexivity|simpl in Hlen; lia].
  - destruct cs as [|c cs]; [left; reflexivity|]. right.
    inversion Hnd as [|? ? Hn Hd]; subst.
    apply in_flat_map. exists c. split; [apply Hincl; left; reflexivity|].
    apply in_map. apply IH; [simpl in Hlen; lia | exact Hd |].
    intros y Hy. apply in_in_remove; [intros ->; contradiction | apply Hincl; right; exact Hy].
Qed.

Lemma valid_route_shape st r : valid_route st r -> r = O :: interior r ++ [O].
Proof.
  intros (Hlen & Hhd & Hlast & _).
  destruct r as [|a rest]; [simpl in Hlen; lia|]. simpl in Hhd. inversion Hhd; subst a.
  destruct rest as [|b rest]; [simpl in Hlen; lia|].
  unfold interior. cbn [tl]. f_equal.
  rewrite (app_removelast_last 1%nat (l := b :: rest)) at 1 by discriminate.
  f_equal. f_equal. exact Hlast.
Qed.

Lemma In_interior r x : In x (interior r) -> In x r.
Proof.
  unfold interior. destruct r as [|a rest]; simpl; [tauto|]. intros H. right.
  destruct rest as [|b rest]; [simpl in H; tauto|].
  rewrite (app_removelast_last O (l := b :: rest)) by discriminate. apply in_or_app. left; exact H.
Qed.

Theorem candidates_complete st r :
  Inv (pg st) -> valid_route st r -> In r (candidates (num_nodes st)).
Proof.
  intros HI Hv. pose proof (valid_route_in_range st r HI Hv) as Hr.
  pose proof (valid_route_shape st r Hv) as Es.
  destruct Hv as (_ & _ & _ & Hnd & H0 & _).
  unfold candidates. rewrite Es at 1. apply (in_map (fun cs => O :: cs ++ [O])).
  assert (Hincl : incl (interior r) (seq 1 (num_nodes st - 1))).
  { intros x Hx. apply in_seq. unfold in_range in Hr. rewrite Forall_forall in Hr.
    pose proof (Hr x (In_interior r x Hx)) as Hlt. unfold num_nodes.
    assert (x <> O) by (intros ->; contradiction). lia. }
  apply simple_lists_complete; [|exact Hnd|exact Hincl].
  pose proof (NoDup_incl_length Hnd Hincl) as Hl. rewrite seq_length in Hl. exact Hl.
Qed.

(* add_route on a valid route given by indices: afterwards it is stored *)
Lemma add_route_valid_stored st r :
  Inv (pg st) -> valid_route st r -> In r (proutes (fst (pstep st (PAddRoute (map ix r))))).
Proof.
  intros HI Hv. pose proof (valid_route_in_range st r HI Hv) as Hr.
  destruct (check_route_spec st (map ix r) r HI (resolve_map_ix _ _) Hr) as (feas & c & v & Hout & Hiff & Hthen).
  assert (feas = true) by (apply Hiff; exact Hv). subst feas.
  destruct (Hthen eq_refl) as (_ & _ & Hfst).
  cbn [pstep]. unfold add_route. cbv zeta. rewrite Hout, Hfst.
  destruct (route_mem (map ix r) (proutes st)) eqn:Em; cbn [andb negb fst proutes].
  - apply route_mem_ix in Em. exact Em.
  - rewrite to_nats_map_ix. apply in_or_app. right. left; reflexivity.
Qed.

Lemma pstep_keeps_routes st o r : PInv st -> In r (proutes st) -> In r (proutes (fst (pstep st o))).
Proof.
  intros HP Hin. destruct (pstep_inv st o HP) as [_ [(Er & _)|(r0 & Er & _)]]; rewrite Er; auto.
  apply in_or_app; left; exact Hin.
Qed.

Lemma prun_keeps_routes ops : forall st r, PInv st -> In r (proutes st) -> In r (proutes (prun ops st)).
Proof.
  induction ops as [|o ops IH]; intros st r HP Hin; [exact Hin|].
  rewrite prun_cons. apply IH; [apply (pstep_inv st o HP)|apply pstep_keeps_routes; assumption].
Qed.

Lemma prun_frame ops : forall st, forallb (fun o => negb (graph_op o)) ops = true ->
  pg (prun ops st) = pg st /\ pcap (prun ops st) = pcap st /\ pinit (prun ops st) = pinit st.
Proof.
  induction ops as [|o ops IH]; intros st Hall; [auto|].
  simpl in Hall. apply andb_true_iff in Hall. destruct Hall as [Ho Hall]. apply negb_true_iff in Ho.
  rewrite prun_cons. destruct (IH (fst (pstep st o)) Hall) as (E1 & E2 & E3).
  destruct (pstep_frame st o Ho) as (F1 & F2 & F3). rewrite E1, E2, E3. auto.
Qed.

Lemma add_routes_store l : forall st r, PInv st -> In r l -> valid_route st r ->
  In r (proutes (prun (map (fun r => PAddRoute (map ix r)) l) st)).
Proof.
  induction l as [|r0 l IH]; intros st r HP Hin Hv; [destruct Hin|].
  cbn [map]. rewrite prun_cons.
  set (o := PAddRoute (map ix r0)). assert (Hg : graph_op o = false) by reflexivity.
  pose proof (proj1 (pstep_inv st o HP)) as HP1.
  destruct Hin as [->|Hin].
  - apply prun_keeps_routes; [exact HP1|]. apply add_route_valid_stored; [apply (pi_graph _ HP)|exact Hv].
  - apply IH; [exact HP1|exact Hin|].
    destruct (pstep_frame st o Hg) as (F1 & F2 & F3). eapply valid_route_frame; eauto.
Qed.

Lemma add_all_no_graph_op n : forallb (fun o => negb (graph_op o)) (add_all_candidates n) = true.
Proof.
  unfold add_all_candidates. apply forallb_forall. intros o Ho. apply in_map_iff in Ho.
  destruct Ho as (r & <- & _). reflexivity.
Qed.

(* all routes enumerated: after add_route on every candidate the pool is complete, whatever was
   stored before; the graph is unchanged *)
Theorem pool_complete_after_all st :
  PInv st -> pool_complete (prun (add_all_candidates (num_nodes st)) st).
Proof.
  intros HP r Hv.
  destruct (prun_frame (add_all_candidates (num_nodes st)) st (add_all_no_graph_op _)) as (F1 & F2 & F3).
  assert (Hv0 : valid_route st r) by (eapply valid_route_frame; [| | |exact Hv]; auto).
  apply add_routes_store; [exact HP| |exact Hv0].
  apply candidates_complete; [apply (pi_graph _ HP)|exact Hv0].
Qed.

(* the construction "build the graph, then add every candidate route" meets both hypotheses *)
Theorem enumerated_pool cap init build :
  forallb (fun o => negb (route_op o)) build = true ->
  let st0 := prun build (pempty cap init) in
  let st := prun (build ++ add_all_candidates (num_nodes st0)) (pempty cap init) in
  stored_current st /\ pool_complete st /\ pg st = pg st0.
Proof.
  intros Hb st0 st. split; [|split].
  - apply stored_current_build_then_routes; [exact Hb|apply add_all_no_graph_op].
  - unfold st. rewrite prun_app. apply pool_complete_after_all.
    apply (prun_stored build (pempty cap init) (PInv_empty cap init)).
  - unfold st. rewrite prun_app. apply prun_frame. apply add_all_no_graph_op.
Qed.

(* ====================================================================== *)
(* 6. 0-1 lists instead of functions                                       *)
(* ====================================================================== *)
Lemma Zbinary_of_list xl : Forall (fun z => z = 0 \/ z = 1) xl -> Zbinary (length xl) (Zvec_of xl).
Proof.
  intros H i Hi. unfold Zvec_of, vec_of. rewrite Forall_forall in H. apply H. apply nth_In; exact Hi.
Qed.

Lemma sys_feasible_ext s x y : (forall j, (j < zs_cols s)%nat -> x j = y j) ->
  sys_feasible s x -> sys_feasible s y.
Proof.
  intros He [Hb [Hrow Hq]]. split; [|split].
  - intros j Hj. rewrite <- He by exact Hj. apply Hb; exact Hj.
  - intros k Hk. rewrite <- (Hrow k Hk). unfold Zmv, mv. apply sumZn_ext. intros j Hj. rewrite He by exact Hj. reflexivity.
  - rewrite <- Hq. unfold Zqf, qf. apply sumZn_ext. intros i Hi. apply sumZn_ext. intros j Hj.
    rewrite !He by assumption. reflexivity.
Qed.

Lemma sys_value_ext s x y : (forall j, (j < zs_cols s)%nat -> x j = y j) -> sys_value s x = sys_value s y.
Proof.
  intros He. unfold sys_value, Zobjective, objective, dot, qf. f_equal.
  - apply sumZn_ext. intros j Hj. rewrite He by exact Hj. reflexivity.
  - apply sumZn_ext. intros i Hi. apply sumZn_ext. intros j Hj. rewrite !He by assumption. reflexivity.
Qed.

(* every feasible function vector is (on the columns) a feasible 0-1 list and conversely *)
Theorem list_solution_iff s v :
  (exists xl, list_solution s xl /\ sys_value s (Zvec_of xl) = v) <->
  (exists x, sys_feasible s x /\ sys_value s x = v).
Proof.
  split.
  - intros (xl & (_ & _ & Hf) & Hv). exists (Zvec_of xl). auto.
  - intros (x & Hf & Hv). exists (map x (seq 0 (zs_cols s))).
    assert (He : forall j, (j < zs_cols s)%nat -> x j = Zvec_of (map x (seq 0 (zs_cols s))) j).
    { intros j Hj. unfold Zvec_of, vec_of. rewrite (nth_map_seq x 0 (zs_cols s) j 0 Hj). reflexivity. }
    split; [split; [|split]|].
    + rewrite map_length, seq_length. reflexivity.
    + apply Forall_forall. intros z Hz. apply in_map_iff in Hz. destruct Hz as (j & <- & Hj).
      apply in_seq in Hj. apply (proj1 Hf). lia.
    + eapply sys_feasible_ext; eauto.
    + rewrite <- Hv. symmetry. apply sys_value_ext; exact He.
Qed.

(* ====================================================================== *)
(* 7. a partition as 0-1 data over the pool (used to bound costs on concrete instances) *)
(* ====================================================================== *)
Theorem partition_indicator_sums st R :
  PInv st -> pool_complete st -> partition st R ->
  let m := length (proutes st) in
  exists x, Zbinary m x /\
    (forall k, (1 <= k < num_nodes st)%nat ->
       sumZn m (fun j => on_route k (nth j (proutes st) []) * x j) = 1) /\
    total_cost st R = sumZn m (fun j => route_cost (pg st) (nth j (proutes st) []) * x j).
Proof.
  intros HP Hpool HR m. exists (indicator_vec st R).
  assert (Hb : Zbinary m (indicator_vec st R)).
  { intros j _. unfold indicator_vec. destruct (route_in _ _); [right|left]; reflexivity. }
  pose proof (select_indicator st HP Hpool R (indicator_vec st R) (fun j _ => eq_refl) HR) as Hperm.
  split; [exact Hb|]. split.
  - intros k Hk. unfold m. rewrite (sum_select (on_route k) [] (proutes st) _ Hb).
    rewrite (sumZ_map_perm _ _ _ Hperm). apply HR; exact Hk.
  - unfold m. rewrite (sum_select (route_cost (pg st)) [] (proutes st) _ Hb).
    unfold total_cost. symmetry. apply sumZ_map_perm; exact Hperm.
Qed.

(* ====================================================================== *)
(* 8. the customers of a partition (shared by the arc and sequence corollaries) *)
(* ====================================================================== *)
Lemma count_occ_NoDup_01 (l : list nat) k : NoDup l ->
  Z.of_nat (count_occ Nat.eq_dec l k) = if memb k l then 1 else 0.
Proof.
  intros Hnd. pose proof (proj1 (NoDup_count_occ Nat.eq_dec l) Hnd k) as Hle.
  destruct (memb k l) eqn:E.
  - apply memb_In in E. apply (count_occ_In Nat.eq_dec) in E. lia.
  - apply memb_false_notIn in E. apply (count_occ_not_In Nat.eq_dec) in E. lia.
Qed.

Lemma memb_interior st r k : valid_route st r -> k <> O -> memb k r = memb k (interior r).
Proof.
  intros Hv Hk. rewrite (valid_route_shape st r Hv) at 1.
  destruct (memb k (interior r)) eqn:E.
  - apply memb_In. right. apply in_or_app. left. apply memb_In; exact E.
  - apply memb_false_notIn. apply memb_false_notIn in E.
    intros [H|H]; [congruence|]. apply in_app_or in H. destruct H as [H|[H|[]]]; [auto|congruence].
Qed.

Lemma on_route_interior st r k : valid_route st r -> k <> O ->
  on_route k r = Z.of_nat (count_occ Nat.eq_dec (interior r) k).
Proof.
  intros Hv Hk. unfold on_route. rewrite (memb_interior st r k Hv Hk).
  symmetry. apply count_occ_NoDup_01. apply Hv.
Qed.

Lemma visits_count st R k : Forall (valid_route st) R -> k <> O ->
  visits R k = Z.of_nat (count_occ Nat.eq_dec (served R) k).
Proof.
  intros HR Hk. unfold visits, served. induction HR as [|r R Hr _ IH]; [reflexivity|].
  cbn [map concat]. rewrite sumZ_cons, count_occ_app, Nat2Z.inj_add, IH.
  rewrite (on_route_interior st r k Hr Hk). reflexivity.
Qed.

Lemma interior_customers st r x : Inv (pg st) -> valid_route st r -> In x (interior r) ->
  In x (seq 1 (num_nodes st - 1)).
Proof.
  intros HI Hv Hx. pose proof (valid_route_in_range st r HI Hv) as Hr.
  unfold in_range in Hr. rewrite Forall_forall in Hr. pose proof (Hr x (In_interior r x Hx)) as Hlt.
  destruct Hv as (_ & _ & _ & _ & H0 & _). apply in_seq. unfold num_nodes.
  assert (x <> O) by (intros ->; contradiction). lia.
Qed.

Lemma served_customers st R x : Inv (pg st) -> Forall (valid_route st) R -> In x (served R) ->
  In x (seq 1 (num_nodes st - 1)).
Proof.
  intros HI HR Hx. unfold served in Hx. apply in_concat in Hx. destruct Hx as (l & Hl & Hx).
  apply in_map_iff in Hl. destruct Hl as (r & <- & Hr). rewrite Forall_forall in HR.
  eapply interior_customers; eauto.
Qed.

Theorem partition_served st R : Inv (pg st) -> partition st R ->
  (forall k, (1 <= k < num_nodes st)%nat -> count_occ Nat.eq_dec (served R) k = 1%nat) /\
  NoDup (served R) /\ Permutation (served R) (seq 1 (num_nodes st - 1)).
Proof.
  intros HI (Hnd & Hv & Hvis).
  assert (Hc : forall k, (1 <= k < num_nodes st)%nat -> count_occ Nat.eq_dec (served R) k = 1%nat).
  { intros k Hk. pose proof (Hvis k Hk) as H1. rewrite (visits_count st R k Hv) in H1 by lia. lia. }
  assert (Hnd2 : NoDup (served R)).
  { apply (NoDup_count_occ Nat.eq_dec). intros x.
    destruct (in_dec Nat.eq_dec x (served R)) as [Hin|Hout].
    - pose proof (served_customers st R x HI Hv Hin) as Hs. apply in_seq in Hs. rewrite Hc by lia. lia.
    - apply (count_occ_not_In Nat.eq_dec) in Hout. lia. }
  split; [exact Hc|]. split; [exact Hnd2|].
  apply NoDup_Permutation; [exact Hnd2|apply seq_NoDup|].
  intros x. split; [apply served_customers; assumption|].
  intros Hs. apply in_seq in Hs. apply (count_occ_In Nat.eq_dec). rewrite Hc by lia. lia.
Qed.

Lemma interior_nonempty st r : no_depot_loop st -> valid_route st r -> interior r <> [].
Proof.
  intros Hl Hv E. pose proof (valid_route_shape st r Hv) as Es. rewrite E in Es. cbn [app] in Es.
  destruct Hv as (_ & _ & _ & _ & _ & Ha & _). rewrite Es in Ha. cbn [tl arcs_exist] in Ha.
  unfold no_depot_loop in Hl. destruct Ha as [Ha _]. congruence.
Qed.

Lemma length_concat_nonempty {A} (ls : list (list A)) :
  Forall (fun l => l <> []) ls -> (length ls <= length (concat ls))%nat.
Proof.
  induction 1 as [|l ls Hl _ IH]; [simpl; lia|]. cbn [concat length]. rewrite app_length.
  destruct l; [congruence|simpl; lia].
Qed.

Theorem partition_sizes st R : Inv (pg st) -> no_depot_loop st -> partition st R ->
  (length R <= num_nodes st - 1)%nat /\
  Forall (fun r => interior r <> [] /\ (length (interior r) <= num_nodes st - 1)%nat) R.
Proof.
  intros HI Hl HR. destruct (partition_served st R HI HR) as (_ & Hnd & Hperm).
  destruct HR as (_ & Hv & _).
  assert (Hlen : length (served R) = (num_nodes st - 1)%nat)
    by (rewrite (Permutation_length Hperm), seq_length; reflexivity).
  split.
  - rewrite <- Hlen. unfold served. rewrite <- (map_length interior R) at 1.
    apply length_concat_nonempty. apply Forall_forall. intros l Hin. apply in_map_iff in Hin.
    destruct Hin as (r & <- & Hr). rewrite Forall_forall in Hv. apply (interior_nonempty st r Hl), Hv, Hr.
  - apply Forall_forall. intros r Hr. rewrite Forall_forall in Hv. pose proof (Hv r Hr) as Hvr.
    split; [apply (interior_nonempty st r Hl Hvr)|].
    assert (Hincl : incl (interior r) (seq 1 (num_nodes st - 1)))
      by (intros x Hx; eapply interior_customers; eauto).
    pose proof (NoDup_incl_length (proj1 (proj2 (proj2 (proj2 Hvr)))) Hincl) as H. rewrite seq_length in H. exact H.
Qed.

(* ====================================================================== *)
(* 9. duplicate-free lists of lists                                        *)
(* ====================================================================== *)
Lemma NoDup_app_disjoint {A} (l m : list A) x : NoDup (l ++ m) -> In x l -> ~ In x m.
Proof.
  induction l as [|a l IH]; simpl; [tauto|]. intros H [->|Hin] Hm.
  - inversion H as [|? ? Hn _]; subst. apply Hn. apply in_or_app; right; exact Hm.
  - inversion H; subst. eapply IH; eauto.
Qed.

Lemma NoDup_app_tail {A} (l m : list A) : NoDup (l ++ m) -> NoDup m.
Proof. induction l as [|a l IH]; simpl; [tauto|]. intros H. inversion H; subst. auto. Qed.

Lemma NoDup_of_concat {A} (ls : list (list A)) :
  NoDup (concat ls) -> Forall (fun l => l <> []) ls -> NoDup ls.
Proof.
  induction ls as [|l ls IH]; intros Hnd Hne; [constructor|].
  inversion Hne as [|? ? Hl Hls]; subst. cbn [concat] in Hnd. constructor.
  - intros Hin. destruct l as [|x l]; [congruence|].
    apply (NoDup_app_disjoint _ _ x Hnd); [left; reflexivity|].
    apply in_concat. exists (x :: l). split; [exact Hin|left; reflexivity].
  - apply IH; [|exact Hls]. eapply NoDup_app_tail; eauto.
Qed.


Lemma NoDup_map_injective {A B} (f : A -> B) (l : list A) :
  (forall a b, f a = f b -> a = b) -> NoDup l -> NoDup (map f l).
Proof.
  intros Hinj. induction 1 as [|a l Hn _ IH]; [constructor|]. cbn [map]. constructor; [|exact IH].
  intros Hin. apply in_map_iff in Hin. destruct Hin as (b & E & Hb). apply Hinj in E. subst b. contradiction.
Qed.

(* ====================================================================== *)
(* 10. capacity that cannot bind                                           *)
(* ====================================================================== *)
Lemma capacity_free_zero_demands st :
  (forall j, ndemand (Path.node_at (pg st) j) = 0) -> 0 <= pinit st <= pcap st -> capacity_free st.
Proof.
  intros Hd Hi cs _ _. generalize (cs ++ [O]). clear cs. intros rest.
  generalize (pinit st) Hi. induction rest as [|j rest IH]; intros l Hl; [constructor|].
  cbn [loads]. rewrite Hd. replace (l - 0) with l by lia. constructor; [exact Hl|apply IH; exact Hl].
Qed.

(* ... or when no demand is negative and the initial loading covers the demand of ALL customers together and
   does not exceed the capacity (examples/small.py: capacity 6, initial loading 6, demands 1, 2, 2) *)
Lemma sumZ_map_filter_zero (f : nat -> Z) (p : nat -> bool) l :
  (forall j, In j l -> p j = false -> f j = 0) -> sumZ (map f l) = sumZ (map f (filter p l)).
Proof.
  induction l as [|a l IH]; intros H; [reflexivity|]. cbn [map filter].
  assert (IH' : sumZ (map f l) = sumZ (map f (filter p l))) by (apply IH; intros; apply H; [right|]; assumption).
  destruct (p a) eqn:Ea; cbn [map]; rewrite !sumZ_cons; [lia|]. rewrite (H a (or_introl eq_refl) Ea). lia.
Qed.

Lemma sumZ_nodup_incl_le (f : nat -> Z) l : forall L,
  (forall j, 0 <= f j) -> NoDup l -> incl l L -> sumZ (map f l) <= sumZ (map f L).
Proof.
  induction l as [|a l IH]; intros L Hf Hnd Hincl.
  - cbn. apply sumZ_map_nonneg. exact Hf.
  - inversion Hnd as [|a' l' Hnin Hnd']; subst.
    assert (HaL : In a L) by (apply Hincl; left; reflexivity).
    apply in_split in HaL. destruct HaL as (L1 & L2 & ->).
    assert (Hincl' : incl l (L1 ++ L2)).
    { intros x Hx. assert (Hx' : In x (L1 ++ a :: L2)) by (apply Hincl; right; exact Hx).
      apply in_app_or in Hx'. apply in_or_app. destruct Hx' as [Hx'|[Hx'|Hx']]; [left; exact Hx'| subst x; contradiction | right; exact Hx']. }
    specialize (IH (L1 ++ L2) Hf Hnd' Hincl').
    cbn [map]. rewrite sumZ_cons. rewrite !map_app, !sumZ_app in *. cbn [map]. rewrite sumZ_cons. lia.
Qed.

Lemma loads_bounds g : forall rest l lo,
  (forall j, 0 <= ndemand (Path.node_at g j)) ->
  lo <= l - sumZ (map (fun j => ndemand (Path.node_at g j)) rest) ->
  Forall (fun x => lo <= x <= l) (loads g l rest).
Proof.
  induction rest as [|j rest IH]; intros l lo Hd Hlo; [constructor|].
  cbn [loads]. cbn [map] in Hlo. rewrite sumZ_cons in Hlo.
  pose proof (Hd j) as Hj.
  assert (Hs : 0 <= sumZ (map (fun j => ndemand (Path.node_at g j)) rest)) by (apply sumZ_map_nonneg; exact Hd).
  constructor; [lia|].
  assert (IH' : Forall (fun x => lo <= x <= l - ndemand (Path.node_at g j)) (loads g (l - ndemand (Path.node_at g j)) rest))
    by (apply IH; [exact Hd|lia]).
  eapply Forall_impl; [|exact IH']. cbn beta. intros x Hx. lia.
Qed.

Theorem capacity_free_nonneg_demands st :
  (forall j, 0 <= ndemand (Path.node_at (pg st) j)) ->
  (forall j, (num_nodes st <= j)%nat -> ndemand (Path.node_at (pg st) j) = 0) ->
  pinit st <= pcap st ->
  sumZ (map (fun j => ndemand (Path.node_at (pg st) j)) (seq 0 (num_nodes st))) <= pinit st ->
  capacity_free st.
Proof.
  intros Hd Hout Hcap Hsum cs Hnd Hn0.
  set (f := fun j => ndemand (Path.node_at (pg st) j)) in *.
  assert (Hnd' : NoDup (cs ++ [O])).
  { clear - Hnd Hn0. induction cs as [|a cs IH]; [constructor; [intros []|constructor]|].
    inversion Hnd as [|a' cs' Hnin Hnd1]; subst. cbn [app]. constructor.
    - intros Hin. apply in_app_or in Hin. destruct Hin as [Hin|[Hin|[]]]; [contradiction|]. apply Hn0. left. symmetry. exact Hin.
    - apply IH; [exact Hnd1|]. intros H0. apply Hn0. right. exact H0. }
  assert (Hle : sumZ (map f (cs ++ [O])) <= sumZ (map f (seq 0 (num_nodes st)))).
  { rewrite (sumZ_map_filter_zero f (fun j => Nat.ltb j (num_nodes st))).
    - apply sumZ_nodup_incl_le; [exact Hd | apply NoDup_filter; exact Hnd' |].
      intros x Hx. apply filter_In in Hx. destruct Hx as [_ Hx]. apply Nat.ltb_lt in Hx. apply in_seq. lia.
    - intros j _ Hj. apply Nat.ltb_ge in Hj. apply Hout. exact Hj. }
  assert (Hb : Forall (fun x => 0 <= x <= pinit st) (loads (pg st) (pinit st) (cs ++ [O]))).
  { apply loads_bounds; [exact Hd|]. fold f. lia. }
  eapply Forall_impl; [|exact Hb]. cbn beta. intros x Hx. lia.
Qed.

Lemma map_nth_seq {A B} (f : A -> B) (l : list A) d :
  map (fun j => f (nth j l d)) (seq 0 (length l)) = map f l.
Proof.
  induction l as [|a l IH]; [reflexivity|]. cbn [length seq map nth]. f_equal.
  rewrite <- seq_shift, map_map. exact IH.
Qed.

(* the same as a boolean test on the node list (decidable per instance) *)
Theorem capacity_free_nonneg_demandsb st :
  forallb (fun nd => 0 <=? ndemand nd) (nodes (pg st)) = true ->
  (pinit st <=? pcap st) = true ->
  (sumZ (map ndemand (nodes (pg st))) <=? pinit st) = true ->
  capacity_free st.
Proof.
  intros Hall Hc Hs. apply Z.leb_le in Hc. apply Z.leb_le in Hs. rewrite forallb_forall in Hall.
  apply capacity_free_nonneg_demands; [| |exact Hc|].
  - intros j. unfold Path.node_at. destruct (nth_in_or_default j (nodes (pg st)) dummy_node) as [Hin| ->].
    + apply Z.leb_le. apply Hall. exact Hin.
    + cbn. lia.
  - intros j Hj. unfold Path.node_at, num_nodes in *. rewrite nth_overflow by exact Hj. reflexivity.
  - unfold num_nodes, Path.node_at. rewrite (map_nth_seq ndemand). exact Hs.
Qed.

(* ====================================================================== *)
(* 11. C04_default_exact in the vocabulary of zsys                          *)
(* ====================================================================== *)
Theorem sys_default_exact s S :
  R_nonneg (zs_cols s) (zs_R s) -> coeff_sum (zs_cols s) (zs_c s) (zs_Qo s) <= S ->
  (exists z, sys_feasible s z) ->
  (forall x, sys_qubo_min s S x <->
             (sys_feasible s x /\ forall y, sys_feasible s y -> sys_value s x <= sys_value s y)) /\
  (forall x y, sys_qubo_min s S x -> sys_feasible s y ->
               (forall z, sys_feasible s z -> sys_value s y <= sys_value s z) ->
               sys_qubo_value s S x = sys_value s y).
Proof.
  intros HR HS (z & Hz).
  destruct (default_exact (zs_cols s) (zs_rows s) (zs_A s) (zs_b s) (zs_R s) (zs_c s) (zs_Qo s) S HR HS)
    as [Hsets Hval]; [exists z; exact Hz|].
  split.
  - intros x. rewrite <- constrained_opt_sys. apply Hsets.
  - intros x y Hx Hy Hmin. rewrite sys_qubo_value_default. apply (Hval x y Hx).
    apply constrained_opt_sys. split; assumption.
Qed.
