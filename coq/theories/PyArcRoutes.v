(* PyArcRoutes.v -- vocabulary of coq/genprops/C05_routes_gen.v (the generated model of
   ArcBasedRoutingProblem.get_routes, coq/gen/ArcRoutesGen.v) and the bridge lemmas between the
   hand model Arc.v and the combinators of PyRoutes.v that do not mention generated definitions.  [C05]

   The generated method runs on the object of PyArc.v (`astate`: graph, time points, var_mapping,
   num_variables, variables_enumerated): get_routes reads and assigns nothing else. *)
From Coq Require Import Sorting.Permutation.
From VQ Require Export Base Vrptw Arc PyEnumCore PyArc PyRoutes.
From VQ Require Import Arc_facts Arc_routes PyRoutes_facts.

(* the object after the first call of enumerate_variables (get_var_tuple_index calls it) *)
Definition routes_done (self : astate) (I : inst) : astate :=
  if s_variables_enumerated self then self else arc_enumerated self I.

(* the enumeration is done and cached *)
Definition routes_settled (base : astate) (I : inst) : Prop :=
  arc_holds base I /\ s_var_mapping base = vars I /\ s_num_variables base = num_variables I /\
  s_variables_enumerated base = true.

(* the object after get_routes returned: untouched when nothing is selected (early return), otherwise the
   variables are enumerated *)
Definition routes_state (self : astate) (I : inst) (x : list Z) : astate :=
  match nonzero x with [] => self | _ => routes_done self I end.

(* something is selected and EVERY selected position lies beyond the variables: np.array then builds a 1-d
   object array of None, np.lexsort returns a 0-d array and iterating it raises TypeError; the hand model
   answers ValueError for any position beyond the variables.  Impossible when len(x) <= number of variables. *)
Definition all_missing (I : inst) (x : list Z) : Prop :=
  nonzero x <> [] /\ forall k, In k (nonzero x) -> nth_error (vars I) k = None.

(* the row np.array makes of a tuple (i, s, j, t) *)
Definition row4 (t : var) : list Z :=
  [Z.of_nat (fst (fst (fst t))); snd (fst (fst t)); Z.of_nat (snd (fst t)); snd t].

(* the generated result: the object and the routes, or the exception *)
Definition routes_result (self : astate) (r : result (list route)) : result (astate * list (list (nat * Z))) :=
  match r with Ok rs => Ok (self, rs) | Err e => Err e end.

(* ---------- bridge lemmas ---------- *)
Lemma np_flatnonzero_nonzero x : np_flatnonzero x = nonzero x.
Proof. reflexivity. Qed.

Lemma sortV_sort_by l : sortV l = sort_by var_leb l.
Proof.
  unfold sort_by. induction l as [|x l IH]; cbn [sortV fold_right]; [reflexivity|]. rewrite IH.
  generalize (fold_right (insert_by var_leb) [] l). intros s.
  induction s as [|y s IHs]; cbn [insertV insert_by]; [reflexivity | rewrite IHs; reflexivity].
Qed.

Lemma ltb_nat_Z a b : (Z.of_nat a <? Z.of_nat b) = Nat.ltb a b.
Proof. destruct (Nat.ltb_spec a b), (Z.ltb_spec (Z.of_nat a) (Z.of_nat b)); try reflexivity; lia. Qed.

Lemma row4_leb a b : lex_leb_rows (row4 a) (row4 b) = var_leb a b.
Proof.
  destruct a as [[[i s] j] t], b as [[[i' s'] j'] t']. unfold row4, var_leb. cbn [fst snd lex_leb_rows].
  rewrite !ltb_nat_Z.
  destruct (Nat.ltb i i'); [reflexivity|]. destruct (Nat.ltb i' i); [reflexivity|].
  destruct (s <? s'); [reflexivity|]. destruct (s' <? s); [reflexivity|].
  destruct (Nat.ltb j j'); [reflexivity|]. destruct (Nat.ltb j' j); [reflexivity|].
  destruct (Z.ltb_spec t t'), (Z.ltb_spec t' t), (Z.leb_spec t t'); try reflexivity; lia.
Qed.

(* visited[k] += 1 *)
Lemma incr_getset k vis :
  py_bind (py_list_getitem_z vis (Z.of_nat k)) (fun v => py_list_setitem_z vis (Z.of_nat k) (v + 1)) =
  match incr k vis with Some vis1 => Ok vis1 | None => Err IndexError end.
Proof.
  rewrite py_list_getitem_nat.
  revert k; induction vis as [|x vis IH]; intros k.
  - destruct k; reflexivity.
  - destruct k as [|k].
    + cbn [nth_error py_bind incr]. rewrite (py_list_setitem_nat (x :: vis) 0) by (cbn [length]; lia). reflexivity.
    + cbn [nth_error incr]. specialize (IH k).
      destruct (nth_error vis k) as [v|] eqn:E; cbn [py_bind] in IH |- *.
      * assert (Hk : (k < length vis)%nat) by (apply nth_error_Some; congruence).
        rewrite (py_list_setitem_nat (x :: vis) (S k)) by (cbn [length]; lia).
        rewrite (py_list_setitem_nat vis k) in IH by exact Hk. cbn [list_update].
        destruct (incr k vis) as [v1|]; [|discriminate]. cbn [option_map]. inversion IH. reflexivity.
      * destruct (incr k vis); [discriminate | reflexivity].
Qed.

(* all(visited[1:] == 1) *)
Lemma all_ones_tl vis :
  py_all (np_map_scalar (fun a_ b_ => (a_ =? Z.of_nat b_)) (py_slice_from 1 vis) 1%nat) =
  forallb (fun c => c =? 1) (tl vis).
Proof.
  unfold py_all, np_map_scalar, py_slice_from. destruct vis as [|v vis]; [reflexivity|]. cbn [skipn tl].
  induction vis as [|c vis IH]; [reflexivity|]. cbn [map forallb]. rewrite IH. reflexivity.
Qed.

Lemma pop_first_length p l w l' : pop_first p l = Some (w, l') -> length l = S (length l').
Proof.
  intros H. destruct (pop_first_Some p l w l' H) as (_ & l1 & l2 & -> & ->).
  rewrite !app_length. cbn [length]. lia.
Qed.

Lemma follow_length g : forall n a rest r vis r' rest' vis',
  follow n g a rest r vis = Ok (r', rest', vis') -> (length rest' <= length rest)%nat.
Proof.
  induction n as [|n IH]; intros a rest r vis r' rest' vis'; cbn [follow]; [discriminate|].
  destruct (incr (dnode a) vis) as [vis1|]; [|discriminate].
  destruct (negb (compat g (dnode a) (arr a))); [discriminate|].
  destruct (pop_first (dest a) rest) as [[b rest1]|] eqn:E.
  - intros H. apply IH in H. apply pop_first_length in E. lia.
  - intros H. inversion H; subst. lia.
Qed.

(* the hand model's classification of the selected positions *)
Lemma all_some_cases {A} (l : list (option A)) :
  match all_some l with Some sel => l = map Some sel | None => In None l end.
Proof.
  induction l as [|o l IH]; [reflexivity|]. cbn [all_some fold_right] in *.
  destruct o as [a|]; [|left; reflexivity].
  fold (all_some l). destruct (all_some l) as [sel|]; [rewrite IH; reflexivity | right; exact IH].
Qed.

(* visited[k] += 1 followed by the rest of the block *)
Lemma incr_getset_k {B} k vis (K : list Z -> result B) :
  py_bind (py_list_getitem_z vis (Z.of_nat k)) (fun v => py_bind (py_list_setitem_z vis (Z.of_nat k) (v + 1)) K) =
  match incr k vis with Some vis1 => K vis1 | None => Err IndexError end.
Proof.
  pose proof (incr_getset k vis) as H.
  destruct (py_list_getitem_z vis (Z.of_nat k)) as [v|e]; cbn [py_bind] in *.
  - destruct (py_list_setitem_z vis (Z.of_nat k) (v + 1)); destruct (incr k vis); inversion H; reflexivity.
  - destruct (incr k vis); inversion H; reflexivity.
Qed.

(* the selected positions are positions of x *)
Lemma nonzero_In_lt x k : In k (nonzero x) -> (k < length x)%nat.
Proof.
  unfold nonzero, enumerate_list. rewrite in_map_iff. intros ([k' z] & <- & Hin).
  apply filter_In in Hin. destruct Hin as [Hin _]. apply in_combine_l, in_seq in Hin. cbn [fst]. lia.
Qed.

Lemma filter_length_le' {A} (f : A -> bool) l : (length (filter f l) <= length l)%nat.
Proof. induction l as [|a l IH]; cbn [filter length]; [lia|]. destruct (f a); cbn [length]; lia. Qed.

Lemma nonzero_length_le x : (length (nonzero x) <= length x)%nat.
Proof.
  unfold nonzero, enumerate_list. rewrite map_length.
  etransitivity; [apply filter_length_le'|]. rewrite combine_length, seq_length. lia.
Qed.

Lemma not_all_missing I x : (length x <= num_variables I)%nat -> ~ all_missing I x.
Proof.
  intros Hl [Hne Hall]. destruct (nonzero x) as [|k ks] eqn:E; [congruence|].
  assert (Hk : In k (nonzero x)) by (rewrite E; left; reflexivity).
  pose proof (nonzero_In_lt x k Hk) as Hlt. rewrite num_variables_length in Hl.
  specialize (Hall k (or_introl eq_refl)). apply nth_error_None in Hall. lia.
Qed.
