(* PyCache.v -- the flag protocol of the formulation classes, read off their source  [C14, generated tie]

   Definitions only.  harness/translate_cacheflags.py prints, for every method of ArcBasedRoutingProblem,
   SequenceBasedRoutingProblem, PathBasedRoutingProblem and RoutingProblem, the CONTROL SKELETON restricted
   to what touches `self`: a term of type `skel` below (coq/gen/CacheGen.v).  This file gives

     1. `eval`      the trace semantics of skeletons: which sequences of fine events (flag tests, flag
                    assignments, (re)creation / in-place change / read of an attribute, method calls on an
                    attribute) a method can perform, as a function of the real build flags only.  It is
                    independent of any discipline: every path of the skeleton is a trace.
     2. `mrun`      a monitor that replays a fine trace, checks the cache discipline and TRANSDUCES it into
                    the primitive actions of Cache.v:
                       write to problem data                       -> Mutate
                       self.<flag i> = False                       -> SetFlag i false
                       read of an attribute of cache i             -> Read i
                       first write to cache i with flag i down ... self.<flag i> = True
                                                                   -> Build i   (one "builder segment")
                    A builder segment is accepted only if flag i is down when it starts, every attribute of
                    cache i is re-created (assigned / emptied) in the segment, an in-place change (append,
                    item assignment, +=) or a read of an own attribute comes after its re-creation, the
                    problem data is not written and no flag is reset inside, the variable enumeration is
                    read only while its flag is up and it is not dirty, and for a dependent cache
                    variables_enumerated is up when the flag is set.  Every emitted action is passed through
                    the flag discipline `cstep` (= Cache.wstep on a first-order state).
     3. `exec`      an abstract interpreter over the finite monitor state that computes, for a skeleton and
                    a start state, all (end state, outcome) pairs of all traces, or fails;
        `disciplined_skel`  runs it for every query method and for make_feasible of every class from
                    every clean flag configuration.
   PyCache_facts.v proves `exec` sound w.r.t. `eval`/`mrun` and derives Cache.heur_ok for every trace. *)
From Coq Require Import String.
From VQ Require Import Base Cache.
Local Open Scope nat_scope.

(* ---------- skeletons ---------- *)
(* what a call argument may alias: nothing of self, (part of) the object held in self.<x>, or a parameter
   of the calling method *)
Inductive arg := ANone | AAttr (x : string) | AParam (n : nat).

Inductive skel :=
| PSkip
| POther                               (* a statement / expression that touches nothing of self *)
| PReturn | PBreak | PContinue | PRaise
| PSeq (a b : skel)
| PIfFlag (x : string) (a b : skel)    (* if self.x: a else: b   (x alone is the condition) *)
| PChoice (a b : skel)                 (* any other branch (condition events come before it) *)
| PLoop (b : skel)                     (* for / while / comprehension / lambda body: b zero or more times *)
| PTry (b h e : skel)                  (* try: b except: h else: e *)
| PRead (x : string)                   (* self.x is loaded *)
| PInit (x : string)                   (* self.x = <expr>, self.x.clear() is PMeth *)
| PInitB (x : string) (v : bool)       (* self.x = True / False *)
| PUpd (x : string)                    (* self.x[k] = v, self.x[k] += v, self.x += v, self.x.y = v, del self.x[k] *)
| PMeth (x m : string)                 (* self.x.m(...), self.x[k].m(...), ... *)
| PUpdP (n : nat)                      (* in-place change of the object passed as parameter n *)
| PMethP (n : nat) (m : string)        (* <parameter n>.m(...) *)
| PCall (m : string) (args : list arg) (* self.m(...) *)
| PSuper (m : string) (args : list arg). (* super().m(...) *)

Definition pseq (l : list skel) : skel := fold_right PSeq PSkip l.

Definition mtable := list (string * skel).

Record skeleton_table := mkTbl {
  t_base : mtable;    (* RoutingProblem *)
  t_arc : mtable; t_seq : mtable; t_path : mtable }.

Fixpoint mfind (t : mtable) (m : string) : option skel :=
  match t with
  | [] => None
  | (n, s) :: t' => if String.eqb n m then Some s else mfind t' m
  end.

Definition t_kind (tb : skeleton_table) (k : kind) : mtable :=
  match k with KArc => t_arc tb | KSeq => t_seq tb | KPath => t_path tb end.

(* method resolution: the class, then the base class *)
Definition lookup_self (tb : skeleton_table) (k : kind) (m : string) : option skel :=
  match mfind (t_kind tb k) m with Some s => Some s | None => mfind (t_base tb) m end.
Definition lookup_super (tb : skeleton_table) (m : string) : option skel := mfind (t_base tb) m.

(* ---------- what the attributes are (the table at the top of Cache.v) ---------- *)
Inductive role :=
| RFlag (i : cid)      (* build flag of cache i *)
| RCache (i : cid)     (* attribute belonging to cache i *)
| RData                (* problem data (a write is a Mutate) *)
| RResult.             (* stored result of the heuristic; no query may read or write it *)

Local Open Scope string_scope.
Definition graph_data : list (string * role) :=
  [("vrptw", RData); ("nodes", RData); ("node_names", RData); ("arcs", RData); ("depot_index", RData);
   ("vehicle_cap", RData); ("initial_loading", RData); ("feasible_solution", RResult)].

Definition arc_roles : list (string * role) :=
  [("variables_enumerated", RFlag Vars); ("constraints_built", RFlag Con); ("objective_built", RFlag Obj);
   ("var_mapping", RCache Vars); ("num_variables", RCache Vars);
   ("constraints_matrix", RCache Con); ("constraints_rhs", RCache Con); ("constraint_names", RCache Con);
   ("objective", RCache Obj);
   ("time_points", RData)].

Definition seq_roles : list (string * role) :=
  [("variables_enumerated", RFlag Vars); ("lin_con_built", RFlag Con); ("objective_built", RFlag Obj);
   ("quad_con_built", RFlag Quad);
   ("var_mapping", RCache Vars); ("var_mapping_inverse", RCache Vars); ("fixed_values", RCache Vars);
   ("num_variables", RCache Vars);
   ("linear_constraints_matrix", RCache Con); ("linear_constraints_rhs", RCache Con); ("lin_con_names", RCache Con);
   ("objective_c", RCache Obj); ("objective_q", RCache Obj);
   ("quadratic_constraints_matrix", RCache Quad);
   ("max_vehicles", RData); ("vehicle_cost", RData); ("max_sequence_length", RData); ("strict", RData)].

Definition path_roles : list (string * role) :=
  [("routes", RData); ("route_costs", RData); ("route_node_visited", RData)].

(* methods called on the object held in an attribute: does the call only read it, change it in place, or
   empty it?  (list / dict / ndarray / sparse / VRPTW / Node / Arc methods occurring in the classes) *)
Inductive mkind := MRead | MUpd | MClear.
Definition meth_kinds : list (string * mkind) :=
  [("index", MRead); ("keys", MRead); ("values", MRead); ("items", MRead); ("get", MRead); ("copy", MRead);
   ("count", MRead); ("tolist", MRead); ("toarray", MRead); ("transpose", MRead); ("dot", MRead);
   ("tocoo", MRead); ("tocsr", MRead); ("all", MRead); ("any", MRead);
   ("get_window", MRead); ("get_load", MRead); ("get_cost", MRead); ("get_travel_time", MRead);
   ("get_destination", MRead); ("get_origin", MRead); ("get_name", MRead);
   ("get_node_index", MRead); ("get_node", MRead); ("estimate_max_vehicles", MRead);
   ("append", MUpd); ("extend", MUpd); ("insert", MUpd); ("remove", MUpd); ("pop", MUpd); ("sort", MUpd);
   ("reverse", MUpd); ("update", MUpd); ("setdefault", MUpd); ("popitem", MUpd); ("fill", MUpd);
   ("resize", MUpd); ("setdiag", MUpd);
   ("add_node", MUpd); ("add_arc", MUpd); ("set_depot", MUpd); ("set_vehicle_cap", MUpd);
   ("set_initial_loading", MUpd);
   ("clear", MClear);
   (* the object is passed as an argument to a function / to a method of another object, which reads it *)
   ("fn:len", MRead); ("fn:range", MRead); ("fn:enumerate", MRead); ("fn:zip", MRead); ("fn:map", MRead);
   ("fn:filter", MRead); ("fn:list", MRead); ("fn:tuple", MRead); ("fn:dict", MRead); ("fn:set", MRead);
   ("fn:sum", MRead); ("fn:max", MRead); ("fn:min", MRead); ("fn:sorted", MRead); ("fn:reversed", MRead);
   ("fn:any", MRead); ("fn:all", MRead); ("fn:abs", MRead); ("fn:int", MRead); ("fn:float", MRead);
   ("fn:str", MRead); ("fn:bool", MRead); ("fn:isinstance", MRead); ("fn:print", MRead); ("fn:product", MRead);
   ("fn:array", MRead); ("fn:asarray", MRead); ("fn:zeros", MRead); ("fn:ones", MRead); ("fn:sort", MRead);
   ("fn:flip", MRead); ("fn:lexsort", MRead); ("fn:argmax", MRead); ("fn:atleast_1d", MRead);
   ("fn:fabs", MRead); ("fn:isclose", MRead); ("fn:flatnonzero", MRead); ("fn:nonzero", MRead);
   ("fn:csr_array", MRead); ("fn:coo_array", MRead); ("fn:csc_array", MRead); ("fn:diags", MRead);
   ("fn:deepcopy", MRead); ("fn:copy", MRead); ("fn:Arc", MRead); ("fn:Node", MRead);
   ("fn:get_sampled_key", MRead);
   ("fn:append", MRead); ("fn:pop", MRead); ("fn:remove", MRead); ("fn:index", MRead); ("fn:insert", MRead);
   ("fn:extend", MRead); ("fn:get", MRead); ("fn:add", MRead); ("fn:write", MRead); ("fn:dot", MRead)].
Local Close Scope string_scope.

Fixpoint sfind {A} (t : list (string * A)) (x : string) : option A :=
  match t with
  | [] => None
  | (n, v) :: t' => if String.eqb n x then Some v else sfind t' x
  end.

Definition kind_roles (k : kind) : list (string * role) :=
  match k with KArc => arc_roles | KSeq => seq_roles | KPath => path_roles end.

Definition role_of (k : kind) (x : string) : option role :=
  match sfind (kind_roles k) x with Some r => Some r | None => sfind graph_data x end.

Definition meth_kind (m : string) : option mkind := sfind meth_kinds m.

(* the attributes of cache i, in table order *)
Definition cache_attrs (k : kind) (i : cid) : list string :=
  flat_map (fun p => match snd p with RCache j => if cid_eqb j i then [fst p] else [] | _ => [] end)
           (kind_roles k).

(* ---------- four booleans indexed by cid ---------- *)
Definition b4 := (bool * bool * bool * bool)%type.
Definition getb (f : b4) (i : cid) : bool :=
  let '(v, c, o, q) := f in match i with Vars => v | Con => c | Obj => o | Quad => q end.
Definition setb (f : b4) (i : cid) (b : bool) : b4 :=
  let '(v, c, o, q) := f in
  match i with Vars => (b, c, o, q) | Con => (v, b, o, q) | Obj => (v, c, b, q) | Quad => (v, c, o, b) end.
Definition orb4 (f g : b4) : b4 :=
  let '(v, c, o, q) := f in let '(v', c', o', q') := g in (v || v', c || c', o || o', q || q').
Definition b4_eqb (f g : b4) : bool :=
  let '(v, c, o, q) := f in let '(v', c', o', q') := g in
  Bool.eqb v v' && Bool.eqb c c' && Bool.eqb o o' && Bool.eqb q q'.
Definition none4 : b4 := (false, false, false, false).

(* ---------- the flag discipline of Cache.v on a first-order state ---------- *)
Record cws := mkCW { cfl : b4; cdt : b4 }.

Definition to_ws (w : cws) : wstate := mkW (getb (cfl w)) (getb (cdt w)).

Definition cstep (w : cws) (a : action) : option cws :=
  match a with
  | Mutate => Some (mkCW (cfl w) (orb4 (cdt w) (cfl w)))
  | SetFlag i false => Some (mkCW (setb (cfl w) i false) (setb (cdt w) i false))
  | SetFlag i true => None
  | Build i =>
      if negb (getb (cdt w) i) && negb (getb (cdt w) Vars)
      then Some (if getb (cfl w) i then w else mkCW (setb (setb (cfl w) Vars true) i true) (cdt w))
      else None
  | BuildAbort i =>
      match i with
      | Vars => None
      | _ => if negb (getb (cdt w) i) && negb (getb (cdt w) Vars)
             then Some (if getb (cfl w) i then w else mkCW (setb (cfl w) Vars true) (cdt w))
             else None
      end
  | Read i => if getb (cfl w) i && negb (getb (cdt w) i) then Some w else None
  end.

Fixpoint crun (w : cws) (tr : list action) : option cws :=
  match tr with
  | [] => Some w
  | a :: tr' => match cstep w a with Some w' => crun w' tr' | None => None end
  end.

(* ---------- fine events and the trace semantics of skeletons ---------- *)
Inductive fev :=
| FTest (x : string) (b : bool)     (* `if self.x` evaluated, x a build flag, value b *)
| FSetB (x : string) (b : bool)     (* self.x = True / False *)
| FInit (x : string)                (* self.x = <anything else> : the attribute is re-created *)
| FUpd (x : string)                 (* the object held in self.x is changed in place *)
| FRead (x : string)                (* self.x is loaded *)
| FMeth (x m : string).             (* method m called on (part of) the object held in self.x *)

Inductive outcome := ONorm | ORet | OBrk | OCnt | ORaise.

Definition call_out (o : outcome) : outcome := match o with ORaise => ORaise | _ => ONorm end.

Definition resolve (env : list (option string)) (a : arg) : option string :=
  match a with
  | ANone => None
  | AAttr x => Some x
  | AParam n => match nth_error env n with Some r => r | None => None end
  end.

Definition param_ev (env : list (option string)) (n : nat) (mk : string -> fev) : list fev :=
  match nth_error env n with Some (Some x) => [mk x] | _ => [] end.

Definition flag_of (k : kind) (x : string) : option cid :=
  match role_of k x with Some (RFlag i) => Some i | _ => None end.

Definition upd_flag (k : kind) (fl : b4) (x : string) (v : bool) : b4 :=
  match flag_of k x with Some i => setb fl i v | None => fl end.

(* eval intr env s fl evs fl' o : started with the real build flags fl and the parameter aliases env,
   skeleton s can perform the fine events evs, ending with flags fl' and outcome o.
   intr = "inside a try body": an exception may then be raised implicitly in front of any statement
   (KeyError, ValueError, IndexError ... caught by the enclosing handler).  Outside a try only `raise`
   and `assert` raise. *)
Section Eval.
  Variables (tb : skeleton_table) (k : kind).

  Inductive eval : bool -> list (option string) -> skel -> b4 -> list fev -> b4 -> outcome -> Prop :=
  | E_Intr env s fl : eval true env s fl [] fl ORaise
  | E_Skip i env fl : eval i env PSkip fl [] fl ONorm
  | E_Other i env fl : eval i env POther fl [] fl ONorm
  | E_Return i env fl : eval i env PReturn fl [] fl ORet
  | E_Break i env fl : eval i env PBreak fl [] fl OBrk
  | E_Continue i env fl : eval i env PContinue fl [] fl OCnt
  | E_Raise i env fl : eval i env PRaise fl [] fl ORaise
  | E_Seq i env a b fl e1 fl1 e2 fl2 o :
      eval i env a fl e1 fl1 ONorm -> eval i env b fl1 e2 fl2 o ->
      eval i env (PSeq a b) fl (e1 ++ e2) fl2 o
  | E_SeqStop i env a b fl e1 fl1 o :
      eval i env a fl e1 fl1 o -> o <> ONorm -> eval i env (PSeq a b) fl e1 fl1 o
  | E_IfFlag i env x c a b fl e fl' o :
      flag_of k x = Some c ->
      eval i env (if getb fl c then a else b) fl e fl' o ->
      eval i env (PIfFlag x a b) fl (FTest x (getb fl c) :: e) fl' o
  | E_IfAttr i env x a b fl e fl' o :
      flag_of k x = None ->
      eval i env (PSeq (PRead x) (PChoice a b)) fl e fl' o ->
      eval i env (PIfFlag x a b) fl e fl' o
  | E_ChoiceL i env a b fl e fl' o : eval i env a fl e fl' o -> eval i env (PChoice a b) fl e fl' o
  | E_ChoiceR i env a b fl e fl' o : eval i env b fl e fl' o -> eval i env (PChoice a b) fl e fl' o
  | E_LoopEnd i env b fl : eval i env (PLoop b) fl [] fl ONorm
  | E_LoopIter i env b fl e1 fl1 o1 e2 fl2 o2 :
      eval i env b fl e1 fl1 o1 -> (o1 = ONorm \/ o1 = OCnt) ->
      eval i env (PLoop b) fl1 e2 fl2 o2 ->
      eval i env (PLoop b) fl (e1 ++ e2) fl2 o2
  | E_LoopBreak i env b fl e1 fl1 :
      eval i env b fl e1 fl1 OBrk -> eval i env (PLoop b) fl e1 fl1 ONorm
  | E_LoopExit i env b fl e1 fl1 o1 :
      eval i env b fl e1 fl1 o1 -> (o1 = ORet \/ o1 = ORaise) -> eval i env (PLoop b) fl e1 fl1 o1
  | E_TryOk i env b h e fl e1 fl1 e2 fl2 o :
      eval true env (PSeq b PSkip) fl e1 fl1 ONorm -> eval i env e fl1 e2 fl2 o ->
      eval i env (PTry b h e) fl (e1 ++ e2) fl2 o
  | E_TryExit i env b h e fl e1 fl1 o1 :
      eval true env (PSeq b PSkip) fl e1 fl1 o1 -> (o1 = ORet \/ o1 = OBrk \/ o1 = OCnt) ->
      eval i env (PTry b h e) fl e1 fl1 o1
  | E_TryCaught i env b h e fl e1 fl1 e2 fl2 o :
      eval true env (PSeq b PSkip) fl e1 fl1 ORaise -> eval i env h fl1 e2 fl2 o ->
      eval i env (PTry b h e) fl (e1 ++ e2) fl2 o
  | E_TryUncaught i env b h e fl e1 fl1 :
      eval true env (PSeq b PSkip) fl e1 fl1 ORaise -> eval i env (PTry b h e) fl e1 fl1 ORaise
  | E_Read i env x fl : eval i env (PRead x) fl [FRead x] fl ONorm
  | E_Init i env x fl v : eval i env (PInit x) fl [FInit x] (upd_flag k fl x v) ONorm
  | E_InitB i env x v fl : eval i env (PInitB x v) fl [FSetB x v] (upd_flag k fl x v) ONorm
  | E_Upd i env x fl : eval i env (PUpd x) fl [FUpd x] fl ONorm
  | E_Meth i env x m fl : eval i env (PMeth x m) fl [FMeth x m] fl ONorm
  | E_UpdP i env n fl : eval i env (PUpdP n) fl (param_ev env n FUpd) fl ONorm
  | E_MethP i env n m fl : eval i env (PMethP n m) fl (param_ev env n (fun x => FMeth x m)) fl ONorm
  | E_Call i env m args body fl e fl' o :
      lookup_self tb k m = Some body ->
      eval i (map (resolve env) args) body fl e fl' o ->
      eval i env (PCall m args) fl e fl' (call_out o)
  | E_Super i env m args body fl e fl' o :
      lookup_super tb m = Some body ->
      eval i (map (resolve env) args) body fl e fl' o ->
      eval i env (PSuper m args) fl e fl' (call_out o).
End Eval.

(* ---------- the monitor / transducer ---------- *)
(* a builder segment in progress: the cache and which of its attributes were re-created so far (aligned
   with cache_attrs); at most two frames: the enumeration nested in the build of a dependent cache *)
Definition frame := (cid * list bool)%type.
Record mst := mkM { mw : cws; mstk : list frame }.

Fixpoint mark (attrs : list string) (x : string) (m : list bool) : list bool :=
  match attrs, m with
  | a :: attrs', b :: m' => (if String.eqb a x then true else b) :: mark attrs' x m'
  | _, _ => []
  end.
Fixpoint marked (attrs : list string) (x : string) (m : list bool) : bool :=
  match attrs, m with
  | a :: attrs', b :: m' => if String.eqb a x then b else marked attrs' x m'
  | _, _ => false
  end.
Definition mask0 (attrs : list string) : list bool := map (fun _ => false) attrs.

Definition emit (s : mst) (a : action) : option (mst * list action) :=
  match cstep (mw s) a with Some w' => Some (mkM w' (mstk s), [a]) | None => None end.
Definition quiet (s : mst) : option (mst * list action) := Some (s, []).

Section Monitor.
  Variables (k : kind) (pure : bool).

  Definition m_mut (s : mst) : option (mst * list action) :=
    if pure then None else match mstk s with [] => emit s Mutate | _ => None end.

  (* the attribute x of cache i is re-created *)
  Definition m_init (s : mst) (i : cid) (x : string) : option (mst * list action) :=
    let at_i := cache_attrs k i in
    match mstk s with
    | [] => if getb (cfl (mw s)) i then None
            else Some (mkM (mw s) [(i, mark at_i x (mask0 at_i))], [])
    | (j, m) :: rest =>
        if cid_eqb j i then Some (mkM (mw s) ((j, mark at_i x m) :: rest), [])
        else match i, rest with
             | Vars, [] => if getb (cfl (mw s)) Vars then None
                           else Some (mkM (mw s) ((Vars, mark at_i x (mask0 at_i)) :: (j, m) :: rest), [])
             | _, _ => None
             end
    end.

  (* the attribute x of cache i is changed in place *)
  Definition m_upd (s : mst) (i : cid) (x : string) : option (mst * list action) :=
    match mstk s with
    | (j, m) :: _ => if cid_eqb j i && marked (cache_attrs k i) x m then quiet s else None
    | [] => None
    end.

  (* the attribute x of cache i is read *)
  Definition m_read (s : mst) (i : cid) (x : string) : option (mst * list action) :=
    match mstk s with
    | [] => emit s (Read i)
    | (j, m) :: _ =>
        if cid_eqb j i then (if marked (cache_attrs k i) x m then quiet s else None)
        else match i with Vars => emit s (Read Vars) | _ => None end
    end.

  (* self.<flag i> = b *)
  Definition m_setflag (s : mst) (i : cid) (b : bool) : option (mst * list action) :=
    if b then
      match mstk s with
      | (j, m) :: rest =>
          if cid_eqb j i && forallb (fun v => v) m && negb (getb (cfl (mw s)) i)
             && (cid_eqb i Vars || getb (cfl (mw s)) Vars)
          then match cstep (mw s) (Build i) with
               | Some w' => Some (mkM w' rest, [Build i])
               | None => None
               end
          else None
      | [] => None
      end
    else match mstk s with [] => emit s (SetFlag i false) | _ => None end.

  Definition m_write (s : mst) (x : string) (inplace : bool) : option (mst * list action) :=
    match role_of k x with
    | Some (RFlag _) => None
    | Some (RCache i) => if inplace then m_upd s i x else m_init s i x
    | Some RData => m_mut s
    | Some RResult => if pure then None else quiet s
    | None => None
    end.

  Definition m_load (s : mst) (x : string) : option (mst * list action) :=
    match role_of k x with
    | Some (RFlag _) => None
    | Some (RCache i) => m_read s i x
    | Some RData => quiet s
    | Some RResult => if pure then None else quiet s
    | None => None
    end.

  Definition mstep (s : mst) (e : fev) : option (mst * list action) :=
    match e with
    | FTest x b => match flag_of k x with
                   | Some i => if Bool.eqb (getb (cfl (mw s)) i) b then quiet s else None
                   | None => None
                   end
    | FSetB x b => match flag_of k x with
                   | Some i => m_setflag s i b
                   | None => m_write s x false
                   end
    | FInit x => m_write s x false
    | FUpd x => m_write s x true
    | FRead x => m_load s x
    | FMeth x m => match meth_kind m with
                   | Some MRead => m_load s x
                   | Some MUpd => m_write s x true
                   | Some MClear => m_write s x false
                   | None => None
                   end
    end.

  Fixpoint mrun (s : mst) (evs : list fev) : option (mst * list action) :=
    match evs with
    | [] => Some (s, [])
    | e :: evs' =>
        match mstep s e with
        | Some (s1, o1) => match mrun s1 evs' with
                           | Some (s2, o2) => Some (s2, o1 ++ o2)
                           | None => None
                           end
        | None => None
        end
    end.

  (* the end of a user-level call: no builder segment may be left open, except that an exception may
     abort the build of a dependent cache (variables_enumerated being up by then) *)
  Definition mfinish (s : mst) (o : outcome) : option (mst * list action) :=
    match mstk s with
    | [] => quiet s
    | [(i, _)] =>
        match o with
        | ORaise => if getb (cfl (mw s)) Vars
                    then match cstep (mw s) (BuildAbort i) with
                         | Some w' => Some (mkM w' [], [BuildAbort i])
                         | None => None
                         end
                    else None
        | _ => None
        end
    | _ => None
    end.
End Monitor.

Definition mstart (fl : b4) : mst := mkM (mkCW fl none4) [].

(* the Cache.v trace of one user-level call that performed the fine events evs with outcome o, started
   with flags fl and nothing dirty; None = the discipline is violated *)
Definition abs_call (k : kind) (pure : bool) (fl : b4) (evs : list fev) (o : outcome)
  : option (list action * mst) :=
  match mrun k pure (mstart fl) evs with
  | Some (s1, o1) => match mfinish s1 o with
                     | Some (s2, o2) => Some (o1 ++ o2, s2)
                     | None => None
                     end
  | None => None
  end.

(* ---------- the abstract interpreter ---------- *)
Definition cws_eqb (a b : cws) : bool := b4_eqb (cfl a) (cfl b) && b4_eqb (cdt a) (cdt b).
Definition frame_eqb (a b : frame) : bool := cid_eqb (fst a) (fst b) && list_eqb Bool.eqb (snd a) (snd b).
Definition mst_eqb (a b : mst) : bool := cws_eqb (mw a) (mw b) && list_eqb frame_eqb (mstk a) (mstk b).
Definition outcome_eqb (a b : outcome) : bool :=
  match a, b with
  | ONorm, ONorm | ORet, ORet | OBrk, OBrk | OCnt, OCnt | ORaise, ORaise => true
  | _, _ => false
  end.

Definition res := list (mst * outcome).
Definition re_eqb (p q : mst * outcome) : bool := mst_eqb (fst p) (fst q) && outcome_eqb (snd p) (snd q).
Definition r_mem (p : mst * outcome) (R : res) : bool := existsb (re_eqb p) R.
Definition r_add (p : mst * outcome) (R : res) : res := if r_mem p R then R else p :: R.
Definition r_union (A B : res) : res := fold_right r_add B A.

Definition m_mem (c : mst) (H : list mst) : bool := existsb (mst_eqb c) H.
Definition m_add (c : mst) (H : list mst) : list mst := if m_mem c H then H else c :: H.

Fixpoint bind_res (R : res) (g : mst -> outcome -> option res) : option res :=
  match R with
  | [] => Some []
  | (c, o) :: R' =>
      match g c o, bind_res R' g with
      | Some A, Some B => Some (r_union A B)
      | _, _ => None
      end
  end.

(* loops: head states *)
Definition continues (o : outcome) : bool := match o with ONorm | OCnt => true | _ => false end.

Fixpoint loop_succ (step : mst -> option res) (todo : list mst) (acc : list mst) : option (list mst) :=
  match todo with
  | [] => Some acc
  | c :: todo' =>
      match step c with
      | Some R => loop_succ step todo'
                    (fold_right (fun p a => if continues (snd p) then m_add (fst p) a else a) acc R)
      | None => None
      end
  end.

Fixpoint grow (n : nat) (step : mst -> option res) (H : list mst) : option (list mst) :=
  match n with
  | O => None
  | S n' => match loop_succ step H H with
            | Some H' => if Nat.eqb (length H') (length H) then Some H else grow n' step H'
            | None => None
            end
  end.

Definition loop_closed (step : mst -> option res) (H : list mst) : bool :=
  forallb (fun c => match step c with
                    | Some R => forallb (fun p => if continues (snd p) then m_mem (fst p) H else true) R
                    | None => false
                    end) H.

Definition loop_exit1 (p : mst * outcome) : res :=
  match snd p with
  | OBrk => [(fst p, ONorm)]
  | ORet => [(fst p, ORet)]
  | ORaise => [(fst p, ORaise)]
  | _ => []
  end.

Fixpoint loop_exits (step : mst -> option res) (H : list mst) : option res :=
  match H with
  | [] => Some []
  | c :: H' =>
      match step c, loop_exits step H' with
      | Some R, Some B => Some (r_add (c, ONorm) (r_union (flat_map loop_exit1 R) B))
      | _, _ => None
      end
  end.

Section Exec.
  Variables (tb : skeleton_table) (k : kind) (pure : bool).

  Definition leaf (c : mst) (evs : list fev) : option res :=
    match mrun k pure c evs with Some (c', _) => Some [(c', ONorm)] | None => None end.

  Fixpoint exec (f : nat) (intr : bool) (env : list (option string)) (s : skel) (c : mst) : option res :=
    match f with
    | O => None
    | S f' =>
      match
        match s with
        | PSkip | POther => Some [(c, ONorm)]
        | PReturn => Some [(c, ORet)]
        | PBreak => Some [(c, OBrk)]
        | PContinue => Some [(c, OCnt)]
        | PRaise => Some [(c, ORaise)]
        | PSeq a b =>
            match exec f' intr env a c with
            | Some R => bind_res R (fun c1 o1 => match o1 with
                                                 | ONorm => exec f' intr env b c1
                                                 | _ => Some [(c1, o1)]
                                                 end)
            | None => None
            end
        | PIfFlag x a b =>
            match flag_of k x with
            | Some i => exec f' intr env (if getb (cfl (mw c)) i then a else b) c
            | None => exec f' intr env (PSeq (PRead x) (PChoice a b)) c
            end
        | PChoice a b =>
            match exec f' intr env a c, exec f' intr env b c with
            | Some A, Some B => Some (r_union A B)
            | _, _ => None
            end
        | PLoop b =>
            let step := exec f' intr env b in
            match grow f' step [c] with
            | Some H => if loop_closed step H && m_mem c H then loop_exits step H else None
            | None => None
            end
        | PTry b h e =>
            match exec f' true env (PSeq b PSkip) c with
            | Some R => bind_res R (fun c1 o1 => match o1 with
                                                 | ONorm => exec f' intr env e c1
                                                 | ORaise => match exec f' intr env h c1 with
                                                             | Some A => Some (r_add (c1, ORaise) A)
                                                             | None => None
                                                             end
                                                 | _ => Some [(c1, o1)]
                                                 end)
            | None => None
            end
        | PRead x => leaf c [FRead x]
        | PInit x => leaf c [FInit x]
        | PInitB x v => leaf c [FSetB x v]
        | PUpd x => leaf c [FUpd x]
        | PMeth x m => leaf c [FMeth x m]
        | PUpdP n => leaf c (param_ev env n FUpd)
        | PMethP n m => leaf c (param_ev env n (fun x => FMeth x m))
        | PCall m args =>
            match lookup_self tb k m with
            | Some body => match exec f' intr (map (resolve env) args) body c with
                           | Some R => Some (fold_right (fun p a => r_add (fst p, call_out (snd p)) a) [] R)
                           | None => None
                           end
            | None => None
            end
        | PSuper m args =>
            match lookup_super tb m with
            | Some body => match exec f' intr (map (resolve env) args) body c with
                           | Some R => Some (fold_right (fun p a => r_add (fst p, call_out (snd p)) a) [] R)
                           | None => None
                           end
            | None => None
            end
        end
      with
      | Some R => Some (if intr then r_add (c, ORaise) R else R)
      | None => None
      end
    end.
End Exec.

(* ---------- the decidable check of a skeleton table ---------- *)
Definition all_b4 : list b4 :=
  flat_map (fun v => flat_map (fun c => flat_map (fun o => map (fun q => (v, c, o, q))
    [false; true]) [false; true]) [false; true]) [false; true].

Definition starts (k : kind) : list b4 := filter (fun fl => kind_okb k (getb fl)) all_b4.

Definition exec_fuel : nat := 400.

(* every end state of the call: the monitor accepts the end of the call, the class keeps its flag shape, and
   nothing is left dirty -- the last only for calls that return normally when `strict_raise` is off *)
Definition end_ok (k : kind) (strict_raise : bool) (p : mst * outcome) : bool :=
  match mfinish (fst p) (snd p) with
  | Some (s, _) =>
      kind_okb k (getb (cfl (mw s))) &&
      (if strict_raise then b4_eqb (cdt (mw s)) none4
       else match snd p with ORaise => true | _ => b4_eqb (cdt (mw s)) none4 end)
  | None => false
  end.

Definition check_entry (tb : skeleton_table) (k : kind) (pure strict_raise : bool) (m : string) : bool :=
  match lookup_self tb k m with
  | Some body =>
      forallb (fun fl => match exec tb k pure exec_fuel false [] body (mstart fl) with
                         | Some R => forallb (end_ok k strict_raise) R
                         | None => false
                         end) (starts k)
  | None => false
  end.

Local Open Scope string_scope.
Definition queries (k : kind) : list string :=
  match k with
  | KPath => ["get_num_variables"; "get_objective_data"; "get_constraint_data"; "get_sufficient_penalty";
              "get_qubo"; "get_routes"]
  | _ => ["get_num_variables"; "get_var_index"; "get_var_tuple_index"; "get_objective_data";
          "get_constraint_data"; "get_sufficient_penalty"; "get_qubo"; "get_routes"]
  end.
Definition heuristic : string := "make_feasible".
(* the methods of the classes that change the problem data and reset build flags themselves *)
Definition mutators (k : kind) : list string :=
  match k with
  | KArc => ["make_feasible"; "check_and_add_exit_arc"]
  | _ => ["make_feasible"]
  end.
Local Close Scope string_scope.

Definition all_kinds : list kind := [KArc; KSeq; KPath].

(* queries: pure mode (no data write, no stored-result access), clean whatever the outcome;
   make_feasible (and check_and_add_exit_arc): clean whenever it returns *)
Definition disciplined_kind (tb : skeleton_table) (k : kind) : bool :=
  forallb (check_entry tb k true true) (queries k) && forallb (check_entry tb k false false) (mutators k).

Definition disciplined_skel (tb : skeleton_table) : bool := forallb (disciplined_kind tb) all_kinds.

(* make_feasible leaves nothing dirty even when it raises *)
Definition heuristic_raise_clean (tb : skeleton_table) (k : kind) : bool := check_entry tb k false true heuristic.

(* ---------- user-level calls and histories ---------- *)
(* one call of method m of class k on an object whose real build flags are fl: any trace of its body
   (arguments never alias attributes of the object: the callers are outside the class) *)
Definition call_of (tb : skeleton_table) (k : kind) (m : string)
           (fl : b4) (evs : list fev) (fl' : b4) (o : outcome) : Prop :=
  exists body, lookup_self tb k m = Some body /\ eval tb k false [] body fl evs fl' o.

(* a call as recorded in a history: is it a query (monitored in pure mode), its fine events, its outcome *)
Definition ucall := (bool * list fev * outcome)%type.

(* histories: any interleaving of query calls (whatever their outcome) and of calls of make_feasible /
   check_and_add_exit_arc that return; the real flags are threaded through *)
Inductive history (tb : skeleton_table) (k : kind) : b4 -> list ucall -> b4 -> Prop :=
| H_nil fl : history tb k fl [] fl
| H_query fl m evs fl1 o h fl2 :
    In m (queries k) -> call_of tb k m fl evs fl1 o -> history tb k fl1 h fl2 ->
    history tb k fl ((true, evs, o) :: h) fl2
| H_heur fl m evs fl1 o h fl2 :
    In m (mutators k) -> call_of tb k m fl evs fl1 o -> o <> ORaise -> history tb k fl1 h fl2 ->
    history tb k fl ((false, evs, o) :: h) fl2.

(* the same with make_feasible calls that raise (for classes with heuristic_raise_clean) *)
Inductive history_r (tb : skeleton_table) (k : kind) : b4 -> list ucall -> b4 -> Prop :=
| HR_nil fl : history_r tb k fl [] fl
| HR_query fl m evs fl1 o h fl2 :
    In m (queries k) -> call_of tb k m fl evs fl1 o -> history_r tb k fl1 h fl2 ->
    history_r tb k fl ((true, evs, o) :: h) fl2
| HR_heur fl evs fl1 o h fl2 :
    call_of tb k heuristic fl evs fl1 o -> history_r tb k fl1 h fl2 ->
    history_r tb k fl ((false, evs, o) :: h) fl2.

(* the Cache.v history (one primitive trace per call) of a recorded history; None = discipline violated *)
Fixpoint abs_history (k : kind) (fl : b4) (h : list ucall) : option (list (list action)) :=
  match h with
  | [] => Some []
  | (p, evs, o) :: h' =>
      match abs_call k p fl evs o with
      | Some (tr, s) => match abs_history k (cfl (mw s)) h' with
                        | Some trs => Some (tr :: trs)
                        | None => None
                        end
      | None => None
      end
  end.

(* ---------- a hand-written two-method table (witnesses for the Examples of genprops/C14_gen.v) ---------- *)
Local Open Scope string_scope.
Definition ex_arc (clear_first : bool) : mtable :=
  [("get_num_variables",
    pseq [PIfFlag "variables_enumerated" PSkip (PCall "enumerate_variables" []); PRead "num_variables"; PReturn]);
   ("enumerate_variables",
    pseq [PIfFlag "variables_enumerated" PReturn PSkip;
          (if clear_first then PInit "var_mapping" else POther);
          PLoop (PMeth "var_mapping" "append"); PInit "num_variables";
          PInitB "variables_enumerated" true])].
Definition ex_tbl (clear_first : bool) : skeleton_table := mkTbl [] (ex_arc clear_first) [] [].
(* get_num_variables on a fresh object, one variable appended *)
Definition ex_evs (clear_first : bool) : list fev :=
  [FTest "variables_enumerated" false; FTest "variables_enumerated" false] ++
  (if clear_first then [FInit "var_mapping"] else []) ++
  [FMeth "var_mapping" "append"; FInit "num_variables"; FSetB "variables_enumerated" true; FRead "num_variables"].
Local Close Scope string_scope.
