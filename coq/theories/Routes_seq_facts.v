(* Routes_seq_facts.v -- C08, sequence-based corollaries of C07:
   non-strict: every route partition embeds as a walk assignment of the same cost;
   strict: every walk assignment projects to a route partition of the same cost. *)
From Coq Require Import ZArith List Bool Lia Sorting.Permutation.
From VQ Require Import Base LinAlg Vrptw Vrptw_facts Path Path_facts Penalty Penalty_facts
                       Routes Routes_facts Routes_views.
From VQ Require Seq Seq_facts.
Import ListNotations.
Open Scope Z_scope.

Lemma dict_mem_of_get {V} k (d : dict V) v : dict_get k d = Some v -> dict_mem k d = true.
Proof. unfold dict_mem. intros ->. reflexivity. Qed.

Lemma dict_get_None_of_mem {V} k (d : dict V) : dict_mem k d = false -> dict_get k d = None.
Proof. unfold dict_mem. destruct (dict_get k d); [discriminate|reflexivity]. Qed.

Lemma pair_00_dec (i j : nat) : {(i, j) = (O, O)} + {(i, j) <> (O, O)}.
Proof. decide equality; apply Nat.eq_dec. Qed.

Fixpoint chain_cost (cst : nat -> nat -> Z) (i : nat) (l : list nat) : Z :=
  match l with [] => 0 | j :: l' => cst i j + chain_cost cst j l' end.

Lemma chain_cost_path g l : forall i, chain_cost (cost_of g) i l = path_cost g i l.
Proof. induction l as [|j l IH]; intros i; [reflexivity|]. cbn [chain_cost path_cost]. rewrite IH. reflexivity. Qed.

(* sums over the routes of a padded list *)
Lemma lsum_nth_routes (f : list nat -> Z) : forall (routes : list (list nat)) (V : nat),
  f [] = 0 -> (length routes <= V)%nat ->
  Seq.lsum (seq 0 V) (fun v => f (nth v routes [])) = sumZ (map f routes).
Proof.
  induction routes as [|r rs IH]; intros V H0 HV.
  - simpl. apply Seq_facts.lsum_zero. intros v _. destruct v; exact H0.
  - destruct V as [|V]; [simpl in HV; lia|].
    change (seq 0 (S V)) with (0%nat :: seq 1 V). rewrite <- seq_shift, Seq_facts.lsum_cons, Seq_facts.lsum_map.
    cbn [nth map]. rewrite sumZ_cons. rewrite IH by (auto; simpl in HV; lia). reflexivity.
Qed.

(* ====================================================================== *)
(* 1. what both views give                                                 *)
(* ====================================================================== *)
Section CommonView.
  Variables (st : pstate) (I : Seq.inst).
  Hypothesis Hnodes : nodes (Seq.ig I) = nodes (pg st).
  Hypothesis Hkeys : NoDup (map fst (arcs (Seq.ig I))).
  Hypothesis H00 : exists a0, dict_get (O, O) (arcs (Seq.ig I)) = Some a0 /\ acost a0 = 0.
  Hypothesis Hvc : forall v, Seq.vcost I v = 0.

  Lemma view_iN : Seq.iN I = num_nodes st.
  Proof. unfold Seq.iN, num_nodes. rewrite Hnodes. reflexivity. Qed.

  Lemma view_cost00 : Seq.cost I (O, O) = 0.
  Proof. destruct H00 as (a0 & E & Ec). unfold Seq.cost. rewrite E. exact Ec. Qed.

  Lemma view_is_arc00 : Seq_facts.is_arc I 0 0.
  Proof.
    destruct H00 as (a0 & E & _). unfold Seq_facts.is_arc. apply dict_mem_In.
    eapply dict_mem_of_get; eauto.
  Qed.

  Lemma view_seq_ok : (1 <= num_nodes st)%nat -> Seq_facts.seq_ok I.
  Proof.
    intros Hn. split; [exact Hkeys|]. split; [exact view_is_arc00|]. rewrite view_iN. exact Hn.
  Qed.

  Lemma indicator_free_binary W : Seq.zbinary (Seq_facts.nv I) (Seq.indicator_free I W).
  Proof.
    intros k _. unfold Seq.indicator_free. destruct (Seq.var_tuple I k) as [[[v s] n]|]; [|left; reflexivity].
    destruct (Nat.eqb (W v s) n); [right|left]; reflexivity.
  Qed.

  (* a walk assignment gives a solution of the 0-1 program with its cost as objective (C07) *)
  Lemma walk_solution W : (1 <= num_nodes st)%nat -> (3 <= Seq.iL I)%nat ->
    Seq.walk_assignment I W -> seq_solution I (Seq.indicator_free I W) (seq_cost I W).
  Proof.
    intros Hn HL HW. pose proof (view_seq_ok Hn) as Hok.
    unfold seq_solution. rewrite <- Seq_facts.nv_num.
    pose proof (indicator_free_binary W) as Hb.
    destruct (Seq_facts.seq_iff I (Seq.indicator_free I W) ltac:(rewrite view_iN; exact Hn) HL Hb) as (E & HE & Hiff).
    split; [exact Hb|]. split.
    - exists E. split; [exact HE|]. apply Hiff. exists W. split; [exact HW|]. intros k _. reflexivity.
    - apply (Seq_facts.seq_objective I W _ Hok HL HW). intros k _. reflexivity.
  Qed.

  (* and conversely *)
  Lemma solution_walk x v : (1 <= num_nodes st)%nat -> (3 <= Seq.iL I)%nat ->
    seq_solution I x v -> exists W, Seq.walk_assignment I W /\ seq_cost I W = v.
  Proof.
    intros Hn HL (Hb & (E & HE & Hlin & Hq) & Hv). pose proof (view_seq_ok Hn) as Hok.
    rewrite <- Seq_facts.nv_num in *.
    destruct (Seq_facts.seq_iff I x ltac:(rewrite view_iN; exact Hn) HL Hb) as (E' & HE' & Hiff).
    rewrite HE in HE'. inversion HE'; subst E'.
    destruct (proj1 Hiff (conj Hlin Hq)) as (W & HW & Hx). exists W. split; [exact HW|].
    rewrite <- Hv. symmetry. apply (Seq_facts.seq_objective I W x Hok HL HW Hx).
  Qed.

  (* cost of the stretch of a walk that follows the list a :: rest and then stays at the depot *)
  Lemma walk_cost_sum (cst : nat -> nat -> Z) :
    (forall i j, Seq.cost I (i, j) = cst i j) ->
    forall rest a K, (length rest + 1 <= K)%nat ->
    Seq.lsum (seq 0 K) (fun s => Seq.cost I (nth s (a :: rest) O, nth (S s) (a :: rest) O)) =
    chain_cost cst a (rest ++ [O]).
  Proof.
    intros Hc. induction rest as [|b rest IH]; intros a K HK.
    - destruct K as [|K]; [simpl in HK; lia|].
      change (seq 0 (S K)) with (0%nat :: seq 1 K). rewrite <- seq_shift, Seq_facts.lsum_cons, Seq_facts.lsum_map.
      cbn [nth app chain_cost]. rewrite Seq_facts.lsum_zero.
      + rewrite Hc. lia.
      + intros s _. destruct s as [|[|s]]; apply view_cost00.
    - destruct K as [|K]; [simpl in HK; lia|].
      change (seq 0 (S K)) with (0%nat :: seq 1 K). rewrite <- seq_shift, Seq_facts.lsum_cons, Seq_facts.lsum_map.
      cbn [nth app chain_cost]. rewrite Hc.
      rewrite <- (IH b K) by (simpl in HK; lia). reflexivity.
  Qed.
End CommonView.

(* ====================================================================== *)
(* 2. non-strict: partitions embed as walk assignments                     *)
(* ====================================================================== *)
Section NonStrict.
  Variables (st : pstate) (I : Seq.inst).
  Hypothesis HI : Inv (pg st).
  Hypothesis Hloop : no_depot_loop st.
  Hypothesis Hview : seq_view st I.

  Let Hnodes := proj1 Hview.
  Let Hkeys := proj1 (proj2 Hview).
  Let H00 := proj1 (proj2 (proj2 Hview)).
  Let Harcs := proj1 (proj2 (proj2 (proj2 Hview))).
  Let Hvc := proj2 (proj2 (proj2 (proj2 Hview))).

  Lemma ns_cost i j : Seq.cost I (i, j) = cost_of (pg st) i j.
  Proof.
    destruct (pair_00_dec i j) as [E|Hne].
    - inversion E; subst. rewrite (view_cost00 I H00). unfold cost_of.
      rewrite (dict_get_None_of_mem _ _ Hloop). reflexivity.
    - unfold Seq.cost, cost_of. rewrite (Harcs i j Hne). reflexivity.
  Qed.

  Lemma ns_is_arc i j : dict_mem (i, j) (arcs (pg st)) = true -> Seq_facts.is_arc I i j.
  Proof.
    intros Hm. unfold Seq_facts.is_arc. apply dict_mem_In.
    destruct (pair_00_dec i j) as [E|Hne].
    - inversion E; subst. unfold no_depot_loop in Hloop. congruence.
    - unfold dict_mem in *. rewrite (Harcs i j Hne). exact Hm.
  Qed.

  Lemma ns_chain rest : forall i, arcs_exist (pg st) i rest -> Seq_facts.chain I (i :: rest).
  Proof.
    induction rest as [|j rest IH]; intros i Ha; [exact Logic.I|].
    destruct Ha as [H1 H2]. split; [apply ns_is_arc; exact H1 | apply IH; exact H2].
  Qed.

  Lemma ns_route_cost r : valid_route st r ->
    route_cost (pg st) r = path_cost (pg st) O (interior r ++ [O]).
  Proof. intros Hv. rewrite (valid_route_shape st r Hv) at 1. reflexivity. Qed.

  Theorem seq_embed R :
    (1 <= num_nodes st)%nat ->
    (num_nodes st - 1 <= Seq.iV I)%nat -> (num_nodes st - 1 + 2 <= Seq.iL I)%nat ->
    partition st R ->
    Seq.walk_assignment I (Seq.pad_walks (map interior R)) /\
    seq_cost I (Seq.pad_walks (map interior R)) = total_cost st R.
  Proof.
    intros Hn HV HL HR.
    destruct (partition_served st R HI HR) as (Hcount & _ & _).
    destruct (partition_sizes st R HI Hloop HR) as (HlenR & Hsizes).
    pose proof HR as (_ & Hval & _).
    pose proof (view_seq_ok st I Hnodes Hkeys H00 Hn) as Hok.
    set (routes := map interior R).
    assert (Hlen : (length routes <= Seq.iV I)%nat) by (unfold routes; rewrite map_length; lia).
    assert (Hbound : forall v, (length (nth v routes []) + 2 <= Seq.iL I)%nat).
    { intros v. destruct (lt_dec v (length routes)) as [Hlt|Hge]; [|rewrite nth_overflow by lia; simpl; lia].
      unfold routes in *. rewrite map_length in Hlt.
      rewrite (nth_indep _ [] (interior []) ) by (rewrite map_length; exact Hlt).
      rewrite map_nth. rewrite Forall_forall in Hsizes.
      destruct (Hsizes (nth v R []) (nth_In _ _ Hlt)) as [_ Hle]. lia. }
    split.
    - apply Seq_facts.pad_walks_assignment; [exact Hok | lia | exact Hlen | |].
      + unfold routes. apply Forall_forall. intros cs Hcs. apply in_map_iff in Hcs.
        destruct Hcs as (r & <- & Hr). rewrite Forall_forall in Hval, Hsizes.
        pose proof (Hval r Hr) as Hvr. destruct (Hsizes r Hr) as [_ Hle].
        split; [|split].
        * intros c Hc. pose proof (interior_customers st r c HI Hvr Hc) as Hs. apply in_seq in Hs.
          rewrite (view_iN st I Hnodes). lia.
        * apply ns_chain. destruct Hvr as (_ & _ & _ & _ & _ & Ha & _).
          rewrite (valid_route_shape st r (Hval r Hr)) in Ha at 1. exact Ha.
        * lia.
      + intros n H1 H2. rewrite (view_iN st I Hnodes) in H2. apply Hcount. lia.
    - unfold seq_cost. rewrite Seq_facts.zsum_lsum.
      rewrite (Seq_facts.lsum_ext _ _ (fun v => path_cost (pg st) O (nth v routes [] ++ [O]))).
      + rewrite (lsum_nth_routes (fun cs => path_cost (pg st) O (cs ++ [O])) routes (Seq.iV I)); [| |exact Hlen].
        * unfold total_cost, routes. rewrite map_map. f_equal. apply map_ext_in. intros r Hr.
          rewrite Forall_forall in Hval. symmetry. apply ns_route_cost. apply Hval; exact Hr.
        * cbn [app path_cost]. rewrite <- ns_cost. rewrite (view_cost00 I H00). reflexivity.
      + intros v _. rewrite Seq_facts.zsum_lsum.
        rewrite (Seq_facts.lsum_ext _ _ (fun s => Seq.cost I (nth s (O :: nth v routes []) O,
                                                              nth (S s) (O :: nth v routes []) O)))
          by (intros s _; unfold Seq.pad_walks; rewrite Hvc; lia).
        rewrite (walk_cost_sum I H00 (cost_of (pg st)) ns_cost (nth v routes []) O (Seq.iL I - 1))
          by (specialize (Hbound v); lia).
        apply chain_cost_path.
  Qed.

  (* every cost attained by a partition is attained by a solution of the non-strict program *)
  Theorem seq_nonstrict_le v :
    (1 <= num_nodes st)%nat -> (3 <= Seq.iL I)%nat ->
    (num_nodes st - 1 <= Seq.iV I)%nat -> (num_nodes st - 1 + 2 <= Seq.iL I)%nat ->
    (exists R, partition st R /\ total_cost st R = v) ->
    exists x, seq_solution I x v.
  Proof.
    intros Hn HL3 HV HL (R & HR & Hc).
    destruct (seq_embed R Hn HV HL HR) as [HW Hcost].
    exists (Seq.indicator_free I (Seq.pad_walks (map interior R))).
    rewrite <- Hc, <- Hcost. apply (walk_solution st I Hnodes Hkeys H00 _ Hn HL3 HW).
  Qed.
End NonStrict.

(* ====================================================================== *)
(* 3. the non-strict view is what the class's constructor builds          *)
(* ====================================================================== *)
Lemma dict_get_set_other {V} k k' (v : V) d : k <> k' -> dict_get k (dict_set k' v d) = dict_get k d.
Proof.
  intros Hne. induction d as [|[k2 v2] d IH]; simpl.
  - apply natpair_eqb_neq in Hne. rewrite Hne. reflexivity.
  - destruct (natpair_eqb k' k2) eqn:E2; simpl.
    + apply natpair_eqb_eq in E2. subst k2. apply natpair_eqb_neq in Hne. rewrite Hne. reflexivity.
    + destruct (natpair_eqb k k2); [reflexivity|exact IH].
Qed.

(* SequenceBasedRoutingProblem(vrptw, strict=False) on the graph of st (depot first), any numbers of
   vehicles and positions, vehicle costs all zero *)
Theorem seq_view_of_constructor st g' V L vc :
  Inv (pg st) -> nodes (pg st) <> [] ->
  Seq.seq_init false (pg st) = Ok g' -> (forall v, nth v vc 0 = 0) ->
  seq_view st (Seq.mkInst g' V L vc).
Proof.
  intros HI Hne Hinit Hvc. unfold Seq.seq_init in Hinit.
  pose proof (inv_aligned _ HI) as Hal.
  destruct (nodes (pg st)) as [|n0 ns] eqn:En; [congruence|].
  rewrite Hal in Hinit. cbn [map] in Hinit.
  unfold seq_set_depot, set_depot in Hinit. rewrite Hal in Hinit. cbn [map index_of] in Hinit.
  rewrite Nat.eqb_refl in Hinit. inversion Hinit; subst g'; clear Hinit.
  unfold seq_view. cbn [Seq.ig names nodes arcs].
  split; [reflexivity|]. split; [apply dict_set_NoDup; apply (inv_keys _ HI)|].
  split; [eexists; split; [apply dict_get_set_same|reflexivity]|].
  split; [intros i j Hij; apply dict_get_set_other; exact Hij|].
  intros v. unfold Seq.vcost. cbn [Seq.ivc]. apply Hvc.
Qed.

(* ====================================================================== *)
(* 4. strict: walk assignments project to partitions                       *)
(* ====================================================================== *)
Lemma until_depot_notin0 l : ~ In O (until_depot l).
Proof.
  induction l as [|a l IH]; simpl; [tauto|].
  destruct (Nat.eqb_spec a 0) as [->|Ha]; simpl; [tauto|]. intros [H|H]; [congruence|auto].
Qed.

Lemma until_depot_incl l x : In x (until_depot l) -> In x l.
Proof.
  induction l as [|a l IH]; simpl; [tauto|].
  destruct (Nat.eqb a 0); simpl; [tauto|]. intros [H|H]; auto.
Qed.

Lemma until_depot_len l : forall i, (i < length l)%nat -> nth i l O = O -> (length (until_depot l) <= i)%nat.
Proof.
  induction l as [|a l IH]; intros i Hi H0; simpl in *; [lia|].
  destruct (Nat.eqb_spec a 0) as [->|Ha]; simpl; [lia|].
  destruct i as [|i]; [congruence|]. specialize (IH i ltac:(lia) H0). lia.
Qed.

Lemma until_depot_nth l :
  (forall i, (S i < length l)%nat -> nth i l O = O -> nth (S i) l O = O) ->
  forall i, (i < length l)%nat -> nth i l O = nth i (until_depot l) O.
Proof.
  induction l as [|x l IH]; intros Habs i Hi; [simpl in Hi; lia|].
  cbn [until_depot]. destruct (Nat.eqb_spec x 0) as [->|Hx].
  - assert (Hz : forall j, (j < length (O :: l))%nat -> nth j (O :: l) O = O).
    { induction j as [|j IHj]; intros Hj; [reflexivity|]. apply Habs; [exact Hj|apply IHj; lia]. }
    rewrite (Hz i Hi). destruct i; reflexivity.
  - destruct i as [|i]; [reflexivity|]. cbn [nth]. apply IH; [|simpl in Hi; lia].
    intros j Hj H0. apply (Habs (S j)); [simpl; lia|exact H0].
Qed.

Lemma concat_filter_nonempty {A} (ls : list (list A)) :
  concat (filter (fun cs => match cs with [] => false | _ => true end) ls) = concat ls.
Proof.
  induction ls as [|l ls IH]; [reflexivity|]. cbn [filter]. destruct l; cbn [concat]; rewrite IH; reflexivity.
Qed.

Lemma sumZ_filter_nonempty {A} (f : list A -> Z) (ls : list (list A)) : f [] = 0 ->
  sumZ (map f (filter (fun cs => match cs with [] => false | _ => true end) ls)) = sumZ (map f ls).
Proof.
  intros H0. induction ls as [|l ls IH]; [reflexivity|]. cbn [filter].
  destruct l; cbn [map]; rewrite ?sumZ_cons, IH; [rewrite H0; lia|reflexivity].
Qed.

Lemma lsum_sumZ {A} (f : A -> Z) (l : list A) : Seq.lsum l f = sumZ (map f l).
Proof. induction l as [|a l IH]; [reflexivity|]. cbn [map]. rewrite Seq_facts.lsum_cons, sumZ_cons, IH. reflexivity. Qed.

Lemma count_occ_concat_map {A} (h : A -> list nat) (k : nat) (l : list A) :
  Seq.lsum l (fun v => Z.of_nat (count_occ Nat.eq_dec (h v) k)) =
  Z.of_nat (count_occ Nat.eq_dec (concat (map h l)) k).
Proof.
  induction l as [|a l IH]; [reflexivity|]. cbn [map concat].
  rewrite Seq_facts.lsum_cons, IH, count_occ_app. lia.
Qed.

Lemma ext_le_mono t t' h : t <= t' -> ext_le (Fin t') h -> ext_le (Fin t) h.
Proof. unfold ext_le. destruct h; [lia|tauto]. Qed.

Lemma chain_of_nth I l :
  (forall s, (S s < length l)%nat -> Seq_facts.is_arc I (nth s l O) (nth (S s) l O)) -> Seq_facts.chain I l.
Proof.
  induction l as [|a l IH]; intros H; [exact Logic.I|].
  destruct l as [|b l]; [exact Logic.I|]. split.
  - apply (H O). simpl; lia.
  - apply IH. intros s Hs. apply (H (S s)). simpl in *; lia.
Qed.

Section Strict.
  Variables (st : pstate) (I : Seq.inst) (W : nat -> nat -> nat).
  Hypothesis Hloop : no_depot_loop st.
  Hypothesis Hview : seq_view_strict st I.
  Hypothesis Hsg : Seq_facts.strict_graph (Seq.ig I).
  Hypothesis Hwin : Seq_facts.windows_ok (Seq.ig I).
  Hypothesis Hcap : capacity_free st.
  Hypothesis Hdep : 0 <= nlo (Path.node_at (pg st) O).
  Hypothesis HL : (2 <= Seq.iL I)%nat.
  Hypothesis HW : Seq.walk_assignment I W.

  Let Hnodes := proj1 Hview.
  Let Hkeys := proj1 (proj2 Hview).
  Let H00 := proj1 (proj2 (proj2 Hview)).
  Let Harcs := proj1 (proj2 (proj2 (proj2 Hview))).
  Let Hvc := proj2 (proj2 (proj2 (proj2 Hview))).

  Notation L := (Seq.iL I).
  Notation V := (Seq.iV I).
  Notation cs := (walk_customers I W).

  Lemma walk_tail_nth v i : (i < L - 1)%nat -> nth i (map (W v) (seq 1 (L - 1))) O = W v (S i).
  Proof.
    intros Hi. rewrite (nth_indep _ O (W v O)) by (rewrite map_length, seq_length; exact Hi).
    rewrite map_nth, seq_nth by exact Hi. reflexivity.
  Qed.

  Lemma walk_padded v s : (v < V)%nat -> (s < L)%nat -> W v s = nth s (O :: cs v) O.
  Proof.
    intros Hv Hs. destruct s as [|s]; [apply (Seq.wa_start I W HW v Hv)|].
    cbn [nth]. unfold walk_customers.
    rewrite <- until_depot_nth; [rewrite walk_tail_nth by lia; reflexivity| |rewrite map_length, seq_length; lia].
    intros i Hi H0. rewrite map_length, seq_length in Hi.
    rewrite walk_tail_nth in * by lia. apply (Seq.wa_absorb I W HW v (S i) Hv); [lia|lia|exact H0].
  Qed.

  Lemma cs_len v : (v < V)%nat -> (length (cs v) + 2 <= L)%nat.
  Proof.
    intros Hv. unfold walk_customers.
    pose proof (until_depot_len (map (W v) (seq 1 (L - 1))) (L - 2)) as H.
    rewrite map_length, seq_length in H. specialize (H ltac:(lia)).
    rewrite walk_tail_nth in H by lia. replace (S (L - 2)) with (L - 1)%nat in H by lia.
    specialize (H (Seq.wa_end I W HW v Hv)). lia.
  Qed.

  Lemma cs_range v c : (v < V)%nat -> In c (cs v) -> (1 <= c < num_nodes st)%nat.
  Proof.
    intros Hv Hc. assert (c <> O) by (intros ->; exact (until_depot_notin0 _ Hc)).
    apply until_depot_incl in Hc. apply in_map_iff in Hc. destruct Hc as (s & <- & Hs). apply in_seq in Hs.
    pose proof (Seq.wa_node I W HW v s Hv ltac:(lia)) as Hn.
    unfold Seq.iN in Hn. rewrite Hnodes in Hn. unfold num_nodes. lia.
  Qed.

  Lemma cs_nth_nonzero v k : (k < length (cs v))%nat -> nth k (cs v) O <> O.
  Proof. intros Hk E. apply (until_depot_notin0 (map (W v) (seq 1 (L - 1)))). fold (cs v). rewrite <- E. apply nth_In; exact Hk. Qed.

  Lemma node_at_view n : Seq.node_at I n = Path.node_at (pg st) n.
  Proof. unfold Seq.node_at, Path.node_at. rewrite Hnodes. reflexivity. Qed.

  (* an arc of the strict object other than the depot loop is an arc of the VRPTW, same data *)
  Lemma strict_arc_data i j : (i, j) <> (O, O) -> Seq.check_arc I (i, j) = true ->
    dict_mem (i, j) (arcs (pg st)) = true /\
    tt_of (pg st) i j = Seq.tt I (i, j) /\ cost_of (pg st) i j = Seq.cost I (i, j).
  Proof.
    intros Hne Hc. unfold Seq.check_arc, dict_mem in Hc.
    destruct (dict_get (i, j) (arcs (Seq.ig I))) as [a|] eqn:Ea; [|discriminate].
    destruct (Harcs i j a Hne Ea) as (a' & Ea' & Et & Ec).
    unfold dict_mem, tt_of, cost_of, Seq.tt, Seq.cost. rewrite Ea, Ea'. auto.
  Qed.

  Lemma strict_stretch v : (v < V)%nat -> forall rest s T,
    (s + length rest < L)%nat ->
    (forall k, (k < length rest)%nat -> nth k rest O = W v (s + 1 + k)) ->
    (forall k, (k < length rest)%nat -> (W v (s + k), W v (s + 1 + k)) <> (O, O)) ->
    T <= Seq.arrival I (W v) s ->
    arcs_exist (pg st) (W v s) rest /\
    Forall2 (fun t j => ext_le (Fin t) (nhi (Path.node_at (pg st) j))) (arrivals (pg st) T (W v s) rest) rest /\
    path_cost (pg st) (W v s) rest = chain_cost (fun i j => Seq.cost I (i, j)) (W v s) rest.
  Proof.
    intros Hv. induction rest as [|j rest IH]; intros s T Hlen Hnth Hpairs HT.
    - split; [exact Logic.I|]. split; [constructor|reflexivity].
    - cbn [length] in *.
      assert (Ej : j = W v (S s)).
      { specialize (Hnth O ltac:(lia)). cbn [nth] in Hnth. rewrite Hnth. f_equal. lia. }
      assert (Hne : (W v s, W v (S s)) <> (O, O)).
      { specialize (Hpairs O ltac:(lia)).
        replace (s + 0)%nat with s in Hpairs by lia. replace (s + 1 + 0)%nat with (S s) in Hpairs by lia. exact Hpairs. }
      pose proof (Seq.wa_arc I W HW v s Hv ltac:(lia)) as Harc.
      destruct (strict_arc_data _ _ Hne Harc) as (Hm & Ett & Ecost).
      set (t' := Z.max (T + tt_of (pg st) (W v s) j) (nlo (Path.node_at (pg st) j))).
      assert (Ht' : t' <= Seq.arrival I (W v) (S s)).
      { unfold t'. cbn [Seq.arrival]. rewrite node_at_view, <- Ett, <- Ej. lia. }
      destruct (IH (S s) t') as (IH1 & IH2 & IH3).
      + lia.
      + intros k Hk. specialize (Hnth (S k) ltac:(lia)). cbn [nth] in Hnth. rewrite Hnth. f_equal. lia.
      + intros k Hk. specialize (Hpairs (S k) ltac:(lia)).
        replace (S s + k)%nat with (s + S k)%nat by lia. replace (S s + 1 + k)%nat with (s + 1 + S k)%nat by lia. exact Hpairs.
      + exact Ht'.
      + rewrite <- Ej in IH1, IH2, IH3. split; [|split].
        * cbn [arcs_exist]. rewrite Ej at 1. split; [exact Hm|exact IH1].
        * cbn [arrivals]. fold t'. constructor; [|exact IH2].
          destruct (Seq_facts.strict_time I W v Hsg Hwin HW Hv (S s) ltac:(lia)) as [_ Hhi].
          rewrite node_at_view, <- Ej in Hhi. eapply ext_le_mono; eauto.
        * cbn [path_cost chain_cost]. rewrite IH3. rewrite Ej at 1 3. rewrite Ecost. reflexivity.
  Qed.

  (* the route of a vehicle that leaves the depot *)
  Lemma cs_route_positions v : (v < V)%nat ->
    (forall k, (k < length (cs v ++ [O]))%nat -> nth k (cs v ++ [O]) O = W v (0 + 1 + k)) /\
    (cs v <> [] -> forall k, (k < length (cs v ++ [O]))%nat -> (W v (0 + k), W v (0 + 1 + k)) <> (O, O)).
  Proof.
    intros Hv. pose proof (cs_len v Hv) as Hlen. split.
    - intros k Hk. rewrite app_length in Hk. simpl in Hk. cbn [Nat.add].
      rewrite (walk_padded v (S k) Hv) by lia. cbn [nth]. apply Seq_facts.nth_app_default.
    - intros Hne k Hk. rewrite app_length in Hk. simpl in Hk. cbn [Nat.add]. intros E. injection E as E1 E2.
      destruct k as [|k].
      + rewrite (walk_padded v 1 Hv) in E2 by lia. cbn [nth] in E2.
        apply (cs_nth_nonzero v O); [destruct (cs v); [congruence|simpl; lia]|exact E2].
      + rewrite (walk_padded v (S k) Hv) in E1 by lia. cbn [nth] in E1.
        apply (cs_nth_nonzero v k); [lia|exact E1].
  Qed.

  Lemma hits_count k : k <> O ->
    Seq.hits I W k = Z.of_nat (count_occ Nat.eq_dec (concat (map cs (seq 0 V))) k).
  Proof.
    intros Hk. unfold Seq.hits. rewrite Seq_facts.zsum_lsum, <- count_occ_concat_map.
    apply Seq_facts.lsum_ext. intros v Hv. apply in_seq in Hv. rewrite Seq_facts.zsum_lsum.
    rewrite (Seq_facts.lsum_ext _ _ (fun s => if Nat.eqb (nth s (O :: cs v) O) k then 1 else 0)).
    - rewrite (Seq_facts.count_nth (O :: cs v) L k Hk) by (pose proof (cs_len v ltac:(lia)); simpl; lia).
      rewrite count_occ_cons_neq by lia. reflexivity.
    - intros s Hs. apply in_seq in Hs. rewrite (walk_padded v s) by lia. reflexivity.
  Qed.

  Lemma all_cs_count k : (count_occ Nat.eq_dec (concat (map cs (seq 0 V))) k <= 1)%nat /\
    ((1 <= k < num_nodes st)%nat -> count_occ Nat.eq_dec (concat (map cs (seq 0 V))) k = 1%nat).
  Proof.
    assert (H1 : (1 <= k < num_nodes st)%nat -> count_occ Nat.eq_dec (concat (map cs (seq 0 V))) k = 1%nat).
    { intros Hk. pose proof (Seq.wa_once I W HW k ltac:(lia)) as Hh.
      unfold Seq.iN in Hh. rewrite Hnodes in Hh. specialize (Hh ltac:(unfold num_nodes in Hk; lia)).
      rewrite hits_count in Hh by lia. lia. }
    split; [|exact H1].
    destruct (in_dec Nat.eq_dec k (concat (map cs (seq 0 V)))) as [Hin|Hout].
    - apply in_concat in Hin. destruct Hin as (l & Hl & Hkl). apply in_map_iff in Hl.
      destruct Hl as (v & <- & Hv). apply in_seq in Hv. rewrite H1; [lia|]. apply (cs_range v k); [lia|exact Hkl].
    - apply (count_occ_not_In Nat.eq_dec) in Hout. lia.
  Qed.

  Lemma interior_wrap (l : list nat) : interior (O :: l ++ [O]) = l.
  Proof. unfold interior. cbn [tl]. apply removelast_last. Qed.

  Lemma cs_valid v : (v < V)%nat -> cs v <> [] -> valid_route st (O :: cs v ++ [O]).
  Proof.
    intros Hv Hne. destruct (cs_route_positions v Hv) as [Hpos Hpairs]. specialize (Hpairs Hne).
    pose proof (cs_len v Hv) as Hlen.
    destruct (strict_stretch v Hv (cs v ++ [O]) O 0) as (Ha & Ht & _).
    { rewrite app_length. simpl. lia. }
    { exact Hpos. } { exact Hpairs. }
    { cbn [Seq.arrival]. rewrite node_at_view, (Seq.wa_start I W HW v Hv). exact Hdep. }
    rewrite (Seq.wa_start I W HW v Hv) in Ha, Ht.
    unfold valid_route. cbn [tl]. rewrite interior_wrap.
    split; [simpl; rewrite app_length; simpl; lia|]. split; [reflexivity|].
    split; [change (O :: cs v ++ [O]) with ((O :: cs v) ++ [O]); apply last_last|].
    assert (Hnd : NoDup (cs v)).
    { apply (NoDup_count_occ Nat.eq_dec). intros x.
      pose proof (proj1 (all_cs_count x)) as Hle.
      assert (Hsub : (count_occ Nat.eq_dec (cs v) x <= count_occ Nat.eq_dec (concat (map cs (seq 0 V))) x)%nat).
      { assert (Hin : In v (seq 0 V)) by (apply in_seq; lia).
        apply in_split in Hin. destruct Hin as (l1 & l2 & E). rewrite E, map_app, concat_app. cbn [map concat].
        rewrite !count_occ_app. lia. }
      lia. }
    split; [exact Hnd|]. split; [apply until_depot_notin0|]. split; [exact Ha|].
    split; [exact Ht|apply Hcap; [exact Hnd|apply until_depot_notin0]].
  Qed.

  Notation nonempty := (fun cs0 : list nat => match cs0 with [] => false | _ => true end).

  Theorem seq_strict_project :
    partition st (walk_routes I W) /\ total_cost st (walk_routes I W) = seq_cost I W.
  Proof.
    set (css := map cs (seq 0 V)).
    assert (Hval : Forall (valid_route st) (walk_routes I W)).
    { unfold walk_routes. apply Forall_forall. intros r Hr. apply in_map_iff in Hr.
      destruct Hr as (l & <- & Hl). apply filter_In in Hl. destruct Hl as [Hl Hne].
      apply in_map_iff in Hl. destruct Hl as (v & <- & Hv). apply in_seq in Hv.
      apply cs_valid; [lia|]. intros E. rewrite E in Hne. discriminate. }
    assert (Hserved : served (walk_routes I W) = concat css).
    { unfold served, walk_routes. rewrite map_map.
      rewrite (map_ext _ (fun l => l)) by (intros l; apply interior_wrap). rewrite map_id.
      apply concat_filter_nonempty. }
    split; [split; [|split]|].
    - unfold walk_routes. apply Seq_facts.NoDup_map_inj.
      + intros a b _ _ E. inversion E as [E1]. apply app_inv_tail in E1. exact E1.
      + apply NoDup_of_concat.
        * rewrite concat_filter_nonempty. apply (NoDup_count_occ Nat.eq_dec). intros x. apply all_cs_count.
        * apply Forall_forall. intros l Hl. apply filter_In in Hl. destruct Hl as [_ Hne]. intros ->. discriminate.
    - exact Hval.
    - intros k Hk. rewrite (visits_count st _ k Hval) by lia. rewrite Hserved. unfold css.
      rewrite (proj2 (all_cs_count k) Hk). reflexivity.
    - assert (H00c : cost_of (pg st) O O = 0).
      { unfold cost_of. rewrite (dict_get_None_of_mem _ _ Hloop). reflexivity. }
      unfold total_cost, walk_routes. rewrite map_map.
      rewrite (sumZ_filter_nonempty (fun l => route_cost (pg st) (O :: l ++ [O])))
        by (cbn [app route_cost path_cost]; rewrite H00c; reflexivity).
      unfold seq_cost. rewrite Seq_facts.zsum_lsum, lsum_sumZ. unfold css. rewrite map_map.
      f_equal. apply map_ext_in. intros v Hv. apply in_seq in Hv.
      assert (Hv' : (v < V)%nat) by lia. pose proof (cs_len v Hv') as Hlen.
      rewrite Seq_facts.zsum_lsum.
      rewrite (Seq_facts.lsum_ext _ _ (fun s => Seq.cost I (nth s (O :: cs v) O, nth (S s) (O :: cs v) O)))
        by (intros s Hs; apply in_seq in Hs; rewrite Hvc, !(walk_padded v) by lia; lia).
      rewrite (walk_cost_sum I H00 (fun i j => Seq.cost I (i, j)) (fun i j => eq_refl) (cs v) O (L - 1)) by lia.
      cbn [route_cost].
      destruct (cs v) as [|c l] eqn:Ecs.
      + cbn [app path_cost chain_cost]. rewrite H00c, (view_cost00 I H00). reflexivity.
      + destruct (cs_route_positions v Hv') as [Hpos Hpairs]. rewrite Ecs in Hpos, Hpairs.
        destruct (strict_stretch v Hv' ((c :: l) ++ [O]) O 0) as (_ & _ & Hc).
        { rewrite app_length. simpl. simpl in Hlen. lia. }
        { exact Hpos. } { apply Hpairs. discriminate. }
        { cbn [Seq.arrival]. rewrite node_at_view, (Seq.wa_start I W HW v Hv'). exact Hdep. }
        rewrite (Seq.wa_start I W HW v Hv') in Hc. exact Hc.
  Qed.

  (* every cost attained by a solution of the strict program is attained by a partition *)
  Theorem seq_strict_walk_partition :
    exists R, partition st R /\ total_cost st R = seq_cost I W.
  Proof. exists (walk_routes I W). exact seq_strict_project. Qed.
End Strict.

(* every cost attained by a solution of the strict 0-1 program is attained by a route partition:
   strict-feasible -> VRPTW-feasible, strict optimum >= VRPTW optimum *)
Theorem seq_strict_ge st I v :
  no_depot_loop st -> seq_view_strict st I ->
  Seq_facts.strict_graph (Seq.ig I) -> Seq_facts.windows_ok (Seq.ig I) ->
  capacity_free st -> 0 <= nlo (Path.node_at (pg st) O) ->
  (1 <= num_nodes st)%nat -> (3 <= Seq.iL I)%nat ->
  (exists x, seq_solution I x v) ->
  exists R, partition st R /\ total_cost st R = v.
Proof.
  intros Hloop Hview Hsg Hwin Hcap Hdep Hn HL (x & Hx).
  destruct Hview as (Hnodes & Hkeys & H00 & Harcs & Hvc).
  destruct (solution_walk st I Hnodes Hkeys H00 x v Hn HL Hx) as (W & HW & Hc).
  exists (walk_routes I W). rewrite <- Hc.
  apply (seq_strict_project st I W Hloop (conj Hnodes (conj Hkeys (conj H00 (conj Harcs Hvc)))) Hsg Hwin Hcap Hdep); [lia|exact HW].
Qed.

(* ====================================================================== *)
(* 5. the strict view checked on concrete objects                          *)
(* ====================================================================== *)
Lemma nodup_keysb_sound l : Seq.nodup_keysb l = true -> NoDup l.
Proof.
  induction l as [|k l IH]; simpl; [constructor|]. intros H. apply andb_true_iff in H. destruct H as [H1 H2].
  constructor; [|apply IH; exact H2]. intros Hin. apply negb_true_iff in H1.
  assert (existsb (natpair_eqb k) l = true); [|congruence].
  apply existsb_exists. exists k. split; [exact Hin|apply natpair_eqb_refl].
Qed.

Lemma dict_get_In' {V} k (d : dict V) v : dict_get k d = Some v -> In (k, v) d.
Proof.
  induction d as [|[k' v'] d IH]; simpl; [discriminate|].
  destruct (natpair_eqb k k') eqn:E; [|auto].
  apply natpair_eqb_eq in E. subst. intros H; inversion H; auto.
Qed.

Theorem seq_view_strict_check st I :
  nodes (Seq.ig I) = nodes (pg st) ->
  Seq.nodup_keysb (map fst (arcs (Seq.ig I))) = true ->
  depot_loop_freeb I = true -> strict_arcs_okb st I = true ->
  (forall v, Seq.vcost I v = 0) -> seq_view_strict st I.
Proof.
  intros Hn Hk H0 Ha Hv. split; [exact Hn|]. split; [apply nodup_keysb_sound; exact Hk|].
  split.
  { unfold depot_loop_freeb in H0. destruct (dict_get (O, O) (arcs (Seq.ig I))) as [a0|]; [|discriminate].
    exists a0. split; [reflexivity|]. apply Z.eqb_eq; exact H0. }
  split; [|exact Hv].
  intros i j a Hne Hget. apply dict_get_In' in Hget.
  unfold strict_arcs_okb in Ha. rewrite forallb_forall in Ha. specialize (Ha _ Hget). cbn [fst snd] in Ha.
  apply orb_true_iff in Ha. destruct Ha as [Ha|Ha]; [apply natpair_eqb_eq in Ha; contradiction|].
  unfold arc_same in Ha. destruct (dict_get (i, j) (arcs (pg st))) as [a'|]; [|discriminate].
  apply andb_true_iff in Ha. destruct Ha as [H1 H2]. apply Z.eqb_eq in H1. apply Z.eqb_eq in H2.
  exists a'. split; [reflexivity|]. split; congruence.
Qed.

(* ====================================================================== *)
(* 6. the default-penalty QUBOs of the sequence-based objects (C04_default_exact) *)
(* ====================================================================== *)
Lemma seq_solution_sys I E x v : Seq.R_entries I = Ok E ->
  (seq_solution I x v <-> (sys_feasible (seq_sys I E) x /\ sys_value (seq_sys I E) x = v)).
Proof.
  intros HE. unfold seq_solution, sys_feasible, sys_value, seq_sys, Zfeasible. cbn [zs_rows zs_cols zs_A zs_b zs_R zs_c zs_Qo].
  split.
  - intros (Hb & (E' & HE' & Hlin & Hq) & Hv). rewrite HE in HE'. inversion HE'; subst E'.
    split; [split; [exact Hb|split; [exact Hlin|exact Hq]]|exact Hv].
  - intros ((Hb & Hlin & Hq) & Hv). split; [exact Hb|]. split; [|exact Hv].
    exists E. split; [exact HE|]. split; [exact Hlin|exact Hq].
Qed.

Lemma seq_R_nonneg I E : R_nonneg (zs_cols (seq_sys I E)) (zs_R (seq_sys I E)).
Proof. intros i j _ _. apply Seq_facts.Rmat_nonneg. Qed.

(* non-strict: a minimiser of the default-penalty QUBO (rho = S + 1, S any bound on the sum of the
   |objective coefficients|) costs at most as much as any route partition *)
Theorem seq_nonstrict_qubo_le st I E S :
  Inv (pg st) -> no_depot_loop st -> seq_view st I ->
  (1 <= num_nodes st)%nat -> (3 <= Seq.iL I)%nat ->
  (num_nodes st - 1 <= Seq.iV I)%nat -> (num_nodes st - 1 + 2 <= Seq.iL I)%nat ->
  Seq.R_entries I = Ok E ->
  coeff_sum (Seq.num_variables I) (Seq.cvec I) (Seq.Qo I) <= S ->
  forall R x, partition st R -> sys_qubo_min (seq_sys I E) S x ->
    sys_qubo_value (seq_sys I E) S x <= total_cost st R /\
    exists W, Seq.walk_assignment I W /\ seq_cost I W = sys_qubo_value (seq_sys I E) S x.
Proof.
  intros HI Hl Hv Hn HL3 HV HL HE HS R x HR Hx.
  destruct (seq_nonstrict_le st I HI Hl Hv (total_cost st R) Hn HL3 HV HL (ex_intro _ R (conj HR eq_refl))) as (x0 & Hx0).
  apply (seq_solution_sys I E x0 _ HE) in Hx0. destruct Hx0 as [Hf0 Hv0].
  destruct (sys_default_exact (seq_sys I E) S (seq_R_nonneg I E) HS (ex_intro _ x0 Hf0)) as [Hsets Hval].
  destruct (proj1 (Hsets x) Hx) as [Hfx Hminx].
  assert (Evx : sys_qubo_value (seq_sys I E) S x = sys_value (seq_sys I E) x) by (apply (Hval x x Hx Hfx Hminx)).
  split; [rewrite Evx, <- Hv0; apply Hminx; exact Hf0|].
  destruct Hv as (Hnodes & Hkeys & H00 & _ & _).
  apply (solution_walk st I Hnodes Hkeys H00 x _ Hn HL3).
  apply (seq_solution_sys I E x _ HE). split; [exact Hfx|symmetry; exact Evx].
Qed.

(* strict: when the strict program is feasible, the minimum of its default-penalty QUBO is the cost of a
   route partition (hence at least the VRPTW optimum) *)
Theorem seq_strict_qubo_ge st I E S :
  no_depot_loop st -> seq_view_strict st I ->
  Seq_facts.strict_graph (Seq.ig I) -> Seq_facts.windows_ok (Seq.ig I) ->
  capacity_free st -> 0 <= nlo (Path.node_at (pg st) O) ->
  (1 <= num_nodes st)%nat -> (3 <= Seq.iL I)%nat ->
  Seq.R_entries I = Ok E ->
  coeff_sum (Seq.num_variables I) (Seq.cvec I) (Seq.Qo I) <= S ->
  (exists z v, seq_solution I z v) ->
  forall x, sys_qubo_min (seq_sys I E) S x ->
    exists R, partition st R /\ total_cost st R = sys_qubo_value (seq_sys I E) S x.
Proof.
  intros Hl Hv Hsg Hw Hc Hd Hn HL HE HS (z & vz & Hz) x Hx.
  apply (seq_solution_sys I E z _ HE) in Hz. destruct Hz as [Hfz _].
  destruct (sys_default_exact (seq_sys I E) S (seq_R_nonneg I E) HS (ex_intro _ z Hfz)) as [Hsets Hval].
  destruct (proj1 (Hsets x) Hx) as [Hfx Hminx].
  assert (Evx : sys_qubo_value (seq_sys I E) S x = sys_value (seq_sys I E) x) by (apply (Hval x x Hx Hfx Hminx)).
  apply (seq_strict_ge st I _ Hl Hv Hsg Hw Hc Hd Hn HL). exists x.
  apply (seq_solution_sys I E x _ HE). split; [exact Hfx|symmetry; exact Evx].
Qed.
