(* PyVrptw_facts.v -- lemmas about the Python vocabulary of PyVrptw.v, used by genprops/C15_gen.v to
   show that the definitions generated from the source equal the hand model Vrptw.v.
   Nothing here depends on the generated file. *)
From Coq Require Import FinFun.
From VQ Require Import Base Vrptw Vrptw_facts PyVrptw.

(* ---------- control ---------- *)
Lemma call_ret {A} (p : M A) : call p (fun s t => ret s t) = p.
Proof. destruct p as [g [v|e]]; reflexivity. Qed.

Lemma call_lift_unit {B} g r (k : graph -> unit -> M B) :
  call (lift_unit g r) k = match r with Ok g' => k g' tt | Err e => (g, Err e) end.
Proof. destruct r; reflexivity. Qed.

(* ---------- lists ---------- *)
Lemma py_getitem_nth {A} (d : A) l i : (i < length l)%nat -> py_getitem l i = Ok (nth i l d).
Proof.
  intros H. unfold py_getitem. destruct (nth_error l i) eqn:E.
  - f_equal. symmetry. eapply nth_error_nth; eauto.
  - apply nth_error_None in E. lia.
Qed.

Lemma py_pop_nth {A} (d : A) l i : (i < length l)%nat -> py_pop l i = Ok (nth i l d, remove_nth i l).
Proof.
  intros H. unfold py_pop. destruct (nth_error l i) eqn:E.
  - do 2 f_equal. symmetry. eapply nth_error_nth; eauto.
  - apply nth_error_None in E. lia.
Qed.

Lemma remove_first_index x l i : index_of x l = Some i -> remove_first x l = Some (remove_nth i l).
Proof.
  revert i; induction l as [|y l IH]; simpl; intros i; [discriminate|].
  destruct (Nat.eqb x y).
  - intros H; inversion H; reflexivity.
  - destruct (index_of x l) as [k|]; simpl; [|discriminate].
    intros H; inversion H; subst; simpl. rewrite (IH k eq_refl). reflexivity.
Qed.

Lemma py_remove_index x l i : index_of x l = Some i -> py_remove x l = Ok (remove_nth i l).
Proof. intros H. unfold py_remove. rewrite (remove_first_index _ _ _ H). reflexivity. Qed.

Lemma py_insert_0 {A} (x : A) l : py_insert 0 x l = x :: l.
Proof. reflexivity. Qed.

Lemma index_of_nth x l i d : index_of x l = Some i -> nth i l d = x.
Proof. intros H. eapply nth_error_nth. apply index_of_Some. exact H. Qed.

(* l.pop(i) on the nodes, l.remove(x) on the names, insert(0, .) on both = move_front *)
Lemma move_front_names nm l i :
  index_of nm l = Some i -> py_insert 0 nm (remove_nth i l) = move_front i O l.
Proof. intros H. unfold move_front. rewrite (index_of_nth _ _ _ O H). reflexivity. Qed.

(* ---------- the arc dict ---------- *)
Lemma dict_set_fresh {V} k (v : V) d : dict_mem k d = false -> dict_set k v d = d ++ [(k, v)].
Proof.
  unfold dict_mem. induction d as [|[k' v'] d IH]; simpl; auto.
  destruct (natpair_eqb k k'); [discriminate|]. intros H. f_equal. auto.
Qed.

Lemma dict_update_app {V} (kvs d : dict V) :
  NoDup (map fst (d ++ kvs)) -> dict_update kvs d = d ++ kvs.
Proof.
  unfold dict_update. revert d; induction kvs as [|[k v] kvs IH]; intros d H; simpl.
  - rewrite app_nil_r. reflexivity.
  - rewrite dict_set_fresh.
    + rewrite IH; rewrite <- app_assoc; [reflexivity | exact H].
    + destruct (dict_mem k d) eqn:E; auto. exfalso.
      apply dict_mem_In in E. rewrite map_app in H. simpl in H.
      apply NoDup_remove_2 in H. apply H. apply in_or_app. left. exact E.
Qed.

Lemma dict_update_clear {V} (kvs : dict V) : NoDup (map fst kvs) -> dict_update kvs dict_clear = kvs.
Proof. intros H. unfold dict_clear. rewrite dict_update_app; auto. Qed.

Lemma rekey_keys_NoDup d (a : dict arc) : NoDup (map fst a) -> NoDup (map fst (rekey d a)).
Proof.
  intros H. unfold rekey. rewrite map_map. simpl.
  assert (E : map (fun x : nat * nat * arc => (new_pos d (fst (fst x)), new_pos d (snd (fst x)))) a
              = map (fun k => (new_pos d (fst k), new_pos d (snd k))) (map fst a)).
  { rewrite map_map. reflexivity. }
  rewrite E. apply FinFun.Injective_map_NoDup; auto.
  intros [x y] [x' y']; simpl. intros H0; inversion H0.
  f_equal; eapply new_pos_inj; eauto.
Qed.

(* the comprehension of set_depot, for any helper that agrees with new_pos *)
Lemma rekey_as_comprehension d (f : nat -> nat) (a : dict arc) :
  (forall p, f p = new_pos d p) ->
  map (fun '((i, j), x) => ((f i, f j), x)) (dict_items a) = rekey d a.
Proof.
  intros Hf. unfold rekey, dict_items. apply map_ext. intros [[i j] x]. simpl. rewrite !Hf. reflexivity.
Qed.

(* ---------- counting loop of estimate_max_vehicles ---------- *)
Definition cnt (p : nat * nat -> bool) (ks : list (nat * nat)) : Z := Z.of_nat (length (filter p ks)).

Lemma fold_counts (f : Z * Z -> nat * nat -> Z * Z) (p q : nat * nat -> bool) :
  (forall a b k, f (a, b) k = (a + (if p k then 1 else 0), b + (if q k then 1 else 0))) ->
  forall ks a b, fold_left f ks (a, b) = (a + cnt p ks, b + cnt q ks).
Proof.
  intros Hf. unfold cnt. induction ks as [|k ks IH]; intros a b; simpl.
  - rewrite !Z.add_0_r. reflexivity.
  - rewrite Hf, IH. destruct (p k), (q k); simpl length; rewrite ?Nat2Z.inj_succ; f_equal; lia.
Qed.

Lemma filter_keys_length {V} (p : nat * nat -> bool) (d : dict V) :
  length (filter p (dict_keys d)) = length (filter (fun kv => p (fst kv)) d).
Proof.
  unfold dict_keys. induction d as [|[k v] d IH]; simpl; auto.
  destruct (p k); simpl; auto.
Qed.

(* ---------- what the graph invariant gives the generated code ---------- *)
Lemma Inv_lengths g : Inv g -> length (names g) = length (nodes g).
Proof. intros H. rewrite (inv_aligned _ H), map_length. reflexivity. Qed.

Lemma set_depot_nonempty g nm g' :
  length (names g) = length (nodes g) -> set_depot g nm = Ok g' -> (0 < length (nodes g'))%nat.
Proof.
  intros Hl. unfold set_depot. destruct (index_of nm (names g)) as [d|] eqn:Ed; [|discriminate].
  apply index_of_lt in Ed. destruct d as [|d]; intros H; inversion H; subst; clear H.
  - lia.
  - unfold move_front. simpl. lia.
Qed.

(* ---------- the re-adding loop of the strict set_depot ---------- *)
(* a for_each loop whose body is (extensionally) "add this arc by the names of its endpoints through an
   add_arc that agrees with add_arc_gen strict" is the hand model's readd_arcs, on a graph in which every
   listed arc names two nodes (then no iteration raises) *)
Lemma for_each_readd strict (body : graph -> arc -> M unit) :
  (forall s a, length (names s) = length (nodes s) ->
     body s a = lift_unit s (match add_arc_gen strict s (aorig a) (adest a) (att a) (acost a) with
                             | Ok (g', _) => Ok g' | Err e => Err e end)) ->
  forall (old : dict arc) g,
    length (names g) = length (nodes g) ->
    (forall kv, In kv old -> In (aorig (snd kv)) (names g) /\ In (adest (snd kv)) (names g)) ->
    for_each body (dict_values old) g = lift_unit g (readd_arcs strict g old).
Proof.
  intros Hb. induction old as [|kv old IH]; intros g Hl Hn; [reflexivity|].
  unfold dict_values in *. cbn [map for_each]. rewrite (Hb g (snd kv) Hl).
  destruct (Hn kv (or_introl eq_refl)) as [Ho Hd].
  unfold readd_arcs. cbn [fold_left].
  destruct (add_arc_gen strict g (aorig (snd kv)) (adest (snd kv)) (att (snd kv)) (acost (snd kv)))
    as [[g1 b]|e] eqn:Ea.
  - cbn [lift_unit call]. destruct (add_arc_gen_frame _ _ _ _ _ _ _ _ Ea) as [En Ed].
    assert (Hn1 : forall kv', In kv' old -> In (aorig (snd kv')) (names g1) /\ In (adest (snd kv')) (names g1)).
    { intros kv' Hin. rewrite En. apply Hn. right; exact Hin. }
    rewrite IH; [|rewrite En, Ed; exact Hl | exact Hn1].
    fold (readd_arcs strict g1 old). destruct (readd_arcs_ok strict g1 old Hn1) as [g2 E2].
    rewrite E2. reflexivity.
  - exfalso. unfold add_arc_gen in Ea.
    apply index_of_In in Ho, Hd. destruct Ho as [i Ei], Hd as [j Ej]. rewrite Ei, Ej in Ea.
    match type of Ea with context [if ?p then Ok _ else Ok _] => destruct p end; discriminate.
Qed.
