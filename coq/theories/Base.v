(* Base.v -- shared definitions for the vrp-as-qubo models.
   Definitions only (plus a few generic list lemmas); no axioms. *)
From Coq Require Export ZArith List Bool Lia PeanoNat.
Export ListNotations.
Open Scope Z_scope.

(* ---------- extended numbers: a finite value or +infinity (np.inf) ---------- *)
Inductive ext := Fin (z : Z) | PInf.

Definition ext_eqb (a b : ext) : bool :=
  match a, b with
  | Fin x, Fin y => x =? y
  | PInf, PInf => true
  | _, _ => false
  end.

(* a <= b *)
Definition ext_leb (a b : ext) : bool :=
  match a, b with
  | _, PInf => true
  | PInf, Fin _ => false
  | Fin x, Fin y => x <=? y
  end.

Definition ext_le (a b : ext) : Prop :=
  match a, b with
  | _, PInf => True
  | PInf, Fin _ => False
  | Fin x, Fin y => x <= y
  end.

Definition ext_add (a : ext) (z : Z) : ext :=
  match a with Fin x => Fin (x + z) | PInf => PInf end.

Lemma ext_leb_le a b : ext_leb a b = true <-> ext_le a b.
Proof.
  destruct a, b; simpl; try tauto; try (split; [discriminate | tauto]).
  apply Z.leb_le.
Qed.

Lemma ext_le_refl a : ext_le a a.
Proof. destruct a; simpl; auto; lia. Qed.

Arguments ext_le : simpl never.

(* ---------- Python exception classes and results ---------- *)
Inductive errcls :=
  ValueError | IndexError | KeyError | AssertionError | AttributeError | TypeError | OtherError.

Definition errcls_eqb (a b : errcls) : bool :=
  match a, b with
  | ValueError, ValueError | IndexError, IndexError | KeyError, KeyError
  | AssertionError, AssertionError | AttributeError, AttributeError
  | TypeError, TypeError | OtherError, OtherError => true
  | _, _ => false
  end.

Inductive result (A : Type) := Ok (a : A) | Err (e : errcls).
Arguments Ok {A} a.
Arguments Err {A} e.

Definition result_eqb {A} (eqb : A -> A -> bool) (x y : result A) : bool :=
  match x, y with
  | Ok a, Ok b => eqb a b
  | Err e, Err f => errcls_eqb e f
  | _, _ => false
  end.

(* ---------- generic boolean equalities used by the correspondence files ---------- *)
Fixpoint list_eqb {A} (eqb : A -> A -> bool) (l m : list A) : bool :=
  match l, m with
  | [], [] => true
  | x :: l', y :: m' => eqb x y && list_eqb eqb l' m'
  | _, _ => false
  end.

Definition option_eqb {A} (eqb : A -> A -> bool) (x y : option A) : bool :=
  match x, y with
  | Some a, Some b => eqb a b
  | None, None => true
  | _, _ => false
  end.

Definition pair_eqb {A B} (ea : A -> A -> bool) (eb : B -> B -> bool) (x y : A * B) : bool :=
  ea (fst x) (fst y) && eb (snd x) (snd y).

Definition natpair_eqb (x y : nat * nat) : bool :=
  Nat.eqb (fst x) (fst y) && Nat.eqb (snd x) (snd y).

Lemma natpair_eqb_eq x y : natpair_eqb x y = true <-> x = y.
Proof.
  destruct x as [a b], y as [c d]; unfold natpair_eqb; simpl.
  rewrite andb_true_iff, !Nat.eqb_eq. split; [intros [-> ->]; auto | intros H; inversion H; auto].
Qed.

Lemma natpair_eqb_refl x : natpair_eqb x x = true.
Proof. apply natpair_eqb_eq; reflexivity. Qed.

Lemma natpair_eqb_neq x y : natpair_eqb x y = false <-> x <> y.
Proof.
  split.
  - intros H E. apply natpair_eqb_eq in E. congruence.
  - intros H. destruct (natpair_eqb x y) eqn:E; auto. apply natpair_eqb_eq in E. contradiction.
Qed.

(* ---------- lists as Python lists ---------- *)
Fixpoint index_of (x : nat) (l : list nat) : option nat :=
  match l with
  | [] => None
  | y :: l' => if Nat.eqb x y then Some O else option_map S (index_of x l')
  end.

Fixpoint memb (x : nat) (l : list nat) : bool :=
  match l with [] => false | y :: l' => Nat.eqb x y || memb x l' end.

Fixpoint remove_nth {A} (n : nat) (l : list A) : list A :=
  match n, l with
  | _, [] => []
  | O, _ :: l' => l'
  | S n', x :: l' => x :: remove_nth n' l'
  end.

(* mismatching field tags: tag t is reported when b is false *)
Definition chk (t : nat) (b : bool) : list nat := if b then [] else [t].

(* number the cases and keep those with a non-empty list of failing tags *)
Fixpoint mismatches_from {C} (f : C -> list nat) (k : nat) (cs : list C) : list (nat * list nat) :=
  match cs with
  | [] => []
  | c :: cs' =>
      match f c with
      | [] => mismatches_from f (S k) cs'
      | ts => (k, ts) :: mismatches_from f (S k) cs'
      end
  end.
Definition mismatches {C} (f : C -> list nat) (cs : list C) := mismatches_from f O cs.

Lemma NoDup_snoc {A} (l : list A) (k : A) : NoDup l -> ~ In k l -> NoDup (l ++ [k]).
Proof.
  induction l as [|x l IH]; simpl; intros H Hn.
  - constructor; [auto | constructor].
  - inversion H; subst. constructor.
    + rewrite in_app_iff; simpl. intros [H1|[H1|[]]]; auto.
    + apply IH; auto.
Qed.

(* ---------- Python dict with insertion order: association list ---------- *)
Section Dict.
  Context {V : Type}.
  Definition dict := list ((nat * nat) * V).

  Fixpoint dict_get (k : nat * nat) (d : dict) : option V :=
    match d with
    | [] => None
    | (k', v) :: d' => if natpair_eqb k k' then Some v else dict_get k d'
    end.

  Definition dict_mem (k : nat * nat) (d : dict) : bool :=
    match dict_get k d with Some _ => true | None => false end.

  (* d[k] = v : overwrite in place when present, append otherwise *)
  Fixpoint dict_set (k : nat * nat) (v : V) (d : dict) : dict :=
    match d with
    | [] => [(k, v)]
    | (k', v') :: d' => if natpair_eqb k k' then (k', v) :: d' else (k', v') :: dict_set k v d'
    end.

  Lemma dict_set_In k v d kv :
    In kv (dict_set k v d) -> kv = (k, v) \/ In kv d.
  Proof.
    induction d as [|[k' v'] d IH]; simpl.
    - intros [<-|[]]; auto.
    - destruct (natpair_eqb k k') eqn:E; simpl.
      + apply natpair_eqb_eq in E; subst. intros [<-|H]; auto.
      + intros [<-|H]; auto. destruct (IH H); auto.
  Qed.

  Lemma dict_set_keys_new k v d :
    dict_mem k d = false -> map fst (dict_set k v d) = map fst d ++ [k].
  Proof.
    unfold dict_mem. induction d as [|[k' v'] d IH]; simpl; auto.
    destruct (natpair_eqb k k') eqn:E; simpl; [discriminate|].
    intros H. f_equal. auto.
  Qed.

  Lemma dict_set_keys_old k v d :
    dict_mem k d = true -> map fst (dict_set k v d) = map fst d.
  Proof.
    unfold dict_mem. induction d as [|[k' v'] d IH]; simpl; [discriminate|].
    destruct (natpair_eqb k k') eqn:E; simpl; auto.
    intros H. f_equal. auto.
  Qed.

  Lemma dict_mem_In k d : dict_mem k d = true <-> In k (map fst d).
  Proof.
    unfold dict_mem. induction d as [|[k' v'] d IH]; simpl.
    - split; [discriminate | tauto].
    - destruct (natpair_eqb k k') eqn:E.
      + apply natpair_eqb_eq in E; subst. split; auto.
      + apply natpair_eqb_neq in E. rewrite IH. split; auto. intros [H|H]; auto. congruence.
  Qed.

  Lemma dict_set_NoDup k v d : NoDup (map fst d) -> NoDup (map fst (dict_set k v d)).
  Proof.
    intros H. destruct (dict_mem k d) eqn:E.
    - rewrite dict_set_keys_old; auto.
    - rewrite dict_set_keys_new; auto.
      apply NoDup_snoc; auto.
      intros Hin. apply dict_mem_In in Hin. congruence.
  Qed.
End Dict.
Arguments dict V : clear implicits.
