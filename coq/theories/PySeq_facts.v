(* PySeq_facts.v -- lemmas that connect the Python combinators (PyEnumCore.v, PySeq.v) and the literal
   enumeration loops (PySeq.enum_literal) with the hand model Seq.v (vars, fixed_items, num_variables,
   var_index).  Nothing here mentions a generated definition; the theorems about coq/gen/SeqGen.v are
   in coq/genprops/C18_seq_gen.v. *)
From Coq Require Import ZifyBool.
From VQ Require Import Base Vrptw Seq Seq_facts PyEnumCore PyEnumCore_facts PySeq.

(* `si == L - 1` on Python integers, computed in Z by the generated code, is Seq.rule's `S s = L` *)
Lemma z_eq_pred1 s L : (Z.of_nat s =? Z.of_nat L - 1)%Z = Nat.eqb (S s) L.
Proof. destruct (Nat.eqb (S s) L) eqn:E; lia. Qed.
Lemma z_eq_pred2 s L : (Z.of_nat s =? Z.of_nat L - 2)%Z = Nat.eqb (S (S s)) L.
Proof. destruct (Nat.eqb (S (S s)) L) eqn:E; lia. Qed.

(* ---------- dict keyed by tuples ---------- *)
Lemma py_tdict_set_fresh {V} (d : tdict V) k v :
  ~ In k (map fst d) -> py_tdict_set d k v = d ++ [(k, v)].
Proof.
  induction d as [|[k' v'] d IH]; simpl; intros H; [reflexivity|].
  destruct (tuple_eqb k k') eqn:E.
  - apply tuple_eqb_eq in E; subst. exfalso; apply H; left; reflexivity.
  - rewrite IH; [reflexivity|]. intros Hin; apply H; right; exact Hin.
Qed.

Lemma combine_app {A B} (l m : list A) (l' m' : list B) :
  length l = length l' -> combine (l ++ m) (l' ++ m') = combine l l' ++ combine m m'.
Proof.
  revert l'; induction l as [|a l IH]; intros [|b l'] H; simpl in *; try discriminate; [reflexivity|].
  rewrite IH by lia. reflexivity.
Qed.

Lemma idx_items_snoc vm t : idx_items (vm ++ [t]) = idx_items vm ++ [(t, Z.of_nat (length vm))].
Proof.
  unfold idx_items. rewrite app_length. simpl length. rewrite Nat.add_1_r, seq_S, map_app. simpl.
  rewrite combine_app by (rewrite map_length, seq_length; reflexivity). reflexivity.
Qed.

Lemma map_fst_combine {A B} (l : list A) (l' : list B) :
  length l = length l' -> map fst (combine l l') = l.
Proof.
  revert l'; induction l as [|a l IH]; intros [|b l'] H; simpl in *; try discriminate; [reflexivity|].
  rewrite IH by lia. reflexivity.
Qed.

Lemma idx_items_keys vm : map fst (idx_items vm) = vm.
Proof. unfold idx_items. apply map_fst_combine. rewrite map_length, seq_length. reflexivity. Qed.

(* reading the inverse array = position in var_mapping *)
Lemma assoc_combine_from t vm : forall a,
  assoc_t t (combine vm (map Z.of_nat (seq a (length vm)))) =
  option_map (fun k => Z.of_nat (a + k)) (find_index t vm).
Proof.
  induction vm as [|u vm IH]; intros a; simpl; [reflexivity|].
  destruct (tuple_eqb t u).
  - simpl. rewrite Nat.add_0_r. reflexivity.
  - rewrite IH. destruct (find_index t vm) as [k|]; simpl; [|reflexivity].
    f_equal. lia.
Qed.

Lemma assoc_idx_items t vm : assoc_t t (idx_items vm) = option_map Z.of_nat (find_index t vm).
Proof.
  unfold idx_items. rewrite assoc_combine_from. destruct (find_index t vm); reflexivity.
Qed.

Lemma py_nd3_get_inverse I v s n :
  py_nd3_get (inverse_of I) (v, s, n) =
  if Nat.ltb v (iV I) && Nat.ltb s (iL I) && Nat.ltb n (iN I)
  then Ok (match var_index I (v, s, n) with Some k => Z.of_nat k | None => -1 end)
  else Err IndexError.
Proof.
  unfold py_nd3_get, inverse_of, nd3_inside, var_index. cbn [nd_shape nd_items nd_fill].
  destruct (_ && _); [|reflexivity]. rewrite assoc_idx_items.
  destruct (find_index (v, s, n) (vars I)); reflexivity.
Qed.

(* ---------- the vehicle loops of one cell ---------- *)
Lemma fix_loop z s n len : forall a vm fx inv k,
  (forall v', In (v', s, n) (map fst fx) -> (v' < a)%nat) ->
  fold_left (fun e v => fix_step z s n v e) (seq a len) (vm, fx, inv, k) =
  (vm, fx ++ map (fun v => ((v, s, n), z)) (seq a len), inv, k).
Proof.
  induction len as [|len IH]; intros a vm fx inv k H; simpl.
  - rewrite app_nil_r. reflexivity.
  - rewrite py_tdict_set_fresh by (intros Hin; apply H in Hin; lia).
    rewrite IH.
    + rewrite <- app_assoc. reflexivity.
    + intros v' Hin. rewrite map_app, in_app_iff in Hin. destruct Hin as [Hin|[Hin|[]]].
      * apply H in Hin. lia.
      * simpl in Hin. inversion Hin. lia.
Qed.

Lemma free_loop I s n len : forall a vm fx,
  (s < iL I)%nat -> (n < iN I)%nat -> (a + len <= iV I)%nat ->
  (forall v', In (v', s, n) vm -> (v' < a)%nat) ->
  fold_left (fun e v => free_step s n v e) (seq a len)
            (vm, fx, mkNd3 (iV I, iL I, iN I) (-1) (idx_items vm), length vm) =
  (vm ++ map (fun v => (v, s, n)) (seq a len), fx,
   mkNd3 (iV I, iL I, iN I) (-1) (idx_items (vm ++ map (fun v => (v, s, n)) (seq a len))),
   length (vm ++ map (fun v => (v, s, n)) (seq a len))).
Proof.
  induction len as [|len IH]; intros a vm fx Hs Hn Ha H; simpl.
  - rewrite app_nil_r. reflexivity.
  - unfold py_nd3_set, nd3_inside. cbn [nd_shape nd_fill nd_items].
    assert (E : Nat.ltb a (iV I) && Nat.ltb s (iL I) && Nat.ltb n (iN I) = true).
    { rewrite !andb_true_iff, !Nat.ltb_lt. lia. }
    rewrite E.
    rewrite py_tdict_set_fresh by (rewrite idx_items_keys; intros Hin; apply H in Hin; lia).
    rewrite <- idx_items_snoc.
    replace (S (length vm)) with (length (vm ++ [(a, s, n)])) by (rewrite app_length; simpl; lia).
    rewrite IH; try assumption; try lia.
    + rewrite <- app_assoc. reflexivity.
    + intros v' Hin. rewrite in_app_iff in Hin. destruct Hin as [Hin|[Hin|[]]].
      * apply H in Hin. lia.
      * inversion Hin. lia.
Qed.

(* ---------- all cells ---------- *)
Definition st_of (I : inst) (pre : list (nat * nat)) : sest :=
  (flat_map (cell_vars I) pre, flat_map (cell_fixed I) pre,
   mkNd3 (iV I, iL I, iN I) (-1) (idx_items (flat_map (cell_vars I) pre)),
   length (flat_map (cell_vars I) pre)).

Lemma in_cell_vars_pre I pre v s n : In (v, s, n) (flat_map (cell_vars I) pre) -> In (s, n) pre.
Proof.
  rewrite in_flat_map. intros ([s' n'] & Hc & Hin). unfold cell_vars in Hin. cbn [fst snd] in Hin.
  destruct (rule I s' n'); [destruct Hin|].
  apply in_map_iff in Hin. destruct Hin as (v' & E & _). inversion E; subst. exact Hc.
Qed.

Lemma in_cell_fixed_pre I pre v s n : In (v, s, n) (map fst (flat_map (cell_fixed I) pre)) -> In (s, n) pre.
Proof.
  rewrite in_map_iff. intros ([k z] & E & Hin). simpl in E. subst k.
  rewrite in_flat_map in Hin. destruct Hin as ([s' n'] & Hc & Hin). unfold cell_fixed in Hin. cbn [fst snd] in Hin.
  destruct (rule I s' n'); [|destruct Hin].
  apply in_map_iff in Hin. destruct Hin as (v' & E & _). inversion E; subst. exact Hc.
Qed.

Lemma flat_map_snoc {A B} (f : A -> list B) l x : flat_map f (l ++ [x]) = flat_map f l ++ f x.
Proof. rewrite flat_map_app. simpl. rewrite app_nil_r. reflexivity. Qed.

Lemma cell_step_spec I pre s n :
  ~ In (s, n) pre -> (s < iL I)%nat -> (n < iN I)%nat ->
  cell_step I (st_of I pre) (s, n) = st_of I (pre ++ [(s, n)]).
Proof.
  intros Hnew Hs Hn. unfold cell_step. cbn [fst snd].
  destruct (rule I s n) as [z|] eqn:Er.
  - assert (Ev : cell_vars I (s, n) = []) by (unfold cell_vars; cbn [fst snd]; rewrite Er; reflexivity).
    assert (Ef : cell_fixed I (s, n) = map (fun v => ((v, s, n), z)) (seq 0 (iV I)))
      by (unfold cell_fixed; cbn [fst snd]; rewrite Er; reflexivity).
    unfold st_of. rewrite !flat_map_snoc, Ev, Ef, !app_nil_r.
    apply fix_loop. intros v' Hin. exfalso. apply Hnew. eapply in_cell_fixed_pre; exact Hin.
  - assert (Ev : cell_vars I (s, n) = map (fun v => (v, s, n)) (seq 0 (iV I)))
      by (unfold cell_vars; cbn [fst snd]; rewrite Er; reflexivity).
    assert (Ef : cell_fixed I (s, n) = []) by (unfold cell_fixed; cbn [fst snd]; rewrite Er; reflexivity).
    unfold st_of. rewrite !flat_map_snoc, Ev, Ef, !app_nil_r.
    apply (free_loop I s n (iV I) 0); try assumption; try lia.
    intros v' Hin. exfalso. apply Hnew. eapply in_cell_vars_pre; exact Hin.
Qed.

Lemma cells_fold I : forall cs pre,
  NoDup (pre ++ cs) -> (forall c, In c cs -> (fst c < iL I)%nat /\ (snd c < iN I)%nat) ->
  fold_left (cell_step I) cs (st_of I pre) = st_of I (pre ++ cs).
Proof.
  induction cs as [|[s n] cs IH]; intros pre Hnd Hr; simpl.
  - rewrite app_nil_r. reflexivity.
  - destruct (Hr (s, n) (or_introl eq_refl)) as [Hs Hn]. cbn [fst snd] in Hs, Hn.
    rewrite cell_step_spec; try assumption.
    + replace (pre ++ (s, n) :: cs) with ((pre ++ [(s, n)]) ++ cs) by (rewrite <- app_assoc; reflexivity).
      apply IH.
      * rewrite <- app_assoc. exact Hnd.
      * intros c Hc. apply Hr. right; exact Hc.
    + apply NoDup_remove_2 in Hnd. intros Hin. apply Hnd. apply in_or_app. left; exact Hin.
Qed.

Lemma fold_left_grid {E} (F : E -> nat * nat -> E) (ss ns : list nat) e :
  fold_left (fun e s => fold_left (fun e n => F e (s, n)) ns e) ss e =
  fold_left F (flat_map (fun s => map (fun n => (s, n)) ns) ss) e.
Proof.
  revert e; induction ss as [|s ss IH]; intros e; simpl; [reflexivity|].
  rewrite fold_left_app, <- IH. f_equal.
  clear. revert e; induction ns as [|n ns IH]; intros e; simpl; [reflexivity | apply IH].
Qed.

(* the literal loops compute the hand model *)
Theorem enum_literal_spec I :
  enum_literal I = (vars I, fixed_items I, inverse_of I, num_variables I).
Proof.
  unfold enum_literal. rewrite (fold_left_grid (cell_step I)).
  change (flat_map (fun s => map (fun n => (s, n)) (seq 0 (iN I))) (seq 0 (iL I))) with (grid I).
  change ([], [], np_neg3 (np_ones3 (iV I, iL I, iN I)), O) with (st_of I []).
  rewrite cells_fold.
  - rewrite num_variables_length. reflexivity.
  - apply NoDup_grid.
  - intros [s n] Hc. apply in_grid in Hc. exact Hc.
Qed.

(* the fixing loops do not touch the counter *)
Lemma fix_fold_count self0 z s n l : forall e,
  snd (seq_lift self0 (fold_left (fun e v => fix_step z s n v e) l e)) = snd (seq_lift self0 e).
Proof.
  induction l as [|v l IH]; intros e; simpl; [reflexivity|].
  rewrite IH. destruct e as [[[vm fx] inv] k]. reflexivity.
Qed.

Lemma seq_lift_eta self0 e : seq_lift self0 e = (fst (seq_lift self0 e), snd (seq_lift self0 e)).
Proof. destruct (seq_lift self0 e); reflexivity. Qed.
