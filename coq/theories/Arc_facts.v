(* Arc_facts.v -- lemmas about the model Arc.v of the arc-based formulation.  [C05, C18] *)
From Coq Require Import Sorting.Sorted Sorting.Permutation ZifyBool.
From VQ Require Import Base Vrptw Vrptw_facts Arc.

(* ====================================================================== *)
(* 1. np.sort                                                              *)
(* ====================================================================== *)
Lemma insertZ_perm x l : Permutation (insertZ x l) (x :: l).
Proof.
  induction l as [|y l IH]; simpl; [reflexivity|].
  destruct (x <=? y); [reflexivity|].
  rewrite IH. apply perm_swap.
Qed.

Lemma sortZ_perm l : Permutation (sortZ l) l.
Proof.
  induction l as [|x l IH]; simpl; [constructor|].
  rewrite insertZ_perm. constructor. exact IH.
Qed.

Lemma sortZ_In l y : In y (sortZ l) <-> In y l.
Proof.
  split; intros H.
  - eapply Permutation_in; [apply sortZ_perm | exact H].
  - eapply Permutation_in; [symmetry; apply sortZ_perm | exact H].
Qed.

Lemma sortZ_NoDup l : NoDup l -> NoDup (sortZ l).
Proof. intros H. eapply Permutation_NoDup; [symmetry; apply sortZ_perm | exact H]. Qed.

Lemma insertZ_sorted x l : StronglySorted Z.le l -> StronglySorted Z.le (insertZ x l).
Proof.
  induction l as [|y l IH]; simpl; intros H.
  - constructor; constructor.
  - inversion H as [|? ? Hs Hf]; subst.
    destruct (x <=? y) eqn:E.
    + constructor; [exact H|].
      constructor; [lia|].
      eapply Forall_impl; [|exact Hf]. simpl. intros; lia.
    + constructor; [apply IH; exact Hs|].
      apply Forall_forall. intros z Hz.
      eapply Permutation_in in Hz; [|apply insertZ_perm].
      destruct Hz as [<-|Hz]; [lia|].
      rewrite Forall_forall in Hf. apply Hf; exact Hz.
Qed.

Lemma sortZ_sorted l : StronglySorted Z.le (sortZ l).
Proof.
  induction l as [|x l IH]; simpl; [constructor|].
  apply insertZ_sorted; exact IH.
Qed.

Lemma tp_sorted I : StronglySorted Z.le (tp I).
Proof. apply sortZ_sorted. Qed.

Lemma tp_In I y : In y (tp I) <-> In y (igrid I).
Proof. apply sortZ_In. Qed.

(* ====================================================================== *)
(* 2. a loop with `continue` below the window and `break` above it, run   *)
(*    over a sorted list, is the loop over the elements inside the window *)
(* ====================================================================== *)
Definition inwin (lo : Z) (hi : ext) (t : Z) : bool := (lo <=? t) && ext_leb (Fin t) hi.

Lemma inwin_iff lo hi t : inwin lo hi t = true <-> lo <= t /\ ext_le (Fin t) hi.
Proof. unfold inwin. rewrite andb_true_iff, Z.leb_le, ext_leb_le. tauto. Qed.

Lemma fold_left_id {A S} (f : S -> A -> S) l st :
  (forall e st', In e l -> f st' e = st') -> fold_left f l st = st.
Proof.
  revert st; induction l as [|e l IH]; simpl; intros st H; [reflexivity|].
  rewrite H by auto. apply IH. intros; apply H; auto.
Qed.

Lemma fold_left_ext_in {A S} (f g : S -> A -> S) l st :
  (forall e st', In e l -> f st' e = g st' e) -> fold_left f l st = fold_left g l st.
Proof.
  revert st; induction l as [|e l IH]; simpl; intros st H; [reflexivity|].
  rewrite H by auto. apply IH. intros; apply H; auto.
Qed.

Lemma above_sorted_tail {A} (key : A -> Z) lo hi e l :
  above (key e) hi = true -> Forall (Z.le (key e)) (map key l) ->
  forall e', In e' l -> inwin lo hi (key e') = false.
Proof.
  intros Ha Hf e' Hin. rewrite Forall_forall in Hf.
  assert (Hle : key e <= key e') by (apply Hf; apply in_map; exact Hin).
  unfold above in Ha. apply negb_true_iff in Ha.
  unfold inwin. apply andb_false_iff. right.
  destruct hi as [h|]; simpl in *; [|discriminate].
  apply Z.leb_gt. apply Z.leb_gt in Ha. lia.
Qed.

Theorem scan_sorted {A S} (key : A -> Z) lo hi (body : A -> S -> S) l st :
  StronglySorted Z.le (map key l) ->
  scan key lo hi body l st =
  fold_left (fun st e => if inwin lo hi (key e) then body e st else st) l st.
Proof.
  revert st; induction l as [|e l IH]; simpl; intros st Hs; [reflexivity|].
  inversion Hs as [|? ? Hs' Hf]; subst.
  destruct (key e <? lo) eqn:E1.
  - assert (E : inwin lo hi (key e) = false).
    { unfold inwin. apply andb_false_iff. left. apply Z.leb_gt. apply Z.ltb_lt in E1. exact E1. }
    rewrite E. apply IH; exact Hs'.
  - destruct (above (key e) hi) eqn:E2.
    + assert (E : inwin lo hi (key e) = false).
      { unfold inwin, above in *. apply negb_true_iff in E2. rewrite E2. apply andb_false_r. }
      rewrite E. symmetry. apply fold_left_id.
      intros e' st' Hin. rewrite (above_sorted_tail key lo hi e l E2 Hf e' Hin). reflexivity.
    + assert (E : inwin lo hi (key e) = true).
      { unfold inwin, above in *. apply negb_false_iff in E2. rewrite E2.
        apply Z.ltb_ge in E1. apply andb_true_iff. split; [apply Z.leb_le; lia | reflexivity]. }
      rewrite E. apply IH; exact Hs'.
Qed.

(* ====================================================================== *)
(* 3. the enumeration is a filter of arcs x grid x grid                    *)
(* ====================================================================== *)
Definition emit (st : estate) (o : list var) : estate := (fst st ++ o, (snd st + length o)%nat).

Lemma emit_nil st : emit st [] = st.
Proof. destruct st as [m n]; unfold emit; simpl. rewrite app_nil_r, Nat.add_0_r. reflexivity. Qed.

Lemma emit_emit st o1 o2 : emit (emit st o1) o2 = emit st (o1 ++ o2).
Proof.
  destruct st as [m n]; unfold emit; simpl.
  rewrite app_assoc, app_length, Nat.add_assoc. reflexivity.
Qed.

Lemma fold_emit {A} (f : A -> list var) l st :
  fold_left (fun st e => emit st (f e)) l st = emit st (flat_map f l).
Proof.
  revert st; induction l as [|e l IH]; simpl; intros st.
  - symmetry; apply emit_nil.
  - rewrite IH, emit_emit. reflexivity.
Qed.

(* what one (s,t) pair contributes *)
Definition out_t (i : nat) (s : Z) (j : nat) (trav lo : Z) (hi : ext) (t : Z) : list var :=
  if inwin lo hi t && (s + trav <=? t) then [(i, s, j, t)] else [].

Definition out_s (g : graph) (tps : list Z) (i j : nat) (s : Z) : list var :=
  if inwin (win_lo g i) (win_hi g i) s
  then flat_map (out_t i s j (att (arc_at g i j)) (win_lo g j) (win_hi g j)) tps
  else [].

Definition out_arc (g : graph) (tps : list Z) (k : nat * nat) : list var :=
  flat_map (out_s g tps (fst k) (snd k)) tps.

Definition vars_spec (I : inst) : list var :=
  flat_map (fun kv : (nat * nat) * arc => out_arc (ig I) (tp I) (fst kv)) (arcs (ig I)).

Lemma enum_t_emit i s j trav t st :
  enum_t i s j trav t st = emit st (if s + trav <=? t then [(i, s, j, t)] else []).
Proof.
  unfold enum_t. destruct (s + trav >? t) eqn:E.
  - assert (E' : (s + trav <=? t) = false) by lia. rewrite E'. symmetry; apply emit_nil.
  - assert (E' : (s + trav <=? t) = true) by lia. rewrite E'.
    unfold emit; simpl. rewrite Nat.add_1_r. reflexivity.
Qed.

Lemma enum_s_emit g tps i j s st :
  StronglySorted Z.le tps ->
  enum_s g tps i j s st =
  emit st (flat_map (out_t i s j (att (arc_at g i j)) (win_lo g j) (win_hi g j)) tps).
Proof.
  intros Hs. unfold enum_s. rewrite scan_sorted by (rewrite map_id; exact Hs).
  rewrite <- fold_emit. apply fold_left_ext_in. intros t st' _.
  unfold out_t. destruct (inwin _ _ t); simpl.
  - apply enum_t_emit.
  - symmetry; apply emit_nil.
Qed.

Lemma enum_arc_emit g tps k st :
  StronglySorted Z.le tps -> enum_arc g tps k st = emit st (out_arc g tps k).
Proof.
  intros Hs. unfold enum_arc, out_arc. rewrite scan_sorted by (rewrite map_id; exact Hs).
  rewrite <- fold_emit. apply fold_left_ext_in. intros s st' _.
  unfold out_s. destruct (inwin _ _ s).
  - apply enum_s_emit; exact Hs.
  - symmetry; apply emit_nil.
Qed.

Theorem enumerate_spec I : enumerate I = (vars_spec I, length (vars_spec I)).
Proof.
  unfold enumerate, vars_spec.
  rewrite (fold_left_ext_in _ (fun st kv => emit st (out_arc (ig I) (tp I) (fst kv)))).
  - rewrite fold_emit. reflexivity.
  - intros kv st _. apply enum_arc_emit. apply tp_sorted.
Qed.

Lemma vars_eq_spec I : vars I = vars_spec I.
Proof. unfold vars. rewrite enumerate_spec. reflexivity. Qed.

(* holds for every instance: the grid stored by add_time_points is always sorted *)
Theorem num_variables_length I : num_variables I = length (vars I).
Proof. unfold num_variables, vars. rewrite enumerate_spec. reflexivity. Qed.

(* ====================================================================== *)
(* 4. admissible tuples                                                    *)
(* ====================================================================== *)
Definition valid_move (I : inst) (v : var) : Prop :=
  match v with
  | (i, s, j, t) =>
      exists a, dict_get (i, j) (arcs (ig I)) = Some a /\
                In s (igrid I) /\ In t (igrid I) /\
                win_lo (ig I) i <= s /\ ext_le (Fin s) (win_hi (ig I) i) /\
                win_lo (ig I) j <= t /\ ext_le (Fin t) (win_hi (ig I) j) /\
                s + att a <= t
  end.

Lemma dict_get_In {V} k (d : dict V) v : dict_get k d = Some v -> In (k, v) d.
Proof.
  induction d as [|[k' v'] d IH]; simpl; [discriminate|].
  destruct (natpair_eqb k k') eqn:E.
  - apply natpair_eqb_eq in E; subst. intros H; inversion H; auto.
  - intros H; right; auto.
Qed.

Lemma In_dict_get {V} k (d : dict V) v : In (k, v) d -> exists v', dict_get k d = Some v'.
Proof.
  induction d as [|[k' v'] d IH]; simpl; [tauto|].
  destruct (natpair_eqb k k') eqn:E; [eauto|].
  intros [H|H]; [|auto]. inversion H; subst. rewrite natpair_eqb_refl in E. discriminate.
Qed.

Lemma In_dict_get_NoDup {V} k (d : dict V) v :
  NoDup (map fst d) -> In (k, v) d -> dict_get k d = Some v.
Proof.
  induction d as [|[k' v'] d IH]; simpl; [tauto|].
  intros Hnd Hin. inversion Hnd as [|? ? Hn Hnd']; subst.
  destruct (natpair_eqb k k') eqn:E.
  - apply natpair_eqb_eq in E; subst.
    destruct Hin as [H|H]; [inversion H; reflexivity|].
    exfalso. apply Hn. change k' with (fst (k', v)). apply in_map; exact H.
  - destruct Hin as [H|H]; [|auto].
    inversion H; subst. rewrite natpair_eqb_refl in E. discriminate.
Qed.

Lemma in_out_t i s j trav lo hi t v :
  In v (out_t i s j trav lo hi t) <-> v = (i, s, j, t) /\ inwin lo hi t = true /\ s + trav <= t.
Proof.
  unfold out_t. destruct (inwin lo hi t) eqn:E1; simpl.
  - destruct (s + trav <=? t) eqn:E2; simpl.
    + split; [intros [<-|[]]; repeat split; auto; lia | intros (-> & _); auto].
    + split; [tauto | intros (_ & _ & H); lia].
  - split; [tauto | intros (_ & H & _); discriminate].
Qed.

Lemma in_out_s g tps i j s v :
  In v (out_s g tps i j s) <->
  exists t, v = (i, s, j, t) /\ In t tps /\
            inwin (win_lo g i) (win_hi g i) s = true /\ inwin (win_lo g j) (win_hi g j) t = true /\
            s + att (arc_at g i j) <= t.
Proof.
  unfold out_s. destruct (inwin (win_lo g i) (win_hi g i) s) eqn:E.
  - rewrite in_flat_map. split.
    + intros (t & Ht & Hv). apply in_out_t in Hv. destruct Hv as (-> & Hw & Hl). exists t; auto.
    + intros (t & -> & Ht & _ & Hw & Hl). exists t; split; auto. apply in_out_t; auto.
  - split; [intros [] | intros (t & _ & _ & H & _); discriminate].
Qed.

Lemma in_out_arc g tps k v :
  In v (out_arc g tps k) <->
  exists s t, v = (fst k, s, snd k, t) /\ In s tps /\ In t tps /\
              inwin (win_lo g (fst k)) (win_hi g (fst k)) s = true /\
              inwin (win_lo g (snd k)) (win_hi g (snd k)) t = true /\
              s + att (arc_at g (fst k) (snd k)) <= t.
Proof.
  unfold out_arc. rewrite in_flat_map. split.
  - intros (s & Hs & Hv). apply in_out_s in Hv. destruct Hv as (t & -> & Ht & H1 & H2 & H3).
    exists s, t; auto 10.
  - intros (s & t & -> & Hs & Ht & H1 & H2 & H3). exists s; split; auto.
    apply in_out_s. exists t; auto 10.
Qed.

Theorem vars_exact I v : In v (vars I) <-> valid_move I v.
Proof.
  rewrite vars_eq_spec. unfold vars_spec. rewrite in_flat_map.
  destruct v as [[[i s] j] t]. simpl. split.
  - intros ([k a0] & Hin & Hv). apply in_out_arc in Hv. simpl in Hv.
    destruct Hv as (s' & t' & E & Hs & Ht & H1 & H2 & H3).
    inversion E; subst; clear E. destruct k as [i j]; simpl in *.
    destruct (In_dict_get _ _ _ Hin) as [a Ha].
    exists a. unfold arc_at in H3. rewrite Ha in H3.
    apply inwin_iff in H1, H2. rewrite tp_In in Hs, Ht. tauto.
  - intros (a & Ha & Hs & Ht & H1 & H2 & H3 & H4 & H5).
    exists ((i, j), a). split; [apply dict_get_In; exact Ha|].
    apply in_out_arc. simpl. exists s, t.
    unfold arc_at. rewrite Ha. rewrite !tp_In.
    repeat split; auto; apply inwin_iff; auto.
Qed.

(* ====================================================================== *)
(* 5. no tuple is enumerated twice                                         *)
(* ====================================================================== *)
Lemma NoDup_flat_map_tag {A B C} (f : A -> list B) (g : A -> C) (tag : B -> C) l :
  NoDup (map g l) ->
  (forall x, In x l -> NoDup (f x)) ->
  (forall x v, In x l -> In v (f x) -> tag v = g x) ->
  NoDup (flat_map f l).
Proof.
  induction l as [|x l IH]; simpl; intros Hnd Hf Ht; [constructor|].
  inversion Hnd as [|? ? Hn Hnd']; subst.
  assert (Hrest : NoDup (flat_map f l)) by (apply IH; auto).
  assert (Hx : NoDup (f x)) by (apply Hf; auto).
  assert (Hdis : forall v, In v (f x) -> ~ In v (flat_map f l)).
  { intros v Hv Hin. apply in_flat_map in Hin. destruct Hin as (y & Hy & Hvy).
    apply Hn. rewrite <- (Ht x v) by auto. rewrite (Ht y v) by auto. apply in_map; exact Hy. }
  clear - Hrest Hx Hdis. induction (f x) as [|b m IHm]; simpl; [exact Hrest|].
  inversion Hx; subst. constructor.
  - rewrite in_app_iff. intros [H|H]; [contradiction|]. eapply Hdis; [left; reflexivity | exact H].
  - apply IHm; auto. intros v Hv. apply Hdis. right; exact Hv.
Qed.

Lemma NoDup_out_t i s j trav lo hi t : NoDup (out_t i s j trav lo hi t).
Proof.
  unfold out_t. destruct (_ && _); constructor; [intros [] | constructor].
Qed.

Lemma NoDup_out_s g tps i j s : NoDup tps -> NoDup (out_s g tps i j s).
Proof.
  intros Hnd. unfold out_s. destruct (inwin _ _ s); [|constructor].
  apply (NoDup_flat_map_tag _ (fun t => t) arr).
  - rewrite map_id; exact Hnd.
  - intros; apply NoDup_out_t.
  - intros t v _ Hv. apply in_out_t in Hv. destruct Hv as (-> & _). reflexivity.
Qed.

Lemma NoDup_out_arc g tps k : NoDup tps -> NoDup (out_arc g tps k).
Proof.
  intros Hnd. unfold out_arc. apply (NoDup_flat_map_tag _ (fun s => s) dep).
  - rewrite map_id; exact Hnd.
  - intros; apply NoDup_out_s; exact Hnd.
  - intros s v _ Hv. apply in_out_s in Hv. destruct Hv as (t & -> & _). reflexivity.
Qed.

Theorem vars_NoDup I :
  NoDup (igrid I) -> NoDup (map fst (arcs (ig I))) -> NoDup (vars I).
Proof.
  intros Hg Hk. rewrite vars_eq_spec. unfold vars_spec.
  apply (NoDup_flat_map_tag _ fst (fun v => (onode v, dnode v))).
  - exact Hk.
  - intros; apply NoDup_out_arc. apply sortZ_NoDup; exact Hg.
  - intros [k a] v _ Hv. apply in_out_arc in Hv. destruct Hv as (s & t & -> & _).
    destruct k; reflexivity.
Qed.

(* ====================================================================== *)
(* 6. list.index and indexing                                              *)
(* ====================================================================== *)
Lemma var_eqb_eq a b : var_eqb a b = true <-> a = b.
Proof.
  destruct a as [[[i s] j] t], b as [[[i' s'] j'] t']; unfold var_eqb.
  rewrite !andb_true_iff, !Nat.eqb_eq, !Z.eqb_eq.
  split; [intros [[[-> ->] ->] ->]; reflexivity | intros H; inversion H; auto].
Qed.

Lemma nt_eqb_eq a b : nt_eqb a b = true <-> a = b.
Proof.
  destruct a as [i s], b as [i' s']; unfold nt_eqb; simpl.
  rewrite andb_true_iff, Nat.eqb_eq, Z.eqb_eq.
  split; [intros [-> ->]; reflexivity | intros H; inversion H; auto].
Qed.

Section FindIndex.
  Context {A : Type} (eqb : A -> A -> bool).
  Hypothesis eqb_eq : forall a b, eqb a b = true <-> a = b.

  Lemma find_index_Some x l k : find_index eqb x l = Some k -> nth_error l k = Some x.
  Proof.
    revert k; induction l as [|y l IH]; simpl; intros k; [discriminate|].
    destruct (eqb x y) eqn:E.
    - apply eqb_eq in E; subst. intros H; inversion H; reflexivity.
    - destruct (find_index eqb x l) as [m|]; simpl; [|discriminate].
      intros H; inversion H; subst; simpl. apply IH; reflexivity.
  Qed.

  Lemma find_index_In x l : In x l -> exists k, find_index eqb x l = Some k.
  Proof.
    induction l as [|y l IH]; simpl; [tauto|].
    destruct (eqb x y) eqn:E; [eauto|].
    intros [H|H].
    - subst. assert (eqb x x = true) by (apply eqb_eq; reflexivity). congruence.
    - destruct (IH H) as [k ->]; simpl; eauto.
  Qed.

  Lemma find_index_None x l : ~ In x l -> find_index eqb x l = None.
  Proof.
    induction l as [|y l IH]; simpl; auto.
    intros H. destruct (eqb x y) eqn:E.
    - apply eqb_eq in E; subst. exfalso; auto.
    - rewrite IH; auto.
  Qed.

  Lemma find_index_nth x l k :
    NoDup l -> nth_error l k = Some x -> find_index eqb x l = Some k.
  Proof.
    revert k; induction l as [|y l IH]; intros k Hnd Hk; [destruct k; discriminate|].
    inversion Hnd as [|? ? Hn Hnd']; subst. simpl.
    destruct k as [|k]; simpl in Hk.
    - inversion Hk; subst. assert (E : eqb x x = true) by (apply eqb_eq; reflexivity).
      rewrite E. reflexivity.
    - destruct (eqb x y) eqn:E.
      + apply eqb_eq in E; subst. exfalso. apply Hn. eapply nth_error_In; eauto.
      + rewrite (IH k Hnd' Hk). reflexivity.
  Qed.

  Lemma find_index_lt x l k : find_index eqb x l = Some k -> (k < length l)%nat.
  Proof. intros H. apply find_index_Some in H. apply nth_error_Some. congruence. Qed.
End FindIndex.

(* the four inverse laws *)
Theorem index_of_admissible I v :
  valid_move I v -> exists k, get_var_index I v = Some k /\ get_var_tuple_index I k = Some v /\
                              (k < num_variables I)%nat.
Proof.
  intros Hv. apply vars_exact in Hv.
  destruct (find_index_In var_eqb var_eqb_eq v (vars I) Hv) as [k Hk].
  exists k. unfold get_var_index, get_var_tuple_index. split; [exact Hk|]. split.
  - eapply find_index_Some; [apply var_eqb_eq | exact Hk].
  - rewrite num_variables_length. eapply find_index_lt; [apply var_eqb_eq | exact Hk].
Qed.

Theorem tuple_of_index I k :
  NoDup (igrid I) -> NoDup (map fst (arcs (ig I))) -> (k < num_variables I)%nat ->
  exists v, get_var_tuple_index I k = Some v /\ get_var_index I v = Some k /\ valid_move I v.
Proof.
  intros Hg Hk Hlt. rewrite num_variables_length in Hlt. unfold get_var_tuple_index, get_var_index.
  destruct (nth_error (vars I) k) as [v|] eqn:E; [|apply nth_error_None in E; lia].
  exists v. split; [reflexivity|]. split.
  - apply find_index_nth; [apply var_eqb_eq | apply vars_NoDup; auto | exact E].
  - apply vars_exact. eapply nth_error_In; eauto.
Qed.

Theorem index_of_inadmissible I v : ~ valid_move I v -> get_var_index I v = None.
Proof.
  intros Hv. unfold get_var_index. apply find_index_None; [apply var_eqb_eq|].
  intros H. apply Hv. apply vars_exact; exact H.
Qed.

Theorem tuple_beyond I k : (num_variables I <= k)%nat -> get_var_tuple_index I k = None.
Proof.
  intros H. unfold get_var_tuple_index. apply nth_error_None. rewrite <- num_variables_length. exact H.
Qed.

(* well-formed graphs: what Vrptw_facts.Inv gives *)
Definition wf_graph (g : graph) : Prop :=
  NoDup (map fst (arcs g)) /\
  forall k a, In (k, a) (arcs g) -> (fst k < length (nodes g))%nat /\ (snd k < length (nodes g))%nat.

Lemma Inv_wf g : Inv g -> wf_graph g.
Proof.
  intros [H1 H2 H3 H4 H5]. split; [exact H4|].
  intros k a Hin. destruct (H5 k a Hin) as (no & nd & A & B & _).
  split; eapply nth_error_lt; eauto.
Qed.

(* ====================================================================== *)
(* 7. finite sums over lists                                               *)
(* ====================================================================== *)
Lemma sumz_app l m : sumz (l ++ m) = sumz l + sumz m.
Proof. induction l as [|x l IH]; simpl; [reflexivity|]. rewrite IH. ring. Qed.

Lemma sumz_map_ext_in {A} (f g : A -> Z) l :
  (forall e, In e l -> f e = g e) -> sumz (map f l) = sumz (map g l).
Proof.
  induction l as [|e l IH]; simpl; intros H; [reflexivity|].
  rewrite H by auto. rewrite IH; [reflexivity|]. intros; apply H; auto.
Qed.

Lemma sumz_map_add {A} (f g : A -> Z) l :
  sumz (map (fun e => f e + g e) l) = sumz (map f l) + sumz (map g l).
Proof. induction l as [|e l IH]; simpl; [reflexivity|]. rewrite IH. ring. Qed.

Lemma sumz_map_sub {A} (f g : A -> Z) l :
  sumz (map (fun e => f e - g e) l) = sumz (map f l) - sumz (map g l).
Proof. induction l as [|e l IH]; simpl; [reflexivity|]. rewrite IH. ring. Qed.

Lemma sumz_map_zero {A} (l : list A) : sumz (map (fun _ => 0) l) = 0.
Proof. induction l as [|e l IH]; simpl; [reflexivity|]. rewrite IH. reflexivity. Qed.

Lemma sumz_flat_map {A B} (f : A -> list B) (h : B -> Z) l :
  sumz (map h (flat_map f l)) = sumz (map (fun e => sumz (map h (f e))) l).
Proof.
  induction l as [|e l IH]; simpl; [reflexivity|].
  rewrite map_app, sumz_app, IH. reflexivity.
Qed.

Lemma sumz_delta_out (c : nat) (f : nat -> Z) l :
  ~ In c l -> sumz (map (fun k => if Nat.eqb c k then f k else 0) l) = 0.
Proof.
  induction l as [|k l IH]; simpl; intros H; [reflexivity|].
  destruct (Nat.eqb_spec c k) as [->|Hne]; [exfalso; auto|].
  rewrite IH by tauto. reflexivity.
Qed.

Lemma sumz_delta (c : nat) (f : nat -> Z) l :
  NoDup l -> In c l -> sumz (map (fun k => if Nat.eqb c k then f k else 0) l) = f c.
Proof.
  induction l as [|k l IH]; simpl; intros Hnd Hin; [tauto|].
  inversion Hnd as [|? ? Hn Hnd']; subst.
  destruct (Nat.eqb_spec c k) as [->|Hne].
  - rewrite sumz_delta_out by exact Hn. ring.
  - destruct Hin as [H|H]; [congruence|]. rewrite IH by auto. ring.
Qed.

Lemma nth_map_seq {B} (F : nat -> B) m r d : (r < m)%nat -> nth r (map F (seq 0 m)) d = F r.
Proof.
  intros H. rewrite (nth_indep _ d (F 0%nat)) by (rewrite map_length, seq_length; exact H).
  rewrite map_nth. rewrite seq_nth by exact H. reflexivity.
Qed.

(* ====================================================================== *)
(* 8. the flow rows are the (customer, grid time inside its window) pairs  *)
(* ====================================================================== *)
Definition cemit (st : cstate) (o : list (nt * cname)) : cstate :=
  (c_fcm st ++ map fst o, c_brhs st ++ map (fun _ => 0) o, c_names st ++ map snd o,
   (c_row st + length o)%nat).

Lemma cemit_nil st : cemit st [] = st.
Proof.
  destruct st as [[[a b] c] d]; unfold cemit, c_fcm, c_brhs, c_names, c_row; simpl.
  rewrite !app_nil_r, Nat.add_0_r. reflexivity.
Qed.

Lemma cemit_cemit st o1 o2 : cemit (cemit st o1) o2 = cemit st (o1 ++ o2).
Proof.
  destruct st as [[[a b] c] d]; unfold cemit, c_fcm, c_brhs, c_names, c_row; simpl.
  rewrite !map_app, !app_assoc, app_length, Nat.add_assoc. reflexivity.
Qed.

Lemma fold_cemit {A} (f : A -> list (nt * cname)) l st :
  fold_left (fun st e => cemit st (f e)) l st = cemit st (flat_map f l).
Proof.
  revert st; induction l as [|e l IH]; simpl; intros st.
  - symmetry; apply cemit_nil.
  - rewrite IH, cemit_cemit. reflexivity.
Qed.

Definition flow_out (g : graph) (i : nat) (p : nat * Z) : list (nt * cname) :=
  if inwin (win_lo g i) (win_hi g i) (snd p) then [((i, snd p), CFlow i (fst p))] else [].

Definition flow_spec (g : graph) (tps : list Z) : list (nt * cname) :=
  flat_map (fun i => flat_map (flow_out g i) (enumerate_list tps)) (seq 1 (length (nodes g) - 1)).

Lemma map_snd_combine_seq {A} (l : list A) a : map snd (combine (seq a (length l)) l) = l.
Proof. revert a; induction l as [|x l IH]; simpl; intros a; [reflexivity|]. rewrite IH. reflexivity. Qed.

Lemma map_snd_enumerate_list {A} (l : list A) : map snd (enumerate_list l) = l.
Proof. apply map_snd_combine_seq. Qed.

Theorem flow_rows_spec g tps :
  StronglySorted Z.le tps -> flow_rows g tps = cemit ([], [], [], O) (flow_spec g tps).
Proof.
  intros Hs. unfold flow_rows, flow_spec. rewrite <- fold_cemit.
  apply fold_left_ext_in. intros i st _.
  rewrite scan_sorted by (rewrite map_snd_enumerate_list; exact Hs).
  rewrite <- fold_cemit. apply fold_left_ext_in. intros p st' _.
  unfold flow_out. destruct (inwin _ _ (snd p)).
  - unfold flow_body, cemit; simpl. rewrite Nat.add_1_r. reflexivity.
  - symmetry; apply cemit_nil.
Qed.

Lemma fcm_spec I : fcm I = map fst (flow_spec (ig I) (tp I)).
Proof. unfold fcm. rewrite flow_rows_spec by apply tp_sorted. reflexivity. Qed.

Lemma c_row_spec I : c_row (flow_rows (ig I) (tp I)) = length (fcm I).
Proof.
  rewrite fcm_spec, flow_rows_spec by apply tp_sorted.
  unfold cemit, c_row; simpl. rewrite map_length. reflexivity.
Qed.

Lemma c_brhs_spec I : c_brhs (flow_rows (ig I) (tp I)) = map (fun _ => 0) (fcm I).
Proof.
  rewrite fcm_spec, flow_rows_spec by apply tp_sorted.
  unfold cemit, c_brhs; simpl. rewrite map_map. reflexivity.
Qed.

Lemma map_flat_map {A B C} (h : B -> C) (f : A -> list B) l :
  map h (flat_map f l) = flat_map (fun x => map h (f x)) l.
Proof. induction l as [|x l IH]; simpl; [reflexivity|]. rewrite map_app, IH. reflexivity. Qed.

Lemma in_fcm I i s :
  In (i, s) (fcm I) <->
  (1 <= i < length (nodes (ig I)))%nat /\ In s (tp I) /\ inwin (win_lo (ig I) i) (win_hi (ig I) i) s = true.
Proof.
  rewrite fcm_spec. unfold flow_spec. rewrite in_map_iff. split.
  - intros ([q c] & E & Hin). simpl in E; subst q. apply in_flat_map in Hin.
    destruct Hin as (i' & Hi & Hin). apply in_flat_map in Hin. destruct Hin as (p & Hp & Hin).
    unfold flow_out in Hin. destruct (inwin _ _ (snd p)) eqn:Ew; [|destruct Hin].
    destruct Hin as [E|[]]. inversion E; subst; clear E.
    apply in_seq in Hi. split; [lia|]. split; [|exact Ew].
    rewrite <- (map_snd_enumerate_list (tp I)). apply in_map; exact Hp.
  - intros (Hi & Hs & Hw). rewrite <- (map_snd_enumerate_list (tp I)) in Hs.
    apply in_map_iff in Hs. destruct Hs as (p & <- & Hp).
    exists ((i, snd p), CFlow i (fst p)). split; [reflexivity|].
    apply in_flat_map. exists i. split; [apply in_seq; lia|].
    apply in_flat_map. exists p. split; [exact Hp|].
    unfold flow_out. rewrite Hw. left; reflexivity.
Qed.

Lemma fcm_NoDup I : NoDup (igrid I) -> NoDup (fcm I).
Proof.
  intros Hg. rewrite fcm_spec. unfold flow_spec. rewrite map_flat_map.
  apply (NoDup_flat_map_tag _ (fun i => i) fst).
  - rewrite map_id. apply seq_NoDup.
  - intros i _. rewrite map_flat_map. apply (NoDup_flat_map_tag _ snd snd).
    + rewrite map_snd_enumerate_list. apply sortZ_NoDup; exact Hg.
    + intros p _. unfold flow_out. destruct (inwin _ _ _); simpl; constructor; [intros []|constructor].
    + intros p q _ Hq. unfold flow_out in Hq. destruct (inwin _ _ _); simpl in Hq; [|destruct Hq].
      destruct Hq as [<-|[]]. reflexivity.
  - intros i q _ Hq. cbv beta in Hq. apply in_map_iff in Hq.
    destruct Hq as ([q' c] & <- & Hq). apply in_flat_map in Hq. destruct Hq as (p & _ & Hq).
    unfold flow_out in Hq. destruct (inwin _ _ _); [|destruct Hq].
    destruct Hq as [E|[]]. inversion E; reflexivity.
Qed.

Lemma rhs_spec I : rhs I = map (fun _ => 0) (fcm I) ++ repeat 1 (length (nodes (ig I)) - 1).
Proof. unfold rhs. rewrite c_brhs_spec. reflexivity. Qed.

Lemma rhs_length I : length (rhs I) = (length (fcm I) + (length (nodes (ig I)) - 1))%nat.
Proof. rewrite rhs_spec, app_length, map_length, repeat_length. reflexivity. Qed.

Lemma nth_map_const0 {A} (l : list A) r : nth r (map (fun _ => 0) l) 0 = 0.
Proof. revert r; induction l as [|e l IH]; intros [|r]; simpl; auto. Qed.

Lemma rhs_flow I r : (r < length (fcm I))%nat -> nth r (rhs I) 0 = 0.
Proof.
  intros H. rewrite rhs_spec, app_nth1 by (rewrite map_length; exact H).
  apply nth_map_const0.
Qed.

Lemma rhs_visit I k : (k < length (nodes (ig I)) - 1)%nat -> nth (length (fcm I) + k) (rhs I) 0 = 1.
Proof.
  intros H. rewrite rhs_spec, app_nth2 by (rewrite map_length; lia).
  rewrite map_length. replace (length (fcm I) + k - length (fcm I))%nat with k by lia.
  rewrite (nth_indep _ 0 1) by (rewrite repeat_length; exact H).
  apply nth_repeat.
Qed.

(* ====================================================================== *)
(* 9. row sums of the dense matrix                                         *)
(* ====================================================================== *)
Definition tval (tr : trip) : Z := fst (fst tr).
Definition trow (tr : trip) : nat := snd (fst tr).
Definition tcol (tr : trip) : nat := snd tr.

Definition rowsum (T : list trip) (r : nat) (x : list Z) : Z :=
  sumz (map (fun tr => if Nat.eqb (trow tr) r then tval tr * nth (tcol tr) x 0 else 0) T).

Lemma rowsum_app T1 T2 r x : rowsum (T1 ++ T2) r x = rowsum T1 r x + rowsum T2 r x.
Proof. unfold rowsum. rewrite map_app, sumz_app. reflexivity. Qed.

Lemma entry_cons tr T r c :
  entry (tr :: T) r c =
  (if Nat.eqb (trow tr) r && Nat.eqb (tcol tr) c then tval tr else 0) + entry T r c.
Proof. destruct tr as [[v r'] c']. reflexivity. Qed.

Lemma dot_entry T r x n :
  Forall (fun tr => (tcol tr < n)%nat) T ->
  sumz (map (fun k => entry T r k * nth k x 0) (seq 0 n)) = rowsum T r x.
Proof.
  induction T as [|tr T IH]; intros Hc.
  - unfold entry, rowsum; simpl. apply sumz_map_zero.
  - inversion Hc as [|? ? Hlt Hc']; subst.
    rewrite (sumz_map_ext_in _ (fun k => (if Nat.eqb (tcol tr) k
                                          then (if Nat.eqb (trow tr) r then tval tr * nth k x 0 else 0)
                                          else 0) + entry T r k * nth k x 0)).
    + rewrite sumz_map_add, IH by exact Hc'.
      rewrite sumz_delta by (try apply seq_NoDup; apply in_seq; lia).
      unfold rowsum; simpl. reflexivity.
    + intros k _. rewrite entry_cons.
      destruct (Nat.eqb (trow tr) r), (Nat.eqb (tcol tr) k); simpl; ring.
Qed.

Lemma over_cols_In I f tr :
  In tr (over_cols I f) ->
  exists col v, (col < num_variables I)%nat /\ nth_error (vars I) col = Some v /\ In tr (f col v).
Proof.
  unfold over_cols. rewrite in_flat_map. intros (col & Hc & Hin). apply in_seq in Hc.
  unfold get_var_tuple_index in Hin. destruct (nth_error (vars I) col) as [v|] eqn:E; [|destruct Hin].
  exists col, v. repeat split; auto; lia.
Qed.

Lemma triplets_cols I : Forall (fun tr => (tcol tr < num_variables I)%nat) (triplets I).
Proof.
  apply Forall_forall. intros tr Hin. unfold triplets in Hin. apply in_app_iff in Hin.
  destruct Hin as [Hin|Hin]; apply over_cols_In in Hin; destruct Hin as (col & v & Hlt & _ & Hin).
  - unfold flow_trips_of in Hin. apply in_app_iff in Hin.
    destruct Hin as [Hin|Hin]; destruct (find_index _ _ _); simpl in Hin; try tauto;
      destruct Hin as [<-|[]]; exact Hlt.
  - unfold visit_trips_of in Hin. destruct (Nat.eqb _ _); simpl in Hin; [tauto|].
    destruct Hin as [<-|[]]; exact Hlt.
Qed.

Lemma Ax_length I x : length (Ax I x) = length (rhs I).
Proof. unfold Ax, A_dense, A_shape; simpl. rewrite !map_length, seq_length. reflexivity. Qed.

Lemma Ax_nth I x r :
  (r < length (rhs I))%nat -> nth r (Ax I x) 0 = rowsum (triplets I) r x.
Proof.
  intros Hr. unfold Ax, A_dense, A_shape; simpl. rewrite map_map.
  rewrite nth_map_seq by exact Hr.
  unfold dotn. rewrite <- (dot_entry _ _ _ _ (triplets_cols I)).
  apply sumz_map_ext_in. intros k Hk. apply in_seq in Hk.
  rewrite nth_map_seq by lia. reflexivity.
Qed.

Theorem Ax_eq_iff I x :
  Ax I x = rhs I <-> forall r, (r < length (rhs I))%nat -> rowsum (triplets I) r x = nth r (rhs I) 0.
Proof.
  split.
  - intros E r Hr. rewrite <- Ax_nth by exact Hr. rewrite E. reflexivity.
  - intros H. apply (nth_ext _ _ 0 0); [apply Ax_length|].
    intros r Hr. rewrite Ax_length in Hr. rewrite Ax_nth by exact Hr. apply H; exact Hr.
Qed.

(* sums over columns become sums over (tuple, value) pairs *)
Lemma sum_cols_combine (h : var -> Z -> Z) vs : forall x pv px,
  length pv = length px -> length vs = length x ->
  sumz (map (fun col => match nth_error (pv ++ vs) col with
                        | Some v => h v (nth col (px ++ x) 0)
                        | None => 0
                        end) (seq (length pv) (length vs)))
  = sumz (map (fun p => h (fst p) (snd p)) (combine vs x)).
Proof.
  induction vs as [|v vs IH]; intros x pv px Hp Hl; [reflexivity|].
  destruct x as [|xv x]; [discriminate|]. simpl in Hl. injection Hl as Hl.
  cbn [length seq map sumz combine fst snd].
  rewrite nth_error_app2 by lia. rewrite Nat.sub_diag. cbn [nth_error].
  rewrite app_nth2 by lia. replace (length pv - length px)%nat with 0%nat by lia. cbn [nth]. f_equal.
  specialize (IH x (pv ++ [v]) (px ++ [xv])).
  rewrite !app_length in IH. cbn [length] in IH. rewrite !Nat.add_1_r in IH.
  rewrite <- !app_assoc in IH. cbn [app] in IH.
  apply IH; [congruence | exact Hl].
Qed.

Lemma rowsum_over_cols I f r x (h : var -> Z -> Z) :
  length x = num_variables I ->
  (forall col v, rowsum (f col v) r x = h v (nth col x 0)) ->
  rowsum (over_cols I f) r x = sumz (map (fun p => h (fst p) (snd p)) (combine (vars I) x)).
Proof.
  intros Hl Hf. rewrite num_variables_length in Hl.
  unfold rowsum at 1. unfold over_cols. rewrite sumz_flat_map.
  rewrite <- (sum_cols_combine h (vars I) x [] []) by auto.
  rewrite num_variables_length. cbn [length app].
  apply sumz_map_ext_in. intros col _. unfold get_var_tuple_index.
  destruct (nth_error (vars I) col) as [v|]; [apply Hf | reflexivity].
Qed.

Definition hflow (m : list nt) (r : nat) (v : var) (xv : Z) : Z :=
  (match find_index nt_eqb (orig v) m with Some r' => if Nat.eqb r' r then - xv else 0 | None => 0 end) +
  (match find_index nt_eqb (dest v) m with Some r' => if Nat.eqb r' r then xv else 0 | None => 0 end).

Definition hvisit (R r : nat) (v : var) (xv : Z) : Z :=
  if Nat.eqb (dnode v) 0 then 0 else if Nat.eqb (R + (dnode v - 1)) r then xv else 0.

Lemma rowsum_flow_trips m col v r x : rowsum (flow_trips_of m col v) r x = hflow m r v (nth col x 0).
Proof.
  unfold flow_trips_of, hflow. rewrite rowsum_app. f_equal.
  - destruct (find_index nt_eqb (orig v) m) as [r'|]; [|reflexivity].
    unfold rowsum, trow, tval, tcol; cbn [map sumz fst snd]. destruct (Nat.eqb r' r); ring.
  - destruct (find_index nt_eqb (dest v) m) as [r'|]; [|reflexivity].
    unfold rowsum, trow, tval, tcol; cbn [map sumz fst snd]. destruct (Nat.eqb r' r); ring.
Qed.

Lemma rowsum_visit_trips R col v r x : rowsum (visit_trips_of R col v) r x = hvisit R r v (nth col x 0).
Proof.
  unfold visit_trips_of, hvisit. destruct (Nat.eqb (dnode v) 0); [reflexivity|].
  unfold rowsum, trow, tval, tcol; cbn [map sumz fst snd]. destruct (Nat.eqb _ r); ring.
Qed.

Theorem rowsum_triplets I x r :
  length x = num_variables I ->
  rowsum (triplets I) r x =
  sumz (map (fun p => hflow (fcm I) r (fst p) (snd p) + hvisit (length (fcm I)) r (fst p) (snd p))
            (combine (vars I) x)).
Proof.
  intros Hl. unfold triplets. rewrite rowsum_app.
  rewrite (rowsum_over_cols I _ r x (hflow (fcm I) r)) by (auto; intros; apply rowsum_flow_trips).
  rewrite (rowsum_over_cols I _ r x (hvisit (length (fcm I)) r))
    by (auto; intros; rewrite c_row_spec; apply rowsum_visit_trips).
  rewrite <- sumz_map_add. reflexivity.
Qed.

(* weighted count of the tuples satisfying P *)
Definition wsum (P : var -> bool) (ps : list (var * Z)) : Z :=
  sumz (map (fun p => if P (fst p) then snd p else 0) ps).

Definition into (p : nt) (v : var) : bool := nt_eqb (dest v) p.
Definition outof (p : nt) (v : var) : bool := nt_eqb (orig v) p.
Definition into_node (j : nat) (v : var) : bool := Nat.eqb (dnode v) j.
Definition outof_node (j : nat) (v : var) : bool := Nat.eqb (onode v) j.

Lemma fi_match m r p0 q a :
  NoDup m -> nth_error m r = Some p0 ->
  match find_index nt_eqb q m with Some r' => if Nat.eqb r' r then a else 0 | None => 0 end =
  if nt_eqb q p0 then a else 0.
Proof.
  intros Hnd Hr. destruct (nt_eqb q p0) eqn:E.
  - apply nt_eqb_eq in E; subst q.
    rewrite (find_index_nth nt_eqb nt_eqb_eq p0 m r Hnd Hr). rewrite Nat.eqb_refl. reflexivity.
  - destruct (find_index nt_eqb q m) as [r'|] eqn:F; [|reflexivity].
    destruct (Nat.eqb_spec r' r) as [->|]; [|reflexivity].
    apply (find_index_Some nt_eqb nt_eqb_eq) in F. rewrite Hr in F. inversion F; subst.
    assert (nt_eqb q q = true) by (apply nt_eqb_eq; reflexivity). congruence.
Qed.

Lemma fi_out_of_range m r q a :
  (length m <= r)%nat ->
  match find_index nt_eqb q m with Some r' => if Nat.eqb r' r then a else 0 | None => 0 end = 0.
Proof.
  intros H. destruct (find_index nt_eqb q m) as [r'|] eqn:F; [|reflexivity].
  apply (find_index_lt nt_eqb nt_eqb_eq) in F.
  destruct (Nat.eqb_spec r' r); [lia | reflexivity].
Qed.

(* a flow row: inflow - outflow of its (node, time) pair *)
Theorem rowsum_flow_row I x r p0 :
  NoDup (igrid I) -> length x = num_variables I -> nth_error (fcm I) r = Some p0 ->
  rowsum (triplets I) r x = wsum (into p0) (combine (vars I) x) - wsum (outof p0) (combine (vars I) x).
Proof.
  intros Hg Hl Hr. rewrite rowsum_triplets by exact Hl. unfold wsum. rewrite <- sumz_map_sub.
  apply sumz_map_ext_in. intros [v xv] _. cbn [fst snd].
  assert (Hlt : (r < length (fcm I))%nat) by (apply nth_error_Some; congruence).
  unfold hflow, hvisit, into, outof.
  rewrite !(fi_match (fcm I) r p0) by (auto using fcm_NoDup).
  destruct (Nat.eqb (dnode v) 0).
  - destruct (nt_eqb (orig v) p0), (nt_eqb (dest v) p0); ring.
  - destruct (Nat.eqb_spec (length (fcm I) + (dnode v - 1)) r); [lia|].
    destruct (nt_eqb (orig v) p0), (nt_eqb (dest v) p0); ring.
Qed.

(* a visit row: number of selected moves into the customer *)
Theorem rowsum_visit_row I x j :
  length x = num_variables I -> (1 <= j)%nat ->
  rowsum (triplets I) (length (fcm I) + (j - 1)) x = wsum (into_node j) (combine (vars I) x).
Proof.
  intros Hl Hj. rewrite rowsum_triplets by exact Hl. unfold wsum.
  apply sumz_map_ext_in. intros [v xv] _. cbn [fst snd].
  unfold hflow, hvisit, into_node. rewrite !fi_out_of_range by lia.
  destruct (Nat.eqb_spec (dnode v) 0) as [E0|E0].
  - destruct (Nat.eqb_spec (dnode v) j); [lia | reflexivity].
  - destruct (Nat.eqb_spec (length (fcm I) + (dnode v - 1)) (length (fcm I) + (j - 1))),
             (Nat.eqb_spec (dnode v) j); try lia; reflexivity.
Qed.

(* ====================================================================== *)
(* 10. weighted counts over binary vectors                                 *)
(* ====================================================================== *)
Definition binary (x : list Z) : Prop := Forall (fun v => v = 0 \/ v = 1) x.
Definition binary_ps (ps : list (var * Z)) : Prop := Forall (fun p => snd p = 0 \/ snd p = 1) ps.

Lemma binary_combine vs x : binary x -> binary_ps (combine vs x).
Proof.
  intros Hb. apply Forall_forall. intros [v xv] Hin. apply in_combine_r in Hin.
  unfold binary in Hb. rewrite Forall_forall in Hb. apply Hb; exact Hin.
Qed.

Definition cnt (P : var -> bool) (l : list var) : nat := length (filter P l).
Definition sel_of (ps : list (var * Z)) : list var :=
  map fst (filter (fun p : var * Z => negb (snd p =? 0)) ps).

Lemma selected_sel_of I x : selected I x = sel_of (combine (vars I) x).
Proof. reflexivity. Qed.

Lemma into_split j t v : into (j, t) v = into_node j v && (arr v =? t).
Proof. reflexivity. Qed.
Lemma outof_split j t v : outof (j, t) v = outof_node j v && (dep v =? t).
Proof. reflexivity. Qed.

Section Wsum.
  Variable ps : list (var * Z).
  Hypothesis Hb : binary_ps ps.

  Lemma wsum_nonneg P : 0 <= wsum P ps.
  Proof.
    unfold wsum. induction ps as [|[v xv] l IH]; simpl; [lia|].
    inversion Hb as [|? ? H1 H2]; subst. specialize (IH H2). simpl in H1.
    destruct (P v); lia.
  Qed.

  Lemma wsum_split P Q :
    wsum P ps = wsum (fun v => P v && Q v) ps + wsum (fun v => P v && negb (Q v)) ps.
  Proof.
    unfold wsum. clear Hb. induction ps as [|[v xv] l IH]; simpl; [reflexivity|].
    rewrite IH. destruct (P v), (Q v); simpl; ring.
  Qed.

  Lemma wsum_mono P Q : (forall v, P v = true -> Q v = true) -> wsum P ps <= wsum Q ps.
  Proof.
    intros HPQ. unfold wsum. induction ps as [|[v xv] l IH]; simpl; [lia|].
    inversion Hb as [|? ? H1 H2]; subst. specialize (IH H2). simpl in H1.
    destruct (P v) eqn:EP; [rewrite (HPQ v EP); lia|]. destruct (Q v); lia.
  Qed.

  Lemma wsum_ext P Q : (forall v, P v = Q v) -> wsum P ps = wsum Q ps.
  Proof.
    intros HPQ. unfold wsum. apply sumz_map_ext_in. intros [v xv] _. simpl. rewrite HPQ. reflexivity.
  Qed.

  Lemma wsum_into_split j t :
    wsum (into_node j) ps = wsum (into (j, t)) ps + wsum (fun u => into_node j u && negb (arr u =? t)) ps.
  Proof. rewrite (wsum_split (into_node j) (fun u => arr u =? t)). reflexivity. Qed.

  Lemma wsum_outof_split j t :
    wsum (outof_node j) ps = wsum (outof (j, t)) ps + wsum (fun u => outof_node j u && negb (dep u =? t)) ps.
  Proof. rewrite (wsum_split (outof_node j) (fun u => dep u =? t)). reflexivity. Qed.

  Lemma wsum_into_other j s t :
    s <> t -> wsum (into (j, s)) ps <= wsum (fun u => into_node j u && negb (arr u =? t)) ps.
  Proof.
    intros Hne. apply wsum_mono. intros u Hu. rewrite into_split in Hu.
    apply andb_true_iff in Hu. destruct Hu as [Hu1 Hu2]. rewrite Hu1. simpl.
    apply negb_true_iff. lia.
  Qed.

  Lemma wsum_outof_other j s t :
    s <> t -> wsum (outof (j, s)) ps <= wsum (fun u => outof_node j u && negb (dep u =? t)) ps.
  Proof.
    intros Hne. apply wsum_mono. intros u Hu. rewrite outof_split in Hu.
    apply andb_true_iff in Hu. destruct Hu as [Hu1 Hu2]. rewrite Hu1. simpl.
    apply negb_true_iff. lia.
  Qed.

  Lemma wsum_pos_witness P : 0 < wsum P ps -> exists v, In (v, 1) ps /\ P v = true.
  Proof.
    unfold wsum. induction ps as [|[v xv] l IH]; simpl; [lia|].
    inversion Hb as [|? ? H1 H2]; subst. simpl in H1. intros Hpos.
    destruct (P v) eqn:EP.
    - destruct H1 as [->| ->].
      + destruct (IH H2) as (w & Hw & HP); [lia|]. exists w; auto.
      + exists v; auto.
    - destruct (IH H2) as (w & Hw & HP); [lia|]. exists w; auto.
  Qed.

  Lemma wsum_witness_pos P v : In (v, 1) ps -> P v = true -> 1 <= wsum P ps.
  Proof.
    unfold wsum. induction ps as [|[w xw] l IH]; simpl; [tauto|].
    inversion Hb as [|? ? H1 H2]; subst. simpl in H1. intros [E|Hin] HP.
    - inversion E; subst. rewrite HP.
      assert (0 <= sumz (map (fun p : var * Z => if P (fst p) then snd p else 0) l)).
      { clear - H2. induction l as [|[u xu] l IHl]; simpl; [lia|].
        inversion H2 as [|? ? A B]; subst. specialize (IHl B). simpl in A. destruct (P u); lia. }
      lia.
    - specialize (IH H2 Hin HP). destruct (P w); lia.
  Qed.

  Lemma wsum_cnt P : wsum P ps = Z.of_nat (cnt P (sel_of ps)).
  Proof.
    unfold wsum, cnt, sel_of. induction ps as [|[v xv] l IH]; simpl; [reflexivity|].
    inversion Hb as [|? ? H1 H2]; subst. specialize (IH H2). simpl in H1.
    destruct H1 as [->| ->]; cbn [Z.eqb negb map fst filter].
    - rewrite IH. destruct (P v); reflexivity.
    - destruct (P v); cbn [length]; rewrite IH; lia.
  Qed.

  Lemma In_sel_of v : In v (sel_of ps) <-> In (v, 1) ps.
  Proof.
    unfold sel_of. rewrite in_map_iff. split.
    - intros ([w xw] & E & Hin). simpl in E; subst w. apply filter_In in Hin.
      destruct Hin as [Hin Hnz]. simpl in Hnz.
      unfold binary_ps in Hb. rewrite Forall_forall in Hb. specialize (Hb _ Hin). simpl in Hb.
      destruct Hb as [->| ->]; [discriminate | exact Hin].
    - intros Hin. exists (v, 1). split; [reflexivity|]. apply filter_In. split; [exact Hin | reflexivity].
  Qed.
End Wsum.

(* ====================================================================== *)
(* 11. C05, local form                                                     *)
(* ====================================================================== *)
(* every customer j has exactly one selected move into it and exactly one out of it, both at the
   same time t *)
Definition local_form (I : inst) (x : list Z) : Prop :=
  forall j, (1 <= j < length (nodes (ig I)))%nat ->
    exists t, cnt (into_node j) (selected I x) = 1%nat /\ cnt (into (j, t)) (selected I x) = 1%nat /\
              cnt (outof_node j) (selected I x) = 1%nat /\ cnt (outof (j, t)) (selected I x) = 1%nat.

Lemma dest_eta v : dest v = (dnode v, arr v).
Proof. destruct v as [[[? ?] ?] ?]; reflexivity. Qed.
Lemma orig_eta v : orig v = (onode v, dep v).
Proof. destruct v as [[[? ?] ?] ?]; reflexivity. Qed.

Lemma valid_dest_in_fcm I v :
  In v (vars I) -> (1 <= dnode v < length (nodes (ig I)))%nat -> In (dest v) (fcm I).
Proof.
  intros Hv Hj. apply vars_exact in Hv. destruct v as [[[i s] j] t].
  destruct Hv as (a & _ & _ & Ht & _ & _ & H1 & H2 & _).
  apply in_fcm. split; [exact Hj|]. split; [apply tp_In; exact Ht | apply inwin_iff; auto].
Qed.

Lemma valid_orig_in_fcm I v :
  In v (vars I) -> (1 <= onode v < length (nodes (ig I)))%nat -> In (orig v) (fcm I).
Proof.
  intros Hv Hj. apply vars_exact in Hv. destruct v as [[[i s] j] t].
  destruct Hv as (a & _ & Hs & _ & H1 & H2 & _).
  apply in_fcm. split; [exact Hj|]. split; [apply tp_In; exact Hs | apply inwin_iff; auto].
Qed.

Section Local.
  Variable I : inst.
  Variable x : list Z.
  Hypothesis Hg : NoDup (igrid I).
  Hypothesis Hl : length x = num_variables I.
  Hypothesis Hbin : binary x.

  Let ps := combine (vars I) x.
  Let Hps : binary_ps ps := binary_combine (vars I) x Hbin.

  Lemma flow_balance p0 :
    Ax I x = rhs I -> In p0 (fcm I) -> wsum (into p0) ps = wsum (outof p0) ps.
  Proof.
    intros HA Hin. destruct (In_nth_error _ _ Hin) as [r Hr].
    assert (Hlt : (r < length (fcm I))%nat) by (apply nth_error_Some; congruence).
    pose proof (proj1 (Ax_eq_iff I x) HA r) as Hrow.
    rewrite (rowsum_flow_row I x r p0 Hg Hl Hr), rhs_flow in Hrow by exact Hlt.
    fold ps in Hrow. rewrite rhs_length in Hrow. specialize (Hrow ltac:(lia)). lia.
  Qed.

  Lemma visit_once j :
    Ax I x = rhs I -> (1 <= j < length (nodes (ig I)))%nat -> wsum (into_node j) ps = 1.
  Proof.
    intros HA Hj. pose proof (proj1 (Ax_eq_iff I x) HA (length (fcm I) + (j - 1))%nat) as Hrow.
    rewrite rowsum_visit_row, rhs_visit in Hrow by (auto; lia).
    apply Hrow. rewrite rhs_length. lia.
  Qed.

  Theorem local_of_Ax : Ax I x = rhs I -> local_form I x.
  Proof.
    intros HA j Hj. rewrite selected_sel_of. fold ps.
    pose proof (visit_once j HA Hj) as Hin1.
    destruct (wsum_pos_witness ps Hps (into_node j)) as (v & Hv & HPv); [lia|].
    exists (arr v).
    assert (Hvars : In v (vars I)) by (eapply in_combine_l; exact Hv).
    assert (Hdn : dnode v = j) by (apply Nat.eqb_eq; exact HPv).
    assert (Hdest : dest v = (j, arr v)) by (rewrite dest_eta, Hdn; reflexivity).
    (* inflow at (j, arr v) is 1 *)
    assert (Hin_t : wsum (into (j, arr v)) ps = 1).
    { pose proof (wsum_witness_pos ps Hps (into (j, arr v)) v Hv) as H1.
      pose proof (wsum_mono ps Hps (into (j, arr v)) (into_node j)) as H2.
      assert (1 <= wsum (into (j, arr v)) ps).
      { apply H1. unfold into. apply nt_eqb_eq. exact Hdest. }
      assert (wsum (into (j, arr v)) ps <= wsum (into_node j) ps).
      { apply H2. intros w Hw. rewrite into_split in Hw. apply andb_true_iff in Hw. tauto. }
      lia. }
    (* outflow at (j, arr v) is 1 *)
    assert (Hfcm : In (j, arr v) (fcm I)).
    { rewrite <- Hdest. apply valid_dest_in_fcm; [exact Hvars | rewrite Hdn; exact Hj]. }
    assert (Hout_t : wsum (outof (j, arr v)) ps = 1).
    { rewrite <- (flow_balance _ HA Hfcm). exact Hin_t. }
    (* no selected move leaves j at another time *)
    assert (Hout_n : wsum (outof_node j) ps = 1).
    { rewrite (wsum_outof_split ps j (arr v)).
      rewrite Hout_t.
      pose proof (wsum_nonneg ps Hps (fun w => outof_node j w && negb (dep w =? arr v))) as Hnn.
      destruct (Z.eq_dec (wsum (fun w => outof_node j w && negb (dep w =? arr v)) ps) 0) as [->|Hne];
        [reflexivity|]. exfalso.
      destruct (wsum_pos_witness ps Hps (fun w => outof_node j w && negb (dep w =? arr v))) as (w & Hw & HPw); [lia|].
      apply andb_true_iff in HPw. destruct HPw as [Hw1 Hw2].
      assert (Hwn : onode w = j) by (apply Nat.eqb_eq; exact Hw1).
      assert (Hws : dep w <> arr v) by (apply negb_true_iff in Hw2; lia).
      assert (Hworig : orig w = (j, dep w)) by (rewrite orig_eta, Hwn; reflexivity).
      assert (Hwfcm : In (j, dep w) (fcm I)).
      { rewrite <- Hworig. apply valid_orig_in_fcm; [eapply in_combine_l; exact Hw | rewrite Hwn; exact Hj]. }
      pose proof (flow_balance _ HA Hwfcm) as Hbal.
      assert (1 <= wsum (outof (j, dep w)) ps).
      { apply (wsum_witness_pos ps Hps _ w Hw). unfold outof. apply nt_eqb_eq. exact Hworig. }
      pose proof (wsum_into_split ps j (arr v)) as Hsp.
      pose proof (wsum_into_other ps Hps j (dep w) (arr v) Hws).
      lia. }
    assert (C : forall P, wsum P ps = 1 -> cnt P (sel_of ps) = 1%nat).
    { intros P HP. rewrite (wsum_cnt ps Hps) in HP. lia. }
    repeat split; apply C; assumption.
  Qed.

  Theorem Ax_of_local : local_form I x -> Ax I x = rhs I.
  Proof.
    intros HL. apply Ax_eq_iff. intros r Hr. rewrite rhs_length in Hr.
    assert (C : forall P n, cnt P (selected I x) = n -> wsum P ps = Z.of_nat n).
    { intros P n HP. rewrite (wsum_cnt ps Hps). rewrite selected_sel_of in HP. fold ps in HP. lia. }
    destruct (Nat.lt_ge_cases r (length (fcm I))) as [Hlt|Hge].
    - (* flow row *)
      destruct (nth_error (fcm I) r) as [[i s]|] eqn:Er; [|apply nth_error_None in Er; lia].
      rewrite (rowsum_flow_row I x r (i, s) Hg Hl Er), rhs_flow by exact Hlt. fold ps.
      assert (Hi : (1 <= i < length (nodes (ig I)))%nat).
      { apply nth_error_In in Er. apply in_fcm in Er. tauto. }
      destruct (HL i Hi) as (t & H1 & H2 & H3 & H4).
      apply C in H1, H2, H3, H4. simpl in H1, H2, H3, H4.
      destruct (Z.eq_dec s t) as [->|Hne]; [lia|].
      pose proof (wsum_into_split ps i t) as S1.
      pose proof (wsum_outof_split ps i t) as S2.
      pose proof (wsum_into_other ps Hps i s t Hne).
      pose proof (wsum_outof_other ps Hps i s t Hne).
      pose proof (wsum_nonneg ps Hps (into (i, s))). pose proof (wsum_nonneg ps Hps (outof (i, s))).
      lia.
    - (* visit row *)
      replace r with (length (fcm I) + (S (r - length (fcm I)) - 1))%nat by lia.
      rewrite rowsum_visit_row by (auto; lia). rewrite rhs_visit by lia. fold ps.
      destruct (HL (S (r - length (fcm I)))) as (t & H1 & _); [lia|].
      apply C in H1. exact H1.
  Qed.
End Local.

Theorem local_iff I x :
  NoDup (igrid I) -> length x = num_variables I -> binary x ->
  (Ax I x = rhs I <-> local_form I x).
Proof. intros Hg Hl Hb. split; [apply local_of_Ax | apply Ax_of_local]; auto. Qed.

(* ====================================================================== *)
(* 12. C05, objective                                                      *)
(* ====================================================================== *)
Definition move_cost (I : inst) (v : var) : Z := acost (arc_at (ig I) (onode v) (dnode v)).

Theorem objective_weighted I x :
  length x = num_variables I ->
  obj_value I x = sumz (map (fun p => move_cost I (fst p) * snd p) (combine (vars I) x)).
Proof.
  intros Hl. unfold obj_value, dotn, objective.
  pose proof Hl as Hl'. rewrite num_variables_length in Hl'.
  rewrite <- (sum_cols_combine (fun v xv => move_cost I v * xv) (vars I) x [] []) by auto.
  cbn [length app]. rewrite num_variables_length.
  apply sumz_map_ext_in. intros k Hk. apply in_seq in Hk.
  rewrite nth_map_seq by lia. unfold get_var_tuple_index.
  destruct (nth_error (vars I) k) as [v|] eqn:E; [reflexivity|].
  apply nth_error_None in E. lia.
Qed.

Theorem objective_selected I x :
  length x = num_variables I -> binary x ->
  obj_value I x = sumz (map (move_cost I) (selected I x)).
Proof.
  intros Hl Hb. rewrite objective_weighted by exact Hl. rewrite selected_sel_of.
  pose proof (binary_combine (vars I) x Hb) as Hps. unfold sel_of.
  induction (combine (vars I) x) as [|[v xv] l IH]; simpl; [reflexivity|].
  inversion Hps as [|? ? H1 H2]; subst. simpl in H1. rewrite IH by exact H2.
  destruct H1 as [->| ->]; simpl; ring.
Qed.
