(* PyMirp_facts.v -- small facts and tactics about the combinators of PyMirp.v, used by
   coq/genprops/C11_gen.v and C12_gen.v (which relate the GENERATED MirpGen.v to Mirp.v). *)
From Coq Require Import QArith List Arith.
From VQ Require Import Base Mirp Mirp_facts MirpWrap PyMirp.
Import ListNotations.
Local Open Scope Q_scope.

(* gres of an entry_d loop together with its counter, as the effect of a computation returning the counter *)
Definition lift_gres_nat (w : wstate) (r : gres * nat) : wstate * result nat :=
  (mkW (set_gr (wst w) (fst (fst r))) (wpf w),
   match snd (fst r) with None => Ok (snd r) | Some e => Err e end).

(* unfold the straight-line combinators (not the loops, not the graph operations of Mirp.v) and the
   projections of the object *)
Ltac py_red :=
  cbv beta iota zeta delta
    [bind ret raise rd upd with_graph q_div np_fabs q_gt q_lt q_le q_ge q_eq q_ne
     fmt_visit fmt_dum str_Depot py_last
     self_cargo_size self_time_horizon self_supply_ports self_demand_ports
     self_supply_ports_append self_demand_ports_append
     self_port_mapping_get self_port_mapping_set self_port_mapping_append
     self_port_frequency_set self_port_frequency_values self_get_time_window
     vrptw_add_node vrptw_add_node_default vrptw_add_arc vrptw_get_node vrptw_depot_index
     vrptw_node_names_get vrptw_node_names vrptw_arcs_values node_tw0 node_tw1 arc_get_cost arc_get_travel_time
     dist_call fees_get py_min_m py_max_m
     self_set_cargo_size self_set_time_horizon self_set_supply_ports self_set_demand_ports
     self_set_port_mapping self_set_port_frequency self_set_vrptw vrptw_new
     vrptw_set_initial_loading vrptw_set_vehicle_cap vrptw_set_depot blank_state
     lift_gres lift_gres_nat proc_result
     wst wpf gr sports dports pmap csize horizon set_gr].

Lemma bind_assoc {A B C} (m : M A) (g : A -> M B) (f : B -> M C) w :
  bind (bind m g) f w = bind m (fun a => bind (g a) f) w.
Proof. unfold bind. destruct (m w) as [w' [a|e]]; reflexivity. Qed.

(* Mirp.add_nodes_loop returning, like the Python loop, both carried locals (node_names, num_prior_visits) *)
Fixpoint add_nodes_loop_k (fuel : nat) (s : mstate) (name : nat) (init rate cap dl : Q)
    (k : nat) (acc : list nname) : mstate * result (list nname * nat) :=
  match fuel with
  | O => (s, Err OtherError)
  | S f =>
      let w := window (csize s) k init rate cap in
      if Qltb (horizon s) (snd w) then (s, Ok (acc, k))
      else
        let x := NVisit name k in
        match g_add_node (gr s) x dl (fst w) (QFin (snd w)) with
        | Err e => (s, Err e)
        | Ok g' =>
            add_nodes_loop_k f
              (mkState g' (sports s) (dports s) (pm_append name x (pmap s)) (csize s) (horizon s))
              name init rate cap dl (S k) (acc ++ [x])
        end
  end.

Lemma add_nodes_loop_k_spec name init rate cap dl : forall fuel s k acc,
  add_nodes_loop fuel s name init rate cap dl k acc =
  (fst (add_nodes_loop_k fuel s name init rate cap dl k acc),
   match snd (add_nodes_loop_k fuel s name init rate cap dl k acc) with
   | Ok c => Ok (fst c)
   | Err e => Err e
   end).
Proof.
  induction fuel as [|f IH]; intros s k acc; cbn [add_nodes_loop add_nodes_loop_k].
  - reflexivity.
  - cbv zeta. destruct (Qltb (horizon s) (snd (window (csize s) k init rate cap))); [reflexivity|].
    destruct (g_add_node (gr s) (NVisit name k) dl (fst (window (csize s) k init rate cap))
                (QFin (snd (window (csize s) k init rate cap)))); [|reflexivity].
    apply IH.
Qed.

(* the object after a step of the hand models: Mirp.mstep on the state, MirpWrap.pf_step on port_frequency *)
Lemma wstep_fst w o : wstep w o = mkW (fst (mstep (wst w) o)) (pf_step (wpf w) o).
Proof. reflexivity. Qed.

(* Mirp.entry_d_ports returning also the counter num_dum that the Python loop carries *)
Fixpoint entry_d_ports_k (g : mgraph) (pm : list (nat * list nname)) (ports : list nat)
    (dn : nname) (limit tm c size : Q) (nd : nat) : gres * nat :=
  match ports with
  | [] => ((g, None), nd)
  | p :: rest =>
      match pm_get p pm with
      | None => ((g, Some KeyError), nd)
      | Some ns =>
          match entry_d_nodes g ns dn limit tm c size nd with
          | ((g', None), nd') => entry_d_ports_k g' pm rest dn limit tm c size nd'
          | (r, nd') => (r, nd')
          end
      end
  end.

Lemma entry_d_ports_k_spec pm dn limit tm c size : forall ports g nd,
  entry_d_ports g pm ports dn limit tm c size nd = fst (entry_d_ports_k g pm ports dn limit tm c size nd).
Proof.
  induction ports as [|p rest IH]; intros g nd; cbn [entry_d_ports entry_d_ports_k].
  - reflexivity.
  - destruct (pm_get p pm) as [ns|]; [|reflexivity].
    destruct (entry_d_nodes g ns dn limit tm c size nd) as [[g' [e|]] nd']; [reflexivity|].
    apply IH.
Qed.

(* the state part of a MirpWrap history is the Mirp history (MirpWrap_facts.wrun_wst, restated here to keep
   the import closure of the genprops files small) *)
Lemma wrun_wst_mrun ops : forall w, wst (wrun ops w) = mrun ops (wst w).
Proof. induction ops as [|o ops IH]; intro w; simpl; auto. unfold wrun in IH. rewrite IH. reflexivity. Qed.
