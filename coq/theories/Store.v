(* Store.v -- object-store model for property C16 (isolation of formulations).
   A pure Gallina function cannot exhibit aliasing, so this model is one level lower: a store
   maps locations to objects, a VRPTW object holds the locations of its three container
   attributes, and the mutating methods are expressed as writes.  Definitions only. *)
From VQ Require Import Base.

Definition loc := nat.

Inductive obj :=
| ONames (l : list nat)                        (* node_names : list of (immutable) strings *)
| OList (items : list loc)                     (* nodes : list of references to Node objects *)
| ODict (entries : list ((nat * nat) * loc))   (* arcs : dict (i,j) -> reference to an Arc object *)
| ONode (name : nat) (demand lo : Z) (hi : ext)
| OArc (orig dest : loc) (tm cost : Z)         (* an Arc holds references to its endpoint Nodes *)
| OGraph (names nodes arcs : loc).             (* VRPTW object: attribute -> location of container *)

(* the store is a list; location = index; allocation appends, so a fresh location is never
   an existing one and writes never change the domain *)
Definition store := list obj.

Definition rd (s : store) (l : loc) : option obj := nth_error s l.

Fixpoint upd (l : loc) (o : obj) (s : store) : store :=
  match s, l with
  | [], _ => []
  | _ :: s', O => o :: s'
  | x :: s', S l' => x :: upd l' o s'
  end.

Definition alloc (o : obj) (s : store) : store * loc := (s ++ [o], length s).

(* containers of a graph object: the only locations its methods ever write *)
Definition footprint (s : store) (g : loc) : list loc :=
  match rd s g with
  | Some (OGraph a b c) => [g; a; b; c]
  | _ => [g]
  end.

(* ---------- the mutating methods, as writes ---------- *)
Inductive sop :=
| SAddNode (nm : nat) (dem lo : Z) (hi : ext)      (* append to node_names and nodes *)
| SAddArc (i j : nat) (tm cost : Z)                (* arcs[(i,j)] = Arc(nodes[i], nodes[j], ..) *)
| SSetDepot (d : nat)                              (* reorder both lists, re-key the dict in place *)
| SRebindArcs                                      (* strict constructor: self.vrptw.arcs = dict() *)
| SQuery.                                          (* any query: no write *)

Definition snew_pos (d p : nat) : nat :=
  if Nat.eqb p d then O else if Nat.ltb p d then S p else p.

Fixpoint dset (k : nat * nat) (v : loc) (d : list ((nat * nat) * loc)) :=
  match d with
  | [] => [(k, v)]
  | (k', v') :: d' => if natpair_eqb k k' then (k', v) :: d' else (k', v') :: dset k v d'
  end.

Definition sstep (g : loc) (s : store) (o : sop) : store :=
  match rd s g with
  | Some (OGraph nl ndl al) =>
      match o with
      | SAddNode nm dem lo hi =>
          match rd s nl, rd s ndl with
          | Some (ONames ns), Some (OList items) =>
              let (s1, p) := alloc (ONode nm dem lo hi) s in
              upd ndl (OList (items ++ [p])) (upd nl (ONames (ns ++ [nm])) s1)
          | _, _ => s
          end
      | SAddArc i j tm cost =>
          match rd s ndl, rd s al with
          | Some (OList items), Some (ODict es) =>
              match nth_error items i, nth_error items j with
              | Some po, Some pd =>
                  let (s1, p) := alloc (OArc po pd tm cost) s in
                  upd al (ODict (dset (i, j) p es)) s1
              | _, _ => s
              end
          | _, _ => s
          end
      | SSetDepot d =>
          match rd s nl, rd s ndl, rd s al with
          | Some (ONames ns), Some (OList items), Some (ODict es) =>
              upd al (ODict (map (fun kv => ((snew_pos d (fst (fst kv)), snew_pos d (snd (fst kv))), snd kv)) es))
                (upd ndl (OList (nth d items O :: remove_nth d items))
                   (upd nl (ONames (nth d ns O :: remove_nth d ns)) s))
          | _, _, _ => s
          end
      | SRebindArcs =>
          let (s1, p) := alloc (ODict []) s in
          upd g (OGraph nl ndl p) s1
      | SQuery => s
      end
  | _ => s
  end.

Definition srun (g : loc) (ops : list sop) (s : store) : store := fold_left (sstep g) ops s.

(* ---------- what a client sees through a handle ---------- *)
Definition node_view := (nat * Z * Z * ext)%type.
Definition arc_view := ((nat * nat) * (option nat * option nat * Z * Z))%type.
Definition gview := (list nat * list (option node_view) * list (option arc_view))%type.

Definition node_of (s : store) (p : loc) : option node_view :=
  match rd s p with Some (ONode nm dem lo hi) => Some (nm, dem, lo, hi) | _ => None end.
Definition name_of (s : store) (p : loc) : option nat :=
  match rd s p with Some (ONode nm _ _ _) => Some nm | _ => None end.
Definition arc_of (s : store) (kv : (nat * nat) * loc) : option arc_view :=
  match rd s (snd kv) with
  | Some (OArc po pd tm cost) => Some (fst kv, (name_of s po, name_of s pd, tm, cost))
  | _ => None
  end.

Definition view (s : store) (g : loc) : option gview :=
  match rd s g with
  | Some (OGraph nl ndl al) =>
      match rd s nl, rd s ndl, rd s al with
      | Some (ONames ns), Some (OList items), Some (ODict es) =>
          Some (ns, map (node_of s) items, map (arc_of s) es)
      | _, _, _ => None
      end
  | _ => None
  end.

(* every location read when computing [view s g] *)
Definition arc_locs (s : store) (p : loc) : list loc :=
  match rd s p with Some (OArc po pd _ _) => [p; po; pd] | _ => [p] end.
Definition reach (s : store) (g : loc) : list loc :=
  match rd s g with
  | Some (OGraph nl ndl al) =>
      [g; nl; ndl; al] ++
      (match rd s ndl with Some (OList items) => items | _ => [] end) ++
      (match rd s al with Some (ODict es) => flat_map (fun kv => arc_locs s (snd kv)) es | _ => [] end)
  | _ => [g]
  end.

Definition disjoint (a b : list loc) : Prop := forall l, In l a -> ~ In l b.

(* ---------- the MIRP getters: one shared source, three cached formulations ---------- *)
Section Getters.
  Variables (D A P S : Type).
  Variable build_arc : D -> A.
  Variable build_path : D -> P.
  Variable build_seq : D -> bool -> S.

  Record mstate := mkM { mdata : D; m_ab : option A; m_pb : option P; m_sb : option S }.
  Inductive mop := GetArc | GetPath | GetSeq (strict : bool).
  Inductive mout := OutA (a : A) | OutP (p : P) | OutS (x : S).

  Definition mstep (m : mstate) (o : mop) : mstate * mout :=
    match o with
    | GetArc => match m_ab m with
                | Some a => (m, OutA a)
                | None => let a := build_arc (mdata m) in (mkM (mdata m) (Some a) (m_pb m) (m_sb m), OutA a)
                end
    | GetPath => match m_pb m with
                 | Some p => (m, OutP p)
                 | None => let p := build_path (mdata m) in (mkM (mdata m) (m_ab m) (Some p) (m_sb m), OutP p)
                 end
    | GetSeq st => match m_sb m with
                   | Some x => (m, OutS x)
                   | None => let x := build_seq (mdata m) st in (mkM (mdata m) (m_ab m) (m_pb m) (Some x), OutS x)
                   end
    end.

  Fixpoint mrun (m : mstate) (ops : list mop) : mstate * list mout :=
    match ops with
    | [] => (m, [])
    | o :: ops' => let (m1, r) := mstep m o in let (m2, rs) := mrun m1 ops' in (m2, r :: rs)
    end.

  (* strictness argument of the first GetSeq request, if any *)
  Fixpoint first_strict (ops : list mop) : option bool :=
    match ops with
    | [] => None
    | GetSeq st :: _ => Some st
    | _ :: ops' => first_strict ops'
    end.
End Getters.

(* ---------- correspondence with the real objects ---------- *)
Definition node_view_eqb (a b : node_view) : bool :=
  match a, b with
  | (n1, d1, l1, h1), (n2, d2, l2, h2) => Nat.eqb n1 n2 && (d1 =? d2) && (l1 =? l2) && ext_eqb h1 h2
  end.
Definition arc_view_eqb (a b : arc_view) : bool :=
  match a, b with
  | (k1, (o1, d1, t1, c1)), (k2, (o2, d2, t2, c2)) =>
      natpair_eqb k1 k2 && option_eqb Nat.eqb o1 o2 && option_eqb Nat.eqb d1 d2 && (t1 =? t2) && (c1 =? c2)
  end.
Definition gview_eqb (a b : gview) : bool :=
  match a, b with
  | (n1, nd1, a1), (n2, nd2, a2) =>
      list_eqb Nat.eqb n1 n2 && list_eqb (option_eqb node_view_eqb) nd1 nd2 &&
      list_eqb (option_eqb arc_view_eqb) a1 a2
  end.

(* a case: the store as read off the real objects by id(), the handle operated on, the calls
   made, and for each observed handle what the real object looked like afterwards *)
Definition scase := (store * loc * list sop * list (loc * gview))%type.
Fixpoint check_views (s : store) (k : nat) (exp : list (loc * gview)) : list nat :=
  match exp with
  | [] => []
  | (g, v) :: exp' =>
      chk k (option_eqb gview_eqb (view s g) (Some v)) ++ check_views s (S k) exp'
  end.
Definition check_scase (c : scase) : list nat :=
  match c with
  | (s, g, ops, exp) => check_views (srun g ops s) 1%nat exp
  end.
