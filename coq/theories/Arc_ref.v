(* Arc_ref.v -- reference semantics for C05: the VRPTW route of the doc (doc/MIRPasQUBO.tex, section
   "VRPTW as set partitioning problem": T_0 = 0, T_{k+1} = max(a_{k+1}, T_k + t_{k,k+1}), T_k <= b_k),
   without capacity.  Definitions only. *)
From VQ Require Import Base Vrptw Arc.

(* ---------- reference: earliest-arrival visits of a node sequence ---------- *)
Fixpoint eta (g : graph) (cur : nat) (T : Z) (seq : list nat) : option (list nt) :=
  match seq with
  | [] => Some []
  | nx :: seq' =>
      match dict_get (cur, nx) (arcs g) with
      | None => None                                          (* not an arc *)
      | Some a =>
          let T' := Z.max (win_lo g nx) (T + att a) in        (* arrive early and wait *)
          if ext_leb (Fin T') (win_hi g nx)                   (* never late *)
          then option_map (cons (nx, T')) (eta g nx T' seq')
          else None
      end
  end.

(* the route depot, cs, depot: Some [(0,0); (c1,T1); ...; (cK,TK); (0,Te)] when it is valid *)
Definition vrptw_route (g : graph) (cs : list nat) : option (list nt) :=
  option_map (cons (0%nat, 0)) (eta g 0 0 (cs ++ [0%nat])).

Fixpoint route_cost (g : graph) (cur : nat) (seq : list nat) : Z :=
  match seq with
  | [] => 0
  | nx :: seq' => acost (arc_at g cur nx) + route_cost g nx seq'
  end.

(* consecutive visits as moves *)
Fixpoint moves_of (vs : list nt) : list var :=
  match vs with
  | p :: ((q :: _) as tl) => (fst p, snd p, fst q, snd q) :: moves_of tl
  | _ => []
  end.

(* the 0/1 vector selecting the given moves *)
Definition indicator (I : inst) (ms : list var) : list Z :=
  map (fun v => if existsb (var_eqb v) ms then 1 else 0) (vars I).


(* correspondence of the reference itself: the harness' brute-force VRPTW solver evaluates routes with a
   Python function; its visits and cost are compared with vrptw_route / route_cost *)
Definition refcase := (graph * list nat * option (list nt * Z))%type.
Definition check_refcase (c : refcase) : list nat :=
  match c with
  | (g, cs, ir) =>
      chk 1 (option_eqb (fun a b : list nt * Z => list_eqb nt_eqb (fst a) (fst b) && (snd a =? snd b))
                        (match vrptw_route g cs with
                         | Some vs => Some (vs, route_cost g 0 (cs ++ [0%nat]))
                         | None => None
                         end) ir)
  end.
