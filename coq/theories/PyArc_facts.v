(* PyArc_facts.v -- lemmas that connect the Python combinators (PyEnumCore.v, PyArc.v) with the
   definitions of the hand model Arc.v.  Nothing here mentions a generated definition; the theorems
   about coq/gen/ArcGen.v are in coq/genprops/C18_arc_gen.v. *)
From Coq Require Import Sorting.Sorted ZifyBool.
From VQ Require Import Base Vrptw Vrptw_facts Arc Arc_facts PyEnumCore PyEnumCore_facts PyArc.

(* A generated loop whose body is `if key < lo: continue; if key > hi: break; <step>` is Arc.scan,
   through a change of state representation. *)
Lemma py_for_scan_lift {A S T} (lift : T -> S) (key : A -> Z) lo hi (hbody : A -> T -> T)
      (gbody : A -> S -> ctl * S) l :
  (forall e st, gbody e (lift st) =
                if key e <? lo then (CNext, lift st)
                else if above (key e) hi then (CBreak, lift st)
                else (CNext, lift (hbody e st))) ->
  forall st, py_for gbody l (lift st) = lift (scan key lo hi hbody l st).
Proof.
  intros H. induction l as [|e l IH]; intros st; simpl; [reflexivity|].
  rewrite H. destruct (key e <? lo); [apply IH|].
  destruct (above (key e) hi); [reflexivity | apply IH].
Qed.

Lemma ext_gtb_above t hi : ext_gtb (Fin t) hi = above t hi.
Proof. reflexivity. Qed.

(* list.index of the two developments *)
Lemma find_index_py {A} (eqb : A -> A -> bool) x l : find_index eqb x l = py_find_index eqb x l.
Proof. reflexivity. Qed.      (* the two fixpoints are the same term *)

Lemma var_eqb_pairs (x y : var) :
  py_pair_eqb (py_pair_eqb (py_pair_eqb Nat.eqb Z.eqb) Nat.eqb) Z.eqb x y = var_eqb x y.
Proof. destruct x as [[[i s] j] t], y as [[[i' s'] j'] t']. reflexivity. Qed.

Lemma py_list_index_var v l :
  py_list_index (py_pair_eqb (py_pair_eqb (py_pair_eqb Nat.eqb Z.eqb) Nat.eqb) Z.eqb) v l =
  match find_index var_eqb v l with Some k => Ok k | None => Err ValueError end.
Proof.
  unfold py_list_index.
  rewrite (py_find_index_ext (py_pair_eqb (py_pair_eqb (py_pair_eqb Nat.eqb Z.eqb) Nat.eqb) Z.eqb) var_eqb)
    by (intros; apply var_eqb_pairs).
  reflexivity.
Qed.

(* the states *)
Lemma arc_lift_self self : arc_lift self (s_var_mapping self, s_num_variables self) = (self, s_num_variables self).
Proof. destruct self; reflexivity. Qed.

Lemma arc_enumerated_coherent self I : arc_coherent (arc_enumerated self I) I.
Proof. intros _. split; reflexivity. Qed.

Lemma arc_enumerated_holds self I : arc_holds self I -> arc_holds (arc_enumerated self I) I.
Proof. intros H; exact H. Qed.

(* Arc.get_destination(): the node found by name is the node at the key's position *)
Lemma find_by_name {A} (f : A -> nat) (l : list A) j x :
  NoDup (map f l) -> nth_error l j = Some x -> find (fun n => Nat.eqb (f n) (f x)) l = Some x.
Proof.
  revert j; induction l as [|y l IH]; intros j Hnd Hj; [destruct j; discriminate|].
  simpl in Hnd. inversion Hnd as [|? ? Hn Hnd']; subst. simpl.
  destruct j as [|j]; simpl in Hj.
  - inversion Hj; subst. rewrite Nat.eqb_refl. reflexivity.
  - destruct (Nat.eqb (f y) (f x)) eqn:E.
    + apply Nat.eqb_eq in E. exfalso. apply Hn. rewrite E. apply in_map. eapply nth_error_In; eauto.
    + eapply IH; eauto.
Qed.

Lemma destination_is_key_node self i j a :
  Inv (s_graph self) -> dict_get (i, j) (arcs (s_graph self)) = Some a ->
  py_get_destination self a = node_at (s_graph self) j /\ py_get_origin self a = node_at (s_graph self) i.
Proof.
  intros HI Ha. apply dict_get_In in Ha.
  destruct (inv_arcs _ HI _ _ Ha) as (no & nd & Hno & Hnd & Eo & Ed & _). simpl in Hno, Hnd.
  assert (Hnn : NoDup (map nname (nodes (s_graph self)))).
  { rewrite <- (inv_aligned _ HI). apply inv_nodup; exact HI. }
  unfold py_get_destination, py_get_origin, py_node_named, py_nodes, node_at. rewrite Ed, Eo.
  rewrite (find_by_name nname _ j nd Hnn Hnd), (find_by_name nname _ i no Hnn Hno).
  split; symmetry; apply nth_error_nth; assumption.
Qed.

Lemma find_ext_eq {A} (f g : A -> bool) l : (forall a, f a = g a) -> find f l = find g l.
Proof. intros H. induction l as [|a l IH]; simpl; [reflexivity|]. rewrite H, IH. reflexivity. Qed.

(* the exhaustive enumeration lists exactly the admissible tuples when arc keys are node positions *)
Lemma compat_iff g i t : compat g i t = true <-> win_lo g i <= t /\ ext_le (Fin t) (win_hi g i).
Proof. unfold compat. rewrite andb_true_iff, Z.leb_le, ext_leb_le. tauto. Qed.

Lemma in_exh_spec I v :
  wf_graph (ig I) -> (In v (exh_spec (ig I) (tp I)) <-> valid_move I v).
Proof.
  intros [Hnd Hk]. destruct v as [[[i s] j] t]. unfold exh_spec, exh_i, valid_move.
  rewrite in_flat_map. split.
  - intros (i' & Hi & H). rewrite in_flat_map in H. destruct H as (s' & Hs & H).
    unfold exh_s in H. destruct (compat (ig I) i' s') eqn:Ec; [|destruct H].
    rewrite in_flat_map in H. destruct H as (j' & Hj & H).
    unfold exh_j in H. destruct (dict_mem (i', j') (arcs (ig I))) eqn:Em; [|destruct H].
    rewrite in_flat_map in H. destruct H as (t' & Ht & H).
    unfold exh_t in H. destruct (compat (ig I) j' t' && _) eqn:E; [|destruct H].
    destruct H as [H|[]]. inversion H; subst; clear H.
    apply andb_true_iff in E. destruct E as [E1 E2].
    apply compat_iff in Ec, E1. apply Z.leb_le in E2.
    unfold dict_mem in Em. destruct (dict_get (i, j) (arcs (ig I))) as [a|] eqn:Ea; [|discriminate].
    exists a. unfold arc_at in E2. rewrite Ea in E2. rewrite tp_In in Hs, Ht. tauto.
  - intros (a & Ha & Hs & Ht & H1 & H2 & H3 & H4 & H5).
    destruct (Hk _ _ (dict_get_In _ _ _ Ha)) as [Hi Hj]. cbn [fst snd] in Hi, Hj.
    exists i. split; [apply in_seq; lia|].
    rewrite in_flat_map. exists s. split; [apply tp_In; exact Hs|].
    unfold exh_s. rewrite (proj2 (compat_iff _ _ _) (conj H1 H2)).
    rewrite in_flat_map. exists j. split; [apply in_seq; lia|].
    unfold exh_j, dict_mem. rewrite Ha.
    rewrite in_flat_map. exists t. split; [apply tp_In; exact Ht|].
    unfold exh_t, arc_at. rewrite Ha, (proj2 (compat_iff _ _ _) (conj H3 H4)).
    rewrite (proj2 (Z.leb_le _ _) H5). left; reflexivity.
Qed.

Lemma set_var_mapping_same s : set_var_mapping (s_var_mapping s) s = s.
Proof. destruct s; reflexivity. Qed.
