(* PyExport_facts.v -- facts used by genprops/C10_gen.v. *)
From Coq Require Import ZArith QArith List Bool String Ascii PeanoNat Lia.
From VQ Require Import Base LinAlg Export PyReport PyExport.
Import ListNotations.

(* a loop that only ever appends to its first component *)
Lemma fold_left_appends {A X K} (body : list A * K -> X -> list A * K) (g : X -> list A) :
  (forall st x, fst (body st x) = fst st ++ g x) ->
  forall l st, fst (fold_left body l st) = fst st ++ flat_map g l.
Proof.
  intros H. induction l as [|x l IH]; intros st.
  - cbn. rewrite app_nil_r. reflexivity.
  - cbn [fold_left flat_map]. rewrite IH, H, app_assoc. reflexivity.
Qed.

(* zip(rows, cols, vals) of sp.find gives the entries back *)
Lemma zip3_unzip {A B C} (l : list (A * B * C)) :
  zip3 (map (fun t => fst (fst t)) l) (map (fun t => snd (fst t)) l) (map (fun t => snd t) l) = l.
Proof.
  unfold zip3. induction l as [|[[a b] c] l IH].
  - reflexivity.
  - cbn [map combine fst snd]. f_equal. exact IH.
Qed.

Lemma zip3_sp_find n M :
  zip3 (fst (fst (sp_find n M))) (snd (fst (sp_find n M))) (snd (sp_find n M)) = find_entries n M.
Proof. unfold sp_find. cbn [fst snd]. apply zip3_unzip. Qed.

(* "".join(pieces) where every piece but the first begins with the newline = the lines joined by newlines *)
Lemma concat_nl_lines (first : string) (ls : list string) :
  String.concat "" (first :: map nl_line ls) = join_lines (first :: ls).
Proof.
  revert first. induction ls as [|l ls IH]; intros first.
  - reflexivity.
  - cbn [map]. change (String.concat "" (first :: nl_line l :: map nl_line ls))
      with (first ++ "" ++ String.concat "" (nl_line l :: map nl_line ls))%string.
    rewrite IH. cbn [append].
    change (join_lines (first :: l :: ls)) with (first ++ String nl (join_lines (l :: ls)))%string.
    f_equal.
    destruct ls as [|l2 ls]; cbn [join_lines]; unfold nl_line, NL; reflexivity.
Qed.

Lemma map_flat_map {A B C} (f : B -> C) (g : A -> list B) (l : list A) :
  map f (flat_map g l) = flat_map (fun x => map f (g x)) l.
Proof.
  induction l as [|x l IH]; [reflexivity|]. cbn [flat_map]. rewrite map_app, IH. reflexivity.
Qed.

Lemma flat_map_ext_all {A B} (f g : A -> list B) (l : list A) :
  (forall x, f x = g x) -> flat_map f l = flat_map g l.
Proof. intros H. induction l as [|x l IH]; [reflexivity|]. cbn [flat_map]. rewrite H, IH. reflexivity. Qed.

(* ---------- load_matrix ---------- *)
Lemma zip3_snoc {A B C} (a : list A) (b : list B) (c : list C) x y z :
  List.length a = List.length c -> List.length b = List.length c ->
  zip3 (a ++ [x]) (b ++ [y]) (c ++ [z]) = zip3 a b c ++ [(x, y, z)].
Proof.
  unfold zip3. revert b c. induction a as [|a0 a IH]; intros [|b0 b] [|c0 c] Ha Hb; try discriminate.
  - reflexivity.
  - cbn in Ha, Hb. cbn [app combine]. f_equal. apply IH; lia.
Qed.

Lemma zip3_length {A B C} (a : list A) (b : list B) (c : list C) :
  List.length a = List.length c -> List.length b = List.length c -> List.length (zip3 a b c) = List.length a.
Proof. intros Ha Hb. unfold zip3. rewrite !combine_length. lia. Qed.

Lemma list_max_r_snoc l x : list_max_r (l ++ [x]) = Ok (Nat.max (fold_left Nat.max l O) x).
Proof.
  unfold list_max_r. destruct (l ++ [x]) eqn:E.
  - destruct l; discriminate.
  - rewrite <- E, fold_left_app. reflexivity.
Qed.

Lemma fold_max_rows (row col : list nat) (data : list Z) : forall a,
  List.length row = List.length data -> List.length col = List.length data ->
  fold_left (fun acc e => Nat.max acc (e_row e)) (zip3 row col data) a = fold_left Nat.max row a /\
  fold_left (fun acc e => Nat.max acc (e_col e)) (zip3 row col data) a = fold_left Nat.max col a.
Proof.
  unfold zip3. revert col data. induction row as [|r row IH]; intros [|c col] [|d data] a Hr Hc; try discriminate.
  - split; reflexivity.
  - cbn in Hr, Hc. cbn [combine fold_left]. unfold e_row, e_col. cbn [fst snd].
    destruct (IH col data (Nat.max a r)) as [H1 _]; [lia | lia |].
    destruct (IH col data (Nat.max a c)) as [_ H2]; [lia | lia |].
    split; [exact H1 | exact H2].
Qed.

Lemma for_each_r_sim {G L A} (inv : G -> Prop) (abs : G -> L) (gb : G -> A -> result G) (hb : L -> A -> result L)
      (hl : L -> list A -> result L) :
  (forall st, hl st [] = Ok st) ->
  (forall st x r, hl st (x :: r) = match hb st x with Err e => Err e | Ok st' => hl st' r end) ->
  (forall g x, inv g -> match gb g x with
                        | Ok g' => inv g' /\ hb (abs g) x = Ok (abs g')
                        | Err e => hb (abs g) x = Err e
                        end) ->
  forall l g, inv g ->
    match for_each_r l gb g with
    | Ok g' => inv g' /\ hl (abs g) l = Ok (abs g')
    | Err e => hl (abs g) l = Err e
    end.
Proof.
  intros Hnil Hcons Hstep. induction l as [|x l IH]; intros g Hg.
  - cbn. split; [assumption | apply Hnil].
  - cbn [for_each_r]. specialize (Hstep g x Hg). rewrite Hcons.
    destruct (gb g x) as [g'|e]; cbn [rbind].
    + destruct Hstep as [Hg' Hh]. rewrite Hh. apply IH. assumption.
    + rewrite Hstep. reflexivity.
Qed.
