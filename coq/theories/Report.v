(* Report.v -- model of QUBOContainer.report (src/vrpqubo/tools/qubo_tools.py), property C20.
   Definitions only; the proofs are in Report_facts.v.

   Numbers are integers (Z).  The harness feeds the implementation dyadic values k/16 and
   hands the model the same values multiplied by 16; every quantity of the report except the
   counts is homogeneous of degree one in that scale.  On such values the test
   `abs(obj_val - opt_val) <= 1e-16` is equality, which is what tolerance 0 means below; an
   explicit integer tolerance (argument `tol` of report) is modelled as well. *)
From Coq Require Import ZArith List Bool Lia PeanoNat.
From VQ Require Import Base LinAlg.
Open Scope Z_scope.

(* ---------- finite sums over Z (LinAlg at the ring Z) ---------- *)
Definition zsum (n : nat) (f : nat -> Z) : Z := sum_n 0 Z.add n f.

(* ---------- matrices, the three container patterns ---------- *)
Definition zmat := nat -> nat -> Z.
Definition mat_of (rows : list (list Z)) : zmat := fun i j => nth j (nth i rows []) 0.

Inductive pattern := Upper | Symmetric | General.

(* sp.tril(M, k=-1) *)
Definition tril_strict (M : zmat) : zmat := fun i j => if (j <? i)%nat then M i j else 0.
(* to_upper_triangular:  UT = lil(M) + LT.transpose() - LT *)
Definition to_upper (M : zmat) : zmat := fun i j => M i j + tril_strict M j i - tril_strict M i j.
(* to_symmetric:  S = M; S += S.transpose(); S *= 0.5
   (exact when M i j + M j i is even, which the scale factor 16 guarantees) *)
Definition to_symmetric (M : zmat) : zmat := fun i j => (M i j + M j i) / 2.
(* QUBOContainer.__init__: self.Q *)
Definition container_Q (p : pattern) (M : zmat) : zmat :=
  match p with
  | Upper => to_upper M
  | Symmetric => to_symmetric M
  | General => M
  end.

(* ---------- assignments ---------- *)
(* x = [int(s) for s in format(v, '0{}b'.format(n))] : n binary digits of v, most significant first *)
Fixpoint bits (n v : nat) : list bool :=
  match n with
  | O => []
  | S m => Nat.testbit v m :: bits m v
  end.
(* for v in range(1, 2**n) *)
Definition loop_assignments (n : nat) : list (list bool) := map (bits n) (seq 1 (2 ^ n - 1)).

Definition b2z (b : bool) : Z := if b then 1 else 0.
Definition xval (x : list bool) (i : nat) : Z := b2z (nth i x false).

(* evaluate_QUBO:  np.dot(Q.dot(x), x) + c *)
Definition eval_qubo (n : nat) (Q : zmat) (c : Z) (x : list bool) : Z :=
  zsum n (fun i => zsum n (fun j => Q i j * xval x j) * xval x i) + c.

(* ---------- the scan of report(obj_stats=True) ---------- *)
(* state: (sum of the values seen, opt_val, second_best, opt_count); exp_val = sum / 2^n *)
Definition sstate := (Z * Z * option Z * nat)%type.

Definition scan_step (tol : Z) (st : sstate) (v : Z) : sstate :=
  match st with
  | (sm, opt, sec, cnt) =>
      if Z.abs (v - opt) <=? tol then (sm + v, opt, sec, S cnt)
      else if v <? opt then (sm + v, v, Some opt, 1%nat)
      else match sec with
           | None => (sm + v, opt, Some v, cnt)
           | Some s => if v <? s then (sm + v, opt, Some v, cnt) else (sm + v, opt, sec, cnt)
           end
  end.

(* the loop over an explicit list of objective values, started from the value v0 of x = 0 *)
Definition scan_list (tol v0 : Z) (vs : list Z) : sstate :=
  fold_left (scan_step tol) vs (v0, v0, None, 1%nat).

(* opt_val starts as const_qubo; the loop visits v = 1 .. 2^n-1 *)
Definition scan (tol : Z) (n : nat) (c : Z) (f : list bool -> Z) : sstate :=
  scan_list tol c (map f (loop_assignments n)).

(* ---------- brute-force reference statistics ---------- *)
(* all bit vectors of length n, in lexicographic order *)
Fixpoint enum (n : nat) : list (list bool) :=
  match n with
  | O => [[]]
  | S m => map (cons false) (enum m) ++ map (cons true) (enum m)
  end.

Definition ref_sum (l : list Z) : Z := fold_right Z.add 0 l.
Definition ref_min (v0 : Z) (vs : list Z) : Z := fold_right Z.min v0 vs.
Definition ref_count (m : Z) (l : list Z) : nat := length (filter (Z.eqb m) l).
(* least value strictly above m, if any *)
Definition ref_second (m : Z) (l : list Z) : option Z :=
  match filter (fun v => m <? v) l with
  | [] => None
  | a :: r => Some (fold_right Z.min a r)
  end.
Definition ref_stats (v0 : Z) (vs : list Z) : sstate :=
  let m := ref_min v0 vs in
  (ref_sum (v0 :: vs), m, ref_second m (v0 :: vs), ref_count m (v0 :: vs)).

(* what the four statistics mean, stated without reference to any algorithm: st describes the
   non-empty list l iff  sum = the sum of l;  opt is a member of l below every member;  count is
   the number of members equal to opt;  second is None when every member equals opt, otherwise
   the member strictly above opt that is below every other member strictly above opt *)
Definition stats_spec (l : list Z) (st : sstate) : Prop :=
  match st with
  | (sm, opt, sec, cnt) =>
      sm = ref_sum l /\ In opt l /\ (forall v, In v l -> opt <= v) /\ cnt = ref_count opt l /\
      match sec with
      | None => forall v, In v l -> v = opt
      | Some s => In s l /\ opt < s /\ (forall v, In v l -> opt < v -> s <= v)
      end
  end.

(* statistics of f over all 2^n assignments *)
Definition brute (n : nat) (f : list bool -> Z) : sstate :=
  match map f (enum n) with
  | [] => (0, 0, None, O)            (* not reached: enum n is never empty *)
  | v0 :: vs => ref_stats v0 vs
  end.

(* ---------- structural metrics ---------- *)
Definition nz (z : Z) : Z := if z =? 0 then 0 else 1.
(* matrix.nnz after eliminate_zeros: number of stored (= non-zero) entries *)
Definition nnz (n : nat) (U : zmat) : Z := zsum n (fun i => zsum n (fun j => nz (U i j))).
(* np.unique(matrix.diagonal()).size *)
Definition distinct_diag (n : nat) (U : zmat) : nat :=
  length (nodup Z.eq_dec (map (fun i => U i i) (seq 0 n))).

(* size, num_observables, density as (numerator, denominator) = (2*nnz, (n+1)*n), distinct diagonal values *)
Definition metrics := (nat * Z * (Z * Z) * nat)%type.
Definition metrics_of (n : nat) (U : zmat) : metrics :=
  (n, nnz n U, (2 * nnz n U, (Z.of_nat n + 1) * Z.of_nat n), distinct_diag n U).

(* report(obj_stats, tol) of QUBOContainer(M, c, pattern) *)
Definition report (p : pattern) (n : nat) (M : zmat) (c : Z) (obj_stats : bool) (tol : Z)
  : metrics * option sstate :=
  let Q := container_Q p M in
  let U := to_upper Q in
  (metrics_of n U, if obj_stats then Some (scan tol n c (eval_qubo n Q c)) else None).

(* the coefficient of x_i x_j (i <= j) in the objective polynomial of matrix Q *)
Definition coef (Q : zmat) (i j : nat) : Z := if (i =? j)%nat then Q i i else Q i j + Q j i.

(* ---------- correspondence ---------- *)
(* what the harness reads off the returned dict: size, num_observables, the integer pair the
   float density is the quotient of, distinct_eigenvalues, and with obj_stats
   (expected_value * 2^n, optimal_value, num_solutions, optimality_gap or None when the key is absent) *)
Definition robs := (nat * Z * (Z * Z) * nat * option (Z * Z * nat * option Z))%type.
Definition rcase := (pattern * nat * list (list Z) * Z * bool * Z * robs)%type.

Definition zpair_eqb (a b : Z * Z) : bool := (fst a =? fst b) && (snd a =? snd b).

Definition check_rcase (c : rcase) : list nat :=
  match c with
  | (p, n, rows, k, os, tol, (isz, innz, idens, idist, istats)) =>
      match report p n (mat_of rows) k os tol with
      | ((msz, mnnz, mdens, mdist), mstats) =>
          chk 1 (Nat.eqb msz isz) ++ chk 2 (mnnz =? innz) ++ chk 3 (zpair_eqb mdens idens) ++
          chk 4 (Nat.eqb mdist idist) ++
          match mstats, istats with
          | None, None => []
          | Some (sm, opt, sec, cnt), Some (ism, iopt, icnt, igap) =>
              chk 6 (sm =? ism) ++ chk 7 (opt =? iopt) ++ chk 8 (Nat.eqb cnt icnt) ++
              chk 9 (option_eqb Z.eqb (option_map (fun s => s - opt) sec) igap)
          | _, _ => [5%nat]
          end
      end
  end.
