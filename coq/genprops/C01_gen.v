(* C01_gen -- the definitions GENERATED from src/vrpqubo/tools/qubo_tools.py (coq/gen/QuboGen.v, written by
   harness/translate_qubotools.py on every run of bin/check C01) coincide with the hand model Qubo.v, and
   the C01 energy theorems hold for the generated converters, evaluators and maps.

   Not part of the coq_makefile project (it depends on a generated file); harness/props/c01.py compiles
   gen/QuboGen.v and then this file (ctx.gen_step) and counts every theorem below as a proof obligation.

   All statements: every carrier K with ring operations (ring_theory, Leibniz equality), every size /
   shape, every matrix and vector given by its entries -- nothing is evaluated on samples.  A generated
   function takes shaped values (PyQubo.pmat / pvec); `mat_is P sh M` = "P has shape sh and the entries
   of M at ALL indices".  `trunc` stands for ndarray.astype(int) on one entry; it is arbitrary wherever
   the code does not apply it, the identity where the algebraic hand model (x2s, s2x) is meant, and
   trunc_Qc where the literal hand model (x2s_t, s2x_t) is meant. *)
From Coq Require Import Ring Arith ZArith Lia List Bool String QArith Qcanon.
From VQ Require Import Base LinAlg Qubo Qubo_facts PyQubo PyQubo_facts.
From VQG Require Import QuboGen.
Set Printing Width 400.

Section C01_gen.
  Variables (K : Type) (k0 k1 : K) (kadd kmul ksub : K -> K -> K) (kopp : K -> K).
  Hypothesis Kring : ring_theory k0 k1 kadd kmul ksub kopp (@eq K).
  Add Ring KrG1 : Kring.
  Variables (half quarter : K).
  Hypothesis Hhalf : kmul (two K k1 kadd) half = k1.
  Hypothesis Hquarter : kmul (four K k1 kadd) quarter = k1.

  Notation vec := (nat -> K).
  Notation mat := (nat -> nat -> K).
  Notation ops_of t := (mkops k0 k1 kadd kmul ksub kopp half quarter t).
  Notation binary := (LinAlg.binary K k0 k1).
  Notation x2s := (Qubo.x2s K k1 kadd kmul ksub).
  Notation s2x := (Qubo.s2x K k1 kmul ksub half).
  Notation eQ := (Qubo.eQ K k0 kadd kmul).
  Notation eI := (Qubo.eI K k0 kadd kmul).
  Notation q2i_J := (Qubo.q2i_J K k0 kmul quarter).
  Notation q2i_h := (Qubo.q2i_h K k0 kadd kmul kopp quarter).
  Notation q2i_c := (Qubo.q2i_c K k0 kadd kmul quarter).
  Notation q2i_checked := (Qubo.q2i_checked K k0 kadd kmul kopp quarter).
  Notation i2q_Q := (Qubo.i2q_Q K k0 k1 kadd kmul ksub).
  Notation i2q_c := (Qubo.i2q_c K k0 kadd).
  Notation i2q_checked := (Qubo.i2q_checked K k0 k1 kadd kmul ksub).

  (* ---------------- the variable maps ---------------- *)
  (* x_to_s: (1 - 2*x).astype(int) -- entry i is trunc (x2s x i); with no truncation it is x2s *)
  Theorem C01_gen_x_to_s : forall (trunc : K -> K) (n : nat) (x : vec),
    vec_is (gen_x_to_s K (ops_of trunc) (mkvec n x)) n (fun i => trunc (x2s x i)) /\
    vec_is (gen_x_to_s K (ops_of (fun v => v)) (mkvec n x)) n (x2s x).
  Proof. intros. unfold gen_x_to_s. py_simpl. repeat split; py_close. Qed.

  (* s_to_x: 0.5 * (1 - s).astype(int) *)
  Theorem C01_gen_s_to_x : forall (trunc : K -> K) (n : nat) (s : vec),
    vec_is (gen_s_to_x K (ops_of trunc) (mkvec n s)) n (fun i => kmul half (trunc (ksub k1 (s i)))) /\
    vec_is (gen_s_to_x K (ops_of (fun v => v)) (mkvec n s)) n (s2x s).
  Proof. intros. unfold gen_s_to_x. py_simpl. repeat split; py_close. Qed.

  (* ---------------- the evaluators ---------------- *)
  (* evaluate_QUBO: np.dot(np.atleast_1d(Q.dot(x)), x) + c  is  x'Qx + c  for every square Q *)
  Theorem C01_gen_evaluate_QUBO : forall (trunc : K -> K) (n : nat) (P : pmat K) (c : K) (v : pvec K),
    mshape P = (n, n) ->
    gen_evaluate_QUBO K (ops_of trunc) P c v = eQ n (ent P) c (vent v).
  Proof.
    intros trunc n P c v HP. unfold gen_evaluate_QUBO, Qubo.eQ. py_simpl. rewrite HP. py_simpl.
    rewrite (dot_mv_qf K k0 k1 kadd kmul ksub kopp Kring). reflexivity.
  Qed.

  (* evaluate_Ising: np.dot(np.atleast_1d(J.dot(s)), s) + np.dot(h, s) + c *)
  Theorem C01_gen_evaluate_Ising :
    forall (trunc : K -> K) (n : nat) (P : pmat K) (h : pvec K) (c : K) (v : pvec K),
    mshape P = (n, n) -> vlen h = n ->
    gen_evaluate_Ising K (ops_of trunc) P h c v = eI n (ent P) (vent h) c (vent v).
  Proof.
    intros trunc n P h c v HP Hh. unfold gen_evaluate_Ising, Qubo.eI. py_simpl. rewrite HP, Hh. py_simpl.
    rewrite (dot_mv_qf K k0 k1 kadd kmul ksub kopp Kring). reflexivity.
  Qed.

  (* ---------------- get_Ising_J_h ---------------- *)
  (* (matrix with its diagonal zeroed, copy of the old diagonal); applied to 0.25*Q it is the J of the model *)
  Theorem C01_gen_get_Ising_J_h : forall (trunc : K -> K) (sh : nat * nat) (M : mat),
    mat_is (fst (gen_get_Ising_J_h K (ops_of trunc) (mkmat sh M))) sh (fun i j => if Nat.eqb i j then k0 else M i j) /\
    vec_is (snd (gen_get_Ising_J_h K (ops_of trunc) (mkmat sh M))) (Nat.min (fst sh) (snd sh)) (fun i => M i i) /\
    mat_is (fst (gen_get_Ising_J_h K (ops_of trunc) (mscal (ops_of trunc) quarter (mkmat sh M)))) sh (q2i_J M).
  Proof. intros. repeat split; reflexivity. Qed.

  (* ---------------- QUBO_to_Ising ---------------- *)
  (* same outcome as the hand model for EVERY shape (ValueError exactly on the non-square ones), and on
     square shapes J, h, c are the model's q2i_J, q2i_h, q2i_c entry by entry *)
  Theorem C01_gen_QUBO_to_Ising : forall (trunc : K -> K) (sh : nat * nat) (Q : mat) (c : K),
    res_rel (fun g m => mat_is (fst (fst g)) sh (fst (fst m)) /\
                        vec_is (snd (fst g)) (fst sh) (snd (fst m)) /\
                        snd g = snd m)
            (gen_QUBO_to_Ising K (ops_of trunc) (mkmat sh Q) c)
            (q2i_checked sh Q c).
  Proof.
    intros trunc [n m] Q c. unfold gen_QUBO_to_Ising, Qubo.q2i_checked, Qubo.q2i, square. py_simpl.
    destruct (Nat.eqb_spec n m) as [<-|Hne]; cbn [negb res_rel]; [|reflexivity].
    py_simpl. rewrite ?Nat.min_id. repeat split; py_close.
  Qed.

  (* ---------------- Ising_to_QUBO ---------------- *)
  Theorem C01_gen_Ising_to_QUBO :
    forall (trunc : K -> K) (sh : nat * nat) (hlen : nat) (J : mat) (h : vec) (c : K),
    res_rel (fun g m => mat_is (fst g) sh (fst m) /\ snd g = snd m)
            (gen_Ising_to_QUBO K (ops_of trunc) (mkmat sh J) (mkvec hlen h) c)
            (i2q_checked sh hlen J h c).
  Proof.
    intros trunc [n m] hlen J h c.
    unfold gen_Ising_to_QUBO, Qubo.i2q_checked, Qubo.i2q, square. py_simpl.
    destruct (Nat.eqb_spec n m) as [<-|Hne]; cbn [negb res_rel]; [|reflexivity].
    destruct (Nat.eqb_spec n hlen) as [<-|Hne]; cbn [negb res_rel]; [|reflexivity].
    py_simpl. repeat split; py_close.
  Qed.

  (* the default value of `const` in both converters is 0 *)
  Theorem C01_gen_defaults : forall (trunc : K -> K),
    gen_QUBO_to_Ising_default_const K (ops_of trunc) = k0 /\
    gen_Ising_to_QUBO_default_const K (ops_of trunc) = k0.
  Proof. intros. split; reflexivity. Qed.

  (* ---------------- the C01 energy equalities, for the GENERATED functions ---------------- *)
  (* evaluate_Ising(J, h, c1, x_to_s(x)) with (J, h, c1) = QUBO_to_Ising(Q, c) is = evaluate_QUBO(Q, c, x) for every n, every n x n matrix Q
     (symmetric or not, any diagonal), every constant and every binary x -- with astype(int) in x_to_s
     being any function that fixes 1 and -1 *)
  Theorem C01_gen_qubo_to_ising_energy : forall (trunc : K -> K),
    trunc k1 = k1 -> trunc (kopp k1) = kopp k1 ->
    forall (n : nat) (Q : mat) (c : K) (x : vec), binary n x ->
    exists J h c',
      gen_QUBO_to_Ising K (ops_of trunc) (mkmat (n, n) Q) c = Ok (J, h, c') /\
      gen_evaluate_Ising K (ops_of trunc) J h c' (gen_x_to_s K (ops_of trunc) (mkvec n x))
      = gen_evaluate_QUBO K (ops_of trunc) (mkmat (n, n) Q) c (mkvec n x).
  Proof.
    intros trunc H1 Hm1 n Q c x Hb.
    pose proof (C01_gen_QUBO_to_Ising trunc (n, n) Q c) as HR.
    unfold Qubo.q2i_checked, square in HR. cbn [fst snd] in HR. rewrite Nat.eqb_refl in HR.
    destruct (gen_QUBO_to_Ising K (ops_of trunc) (mkmat (n, n) Q) c) as [[[J h] c']|e]; [|contradiction].
    cbn [res_rel Qubo.q2i fst snd] in HR. destruct HR as [[HJs HJ] [[Hhl Hh] Hc]].
    exists J, h, c'. split; [reflexivity|].
    rewrite (C01_gen_evaluate_Ising trunc n J h c' _ HJs Hhl).
    rewrite (C01_gen_evaluate_QUBO trunc n (mkmat (n, n) Q) c (mkvec n x) eq_refl).
    cbn [ent vent].
    transitivity (eI n (q2i_J Q) (q2i_h n Q) (q2i_c n Q c) (x2s x)).
    - apply eI_ext; auto.
      intros i Hi. destruct (C01_gen_x_to_s trunc n x) as [[_ E] _]. rewrite E.
      exact (trunc_x2s K k0 k1 kadd kmul ksub kopp Kring trunc n x i H1 Hm1 Hb Hi).
    - exact (q2i_energy K k0 k1 kadd kmul ksub kopp Kring quarter Hquarter n Q c x Hb).
  Qed.

  (* evaluate_QUBO(Q1, c1, x) with (Q1, c1) = Ising_to_QUBO(J, h, c) is evaluate_Ising(J, h, c, x_to_s(x)): J with ANY diagonal *)
  Theorem C01_gen_ising_to_qubo_energy : forall (trunc : K -> K),
    trunc k1 = k1 -> trunc (kopp k1) = kopp k1 ->
    forall (n : nat) (J : mat) (h : vec) (c : K) (x : vec), binary n x ->
    exists Q' c',
      gen_Ising_to_QUBO K (ops_of trunc) (mkmat (n, n) J) (mkvec n h) c = Ok (Q', c') /\
      gen_evaluate_QUBO K (ops_of trunc) Q' c' (mkvec n x)
      = gen_evaluate_Ising K (ops_of trunc) (mkmat (n, n) J) (mkvec n h) c (gen_x_to_s K (ops_of trunc) (mkvec n x)).
  Proof.
    intros trunc H1 Hm1 n J h c x Hb.
    pose proof (C01_gen_Ising_to_QUBO trunc (n, n) n J h c) as HR.
    unfold Qubo.i2q_checked, square in HR. cbn [fst snd] in HR. rewrite Nat.eqb_refl in HR. cbn [negb] in HR.
    destruct (gen_Ising_to_QUBO K (ops_of trunc) (mkmat (n, n) J) (mkvec n h) c) as [[Q' c']|e]; [|contradiction].
    cbn [res_rel Qubo.i2q fst snd] in HR. destruct HR as [[HQs HQ] Hc].
    exists Q', c'. split; [reflexivity|].
    rewrite (C01_gen_evaluate_QUBO trunc n Q' c' (mkvec n x) HQs).
    rewrite (C01_gen_evaluate_Ising trunc n (mkmat (n, n) J) (mkvec n h) c _ eq_refl eq_refl).
    cbn [ent vent]. rewrite Hc.
    transitivity (eQ n (i2q_Q n J h) (i2q_c n J h c) x).
    - apply eQ_ext; auto.
    - rewrite (i2q_energy K k0 k1 kadd kmul ksub kopp Kring n J h c x Hb).
      apply eI_ext; auto.
      intros i Hi. destruct (C01_gen_x_to_s trunc n x) as [[_ E] _]. rewrite E.
      symmetry. exact (trunc_x2s K k0 k1 kadd kmul ksub kopp Kring trunc n x i H1 Hm1 Hb Hi).
  Qed.
End C01_gen.

Print Assumptions C01_gen_x_to_s.
Print Assumptions C01_gen_s_to_x.
Print Assumptions C01_gen_evaluate_QUBO.
Print Assumptions C01_gen_evaluate_Ising.
Print Assumptions C01_gen_get_Ising_J_h.
Print Assumptions C01_gen_QUBO_to_Ising.
Print Assumptions C01_gen_Ising_to_QUBO.
Print Assumptions C01_gen_defaults.
Print Assumptions C01_gen_qubo_to_ising_energy.
Print Assumptions C01_gen_ising_to_qubo_energy.

(* ---------------- carrier Qc, astype(int) read literally (truncation towards zero) ---------------- *)
Definition ops_Qc : ops Qc := mkops 0%Qc 1%Qc Qcplus Qcmult Qcminus Qcopp Qc_half Qc_quarter trunc_Qc.

(* the generated maps ARE the literal hand model x2s_t / s2x_t (the one the correspondence computes with) *)
Theorem C01_gen_Qc_literal_maps : forall (n : nat) (v : nat -> Qc),
  vec_is (gen_x_to_s Qc ops_Qc (mkvec n v)) n (x2s_t v) /\
  vec_is (gen_s_to_x Qc ops_Qc (mkvec n v)) n (s2x_t v).
Proof. intros. split; split; reflexivity. Qed.
Print Assumptions C01_gen_Qc_literal_maps.

Theorem C01_gen_Qc_qubo_to_ising_energy : forall (n : nat) (Q : nat -> nat -> Qc) (c : Qc) (x : nat -> Qc),
  LinAlg.binary Qc 0%Qc 1%Qc n x ->
  exists J h c',
    gen_QUBO_to_Ising Qc ops_Qc (mkmat (n, n) Q) c = Ok (J, h, c') /\
    gen_evaluate_Ising Qc ops_Qc J h c' (gen_x_to_s Qc ops_Qc (mkvec n x))
    = gen_evaluate_QUBO Qc ops_Qc (mkmat (n, n) Q) c (mkvec n x).
Proof.
  exact (C01_gen_qubo_to_ising_energy Qc 0%Qc 1%Qc Qcplus Qcmult Qcminus Qcopp Qcrt Qc_half Qc_quarter Qc_quarter_ok
           trunc_Qc trunc_Qc_one trunc_Qc_minus_one).
Qed.
Print Assumptions C01_gen_Qc_qubo_to_ising_energy.

Theorem C01_gen_Qc_ising_to_qubo_energy :
  forall (n : nat) (J : nat -> nat -> Qc) (h : nat -> Qc) (c : Qc) (x : nat -> Qc),
  LinAlg.binary Qc 0%Qc 1%Qc n x ->
  exists Q' c',
    gen_Ising_to_QUBO Qc ops_Qc (mkmat (n, n) J) (mkvec n h) c = Ok (Q', c') /\
    gen_evaluate_QUBO Qc ops_Qc Q' c' (mkvec n x)
    = gen_evaluate_Ising Qc ops_Qc (mkmat (n, n) J) (mkvec n h) c (gen_x_to_s Qc ops_Qc (mkvec n x)).
Proof.
  exact (C01_gen_ising_to_qubo_energy Qc 0%Qc 1%Qc Qcplus Qcmult Qcminus Qcopp Qcrt Qc_half Qc_quarter
           trunc_Qc trunc_Qc_one trunc_Qc_minus_one).
Qed.
Print Assumptions C01_gen_Qc_ising_to_qubo_energy.
