(* C10 (generator half), generated model.  TestSetGen.v is printed on every run by harness/translate_testset.py
   from src/vrpqubo/test_feasibility.py (test_feasibility, convenience, do_all, print_summary) and
   src/vrpqubo/generate_test_set.py (gen) of the tree under test.  This file proves, for ALL inputs, oracles
   and call logs, that the generated functions equal the hand model (TestFeas.v; TestSetHand.v for the calls
   made to other modules), and restates the C10_testset headline theorems for the generated functions.
   Only theorems here; combinators in theories/PyTestSet.v, lemmas in theories/PyTestSet_facts.v. *)
From Coq Require Import ZArith List Bool String Ascii Lia.
From VQ Require Import Base LinAlg Penalty Penalty_facts Export Export_facts PyMat TestFeas TestFeas_facts
                       PyTestSet TestSetHand PyTestSet_facts.
From VQG Require Import TestSetGen.
Import ListNotations.
Local Open Scope string_scope.
Open Scope Z_scope.

(* ============================ test_feasibility ============================ *)
(* x, b_eq: 1-d arrays; A_eq: an ndarray with rows A, or a scipy.sparse container whose dense meaning is A
   (any stored entries es); Q_eq: a sparse container with stored entries Q; r_eq: a number.  With
   len(A) = len(b) (TestFeas.v's shape assumption) the generated function makes no external call and returns
   exactly the hand model's triple. *)
Theorem C10_testset_gen_test_feasibility_eq : forall o tr x A b Q r a,
  List.length A = List.length b ->
  (a = tmat A (List.length x) \/
   exists es, a = TSparse (List.length A) (List.length x) es /\ forall i j, coo_dense es i j = Zmat_of A i j) ->
  gen_test_feasibility o (tvec x) a (tvec b) (TSparse (List.length x) (List.length x) Q) (tnum r) tr
  = (tr, Ok (measures_tv (test_feasibility x A b Q r))).
Proof.
  intros o tr x A b Q r a H [-> | (es & -> & He)]; unfold gen_test_feasibility; ts_red;
    rewrite !Nat.eqb_refl; ts_red; unfold bcast_cmp; rewrite H, Nat.eqb_refl.
  - reflexivity.
  - rewrite (vio_l_ext _ A b x He). reflexivity.
Qed.
Print Assumptions C10_testset_gen_test_feasibility_eq.

(* shapes that do not fit raise ValueError, as numpy / scipy do: A_eq.dot(x) with the wrong number of columns *)
Theorem C10_testset_gen_test_feasibility_shape : forall o tr x A c b Q r,
  c <> List.length x ->
  gen_test_feasibility o (tvec x) (tmat A c) (tvec b) (TSparse (List.length x) (List.length x) Q) (tnum r) tr
  = (tr, Err ValueError).
Proof.
  intros o tr x A c b Q r H. unfold gen_test_feasibility. ts_red.
  apply Nat.eqb_neq in H. rewrite H. reflexivity.
Qed.
Print Assumptions C10_testset_gen_test_feasibility_shape.

(* C10_testset_measures_zero_iff for the generated function: it reports "nothing violated" exactly when
   A x = b row by row and x'Qx = r *)
Theorem C10_testset_gen_measures_zero_iff : forall o tr x A b Q r,
  List.length A = List.length b ->
  let n := List.length x in
  (exists vl k, gen_test_feasibility o (tvec x) (tmat A n) (tvec b) (TSparse n n Q) (tnum r) tr
                = (tr, Ok (TTuple [TBools vl; tnum 0; tnat k])) /\ Forall (fun v => v = false) vl) <->
  ((forall k, (k < List.length b)%nat -> Zmv n (Zmat_of A) (Zvec_of x) k = Zvec_of b k) /\
   Zqf n (coo_dense Q) (Zvec_of x) = r).
Proof.
  intros o tr x A b Q r H n. subst n.
  rewrite (C10_testset_gen_test_feasibility_eq o tr x A b Q r _ H (or_introl eq_refl)).
  rewrite <- measures_zero_iff. unfold test_feasibility, measures_tv, tnum. split.
  - intros (vl & k & E & Hv). inversion E; subst. split; [exact Hv | reflexivity].
  - intros [Hv Hq]. exists (vio_l A b x), (nnz Q). rewrite Hq. split; [reflexivity | exact Hv].
Qed.
Print Assumptions C10_testset_gen_measures_zero_iff.

(* ============================ convenience ============================ *)
(* The three calls to other modules are oracles: load_spins(sname) -> spins, s_to_x(spins) -> the 1-d array x,
   np.load(fname, allow_pickle=True) -> the archive np.savez wrote from d (sparse containers wrapped in 0-d
   object arrays, TestSetHand.npz_of).  Shapes as TestFeas.v assumes them (len(x) = n columns, len(A) = len(b));
   a sparse A_eq has any stored entries esA with dense meaning cA d.  Then the value convenience returns is
   TestFeas's unwrapping logic conv_core (= convenience_data without the doubling device): ValueError for a
   sparse A_eq without rows and >= 2 variables, else the in-memory measures.
   (Corner outside the hand model, excluded by the last hypothesis: a DENSE A_eq with rows but no column --
   A_eq.item(0) raises IndexError.) *)
Theorem C10_testset_gen_convenience_core : forall o fname sname spins x d n esA,
  (forall tr, o tr ".tools.load_tools.load_spins" [sname] [] = Ok spins) ->
  (forall tr, o tr ".tools.qubo_tools.s_to_x" [spins] [] = Ok (tvec x)) ->
  (forall tr, o tr "numpy.load" [fname] [("allow_pickle", tbool true)] = Ok (npz_of d n esA)) ->
  List.length x = n -> List.length (cA d) = List.length (cb d) ->
  (forall i j, coo_dense esA i j = Zmat_of (cA d) i j) ->
  (cA_sparse d = false -> cb d <> [] -> (0 < n)%nat) ->
  forall tr, snd (gen_convenience o fname sname tr) = rmap measures_tv (conv_core x d).
Proof.
  intros o fname sname spins x d n esA H1 H2 H3 Hn HA Hd Hc tr.
  destruct d as [A sp b Q r]. cbn [cA cb cQ cr cA_sparse] in *. subst n.
  unfold gen_convenience. ts_red. rewrite H1. ts_red. rewrite H2. ts_red. rewrite H3.
  unfold npz_of, a_val, q_val, conv_core. cbn [cA cb cQ cr cA_sparse].
  destruct sp; destruct b as [|b0 b'].
  - ts_red. cbn [List.length Z.of_nat Z.gtb Z.compare]. ts_red.
    destruct x as [|x0 [|x1 x']]; cbn [List.length Nat.leb andb Nat.eqb];
      unfold gen_test_feasibility; ts_red; reflexivity.
  - ts_red. cbn [List.length Z.of_nat Z.gtb Z.compare]. ts_red.
    rewrite (C10_testset_gen_test_feasibility_eq o _ x A (b0 :: b') Q r _ HA).
    + reflexivity.
    + right. exists esA. rewrite HA. split; [reflexivity | exact Hd].
  - ts_red. cbn [List.length Z.of_nat Z.gtb Z.compare]. ts_red.
    rewrite (C10_testset_gen_test_feasibility_eq o _ x A [] Q r _ HA); [reflexivity | left; reflexivity].
  - ts_red. cbn [List.length Z.of_nat Z.gtb Z.compare]. ts_red.
    assert (E : (List.length A * List.length x =? 0)%nat = false).
    { apply Nat.eqb_neq. specialize (Hc eq_refl ltac:(discriminate)). cbn [List.length] in HA. nia. }
    rewrite E. ts_red.
    rewrite (C10_testset_gen_test_feasibility_eq o _ x A (b0 :: b') Q r _ HA); [reflexivity | left; reflexivity].
Qed.
Print Assumptions C10_testset_gen_convenience_core.

(* an exception of load_spins is convenience's exception *)
Theorem C10_testset_gen_convenience_load_error : forall o fname sname e,
  (forall tr, o tr ".tools.load_tools.load_spins" [sname] [] = Err e) ->
  forall tr, snd (gen_convenience o fname sname tr) = Err e.
Proof. intros o fname sname e H tr. unfold gen_convenience. ts_red. rewrite H. reflexivity. Qed.
Print Assumptions C10_testset_gen_convenience_load_error.

(* generated convenience = TestFeas.convenience.  The hand model carries x = 0.5 (1 - s) as 2 x and the
   data as (A, 2 b, Q, 4 r) (TestFeas.v, Part 3); the generated function is run on that representation:
   load_spins answers with TestFeas.load_spins of the file's bytes, s_to_x with s_to_x2, np.load with the
   doubled data. *)
Theorem C10_testset_gen_convenience_eq :
  forall o (npz : Type) (load : npz -> cdata) (f : npz) fname sname sol n esA,
  conv_world o load f fname sname sol n esA ->
  (forall spins, load_spins sol = Ok spins -> List.length spins = n) ->
  data_ok (load f) n esA ->
  forall tr, snd (gen_convenience o fname sname tr) = rmap measures_tv (convenience load f sol).
Proof.
  intros o npz load f fname sname sol n esA (H1 & H2 & H3) Hn (HA & Hd & Hc) tr. unfold convenience.
  destruct (load_spins sol) as [spins|e] eqn:E.
  - rewrite (C10_testset_gen_convenience_core o fname sname (tvec spins) (s_to_x2 spins) (double_data (load f)) n esA);
      try assumption.
    + unfold conv_core, convenience_data, double_data, s_to_x2. cbn [cA cb cQ cr cA_sparse].
      rewrite !map_length. reflexivity.
    + intros tr0. apply H2.
    + unfold s_to_x2. rewrite map_length. apply Hn. reflexivity.
    + unfold double_data. cbn [cA cb]. rewrite map_length. exact HA.
    + unfold double_data. cbn [cA_sparse cb]. intros Hs Hb. apply Hc; [exact Hs|].
      intros Hb0. apply Hb. rewrite Hb0. reflexivity.
  - apply C10_testset_gen_convenience_load_error. exact H1.
Qed.
Print Assumptions C10_testset_gen_convenience_eq.

(* ---------- the headline of C10_testset, for the generated functions ---------- *)
(* C10_testset_convenience_roundtrip: for every save / load pair with load (save d) = d, every integer vector
   x with entries in [-16383, 16383] (every 0-1 vector) and loadable data d: the generated convenience() on
   the archive saved from d and the spins file written from x returns what the generated test_feasibility
   returns in memory on (x, d) -- the same boolean vector, the same nnz, vio_q in quarters (scale_measures). *)
Theorem C10_testset_gen_convenience_roundtrip :
  forall (npz : Type) (save : cdata -> npz) (load : npz -> cdata), (forall d, load (save d) = d) ->
  forall o fname sname x d esA,
    conv_world o load (save d) fname sname (sol_bytes x) (List.length x) esA ->
    data_ok d (List.length x) esA ->
    Forall (fun v => -16383 <= v <= 16383) x -> loadable (List.length x) d ->
    forall tr,
      snd (gen_convenience o fname sname tr)
      = Ok (measures_tv (scale_measures (test_feasibility x (cA d) (cb d) (cQ d) (cr d)))) /\
      snd (gen_test_feasibility o (tvec x) (a_val d (List.length x) esA) (tvec (cb d)) (q_val d (List.length x))
                                (tnum (cr d)) tr)
      = Ok (measures_tv (test_feasibility x (cA d) (cb d) (cQ d) (cr d))).
Proof.
  intros npz save load Hls o fname sname x d esA Hw Hd Hx Hl tr. split.
  - rewrite (C10_testset_gen_convenience_eq o npz load (save d) fname sname (sol_bytes x) (List.length x) esA Hw).
    + rewrite (convenience_roundtrip save load Hls x d Hx Hl). reflexivity.
    + intros spins E. unfold sol_bytes in E. rewrite (load_write_spins _ (x_to_s_short x Hx)) in E.
      inversion E. unfold x_to_s. apply map_length.
    + rewrite Hls. exact Hd.
  - destruct Hd as (HA & He & _). unfold a_val, q_val.
    rewrite (C10_testset_gen_test_feasibility_eq o tr x (cA d) (cb d) (cQ d) (cr d) _ HA); [reflexivity|].
    destruct (cA_sparse d); [right; exists esA; split; [reflexivity | exact He] | left; reflexivity].
Qed.
Print Assumptions C10_testset_gen_convenience_roundtrip.

(* C10_testset_stored_solution (the `_f` instances): x a 0-1 vector at which the feasibility-mode QUBO
   (default penalty) built from (Af, bf, R) has value 0, R >= 0 entrywise, and (A, b, Q) saved data with these
   dense meanings: the generated convenience() on the written files reports no violated linear constraint
   and vio_q = 0. *)
Theorem C10_testset_gen_stored_solution :
  forall (npz : Type) (save : cdata -> npz) (load : npz -> cdata), (forall d, load (save d) = d) ->
  forall o fname sname x A sp b Q esA (Af : mat Z) (bf : vec Z) (R : mat Z) (c : vec Z) (Qo : mat Z) S,
    let n := List.length x in
    let m := List.length b in
    let d := mkCdata A sp b Q 0 in
    conv_world o load (save d) fname sname (sol_bytes x) n esA -> data_ok d n esA ->
    binl x -> loadable n d ->
    (forall k j, (k < m)%nat -> (j < n)%nat -> Af k j = Zmat_of A k j) ->
    (forall k, (k < m)%nat -> bf k = Zvec_of b k) ->
    (forall i j, (i < n)%nat -> (j < n)%nat -> R i j = coo_dense Q i j) ->
    (forall i j, (i < n)%nat -> (j < n)%nat -> 0 <= R i j) ->
    Zqubo_value n (Zget_qubo m true (Zchoose_rho true S None) (Af, bf, R) (c, Qo)) (Zvec_of x) = 0 ->
    forall tr, snd (gen_convenience o fname sname tr) = Ok (TTuple [TBools (repeat false m); tnum 0; tnat (nnz Q)]).
Proof.
  intros npz save load Hls o fname sname x A sp b Q esA Af bf R c Qo S n m d Hw Hd Hb Hl HA Hbf HRQ HR Hval tr.
  subst n m d.
  rewrite (C10_testset_gen_convenience_eq o npz load _ fname sname (sol_bytes x) _ esA Hw).
  - rewrite (convenience_of_zero_energy save load Hls x A sp b Q Af bf R c Qo S Hb Hl HA Hbf HRQ HR Hval). reflexivity.
  - intros spins E. unfold sol_bytes in E.
    rewrite (load_write_spins _ (x_to_s_short x (binl_small x Hb))) in E.
    inversion E. unfold x_to_s. apply map_length.
  - rewrite Hls. exact Hd.
Qed.
Print Assumptions C10_testset_gen_stored_solution.

(* ============================ print_summary ============================ *)
(* the three print calls carry TestFeas.summary_lines (in memory: scale 1), in this order, then None *)
Theorem C10_testset_gen_print_summary_eq : forall o vl vq k tr,
  gen_print_summary o (TBools vl) (tnum vq) (tnat k) tr = hand_print_summary o (vl, vq, k) tr.
Proof.
  intros o vl vq k tr. unfold hand_print_summary, summary_lines.
  rewrite Z.quot_1_r, <- !print_int_of_nat. cbn [print_lines].
  unfold gen_print_summary. ts_red. hand_red. ts_red. reflexivity.
Qed.
Print Assumptions C10_testset_gen_print_summary_eq.

(* ============================ do_all ============================ *)
(* do_all(prefix, verbose) for a string prefix: os.listdir, then per entry f (a string; anything else is not
   modelled) TestFeas.do_all_sol decides -- `f.split('.')[-1] == "npz"` and os.path.splitext(f)[0] + ".sol" --,
   os.path.isfile(<prefix>/<sol>) is asked, and results[<sol>] = convenience(<prefix>/<f>, <prefix>/<sol>) with the
   GENERATED convenience; the prints happen under verbose.  (TestSetHand.hand_do_all.) *)
Theorem C10_testset_gen_do_all_eq : forall o prefix verbose tr,
  gen_do_all o (TStr prefix) (tbool verbose) tr = hand_do_all o (gen_convenience o) prefix verbose tr.
Proof.
  intros o prefix verbose tr. unfold gen_do_all, hand_do_all, call.
  apply m_bind_cong; [reflexivity|]. intros fnames tr1.
  rewrite (m_bind_pure _ _ _ tr1 eq_refl).
  erewrite m_bind_pure by (ts_red; reflexivity). rewrite (m_bind_pure _ _ _ tr1 eq_refl).
  rewrite m_for_unfold. apply m_bind_cong; [reflexivity|]. intros fs tr2.
  match goal with |- m_bind (m_for_list fs ?B _) _ _ = _ => set (body := B) end.
  assert (Hloop : forall fs kv tr,
            m_for_list fs body (TDict kv) tr
            = m_bind (hand_do_all_loop o (gen_convenience o) prefix verbose fs kv) (fun r => m_ret (TDict r)) tr).
  { clear. induction fs as [|x fs IH]; intros kv tr; [reflexivity|].
    cbn [m_for_list hand_do_all_loop].
    assert (Hx : forall tr, body (TDict kv) x tr =
              match x with
              | TStr f => m_bind (hand_do_all_entry o (gen_convenience o) prefix verbose kv f) (fun r => m_ret (CNext, TDict r)) tr
              | _ => (tr, Err OtherError)
              end).
    { intros tr0. destruct x; try (unfold body; ts_red; reflexivity).
      match goal with |- _ = ?R => set (rhs := R) end.
      unfold body. ts_red. unfold t_split. ts_red.
      rewrite (py_index_last _ (TStr "")) by (intros E; apply map_eq_nil in E; exact (split_on_nonempty _ _ E)).
      rewrite (last_map TStr). ts_red.
      unfold str_eqb. subst rhs. unfold hand_do_all_entry, do_all_sol, last_ext.
      destruct (String.eqb (last (split_on "." s) "") "npz"); [|ts_red; reflexivity].
      destruct verbose; ts_red; hand_red; ts_red; rewrite ?py_index_head; ts_red; rewrite ?path_splitext_root;
        cbn [String.concat append];
        repeat (first [reflexivity | dstuck o (gen_convenience o); ts_red]).
    }
    unfold m_bind at 1. rewrite Hx. destruct x; try reflexivity.
    unfold m_bind.
    destruct (hand_do_all_entry o (gen_convenience o) prefix verbose kv s tr) as [tr' [kv'|e]]; [|reflexivity].
    cbn [m_ret fst snd]. rewrite IH. reflexivity. }
  unfold m_bind at 1. rewrite Hloop. unfold m_bind, m_ret.
  destruct (hand_do_all_loop o (gen_convenience o) prefix verbose fs [] tr2) as [tr' [kv'|e]]; reflexivity.
Qed.
Print Assumptions C10_testset_gen_do_all_eq.

(* ============================ generate_test_set.gen ============================ *)
(* gen(prefix, horizons) for a string prefix, any horizons, any value of the module variable HAVE_CPLEX, any
   oracle and any call log: the generated function IS TestSetHand.hand_gen -- per horizon get_mirp, then for
   ("arc_based", mirp.get_arc_based), ("path_based", mirp.get_path_based), ("sequence_based",
   partial(mirp.get_sequence_based, strict=False)) in this order the step hand_gen_form: name = TestFeas.initials
   form, getter(make_feasible=True), get_qubo(feasibility=False), QUBOContainer, get_num_variables, print,
   export(<prefix>/test_<name>_<n>_o.rudy, as_ising=True), get_qubo(feasibility=True), QUBOContainer,
   export(..._f.rudy, as_ising=True), get_constraint_data, np.savez(<prefix>/test_<name>_<n>_, A_eq=, b_eq=,
   Q_eq=, r_eq=), and under HAVE_CPLEX the CPLEX block with the spins file. *)
Theorem C10_testset_gen_gen_eq : forall o g prefix horizons tr,
  gen_gen o g (TStr prefix) horizons tr = hand_gen o g prefix horizons tr.
Proof.
  intros o g prefix horizons tr.
  unfold gen_gen, hand_gen.
  rewrite (m_bind_pure _ _ _ tr eq_refl).
  apply m_bind_cong; [|reflexivity].
  apply m_for_cong. intros [] t_h tr1. unfold hand_gen_horizon.
  apply m_bind_cong; [reflexivity|]. intros mirp tr2.
  rewrite (m_bind_pure _ _ _ tr2 eq_refl).
  do 6 (erewrite m_bind_pure by (ts_red; reflexivity)).
  apply m_bind_cong; [|reflexivity]. intros tr3.
  unfold m_for. rewrite (m_bind_pure _ _ _ tr3 eq_refl).
  cbn [map combine hand_forms fst snd m_for_list].
  repeat (apply m_bind_cong;
    [ intros tr4; rewrite m_unpack2_tuple; rewrite name_is_initials; unfold hand_gen_form;
      apply m_bind_cong; [reflexivity|]; intros name tr5;
      ts_red; hand_red; ts_red; reflexivity
    | intros [[] []] tr4; cbn [fst snd]; try reflexivity ]).
Qed.
Print Assumptions C10_testset_gen_gen_eq.

(* "The file names carry the true variable count, and the constraint data it saves ..." for the generated
   gen on one horizon without CPLEX, in a world that answers every call (TestSetHand.step_world; d1, d2, d3 =
   what it hands out for the three formulations): the complete log of calls is get_mirp followed by the three
   step_events lists.  In each step the count printed into the names of the two exports and of the np.savez
   archive is what get_num_variables() of THAT routing problem returned, the feasibility QUBO exported to
   ..f.rudy and the constraint data saved are the ones that same object reported, and (second part, from
   TestFeas's name theorems) the count is read back from each base name. *)
Theorem C10_testset_gen_gen_files : forall o g prefix t_h s_th mirp d1 d2 d3,
  t_str t_h = Ok s_th -> t_truth g = Ok false ->
  (forall tr, o tr ".examples.mirp_g1.get_mirp" [t_h] [] = Ok mirp) ->
  step_world o (TAttr mirp "get_arc_based") d1 ->
  step_world o (TAttr mirp "get_path_based") d2 ->
  step_world o (TPartial (TAttr mirp "get_sequence_based") [("strict", tbool false)]) d3 ->
  (forall tr, gen_gen o g (TStr prefix) (TList [t_h]) tr =
     ((tr ++ EvCall ".examples.mirp_g1.get_mirp" [t_h] [] ::
             step_events prefix s_th "arc_based" "ab" d1 ++
             step_events prefix s_th "path_based" "pb" d2 ++
             step_events prefix s_th "sequence_based" "sb" d3)%list, Ok tnone)) /\
  (forall name n sfx, In (name, n) [("ab", sd_n d1); ("pb", sd_n d2); ("sb", sd_n d3)] ->
     name_nvars (bname name n ++ sfx) = Some n /\ name_form (bname name n ++ sfx) = Some name).
Proof.
  intros o g prefix t_h s_th mirp d1 d2 d3 Hth Hg Hm W1 W2 W3. split.
  - intros tr. rewrite C10_testset_gen_gen_eq. unfold hand_gen, m_for. cbn [t_iter]. ts_red.
    unfold hand_gen_horizon, call, hand_forms. ts_red. rewrite Hm. ts_red. cbn [fst snd].
    rewrite (hand_gen_form_trace o g prefix t_h s_th "arc_based" "ab" _ d1 Hth Hg eq_refl W1). ts_red.
    rewrite (hand_gen_form_trace o g prefix t_h s_th "path_based" "pb" _ d2 Hth Hg eq_refl W2). ts_red.
    rewrite (hand_gen_form_trace o g prefix t_h s_th "sequence_based" "sb" _ d3 Hth Hg eq_refl W3). ts_red.
    rewrite <- !app_assoc. reflexivity.
  - intros name n sfx [E|[E|[E|[]]]]; inversion E; subst; apply name_carries_nvars; reflexivity.
Qed.
Print Assumptions C10_testset_gen_gen_files.

(* the spins block of gen (`for spin in spins: spin_file.write(f"{int(spin)}\n")`, the loop of
   TestSetHand.hand_gen_cplex, which C10_testset_gen_gen_eq shows to be the generated one): for an integer
   array of spins and a file whose write() returns, the calls are one write per spin, and the text written
   is TestFeas.write_spins -- for spins = x_to_s x the bytes sol_bytes x that the headline theorems read *)
Theorem C10_testset_gen_spins_written : forall o file l,
  (forall tr s, o tr ".write" [file; TStr s] [] = Ok tnone) ->
  (forall tr, m_for (tvec l) (fun _ => hand_write_spin o file) tt tr
              = ((tr ++ map (fun s => EvCall ".write" [file; TStr (print_int s ++ NL)] []) l)%list, Ok tt)) /\
  String.concat "" (map (fun s => print_int s ++ NL) l) = write_spins l /\
  (forall x, l = x_to_s x -> write_spins l = sol_bytes x).
Proof.
  intros o file l H. split; [apply hand_spins_written; exact H|].
  split; [apply write_spins_concat | intros x ->; reflexivity].
Qed.
Print Assumptions C10_testset_gen_spins_written.
