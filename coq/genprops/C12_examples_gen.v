(* C12_examples_gen -- the two example BUILDERS, regenerated from examples/mirp_g1.py and examples/mirp_random.py
   (coq/gen/ExamplesGen.v, written by harness/translate_examples.py on every run of bin/check C12), perform a canonical
   build that meets the hypotheses of the C12 theorems; the C12 headlines for the MIRP object they return; the C11
   hypotheses for the port data of G1.

   A generated builder is a computation `B unit` (PyExamples.v): run on the empty log it yields the log of the calls it
   makes on its MIRP object and `Ok tt` (it returns the object) or an exception.  `canonical_build_of b = Some c`: the
   builder returns and its calls are MIRP(size, H), add_nodes for the ports `c_ports c`, add_travel_arcs, add_exit_arcs,
   add_entry_arcs with the data `c` (read off the log).  `canon_state code c` is the state of the model of class MIRP
   (Mirp.v; tied to applications/mirp.py by the `mirp` package, C12_gen.v) after these calls, port names numbered by
   `code`; every theorem holds for EVERY injective numbering (`str_code` is one).  Nothing below mentions a number, a
   port name or a fee of the source: the data are read off the generated term.

   Not part of the coq_makefile project (it depends on a generated file); harness/props/c12.py compiles gen/ExamplesGen.v
   and then this file (ctx.gen_step) and counts every theorem as a proof obligation. *)
From Coq Require Import QArith String Ascii List Lia.
From VQ Require Import Base Mirp Mirp_facts Mirp_graph_facts Mirp_arcset_facts PyExamples PyExamples_facts.
From VQP Require Import C11 C12.
From VQG Require Import ExamplesGen.
Import ListNotations.
Local Open Scope Q_scope.

(* ------------------------------------------------------------------------------------------ *)
(* G1: examples/mirp_g1.py get_mirp(time_horizon), for EVERY horizon                           *)
(* ------------------------------------------------------------------------------------------ *)
(* the builder returns for every horizon H; its calls are a canonical build with horizon H whose data pass the computed
   check canon_okb (cargo size > 0, pairwise distinct port names, every rate <> 0, the cargo fits every tank, speed <> 0,
   the distance function is defined on every (supply port, demand port) pair and both fee dictionaries have the
   ports) -- by evaluation of the generated term with H symbolic *)
Theorem C12_examples_gen_g1_canonical : forall H,
  exists c, canonical_build_of (gen_get_mirp H) = Some c /\ c_H c = H /\ canon_okb c = true /\
            forallb (port_c11_okb (c_size c)) (c_ports c) = true.
Proof.
  intro H. eexists. split; [vm_compute; reflexivity|]. split; [reflexivity|]. split; vm_compute; reflexivity.
Qed.
Print Assumptions C12_examples_gen_g1_canonical.

(* ... hence the hypotheses of the C12 theorems, as propositions *)
Theorem C12_examples_gen_g1_hypotheses : forall H,
  exists c, canonical_build_of (gen_get_mirp H) = Some c /\ c_H c = H /\ canon_ok c.
Proof.
  intro H. destruct (C12_examples_gen_g1_canonical H) as [c [B [E [K _]]]].
  exists c. split; [exact B|]. split; [exact E|]. apply canon_okb_sound. exact K.
Qed.
Print Assumptions C12_examples_gen_g1_hypotheses.

(* C12 headline 1 for the object get_mirp(H) returns: the alternation invariant GInv (depot first with an infinite
   window end, unique node names, demand fixed by the kind of the node, every stored arc filed under its endpoints, of
   an admissible shape and passing the timing filter) -- for every horizon and every injective numbering of the names *)
Theorem C12_examples_gen_g1_alternation : forall H code, (forall a b : string, code a = code b -> a = b) ->
  exists c log, gen_get_mirp H [] = (log, Ok tt) /\ parse_canonical log = Some c /\ c_H c = H /\
    built code log = Some (canon_state code c) /\
    GInv (c_size c) (gr (canon_state code c)).
Proof.
  intros H code inj. destruct (C12_examples_gen_g1_hypotheses H) as [c [Bc [E Hok]]].
  destruct (canonical_build_built code (gen_get_mirp H) c Bc) as [log [R Bu]].
  exists c, log. split; [exact R|]. split.
  - unfold canonical_build_of in Bc. rewrite R in Bc. exact Bc.
  - split; [exact E|]. split; [exact Bu|]. destruct Hok as [Hs [ND _]]. apply canon_alternation; auto.
Qed.
Print Assumptions C12_examples_gen_g1_alternation.

(* C12 headline 2: along every depot walk of that graph the vessel load is 0 or the cargo size *)
Theorem C12_examples_gen_g1_load : forall H code path, (forall a b : string, code a = code b -> a = b) ->
  exists c, canonical_build_of (gen_get_mirp H) = Some c /\ c_H c = H /\
    let g := gr (canon_state code c) in
    (walk_ok g 0 path -> interior_ok path -> Forall (fun l => l == 0 \/ l == c_size c) (loads g 0 path)).
Proof.
  intros H code path inj. destruct (C12_examples_gen_g1_hypotheses H) as [c [Bc [E Hok]]].
  exists c. split; [exact Bc|]. split; [exact E|]. destruct Hok as [Hs [ND _]]. intros g W I.
  apply canon_load; auto.
Qed.
Print Assumptions C12_examples_gen_g1_load.

(* C12 headline 3: the calls are Mirp_arcset_facts.canonical_ops on the numbered data, and the conclusion of C12_arcset
   (arcset_statement: no call raises, the node table, unique arc keys, the arc dict holds EXACTLY the specified arcs that
   pass the timing filter, every regular node has its exit arc) holds *)
Theorem C12_examples_gen_g1_arcset : forall H code, (forall a b : string, code a = code b -> a = b) ->
  exists c, canonical_build_of (gen_get_mirp H) = Some c /\ c_H c = H /\
    canon_state code c =
      mrun (canonical_ops (canon_pdata code c) (canon_table code c) (c_speed c) (c_unit c) (code_fees code (c_fs c))
                          (code_fees code (c_fd c)) (c_etm c) (c_ec c) (c_limit c) (c_ntm c) (c_nc c))
           (init_state (c_size c) H) /\
    arcset_statement (c_size c) H (canon_pdata code c) (canon_table code c) (c_speed c) (c_unit c)
                     (code_fees code (c_fs c)) (code_fees code (c_fd c)) (c_etm c) (c_ec c) (c_limit c) (c_ntm c) (c_nc c).
Proof.
  intros H code inj. destruct (C12_examples_gen_g1_hypotheses H) as [c [Bc [E Hok]]].
  exists c. split; [exact Bc|]. split; [exact E|]. rewrite <- E. apply canon_arcset; auto.
Qed.
Print Assumptions C12_examples_gen_g1_arcset.

(* arcset_statement is literally the conclusion of C12_arcset *)
Theorem C12_examples_gen_arcset_statement : forall size H ports dist speed unit fs fd etm ec limit ntm nc,
  0 < size -> ports_ok size ports -> ~ speed == 0 -> tables_complete ports dist fs fd ->
  arcset_statement size H ports dist speed unit fs fd etm ec limit ntm nc.
Proof. exact C12_arcset. Qed.
Print Assumptions C12_examples_gen_arcset_statement.

(* C11: every G1 port meets the hypotheses of the C11 window / safety theorems (cargo size > 0, rate <> 0,
   0 <= initial inventory <= capacity, cargo size <= capacity), hence C11_safety: visits serviced inside their windows
   keep the inventory of the port within [0, capacity] over the whole horizon -- for every horizon *)
Theorem C11_examples_gen_g1_windows : forall H,
  exists c, canonical_build_of (gen_get_mirp H) = Some c /\ c_H c = H /\
    forall p, In p (c_ports c) ->
      let size := c_size c in let init := ps_init p in let rate := ps_rate p in let cap := ps_cap p in
      (0 < size /\ ~ rate == 0 /\ 0 <= init /\ init <= cap /\ size <= cap) /\
      forall (tau : nat -> Q) t,
        let K := nvisits size H init rate cap in
        (forall k, (k < K)%nat -> tw0 size k init rate cap <= tau k /\ tau k <= tw1 size k init rate cap) ->
        0 <= t -> t <= H ->
        (0 <= inv_before size init rate K tau t /\ inv_before size init rate K tau t <= cap) /\
        (0 <= inv_after size init rate K tau t /\ inv_after size init rate K tau t <= cap).
Proof.
  intro H. destruct (C12_examples_gen_g1_canonical H) as [c [Bc [E [_ K11]]]].
  exists c. split; [exact Bc|]. split; [exact E|]. intros p Hin size init rate cap.
  pose proof (port_c11_okb_sound _ _ (forallb_In _ _ _ K11 Hin)) as [A1 [A2 [A3 [A4 A5]]]].
  split; [repeat split; assumption|]. intros tau t K Hw Ht0 HtH.
  exact (C11_safety size H init rate cap tau t A1 A2 A3 A4 A5 Hw Ht0 HtH).
Qed.
Print Assumptions C11_examples_gen_g1_windows.

(* ------------------------------------------------------------------------------------------ *)
(* the random generator: examples/mirp_random.py RandomMIRP.get_random_mirp                   *)
(* ------------------------------------------------------------------------------------------ *)
(* Parameters of gen_get_random_mirp (oracle parameters, in the order the source draws them): reset_seed, then
   time_horizon, cargo_size, num_supply_ports, num_demand_ports, the supply arrays (init, rate, cap), the demand arrays
   (init, rate, cap), [travel_times is a distribution?] its draw / the field itself, [travel_cost_per_unit_time is
   None?] its draw, [supply_port_fees is None?] its draw, [demand_port_fees is None?] its draw. *)

(* body of `for i, (init, rate, cap) in enumerate(zip(..))`: one add_nodes call named f"S{i+1}" / f"D{i+1}" with the
   data of the element, then fees[name] = table[i] (IndexError when the table is too short) *)
Theorem C12_examples_gen_random_supply_body : forall fees x s log,
  exists r, gen_get_random_mirp_loop3 fees x s log = (log ++ [node_op (enum_spec "S" x)], r) /\
            (forall s', r = Ok s' -> enum_upd "S" fees x s = Some s').
Proof.
  intros fees [i [[init rate] cap]] s log. unfold gen_get_random_mirp_loop3, enum_upd, list_getr. cbn [fst snd].
  rewrite bind_emit. unfold bind, lift, ret.
  destruct (nth_error fees i) as [v|]; eexists; (split; [reflexivity|]); intros s' E; inversion E; reflexivity.
Qed.
Print Assumptions C12_examples_gen_random_supply_body.

Theorem C12_examples_gen_random_demand_body : forall fees x s log,
  exists r, gen_get_random_mirp_loop4 fees x s log = (log ++ [node_op (enum_spec "D" x)], r) /\
            (forall s', r = Ok s' -> enum_upd "D" fees x s = Some s').
Proof.
  intros fees [i [[init rate] cap]] s log. unfold gen_get_random_mirp_loop4, enum_upd, list_getr. cbn [fst snd].
  rewrite bind_emit. unfold bind, lift, ret.
  destruct (nth_error fees i) as [v|]; eexists; (split; [reflexivity|]); intros s' E; inversion E; reflexivity.
Qed.
Print Assumptions C12_examples_gen_random_demand_body.


(* every bind of the generated builder, in whatever order the source has them: asserts give their condition, pure
   pieces their value, the two port loops the calls they log *)
Ltac walk H :=
  repeat first
    [ rewrite bind_emit in H
    | rewrite bind_ret in H
    | rewrite bind_supply_ports in H
    | rewrite bind_demand_ports in H
    | apply bind_assert_inv in H; let A := fresh "A" in destruct H as [A H]
    | apply bind_lift_inv in H; let x := fresh "x" in let E := fresh "E" in destruct H as [x [E H]]
    | match type of H with
      | bind (if ?b then ?m1 else ?m2) _ _ = _ =>
          replace (if b then m1 else m2) with (ret tt : B unit) in H by (destruct b; reflexivity)
      | bind (for_each _ (gen_get_random_mirp_loop3 ?fees) _) _ _ = _ =>
          let l1 := fresh "l" in let a := fresh "sfees" in let H1 := fresh "H" in let L := fresh "L" in let F := fresh "FS" in
          apply bind_inv in H; destruct H as [l1 [a [H1 H]]];
          apply (for_each_emit _ _ _ (C12_examples_gen_random_supply_body fees)) in H1; destruct H1 as [L F]; subst l1
      | bind (for_each _ (gen_get_random_mirp_loop4 ?fees) _) _ _ = _ =>
          let l1 := fresh "l" in let a := fresh "dfees" in let H1 := fresh "H" in let L := fresh "L" in let F := fresh "FD" in
          apply bind_inv in H; destruct H as [l1 [a [H1 H]]];
          apply (for_each_emit _ _ _ (C12_examples_gen_random_demand_body fees)) in H1; destruct H1 as [L F]; subst l1
      end
    | progress cbv zeta in H ].

(* Whenever the builder returns (no assertion fails, no index is out of range): its calls are a canonical build with the
   drawn cargo size and horizon, the ports are the drawn (init, rate, cap) triples, supply ports first; the source has
   checked (assert) that the six arrays have the drawn lengths, that every supply rate is > 0 and every demand rate < 0;
   port names are pairwise distinct; and -- given a cargo size > 0 that fits every tank, which the source does NOT check
   (get_generator establishes it: cargo_size = 1.0, cap = time_windows * |rate| + cargo_size) -- all hypotheses of the C12
   theorems hold: rates <> 0, vessel speed <> 0, the distance closure is defined on every (supply, demand) pair (both names
   are in combined_ports, travel_times has the asserted shape), both fee dictionaries have every port *)
Theorem C12_examples_gen_random_canonical :
  forall rs H size ns nd is_ rs_ cs id rd cd samp dtt ftt none_c dc none_sf dsf none_df ddf log,
  gen_get_random_mirp rs H size ns nd is_ rs_ cs id rd cd samp dtt ftt none_c dc none_sf dsf none_df ddf [] = (log, Ok tt) ->
  exists c, parse_canonical log = Some c /\ c_size c = size /\ c_H c = H /\
    map ps_init (c_ports c) = is_ ++ id /\ map ps_rate (c_ports c) = rs_ ++ rd /\ map ps_cap (c_ports c) = cs ++ cd /\
    length is_ = ns /\ length rs_ = ns /\ length cs = ns /\ length id = nd /\ length rd = nd /\ length cd = nd /\
    (forall r, In r rs_ -> 0 < r) /\ (forall r, In r rd -> r < 0) /\
    NoDup (map ps_name (c_ports c)) /\
    (0 < size -> (forall x, In x (cs ++ cd) -> size <= x) -> canon_ok c).
Proof.
  intros until log. intro R. unfold gen_get_random_mirp in R.
  walk R. unfold sample_sized, sample_sized2 in *. inversion R as [RL]. clear R. subst log.
  rewrite <- !app_assoc. cbn [app].
  rewrite <- !(map_map (enum_spec _) node_op). rewrite (app_assoc (map node_op _) (map node_op _)), <- map_app.
  apply Nat.eqb_eq in A0, A2, A4, A6, A8, A10, A14, A15.
  eexists. split; [apply parse_canonical_intro|]. cbn [c_size c_H c_ports].
  destruct (enum_spec_proj "S" is_ rs_ cs ns 0 A0 A2 A4) as [S1 [S2 [S3 S4]]].
  destruct (enum_spec_proj "D" id rd cd nd 0 A6 A8 A10) as [D1 [D2 [D3 D4]]].
  unfold py_enumerate. rewrite !map_app, S1, S2, S3, D1, D2, D3.
  repeat (split; [first [reflexivity | assumption]|]).
  assert (RS : forall r, In r rs_ -> Qltb 0 r = true) by (intros r Hr; exact (forallb_In _ _ _ A1 Hr)).
  assert (RD : forall r, In r rd -> Qltb r 0 = true) by (intros r Hr; exact (forallb_In _ _ _ A7 Hr)).
  split; [intros r Hr; apply Qltb_true; auto|]. split; [intros r Hr; apply Qltb_true; auto|].
  assert (ND : NoDup (map ps_name (map (enum_spec "S") (enum_from 0 (py_zip3 is_ rs_ cs)) ++
                                   map (enum_spec "D") (enum_from 0 (py_zip3 id rd cd))))).
  { rewrite map_app, S4, D4. apply NoDup_two_prefixes; [discriminate|apply seq_NoDup|apply seq_NoDup]. }
  split; [rewrite <- map_app; exact ND|].
  set (PS := map (enum_spec "S") (enum_from 0 (py_zip3 is_ rs_ cs))) in *.
  set (PD := map (enum_spec "D") (enum_from 0 (py_zip3 id rd cd))) in *.
  assert (HPS : forall p, In p PS -> Qltb 0 (ps_rate p) = true).
  { intros p Hp. apply RS. rewrite <- S2. apply in_map. exact Hp. }
  assert (HPD : forall p, In p PD -> Qltb 0 (ps_rate p) = false).
  { intros p Hp. apply Qltb_asym. apply RD. rewrite <- D2. apply in_map. exact Hp. }
  rewrite !sup_ports_of_app, !dem_ports_of_app.
  destruct (ports_of_nodes_sup PS HPS) as [U1 U2]. destruct (ports_of_nodes_dem PD HPD) as [U3 U4].
  rewrite U1, U2, U3, U4, app_nil_r. cbn [app]. rewrite S4, D4.
  intros Hsz Hcap. unfold canon_ok. cbn [c_size c_ports c_speed c_dist c_fs c_fd].
  split; [exact Hsz|]. split; [|split; [|split]].
  + exact ND.
  + intros p Hp. apply in_app_or in Hp. destruct Hp as [Hp|Hp].
    * split; [apply Qltb_neq; auto|]. apply Hcap. apply in_or_app. left. rewrite <- S3. apply in_map. exact Hp.
    * split.
      -- intro EQ. assert (L := RD (ps_rate p)). rewrite <- D2 in L. specialize (L (in_map _ _ _ Hp)).
         apply Qltb_true in L. rewrite EQ in L. exact (Qlt_irrefl _ L).
      -- apply Hcap. apply in_or_app. right. rewrite <- D3. apply in_map. exact Hp.
  + discriminate.
  + intros sp dp Hsp Ss Hdp Sd.
    apply in_app_or in Hsp. destruct Hsp as [Hsp|Hsp]; [|rewrite (HPD sp Hsp) in Ss; discriminate].
    apply in_app_or in Hdp. destruct Hdp as [Hdp|Hdp]; [rewrite (HPS dp Hdp) in Sd; discriminate|].
    set (comb := map (port_name "S") (seq 0 ns) ++ map (port_name "D") (seq 0 nd)).
    assert (Lc : length comb = (ns + nd)%nat) by (unfold comb; rewrite app_length, !map_length, !seq_length; reflexivity).
    assert (I1 : In (ps_name sp) comb) by (unfold comb; apply in_or_app; left; rewrite <- S4; apply in_map; exact Hsp).
    assert (I2 : In (ps_name dp) comb) by (unfold comb; apply in_or_app; right; rewrite <- D4; apply in_map; exact Hdp).
    destruct (list_indexr_In comb _ I1) as [i [Ei Li]]. destruct (list_indexr_In comb _ I2) as [j [Ej Lj]].
    rewrite Lc in Li, Lj. destruct (mat_shape_get x _ _ i j A12 Li Lj) as [row [v [G1 G2]]].
    destruct (mat_shape_get x _ _ j i A12 Lj Li) as [row' [v' [G3 G4]]].
    split; [|split].
    * repeat (first [rewrite Ei | rewrite Ej | rewrite G1 | rewrite G2 | rewrite G3 | rewrite G4]; cbn [rbind]).
      eexists. reflexivity.
    * unfold PS in Hsp. apply in_map_iff in Hsp. destruct Hsp as [y [<- Hy]].
      destruct (fold_upd_keys _ _ _ _ _ FS) as [_ K]. exact (K y Hy).
    * unfold PD in Hdp. apply in_map_iff in Hdp. destruct Hdp as [y [<- Hy]].
      destruct (fold_upd_keys _ _ _ _ _ FD) as [_ K]. exact (K y Hy).
Qed.
Print Assumptions C12_examples_gen_random_canonical.

(* C12 headline 1 for the object the random builder returns, for EVERY value of the oracle parameters on which it
   returns, a cargo size > 0 and every injective numbering of the port names: the alternation invariant *)
Theorem C12_examples_gen_random_alternation :
  forall rs H size ns nd is_ rs_ cs id rd cd samp dtt ftt none_c dc none_sf dsf none_df ddf log code,
  (forall a b : string, code a = code b -> a = b) ->
  gen_get_random_mirp rs H size ns nd is_ rs_ cs id rd cd samp dtt ftt none_c dc none_sf dsf none_df ddf [] = (log, Ok tt) ->
  0 < size ->
  exists c, parse_canonical log = Some c /\ c_size c = size /\ c_H c = H /\
    built code log = Some (canon_state code c) /\ GInv size (gr (canon_state code c)).
Proof.
  intros until code. intros inj R Hs.
  destruct (C12_examples_gen_random_canonical _ _ _ _ _ _ _ _ _ _ _ _ _ _ _ _ _ _ _ _ _ R)
    as [c [P [Es [EH [_ [_ [_ [_ [_ [_ [_ [_ [_ [_ [_ [ND _]]]]]]]]]]]]]]]].
  exists c. split; [exact P|]. split; [exact Es|]. split; [exact EH|]. split; [apply built_canon; exact P|].
  rewrite <- Es. apply canon_alternation; [exact inj|rewrite Es; exact Hs|exact ND].
Qed.
Print Assumptions C12_examples_gen_random_alternation.

(* C12 headline 2: the vessel load along every depot walk of that graph is 0 or the cargo size *)
Theorem C12_examples_gen_random_load :
  forall rs H size ns nd is_ rs_ cs id rd cd samp dtt ftt none_c dc none_sf dsf none_df ddf log code path,
  (forall a b : string, code a = code b -> a = b) ->
  gen_get_random_mirp rs H size ns nd is_ rs_ cs id rd cd samp dtt ftt none_c dc none_sf dsf none_df ddf [] = (log, Ok tt) ->
  0 < size ->
  exists c, parse_canonical log = Some c /\
    let g := gr (canon_state code c) in
    (walk_ok g 0 path -> interior_ok path -> Forall (fun l => l == 0 \/ l == size) (loads g 0 path)).
Proof.
  intros until path. intros inj R Hs.
  destruct (C12_examples_gen_random_canonical _ _ _ _ _ _ _ _ _ _ _ _ _ _ _ _ _ _ _ _ _ R)
    as [c [P [Es [EH [_ [_ [_ [_ [_ [_ [_ [_ [_ [_ [_ [ND _]]]]]]]]]]]]]]]].
  exists c. split; [exact P|]. intros g W I. rewrite <- Es. apply canon_load; auto. rewrite Es. exact Hs.
Qed.
Print Assumptions C12_examples_gen_random_load.

(* C12 headline 3: with a cargo that fits every drawn tank the calls are canonical_ops on the numbered data and the
   conclusion of C12_arcset holds *)
Theorem C12_examples_gen_random_arcset :
  forall rs H size ns nd is_ rs_ cs id rd cd samp dtt ftt none_c dc none_sf dsf none_df ddf log code,
  (forall a b : string, code a = code b -> a = b) ->
  gen_get_random_mirp rs H size ns nd is_ rs_ cs id rd cd samp dtt ftt none_c dc none_sf dsf none_df ddf [] = (log, Ok tt) ->
  0 < size -> (forall x, In x (cs ++ cd) -> size <= x) ->
  exists c, parse_canonical log = Some c /\ built code log = Some (canon_state code c) /\
    canon_state code c =
      mrun (canonical_ops (canon_pdata code c) (canon_table code c) (c_speed c) (c_unit c) (code_fees code (c_fs c))
                          (code_fees code (c_fd c)) (c_etm c) (c_ec c) (c_limit c) (c_ntm c) (c_nc c))
           (init_state size H) /\
    arcset_statement size H (canon_pdata code c) (canon_table code c) (c_speed c) (c_unit c)
                     (code_fees code (c_fs c)) (code_fees code (c_fd c)) (c_etm c) (c_ec c) (c_limit c) (c_ntm c) (c_nc c).
Proof.
  intros until code. intros inj R Hs Hcap.
  destruct (C12_examples_gen_random_canonical _ _ _ _ _ _ _ _ _ _ _ _ _ _ _ _ _ _ _ _ _ R)
    as [c [P [Es [EH [_ [_ [_ [_ [_ [_ [_ [_ [_ [_ [_ [_ Hok]]]]]]]]]]]]]]]].
  exists c. split; [exact P|]. split; [apply built_canon; exact P|].
  rewrite <- Es, <- EH. apply canon_arcset; [exact inj|]. apply Hok; auto.
Qed.
Print Assumptions C12_examples_gen_random_arcset.

(* what the builders read from their MIRP object (mirp.supply_ports / mirp.demand_ports, modelled by sup_ports_of /
   dem_ports_of of the calls logged so far) is what the model of class MIRP holds after these calls, for every log *)
Theorem C12_examples_gen_port_reads : forall code size H ops,
  let s := mrun (compile code ops) (init_state size H) in
  sports s = map code (sup_ports_of ops) /\ dports s = map code (dem_ports_of ops).
Proof. intros code size H ops. exact (ports_read_ops code (names_of ops) ops (init_state size H)). Qed.
Print Assumptions C12_examples_gen_port_reads.

(* the theorems quantify over the injective numberings of port names: there is one *)
Theorem C12_examples_gen_numbering_exists : exists code : string -> nat, forall a b, code a = code b -> a = b.
Proof. exists str_code. exact str_code_inj. Qed.
Print Assumptions C12_examples_gen_numbering_exists.

(* non-vacuity of the random theorems: one supply port (init 1, rate 1/15, cap 7/6) and one demand port
   (init 1/6, rate -1/20, cap 7/6), cargo 1, horizon 60 (entry limit 6), travel time 12, no fee tables: the builder
   returns, the object has the depot, 4 + 3 visits and one dummy vessel, and 19 arcs; the cargo fits both tanks *)
Example C12_examples_gen_random_instance :
  let r := gen_get_random_mirp true 60 1 1 1 [1] [1#15] [7#6] [1#6] [-(1#20)] [7#6] false [] [[0; 12]; [12; 0]]
                               true 0 true [] true [] [] in
  snd r = Ok tt /\ is_some (built str_code (fst r)) = true /\
  (forall x, In x ([7#6] ++ [7#6]) -> 1 <= x) /\
  match built str_code (fst r) with
  | Some s => (length (mnodes (gr s)) =? 9)%nat && (length (marcs (gr s)) =? 19)%nat
  | None => false
  end = true.
Proof.
  split; [vm_compute; reflexivity|]. split; [vm_compute; reflexivity|]. split.
  - intros x [<-|[<-|[]]]; unfold Qle; simpl; lia.
  - vm_compute. reflexivity.
Qed.
Print Assumptions C12_examples_gen_random_instance.
