(* C06_gen -- the definitions GENERATED from path_based_rp.py (coq/gen/PathGen.v, written by
   harness/translate_path.py on every run of bin/check C06) are the hand model of Path.v, for all
   states and all candidate routes (names, ints, mixed, negative ints, any length), and the C06
   theorems hold for the generated definitions.

   Not part of the coq_makefile project (it imports a generated file); compiled by ctx.gen_step with
     coqc -Q theories VQ -Q props VQP -Q gen VQG -Q genprops VQGP genprops/C06_gen.v
   Every Theorem is one proof obligation.  A semantic edit of a translated method changes the
   generated term and breaks the theorem about that method (the first error coqc reports).
   The proofs use the generated definitions only through unfolding / conversion, so renaming local
   variables, comments, docstrings and logger calls in the source do not affect them. *)
From Coq Require Import ZArith List Bool Lia ZifyBool.
From VQ Require Import Base Vrptw Vrptw_facts Path Path_facts PyPath PyPath_facts.
From VQP Require Import C06.
From VQG Require Import PathGen.

(* ---------------- accessor methods of Arc / Node (vrptw.py) ---------------- *)
Theorem C06_gen_accessors : forall st (a : arc) (n : node),
  gen_Arc_get_destination st a = node_named (pg st) (adest a) /\
  gen_Arc_get_travel_time st a = att a /\
  gen_Arc_get_cost st a = acost a /\
  gen_Node_get_window st n = (nlo n, nhi n) /\
  gen_Node_get_load st n = - ndemand n.
Proof. intros. repeat split. Qed.
Print Assumptions C06_gen_accessors.

(* ---------------- get_num_variables ---------------- *)
Theorem C06_gen_get_num_variables : forall st,
  gen_get_num_variables st = Ok (Z.of_nat (num_variables st)).
Proof. intros; reflexivity. Qed.
Print Assumptions C06_gen_get_num_variables.

(* ---------------- check_arc ---------------- *)
(* on a key of two ints: the hand model (which never raises) *)
Theorem C06_gen_check_arc : forall st time load a b,
  gen_check_arc st time load (inr a, inr b) = Ok (check_arc st time load a b).
Proof.
  intros. unfold gen_check_arc, check_arc, py_arcs_getitem.
  destruct (arc_get (pg st) a b) as [x|]; [|reflexivity].
  cbv beta iota zeta delta [gen_Arc_get_destination gen_Arc_get_travel_time gen_Node_get_window gen_Node_get_load ext_gtb fst snd].
  rewrite ?Z.gtb_ltb, ?Z.geb_leb.
  destruct (negb _); [reflexivity|].
  destruct (pcap st <? _) eqn:E1; destruct (_ <? 0) eqn:E2; reflexivity.
Qed.
Print Assumptions C06_gen_check_arc.

(* on a key with a str component: the KeyError branch, time and load unchanged *)
Theorem C06_gen_check_arc_str : forall st time load k,
  (forall a b, k <> (inr a, inr b)) -> gen_check_arc st time load k = Ok (false, time, load).
Proof.
  intros st time load [[na|a] [nb|b]] H; try reflexivity. exfalso; apply (H a b); reflexivity.
Qed.
Print Assumptions C06_gen_check_arc_str.

(* ---------------- check_route ---------------- *)
(* body of `for index in (0, 1, -1)`: one in-place conversion (Path.conv_at) at Python position z *)
Theorem C06_gen_loop1_step : forall st z r,
  gen_check_route_loop1 st z r =
  match py_pos (length r) z with
  | None => Stop (r, Err IndexError)
  | Some p => match conv_at (pg st) p r with
              | Ok r' => Cont r'
              | Err x => Stop (r, Err x)
              end
  end.
Proof.
  intros. unfold gen_check_route_loop1, py_getitem, py_setitem, conv_at, rbind.
  destruct (py_pos (length r) z) as [p|]; [|reflexivity].
  destruct (nth_error r p) as [[nm|z']|] eqn:E; [| |reflexivity].
  - cbn. destruct (index_of nm (names (pg st))); reflexivity.
  - cbn [elem_is_str conv]. f_equal. symmetry. apply set_nth_same. exact E.
Qed.
Print Assumptions C06_gen_loop1_step.

(* body of the main loop at position i = length pre, the caller's list being
   pre ++ cur :: e :: rest with cur already an int: exactly one unfolding of Path.cr_loop *)
Theorem C06_gen_loop2_step : forall st (pre : list elem) cur (e : elem) (rest : list elem) cost vis time load,
  gen_check_route_loop2 st (Z.of_nat (length pre)) (pre ++ inr cur :: e :: rest, cost, vis, time, load) =
  match py_pos (length vis) cur with
  | None => Stop (pre ++ inr cur :: e :: rest, Err IndexError)
  | Some p =>
    if nth p vis 0 =? 1 then Stop (pre ++ inr cur :: e :: rest, Ok (false, cost, vis))
    else match conv (pg st) e with
         | Err x => Stop (pre ++ inr cur :: e :: rest, Err x)
         | Ok nxt =>
           match check_arc st time load cur nxt with
           | (true, t', l') =>
               Cont (pre ++ inr cur :: inr nxt :: rest,
                     cost + match arc_get (pg st) cur nxt with Some a => acost a | None => 0 end,
                     set_nth p 1 vis, t', l')
           | (false, _, _) => Stop (pre ++ inr cur :: inr nxt :: rest, Ok (false, cost, set_nth p 1 vis))
           end
         end
  end.
Proof.
  intros. unfold gen_check_route_loop2. cbv beta iota zeta.
  replace (Z.of_nat (length pre) + 1) with (Z.of_nat (S (length pre))) by lia.
  set (r := pre ++ inr cur :: e :: rest : list elem).
  assert (G0 : py_getitem r (Z.of_nat (length pre)) = Ok (inr cur))
    by (apply py_getitem_nat, nth_error_app_mid).
  assert (G1 : py_getitem r (Z.of_nat (S (length pre))) = Ok e)
    by (apply py_getitem_nat, nth_error_app_mid1).
  assert (L1 : (S (length pre) < length r)%nat)
    by (unfold r; rewrite app_length; simpl; lia).
  rewrite !G0, !G1. cbn [rbind py_int_of_elem].
  unfold py_setitem at 1.
  destruct (py_pos (length vis) cur) as [p|] eqn:Ep.
  2:{ unfold py_getitem. rewrite Ep. reflexivity. }
  rewrite (py_getitem_nth _ _ _ Ep). cbn [rbind].
  destruct (nth p vis 0 =? 1); [reflexivity|].
  assert (S1 : forall z, py_setitem r (Z.of_nat (S (length pre))) (inr z) = Ok (pre ++ inr cur :: inr z :: rest)).
  { intros z. rewrite (py_setitem_nat _ _ _ L1). unfold r. rewrite set_nth_app_mid1. reflexivity. }
  assert (K : forall nxt,
     py_getitem (pre ++ inr cur :: inr nxt :: rest : list elem) (Z.of_nat (length pre)) = Ok (inr cur) /\
     py_getitem (pre ++ inr cur :: inr nxt :: rest : list elem) (Z.of_nat (S (length pre))) = Ok (inr nxt)).
  { intros nxt. split; apply py_getitem_nat; [apply nth_error_app_mid|apply nth_error_app_mid1]. }
  destruct e as [nm|z]; cbn [elem_is_str conv py_get_node_index rbind].
  - destruct (index_of nm (names (pg st))) as [j|]; [|reflexivity].
    cbn [rbind]. rewrite S1.
    destruct (K (Z.of_nat j)) as [H0 H1]. rewrite H0, H1. cbn [rbind].
    rewrite C06_gen_check_arc.
    destruct (check_arc st time load cur (Z.of_nat j)) as [[b t'] l'] eqn:Eca.
    destruct b; [|reflexivity].
    destruct (check_arc_true_arc _ _ _ _ _ _ _ Eca) as [x Hx].
    unfold py_arcs_getitem. rewrite Hx. reflexivity.
  - fold r. rewrite ?G0, ?G1. cbn [rbind].
    rewrite C06_gen_check_arc.
    destruct (check_arc st time load cur z) as [[b t'] l'] eqn:Eca.
    destruct b; [|reflexivity].
    destruct (check_arc_true_arc _ _ _ _ _ _ _ Eca) as [x Hx].
    unfold py_arcs_getitem. rewrite Hx. reflexivity.
Qed.
Print Assumptions C06_gen_loop2_step.

(* the main loop from position length pre on = Path.cr_loop (induction over the rest of the list) *)
Theorem C06_gen_loop2 : forall st (rest pre : list elem) cur time load cost vis,
  match for_each (map Z.of_nat (seq (length pre) (length rest))) (gen_check_route_loop2 st)
          (pre ++ inr cur :: rest, cost, vis, time, load) with
  | Stop r => r
  | Cont (r', c', v', _, _) => (r', Ok (true, c', v'))
  end = (pre ++ inr cur :: fst (cr_loop st cur rest time load cost vis),
         snd (cr_loop st cur rest time load cost vis)).
Proof.
  intros st rest. induction rest as [|e rest IH]; intros pre cur time load cost vis.
  - reflexivity.
  - cbn [length seq map for_each]. rewrite C06_gen_loop2_step. cbn [cr_loop].
    destruct (py_pos (length vis) cur) as [p|]; [|reflexivity].
    destruct (nth p vis 0 =? 1); [reflexivity|].
    destruct (conv (pg st) e) as [nxt|x]; [|reflexivity].
    destruct (check_arc st time load cur nxt) as [[b t'] l'].
    destruct b; [|reflexivity].
    cbn [fst snd].
    specialize (IH (pre ++ [inr cur]) nxt t' l'
                   (cost + match arc_get (pg st) cur nxt with Some a => acost a | None => 0 end)
                   (set_nth p 1 vis)).
    rewrite app_length in IH. cbn [length] in IH.
    replace (length pre + 1)%nat with (S (length pre)) in IH by lia.
    rewrite <- !app_assoc in IH. cbn [app] in IH. exact IH.
Qed.
Print Assumptions C06_gen_loop2.

(* check_route: same caller's list afterwards, same result / exception class, for every state and
   every candidate (names, ints, mixed, negative or too large ints, any length) *)
Theorem C06_gen_check_route : forall st r, gen_check_route st r = check_route st r.
Proof.
  intros st r. unfold gen_check_route, check_route. cbv zeta.
  unfold py_len.
  assert (Z0 : py_list_repeat 0 (Z.of_nat (length (nodes (pg st)))) = repeat 0 (length (nodes (pg st))))
    by (unfold py_list_repeat; rewrite Nat2Z.id; reflexivity).
  rewrite !Z0. clear Z0.
  destruct (Z.of_nat (length r) <? 2) eqn:E2; destruct (length r <? 2)%nat eqn:E2'; try lia.
  - reflexivity.
  - cbn [for_each]. rewrite C06_gen_loop1_step.
    assert (P0 : forall n, (2 <= n)%nat -> py_pos n 0 = Some 0%nat).
    { intros n Hn. apply (py_pos_nat n 0). lia. }
    assert (P1 : forall n, (2 <= n)%nat -> py_pos n 1 = Some 1%nat).
    { intros n Hn. apply (py_pos_nat n 1). lia. }
    assert (L : forall g p (a b : list elem), conv_at g p a = Ok b -> length b = length a).
    { intros g p a b. unfold conv_at. destruct (nth_error a p); [|discriminate].
      destruct (conv g e); [|discriminate]. intros H; inversion H. apply set_nth_length. }
    rewrite (P0 (length r)) by lia.
    destruct (conv_at (pg st) 0 r) as [r1|x] eqn:C0; [|reflexivity].
    pose proof (L _ _ _ _ C0) as L1.
    rewrite C06_gen_loop1_step. rewrite (P1 (length r1)) by lia.
    destruct (conv_at (pg st) 1 r1) as [r2|x] eqn:C1; [|reflexivity].
    pose proof (L _ _ _ _ C1) as L2.
    rewrite C06_gen_loop1_step. rewrite (py_pos_last (length r2)) by lia.
    replace (length r2 - 1)%nat with (length r - 1)%nat by lia.
    destruct (conv_at (pg st) (length r - 1) r2) as [r3|x] eqn:C2; [|reflexivity].
    pose proof (L _ _ _ _ C2) as L3.
    rewrite (py_getitem_pos r3 0 0) by (apply P0; lia).
    rewrite (py_getitem_pos r3 (-1) (length r3 - 1)) by (apply py_pos_last; lia).
    unfold py_depot_index, not_depot.
    destruct (nth_error r3 0) as [e0|] eqn:E0; [|apply nth_error_None in E0; lia].
    destruct (nth_error r3 (length r3 - 1)) as [el|] eqn:El; [|apply nth_error_None in El; lia].
    cbn [rbind].
    destruct e0 as [nm|z0]; cbn [elem_eq_int negb orb rbind]; [reflexivity|].
    destruct (z0 =? 0) eqn:Ez; cbn [negb orb]; [|reflexivity].
    destruct el as [nm|zl]; cbn [elem_eq_int negb]; [reflexivity|].
    destruct (zl =? 0) eqn:Ezl; cbn [negb]; [|reflexivity].
    destruct r3 as [|e0 rest]; [discriminate E0|].
    cbn [nth_error] in E0. inversion E0; subst e0.
    match goal with |- context [py_range ?a] =>
      replace a with (Z.of_nat (length rest)) by (cbn [length]; lia) end.
    rewrite py_range_nat.
    exact (C06_gen_loop2 st rest [] z0 0 (pinit st) 0 (repeat 0 (length (nodes (pg st))))).
Qed.
Print Assumptions C06_gen_check_route.

(* ---------------- add_route ---------------- *)
(* same state afterwards, same caller's list, same result *)
Theorem C06_gen_add_route : forall st r, gen_add_route st r = add_route st r.
Proof.
  intros st r. unfold gen_add_route, add_route. rewrite C06_gen_check_route.
  destruct (check_route st r) as [r' res]. cbn [fst snd].
  destruct res as [[[feas cost] vis]|x]; [|reflexivity].
  cbv zeta. destruct (feas && negb (route_mem r' (proutes st))) eqn:E; [|reflexivity].
  rewrite st_append_all. reflexivity.
Qed.
Print Assumptions C06_gen_add_route.

(* ---------------- the C06 theorems for the generated definitions ---------------- *)
(* headline: accepted iff valid route (C06_check_iff) *)
Theorem C06_gen_check_iff : forall st r idxs,
  Inv (pg st) -> resolve (pg st) r = Some idxs ->
  Forall (fun i => (i < length (nodes (pg st)))%nat) idxs ->
  exists feas c v,
    snd (gen_check_route st r) = Ok (feas, c, v) /\
    (feas = true <-> valid_route st idxs) /\
    (feas = true -> c = route_cost (pg st) idxs /\
                    v = indicator (length (nodes (pg st))) idxs /\
                    fst (gen_check_route st r) = map ix idxs).
Proof. intros st r idxs. rewrite C06_gen_check_route. apply C06_check_iff. Qed.
Print Assumptions C06_gen_check_iff.

(* C06_check_iff_any_candidate *)
Theorem C06_gen_check_iff_any_candidate : forall st r c v,
  Inv (pg st) ->
  (snd (gen_check_route st r) = Ok (true, c, v) <->
   exists idxs, resolve (pg st) r = Some idxs /\ valid_route st idxs /\
                c = route_cost (pg st) idxs /\ v = indicator (length (nodes (pg st))) idxs).
Proof. intros st r c v. rewrite C06_gen_check_route. apply C06_check_iff_any_candidate. Qed.
Print Assumptions C06_gen_check_iff_any_candidate.

(* C06_add_route_result (feas / added characterisation; nothing changes when not added) *)
Theorem C06_gen_add_route_result : forall st r st' r' feas added,
  Inv (pg st) -> gen_add_route st r = (st', r', Ok (feas, added)) ->
  (feas = true <-> exists idxs, resolve (pg st) r = Some idxs /\ valid_route st idxs) /\
  (added = true <->
     feas = true /\ forall idxs, resolve (pg st) r = Some idxs -> ~ In idxs (proutes st)) /\
  (added = false -> st' = st).
Proof.
  intros st r st' r' feas added HI H. rewrite C06_gen_add_route in H.
  destruct (C06_add_route_result st r st' r' feas added HI H) as (H1 & H2 & _ & H4). auto.
Qed.
Print Assumptions C06_gen_add_route_result.

(* ---------------- get_math_program_data / get_objective_data / get_constraint_data ---------------- *)
(* body of the enumerate loop on a tabulated matrix: one column write, or IndexError *)
Theorem C06_gen_mp_loop_step : forall st n m F j vs,
  gen_get_math_program_data_loop1 st (Z.of_nat j, vs) (tab n m F) =
  if mp_write_bad n m (j, vs) then Stop (Err IndexError)
  else Cont (tab n m (fun k c => if Nat.eqb c j && memb k vs then 1 else F k c)).
Proof.
  intros. unfold gen_get_math_program_data_loop1. cbv beta iota zeta.
  unfold np_ones, py_len.
  destruct (Z.of_nat (length vs) <? 0) eqn:E; [lia|].
  cbn [rbind]. rewrite Nat2Z.id, np_scale_ones, mat_set_pairs_tab.
  destruct (mp_write_bad n m (j, vs)); reflexivity.
Qed.
Print Assumptions C06_gen_mp_loop_step.

(* the enumerate loop: IndexError iff some write is out of bounds, else the columns of the lists *)
Theorem C06_gen_mp_loop : forall st n m l2 l1,
  for_each (py_enumerate_from (length l1) l2) (gen_get_math_program_data_loop1 st) (tab n m (cols_of l1)) =
  if existsb (mp_write_bad n m) (enum_from (length l1) l2) then Stop (Err IndexError)
  else Cont (tab n m (cols_of (l1 ++ l2))).
Proof.
  intros st n m l2. induction l2 as [|vs l2 IH]; intros l1.
  - cbn. rewrite app_nil_r. reflexivity.
  - cbn [py_enumerate_from enum_from for_each existsb]. rewrite C06_gen_mp_loop_step.
    destruct (mp_write_bad n m (length l1, vs)); [reflexivity|]. cbn [orb].
    rewrite (tab_ext n m _ (cols_of (l1 ++ [vs]))) by (intros; apply cols_of_snoc).
    specialize (IH (l1 ++ [vs])). rewrite app_length in IH. cbn [length] in IH.
    replace (length l1 + 1)%nat with (S (length l1)) in IH by lia.
    rewrite <- app_assoc in IH. exact IH.
Qed.
Print Assumptions C06_gen_mp_loop.

(* get_math_program_data: the hand model's (cost, dense rows without the depot row, rhs) and the
   shape of the matrix, or the same exception (ValueError on the empty problem, IndexError) *)
Theorem C06_gen_math_program_data : forall st,
  match gen_get_math_program_data st with
  | Ok (c, A, b) =>
      math_program_data st = Ok (c, mrows A, b) /\
      mat_shape A = ((length (nodes (pg st)) - 1)%nat, num_variables st)
  | Err e => math_program_data st = Err e
  end.
Proof.
  intros st. unfold gen_get_math_program_data, math_program_data, num_variables. cbv zeta.
  set (n := length (nodes (pg st))). set (m := length (pcosts st)).
  unfold py_len. fold n. fold m. unfold np_ones at 1.
  destruct (Nat.eqb_spec n 0) as [E0|E0].
  { rewrite E0. reflexivity. }
  destruct (Z.of_nat n - 1 <? 0) eqn:E1; [lia|].
  unfold mat_zeros. destruct ((Z.of_nat n <? 0) || (Z.of_nat m <? 0)) eqn:E2; [lia|].
  rewrite sparse_zeros_tab.
  pose proof (C06_gen_mp_loop st n m (pvisited st) []) as HL. cbn [length app] in HL.
  rewrite (tab_ext n m (fun _ _ => 0) (cols_of [])) by (intros k c _ _; unfold cols_of; destruct c; reflexivity).
  unfold py_enumerate. rewrite HL. clear HL.
  destruct (existsb (mp_write_bad n m) (enum_from 0 (pvisited st))); [reflexivity|].
  unfold np_ones. destruct (Z.of_nat n <? 0) eqn:E3; [lia|]. rewrite Nat2Z.id.
  unfold py_depot_index, py_setitem. rewrite repeat_length.
  assert (P0 : py_pos n 0 = Some 0%nat) by (apply (py_pos_nat n 0); lia). rewrite P0. clear P0.
  destruct n as [|n']; [lia|]. cbn [repeat set_nth].
  unfold mat_mask_rows, tab. cbn [mrows mcols length].
  rewrite map_length, seq_length, repeat_length, Nat.eqb_refl.
  cbn [seq map mask_filter remove_nth].
  replace (repeat true n') with (repeat true (length (map (fun k => map (cols_of (pvisited st) k) (seq 0 m)) (seq 1 n'))))
    by (rewrite map_length, seq_length; reflexivity).
  rewrite mask_filter_true.
  replace (Z.to_nat (Z.of_nat (S n') - 1)) with n' by lia.
  replace (S n' - 1)%nat with n' by lia.
  split; [reflexivity|].
  unfold mat_shape. cbn [mrows mcols]. rewrite map_length, seq_length. reflexivity.
Qed.
Print Assumptions C06_gen_math_program_data.

(* get_objective_data: never raises; (costs, zero matrix) with shape (#routes, #routes) *)
Theorem C06_gen_objective_data : forall st,
  match gen_get_objective_data st with
  | Ok (c, Q) => (c, mrows Q) = objective_data st /\ mat_shape Q = (num_variables st, num_variables st)
  | Err _ => False
  end.
Proof.
  intros st. unfold gen_get_objective_data, gen_get_num_variables, objective_data, num_variables, py_len, mat_zeros.
  destruct ((Z.of_nat (length (pcosts st)) <? 0) || (Z.of_nat (length (pcosts st)) <? 0)) eqn:E; [lia|].
  cbn [rbind]. unfold sparse_zeros, mat_shape, zero_matrix. cbn [mrows mcols].
  rewrite Nat2Z.id, repeat_length. split; reflexivity.
Qed.
Print Assumptions C06_gen_objective_data.

(* get_constraint_data: the hand model's tuple, with the shape of A that the harness observes *)
Theorem C06_gen_constraint_data : forall st,
  match gen_get_constraint_data st with
  | Ok (A, b, Q, r) =>
      constraint_data st = Ok (mat_shape A, mrows A, b, mrows Q, r) /\
      mat_shape Q = (num_variables st, num_variables st)
  | Err e => constraint_data st = Err e
  end.
Proof.
  intros st. unfold gen_get_constraint_data, constraint_data.
  pose proof (C06_gen_math_program_data st) as H.
  destruct (gen_get_math_program_data st) as [[[c A] b]|e]; [|rewrite H; reflexivity].
  destruct H as [H1 H2].
  unfold gen_get_num_variables, num_variables, py_len, mat_zeros in *.
  destruct ((Z.of_nat (length (pcosts st)) <? 0) || (Z.of_nat (length (pcosts st)) <? 0)) eqn:E; [lia|].
  cbn [rbind]. rewrite H1, H2.
  unfold sparse_zeros, zero_matrix, mat_shape. cbn [mrows mcols]. rewrite Nat2Z.id, repeat_length.
  split; reflexivity.
Qed.
Print Assumptions C06_gen_constraint_data.

(* C06_cover for the generated constraint data: after every history with at least one node the
   generated get_constraint_data returns the exact-cover system *)
Theorem C06_gen_cover : forall cap init ops,
  let st := prun ops (pempty cap init) in
  let n := length (nodes (pg st)) in
  let m := length (proutes st) in
  (0 < n)%nat ->
  exists A Q,
    gen_get_constraint_data st = Ok (A, repeat 1 (n - 1)%nat, Q, 0) /\
    mat_shape A = ((n - 1)%nat, m) /\ mat_shape Q = (m, m) /\
    (forall i j, nth j (nth i (mrows Q) []) 0 = 0) /\
    (forall k j r, (k < n - 1)%nat -> nth_error (proutes st) j = Some r ->
       (nth j (nth k (mrows A) []) 0 = 1 <-> In (S k) r) /\
       (nth j (nth k (mrows A) []) 0 = 0 <-> ~ In (S k) r)).
Proof.
  intros cap init ops st n m Hn.
  destruct (C06_cover cap init ops) as [_ HC]. fold st in HC. specialize (HC Hn).
  destruct HC as (A0 & E1 & E2 & _ & E4 & _ & _ & E7 & E8).
  pose proof (C06_gen_constraint_data st) as HG.
  destruct (gen_get_constraint_data st) as [[[[A b] Q] r]|e]; [|rewrite E2 in HG; discriminate].
  destruct HG as [HG HQs]. rewrite E2 in HG. inversion HG as [[Hrows Hcols HA Hb HQ Hr]].
  exists A, Q. split; [reflexivity|].
  split; [unfold mat_shape; rewrite <- Hrows, <- Hcols; reflexivity|].
  split; [rewrite HQs, E4; reflexivity|].
  split; [rewrite <- HQ; exact E7|].
  subst A0. intros k j r0 Hk Hj. destruct (E8 k j r0 Hk Hj) as (Ec & H1 & H0).
  rewrite <- Ec. split; assumption.
Qed.
Print Assumptions C06_gen_cover.
