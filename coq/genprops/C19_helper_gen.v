(* C19 (the generic helper), generated model.  SampleHelperGen.v is printed on every run by
   harness/translate_samplehelper.py from the module-level function `sample(vari, size)` of
   src/vrpqubo/examples/mirp_random.py of the tree under test; this file proves it equal to the hand model
   Sampler.sample for all values, sizes and draw logs, and restates C19_sample_helper for it.  Only theorems. *)
From Coq Require Import List Arith Bool String.
From VQ Require Import Base Sampler Sampler_facts PySampleHelper.
From VQG Require Import SampleHelperGen.
Import ListNotations.

(* generated helper = hand model: sampler -> rvs(size); scalar and size 1, or matching length -> the value
   itself; otherwise ValueError -- as functions of the draw log *)
Theorem C19_helper_gen_sample_eq :
  forall (K : Type) (k1 : K) (kadd kmul kdiv : K -> K -> K) (kopp : K -> K)
         (d : nat -> nat -> nat -> list K) (v : pyval K) (size : nat) (st : dlog),
    gen_sample K k1 kadd kmul kdiv kopp d v size st = sample k1 kadd kmul kdiv kopp d v size st.
Proof.
  intros K k1 kadd kmul kdiv kopp d v size st. unfold gen_sample, sample.
  destruct v as [s|c|l]; cbn.
  - reflexivity.
  - destruct (Nat.eqb size 1); reflexivity.
  - destruct (Nat.eqb (length l) size); reflexivity.
Qed.
Print Assumptions C19_helper_gen_sample_eq.

(* the default of `size` is 1 *)
Theorem C19_helper_gen_default_size : gen_sample_default_size = 1%nat.
Proof. reflexivity. Qed.
Print Assumptions C19_helper_gen_default_size.

(* C19_sample_helper for the generated function: on a non-random value it returns the value itself when
   (scalar and size = 1) or (sequence of length size), raises ValueError in every other case, and draws nothing;
   on a sampler it returns the array drawn by rvs(size) *)
Theorem C19_helper_gen_sample_helper :
  forall (K : Type) (k1 : K) (kadd kmul kdiv : K -> K -> K) (kopp : K -> K)
         (d : nat -> nat -> nat -> list K) (size : nat) (st : dlog),
    (forall v : pyval K, (forall s, v <> PSampler s) ->
       let fits := (is_scalar v = true /\ size = 1%nat) \/ (is_scalar v = false /\ pylen v = size) in
       (fits -> gen_sample K k1 kadd kmul kdiv kopp d v size st = (Ok v, st)) /\
       (~ fits -> gen_sample K k1 kadd kmul kdiv kopp d v size st = (Err ValueError, st))) /\
    (forall s : sampler K,
       gen_sample K k1 kadd kmul kdiv kopp d (PSampler s) size st =
       (Ok (PSeq (fst (rvs k1 kadd kmul kdiv kopp d size s st))), snd (rvs k1 kadd kmul kdiv kopp d size s st))).
Proof.
  intros K k1 kadd kmul kdiv kopp d size st. split.
  - intros v Hv. rewrite C19_helper_gen_sample_eq. apply sample_nonrandom. exact Hv.
  - intros s. rewrite C19_helper_gen_sample_eq. apply sample_sampler.
Qed.
Print Assumptions C19_helper_gen_sample_helper.
