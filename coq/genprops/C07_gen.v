(* C07_gen -- the definitions GENERATED from the constraint / objective builders of sequence_based_rp.py
   (coq/gen/SeqConsGen.v, written by harness/translate_seqcons.py on every run of `bin/check C07`, on top of
   coq/gen/SeqGen.v of package seqenum) assemble exactly the hand model Seq.v, and the C07 headline holds for
   the data the generated get_constraint_data / get_objective_data return.

   Not part of the coq_makefile project: ctx.gen_step compiles gen/SeqGen.v, gen/SeqConsGen.v and then this
   file with  coqc -Q theories VQ -Q props VQP -Q gen VQG -Q genprops VQGP genprops/C07_gen.v  and counts
   every theorem below as a proof obligation.  It re-uses the theorems of genprops/C18_seq_gen.v about the
   generated enumeration (compiled by the seqenum step that precedes this one in harness/props/c07.py).

   Vocabulary (coq/theories/PySeqCons.v): `cstate` is the object (the enumeration half `c_q : qstate` plus
   the builders' attributes); `enumerated_for I q`: the enumeration half after enumerate_variables() on the
   problem I; q_step / lin_step / lin_row_step / obj_step are the loops of the builders written as folds of
   literal steps over the hand model's call lists (Seq.Rcalls, Seq.rows, Seq.obj_calls), q_lift / lin_*_lift /
   obj_lift the loop states of the generated loops; R_mat / A_mat / b_list / obj_cvec / Q_mat what the hand
   model says the containers hold (PySeqCons_facts: their dense meaning is Seq.Rmat / Amat / bvec / cvec / Qo);
   cons_wf I: arc keys are distinct node positions and vehicle_cost has an entry per vehicle (only needed
   by build_objective, which would raise KeyError / IndexError otherwise); cons_coherent: the cache
   discipline (a set build flag means the cached container is that of the problem).

   Every statement quantifies over ALL object states and problems. *)
From Coq Require Import ZifyBool.
From VQ Require Import Base LinAlg Vrptw Seq Seq_facts PyEnumCore PyEnumCore_facts PySeq PySeq_facts PySeqCons PySeqCons_facts.
From VQG Require Import SeqGen SeqConsGen.
From VQGP Require Import C18_seq_gen.
From VQP Require C07.

Ltac cs_red :=
  cbn [c_q c_objective_built c_lin_con_built c_quad_con_built c_lin_con_names c_objective_c c_objective_q
       c_quadratic_constraints_matrix c_linear_constraints_matrix c_linear_constraints_rhs
       cset_q cset_objective_built cset_lin_con_built cset_quad_con_built cset_lin_con_names cset_objective_c
       cset_objective_q cset_quadratic_constraints_matrix cset_linear_constraints_matrix
       cset_linear_constraints_rhs with_enum].
Ltac gen_fold l := match goal with |- context [fold_left ?f l ?a] => generalize (fold_left f l a) end.

(* ---------- the generated enumeration methods, as the builders call them ---------- *)

Theorem C07_gen_enumerate_call : forall self, seq_coherent (c_q self) ->
  py_call_q (fun q_ => gen_enumerate_variables q_) self = Ok (with_enum self, Datatypes.tt) /\
  enumerated_for (seq_inst (c_q self)) (c_q (with_enum self)).
Proof.
  intros self Hc. unfold py_call_q. rewrite C18_seq_gen_enumerate_eq. split; [reflexivity|].
  destruct (C18_seq_gen_dispatch_eq _ Hc) as (H1 & H2 & H3 & H4 & H5 & H6 & _).
  rewrite C18_seq_gen_enumerate_eq in H1, H2, H3, H4, H5, H6. cbn [fst] in *.
  unfold with_enum, enum_q. destruct self as [q b1 b2 b3 nms oc oq qm lm lr]; cbn [c_q cset_q] in *. repeat split; assumption.
Qed.
Print Assumptions C07_gen_enumerate_call.

Theorem C07_gen_enumerated_calls : forall I self, enumerated_for I (c_q self) ->
  py_call_q (fun q_ => gen_enumerate_variables q_) self = Ok (self, Datatypes.tt) /\
  py_call_q (fun q_ => gen_get_num_variables q_) self = Ok (self, num_variables I) /\
  (forall v s n, (v < iV I)%nat -> (s < iL I)%nat -> (n < iN I)%nat ->
     py_call_qr (fun q_ => gen_get_var_index q_ v s n) self =
     Ok (self, option_map Z.of_nat (var_index I (v, s, n)))) /\
  (forall k, gen_check_arc (c_q self) k = check_arc I k).
Proof.
  intros I self (Hf & HI & Hvm & Hnv & Hfx & Hinv).
  assert (Hc : seq_coherent (c_q self)) by (intros _; rewrite HI; repeat split; assumption).
  assert (He : gen_enumerate_variables (c_q self) = (c_q self, Datatypes.tt))
    by (rewrite C18_seq_gen_enumerate_eq, Hf; reflexivity).
  split; [|split; [|split]].
  - unfold py_call_q. rewrite He, cset_q_id. reflexivity.
  - unfold py_call_q, gen_get_num_variables. rewrite Hf. cbn [negb]. rewrite Hnv, cset_q_id. reflexivity.
  - intros v s n Hv Hs Hn. unfold py_call_qr. rewrite (C18_seq_gen_get_var_index_eq _ v s n Hc), He, HI.
    cbn [fst]. apply Nat.ltb_lt in Hv, Hs, Hn. rewrite Hv, Hs, Hn. cbn [andb]. rewrite cset_q_id. reflexivity.
  - intros k. rewrite C18_seq_gen_check_arc_eq, HI. reflexivity.
Qed.
Print Assumptions C07_gen_enumerated_calls.


(* ---------- quadratic_constraint_logic and the loops of build_quadratic_constraints ---------- *)

(* one call = one Seq.qlogic: the pair is appended when both tuples are variables, otherwise the fixed value(s)
   are checked with the assert (AssertionError), exactly as the hand model does *)
Theorem C07_gen_qlogic_eq : forall I self v s ni nj rows cols,
  enumerated_for I (c_q self) -> (v < iV I)%nat -> (S s < iL I)%nat -> (ni < iN I)%nat -> (nj < iN I)%nat ->
  gen_quadratic_constraint_logic self v s ni nj rows cols =
  match q_step I (rows, cols) (v, s, ni, nj) with Ok e => Ok (self, e) | Err x => Err x end.
Proof.
  intros I self v s ni nj rows cols He Hv Hs Hni Hnj.
  destruct (C07_gen_enumerated_calls I self He) as (_ & _ & Hidx & _).
  destruct He as (_ & _ & _ & _ & Hfx & _).
  unfold gen_quadratic_constraint_logic.
  rewrite (Hidx v s ni Hv ltac:(lia) Hni). cbn [py_bind]. rewrite Nat.add_1_r.
  rewrite (Hidx v (S s) nj Hv Hs Hnj). cbn [py_bind].
  unfold cq_fixed_values. rewrite Hfx. unfold q_step, qlogic, np_isclose.
  destruct (var_index I (v, s, ni)) as [k1|] eqn:E1; destruct (var_index I (v, S s, nj)) as [k2|] eqn:E2;
    cbn [option_map py_is_none andb negb Bool.eqb py_bind].
  - cbn [fst snd map]. reflexivity.
  - rewrite (fixed_getitem I v (S s) nj Hv Hs Hnj E2). cbn [py_bind].
    destruct (fixed_val I (v, S s, nj) =? 0); cbn [fst snd map]; rewrite ?app_nil_r; reflexivity.
  - rewrite (fixed_getitem I v s ni Hv ltac:(lia) Hni E1). cbn [py_bind].
    destruct (fixed_val I (v, s, ni) =? 0); cbn [fst snd map]; rewrite ?app_nil_r; reflexivity.
  - rewrite (fixed_getitem I v s ni Hv ltac:(lia) Hni E1), (fixed_getitem I v (S s) nj Hv Hs Hnj E2). cbn [py_bind].
    destruct (fixed_val I (v, s, ni) * fixed_val I (v, S s, nj) =? 0); cbn [fst snd map]; rewrite ?app_nil_r; reflexivity.
Qed.
Print Assumptions C07_gen_qlogic_eq.

(* the `only allowed arcs` loops: vehicles, positions, node pairs (a pair that is an arc is skipped) *)
Theorem C07_gen_forbidden_loops_eq : forall I self0, enumerated_for I (c_q self0) ->
  (forall ni nj s v e, (ni < iN I)%nat -> (nj < iN I)%nat -> (S s < iL I)%nat -> (v < iV I)%nat ->
     gen_build_quadratic_constraints_body3 ni nj s v (q_lift self0 e) =
     q_lift_r self0 (q_step I e (v, s, ni, nj))) /\
  (forall ni nj s e, (ni < iN I)%nat -> (nj < iN I)%nat -> (S s < iL I)%nat ->
     gen_build_quadratic_constraints_body2 ni nj s (q_lift self0 e) =
     q_lift_r self0 (foldE (q_step I) (forb_calls_s I ni nj s) e)) /\
  (forall ninj e, (fst ninj < iN I)%nat -> (snd ninj < iN I)%nat ->
     gen_build_quadratic_constraints_body1 ninj (q_lift self0 e) =
     q_lift_r self0 (foldE (q_step I) (forb_calls_n I ninj) e)).
Proof.
  intros I self0 He.
  destruct (C07_gen_enumerated_calls I self0 He) as (_ & _ & _ & Hca).
  assert (EV : cq_max_vehicles self0 = iV I) by (destruct He as (_ & <- & _); reflexivity).
  assert (EL : cq_max_sequence_length self0 = iL I) by (destruct He as (_ & <- & _); reflexivity).
  assert (H3 : forall ni nj s v e, (ni < iN I)%nat -> (nj < iN I)%nat -> (S s < iL I)%nat -> (v < iV I)%nat ->
     gen_build_quadratic_constraints_body3 ni nj s v (q_lift self0 e) =
     q_lift_r self0 (q_step I e (v, s, ni, nj))).
  { intros ni nj s v [r c] Hni Hnj Hs Hv. unfold gen_build_quadratic_constraints_body3, q_lift. cbn [fst snd].
    rewrite (C07_gen_qlogic_eq I self0 v s ni nj r c He Hv Hs Hni Hnj).
    destruct (q_step I (r, c) (v, s, ni, nj)) as [[r' c']|x]; reflexivity. }
  assert (H2 : forall ni nj s e, (ni < iN I)%nat -> (nj < iN I)%nat -> (S s < iL I)%nat ->
     gen_build_quadratic_constraints_body2 ni nj s (q_lift self0 e) =
     q_lift_r self0 (foldE (q_step I) (forb_calls_s I ni nj s) e)).
  { intros ni nj s e Hni Hnj Hs. unfold gen_build_quadratic_constraints_body2. unfold q_lift at 1. cbn iota beta.
    change (self0, fst e, snd e) with (q_lift self0 e). rewrite EV. unfold py_range.
    rewrite (py_forE_foldE_lift (q_lift self0) _ (fun e v => q_step I e (v, s, ni, nj))).
    - unfold forb_calls_s. rewrite foldE_map.
      destruct (foldE _ (seq 0 (iV I)) e) as [[r c]|x]; reflexivity.
    - intros v e' Hin. apply in_seq in Hin. apply H3; auto; lia. }
  split; [exact H3|]. split; [exact H2|].
  intros [ni nj] e Hni Hnj. cbn [fst snd] in Hni, Hnj.
  unfold gen_build_quadratic_constraints_body1. unfold q_lift at 1. cbn iota beta.
  rewrite Hca. unfold forb_calls_n. destruct (check_arc I (ni, nj)); [destruct e; reflexivity|].
  change (self0, fst e, snd e) with (q_lift self0 e). rewrite EL, py_range_z_pred. cbn [fst snd].
  rewrite (py_forE_foldE_lift (q_lift self0) _ (fun e s => foldE (q_step I) (forb_calls_s I ni nj s) e)).
  - rewrite foldE_flat_map. destruct (foldE _ (seq 0 (iL I - 1)) e) as [[r c]|x]; reflexivity.
  - intros s e' Hin. apply in_seq in Hin. rewrite H2 by (auto; lia).
    destruct (foldE _ _ e') as [[r c]|x]; reflexivity.
Qed.
Print Assumptions C07_gen_forbidden_loops_eq.

(* the `depot is absorbing` loops: vehicles, positions 1 .. L-2, customers (only existing depot arcs) *)
Theorem C07_gen_absorb_loops_eq : forall I self0, enumerated_for I (c_q self0) ->
  (forall v s nj e, (v < iV I)%nat -> (S s < iL I)%nat -> (1 <= nj < iN I)%nat ->
     gen_build_quadratic_constraints_body6 v s nj (q_lift self0 e) =
     q_lift_r self0 (foldE (q_step I) (abs_calls_n I v s nj) e)) /\
  (forall v s e, (v < iV I)%nat -> (S s < iL I)%nat ->
     gen_build_quadratic_constraints_body5 v s (q_lift self0 e) =
     q_lift_r self0 (foldE (q_step I) (abs_calls_s I v s) e)) /\
  (forall v e, (v < iV I)%nat ->
     gen_build_quadratic_constraints_body4 v (q_lift self0 e) =
     q_lift_r self0 (foldE (q_step I) (abs_calls_v I v) e)).
Proof.
  intros I self0 He.
  destruct (C07_gen_enumerated_calls I self0 He) as (_ & _ & _ & Hca).
  assert (EL : cq_max_sequence_length self0 = iL I) by (destruct He as (_ & <- & _); reflexivity).
  assert (EN : length (cq_nodes self0) = iN I) by (destruct He as (_ & <- & _); reflexivity).
  assert (H6 : forall v s nj e, (v < iV I)%nat -> (S s < iL I)%nat -> (1 <= nj < iN I)%nat ->
     gen_build_quadratic_constraints_body6 v s nj (q_lift self0 e) =
     q_lift_r self0 (foldE (q_step I) (abs_calls_n I v s nj) e)).
  { intros v s nj [r c] Hv Hs Hnj. unfold gen_build_quadratic_constraints_body6, q_lift. cbn [fst snd].
    rewrite Hca. unfold abs_calls_n. destruct (check_arc I (0%nat, nj)); cbn [negb foldE]; [|reflexivity].
    rewrite (C07_gen_qlogic_eq I self0 v s 0%nat nj r c He Hv Hs ltac:(lia) ltac:(lia)).
    destruct (q_step I (r, c) (v, s, 0%nat, nj)) as [[r' c']|x]; reflexivity. }
  assert (H5 : forall v s e, (v < iV I)%nat -> (S s < iL I)%nat ->
     gen_build_quadratic_constraints_body5 v s (q_lift self0 e) =
     q_lift_r self0 (foldE (q_step I) (abs_calls_s I v s) e)).
  { intros v s e Hv Hs. unfold gen_build_quadratic_constraints_body5. unfold q_lift at 1. cbn iota beta.
    change (self0, fst e, snd e) with (q_lift self0 e). rewrite EN, py_range2_1.
    rewrite (py_forE_foldE_lift (q_lift self0) _ (fun e nj => foldE (q_step I) (abs_calls_n I v s nj) e)).
    - unfold abs_calls_s. rewrite foldE_flat_map.
      destruct (foldE _ (seq 1 (iN I - 1)) e) as [[r c]|x]; reflexivity.
    - intros nj e' Hin. apply in_seq in Hin. rewrite H6 by (auto; lia).
      destruct (foldE _ _ e') as [[r c]|x]; reflexivity. }
  split; [exact H6|]. split; [exact H5|].
  intros v e Hv. unfold gen_build_quadratic_constraints_body4. unfold q_lift at 1. cbn iota beta.
  change (self0, fst e, snd e) with (q_lift self0 e). rewrite EL, py_range2_z_pred.
  rewrite (py_forE_foldE_lift (q_lift self0) _ (fun e s => foldE (q_step I) (abs_calls_s I v s) e)).
  - unfold abs_calls_v. rewrite foldE_flat_map. destruct (foldE _ (seq 1 (iL I - 2)) e) as [[r c]|x]; reflexivity.
  - intros s e' Hin. apply in_seq in Hin. rewrite H5 by (auto; lia).
    destruct (foldE _ _ e') as [[r c]|x]; reflexivity.
Qed.
Print Assumptions C07_gen_absorb_loops_eq.

(* build_quadratic_constraints: nothing when the flag is set; otherwise enumerate, run the calls of Seq.Rcalls in
   order (the first failing assert aborts), and store the collected pairs with value 1.0 in an n x n container *)
Theorem C07_gen_build_quadratic_eq : forall self, seq_coherent (c_q self) ->
  let I := seq_inst (c_q self) in
  gen_build_quadratic_constraints self =
  if c_quad_con_built self then Ok (self, Datatypes.tt)
  else match R_entries I with
       | Ok E => Ok (cset_quad_con_built true (cset_quadratic_constraints_matrix (R_mat I E) (with_enum self)),
                     Datatypes.tt)
       | Err x => Err x
       end.
Proof.
  intros self Hc I. unfold gen_build_quadratic_constraints.
  destruct (c_quad_con_built self); [reflexivity|].
  destruct (C07_gen_enumerate_call self Hc) as [-> He]. fold I in He. cbn [py_bind].
  set (self0 := with_enum self) in *.
  destruct (C07_gen_enumerated_calls I self0 He) as (_ & Hnum & _ & _).
  destruct (C07_gen_forbidden_loops_eq I self0 He) as (_ & _ & H1).
  destruct (C07_gen_absorb_loops_eq I self0 He) as (_ & _ & H4).
  assert (EV : cq_max_vehicles self0 = iV I) by (destruct He as (_ & <- & _); reflexivity).
  assert (EN : length (cq_nodes self0) = iN I) by (destruct He as (_ & <- & _); reflexivity).
  assert (HR : foldE (q_step I) (Rcalls I) ([], []) =
               match R_entries I with
               | Ok E => Ok (map (fun p => idx (fst p)) E, map (fun p => idx (snd p)) E)
               | Err x => Err x
               end) by (rewrite foldE_q_step; reflexivity).
  rewrite Rcalls_split, foldE_app in HR.
  change (self0, [], []) with (q_lift self0 ([], [])). rewrite EN. unfold py_range.
  rewrite (py_forE_foldE_lift (q_lift self0) _ (fun e ninj => foldE (q_step I) (forb_calls_n I ninj) e)).
  2:{ intros [ni nj] e Hin. unfold py_product in Hin. apply in_flat_map in Hin. destruct Hin as (a & Ha & Hin).
      apply in_map_iff in Hin. destruct Hin as (b & E & Hb). inversion E; subst. apply in_seq in Ha, Hb.
      rewrite H1 by (cbn [fst snd]; lia). destruct (foldE _ _ e) as [[r c]|x]; reflexivity. }
  rewrite <- foldE_flat_map.
  destruct (foldE (q_step I) (flat_map (forb_calls_n I) (py_product (seq 0 (iN I)) (seq 0 (iN I)))) ([], []))
    as [e1|x]; cbn [py_bind].
  2:{ destruct (R_entries I); [discriminate|]. inversion HR. reflexivity. }
  unfold q_lift at 1. cbn iota beta. change (self0, fst e1, snd e1) with (q_lift self0 e1). rewrite EV.
  rewrite (py_forE_foldE_lift (q_lift self0) _ (fun e v => foldE (q_step I) (abs_calls_v I v) e)).
  2:{ intros v e Hin. apply in_seq in Hin. rewrite H4 by lia. destruct (foldE _ _ e) as [[r c]|x]; reflexivity. }
  rewrite <- foldE_flat_map.
  destruct (foldE (q_step I) (flat_map (abs_calls_v I) (seq 0 (iV I))) e1) as [e2|x]; cbn [py_bind].
  2:{ destruct (R_entries I); [discriminate|]. inversion HR. reflexivity. }
  destruct (R_entries I) as [E|x] eqn:ER; [|discriminate]. inversion HR; subst e2; clear HR.
  unfold q_lift. cbn [fst snd]. rewrite Hnum. cbn [py_bind].
  rewrite (R_coo I E ER). reflexivity.
Qed.
Print Assumptions C07_gen_build_quadratic_eq.


(* ---------- the loops of build_linear_constraints ---------- *)

(* the two innermost bodies (customer rows: line `for vi`, position rows: line `for ni`): a fixed tuple is moved to
   the right-hand side (brhs[-1] -= fixed value), a variable gets the entry (row_index, index, 1.0) *)
Theorem C07_gen_lin_inner_eq : forall I self1 r v s n e, enumerated_for I (c_q self1) ->
  (v < iV I)%nat -> (s < iL I)%nat -> (n < iN I)%nat ->
  gen_build_linear_constraints_body3 r n s v (lin_inner_lift self1 e) =
    Ok (CNext, lin_inner_lift self1 (lin_step I r e (v, s, n))) /\
  gen_build_linear_constraints_body6 r s v n (lin_inner_lift self1 e) =
    Ok (CNext, lin_inner_lift self1 (lin_step I r e (v, s, n))).
Proof.
  intros I self1 r v s n [[[[done cur] arow] acol] aval] He Hv Hs Hn.
  destruct (C07_gen_enumerated_calls I self1 He) as (_ & _ & Hidx & _).
  destruct He as (_ & _ & _ & _ & Hfx & _).
  unfold gen_build_linear_constraints_body3, gen_build_linear_constraints_body6, lin_inner_lift. cbn iota beta.
  rewrite (Hidx v s n Hv Hs Hn). cbn [py_bind]. unfold lin_step.
  destruct (var_index I (v, s, n)) as [k|] eqn:E; cbn [option_map py_is_none].
  - split; reflexivity.
  - rewrite getitem_last. cbn [py_bind]. unfold cq_fixed_values. rewrite Hfx, (fixed_getitem I v s n Hv Hs Hn E).
    cbn [py_bind]. rewrite setitem_last. split; reflexivity.
Qed.
Print Assumptions C07_gen_lin_inner_eq.

(* one constraint row: right-hand side 1.0 and the name are appended, the tuples of the row are visited in code
   order, the row counter advances *)
Theorem C07_gen_lin_rows_eq : forall I self0, enumerated_for I (c_q self0) ->
  (forall ni e, (1 <= ni < iN I)%nat ->
     gen_build_linear_constraints_body1 ni (lin_outer_lift self0 e) =
     Ok (CNext, lin_outer_lift self0 (lin_row_step I e (name_node ni, cust_tuples I ni)))) /\
  (forall si vi e, (1 <= si)%nat -> (S si < iL I)%nat -> (vi < iV I)%nat ->
     gen_build_linear_constraints_body5 si vi (lin_outer_lift self0 e) =
     Ok (CNext, lin_outer_lift self0 (lin_row_step I e (name_pos vi si, pos_tuples I si vi)))) /\
  (forall si e, (1 <= si)%nat -> (S si < iL I)%nat ->
     gen_build_linear_constraints_body4 si (lin_outer_lift self0 e) =
     Ok (CNext, lin_outer_lift self0
                  (fold_left (lin_row_step I) (map (fun vi => (name_pos vi si, pos_tuples I si vi)) (seq 0 (iV I))) e))).
Proof.
  intros I self0 He.
  assert (EV : forall nms, cq_max_vehicles (cset_lin_con_names nms self0) = iV I)
    by (intros; destruct He as (_ & <- & _); reflexivity).
  assert (EL : forall nms, cq_max_sequence_length (cset_lin_con_names nms self0) = iL I)
    by (intros; destruct He as (_ & <- & _); reflexivity).
  assert (EN : forall nms, length (cq_nodes (cset_lin_con_names nms self0)) = iN I)
    by (intros; destruct He as (_ & <- & _); reflexivity).
  assert (He' : forall nms, enumerated_for I (c_q (cset_lin_con_names nms self0))) by (intros; exact He).
  assert (H1 : forall ni e, (1 <= ni < iN I)%nat ->
     gen_build_linear_constraints_body1 ni (lin_outer_lift self0 e) =
     Ok (CNext, lin_outer_lift self0 (lin_row_step I e (name_node ni, cust_tuples I ni)))).
  { intros ni [[[[[nms brhs] arow] acol] aval] r] Hni.
    unfold gen_build_linear_constraints_body1, lin_outer_lift. cbn iota beta zeta.
    set (self1 := cset_lin_con_names (nms ++ [name_node ni]) self0).
    match goal with |- context [py_forE _ _ (?s, _, _, _, _)] => change s with self1 end.
    rewrite (EL (nms ++ [name_node ni]) : cq_max_sequence_length self1 = iL I).
    change (self1, py_append brhs 1, arow, acol, aval) with (lin_inner_lift self1 (brhs, 1, arow, acol, aval)).
    unfold py_range.
    rewrite (py_forE_fold_lift (lin_inner_lift self1) _
               (fun e s => fold_left (lin_step I r) (map (fun v => (v, s, ni)) (seq 0 (iV I))) e)).
    2:{ intros s e Hs. apply in_seq in Hs. unfold gen_build_linear_constraints_body2.
        destruct e as [[[[d c] ar] ac] av]. unfold lin_inner_lift at 1. cbn iota beta.
        change (self1, d ++ [c], ar, ac, av) with (lin_inner_lift self1 (d, c, ar, ac, av)).
        rewrite (EV (nms ++ [name_node ni]) : cq_max_vehicles self1 = iV I). unfold py_range.
        rewrite (py_forE_fold_lift (lin_inner_lift self1) _ (fun e v => lin_step I r e (v, s, ni))).
        - cbn [py_bind]. rewrite fold_left_map'.
          gen_fold (seq 0 (iV I)); intros [[[[d' c'] ar'] ac'] av']. reflexivity.
        - intros v e Hv. apply in_seq in Hv.
          apply (C07_gen_lin_inner_eq I self1 r v s ni e (He' _)); lia. }
    cbn [py_bind]. unfold lin_row_step, cust_tuples. cbn [fst snd]. rewrite fold_left_flat_map'.
    gen_fold (seq 0 (iL I)); intros [[[[d' c'] ar'] ac'] av'].
    unfold lin_inner_lift. cbn iota beta. rewrite Nat.add_1_r. reflexivity. }
  assert (H5 : forall si vi e, (1 <= si)%nat -> (S si < iL I)%nat -> (vi < iV I)%nat ->
     gen_build_linear_constraints_body5 si vi (lin_outer_lift self0 e) =
     Ok (CNext, lin_outer_lift self0 (lin_row_step I e (name_pos vi si, pos_tuples I si vi)))).
  { intros si vi [[[[[nms brhs] arow] acol] aval] r] H1s Hs Hv.
    unfold gen_build_linear_constraints_body5, lin_outer_lift. cbn iota beta zeta.
    set (self1 := cset_lin_con_names (nms ++ [name_pos vi si]) self0).
    match goal with |- context [py_forE _ _ (?s, _, _, _, _)] => change s with self1 end.
    rewrite (EN (nms ++ [name_pos vi si]) : length (cq_nodes self1) = iN I).
    change (self1, py_append brhs 1, arow, acol, aval) with (lin_inner_lift self1 (brhs, 1, arow, acol, aval)).
    unfold py_range.
    rewrite (py_forE_fold_lift (lin_inner_lift self1) _ (fun e n => lin_step I r e (vi, si, n))).
    2:{ intros n e Hn. apply in_seq in Hn. apply (C07_gen_lin_inner_eq I self1 r vi si n e (He' _)); lia. }
    cbn [py_bind]. unfold lin_row_step, pos_tuples. cbn [fst snd]. rewrite fold_left_map'.
    gen_fold (seq 0 (iN I)); intros [[[[d' c'] ar'] ac'] av'].
    unfold lin_inner_lift. cbn iota beta. rewrite Nat.add_1_r. reflexivity. }
  split; [exact H1|]. split; [exact H5|].
  intros si e H1s Hs. unfold gen_build_linear_constraints_body4.
  destruct e as [[[[[nms brhs] arow] acol] aval] r]. unfold lin_outer_lift at 1. cbn iota beta.
  change (cset_lin_con_names nms self0, brhs, arow, acol, aval, r)
    with (lin_outer_lift self0 (nms, brhs, arow, acol, aval, r)).
  rewrite EV. unfold py_range.
  rewrite (py_forE_fold_lift (lin_outer_lift self0) _ (fun e vi => lin_row_step I e (name_pos vi si, pos_tuples I si vi))).
  2:{ intros vi e Hv. apply in_seq in Hv. apply H5; lia. }
  cbn [py_bind]. rewrite fold_left_map'.
  gen_fold (seq 0 (iV I)); intros [[[[[n' b'] ar'] ac'] av'] r'].
  reflexivity.
Qed.
Print Assumptions C07_gen_lin_rows_eq.

(* build_linear_constraints: nothing when the flag is set; otherwise enumerate, one row per customer and one
   per (position 1..L-2, vehicle), in the order of Seq.rows; the container gets shape (number of rows, n) *)
Theorem C07_gen_build_linear_eq : forall self, seq_coherent (c_q self) ->
  let I := seq_inst (c_q self) in
  gen_build_linear_constraints self =
  if c_lin_con_built self then Ok (self, Datatypes.tt)
  else Ok (cset_lin_con_built true
             (cset_linear_constraints_rhs (b_list I)
                (cset_linear_constraints_matrix (A_mat I)
                   (cset_lin_con_names (map fst (named_rows I)) (with_enum self)))), Datatypes.tt).
Proof.
  intros self Hc I. unfold gen_build_linear_constraints.
  destruct (c_lin_con_built self); [reflexivity|].
  destruct (C07_gen_enumerate_call self Hc) as [-> He]. fold I in He. cbn [py_bind].
  set (self0 := with_enum self) in *.
  destruct (C07_gen_lin_rows_eq I self0 He) as (H1 & _ & H4).
  assert (EL : forall nms, cq_max_sequence_length (cset_lin_con_names nms self0) = iL I)
    by (intros; destruct He as (_ & <- & _); reflexivity).
  assert (EN : forall nms, length (cq_nodes (cset_lin_con_names nms self0)) = iN I)
    by (intros; destruct He as (_ & <- & _); reflexivity).
  cbv zeta. rewrite EN, py_range2_1.
  change (cset_lin_con_names [] self0, [], [], [], [], 0%nat)
    with (lin_outer_lift self0 ([], [], [], [], [], 0%nat)).
  rewrite (py_forE_fold_lift (lin_outer_lift self0) _ (fun e ni => lin_row_step I e (name_node ni, cust_tuples I ni))).
  2:{ intros ni e Hin. apply in_seq in Hin. apply H1. lia. }
  cbn [py_bind].
  remember (fold_left (fun e ni => lin_row_step I e (name_node ni, cust_tuples I ni)) (seq 1 (iN I - 1))
                      ([], [], [], [], [], 0%nat)) as e1 eqn:E1.
  destruct e1 as [[[[[n1 b1] ar1] ac1] av1] r1]. unfold lin_outer_lift at 1. cbn iota beta.
  rewrite EL, py_range2_z_pred.
  change (cset_lin_con_names n1 self0, b1, ar1, ac1, av1, r1) with (lin_outer_lift self0 (n1, b1, ar1, ac1, av1, r1)).
  rewrite (py_forE_fold_lift (lin_outer_lift self0) _
             (fun e si => fold_left (lin_row_step I) (map (fun vi => (name_pos vi si, pos_tuples I si vi)) (seq 0 (iV I))) e)).
  2:{ intros si e Hin. apply in_seq in Hin. apply H4; lia. }
  cbn [py_bind].
  remember (fold_left (fun e si => fold_left (lin_row_step I)
                                     (map (fun vi => (name_pos vi si, pos_tuples I si vi)) (seq 0 (iV I))) e)
                      (seq 1 (iL I - 2)) (n1, b1, ar1, ac1, av1, r1)) as e2 eqn:E2.
  assert (EF : fold_left (lin_row_step I) (named_rows I) ([], [], [], [], [], 0%nat) = e2).
  { unfold named_rows. rewrite fold_left_app, fold_left_map', fold_left_flat_map', <- E1. symmetry. exact E2. }
  clear E1 E2. rewrite lin_fold_rows, named_rows_rows in EF. cbn [app] in EF. subst e2.
  unfold lin_outer_lift. cbn iota beta.
  destruct (C07_gen_enumerated_calls I (cset_lin_con_names (map fst (named_rows I)) self0) He) as (_ & -> & _).
  cbn [py_bind]. fold (A_entries I). fold (b_list I). rewrite A_coo. reflexivity.
Qed.
Print Assumptions C07_gen_build_linear_eq.


(* ---------- the loops of build_objective ---------- *)

(* one (vehicle, position, arc): coefficient = arc cost + vehicle surcharge; both ends fixed: nothing is recorded
   (the constant is dropped); one end fixed: coefficient times the fixed value is added to objective_c at the free
   end; both free: the triple is appended *)
Theorem C07_gen_obj_cell_eq : forall I self0 v s kv e, enumerated_for I (c_q self0) -> cons_wf I ->
  (v < iV I)%nat -> (S s < iL I)%nat -> In kv (arcs (ig I)) -> obj_inv I e ->
  gen_build_objective_body3 v s (fst kv) (obj_lift self0 e) = Ok (CNext, obj_lift self0 (obj_step I e (v, s, kv))) /\
  obj_inv I (obj_step I e (v, s, kv)).
Proof.
  intros I self0 v s [[ni nj] a] [[[[cv vi] qr] qc] qv] He Hwf Hv Hs Hin Hinv.
  assert (Hk : (ni < iN I)%nat /\ (nj < iN I)%nat).
  { destruct Hwf as (_ & Hr & _). apply (Hr (ni, nj)). apply in_map_iff. exists (ni, nj, a). auto. }
  destruct Hk as [Hni Hnj]. cbn [obj_inv] in Hinv.
  set (self1 := cset_objective_c cv self0).
  destruct (C07_gen_enumerated_calls I self1 He) as (_ & _ & Hidx & _).
  assert (EA : cq_arcs self1 = arcs (ig I)) by (destruct He as (_ & <- & _); reflexivity).
  assert (EC : cq_vehicle_cost self1 = ivc I) by (destruct He as (_ & <- & _); reflexivity).
  assert (EF : cq_fixed_values self1 = fixed_items I) by (destruct He as (_ & _ & _ & _ & <- & _); reflexivity).
  unfold gen_build_objective_body3, obj_lift. cbn iota beta zeta. cbn [fst]. fold self1.
  rewrite (Hidx v s ni Hv ltac:(lia) Hni). cbn [py_bind]. rewrite Nat.add_1_r.
  rewrite (Hidx v (S s) nj Hv Hs Hnj). cbn [py_bind].
  rewrite EA, (arcs_item I (ni, nj) a Hwf Hin). cbn [py_bind].
  rewrite EC, (vcost_item I v Hwf Hv). cbn [py_bind]. rewrite EF.
  unfold obj_step, obj_coeff, py_get_cost.
  destruct (var_index I (v, s, ni)) as [k1|] eqn:E1; destruct (var_index I (v, S s, nj)) as [k2|] eqn:E2;
    cbn [option_map py_is_none andb orb negb Bool.eqb py_bind py_local_get]; rewrite ?EF.
  - split; [reflexivity | exact Hinv].
  - rewrite (fixed_getitem I v (S s) nj Hv Hs Hnj E2). cbn [py_bind py_local_get].
    change (c_objective_c self1) with cv.
    rewrite (vec_augitem_add cv k1) by (rewrite Hinv, <- nv_num; eapply var_index_lt; eauto).
    cbn [py_bind]. split; [reflexivity | cbn [obj_inv]; rewrite vec_add_length; exact Hinv].
  - rewrite (fixed_getitem I v s ni Hv ltac:(lia) Hni E1). cbn [py_bind py_local_get].
    change (c_objective_c self1) with cv.
    rewrite (vec_augitem_add cv k2) by (rewrite Hinv, <- nv_num; eapply var_index_lt; eauto).
    cbn [py_bind]. split; [reflexivity | cbn [obj_inv]; rewrite vec_add_length; exact Hinv].
  - rewrite (fixed_getitem I v s ni Hv ltac:(lia) Hni E1), (fixed_getitem I v (S s) nj Hv Hs Hnj E2).
    cbn [py_bind]. try destruct (negb (_ =? 0)); (split; [reflexivity | exact Hinv]).
Qed.
Print Assumptions C07_gen_obj_cell_eq.

(* the loops over the arcs (in dict order), the positions 0 .. L-2 and the vehicles *)
Theorem C07_gen_obj_loops_eq : forall I self0, enumerated_for I (c_q self0) -> cons_wf I ->
  (forall v s e, (v < iV I)%nat -> (S s < iL I)%nat -> obj_inv I e ->
     gen_build_objective_body2 v s (obj_lift self0 e) =
       Ok (CNext, obj_lift self0 (fold_left (obj_step I) (map (fun kv => (v, s, kv)) (arcs (ig I))) e)) /\
     obj_inv I (fold_left (obj_step I) (map (fun kv => (v, s, kv)) (arcs (ig I))) e)) /\
  (forall v e, (v < iV I)%nat -> obj_inv I e ->
     let calls := flat_map (fun s => map (fun kv => (v, s, kv)) (arcs (ig I))) (seq 0 (iL I - 1)) in
     gen_build_objective_body1 v (obj_lift self0 e) = Ok (CNext, obj_lift self0 (fold_left (obj_step I) calls e)) /\
     obj_inv I (fold_left (obj_step I) calls e)).
Proof.
  intros I self0 He Hwf.
  assert (EA : forall cv, cq_arcs (cset_objective_c cv self0) = arcs (ig I))
    by (intros; destruct He as (_ & <- & _); reflexivity).
  assert (EL : forall cv, cq_max_sequence_length (cset_objective_c cv self0) = iL I)
    by (intros; destruct He as (_ & <- & _); reflexivity).
  assert (H2 : forall v s e, (v < iV I)%nat -> (S s < iL I)%nat -> obj_inv I e ->
     gen_build_objective_body2 v s (obj_lift self0 e) =
       Ok (CNext, obj_lift self0 (fold_left (obj_step I) (map (fun kv => (v, s, kv)) (arcs (ig I))) e)) /\
     obj_inv I (fold_left (obj_step I) (map (fun kv => (v, s, kv)) (arcs (ig I))) e)).
  { intros v s e Hv Hs Hinv. unfold gen_build_objective_body2.
    destruct e as [[[[cv vi] qr] qc] qv]. unfold obj_lift at 1. cbn iota beta.
    change (cset_objective_c cv self0, vi, qr, qc, qv) with (obj_lift self0 (cv, vi, qr, qc, qv)).
    rewrite EA. unfold py_dict_keys. rewrite py_forE_map, fold_left_map'.
    destruct (py_forE_fold_inv (obj_inv I) (obj_lift self0) (fun kv => gen_build_objective_body3 v s (fst kv))
                (fun e kv => obj_step I e (v, s, kv)) (arcs (ig I))) with (t := (cv, vi, qr, qc, qv)) as [E1 E2].
    - intros kv e Hin Hi. apply C07_gen_obj_cell_eq; auto.
    - exact Hinv.
    - rewrite E1. cbn [py_bind]. split; [|exact E2].
      gen_fold (arcs (ig I)); intros [[[[cv' vi'] qr'] qc'] qv']. reflexivity. }
  split; [exact H2|].
  intros v e Hv Hinv calls. unfold gen_build_objective_body1.
  destruct e as [[[[cv vi] qr] qc] qv]. unfold obj_lift at 1. cbn iota beta.
  change (cset_objective_c cv self0, vi, qr, qc, qv) with (obj_lift self0 (cv, vi, qr, qc, qv)).
  rewrite EL, py_range_z_pred. unfold calls. rewrite fold_left_flat_map'.
  destruct (py_forE_fold_inv (obj_inv I) (obj_lift self0) (gen_build_objective_body2 v)
              (fun e s => fold_left (obj_step I) (map (fun kv => (v, s, kv)) (arcs (ig I))) e) (seq 0 (iL I - 1)))
    with (t := (cv, vi, qr, qc, qv)) as [E1 E2].
  - intros s e Hin Hi. apply in_seq in Hin. apply H2; auto; lia.
  - exact Hinv.
  - rewrite E1. cbn [py_bind]. split; [|exact E2].
    gen_fold (seq 0 (iL I - 1)); intros [[[[cv' vi'] qr'] qc'] qv']. reflexivity.
Qed.
Print Assumptions C07_gen_obj_loops_eq.

(* build_objective: nothing when the flag is set; otherwise enumerate, objective_c = zeros(n) plus the linear
   entries of Seq.c_entries added one by one, objective_q = the triples of Seq.q_entries in an n x n container *)
Theorem C07_gen_build_objective_eq : forall self, seq_coherent (c_q self) -> cons_wf (seq_inst (c_q self)) ->
  let I := seq_inst (c_q self) in
  gen_build_objective self =
  if c_objective_built self then Ok (self, Datatypes.tt)
  else Ok (cset_objective_built true (cset_objective_q (Q_mat I) (cset_objective_c (obj_cvec I) (with_enum self))),
           Datatypes.tt).
Proof.
  intros self Hc Hwf I. unfold gen_build_objective. cbv zeta.
  destruct (c_objective_built self); [reflexivity|].
  destruct (C07_gen_enumerate_call self Hc) as [-> He]. fold I in He, Hwf. cbn [py_bind].
  set (self0 := with_enum self) in *.
  destruct (C07_gen_enumerated_calls I self0 He) as (_ & -> & _). cbn [py_bind].
  destruct (C07_gen_obj_loops_eq I self0 He Hwf) as (_ & H1).
  assert (EV : forall cv, cq_max_vehicles (cset_objective_c cv self0) = iV I)
    by (intros; destruct He as (_ & <- & _); reflexivity).
  rewrite EV. unfold py_range.
  change (cset_objective_c (np_zeros1 (num_variables I)) self0, PyUnbound, [], [], [])
    with (obj_lift self0 (np_zeros1 (num_variables I), PyUnbound, [], [], [])).
  destruct (py_forE_fold_inv (obj_inv I) (obj_lift self0) gen_build_objective_body1
              (fun e v => fold_left (obj_step I)
                            (flat_map (fun s => map (fun kv => (v, s, kv)) (arcs (ig I))) (seq 0 (iL I - 1))) e)
              (seq 0 (iV I)))
    with (t := (np_zeros1 (num_variables I), @PyUnbound (option Z), @nil (option Z), @nil (option Z), @nil Z)) as [E1 _].
  - intros v e Hin Hi. apply in_seq in Hin. apply H1; auto; lia.
  - cbn [obj_inv]. apply repeat_length.
  - rewrite E1. cbn [py_bind]. rewrite <- fold_left_flat_map'. fold (obj_calls I).
    destruct (obj_fold I (obj_calls I) (np_zeros1 (num_variables I)) PyUnbound [] [] []) as [vi' ->].
    rewrite <- c_entries_flat, <- q_entries_flat. cbn [app]. unfold obj_lift. cbn iota beta.
    destruct (C07_gen_enumerated_calls I (cset_objective_c (fold_left vadd (c_entries I) (np_zeros1 (num_variables I))) self0) He)
      as (_ & -> & _).
    cbn [py_bind]. rewrite Q_coo. reflexivity.
Qed.
Print Assumptions C07_gen_build_objective_eq.


(* ---------- reset_build_flags, get_objective_data, get_constraint_data ---------- *)

Theorem C07_gen_reset_build_flags_eq : forall self,
  gen_reset_build_flags self =
  Ok (cset_quad_con_built false (cset_lin_con_built false (cset_objective_built false
        (cqset_variables_enumerated false self))), Datatypes.tt) /\
  seq_inst (c_q (fst (match gen_reset_build_flags self with Ok r => r | Err _ => (self, Datatypes.tt) end))) =
  seq_inst (c_q self).
Proof. intros self. split; reflexivity. Qed.
Print Assumptions C07_gen_reset_build_flags_eq.

(* get_objective_data returns the containers the hand model describes; the object stays coherent and still
   holds the same problem *)
Theorem C07_gen_get_objective_data_eq : forall self, cons_coherent self -> cons_wf (seq_inst (c_q self)) ->
  let I := seq_inst (c_q self) in
  exists self', gen_get_objective_data self = Ok (self', (obj_cvec I, Q_mat I)) /\
                cons_coherent self' /\ seq_inst (c_q self') = I.
Proof.
  intros self Hcoh Hwf I. pose proof Hcoh as (Hc & Ho & Hl & Hq). unfold gen_get_objective_data.
  rewrite (C07_gen_build_objective_eq self Hc Hwf). fold I in Ho, Hl, Hq |- *.
  destruct (enum_q_facts (c_q self) Hc) as (Hc' & HI' & _).
  destruct (c_objective_built self) eqn:Eb; cbn [py_bind].
  - destruct (Ho eq_refl) as [E1 E2]. rewrite E1, E2. exists self.
    split; [reflexivity|]. split; [exact Hcoh | reflexivity].
  - eexists. split; [reflexivity|]. unfold cons_coherent. cs_red. rewrite HI'. fold I.
    split; [|reflexivity]. split; [exact Hc'|]. split; [intros _; split; reflexivity|]. split; assumption.
Qed.
Print Assumptions C07_gen_get_objective_data_eq.

(* get_constraint_data: linear build, then quadratic build, returns (A, b, R, 0); the asserts never fire
   (Seq_facts.R_ok), so it never raises *)
Theorem C07_gen_get_constraint_data_eq : forall self, cons_coherent self ->
  let I := seq_inst (c_q self) in
  exists E self', R_entries I = Ok E /\
    gen_get_constraint_data self = Ok (self', (A_mat I, b_list I, R_mat I E, 0%nat)) /\
    cons_coherent self' /\ seq_inst (c_q self') = I.
Proof.
  intros self Hcoh I. pose proof Hcoh as (Hc & Ho & Hl & Hq). fold I in Ho, Hl, Hq.
  destruct (enum_q_facts (c_q self) Hc) as (Hc1 & HI1 & _). fold I in HI1.
  destruct (enum_q_facts _ Hc1) as (Hc2 & HI2 & _). rewrite HI1 in HI2.
  destruct (R_ok I) as [E HE]. exists E.
  unfold gen_get_constraint_data. rewrite (C07_gen_build_linear_eq self Hc). fold I.
  destruct (c_lin_con_built self) eqn:El; cbn [py_bind].
  - destruct (Hl eq_refl) as [EA Eb].
    rewrite (C07_gen_build_quadratic_eq self Hc). fold I.
    destruct (c_quad_con_built self) eqn:Eq; cbn [py_bind].
    + destruct (Hq eq_refl) as (E' & HE' & EM). assert (E' = E) by congruence. subst E'.
      exists self. split; [exact HE|]. rewrite EA, Eb, EM. unfold sp_csr_array, sp_toarray.
      split; [destruct (Nat.eqb _ _); reflexivity|]. split; [exact Hcoh | reflexivity].
    + rewrite HE. cbn [py_bind]. eexists. split; [reflexivity|]. cs_red. rewrite EA, Eb. unfold sp_csr_array, sp_toarray.
      split; [destruct (Nat.eqb _ _); reflexivity|]. split; [|exact HI1].
      apply (coherent_intro _ I); cs_red; auto.
      intros _. exists E. split; [exact HE | reflexivity].
  - match goal with |- context [gen_build_quadratic_constraints ?s] => set (s1 := s) end.
    assert (Hcs1 : seq_coherent (c_q s1)) by exact Hc1.
    rewrite (C07_gen_build_quadratic_eq s1 Hcs1).
    change (seq_inst (c_q s1)) with (seq_inst (enum_q (c_q self))). rewrite HI1.
    change (c_quad_con_built s1) with (c_quad_con_built self).
    destruct (c_quad_con_built self) eqn:Eq; cbn [py_bind].
    + destruct (Hq eq_refl) as (E' & HE' & EM). assert (E' = E) by congruence. subst E'.
      exists s1. split; [exact HE|].
      change (c_linear_constraints_rhs s1) with (b_list I). change (c_linear_constraints_matrix s1) with (A_mat I).
      change (c_quadratic_constraints_matrix s1) with (c_quadratic_constraints_matrix self).
      rewrite EM. unfold sp_csr_array, sp_toarray.
      split; [destruct (Nat.eqb _ _); reflexivity|]. split; [|exact HI1].
      apply (coherent_intro _ I); unfold s1; cs_red; auto.
    + rewrite HE. cbn [py_bind]. eexists. split; [reflexivity|]. unfold s1. cs_red. unfold sp_csr_array, sp_toarray.
      split; [destruct (Nat.eqb _ _); reflexivity|]. split; [|exact HI2].
      apply (coherent_intro _ I); cs_red; auto.
      intros _. exists E. split; [exact HE | reflexivity].
Qed.
Print Assumptions C07_gen_get_constraint_data_eq.


(* ---------- the data handed out, at the dense meaning, and the C07 headline for it ---------- *)

(* A and b of the generated get_constraint_data are Seq.Amat / Seq.bvec *)
Theorem C07_gen_linear_eq : forall self, cons_coherent self ->
  let I := seq_inst (c_q self) in
  exists self' A b R r, gen_get_constraint_data self = Ok (self', (A, b, R, r)) /\
    m_shape A = (num_rows I, num_variables I) /\ length b = num_rows I /\
    (forall i k, mat_dense A i k = Amat I i k) /\
    (forall i, (i < num_rows I)%nat -> nth i b 0 = bvec I i).
Proof.
  intros self Hcoh I. destruct (C07_gen_get_constraint_data_eq self Hcoh) as (E & self' & _ & Hg & _).
  fold I in Hg. exists self', (A_mat I), (b_list I), (R_mat I E), 0%nat.
  split; [exact Hg|]. split; [reflexivity|]. split; [apply b_list_length|]. split; [apply A_mat_dense|].
  intros i Hi. rewrite b_list_nth. apply Nat.ltb_lt in Hi. rewrite Hi. reflexivity.
Qed.
Print Assumptions C07_gen_linear_eq.

(* R of the generated get_constraint_data is Seq.Rmat of the pairs Seq.R_entries collects; r_eq = 0 *)
Theorem C07_gen_quadratic_eq : forall self, cons_coherent self ->
  let I := seq_inst (c_q self) in
  exists E self' A b R, R_entries I = Ok E /\ gen_get_constraint_data self = Ok (self', (A, b, R, 0%nat)) /\
    m_shape R = (num_variables I, num_variables I) /\ (forall i j, mat_dense R i j = Rmat E i j).
Proof.
  intros self Hcoh I. destruct (C07_gen_get_constraint_data_eq self Hcoh) as (E & self' & HE & Hg & _).
  fold I in Hg, HE. exists E, self', (A_mat I), (b_list I), (R_mat I E).
  split; [exact HE|]. split; [exact Hg|]. split; [reflexivity|]. apply R_mat_dense.
Qed.
Print Assumptions C07_gen_quadratic_eq.

(* c and Q of the generated get_objective_data are Seq.cvec / Seq.Qo *)
Theorem C07_gen_objective_eq : forall self, cons_coherent self -> cons_wf (seq_inst (c_q self)) ->
  let I := seq_inst (c_q self) in
  exists self' c Q, gen_get_objective_data self = Ok (self', (c, Q)) /\
    length c = num_variables I /\ (forall k, nth k c 0 = cvec I k) /\
    m_shape Q = (num_variables I, num_variables I) /\ (forall i j, mat_dense Q i j = Qo I i j).
Proof.
  intros self Hcoh Hwf I. destruct (C07_gen_get_objective_data_eq self Hcoh Hwf) as (self' & Hg & _).
  fold I in Hg. exists self', (obj_cvec I), (Q_mat I).
  split; [exact Hg|]. split; [apply obj_cvec_length|]. split; [apply obj_cvec_nth|]. split; [reflexivity|].
  apply Q_mat_dense.
Qed.
Print Assumptions C07_gen_objective_eq.

(* C07_iff for the GENERATED constraint data: a binary vector satisfies A x = b and x'Rx = 0 -- A, b, R as returned
   by the generated get_constraint_data, read at their dense meaning with the shapes they carry -- iff it is the
   indicator of a walk assignment (per-vehicle walks from and to the depot along arcs, depot absorbing, every
   customer exactly once) *)
Theorem C07_gen_iff : forall self (x : nat -> Z), cons_coherent self ->
  let I := seq_inst (c_q self) in
  seq_ok I -> (3 <= iL I)%nat -> zbinary (num_variables I) x ->
  exists self' A b R, gen_get_constraint_data self = Ok (self', (A, b, R, 0%nat)) /\
    (((forall r, (r < fst (m_shape A))%nat -> zmv (snd (m_shape A)) (mat_dense A) x r = nth r b 0) /\
      zqf (fst (m_shape R)) (mat_dense R) x = 0)
     <-> exists W, walk_assignment I W /\
                   forall k, (k < num_variables I)%nat -> x k = indicator_free I W k).
Proof.
  intros self x Hcoh I Hok HL Hb.
  destruct (C07_gen_get_constraint_data_eq self Hcoh) as (E & self' & HE & Hg & _). fold I in Hg, HE.
  destruct (VQP.C07.C07_iff I x Hok HL Hb) as (E' & HE' & Hiff). assert (E' = E) by congruence. subst E'.
  exists self', (A_mat I), (b_list I), (R_mat I E). split; [exact Hg|].
  rewrite <- Hiff. cbn [m_shape A_mat R_mat fst snd].
  rewrite (zqf_ext _ _ (Rmat E) x (R_mat_dense I E)).
  split; intros [H1 H2]; (split; [|exact H2]); intros r Hr; specialize (H1 r Hr);
    rewrite (zmv_ext _ _ (Amat I) x r (A_mat_dense I r)), b_list_nth in *;
    apply Nat.ltb_lt in Hr; rewrite Hr in *; exact H1.
Qed.
Print Assumptions C07_gen_iff.

(* C07_objective for the GENERATED objective data: on the indicator of a walk assignment, c'x + x'Qx is the summed
   cost of the moves plus the vehicle's surcharge on every move *)
Theorem C07_gen_objective : forall self (W : nat -> nat -> nat) (x : nat -> Z),
  cons_coherent self -> cons_wf (seq_inst (c_q self)) ->
  let I := seq_inst (c_q self) in
  seq_ok I -> (3 <= iL I)%nat -> walk_assignment I W ->
  (forall k, (k < num_variables I)%nat -> x k = indicator_free I W k) ->
  exists self' c Q, gen_get_objective_data self = Ok (self', (c, Q)) /\
    zdot (length c) (fun k => nth k c 0) x + zqf (fst (m_shape Q)) (mat_dense Q) x =
    zsum (iV I) (fun v => zsum (iL I - 1) (fun s => cost I (W v s, W v (S s)) + vcost I v)).
Proof.
  intros self W x Hcoh Hwf I Hok HL HW Hx.
  destruct (C07_gen_get_objective_data_eq self Hcoh Hwf) as (self' & Hg & _). fold I in Hg.
  exists self', (obj_cvec I), (Q_mat I). split; [exact Hg|].
  rewrite <- (VQP.C07.C07_objective I W x Hok HL HW Hx). rewrite obj_cvec_length. cbn [m_shape Q_mat fst].
  rewrite (zdot_ext _ _ (cvec I) x (obj_cvec_nth I)), (zqf_ext _ _ (Qo I) x (Q_mat_dense I)). reflexivity.
Qed.
Print Assumptions C07_gen_objective.
