(* C12_gen -- the definitions GENERATED from applications/mirp.py (coq/gen/MirpGen.v, written by
   harness/translate_mirp.py on every run of bin/check C12) coincide with the hand model Mirp.v /
   MirpWrap.v, and the C12 theorems hold for the graph built by the GENERATED operations.

   Not part of the coq_makefile project (it depends on a generated file); harness/props/c12.py compiles
   gen/MirpGen.v and then this file (ctx.gen_step) and counts every theorem below as a proof obligation.
   The MIRP object is MirpWrap.wstate = (state of Mirp.v, port_frequency); a generated method is a
   computation PyMirp.M: object -> (object reached, value or exception class).  `lift_gres w r` is the
   hand model's (graph reached, exception if any) seen as such an effect on the object w.
   Self-contained: the theorems about __init__ and add_nodes of C11_gen.v are proved again here, because
   histories contain add_nodes calls and the two checks are compiled independently. *)
From Coq Require Import QArith Qabs List Arith Lia.
From VQ Require Import Base Mirp Mirp_facts Mirp_graph_facts Mirp_arcset_facts MirpWrap PyMirp PyMirp_facts.
From VQP Require Import C12.
From VQG Require Import MirpGen.
Import ListNotations.
Local Open Scope Q_scope.

(* ------------------------------------------------------------------------------------------ *)
(* __init__, add_arc, add_nodes                                                               *)
(* ------------------------------------------------------------------------------------------ *)
Theorem C12_gen_init_eq : forall size H,
  gen_init size H blank_state = (winit size H, Ok tt).
Proof.
  intros. unfold gen_init. py_red. change (Qeq_bool (inject_Z 0) 0) with true. cbv iota.
  rewrite Qeq_bool_refl. reflexivity.
Qed.
Print Assumptions C12_gen_init_eq.

(* MIRP.add_arc is VRPTW.add_arc: Mirp.g_add_arc (list.index of both names, timing filter, dict store) *)
Theorem C12_gen_add_arc_eq : forall o d tm c w,
  gen_add_arc o d tm c w =
  match g_add_arc (gr (wst w)) o d tm c with
  | Ok (g', b) => (mkW (set_gr (wst w) g') (wpf w), Ok b)
  | Err e => (w, Err e)
  end.
Proof.
  intros. unfold gen_add_arc, vrptw_add_arc, with_graph, bind, ret.
  destruct (g_add_arc (gr (wst w)) o d tm c) as [[g' b]|e]; reflexivity.
Qed.
Print Assumptions C12_gen_add_arc_eq.

Theorem C12_gen_add_nodes_body_eq : forall name init rate cap dl g sp dp pm cs hz pf k acc,
  gen_add_nodes_loop1 name init rate cap dl (acc, k) (mkW (mkState g sp dp pm cs hz) pf) =
  if Qltb hz (snd (window cs k init rate cap))
  then (mkW (mkState g sp dp pm cs hz) pf, Ok (Break (acc, k)))
  else match g_add_node g (NVisit name k) dl (fst (window cs k init rate cap)) (QFin (snd (window cs k init rate cap))) with
       | Err e => (mkW (mkState g sp dp pm cs hz) pf, Err e)
       | Ok g' =>
           match pm_get name pm with
           | None => (mkW (mkState g' sp dp pm cs hz) pf, Err KeyError)
           | Some _ => (mkW (mkState g' sp dp (pm_append name (NVisit name k) pm) cs hz) pf,
                        Ok (Continue (acc ++ [NVisit name k], S k)))
           end
       end.
Proof.
  intros. unfold gen_add_nodes_loop1, gen_add_node. py_red.
  destruct (Qltb hz (snd (window cs k init rate cap))); [reflexivity|].
  rewrite (rev_unit acc (NVisit name k)). py_red.
  destruct (g_add_node g (NVisit name k) dl (fst (window cs k init rate cap)) (QFin (snd (window cs k init rate cap))))
    as [g'|e]; [|reflexivity].
  py_red. destruct (pm_get name pm) as [l|] eqn:Eget; [|reflexivity].
  py_red. rewrite Eget. rewrite Nat.add_1_r. reflexivity.
Qed.
Print Assumptions C12_gen_add_nodes_body_eq.

Theorem C12_gen_add_nodes_loop_eq : forall name init rate cap dl fuel g sp dp pm cs hz pf k acc,
  pm_get name pm <> None ->
  while_true fuel (gen_add_nodes_loop1 name init rate cap dl) (acc, k) (mkW (mkState g sp dp pm cs hz) pf) =
  (mkW (fst (add_nodes_loop_k fuel (mkState g sp dp pm cs hz) name init rate cap dl k acc)) pf,
   snd (add_nodes_loop_k fuel (mkState g sp dp pm cs hz) name init rate cap dl k acc)).
Proof.
  intros name init rate cap dl fuel. induction fuel as [|f IH]; intros g sp dp pm cs hz pf k acc Hpm.
  - reflexivity.
  - cbn [while_true add_nodes_loop_k]. unfold bind at 1. rewrite C12_gen_add_nodes_body_eq.
    cbn [csize horizon gr sports dports pmap].
    destruct (Qltb hz (snd (window cs k init rate cap))); [reflexivity|].
    destruct (g_add_node g (NVisit name k) dl (fst (window cs k init rate cap)) (QFin (snd (window cs k init rate cap))))
      as [g'|e]; [|reflexivity].
    destruct (pm_get name pm) as [l|] eqn:Eget; [|congruence].
    apply IH. rewrite (pm_get_append_same name (NVisit name k) l pm Eget). discriminate.
Qed.
Print Assumptions C12_gen_add_nodes_loop_eq.

Theorem C12_gen_add_nodes_eq : forall fuel w name init rate cap,
  gen_add_nodes fuel name init rate cap w =
  (mkW (fst (add_nodes_fuel fuel (wst w) name init rate cap)) (pf_step (wpf w) (AddNodes name init rate cap)),
   snd (add_nodes_fuel fuel (wst w) name init rate cap)).
Proof.
  intros fuel [[g sp dp pm cs hz] pf] name init rate cap.
  unfold gen_add_nodes, add_nodes_fuel, pf_step, demand_level, port_freq.
  change (inject_Z 0) with 0. py_red.
  destruct (Qltb 0 rate); py_red; (destruct (Qeq_bool rate 0); [reflexivity|]); py_red;
    rewrite C12_gen_add_nodes_loop_eq by (rewrite pm_get_set_same; discriminate);
    rewrite add_nodes_loop_k_spec;
    match goal with |- context [add_nodes_loop_k ?a ?b ?c ?d ?e ?f ?g ?h ?i] =>
      destruct (add_nodes_loop_k a b c d e f g h i) as [s' [[l k']|e']] end; reflexivity.
Qed.
Print Assumptions C12_gen_add_nodes_eq.

(* ------------------------------------------------------------------------------------------ *)
(* add_travel_arcs                                                                            *)
(* ------------------------------------------------------------------------------------------ *)
(* innermost loop `for s_node, d_node in product(...)`: fee of the demand port, arc s -> d, fee of the
   supply port, arc d -> s, in this order (Mirp.travel_pairs) *)
Theorem C12_gen_travel_pairs_eq : forall fs fd s_p d_p tm tc sp dp pm cs hz pf prs g,
  for_each prs (gen_add_travel_arcs_loop3 fs fd s_p d_p tm tc) tt (mkW (mkState g sp dp pm cs hz) pf) =
  lift_gres (mkW (mkState g sp dp pm cs hz) pf) (travel_pairs g prs tm tc fs fd s_p d_p).
Proof.
  intros fs fd s_p d_p tm tc sp dp pm cs hz pf prs.
  induction prs as [|[sn dn] rest IH]; intro g.
  - reflexivity.
  - cbn [for_each travel_pairs]. unfold bind at 1. unfold gen_add_travel_arcs_loop3 at 1, gen_add_arc. py_red.
    destruct (lookup d_p fd) as [fdv|]; [|reflexivity]. py_red.
    destruct (g_add_arc g sn dn tm (tc + fdv)) as [[g1 b1]|e1]; [|reflexivity]. py_red.
    destruct (lookup s_p fs) as [fsv|]; [|reflexivity]. py_red.
    destruct (g_add_arc g1 dn sn tm (tc + fsv)) as [[g2 b2]|e2]; [|reflexivity]. py_red.
    apply IH.
Qed.
Print Assumptions C12_gen_travel_pairs_eq.

(* `for d_p in self.demand_ports`: distance, travel time (ZeroDivisionError), cost, both port_mapping
   entries, then the pairs (Mirp.travel_d) *)
Theorem C12_gen_travel_d_eq : forall dist speed unit fs fd s_p sp dp pm cs hz pf dps g,
  for_each dps (gen_add_travel_arcs_loop2 dist speed unit fs fd s_p) tt (mkW (mkState g sp dp pm cs hz) pf) =
  lift_gres (mkW (mkState g sp dp pm cs hz) pf) (travel_d g pm s_p dps dist speed unit fs fd).
Proof.
  intros dist speed unit fs fd s_p sp dp pm cs hz pf dps.
  induction dps as [|d_p rest IH]; intro g.
  - reflexivity.
  - cbn [for_each travel_d]. unfold bind at 1. unfold gen_add_travel_arcs_loop2 at 1. py_red.
    destruct (lookup2 s_p d_p dist) as [dd|]; [|reflexivity]. py_red.
    destruct (Qeq_bool speed 0); [reflexivity|]. py_red.
    destruct (pm_get s_p pm) as [ms|]; [|reflexivity]. py_red.
    destruct (pm_get d_p pm) as [md|]; [|reflexivity]. py_red.
    rewrite C12_gen_travel_pairs_eq.
    destruct (travel_pairs g (list_prod ms md) (dd / speed) (dd * unit) fs fd s_p d_p) as [g' [e|]]; py_red.
    + reflexivity.
    + apply IH.
Qed.
Print Assumptions C12_gen_travel_d_eq.

(* `for s_p in self.supply_ports` (Mirp.travel_s) *)
Theorem C12_gen_travel_s_eq : forall dist speed unit fs fd sp dp pm cs hz pf sps g,
  for_each sps (gen_add_travel_arcs_loop1 dist speed unit fs fd) tt (mkW (mkState g sp dp pm cs hz) pf) =
  lift_gres (mkW (mkState g sp dp pm cs hz) pf) (travel_s g pm sps dp dist speed unit fs fd).
Proof.
  intros dist speed unit fs fd sp dp pm cs hz pf sps.
  induction sps as [|s_p rest IH]; intro g.
  - reflexivity.
  - cbn [for_each travel_s]. unfold bind at 1. unfold gen_add_travel_arcs_loop1 at 1. py_red.
    rewrite C12_gen_travel_d_eq.
    destruct (travel_d g pm s_p dp dist speed unit fs fd) as [g' [e|]]; py_red.
    + reflexivity.
    + apply IH.
Qed.
Print Assumptions C12_gen_travel_s_eq.

(* generated add_travel_arcs = hand model, for every object and all arguments *)
Theorem C12_gen_travel_arcs_eq : forall dist speed unit fs fd w,
  gen_add_travel_arcs dist speed unit fs fd w = lift_gres w (add_travel_arcs (wst w) dist speed unit fs fd).
Proof.
  intros dist speed unit fs fd [[g sp dp pm cs hz] pf].
  unfold gen_add_travel_arcs, add_travel_arcs. py_red.
  rewrite C12_gen_travel_s_eq.
  destruct (travel_s g pm sp dp dist speed unit fs fd) as [g' [e|]]; reflexivity.
Qed.
Print Assumptions C12_gen_travel_arcs_eq.

(* ------------------------------------------------------------------------------------------ *)
(* add_exit_arcs                                                                              *)
(* ------------------------------------------------------------------------------------------ *)
Theorem C12_gen_exit_nodes_eq : forall tm c dn sp dp pm cs hz pf ns g,
  for_each ns (gen_add_exit_arcs_loop2 tm c dn) tt (mkW (mkState g sp dp pm cs hz) pf) =
  lift_gres (mkW (mkState g sp dp pm cs hz) pf) (arcs_seq g (map (fun x => (x, dn, tm, c)) ns)).
Proof.
  intros tm c dn sp dp pm cs hz pf ns.
  induction ns as [|x rest IH]; intro g.
  - reflexivity.
  - cbn [for_each map arcs_seq]. unfold bind at 1. unfold gen_add_exit_arcs_loop2 at 1, gen_add_arc. py_red.
    destruct (g_add_arc g x dn tm c) as [[g1 b1]|e1]; [|reflexivity]. py_red.
    apply IH.
Qed.
Print Assumptions C12_gen_exit_nodes_eq.

Theorem C12_gen_exit_ports_eq : forall tm c dn sp dp pm cs hz pf ports g,
  for_each ports (gen_add_exit_arcs_loop1 tm c dn) tt (mkW (mkState g sp dp pm cs hz) pf) =
  lift_gres (mkW (mkState g sp dp pm cs hz) pf) (exit_ports g pm ports dn tm c).
Proof.
  intros tm c dn sp dp pm cs hz pf ports.
  induction ports as [|p rest IH]; intro g.
  - reflexivity.
  - cbn [for_each exit_ports]. unfold bind at 1. unfold gen_add_exit_arcs_loop1 at 1. py_red.
    destruct (pm_get p pm) as [ns|]; [|reflexivity]. py_red.
    rewrite C12_gen_exit_nodes_eq.
    destruct (arcs_seq g (map (fun x => (x, dn, tm, c)) ns)) as [g' [e|]]; py_red.
    + reflexivity.
    + apply IH.
Qed.
Print Assumptions C12_gen_exit_ports_eq.

(* generated add_exit_arcs = hand model: an exit arc node -> depot for every node of every port, supply
   ports first *)
Theorem C12_gen_exit_arcs_eq : forall tm c w,
  gen_add_exit_arcs tm c w = lift_gres w (add_exit_arcs (wst w) tm c).
Proof.
  intros tm c [[g sp dp pm cs hz] pf].
  unfold gen_add_exit_arcs, add_exit_arcs, depot_name. py_red.
  rewrite C12_gen_exit_ports_eq.
  destruct (exit_ports g pm (sp ++ dp) (nm (nth 0 (mnodes g) dummy_mnode)) tm c) as [g' [e|]]; reflexivity.
Qed.
Print Assumptions C12_gen_exit_arcs_eq.

(* ------------------------------------------------------------------------------------------ *)
(* add_entry_arcs                                                                             *)
(* ------------------------------------------------------------------------------------------ *)
Theorem C12_gen_entry_s_nodes_eq : forall limit tm c dn sp dp pm cs hz pf ns g,
  for_each ns (gen_add_entry_arcs_loop2 limit tm c dn) tt (mkW (mkState g sp dp pm cs hz) pf) =
  lift_gres (mkW (mkState g sp dp pm cs hz) pf) (entry_s_nodes g ns dn limit tm c).
Proof.
  intros limit tm c dn sp dp pm cs hz pf ns.
  induction ns as [|x rest IH]; intro g.
  - reflexivity.
  - cbn [for_each entry_s_nodes]. unfold bind at 1. unfold gen_add_entry_arcs_loop2 at 1, gen_add_arc. py_red.
    destruct (find_node x (mnodes g)) as [n|]; [|reflexivity]. py_red.
    destruct (ext_lt_q (hi n) limit); py_red.
    + destruct (g_add_arc g dn x tm c) as [[g1 b1]|e1]; [|reflexivity]. py_red. apply IH.
    + apply IH.
Qed.
Print Assumptions C12_gen_entry_s_nodes_eq.

Theorem C12_gen_entry_s_ports_eq : forall limit tm c dn sp dp pm cs hz pf ports g,
  for_each ports (gen_add_entry_arcs_loop1 limit tm c dn) tt (mkW (mkState g sp dp pm cs hz) pf) =
  lift_gres (mkW (mkState g sp dp pm cs hz) pf) (entry_s_ports g pm ports dn limit tm c).
Proof.
  intros limit tm c dn sp dp pm cs hz pf ports.
  induction ports as [|p rest IH]; intro g.
  - reflexivity.
  - cbn [for_each entry_s_ports]. unfold bind at 1. unfold gen_add_entry_arcs_loop1 at 1. py_red.
    destruct (pm_get p pm) as [ns|]; [|reflexivity]. py_red.
    rewrite C12_gen_entry_s_nodes_eq.
    destruct (entry_s_nodes g ns dn limit tm c) as [g' [e|]]; py_red.
    + reflexivity.
    + apply IH.
Qed.
Print Assumptions C12_gen_entry_s_ports_eq.

(* the demand part: a dummy vessel node Dum<num_dum> (demand -cargo_size, default window), the counter is
   incremented BEFORE the node is added, then depot -> Dum (0, 0) and Dum -> node (Mirp.entry_d_nodes) *)
Theorem C12_gen_entry_d_nodes_eq : forall limit tm c dn sp dp pm cs hz pf ns g nd,
  for_each ns (gen_add_entry_arcs_loop4 limit tm c dn) nd (mkW (mkState g sp dp pm cs hz) pf) =
  lift_gres_nat (mkW (mkState g sp dp pm cs hz) pf) (entry_d_nodes g ns dn limit tm c cs nd).
Proof.
  intros limit tm c dn sp dp pm cs hz pf ns.
  induction ns as [|x rest IH]; intros g nd.
  - reflexivity.
  - cbn [for_each entry_d_nodes]. unfold bind at 1. unfold gen_add_entry_arcs_loop4 at 1, gen_add_arc. py_red.
    destruct (find_node x (mnodes g)) as [n|]; [|reflexivity]. py_red.
    destruct (ext_lt_q (hi n) limit); py_red.
    + change (inject_Z 0) with 0.
      destruct (g_add_node g (NDum nd) (- cs) 0 QInf) as [g1|e1]; [|reflexivity]. py_red.
      destruct (g_add_arc g1 dn (NDum nd) 0 0) as [[g2 b2]|e2]; [|reflexivity]. py_red.
      destruct (g_add_arc g2 (NDum nd) x tm c) as [[g3 b3]|e3]; [|reflexivity]. py_red.
      rewrite Nat.add_1_r. apply IH.
    + apply IH.
Qed.
Print Assumptions C12_gen_entry_d_nodes_eq.

Theorem C12_gen_entry_d_ports_eq : forall limit tm c dn sp dp pm cs hz pf ports g nd,
  for_each ports (gen_add_entry_arcs_loop3 limit tm c dn) nd (mkW (mkState g sp dp pm cs hz) pf) =
  lift_gres_nat (mkW (mkState g sp dp pm cs hz) pf) (entry_d_ports_k g pm ports dn limit tm c cs nd).
Proof.
  intros limit tm c dn sp dp pm cs hz pf ports.
  induction ports as [|p rest IH]; intros g nd.
  - reflexivity.
  - cbn [for_each entry_d_ports_k]. unfold bind at 1. unfold gen_add_entry_arcs_loop3 at 1. py_red.
    destruct (pm_get p pm) as [ns|]; [|reflexivity]. py_red.
    rewrite C12_gen_entry_d_nodes_eq.
    destruct (entry_d_nodes g ns dn limit tm c cs nd) as [[g' [e|]] nd']; unfold lift_gres_nat; py_red.
    + reflexivity.
    + apply IH.
Qed.
Print Assumptions C12_gen_entry_d_ports_eq.

(* generated add_entry_arcs = hand model: depot name read once, supply part, then the demand part with the
   dummy counter starting at 0 *)
Theorem C12_gen_entry_arcs_eq : forall limit tm c w,
  gen_add_entry_arcs limit tm c w = lift_gres w (add_entry_arcs (wst w) limit tm c).
Proof.
  intros limit tm c [[g sp dp pm cs hz] pf].
  unfold gen_add_entry_arcs, add_entry_arcs, depot_name. py_red.
  rewrite C12_gen_entry_s_ports_eq.
  destruct (entry_s_ports g pm sp (nm (nth 0 (mnodes g) dummy_mnode)) limit tm c) as [g' [e|]]; py_red.
  - reflexivity.
  - cbn [fst snd]. rewrite C12_gen_entry_d_ports_eq. rewrite entry_d_ports_k_spec.
    destruct (entry_d_ports_k g' pm dp (nm (nth 0 (mnodes g) dummy_mnode)) limit tm c cs 0) as [[g'' [e|]] nd'];
      reflexivity.
Qed.
Print Assumptions C12_gen_entry_arcs_eq.

(* the default values `travel_time=0, cost=0` of add_exit_arcs and add_entry_arcs *)
Theorem C12_gen_defaults :
  gen_add_exit_arcs_defaults = [0; 0] /\ gen_add_entry_arcs_defaults = [0; 0].
Proof. split; reflexivity. Qed.
Print Assumptions C12_gen_defaults.

(* generated estimate_high_cost = MirpWrap.estimate_high_cost (used by the formulation wrappers, C09) *)
Theorem C12_gen_estimate_high_cost_eq : forall w,
  gen_estimate_high_cost w = (w, estimate_high_cost w).
Proof.
  intros [[g sp dp pm cs hz] pf].
  unfold gen_estimate_high_cost, estimate_high_cost, arc_costs. py_red.
  destruct (py_min (freq_values pf)) as [mf|e]; [|reflexivity]. py_red.
  destruct (Qeq_bool mf 0); [reflexivity|]. py_red.
  rewrite map_map.
  destruct (py_max (map (fun x => acost (snd x)) (marcs g))) as [mc|e]; reflexivity.
Qed.
Print Assumptions C12_gen_estimate_high_cost_eq.

(* ------------------------------------------------------------------------------------------ *)
(* histories of the generated operations                                                      *)
(* ------------------------------------------------------------------------------------------ *)
(* one call: the object reached is MirpWrap.wstep (Mirp.mstep on the state, pf_step on port_frequency) and
   the value / exception is that of Mirp.mstep *)
Theorem C12_gen_step_eq : forall w o,
  ops_step gen_ops w o = (wstep w o, snd (mstep (wst w) o)).
Proof.
  intros w o. rewrite wstep_fst. destruct o as [name init rate cap|dist speed unit fs fd|tm c|limit tm c];
    unfold ops_step, gen_ops; cbn [o_add_nodes o_travel o_exit o_entry mstep pf_step].
  - rewrite C12_gen_add_nodes_eq. unfold add_nodes.
    destruct (add_nodes_fuel (S (nvisits (csize (wst w)) (horizon (wst w)) init rate cap)) (wst w) name init rate cap)
      as [s' [l|e]]; reflexivity.
  - rewrite C12_gen_travel_arcs_eq. unfold lift_gres, of_gres, proc_result.
    destruct (add_travel_arcs (wst w) dist speed unit fs fd) as [g' [e|]]; reflexivity.
  - rewrite C12_gen_exit_arcs_eq. unfold lift_gres, of_gres, proc_result.
    destruct (add_exit_arcs (wst w) tm c) as [g' [e|]]; reflexivity.
  - rewrite C12_gen_entry_arcs_eq. unfold lift_gres, of_gres, proc_result.
    destruct (add_entry_arcs (wst w) limit tm c) as [g' [e|]]; reflexivity.
Qed.
Print Assumptions C12_gen_step_eq.

Theorem C12_gen_run_eq : forall ops w,
  ops_run gen_ops ops w = wrun ops w /\ ops_trace gen_ops ops w = mtrace ops (wst w).
Proof.
  induction ops as [|o ops IH]; intro w.
  - split; reflexivity.
  - unfold ops_run, wrun. cbn [fold_left ops_trace mtrace]. rewrite C12_gen_step_eq. cbn [fst snd].
    destruct (IH (wstep w o)) as [A B]. split.
    + exact A.
    + rewrite B. reflexivity.
Qed.
Print Assumptions C12_gen_run_eq.

(* the graph built by the GENERATED operations from the GENERATED __init__ is the graph of the hand model *)
Theorem C12_gen_graph_eq : forall size H ops,
  wst (ops_run gen_ops ops (ops_init gen_ops size H)) = mrun ops (init_state size H) /\
  ops_trace gen_ops ops (ops_init gen_ops size H) = mtrace ops (init_state size H).
Proof.
  intros. unfold ops_init, gen_ops at 2 4. cbn [o_init]. rewrite C12_gen_init_eq. cbn [fst].
  destruct (C12_gen_run_eq ops (winit size H)) as [A B]. rewrite A, B, wrun_wst_mrun. split; reflexivity.
Qed.
Print Assumptions C12_gen_graph_eq.

(* C12 headline 1 (C12_alternation) for the graph built by the generated operations: over EVERY history of
   the four generated methods starting from the generated __init__ (cargo size > 0, distinct port names):
   depot first with infinite window end, unique names, demand fixed by the kind of the node, and every
   stored arc filed under its endpoints, of an admissible shape (load / unload alternation) and passing the
   timing filter *)
Theorem C12_gen_alternation : forall size H ops,
  0 < size -> NoDup (ports_of ops) ->
  let g := gr (wst (ops_run gen_ops ops (ops_init gen_ops size H))) in
  (exists d0 rest, mnodes g = d0 :: rest /\ nm d0 = NDepot /\ hi d0 = QInf) /\
  NoDup (map nm (mnodes g)) /\
  (forall n, In n (mnodes g) ->
     match kind_of n with
     | KDepot => dem n == 0
     | KSupply | KDum => dem n == - size
     | KDemand => dem n == size
     end) /\
  (forall i j a, In ((i, j), a) (marcs g) ->
     (i < length (mnodes g))%nat /\ (j < length (mnodes g))%nat /\
     aorig a = nm (nth i (mnodes g) dummy_mnode) /\ adest a = nm (nth j (mnodes g) dummy_mnode) /\
     arc_kind_ok (kind_of (nth i (mnodes g) dummy_mnode)) (kind_of (nth j (mnodes g) dummy_mnode)) = true /\
     arc_filter (nth i (mnodes g) dummy_mnode) (nth j (mnodes g) dummy_mnode) (att a) = true).
Proof.
  intros size H ops Hs ND. destruct (C12_gen_graph_eq size H ops) as [E _]. rewrite E.
  exact (C12_alternation size H ops Hs ND).
Qed.
Print Assumptions C12_gen_alternation.

(* C12 headline 2: the vessel load along every depot walk of the generated graph is 0 or the cargo size *)
Theorem C12_gen_load_of_built_graph : forall size H ops path,
  0 < size -> NoDup (ports_of ops) ->
  let g := gr (wst (ops_run gen_ops ops (ops_init gen_ops size H))) in
  walk_ok g 0 path -> interior_ok path ->
  Forall (fun l => l == 0 \/ l == size) (loads g 0 path).
Proof.
  intros size H ops path Hs ND. destruct (C12_gen_graph_eq size H ops) as [E _]. rewrite E.
  exact (C12_load_of_built_graph size H ops path Hs ND).
Qed.
Print Assumptions C12_gen_load_of_built_graph.

(* C12 headline 3 (C12_arcset): the canonical build order run through the GENERATED operations: no call
   raises, the node table, unique arc keys filed under their endpoints, and the arc dict holds EXACTLY the
   specified arcs (travel time = distance/speed, cost = distance*unit cost + fee of the destination port,
   exit and entry arcs, dummy vessels) that pass the timing filter; every regular node has its exit arc *)
Theorem C12_gen_arcset : forall size H ports dist speed unit fs fd etm ec limit ntm nc,
  0 < size -> ports_ok size ports -> ~ speed == 0 -> tables_complete ports dist fs fd ->
  let ops := canonical_ops ports dist speed unit fs fd etm ec limit ntm nc in
  let g := gr (wst (ops_run gen_ops ops (ops_init gen_ops size H))) in
  ops_trace gen_ops ops (ops_init gen_ops size H)
    = map (fun p => Ok (Some (p_vnames size H p))) ports ++ [Ok None; Ok None; Ok None] /\
  mnodes g = nodes_after size H ports ++ dum_nodes size 0 (length (c_early size H ports limit)) /\
  NoDup (map fst (marcs g)) /\
  (forall k a, In (k, a) (marcs g) ->
     pos_of (aorig a) (mnodes g) = Some (fst k) /\ pos_of (adest a) (mnodes g) = Some (snd k) /\
     has_arc g (aorig a, adest a, att a, acost a)) /\
  (forall x, has_arc g x <->
             spec_arc size H ports dist speed unit fs fd etm ec limit ntm nc x /\ passes (mnodes g) x) /\
  (forall p k, In p ports -> (k < pK size H p)%nat -> has_arc g (NVisit (pname p) k, NDepot, etm, ec)).
Proof.
  intros size H ports dist speed unit fs fd etm ec limit ntm nc Hs Hp Hsp Ht ops.
  destruct (C12_gen_graph_eq size H ops) as [E T]. rewrite E, T.
  exact (C12_arcset size H ports dist speed unit fs fd etm ec limit ntm nc Hs Hp Hsp Ht).
Qed.
Print Assumptions C12_gen_arcset.
