(* C18_arc_gen -- the definitions GENERATED from arc_based_rp.py (coq/gen/ArcGen.v, written by
   harness/translate_arcenum.py on every run of `bin/check C18`) compute the hand model Arc.v, and the
   C18 headline holds for the generated enumeration.

   Not part of the coq_makefile project (it depends on a generated file): ctx.gen_step compiles
   gen/ArcGen.v and then this file with
     coqc -Q theories VQ -Q props VQP -Q gen VQG -Q genprops VQGP genprops/C18_arc_gen.v
   and counts every theorem below as a proof obligation.

   Vocabulary (coq/theories/PyArc.v): `astate` is the object (graph, time_points, var_mapping,
   num_variables, variables_enumerated); `arc_holds self I`: the object holds problem I (its graph, and
   the grid as add_time_points stores it, tp I = np.sort(grid)); `arc_coherent self I`: the cache
   discipline (flag set -> the stored maps are those of I); `arc_enumerated self I`: self with the
   three enumeration attributes set to vars I / num_variables I / True; `arc_lift self0 (vm, n)` is
   the loop state (self0 with var_mapping := vm, n) of the generated loops.

   Every statement quantifies over ALL object states (any previous var_mapping, counter, flag) and all
   problems: a re-enumeration that forgets to clear var_mapping, a changed comparison, a `break` turned
   into `continue`, a different lookup ... changes the generated term and breaks the theorem named
   after the method. *)
From Coq Require Import Sorting.Sorted ZifyBool.
From VQ Require Import Base Vrptw Vrptw_facts Arc Arc_facts Heur_arc PyEnumCore PyEnumCore_facts PyArc PyArc_facts.
From VQG Require Import ArcGen.

(* ---------- the small methods ---------- *)
(* add_time_points stores np.sort of its argument and touches nothing else *)
Theorem C18_arc_gen_add_time_points_eq : forall self grid,
  gen_add_time_points self grid = (set_time_points (sortZ grid) self, tt) /\
  arc_holds (fst (gen_add_time_points self grid)) (mkInst (s_graph self) grid).
Proof. intros. split; [reflexivity | split; reflexivity]. Qed.
Print Assumptions C18_arc_gen_add_time_points_eq.

(* check_arc is dict membership *)
Theorem C18_arc_gen_check_arc_eq : forall self k,
  gen_check_arc self k = dict_mem k (arcs (s_graph self)).
Proof. intros; reflexivity. Qed.
Print Assumptions C18_arc_gen_check_arc_eq.

(* check_node_time_compat is Arc.compat (lo <= t <= hi, hi possibly inf) *)
Theorem C18_arc_gen_check_node_time_compat_eq : forall self i t,
  gen_check_node_time_compat self i t = compat (s_graph self) i t.
Proof. intros; reflexivity. Qed.
Print Assumptions C18_arc_gen_check_node_time_compat_eq.

(* ---------- enumerate_variables_quicker: the three nested loops, innermost first.  Each generated
   loop body is one step of Arc.scan (continue below the window, BREAK above it) ---------- *)

Theorem C18_arc_gen_loop_t_eq : forall self0 i j s t e,
  gen_enumerate_variables_quicker_body3 i j s t (arc_lift self0 e) =
  if t <? win_lo (s_graph self0) j then (CNext, arc_lift self0 e)
  else if above t (win_hi (s_graph self0) j) then (CBreak, arc_lift self0 e)
  else (CNext, arc_lift self0 (enum_t i s j (att (arc_at (s_graph self0) i j)) t e)).
Proof.
  intros. unfold gen_enumerate_variables_quicker_body3, arc_lift. cbn [fst snd].
  unfold py_nodes_item, py_arcs_item, py_get_window, py_get_travel_time, win_lo, win_hi, enum_t, py_append,
    above, ext_gtb.
  cbn [fst snd s_graph set_var_mapping s_var_mapping s_time_points].
  destruct (t <? _); [reflexivity|].
  destruct (negb _); [reflexivity|].
  destruct (_ >? t); [reflexivity|].
  cbn [fst snd]. rewrite Nat.add_1_r. reflexivity.
Qed.
Print Assumptions C18_arc_gen_loop_t_eq.

Theorem C18_arc_gen_loop_s_eq : forall self0 i j s e,
  gen_enumerate_variables_quicker_body2 i j s (arc_lift self0 e) =
  if s <? win_lo (s_graph self0) i then (CNext, arc_lift self0 e)
  else if above s (win_hi (s_graph self0) i) then (CBreak, arc_lift self0 e)
  else (CNext, arc_lift self0 (enum_s (s_graph self0) (s_time_points self0) i j s e)).
Proof.
  intros.
  assert (Hin : forall e', py_for (gen_enumerate_variables_quicker_body3 i j s) (s_time_points self0) (arc_lift self0 e') =
                           arc_lift self0 (enum_s (s_graph self0) (s_time_points self0) i j s e')).
  { intros e'. unfold enum_s. apply (py_for_scan_lift (arc_lift self0) (fun t : Z => t)).
    intros t st. apply C18_arc_gen_loop_t_eq. }
  specialize (Hin e). revert Hin.
  unfold gen_enumerate_variables_quicker_body2, arc_lift. cbn [fst snd].
  unfold py_nodes_item, py_get_window, win_lo, win_hi, above, ext_gtb.
  cbn [fst snd s_graph set_var_mapping s_time_points].
  intros Hin.
  destruct (s <? _); [reflexivity|].
  destruct (negb _); [reflexivity|].
  rewrite Hin. reflexivity.
Qed.
Print Assumptions C18_arc_gen_loop_s_eq.

Theorem C18_arc_gen_loop_arc_eq : forall self0 k e,
  gen_enumerate_variables_quicker_body1 k (arc_lift self0 e) =
  (CNext, arc_lift self0 (enum_arc (s_graph self0) (s_time_points self0) k e)).
Proof.
  intros self0 [i j] e.
  assert (Hin : py_for (gen_enumerate_variables_quicker_body2 i j) (s_time_points self0) (arc_lift self0 e) =
                arc_lift self0 (enum_arc (s_graph self0) (s_time_points self0) (i, j) e)).
  { unfold enum_arc. cbn [fst snd]. apply (py_for_scan_lift (arc_lift self0) (fun t : Z => t)).
    intros s st. apply C18_arc_gen_loop_s_eq. }
  revert Hin.
  unfold gen_enumerate_variables_quicker_body1, arc_lift. cbn [fst snd s_time_points set_var_mapping].
  intros Hin. rewrite Hin. reflexivity.
Qed.
Print Assumptions C18_arc_gen_loop_arc_eq.


(* ---------- the whole enumeration: generated = hand model, for every object state ---------- *)

Theorem C18_arc_gen_enumerate_eq : forall self I, arc_holds self I ->
  gen_enumerate_variables_quicker self = (arc_enumerated self I, tt).
Proof.
  intros self I [Hg Ht].
  assert (Hloop : py_for gen_enumerate_variables_quicker_body1 (py_dict_keys (py_arcs self)) (arc_lift self ([], O)) =
                  arc_lift self (enumerate I)).
  { unfold py_dict_keys, py_arcs, enumerate. rewrite py_for_map, <- Hg, <- Ht.
    apply (py_for_fold_lift (arc_lift self)). intros kv st _. apply C18_arc_gen_loop_arc_eq. }
  revert Hloop.
  unfold gen_enumerate_variables_quicker, arc_enumerated, vars, num_variables, arc_lift, py_arcs.
  cbn [fst snd s_graph set_var_mapping]. intros Hloop. rewrite Hloop. reflexivity.
Qed.
Print Assumptions C18_arc_gen_enumerate_eq.


(* ---------- dispatcher, size query and the two lookups ---------- *)

Theorem C18_arc_gen_dispatch_eq : forall self I, arc_holds self I -> arc_coherent self I ->
  gen_enumerate_variables self =
  (if s_variables_enumerated self then self else arc_enumerated self I, tt) /\
  let self' := fst (gen_enumerate_variables self) in
  s_var_mapping self' = vars I /\ s_num_variables self' = num_variables I /\
  s_variables_enumerated self' = true /\ arc_holds self' I /\ arc_coherent self' I.
Proof.
  intros self I Hh Hc. unfold gen_enumerate_variables.
  rewrite (C18_arc_gen_enumerate_eq self I Hh).
  destruct (s_variables_enumerated self) eqn:E; cbn [fst].
  - split; [reflexivity|]. destruct (Hc E) as [H1 H2].
    split; [exact H1|]. split; [exact H2|]. split; [exact E|]. split; [exact Hh | exact Hc].
  - split; [reflexivity|].
    split; [reflexivity|]. split; [reflexivity|]. split; [reflexivity|].
    split; [exact Hh | apply arc_enumerated_coherent].
Qed.
Print Assumptions C18_arc_gen_dispatch_eq.

Theorem C18_arc_gen_get_num_variables_eq : forall self I, arc_holds self I -> arc_coherent self I ->
  snd (gen_get_num_variables self) = num_variables I /\
  fst (gen_get_num_variables self) = fst (gen_enumerate_variables self).
Proof.
  intros self I Hh Hc. destruct (C18_arc_gen_dispatch_eq self I Hh Hc) as [He (H1 & H2 & _)].
  revert H2. unfold gen_get_num_variables. rewrite He.
  destruct (s_variables_enumerated self); cbn [fst snd negb]; auto.
Qed.
Print Assumptions C18_arc_gen_get_num_variables_eq.

Theorem C18_arc_gen_get_var_index_eq : forall self I i s j t, arc_holds self I -> arc_coherent self I ->
  gen_get_var_index self i s j t = (fst (gen_enumerate_variables self), Ok (get_var_index I (i, s, j, t))).
Proof.
  intros self I i s j t Hh Hc. destruct (C18_arc_gen_dispatch_eq self I Hh Hc) as [He (H1 & _)].
  revert H1. unfold gen_get_var_index. rewrite He. cbn [fst]. intros H1.
  rewrite py_list_index_var, H1. unfold get_var_index.
  destruct (find_index var_eqb (i, s, j, t) (vars I)); reflexivity.
Qed.
Print Assumptions C18_arc_gen_get_var_index_eq.

Theorem C18_arc_gen_get_var_tuple_index_eq : forall self I k, arc_holds self I -> arc_coherent self I ->
  gen_get_var_tuple_index self k = (fst (gen_enumerate_variables self), Ok (get_var_tuple_index I k)).
Proof.
  intros self I k Hh Hc. destruct (C18_arc_gen_dispatch_eq self I Hh Hc) as [He (H1 & _)].
  revert H1. unfold gen_get_var_tuple_index. rewrite He. cbn [fst]. intros H1.
  unfold py_list_item, get_var_tuple_index. rewrite H1.
  destruct (nth_error (vars I) k); reflexivity.
Qed.
Print Assumptions C18_arc_gen_get_var_tuple_index_eq.

(* headline *)
Theorem C18_arc_gen_exact : forall self grid,
  let I := mkInst (s_graph self) grid in
  let self1 := fst (gen_add_time_points self grid) in
  let self2 := fst (gen_enumerate_variables_quicker self1) in
  (forall i s j t,
     In (i, s, j, t) (s_var_mapping self2) <->
     exists a, dict_get (i, j) (arcs (s_graph self)) = Some a /\
               In s grid /\ In t grid /\
               win_lo (s_graph self) i <= s /\ ext_le (Fin s) (win_hi (s_graph self) i) /\
               win_lo (s_graph self) j <= t /\ ext_le (Fin t) (win_hi (s_graph self) j) /\
               s + att a <= t) /\
  (NoDup grid -> NoDup (map fst (arcs (s_graph self))) -> NoDup (s_var_mapping self2)) /\
  s_num_variables self2 = length (s_var_mapping self2) /\
  s_variables_enumerated self2 = true.
Proof.
  intros self grid I self1 self2.
  assert (Hh : arc_holds self1 I) by (split; reflexivity).
  assert (E : self2 = arc_enumerated self1 I).
  { unfold self2. rewrite (C18_arc_gen_enumerate_eq self1 I Hh). reflexivity. }
  rewrite E. cbn [arc_enumerated s_var_mapping s_num_variables s_variables_enumerated set_variables_enumerated
                  set_num_variables set_var_mapping].
  split; [|split; [|split]].
  - intros i s j t. exact (vars_exact I (i, s, j, t)).
  - exact (vars_NoDup I).
  - apply num_variables_length.
  - reflexivity.
Qed.
Print Assumptions C18_arc_gen_exact.


(* the four inverse laws of C18_arc, for the generated lookups on any coherent object *)
Theorem C18_arc_gen_lookup_laws : forall self I, arc_holds self I -> arc_coherent self I ->
  (forall i s j t, valid_move I (i, s, j, t) ->
     exists k, snd (gen_get_var_index self i s j t) = Ok (Some k) /\
               snd (gen_get_var_tuple_index self k) = Ok (Some (i, s, j, t)) /\ (k < num_variables I)%nat) /\
  (forall k, NoDup (igrid I) -> NoDup (map fst (arcs (ig I))) -> (k < num_variables I)%nat ->
     exists i s j t, snd (gen_get_var_tuple_index self k) = Ok (Some (i, s, j, t)) /\
                     snd (gen_get_var_index self i s j t) = Ok (Some k) /\ valid_move I (i, s, j, t)) /\
  (forall i s j t, ~ valid_move I (i, s, j, t) -> snd (gen_get_var_index self i s j t) = Ok None) /\
  (forall k, (num_variables I <= k)%nat -> snd (gen_get_var_tuple_index self k) = Ok None).
Proof.
  intros self I Hh Hc. repeat split.
  - intros i s j t Hv. destruct (index_of_admissible I _ Hv) as (k & H1 & H2 & H3). exists k.
    rewrite (C18_arc_gen_get_var_index_eq self I i s j t Hh Hc), (C18_arc_gen_get_var_tuple_index_eq self I k Hh Hc).
    cbn [snd]. rewrite H1, H2. auto.
  - intros k Hg Hk Hlt. destruct (tuple_of_index I k Hg Hk Hlt) as ([[[i s] j] t] & H1 & H2 & H3).
    exists i, s, j, t.
    rewrite (C18_arc_gen_get_var_index_eq self I i s j t Hh Hc), (C18_arc_gen_get_var_tuple_index_eq self I k Hh Hc).
    cbn [snd]. rewrite H1, H2. auto.
  - intros i s j t Hv. rewrite (C18_arc_gen_get_var_index_eq self I i s j t Hh Hc). cbn [snd].
    rewrite (index_of_inadmissible I _ Hv). reflexivity.
  - intros k Hk. rewrite (C18_arc_gen_get_var_tuple_index_eq self I k Hh Hc). cbn [snd].
    rewrite (tuple_beyond I k Hk). reflexivity.
Qed.
Print Assumptions C18_arc_gen_lookup_laws.


(* ---------- get_arrival_time = Heur_arc.arrival_time (graphs built through the class: Inv) ---------- *)

Theorem C18_arc_gen_arrival_time_eq : forall self I dep i j a,
  arc_holds self I -> Inv (ig I) -> dict_get (i, j) (arcs (ig I)) = Some a ->
  gen_get_arrival_time self dep (i, j) = arrival_time I dep i j.
Proof.
  intros self I dep i j a [Hg Ht] HI Ha. rewrite <- Hg in HI, Ha.
  unfold gen_get_arrival_time, arrival_time, first_ge, py_time_points_item.
  assert (Ea : py_arcs_item self (i, j) = a).
  { unfold py_arcs_item, arc_at. cbn [fst snd]. rewrite Ha. reflexivity. }
  rewrite Ea. destruct (destination_is_key_node self i j a HI Ha) as [Ed _]. rewrite Ed.
  unfold py_get_window, py_get_travel_time, win_lo. cbn [fst snd].
  rewrite <- Hg, <- Ht. unfold arc_at. rewrite Ha.
  set (arrival := Z.max (nlo (node_at (s_graph self) j)) (dep + att a)).
  unfold np_map_scalar.
  rewrite (find_ext_eq (fun t => arrival <=? t) (fun t => t >=? arrival)) by (intros; symmetry; apply Z.geb_leb).
  destruct (py_any (map (fun t => t >=? arrival) (s_time_points self))) eqn:E; cbn [negb].
  - rewrite (np_argmax_find _ _ 0 E). reflexivity.
  - rewrite (py_any_map_false _ _ E). reflexivity.
Qed.
Print Assumptions C18_arc_gen_arrival_time_eq.


(* ---------- enumerate_variables_exhaustive (the alternative enumeration, not called today) ---------- *)

Theorem C18_arc_gen_exhaustive_loop_t_eq : forall self0 i s j t e,
  gen_enumerate_variables_exhaustive_body4 i s j t (arc_lift self0 e) =
  (CNext, arc_lift self0 (emit e (exh_t (s_graph self0) i s j t))).
Proof.
  intros. unfold gen_enumerate_variables_exhaustive_body4, arc_lift, exh_t. cbn [fst snd].
  unfold gen_check_node_time_compat, compat, py_nodes_item, py_arcs_item, py_get_window, py_get_travel_time,
    win_lo, win_hi, py_append.
  cbn [fst snd s_graph set_var_mapping s_var_mapping].
  destruct (_ && _); cbn [negb andb].
  - destruct (_ >? t) eqn:E1.
    + assert (E2 : (s + att (arc_at (s_graph self0) i j) <=? t) = false) by lia. rewrite E2.
      rewrite emit_nil. reflexivity.
    + assert (E2 : (s + att (arc_at (s_graph self0) i j) <=? t) = true) by lia. rewrite E2.
      unfold emit. cbn [fst snd length]. reflexivity.
  - rewrite emit_nil. reflexivity.
Qed.
Print Assumptions C18_arc_gen_exhaustive_loop_t_eq.

Theorem C18_arc_gen_exhaustive_loop_j_eq : forall self0 i s j e,
  gen_enumerate_variables_exhaustive_body3 i s j (arc_lift self0 e) =
  (CNext, arc_lift self0 (emit e (exh_j (s_graph self0) (s_time_points self0) i s j))).
Proof.
  intros.
  assert (Hin : py_for (gen_enumerate_variables_exhaustive_body4 i s j) (s_time_points self0) (arc_lift self0 e) =
                arc_lift self0 (emit e (flat_map (exh_t (s_graph self0) i s j) (s_time_points self0)))).
  { rewrite <- fold_emit. apply (py_for_fold_lift (arc_lift self0)).
    intros t st _. apply C18_arc_gen_exhaustive_loop_t_eq. }
  revert Hin.
  unfold gen_enumerate_variables_exhaustive_body3, arc_lift, exh_j, gen_check_arc, py_dict_contains, py_arcs.
  cbn [fst snd s_graph set_var_mapping s_time_points]. intros Hin.
  destruct (dict_mem _ _); cbn [negb].
  - rewrite Hin. reflexivity.
  - rewrite emit_nil. reflexivity.
Qed.
Print Assumptions C18_arc_gen_exhaustive_loop_j_eq.

Theorem C18_arc_gen_exhaustive_loop_s_eq : forall self0 i s e,
  gen_enumerate_variables_exhaustive_body2 i s (arc_lift self0 e) =
  (CNext, arc_lift self0 (emit e (exh_s (s_graph self0) (s_time_points self0) i s))).
Proof.
  intros.
  assert (Hin : py_for (gen_enumerate_variables_exhaustive_body3 i s) (py_range (length (nodes (s_graph self0))))
                  (arc_lift self0 e) =
                arc_lift self0 (emit e (flat_map (exh_j (s_graph self0) (s_time_points self0) i s)
                                                 (seq 0 (length (nodes (s_graph self0))))))).
  { rewrite <- fold_emit. apply (py_for_fold_lift (arc_lift self0)).
    intros j st _. apply C18_arc_gen_exhaustive_loop_j_eq. }
  revert Hin.
  unfold gen_enumerate_variables_exhaustive_body2, arc_lift, exh_s, gen_check_node_time_compat, compat,
    py_nodes_item, py_nodes, py_get_window, win_lo, win_hi.
  cbn [fst snd s_graph set_var_mapping s_time_points]. intros Hin.
  destruct (_ && _); cbn [negb].
  - rewrite Hin. reflexivity.
  - rewrite emit_nil. reflexivity.
Qed.
Print Assumptions C18_arc_gen_exhaustive_loop_s_eq.

Theorem C18_arc_gen_exhaustive_loop_i_eq : forall self0 i e,
  gen_enumerate_variables_exhaustive_body1 i (arc_lift self0 e) =
  (CNext, arc_lift self0 (emit e (exh_i (s_graph self0) (s_time_points self0) i))).
Proof.
  intros.
  assert (Hin : py_for (gen_enumerate_variables_exhaustive_body2 i) (s_time_points self0) (arc_lift self0 e) =
                arc_lift self0 (emit e (exh_i (s_graph self0) (s_time_points self0) i))).
  { unfold exh_i. rewrite <- fold_emit. apply (py_for_fold_lift (arc_lift self0)).
    intros s st _. apply C18_arc_gen_exhaustive_loop_s_eq. }
  revert Hin.
  unfold gen_enumerate_variables_exhaustive_body1, arc_lift.
  cbn [fst snd s_time_points set_var_mapping]. intros Hin. rewrite Hin. reflexivity.
Qed.
Print Assumptions C18_arc_gen_exhaustive_loop_i_eq.

(* the alternative enumeration APPENDS (it does not clear var_mapping) the tuples of exh_spec and counts them *)
Theorem C18_arc_gen_exhaustive_eq : forall self,
  let new := exh_spec (s_graph self) (s_time_points self) in
  gen_enumerate_variables_exhaustive self =
  (set_variables_enumerated true (set_num_variables (length new) (set_var_mapping (s_var_mapping self ++ new) self)), tt).
Proof.
  intros self new.
  assert (Hloop : py_for gen_enumerate_variables_exhaustive_body1 (py_range (length (py_nodes self)))
                    (arc_lift self (s_var_mapping self, O)) =
                  arc_lift self (emit (s_var_mapping self, O) new)).
  { unfold new, exh_spec. rewrite <- fold_emit. apply (py_for_fold_lift (arc_lift self)).
    intros i st _. apply C18_arc_gen_exhaustive_loop_i_eq. }
  revert Hloop.
  unfold gen_enumerate_variables_exhaustive, arc_lift, emit. cbn [fst snd].
  rewrite set_var_mapping_same. intros Hloop.
  rewrite Hloop. reflexivity.
Qed.
Print Assumptions C18_arc_gen_exhaustive_eq.

(* ... so, started on an object whose var_mapping is empty, it enumerates exactly the admissible tuples *)
Theorem C18_arc_gen_exhaustive_exact : forall self I,
  arc_holds self I -> wf_graph (ig I) -> s_var_mapping self = [] ->
  let self' := fst (gen_enumerate_variables_exhaustive self) in
  (forall v, In v (s_var_mapping self') <-> valid_move I v) /\
  s_num_variables self' = length (s_var_mapping self').
Proof.
  intros self I [Hg Ht] Hwf He self'. unfold self'. rewrite C18_arc_gen_exhaustive_eq.
  cbn [fst s_var_mapping s_num_variables set_variables_enumerated set_num_variables set_var_mapping].
  rewrite He, Hg, Ht. cbn [app]. split; [|reflexivity].
  intros v. apply in_exh_spec. exact Hwf.
Qed.
Print Assumptions C18_arc_gen_exhaustive_exact.
