(* C09_wrap_gen -- the three formulation getters of applications/mirp.py, GENERATED from the source
   (coq/gen/MirpWrapGen.v, printed by harness/translate_mirpwrap.py on every run with the printer of
   translate_mirp.py; combinators: coq/theories/PyMirpWrap.v), are what the hand model MirpWrap.v says:
   on an object whose cache field is empty the getter creates one formulation object from (a copy of)
   self.vrptw, hands it exactly the time grid / vehicle count and sequence length / exploration rounds of
   MirpWrap.get_arc_based / get_sequence_based / path_plan, then -- if requested -- the high cost of
   MirpWrap.estimate_high_cost, stores it in its cache field and returns it; with a filled cache field it
   returns that object and does nothing else.  The C09_wrappers theorems are then restated for what the
   GENERATED getters hand over.  Side results for C16 (the getters leave the MIRP object and each other's
   cache alone) and C17 (np.random.seed(0) precedes every add_routes_better; the arc / sequence getters
   never seed). *)
From Coq Require Import QArith Qround ZArith List Lia Permutation Sorted.
From VQ Require Import Base Mirp Mirp_facts Mirp_arcset_facts Rng Rng_facts MirpWrap MirpWrap_facts PyMirp PyMirp_facts PyMirpWrap PyMirpWrap_facts.
From VQG Require Import MirpGen MirpWrapGen.
Import ListNotations.
Local Open Scope Q_scope.

(* ------------------------------------------------------------------------------------------------ *)
(* 0. pieces                                                                                         *)
(* the nested function time_costs of get_path_based *)
Theorem C09_wrap_gen_time_costs_eq : gen_get_path_based_time_costs = time_costs.
Proof. reflexivity. Qed.
Print Assumptions C09_wrap_gen_time_costs_eq.

(* the default values of the getters' parameters: make_feasible=True, strict=True *)
Theorem C09_wrap_gen_defaults :
  gen_get_arc_based_defaults = [true] /\ gen_get_path_based_defaults = [true] /\
  gen_get_sequence_based_defaults = [true; true].
Proof. repeat split; reflexivity. Qed.
Print Assumptions C09_wrap_gen_defaults.

(* self.estimate_high_cost() inside a getter: the value of MirpWrap.estimate_high_cost, nothing changes *)
Theorem C09_wrap_gen_high_cost_eq : forall x,
  liftM gen_estimate_high_cost x = (x, estimate_high_cost (xw x)).
Proof.
  intros [[[g sp dp pm cs hz] pf] a p s n l].
  unfold liftM, gen_estimate_high_cost, estimate_high_cost, arc_costs. py_red. cbn [xw xabrp xpbrp xsbrp xnext xlog].
  destruct (py_min (freq_values pf)) as [mf|e]; [|reflexivity]. py_red.
  destruct (Qeq_bool mf 0); [reflexivity|]. py_red.
  rewrite map_map.
  destruct (py_max (map (fun x => acost (snd x)) (marcs g))) as [mc|e]; reflexivity.
Qed.
Print Assumptions C09_wrap_gen_high_cost_eq.

(* the loop of get_arc_based over the nodes appends MirpWrap.node_points of every node *)
Theorem C09_wrap_gen_arc_loop : forall l acc x,
  for_each l gen_get_arc_based_loop1 acc x = (x, Ok (acc ++ flat_map node_points l)).
Proof.
  induction l as [|n l IH]; intros acc x; cbn [for_each flat_map].
  - rewrite app_nil_r. reflexivity.
  - unfold bind at 1. unfold gen_get_arc_based_loop1, node_get_window, node_points.
    destruct (hi n) as [b|]; cbn [np_isinf PyMirpWrap.ret].
    + rewrite IH. rewrite <- app_assoc. reflexivity.
    + rewrite IH. reflexivity.
Qed.
Print Assumptions C09_wrap_gen_arc_loop.

(* ------------------------------------------------------------------------------------------------ *)
(* 1. get_arc_based                                                                                  *)
(* empty cache: one new arc-based object (reference = the counter) built from the graph, the grid of
   MirpWrap.get_arc_based handed to add_time_points, then the optional high cost to make_feasible; the object
   is cached and returned.  When estimate_high_cost raises, the exception leaves the getter -- the object is
   already cached, with its grid (the hand model only has the exception). *)
Theorem C09_wrap_gen_arc_eq : forall mf x, xabrp x = None ->
  let id := xnext x in let g := gr (wst (xw x)) in
  gen_get_arc_based mf x =
  match get_arc_based mf (xw x) with
  | Ok r => (with_cache x FArc id (arc_log id g r), Ok (Some id))
  | Err e => (with_cache x FArc id [EvNew FArc id g None; EvTimePoints id (arc_grid g)], Err e)
  end.
Proof.
  intros mf [w a p s n l] Ha. cbn [xabrp] in Ha. subst a. cbn zeta.
  unfold gen_get_arc_based. pw_red.
  rewrite C09_wrap_gen_arc_loop. cbn [app]. fold (tw_points (gr (wst w))). rewrite grid_once.
  unfold get_arc_based, high_for, with_cache, arc_log. cbn [xw xabrp xpbrp xsbrp xnext xlog fst snd].
  destruct mf.
  - rewrite C09_wrap_gen_high_cost_eq. cbn [xw].
    destruct (estimate_high_cost w) as [h|e]; cbn [app]; rewrite <- ?app_assoc; reflexivity.
  - cbn [app]. rewrite <- ?app_assoc. reflexivity.
Qed.
Print Assumptions C09_wrap_gen_arc_eq.

(* filled cache: the cached object, nothing else happens *)
Theorem C09_wrap_gen_arc_cached : forall mf x i, xabrp x = Some i -> gen_get_arc_based mf x = (x, Ok (Some i)).
Proof.
  intros mf [w a p s n l] i Ha. cbn [xabrp] in Ha. subst a. unfold gen_get_arc_based. pw_red. reflexivity.
Qed.
Print Assumptions C09_wrap_gen_arc_cached.

(* ------------------------------------------------------------------------------------------------ *)
(* 2. get_sequence_based                                                                             *)
Theorem C09_wrap_gen_seq_eq : forall mf strict x, xsbrp x = None ->
  let id := xnext x in let g := gr (wst (xw x)) in
  match get_sequence_based mf (xw x) with
  | Ok r => gen_get_sequence_based mf strict x = (with_cache x FSeq id (seq_log id g strict r), Ok (Some id))
  | Err e => snd (gen_get_sequence_based mf strict x) = Err e /\
             exists l, fst (gen_get_sequence_based mf strict x) = with_cache x FSeq id l
  end.
Proof.
  intros mf strict [w a p s n l] Hs. cbn [xsbrp] in Hs. subst s. cbn zeta.
  unfold gen_get_sequence_based, get_sequence_based, seq_params. pw_red.
  unfold arc_get_travel_time, q_gt. rewrite map_map.
  change (py_min (filter (fun v_t => Qltb (inject_Z 0) v_t) (map (fun x => att (snd x)) (marcs (gr (wst w))))))
    with (min_travel_time (gr (wst w))).
  destruct (min_travel_time (gr (wst w))) as [mt|e] eqn:MT.
  - pw_red. rewrite (pos_not_zero mt (proj1 (min_travel_time_ok _ _ MT))). pw_red.
    unfold high_for, with_cache, seq_log, seq_len, py_int. cbn [xw xabrp xpbrp xsbrp xnext xlog fst snd].
    destruct mf.
    + rewrite C09_wrap_gen_high_cost_eq. cbn [xw].
      destruct (estimate_high_cost w) as [h|e]; cbn [app fst snd].
      * rewrite <- ?app_assoc. reflexivity.
      * split; [reflexivity|]. eexists. rewrite <- ?app_assoc. reflexivity.
    + cbn [app]. rewrite <- ?app_assoc. reflexivity.
  - split; [reflexivity|]. eexists. unfold with_cache. cbn [fst xw xabrp xpbrp xsbrp xnext xlog].
    rewrite <- ?app_assoc. reflexivity.
Qed.
Print Assumptions C09_wrap_gen_seq_eq.

Theorem C09_wrap_gen_seq_cached : forall mf strict x i, xsbrp x = Some i ->
  gen_get_sequence_based mf strict x = (x, Ok (Some i)).
Proof.
  intros mf strict [w a p s n l] i Hs. cbn [xsbrp] in Hs. subst s. unfold gen_get_sequence_based. pw_red.
  reflexivity.
Qed.
Print Assumptions C09_wrap_gen_seq_cached.

(* ------------------------------------------------------------------------------------------------ *)
(* 3. get_path_based                                                                                 *)
(* the inner loop: one add_routes_better call per element of range(rep) *)
Theorem C09_wrap_gen_path_loop2 : forall tc nc e l x id, xpbrp x = Some id ->
  for_each l (gen_get_path_based_loop2 tc nc e) tt x = (add_log x (repeat (EvRoutes id e nc tc) (length l)), Ok tt).
Proof.
  intros tc nc e. induction l as [|z l IH]; intros x id Hp; cbn [for_each length repeat].
  - rewrite add_log_nil. reflexivity.
  - destruct x as [w a p s n lg]. cbn [xpbrp] in Hp. subst p.
    unfold bind at 1. unfold gen_get_path_based_loop2. pw_red.
    change (for_each l (gen_get_path_based_loop2 tc nc e) tt
              (add_log (mkXS w a (Some id) s n lg) [EvRoutes id e nc tc])
            = (add_log (mkXS w a (Some id) s n lg)
                 (EvRoutes id e nc tc :: repeat (EvRoutes id e nc tc) (length l)), Ok tt)).
    rewrite (IH (add_log (mkXS w a (Some id) s n lg) [EvRoutes id e nc tc]) id eq_refl).
    rewrite add_log_app. reflexivity.
Qed.
Print Assumptions C09_wrap_gen_path_loop2.

(* the outer loop over zip(explore values, repetition counts) *)
Theorem C09_wrap_gen_path_loop1 : forall tc nc rounds x id, xpbrp x = Some id ->
  for_each rounds (gen_get_path_based_loop1 tc nc) tt x = (add_log x (rounds_log id nc tc rounds), Ok tt).
Proof.
  intros tc nc. induction rounds as [|[e rep] rounds IH]; intros x id Hp; cbn [for_each].
  - unfold rounds_log. cbn [flat_map]. rewrite add_log_nil. reflexivity.
  - unfold bind at 1.
    change (gen_get_path_based_loop1 tc nc (e, rep) tt x)
      with (bind (for_each (py_range rep) (gen_get_path_based_loop2 tc nc e) tt)
                 (fun _ => PyMirpWrap.ret (Continue tt)) x).
    unfold bind at 1. rewrite (C09_wrap_gen_path_loop2 tc nc e (py_range rep) x id Hp). rewrite py_range_length.
    unfold PyMirpWrap.ret. cbv beta iota.
    rewrite (IH (add_log x (repeat (EvRoutes id e nc tc) (Z.to_nat rep))) id Hp). rewrite add_log_app. reflexivity.
Qed.
Print Assumptions C09_wrap_gen_path_loop1.

(* empty cache: new path-based object, np.random.seed(0), then exactly the add_routes_better calls of
   MirpWrap.path_plan (explore 0 once, 1 int(H) times, inf int(10 H) times; node costs = the high cost at the
   depot; time_costs), then the optional make_feasible(high cost) *)
Theorem C09_wrap_gen_path_eq : forall mf x, xpbrp x = None ->
  let id := xnext x in let g := gr (wst (xw x)) in
  match path_plan (xw x) with
  | Ok p => gen_get_path_based mf x = (with_cache x FPath id (path_log id g mf p), Ok (Some id))
  | Err e => gen_get_path_based mf x =
             (with_cache x FPath id [EvNew FPath id g None; EvSeed (Some 0%Z)], Err e)
  end.
Proof.
  intros mf [w a p s n l] Hp. cbn [xpbrp] in Hp. subst p. cbn zeta.
  unfold gen_get_path_based, path_plan. pw_red. rewrite C09_wrap_gen_high_cost_eq. cbn [xw].
  unfold with_cache. cbn [xw xabrp xpbrp xsbrp xnext xlog].
  destruct (estimate_high_cost w) as [h|e]; [|rewrite <- app_assoc; reflexivity].
  unfold node_costs, list_set_m, py_len. destruct (mnodes (gr (wst w))) as [|n0 rest].
  - cbn. rewrite <- app_assoc. reflexivity.
  - change (list_mul [inject_Z 0] (length (n0 :: rest))) with (inject_Z 0 :: list_mul [inject_Z 0] (length rest)).
    cbn [length Nat.ltb Nat.leb set_nth PyMirpWrap.ret]. rewrite list_mul_const. pw_red.
    unfold py_zip. cbn [combine].
    erewrite (C09_wrap_gen_path_loop1 _ _ _ _ n); [|reflexivity].
    unfold add_log. cbn [xw xabrp xpbrp xsbrp xnext xlog].
    change (QFin (inject_Z 0)) with (QFin 0). change (QFin (inject_Z 1)) with (QFin 1).
    change (inject_Z 10) with 10. rewrite rounds_log_plan.
    unfold path_log. cbn [fst snd]. rewrite C09_wrap_gen_time_costs_eq.
    destruct mf; pw_red; rewrite <- ?app_assoc; cbn [app]; rewrite ?app_nil_r; reflexivity.
Qed.
Print Assumptions C09_wrap_gen_path_eq.

Theorem C09_wrap_gen_path_cached : forall mf x i, xpbrp x = Some i -> gen_get_path_based mf x = (x, Ok (Some i)).
Proof.
  intros mf [w a p s n l] i Hp. cbn [xpbrp] in Hp. subst p. unfold gen_get_path_based. pw_red. reflexivity.
Qed.
Print Assumptions C09_wrap_gen_path_cached.

(* ------------------------------------------------------------------------------------------------ *)
(* 4. The C09_wrappers theorems, for what the GENERATED getters hand over.                            *)
(* C09w_grid_spec / C09w_get_arc_based: the time points the generated get_arc_based hands to add_time_points
   are sorted, duplicate free, contain 0, and x is one of them iff x = 0 or x is an integer in the finite window
   of some node; without make_feasible the call cannot fail and nothing else is handed over; with it, the
   heuristic receives estimate_high_cost() *)
Theorem C09_wrap_gen_arc_grid_spec : forall mf x, xabrp x = None ->
  let g := gr (wst (xw x)) in let id := xnext x in
  exists tp rest, xlog (fst (gen_get_arc_based mf x)) = xlog x ++ EvNew FArc id g None :: EvTimePoints id tp :: rest /\
    sorted tp /\ NoDup tp /\ StronglySorted Z.lt tp /\ In 0%Z tp /\
    (forall z, In z tp <-> z = 0%Z \/
       exists n b, In n (mnodes g) /\ hi n = QFin b /\ lo n <= inject_Z z /\ inject_Z z <= b) /\
    (mf = false -> rest = [] /\ snd (gen_get_arc_based mf x) = Ok (Some id)) /\
    (forall h, mf = true -> estimate_high_cost (xw x) = Ok h ->
       rest = [EvFeasible id h] /\ snd (gen_get_arc_based mf x) = Ok (Some id)) /\
    (forall e, mf = true -> estimate_high_cost (xw x) = Err e -> rest = [] /\ snd (gen_get_arc_based mf x) = Err e).
Proof.
  intros mf x Ha g id. pose proof (C09_wrap_gen_arc_eq mf x Ha) as E. cbn zeta in E. fold g id in E.
  destruct (arc_grid_spec (fun l => l) g permuting_id) as (S1 & S2 & S3 & S4 & S5).
  fold (arc_grid g) in S1, S2, S3, S4, S5.
  unfold on_finite_window in S5.
  unfold get_arc_based, high_for in E. destruct mf.
  - destruct (estimate_high_cost (xw x)) as [h|e] eqn:EH; rewrite E; cbn [fst snd xlog with_cache arc_log app].
    + exists (arc_grid g), [EvFeasible id h]. split; [reflexivity|].
      repeat (split; [assumption|]).
      split; [discriminate|]. split.
      * intros h' _ Eh. inversion Eh; subst. split; reflexivity.
      * intros e _ Eh. discriminate.
    + exists (arc_grid g), []. split; [reflexivity|].
      repeat (split; [assumption|]).
      split; [discriminate|]. split.
      * intros h' _ Eh. discriminate.
      * intros e' _ Eh. inversion Eh; subst. split; reflexivity.
  - rewrite E. cbn [fst snd xlog with_cache arc_log app].
    exists (arc_grid g), []. split; [reflexivity|].
    repeat (split; [assumption|]).
    split; [intros _; split; reflexivity|]. split; intros ? Hm; discriminate.
Qed.
Print Assumptions C09_wrap_gen_arc_grid_spec.

(* C09w_seq_params: a normal return of the generated get_sequence_based has set V = min(#arcs out of, #arcs into the
   depot) and L = int(H / mt + 2) for the smallest positive travel time mt; it fails exactly as the hand model *)
Theorem C09_wrap_gen_seq_params : forall mf strict x i, xsbrp x = None ->
  snd (gen_get_sequence_based mf strict x) = Ok i ->
  let g := gr (wst (xw x)) in let id := xnext x in
  i = Some id /\
  exists mt rest, min_travel_time g = Ok mt /\ 0 < mt /\
    xlog (fst (gen_get_sequence_based mf strict x)) =
      xlog x ++ EvNew FSeq id g (Some strict) :: EvMaxVehicles id (est_max_vehicles g)
             :: EvMaxSeqLen id (seq_len (horizon (wst (xw x))) mt) :: rest /\
    (mf = false -> rest = []) /\
    (mf = true -> exists h, estimate_high_cost (xw x) = Ok h /\ rest = [EvFeasible id h]).
Proof.
  intros mf strict x i Hs R g id. pose proof (C09_wrap_gen_seq_eq mf strict x Hs) as E. cbn zeta in E. fold g id in E.
  destruct (get_sequence_based mf (xw x)) as [[[V L] h]|e] eqn:GS.
  - rewrite E in R |- *. cbn [snd fst] in R |- *. inversion R; subst i. split; [reflexivity|].
    unfold get_sequence_based in GS. destruct (seq_params (xw x)) as [[V' L']|e] eqn:SP; [|discriminate].
    destruct (seq_params_ok _ _ _ SP) as (mt & MT & P & EV & EL).
    exists mt. unfold high_for in GS. destruct mf.
    + destruct (estimate_high_cost (xw x)) as [hc|e] eqn:EH; [|discriminate].
      inversion GS; subst. exists [EvFeasible id hc]. repeat split; auto; try discriminate.
      intros _. exists hc. auto.
    + inversion GS; subst. exists []. repeat split; auto. discriminate.
  - destruct E as [E _]. rewrite E in R. discriminate.
Qed.
Print Assumptions C09_wrap_gen_seq_params.

(* C09w_path_plan: a normal return of the generated get_path_based has made, after np.random.seed(0), the
   add_routes_better calls of path_rounds(H) with node costs (high cost at the depot, 0 elsewhere) and time_costs *)
Theorem C09_wrap_gen_path_plan : forall mf x i, xpbrp x = None -> snd (gen_get_path_based mf x) = Ok i ->
  let g := gr (wst (xw x)) in let id := xnext x in
  i = Some id /\
  exists h nc, estimate_high_cost (xw x) = Ok h /\
    length nc = length (mnodes g) /\ nth 0 nc 0 = h /\ (forall k, (0 < k)%nat -> nth k nc 0 = 0) /\
    xlog (fst (gen_get_path_based mf x)) =
      xlog x ++ [EvNew FPath id g None; EvSeed (Some 0%Z)]
             ++ rounds_log id nc time_costs (path_rounds (horizon (wst (xw x))))
             ++ (if mf then [EvFeasible id h] else []).
Proof.
  intros mf x i Hp R g id. pose proof (C09_wrap_gen_path_eq mf x Hp) as E. cbn zeta in E. fold g id in E.
  destruct (path_plan (xw x)) as [[[rounds nc] h]|e] eqn:PP.
  - rewrite E in R |- *. cbn [snd fst] in R |- *. inversion R; subst i. split; [reflexivity|].
    destruct (path_plan_ok _ _ _ _ PP) as (EH & ER & LN & N0 & NK). subst rounds.
    exists h, nc. repeat split; auto.
  - rewrite E in R. discriminate.
Qed.
Print Assumptions C09_wrap_gen_path_plan.

(* ------------------------------------------------------------------------------------------------ *)
(* 5. Side results.                                                                                  *)
(* C16: whatever the state of the caches, a getter leaves the MIRP object proper (graph, ports, frequencies,
   horizon) and the OTHER two cache fields exactly as they were; the graph it hands to the new formulation
   object is the value of self.vrptw at that moment (the log entry EvNew, sections 1-3) *)
Theorem C09_wrap_gen_getters_isolated : forall mf strict x,
  (xw (fst (gen_get_arc_based mf x)) = xw x /\ xpbrp (fst (gen_get_arc_based mf x)) = xpbrp x /\
   xsbrp (fst (gen_get_arc_based mf x)) = xsbrp x) /\
  (xw (fst (gen_get_sequence_based mf strict x)) = xw x /\ xabrp (fst (gen_get_sequence_based mf strict x)) = xabrp x /\
   xpbrp (fst (gen_get_sequence_based mf strict x)) = xpbrp x) /\
  (xw (fst (gen_get_path_based mf x)) = xw x /\ xabrp (fst (gen_get_path_based mf x)) = xabrp x /\
   xsbrp (fst (gen_get_path_based mf x)) = xsbrp x).
Proof.
  intros mf strict x. split; [|split].
  - destruct (xabrp x) as [i|] eqn:C.
    + rewrite (C09_wrap_gen_arc_cached mf x i C). auto.
    + pose proof (C09_wrap_gen_arc_eq mf x C) as E. cbn zeta in E. rewrite E.
      destruct (get_arc_based mf (xw x)); cbn; auto.
  - destruct (xsbrp x) as [i|] eqn:C.
    + rewrite (C09_wrap_gen_seq_cached mf strict x i C). auto.
    + pose proof (C09_wrap_gen_seq_eq mf strict x C) as E. cbn zeta in E.
      destruct (get_sequence_based mf (xw x)); [rewrite E; cbn; auto|].
      destruct E as [_ [l E]]. rewrite E. cbn. auto.
  - destruct (xpbrp x) as [i|] eqn:C.
    + rewrite (C09_wrap_gen_path_cached mf x i C). auto.
    + pose proof (C09_wrap_gen_path_eq mf x C) as E. cbn zeta in E.
      destruct (path_plan (xw x)); rewrite E; cbn; auto.
Qed.
Print Assumptions C09_wrap_gen_getters_isolated.

(* C16: a getter that returned an object returns the very same reference on every later request (any
   make_feasible flag), and that later request does nothing *)
Theorem C09_wrap_gen_repeated_request : forall mf mf' strict strict' x i,
  (snd (gen_get_arc_based mf x) = Ok i ->
   gen_get_arc_based mf' (fst (gen_get_arc_based mf x)) = (fst (gen_get_arc_based mf x), Ok i)) /\
  (snd (gen_get_sequence_based mf strict x) = Ok i ->
   gen_get_sequence_based mf' strict' (fst (gen_get_sequence_based mf strict x))
   = (fst (gen_get_sequence_based mf strict x), Ok i)) /\
  (snd (gen_get_path_based mf x) = Ok i ->
   gen_get_path_based mf' (fst (gen_get_path_based mf x)) = (fst (gen_get_path_based mf x), Ok i)).
Proof.
  intros mf mf' strict strict' x i. split; [|split]; intros R.
  - destruct (xabrp x) as [j|] eqn:C.
    + rewrite (C09_wrap_gen_arc_cached mf x j C) in R |- *. cbn [fst snd] in R |- *. inversion R; subst.
      apply C09_wrap_gen_arc_cached. exact C.
    + pose proof (C09_wrap_gen_arc_eq mf x C) as E. cbn zeta in E. rewrite E in R |- *.
      destruct (get_arc_based mf (xw x)); cbn [fst snd] in R |- *; [|discriminate]. inversion R; subst.
      apply C09_wrap_gen_arc_cached. reflexivity.
  - destruct (xsbrp x) as [j|] eqn:C.
    + rewrite (C09_wrap_gen_seq_cached mf strict x j C) in R |- *. cbn [fst snd] in R |- *. inversion R; subst.
      apply C09_wrap_gen_seq_cached. exact C.
    + pose proof (C09_wrap_gen_seq_eq mf strict x C) as E. cbn zeta in E.
      destruct (get_sequence_based mf (xw x)).
      * rewrite E in R |- *. cbn [fst snd] in R |- *. inversion R; subst. apply C09_wrap_gen_seq_cached. reflexivity.
      * destruct E as [E _]. rewrite E in R. discriminate.
  - destruct (xpbrp x) as [j|] eqn:C.
    + rewrite (C09_wrap_gen_path_cached mf x j C) in R |- *. cbn [fst snd] in R |- *. inversion R; subst.
      apply C09_wrap_gen_path_cached. exact C.
    + pose proof (C09_wrap_gen_path_eq mf x C) as E. cbn zeta in E.
      destruct (path_plan (xw x)); rewrite E in R |- *; cbn [fst snd] in R |- *; [|discriminate].
      inversion R; subst. apply C09_wrap_gen_path_cached. reflexivity.
Qed.
Print Assumptions C09_wrap_gen_repeated_request.

(* C17: what a building call of get_path_based appends to the log starts with the new object and
   np.random.seed(0), and no other seed follows (every add_routes_better comes after the seed); the arc and
   sequence getters append no seed *)
Theorem C09_wrap_gen_seed_discipline : forall mf strict x,
  (xpbrp x = None ->
   exists rest, xlog (fst (gen_get_path_based mf x))
                = xlog x ++ EvNew FPath (xnext x) (gr (wst (xw x))) None :: EvSeed (Some 0%Z) :: rest /\
                forallb (fun e => negb (is_seed e)) rest = true) /\
  (exists l, xlog (fst (gen_get_arc_based mf x)) = xlog x ++ l /\ forallb (fun e => negb (is_seed e)) l = true) /\
  (exists l, xlog (fst (gen_get_sequence_based mf strict x)) = xlog x ++ l /\
             forallb (fun e => negb (is_seed e)) l = true).
Proof.
  intros mf strict x. split; [|split].
  - intros C. pose proof (C09_wrap_gen_path_eq mf x C) as E. cbn zeta in E.
    destruct (path_plan (xw x)) as [[[rounds nc] h]|e]; rewrite E; cbn [fst xlog with_cache path_log app snd].
    + eexists. split; [reflexivity|]. rewrite forallb_app. apply andb_true_iff. split; [|destruct mf; reflexivity].
      unfold rounds_log. apply forallb_forall. intros ev I. apply in_flat_map in I. destruct I as [r [_ I]].
      apply repeat_spec in I. subst ev. reflexivity.
    + exists []. split; reflexivity.
  - destruct (xabrp x) as [i|] eqn:C.
    + rewrite (C09_wrap_gen_arc_cached mf x i C). exists []. cbn. rewrite app_nil_r. auto.
    + pose proof (C09_wrap_gen_arc_eq mf x C) as E. cbn zeta in E. rewrite E.
      destruct (get_arc_based mf (xw x)) as [[tp [h|]]|e]; cbn [fst xlog with_cache arc_log app snd];
        eexists; (split; [reflexivity|]); reflexivity.
  - destruct (xsbrp x) as [i|] eqn:C.
    + rewrite (C09_wrap_gen_seq_cached mf strict x i C). exists []. cbn. rewrite app_nil_r. auto.
    + unfold gen_get_sequence_based. destruct x as [w a p s n l]. cbn [xsbrp] in C. subst s. pw_red.
      destruct (py_min _) as [mt|e]; pw_red.
      * destruct (Qeq_bool mt 0); pw_red; [eexists; split; [rewrite <- app_assoc; reflexivity | reflexivity]|].
        destruct mf; pw_red.
        -- rewrite C09_wrap_gen_high_cost_eq. cbn [xw].
           destruct (estimate_high_cost w); pw_red; eexists; (split; [rewrite <- ?app_assoc; reflexivity | reflexivity]).
        -- eexists; (split; [rewrite <- ?app_assoc; reflexivity | reflexivity]).
      * eexists; (split; [rewrite <- ?app_assoc; reflexivity | reflexivity]).
Qed.
Print Assumptions C09_wrap_gen_seed_discipline.

(* ------------------------------------------------------------------------------------------------ *)
(* Example (non-vacuity): the instance of C09w_instance (cargo 3, horizon 10, one supply and one demand port)
   through the GENERATED getters on an object with empty caches: arc -> object 0, grid 0,2..10, high cost 123/2;
   sequence (strict) -> object 1, V = 3, L = 10; path -> object 2, seed, 1 + 10 + 100 calls, make_feasible;
   a second get_arc_based returns object 0 and adds nothing. *)
Example C09_wrap_gen_instance :
  let w := wrun (canonical_ops [mkP 1 1 (3#2) 5; mkP 11 4 (-(1)) 5] [((1%nat, 11%nat), 5#2)] 2 (1#2)
                                 [(1%nat, 7)] [(11%nat, 9)] 0 0 5 0 0) (winit 3 10) in
  let x0 := mkXS w None None None 0 [] in
  let r1 := gen_get_arc_based true x0 in
  let r2 := gen_get_sequence_based false true (fst r1) in
  let r3 := gen_get_path_based true (fst r2) in
  let r4 := gen_get_arc_based false (fst r3) in
  let returned (r : xstate * result (option nat)) (k : nat) :=
    match snd r with Ok (Some j) => Nat.eqb j k | _ => false end in
  (returned r1 0%nat && returned r2 1%nat && returned r3 2%nat && returned r4 0%nat &&
   Nat.eqb (length (xlog (fst r4))) (length (xlog (fst r3))) &&
   Nat.eqb (length (xlog (fst r3))) (3 + 3 + (2 + 111 + 1)) &&
   match xlog (fst r2) with
   | [EvNew FArc 0 _ None; EvTimePoints 0 tp; EvFeasible 0 h; EvNew FSeq 1 _ (Some true); EvMaxVehicles 1 V;
      EvMaxSeqLen 1 L] =>
       list_eqb Z.eqb tp [0; 2; 3; 4; 5; 6; 7; 8; 9; 10]%Z && Qeq_bool h (123 # 2) && Nat.eqb V 3 && Z.eqb L 10
   | _ => false
   end &&
   match nth 7 (xlog (fst r3)) (EvSeed None) with EvSeed (Some 0%Z) => true | _ => false end) = true.
Proof. vm_cast_no_check (eq_refl true). Qed.
Print Assumptions C09_wrap_gen_instance.
