(* C09_path_gen -- the definitions GENERATED from the path-based feasibility heuristic of path_based_rp.py
   (coq/gen/HeurPathGen.v, written by harness/translate_heurpath.py on every run of bin/check C09; it calls
   the generated check_arc / add_route of coq/gen/PathGen.v, package `path`) are the hand model of Heur.v
   (generate_route / gen_loop, arb_loop, mf_dummy, dummy_loop, mark, mf_path), and the C09 theorems of the
   path formulation hold for the generated make_feasible.

   Oracles.  The generated definitions take  choose : list nat -> fx -> nat  (np.random.choice as a function of
   the key list and of the symbolic float expression passed as p) and  fstr : list fpart -> nat  (the str an
   f-string evaluates to).  The hand model takes  choose_h : kvdict -> nat  and  dum : nat -> nat -> nat.
   Every equality below is stated for ALL four oracles under the pointwise links
       forall d,   PyHeurPath.hand_choose choose explore d = choose_h d
       forall u k, PyHeurPath.hand_dum fstr u k = dum u k
   so it covers every oracle of the generated model (take choose_h := hand_choose choose 0, dum := hand_dum fstr)
   and every oracle of the hand model (take choose := gen_choose choose_h, fstr := gen_fstr dum:
   C09_path_gen_oracles_onto).

   Not part of the coq_makefile project (it imports generated files); compiled by ctx.gen_step with
     coqc -Q theories VQ -Q props VQP -Q gen VQG -Q genprops VQGP genprops/C09_path_gen.v
   Every Theorem is one proof obligation.  The proofs use the generated definitions only through unfolding /
   conversion and case analysis on the model-side scrutinees, so renaming local variables, comments, docstrings
   and logger calls in the source do not affect them. *)
From Coq Require Import ZArith List Bool Lia ZifyBool String.
From VQ Require Import Base LinAlg Vrptw Vrptw_facts Path Path_facts Penalty Heur Heur_facts PyPath PyPath_facts PyHeurPath PyHeurPath_facts.
From VQP Require Import C09.
From VQG Require Import PathGen HeurPathGen.
Import ListNotations.
Open Scope Z_scope.

(* ================= the generated check_arc / add_route (package `path`) =================
   Re-proved here (the statements and proofs of C06_gen_check_arc ... C06_gen_add_route) so that this file does
   not depend on the compiled state of genprops/C06_gen.v. *)
Theorem C09_path_gen_dep_check_arc : forall st time load a b,
  gen_check_arc st time load (inr a, inr b) = Ok (check_arc st time load a b).
Proof.
  intros. unfold gen_check_arc, check_arc, py_arcs_getitem.
  destruct (arc_get (pg st) a b) as [x|]; [|reflexivity].
  cbv beta iota zeta delta [gen_Arc_get_destination gen_Arc_get_travel_time gen_Node_get_window gen_Node_get_load PyPath.ext_gtb fst snd].
  rewrite ?Z.gtb_ltb, ?Z.geb_leb.
  destruct (negb _); [reflexivity|].
  destruct (pcap st <? _) eqn:E1; destruct (_ <? 0) eqn:E2; reflexivity.
Qed.
Print Assumptions C09_path_gen_dep_check_arc.

Theorem C09_path_gen_dep_loop1_step : forall st z r,
  gen_check_route_loop1 st z r =
  match py_pos (length r) z with
  | None => Stop (r, Err IndexError)
  | Some p => match conv_at (pg st) p r with
              | Ok r' => Cont r'
              | Err x => Stop (r, Err x)
              end
  end.
Proof.
  intros. unfold gen_check_route_loop1, py_getitem, py_setitem, conv_at, rbind.
  destruct (py_pos (length r) z) as [p|]; [|reflexivity].
  destruct (nth_error r p) as [[nm|z']|] eqn:E; [| |reflexivity].
  - cbn. destruct (index_of nm (names (pg st))); reflexivity.
  - cbn [elem_is_str conv]. f_equal. symmetry. apply set_nth_same. exact E.
Qed.
Print Assumptions C09_path_gen_dep_loop1_step.

Theorem C09_path_gen_dep_loop2_step : forall st (pre : list elem) cur (e : elem) (rest : list elem) cost vis time load,
  gen_check_route_loop2 st (Z.of_nat (length pre)) (pre ++ inr cur :: e :: rest, cost, vis, time, load) =
  match py_pos (length vis) cur with
  | None => Stop (pre ++ inr cur :: e :: rest, Err IndexError)
  | Some p =>
    if nth p vis 0 =? 1 then Stop (pre ++ inr cur :: e :: rest, Ok (false, cost, vis))
    else match conv (pg st) e with
         | Err x => Stop (pre ++ inr cur :: e :: rest, Err x)
         | Ok nxt =>
           match check_arc st time load cur nxt with
           | (true, t', l') =>
               Cont (pre ++ inr cur :: inr nxt :: rest,
                     cost + match arc_get (pg st) cur nxt with Some a => acost a | None => 0 end,
                     set_nth p 1 vis, t', l')
           | (false, _, _) => Stop (pre ++ inr cur :: inr nxt :: rest, Ok (false, cost, set_nth p 1 vis))
           end
         end
  end.
Proof.
  intros. unfold gen_check_route_loop2. cbv beta iota zeta.
  replace (Z.of_nat (length pre) + 1) with (Z.of_nat (S (length pre))) by lia.
  set (r := pre ++ inr cur :: e :: rest : list elem).
  assert (G0 : py_getitem r (Z.of_nat (length pre)) = Ok (inr cur))
    by (apply py_getitem_nat, nth_error_app_mid).
  assert (G1 : py_getitem r (Z.of_nat (S (length pre))) = Ok e)
    by (apply py_getitem_nat, nth_error_app_mid1).
  assert (L1 : (S (length pre) < length r)%nat)
    by (unfold r; rewrite app_length; simpl; lia).
  rewrite !G0, !G1. cbn [rbind py_int_of_elem].
  unfold py_setitem at 1.
  destruct (py_pos (length vis) cur) as [p|] eqn:Ep.
  2:{ unfold py_getitem. rewrite Ep. reflexivity. }
  rewrite (py_getitem_nth _ _ _ Ep). cbn [rbind].
  destruct (nth p vis 0 =? 1); [reflexivity|].
  assert (S1 : forall z, py_setitem r (Z.of_nat (S (length pre))) (inr z) = Ok (pre ++ inr cur :: inr z :: rest)).
  { intros z. rewrite (py_setitem_nat _ _ _ L1). unfold r. rewrite set_nth_app_mid1. reflexivity. }
  assert (K : forall nxt,
     py_getitem (pre ++ inr cur :: inr nxt :: rest : list elem) (Z.of_nat (length pre)) = Ok (inr cur) /\
     py_getitem (pre ++ inr cur :: inr nxt :: rest : list elem) (Z.of_nat (S (length pre))) = Ok (inr nxt)).
  { intros nxt. split; apply py_getitem_nat; [apply nth_error_app_mid|apply nth_error_app_mid1]. }
  destruct e as [nm|z]; cbn [elem_is_str conv py_get_node_index rbind].
  - destruct (index_of nm (names (pg st))) as [j|]; [|reflexivity].
    cbn [rbind]. rewrite S1.
    destruct (K (Z.of_nat j)) as [H0 H1]. rewrite H0, H1. cbn [rbind].
    rewrite C09_path_gen_dep_check_arc.
    destruct (check_arc st time load cur (Z.of_nat j)) as [[b t'] l'] eqn:Eca.
    destruct b; [|reflexivity].
    destruct (check_arc_true_arc _ _ _ _ _ _ _ Eca) as [x Hx].
    unfold py_arcs_getitem. rewrite Hx. reflexivity.
  - fold r. rewrite ?G0, ?G1. cbn [rbind].
    rewrite C09_path_gen_dep_check_arc.
    destruct (check_arc st time load cur z) as [[b t'] l'] eqn:Eca.
    destruct b; [|reflexivity].
    destruct (check_arc_true_arc _ _ _ _ _ _ _ Eca) as [x Hx].
    unfold py_arcs_getitem. rewrite Hx. reflexivity.
Qed.
Print Assumptions C09_path_gen_dep_loop2_step.

Theorem C09_path_gen_dep_loop2 : forall st (rest pre : list elem) cur time load cost vis,
  match for_each (map Z.of_nat (seq (length pre) (length rest))) (gen_check_route_loop2 st)
          (pre ++ inr cur :: rest, cost, vis, time, load) with
  | Stop r => r
  | Cont (r', c', v', _, _) => (r', Ok (true, c', v'))
  end = (pre ++ inr cur :: fst (cr_loop st cur rest time load cost vis),
         snd (cr_loop st cur rest time load cost vis)).
Proof.
  intros st rest. induction rest as [|e rest IH]; intros pre cur time load cost vis.
  - reflexivity.
  - cbn [length seq map for_each]. rewrite C09_path_gen_dep_loop2_step. cbn [cr_loop].
    destruct (py_pos (length vis) cur) as [p|]; [|reflexivity].
    destruct (nth p vis 0 =? 1); [reflexivity|].
    destruct (conv (pg st) e) as [nxt|x]; [|reflexivity].
    destruct (check_arc st time load cur nxt) as [[b t'] l'].
    destruct b; [|reflexivity].
    cbn [fst snd].
    specialize (IH (pre ++ [inr cur]) nxt t' l'
                   (cost + match arc_get (pg st) cur nxt with Some a => acost a | None => 0 end)
                   (set_nth p 1 vis)).
    rewrite app_length in IH. cbn [length] in IH.
    replace (length pre + 1)%nat with (S (length pre)) in IH by lia.
    rewrite <- !app_assoc in IH. cbn [app] in IH. exact IH.
Qed.
Print Assumptions C09_path_gen_dep_loop2.

Theorem C09_path_gen_dep_check_route : forall st r, gen_check_route st r = check_route st r.
Proof.
  intros st r. unfold gen_check_route, check_route. cbv zeta.
  unfold py_len.
  assert (Z0 : py_list_repeat 0 (Z.of_nat (length (nodes (pg st)))) = repeat 0 (length (nodes (pg st))))
    by (unfold py_list_repeat; rewrite Nat2Z.id; reflexivity).
  rewrite !Z0. clear Z0.
  destruct (Z.of_nat (length r) <? 2) eqn:E2; destruct (length r <? 2)%nat eqn:E2'; try lia.
  - reflexivity.
  - cbn [for_each]. rewrite C09_path_gen_dep_loop1_step.
    assert (P0 : forall n, (2 <= n)%nat -> py_pos n 0 = Some 0%nat).
    { intros n Hn. apply (py_pos_nat n 0). lia. }
    assert (P1 : forall n, (2 <= n)%nat -> py_pos n 1 = Some 1%nat).
    { intros n Hn. apply (py_pos_nat n 1). lia. }
    assert (L : forall g p (a b : list elem), conv_at g p a = Ok b -> length b = length a).
    { intros g p a b. unfold conv_at. destruct (nth_error a p); [|discriminate].
      destruct (conv g e); [|discriminate]. intros H; inversion H. apply set_nth_length. }
    rewrite (P0 (length r)) by lia.
    destruct (conv_at (pg st) 0 r) as [r1|x] eqn:C0; [|reflexivity].
    pose proof (L _ _ _ _ C0) as L1.
    rewrite C09_path_gen_dep_loop1_step. rewrite (P1 (length r1)) by lia.
    destruct (conv_at (pg st) 1 r1) as [r2|x] eqn:C1; [|reflexivity].
    pose proof (L _ _ _ _ C1) as L2.
    rewrite C09_path_gen_dep_loop1_step. rewrite (py_pos_last (length r2)) by lia.
    replace (length r2 - 1)%nat with (length r - 1)%nat by lia.
    destruct (conv_at (pg st) (length r - 1) r2) as [r3|x] eqn:C2; [|reflexivity].
    pose proof (L _ _ _ _ C2) as L3.
    rewrite (py_getitem_pos r3 0 0) by (apply P0; lia).
    rewrite (py_getitem_pos r3 (-1) (length r3 - 1)) by (apply py_pos_last; lia).
    unfold py_depot_index, not_depot.
    destruct (nth_error r3 0) as [e0|] eqn:E0; [|apply nth_error_None in E0; lia].
    destruct (nth_error r3 (length r3 - 1)) as [el|] eqn:El; [|apply nth_error_None in El; lia].
    cbn [rbind].
    destruct e0 as [nm|z0]; cbn [elem_eq_int negb orb rbind]; [reflexivity|].
    destruct (z0 =? 0) eqn:Ez; cbn [negb orb]; [|reflexivity].
    destruct el as [nm|zl]; cbn [elem_eq_int negb]; [reflexivity|].
    destruct (zl =? 0) eqn:Ezl; cbn [negb]; [|reflexivity].
    destruct r3 as [|e0 rest]; [discriminate E0|].
    cbn [nth_error] in E0. inversion E0; subst e0.
    match goal with |- context [py_range ?a] =>
      replace a with (Z.of_nat (length rest)) by (cbn [length]; lia) end.
    rewrite py_range_nat.
    exact (C09_path_gen_dep_loop2 st rest [] z0 0 (pinit st) 0 (repeat 0 (length (nodes (pg st))))).
Qed.
Print Assumptions C09_path_gen_dep_check_route.

Theorem C09_path_gen_dep_add_route : forall st r, gen_add_route st r = add_route st r.
Proof.
  intros st r. unfold gen_add_route, add_route. rewrite C09_path_gen_dep_check_route.
  destruct (check_route st r) as [r' res]. cbn [fst snd].
  destruct res as [[[feas cost] vis]|x]; [|reflexivity].
  cbv zeta. destruct (feas && negb (route_mem r' (proutes st))) eqn:E; [|reflexivity].
  rewrite st_append_all. reflexivity.
Qed.
Print Assumptions C09_path_gen_dep_add_route.

(* ================= get_sampled_key ================= *)
(* AssertionError on an empty dict or a negative `explore`; otherwise the key drawn by the oracle (OtherError
   for a draw outside the keys, which np.random.choice cannot produce) and the first key of minimal value.
   The `except ValueError` branch (renormalise, draw again) is dead: the model's draw never raises ValueError. *)
Theorem C09_path_gen_get_sampled_key_eq : forall choose d explore,
  gen_get_sampled_key choose d explore =
  match d with
  | [] => Err AssertionError
  | kv0 :: rest =>
      if explore >=? 0 then
        let s := hand_choose choose explore d in
        if memb s (map fst d) then Ok (s, argmin kv0 rest) else Err OtherError
      else Err AssertionError
  end.
Proof.
  intros choose d explore. unfold gen_get_sampled_key.
  destruct d as [|kv0 rest]; [reflexivity|].
  cbn [py_dict_truth py_min_key]. cbv zeta.
  destruct (explore >=? 0); [|reflexivity].
  unfold py_random_choice, hand_choose, kv_keys. cbv zeta.
  destruct (memb _ (map fst (kv0 :: rest))); reflexivity.
Qed.
Print Assumptions C09_path_gen_get_sampled_key_eq.

(* ================= generate_route ================= *)
(* the inner loop `for n in unvisited` builds the candidate dict of the hand model (Heur.potential);
   node_costs and vf are long enough for every unvisited index (they have one entry per node) *)
Theorem C09_path_gen_potential_step : forall choose st ncosts vf cur time load n d,
  (n < length ncosts)%nat -> (n < length vf)%nat ->
  gen_generate_route_loop2 choose st vf (Some ncosts) (Some (fun t => 10 * t)) cur time load n d =
  LNext (match check_arc st time load (Z.of_nat cur) (Z.of_nat n) with
         | (true, t', _) => kv_set n (cost_of (pg st) cur n + nth n ncosts 0 + 10 * t' + nth n vf 0) d
         | (false, _, _) => d
         end).
Proof.
  intros choose st ncosts vf cur time load n d Hn Hv. unfold gen_generate_route_loop2.
  rewrite (py_nth_lt ncosts n 0 Hn). cbn [rbind]. cbv zeta.
  unfold py_key, ix. cbn [fst snd]. rewrite C09_path_gen_dep_check_arc.
  destruct (check_arc st time load (Z.of_nat cur) (Z.of_nat n)) as [[b t'] l'] eqn:Eca.
  destruct b; [|reflexivity].
  destruct (check_arc_true_arc _ _ _ _ _ _ _ Eca) as [x Hx].
  unfold py_arcs_getitem. rewrite Hx. cbn [rbind].
  rewrite (py_nth_lt vf n 0 Hv). cbn [rbind].
  rewrite arc_get_nat in Hx. unfold gen_Arc_get_cost. rewrite (cost_of_get _ _ _ _ Hx). reflexivity.
Qed.
Print Assumptions C09_path_gen_potential_step.

Theorem C09_path_gen_potential_eq : forall choose st ncosts vf cur time load unv,
  Forall (fun n => (n < length ncosts)%nat /\ (n < length vf)%nat) unv ->
  py_for unv (gen_generate_route_loop2 choose st vf (Some ncosts) (Some (fun t => 10 * t)) cur time load) [] =
  Ok (potential st ncosts vf cur time load unv).
Proof.
  intros choose st ncosts vf cur time load unv. unfold potential. generalize (@nil (nat * Z)).
  induction unv as [|n unv IH]; intros d F; [reflexivity|].
  inversion F as [|? ? [Hn Hv] F']; subst.
  cbn [py_for fold_left]. rewrite C09_path_gen_potential_step by assumption. apply IH. exact F'.
Qed.
Print Assumptions C09_path_gen_potential_eq.

(* one leg of the walk (body of `for _ in range(maxLegs)`): the caught AssertionError of get_sampled_key on an
   empty candidate dict is `break`; the value-function update and the walk state are those of Heur.gen_loop *)
Theorem C09_path_gen_leg_step : forall choose choose_h explore,
  0 <= explore -> (forall d, hand_choose choose explore d = choose_h d) ->
  forall st ncosts unv, length ncosts = length (nodes (pg st)) ->
  Forall (fun n => (n < length (nodes (pg st)))%nat) unv ->
  forall (i : nat) cur r time load vf, length vf = length (nodes (pg st)) ->
  (cur = O \/ (cur < length (nodes (pg st)))%nat) ->
  gen_generate_route_loop1 choose st explore (Some ncosts) (Some (fun t => 10 * t)) unv i (vf, cur, r, time, load) =
  match potential st ncosts vf cur time load unv with
  | [] => LBreak (vf, cur, r, time, load)
  | kv0 :: rest =>
      let d := kv0 :: rest in
      let s := choose_h d in
      if negb (memb s (map fst d)) then LRaise OtherError
      else match check_arc st time load (Z.of_nat cur) (Z.of_nat s) with
           | (_, time', load') =>
               let vf' := set_nth cur (kv_get (argmin kv0 rest) d) vf in
               if Nat.eqb s 0 then LBreak (vf', s, r ++ [s], time', load')
               else LNext (vf', s, r ++ [s], time', load')
           end
  end.
Proof.
  intros choose choose_h explore He Hc st ncosts unv Hn Hu i cur r time load vf Hv Hcur.
  unfold gen_generate_route_loop1.
  rewrite C09_path_gen_potential_eq.
  2:{ eapply Forall_impl; [|exact Hu]. cbv beta. intros n H. rewrite Hn, Hv. split; exact H. }
  pose proof (potential_keys (fun n => (n < length (nodes (pg st)))%nat) st ncosts vf cur time load unv Hu) as Hk.
  destruct (potential st ncosts vf cur time load unv) as [|kv0 rest]; rewrite C09_path_gen_get_sampled_key_eq.
  - reflexivity.
  - destruct (explore >=? 0) eqn:E; [|lia]. cbv zeta. rewrite Hc.
    destruct (memb (choose_h (kv0 :: rest)) (map fst (kv0 :: rest))) eqn:Em; cbn [negb]; [|reflexivity].
    apply memb_In in Em. rewrite Forall_forall in Hk. specialize (Hk _ Em).
    unfold py_key, ix. cbn [fst snd]. rewrite C09_path_gen_dep_check_arc.
    destruct (check_arc st time load (Z.of_nat cur) (Z.of_nat (choose_h (kv0 :: rest)))) as [[b t'] l'].
    rewrite (py_kv_getitem_In _ _ (argmin_keys kv0 rest)). cbn [rbind].
    rewrite py_set_nth_lt by lia.
    unfold py_depot. destruct (Nat.eqb (choose_h (kv0 :: rest)) 0); reflexivity.
Qed.
Print Assumptions C09_path_gen_leg_step.

(* the whole loop `for _ in range(maxLegs)` = Heur.gen_loop with fuel = number of iterations *)
Theorem C09_path_gen_gen_loop_eq : forall choose choose_h explore,
  0 <= explore -> (forall d, hand_choose choose explore d = choose_h d) ->
  forall st ncosts unv, length ncosts = length (nodes (pg st)) ->
  Forall (fun n => (n < length (nodes (pg st)))%nat) unv ->
  forall fuel a cur r time load vf, length vf = length (nodes (pg st)) ->
  (cur = O \/ (cur < length (nodes (pg st)))%nat) ->
  match py_for (seq a fuel) (gen_generate_route_loop1 choose st explore (Some ncosts) (Some (fun t => 10 * t)) unv)
               (vf, cur, r, time, load) with
  | Ok (_, _, r', _, _) => Ok r'
  | Err e => Err e
  end = gen_loop choose_h st ncosts unv fuel cur r time load vf.
Proof.
  intros choose choose_h explore He Hc st ncosts unv Hn Hu.
  induction fuel as [|fuel IH]; intros a cur r time load vf Hv Hcur; [reflexivity|].
  cbn [seq py_for gen_loop].
  rewrite (C09_path_gen_leg_step choose choose_h explore He Hc st ncosts unv Hn Hu a cur r time load vf Hv Hcur).
  pose proof (potential_keys (fun n => (n < length (nodes (pg st)))%nat) st ncosts vf cur time load unv Hu) as Hk.
  destruct (potential st ncosts vf cur time load unv) as [|kv0 rest]; [reflexivity|].
  cbv zeta.
  destruct (memb (choose_h (kv0 :: rest)) (map fst (kv0 :: rest))) eqn:Em; cbn [negb]; [|reflexivity].
  apply memb_In in Em. rewrite Forall_forall in Hk. specialize (Hk _ Em).
  destruct (check_arc st time load (Z.of_nat cur) (Z.of_nat (choose_h (kv0 :: rest)))) as [[b t'] l'].
  destruct (Nat.eqb (choose_h (kv0 :: rest)) 0); [reflexivity|].
  apply IH; [rewrite set_nth_length; exact Hv|right; exact Hk].
Qed.
Print Assumptions C09_path_gen_gen_loop_eq.

(* generate_route(None, explore, node_costs, lambda t: 10*t, unvisited): the route of the hand model
   (the second component of the result is the updated value function, which the hand model does not return) *)
Theorem C09_path_gen_generate_route_eq : forall choose choose_h explore,
  0 <= explore -> (forall d, hand_choose choose explore d = choose_h d) ->
  forall st ncosts unv, length ncosts = length (nodes (pg st)) ->
  Forall (fun n => (n < length (nodes (pg st)))%nat) unv ->
  match gen_generate_route choose st None explore (Some ncosts) (Some (fun t => 10 * t)) (Some unv) with
  | Ok (r, _) => Ok r
  | Err e => Err e
  end = generate_route choose_h st ncosts unv.
Proof.
  intros choose choose_h explore He Hc st ncosts unv Hn Hu.
  unfold gen_generate_route, generate_route. cbv zeta. unfold py_nat_range, py_repeat, py_depot.
  rewrite <- (C09_path_gen_gen_loop_eq choose choose_h explore He Hc st ncosts unv Hn Hu
               (2 + length (nodes (pg st))) 0 0 [0%nat] 0 (pinit st) (repeat 0 (length (nodes (pg st)))))
    by (try apply repeat_length; auto).
  destruct (py_for _ _ _) as [[[[[vf cur] r] time] load]|e]; reflexivity.
Qed.
Print Assumptions C09_path_gen_generate_route_eq.

(* ================= add_routes_better ================= *)
(* `for n in r: if n == depot: continue; unvisited_indices.remove(n)` = Heur.remove_customers *)
Theorem C09_path_gen_remove_customers_eq : forall choose st r unv,
  py_for r (gen_add_routes_better_loop2 choose st) unv = remove_customers r unv.
Proof.
  intros choose st r. induction r as [|n r IH]; intros unv; [reflexivity|].
  cbn [py_for remove_customers]. unfold gen_add_routes_better_loop2 at 1. unfold py_depot, py_list_remove.
  destruct (Nat.eqb n 0); [apply IH|].
  destruct (remove_first n unv) as [u1|]; [apply IH|reflexivity].
Qed.
Print Assumptions C09_path_gen_remove_customers_eq.

(* one iteration of `for _ in range(num_vehicles)` *)
Theorem C09_path_gen_arb_step : forall choose choose_h explore,
  0 <= explore -> (forall d, hand_choose choose explore d = choose_h d) ->
  forall st ncosts unv routes (i : nat), length ncosts = length (nodes (pg st)) ->
  Forall (fun n => (n < length (nodes (pg st)))%nat) unv ->
  gen_add_routes_better_loop1 choose explore (Some ncosts) (Some (fun t => 10 * t)) i (st, unv, routes) =
  match generate_route choose_h st ncosts unv with
  | Err e => LRaise e
  | Ok r =>
      match add_route st (map ix r) with
      | (_, _, Err e) => LRaise e
      | (st1, _, Ok (feas, _)) =>
          if feas then
            match remove_customers r unv with
            | Err e => LRaise e
            | Ok unv' => LNext (st1, unv', routes ++ [r])
            end
          else LNext (st1, unv, routes)
      end
  end.
Proof.
  intros choose choose_h explore He Hc st ncosts unv routes i Hn Hu.
  unfold gen_add_routes_better_loop1.
  rewrite <- (C09_path_gen_generate_route_eq choose choose_h explore He Hc st ncosts unv Hn Hu).
  destruct (gen_generate_route choose st None explore (Some ncosts) (Some (fun t => 10 * t)) (Some unv))
    as [[r vf]|e]; [|reflexivity].
  rewrite C09_path_gen_dep_add_route. unfold py_elems.
  pose proof (add_route_ix_list st r) as Hl.
  destruct (add_route st (map ix r)) as [[st1 r'] res]. cbn [fst snd] in Hl. subst r'.
  rewrite py_call_frozen_same.
  destruct res as [[feas added]|e]; [|reflexivity].
  destruct feas; cbn [negb]; [|reflexivity].
  rewrite C09_path_gen_remove_customers_eq.
  destruct (remove_customers r unv); reflexivity.
Qed.
Print Assumptions C09_path_gen_arb_step.

(* the loop = Heur.arb_loop *)
Theorem C09_path_gen_arb_loop_eq : forall choose choose_h explore,
  0 <= explore -> (forall d, hand_choose choose explore d = choose_h d) ->
  forall ncosts k a st unv routes, length ncosts = length (nodes (pg st)) ->
  Forall (fun n => (n < length (nodes (pg st)))%nat) unv ->
  py_for (seq a k) (gen_add_routes_better_loop1 choose explore (Some ncosts) (Some (fun t => 10 * t))) (st, unv, routes) =
  arb_loop choose_h k st ncosts unv routes.
Proof.
  intros choose choose_h explore He Hc ncosts.
  induction k as [|k IH]; intros a st unv routes Hn Hu; [reflexivity|].
  cbn [seq py_for arb_loop].
  rewrite (C09_path_gen_arb_step choose choose_h explore He Hc st ncosts unv routes a Hn Hu).
  destruct (generate_route choose_h st ncosts unv) as [r|e]; [|reflexivity].
  destruct (add_route st (map ix r)) as [[st1 r'] res] eqn:E.
  destruct (add_route_facts _ _ _ _ _ E) as [Hg _].
  destruct res as [[feas added]|e]; [|reflexivity].
  destruct feas.
  - destruct (remove_customers r unv) as [u1|e] eqn:Er; [|reflexivity].
    apply IH; rewrite Hg; [exact Hn|]. eapply remove_customers_Forall; eauto.
  - apply IH; rewrite Hg; assumption.
Qed.
Print Assumptions C09_path_gen_arb_loop_eq.

(* add_routes_better(explore, node_costs, lambda t: 10*t): new self, unvisited indices, routes *)
Theorem C09_path_gen_add_routes_better_eq : forall choose choose_h explore,
  0 <= explore -> (forall d, hand_choose choose explore d = choose_h d) ->
  forall st ncosts, length ncosts = length (nodes (pg st)) ->
  gen_add_routes_better choose st explore (Some ncosts) (Some (fun t => 10 * t)) =
  arb_loop choose_h (max_vehicles (pg st)) st ncosts (seq 0 (length (nodes (pg st)))) [].
Proof.
  intros choose choose_h explore He Hc st ncosts Hn.
  unfold gen_add_routes_better. cbv zeta. unfold py_nat_range, py_estimate_max_vehicles.
  rewrite (C09_path_gen_arb_loop_eq choose choose_h explore He Hc ncosts (max_vehicles (pg st)) 0 st
             (seq 0 (length (nodes (pg st)))) [] Hn).
  - destruct (arb_loop _ _ _ _ _ _) as [[[s u] r]|e]; reflexivity.
  - apply Forall_forall. intros n H. apply in_seq in H. lia.
Qed.
Print Assumptions C09_path_gen_add_routes_better_eq.

(* ================= make_feasible ================= *)
(* `new_node = f"mf_Dum_{u}"; suffix = 0; while new_node in self.node_names: suffix += 1; new_node = f"mf_Dum_{u}_{suffix}"`
   = Heur.fresh_name (same fuel; exhaustion is OtherError on both sides) *)
Theorem C09_path_gen_fresh_name_loop : forall choose fstr dum, (forall u k, hand_dum fstr u k = dum u k) ->
  forall st u fuel k,
  match py_while fuel (fun s : nat * Z => let '(v_new_node, v_suffix) := s in memb v_new_node (names (pg st)))
                 (gen_make_feasible_loop2 choose fstr st u) (dum u k, Z.of_nat k) with
  | Ok (nm, _) => Ok nm
  | Err e => Err e
  end = match fresh_name dum (names (pg st)) u k fuel with Some nm => Ok nm | None => Err OtherError end.
Proof.
  intros choose fstr dum Hd st u. induction fuel as [|fuel IH]; intros k; [reflexivity|].
  cbn [py_while fresh_name]. destruct (memb (dum u k) (names (pg st))); [|reflexivity].
  unfold gen_make_feasible_loop2 at 1. cbv zeta.
  replace (Z.of_nat k + 1) with (Z.of_nat (S k)) by lia.
  change (fstr [FS "mf_Dum_"; FN u; FS "_"; FZ (Z.of_nat (S k))]) with (hand_dum fstr u (S k)).
  rewrite Hd. apply IH.
Qed.
Print Assumptions C09_path_gen_fresh_name_loop.

Theorem C09_path_gen_fresh_name_eq : forall choose fstr dum, (forall u k, hand_dum fstr u k = dum u k) ->
  forall st u,
  match py_while (while_fuel st) (fun s : nat * Z => let '(v_new_node, v_suffix) := s in memb v_new_node (names (pg st)))
                 (gen_make_feasible_loop2 choose fstr st u) (fstr [FS "mf_Dum_"; FN u], 0) with
  | Ok (nm, _) => Ok nm
  | Err e => Err e
  end = match fresh_name dum (names (pg st)) u 0 (S (length (names (pg st)))) with Some nm => Ok nm | None => Err OtherError end.
Proof.
  intros choose fstr dum Hd st u.
  change (fstr [FS "mf_Dum_"; FN u]) with (hand_dum fstr u 0). rewrite Hd.
  exact (C09_path_gen_fresh_name_loop choose fstr dum Hd st u (while_fuel st) 0).
Qed.
Print Assumptions C09_path_gen_fresh_name_eq.

(* one iteration of `for u in unvisited_indices` = Heur.mf_dummy.  u is a node index and the depot name is a
   node name (both hold inside make_feasible); this is what makes the order in which the hand model looks up
   self.node_names[u] (before the first add_arc) and the source (argument of the second add_arc) irrelevant *)
Theorem C09_path_gen_dummy_step : forall choose fstr dum, (forall u k, hand_dum fstr u k = dum u k) ->
  forall st high dn u routes, (u < length (nodes (pg st)))%nat -> In dn (names (pg st)) ->
  gen_make_feasible_loop1 choose fstr high dn u (st, routes) =
  match mf_dummy dum st high dn u with
  | Ok (st', r) => LNext (st', routes ++ [r])
  | Err e => LRaise e
  end.
Proof.
  intros choose fstr dum Hd st high dn u routes Hu Hdn.
  cbv beta iota delta [gen_make_feasible_loop1].
  rewrite (py_nth_lt _ _ dummy_node Hu). cbv beta iota delta [rbind gen_Node_get_load].
  match goal with |- (let c := _ in let k := ?K in @?B c k) = _ =>
    transitivity (K (new_node_loading st u));
    [ unfold new_node_loading, node_at; cbv zeta; rewrite Z.gtb_ltb;
      destruct (_ <? 0); [reflexivity|]; destruct (pcap st <? _); reflexivity | ]
  end.
  cbv beta zeta. unfold mf_dummy.
  pose proof (C09_path_gen_fresh_name_eq choose fstr dum Hd st u) as Hw.
  destruct (py_while _ _ _ _) as [[nm sfx]|e];
    destruct (fresh_name dum (names (pg st)) u 0 (S (length (names (pg st))))) as [nm'|];
    inversion Hw; subst; [|reflexivity]. clear Hw.
  unfold py_add_node.
  destruct (add_node (pg st) nm' (- new_node_loading st u) 0 PInf) as [g1|e] eqn:E1; [|reflexivity].
  unfold py_names_index. cbn [pg with_graph].
  destruct (index_of nm' (names g1)) as [ni|]; [|reflexivity].
  pose proof (add_node_names _ _ _ _ _ _ E1) as M1.
  destruct (add_arc_present g1 dn nm' 0 high) as (g2 & b2 & E2);
    [rewrite M1; apply in_app_iff; auto | rewrite M1; apply in_app_iff; right; left; reflexivity |].
  pose proof (add_arc_names _ _ _ _ _ _ _ E2) as M2.
  unfold py_add_arc at 1. cbn [pg with_graph]. rewrite E2.
  unfold py_nth at 1. cbn [pg with_graph]. rewrite M2.
  destruct (nth_error (names g1) u) as [un|] eqn:Eu; [|reflexivity].
  unfold py_add_arc at 1. cbn [pg with_graph].
  destruct (add_arc g2 nm' un 0 high) as [[g3 b3]|e] eqn:E3; [|reflexivity].
  pose proof (add_arc_names _ _ _ _ _ _ _ E3) as M3.
  unfold py_depot. rewrite py_arcs_getitem_nat. cbn [pg with_graph].
  unfold dict_mem.
  destruct (dict_get (u, O) (arcs g3)) as [x|].
  - rewrite C09_path_gen_dep_add_route. unfold py_elems.
    change (with_graph (with_graph (with_graph st g1) g2) g3) with (with_graph st g3).
    match goal with |- context [add_route ?S (map ix ?R)] =>
      pose proof (add_route_ix_list S R) as Hl; destruct (add_route S (map ix R)) as [[s1 r'] res] end.
    cbn [fst snd] in Hl. subst r'. rewrite py_call_frozen_same.
    destruct res as [[[|] a]|e]; reflexivity.
  - cbn [errcls_eqb]. unfold py_nth. rewrite M3, M2, Eu. unfold py_add_arc. cbn [pg with_graph].
    destruct (add_arc g3 un dn 0 0) as [[g4 b4]|e]; [|reflexivity].
    rewrite C09_path_gen_dep_add_route. unfold py_elems.
    change (with_graph (with_graph (with_graph (with_graph st g1) g2) g3) g4) with (with_graph st g4).
    match goal with |- context [add_route ?S (map ix ?R)] =>
      pose proof (add_route_ix_list S R) as Hl; destruct (add_route S (map ix R)) as [[s1 r'] res] end.
    cbn [fst snd] in Hl. subst r'. rewrite py_call_frozen_same.
    destruct res as [[[|] a]|e]; reflexivity.
Qed.
Print Assumptions C09_path_gen_dummy_step.

Theorem C09_path_gen_dummy_loop_eq : forall choose fstr dum, (forall u k, hand_dum fstr u k = dum u k) ->
  forall high dn us st routes,
  Forall (fun u => (u < length (nodes (pg st)))%nat) us -> In dn (names (pg st)) ->
  py_for us (gen_make_feasible_loop1 choose fstr high dn) (st, routes) = dummy_loop dum st high dn us routes.
Proof.
  intros choose fstr dum Hd high dn. induction us as [|u us IH]; intros st routes F Hdn; [reflexivity|].
  inversion F as [|? ? Hu F']; subst.
  cbn [py_for dummy_loop]. rewrite (C09_path_gen_dummy_step choose fstr dum Hd st high dn u routes Hu Hdn).
  destruct (mf_dummy dum st high dn u) as [[st' r]|e] eqn:E; [|reflexivity].
  destruct (mf_dummy_inv _ _ _ _ _ _ _ E) as (Hn & Hm & _).
  apply IH; [|auto]. eapply Forall_impl; [|exact F']. cbv beta. intros; lia.
Qed.
Print Assumptions C09_path_gen_dummy_loop_eq.

(* `for r in routes: i = self.routes.index(r); feas_sol[i] = 1` = Heur.mark, for a vector with one entry per
   stored route *)
Theorem C09_path_gen_mark_eq : forall choose fstr st routes x, length x = length (proutes st) ->
  py_for routes (gen_make_feasible_loop3 choose fstr st) x = mark routes (proutes st) x.
Proof.
  intros choose fstr st. induction routes as [|r routes IH]; intros x Hx; [reflexivity|].
  cbn [py_for mark]. unfold gen_make_feasible_loop3 at 1. unfold py_routes_index.
  destruct (route_index r (proutes st)) as [i|] eqn:E; [|reflexivity].
  apply route_index_lt in E. rewrite py_set_nth_lt by lia.
  apply IH. rewrite set_nth_length. exact Hx.
Qed.
Print Assumptions C09_path_gen_mark_eq.

(* make_feasible(high_cost): new self and self.feasible_solution, or the exception class -- for every state whose
   route_costs and routes lists have the same length (every reachable state: PInv), all oracles, every high cost *)
Theorem C09_path_gen_make_feasible_eq : forall choose fstr choose_h dum,
  (forall d, hand_choose choose 0 d = choose_h d) -> (forall u k, hand_dum fstr u k = dum u k) ->
  forall st high, length (pcosts st) = length (proutes st) ->
  gen_make_feasible choose fstr st high = mf_path choose_h dum st high.
Proof.
  intros choose fstr choose_h dum Hc Hd st high Ha.
  unfold gen_make_feasible, mf_path. cbv zeta. unfold py_repeat, py_depot.
  change (py_max_default (pcosts st) 0) with (max_default0 (pcosts st)).
  destruct (Nat.eqb (length (nodes (pg st))) 0) eqn:En.
  - apply Nat.eqb_eq in En. unfold py_set_nth. rewrite repeat_length, En. reflexivity.
  - apply Nat.eqb_neq in En. rewrite py_set_nth_lt by (rewrite repeat_length; lia).
    rewrite (C09_path_gen_add_routes_better_eq choose choose_h 0 (Z.le_refl 0) Hc)
      by (rewrite set_nth_length, repeat_length; reflexivity).
    destruct (arb_loop _ _ _ _ _ _) as [[[st1 unv] routes]|e] eqn:Ea; [|reflexivity].
    destruct (arb_loop_inv _ (fun k => (k < length (nodes (pg st)))%nat) _ _ _ _ _ _ _ _ Ea) as (Hg & Hal & Hf).
    assert (Fu : Forall (fun k => (k < length (nodes (pg st)))%nat) unv).
    { apply Hf. apply Forall_forall. intros k H. apply in_seq in H. lia. }
    unfold py_list_remove.
    destruct (remove_first 0 unv) as [unv'|] eqn:Er; [|reflexivity].
    unfold py_nth. destruct (nth_error (names (pg st1)) 0) as [dn|] eqn:Edn; [|reflexivity].
    rewrite (C09_path_gen_dummy_loop_eq choose fstr dum Hd high dn unv' st1 routes).
    + destruct (dummy_loop dum st1 high dn unv' routes) as [[st2 routes']|e] eqn:Ed; [|reflexivity].
      pose proof (dummy_loop_aligned _ _ _ _ _ _ _ _ Ed (Hal Ha)) as Ha2.
      rewrite C09_path_gen_mark_eq by (rewrite repeat_length; exact Ha2).
      destruct (mark _ _ _); reflexivity.
    + rewrite Hg. eapply remove_first_Forall; eauto.
    + eapply nth_error_In; eauto.
Qed.
Print Assumptions C09_path_gen_make_feasible_eq.

(* every oracle pair of the hand model arises from an oracle pair of the generated model *)
Theorem C09_path_gen_oracles_onto : forall (choose_h : kvdict -> nat) (dum : nat -> nat -> nat),
  (forall explore d, hand_choose (gen_choose choose_h) explore d = choose_h d) /\
  (forall u k, hand_dum (gen_fstr dum) u k = dum u k).
Proof.
  intros choose_h dum. split.
  - intros explore d. unfold hand_choose, gen_choose, kv_keys, kv_values. rewrite combine_fst_snd. reflexivity.
  - intros u [|k]; [reflexivity|]. unfold hand_dum, gen_fstr. rewrite Nat2Z.id. reflexivity.
Qed.
Print Assumptions C09_path_gen_oracles_onto.

(* repeated invocations: the list of outcomes of the hand model *)
Theorem C09_path_gen_iter_eq : forall choose fstr choose_h dum,
  (forall d, hand_choose choose 0 d = choose_h d) -> (forall u k, hand_dum fstr u k = dum u k) ->
  forall highs st, length (pcosts st) = length (proutes st) ->
  py_iter_calls (gen_make_feasible choose fstr) st highs = mf_path_iter choose_h dum st highs.
Proof.
  intros choose fstr choose_h dum Hc Hd. induction highs as [|h hs IH]; intros st Ha; [reflexivity|].
  cbn [py_iter_calls mf_path_iter]. rewrite (C09_path_gen_make_feasible_eq choose fstr choose_h dum Hc Hd st h Ha).
  destruct (mf_path choose_h dum st h) as [[st' x]|e] eqn:E; [|reflexivity].
  rewrite IH; [reflexivity|]. exact (mf_path_aligned _ _ _ _ _ _ E Ha).
Qed.
Print Assumptions C09_path_gen_iter_eq.

(* ================= the C09 theorems of the path formulation, for the GENERATED make_feasible ================= *)
(* C09_post_path: for every draw oracle, every f-string oracle, every reachable state and every high cost: if the
   generated make_feasible returns normally with the state st' and the vector x, then x has one entry per
   variable of st', every entry is 0 or 1, A x = b and x'Rx = 0 for the constraint data st' reports *)
Theorem C09_path_gen_post_path :
  forall (choose : list nat -> fx -> nat) (fstr : list fpart -> nat) st high st' x,
    PInv st -> gen_make_feasible choose fstr st high = Ok (st', x) ->
    let n := length (nodes (pg st')) in
    let m := length (proutes st') in
    PInv st' /\
    exists A,
      Path.constraint_data st' = Ok ((n - 1, m)%nat, A, repeat 1 (n - 1)%nat, zero_matrix m, 0) /\
      Path.num_variables st' = m /\ length x = m /\ Forall (fun v => v = 0 \/ v = 1) x /\
      Zbinary m (Zvec_of x) /\
      Zfeasible (n - 1) m (Zmat_of A) (Zvec_of (repeat 1 (n - 1)%nat)) (Zmat_of (zero_matrix m)) (Zvec_of x).
Proof.
  intros choose fstr st high st' x HP H.
  rewrite (C09_path_gen_make_feasible_eq choose fstr (hand_choose choose 0) (hand_dum fstr)
             (fun _ => eq_refl) (fun _ _ => eq_refl) st high (pi_costs _ HP)) in H.
  exact (C09_post_path _ _ st high st' x HP H).
Qed.
Print Assumptions C09_path_gen_post_path.

Theorem C09_path_gen_post_path_repeated :
  forall (choose : list nat -> fx -> nat) (fstr : list fpart -> nat) highs st st' x,
    PInv st -> In (Ok (st', x)) (py_iter_calls (gen_make_feasible choose fstr) st highs) ->
    let n := length (nodes (pg st')) in
    let m := length (proutes st') in
    exists A,
      Path.constraint_data st' = Ok ((n - 1, m)%nat, A, repeat 1 (n - 1)%nat, zero_matrix m, 0) /\
      Path.num_variables st' = m /\ length x = m /\ Forall (fun v => v = 0 \/ v = 1) x /\
      Zbinary m (Zvec_of x) /\
      Zfeasible (n - 1) m (Zmat_of A) (Zvec_of (repeat 1 (n - 1)%nat)) (Zmat_of (zero_matrix m)) (Zvec_of x).
Proof.
  intros choose fstr highs st st' x HP H.
  rewrite (C09_path_gen_iter_eq choose fstr (hand_choose choose 0) (hand_dum fstr)
             (fun _ => eq_refl) (fun _ _ => eq_refl) highs st (pi_costs _ HP)) in H.
  exact (C09_post_path_repeated _ _ highs st st' x HP H).
Qed.
Print Assumptions C09_path_gen_post_path_repeated.

(* C09_total_path: under PathHyp (depot with demand 0 and open window, initial load in [0, cap], |demand| <= cap,
   window ends >= 0), for a draw oracle that returns an element of its non-empty key list and an f-string oracle
   that gives distinct names for distinct suffixes, the generated make_feasible returns normally -- for every
   route pool, every arc set, every high cost -- and the hypotheses hold again *)
Theorem C09_path_gen_total_path :
  forall (choose : list nat -> fx -> nat) (fstr : list fpart -> nat),
    (forall keys p, keys <> [] -> In (choose keys p) keys) ->
    (forall u k k', hand_dum fstr u k = hand_dum fstr u k' -> k = k') ->
    forall st high, PInv st -> PathHyp st ->
      exists st' x, gen_make_feasible choose fstr st high = Ok (st', x) /\ PInv st' /\ PathHyp st'.
Proof.
  intros choose fstr Hc Hd st high HP HH.
  rewrite (C09_path_gen_make_feasible_eq choose fstr (hand_choose choose 0) (hand_dum fstr)
             (fun _ => eq_refl) (fun _ _ => eq_refl) st high (pi_costs _ HP)).
  apply C09_total_path; auto.
  intros d Hne. unfold hand_choose, kv_keys. apply Hc. destruct d; [congruence|discriminate].
Qed.
Print Assumptions C09_path_gen_total_path.

Theorem C09_path_gen_total_path_repeated :
  forall (choose : list nat -> fx -> nat) (fstr : list fpart -> nat),
    (forall keys p, keys <> [] -> In (choose keys p) keys) ->
    (forall u k k', hand_dum fstr u k = hand_dum fstr u k' -> k = k') ->
    forall highs st, PInv st -> PathHyp st ->
      length (py_iter_calls (gen_make_feasible choose fstr) st highs) = length highs /\
      Forall (fun r => exists st' x, r = Ok (st', x)) (py_iter_calls (gen_make_feasible choose fstr) st highs).
Proof.
  intros choose fstr Hc Hd highs st HP HH.
  rewrite (C09_path_gen_iter_eq choose fstr (hand_choose choose 0) (hand_dum fstr)
             (fun _ => eq_refl) (fun _ _ => eq_refl) highs st (pi_costs _ HP)).
  apply C09_total_path_repeated; auto.
  intros d Hne. unfold hand_choose, kv_keys. apply Hc. destruct d; [congruence|discriminate].
Qed.
Print Assumptions C09_path_gen_total_path_repeated.

(* ================= get_route_names / get_routes ================= *)
Theorem C09_path_gen_get_route_names_eq : forall st r,
  gen_get_route_names st r =
  traverse (fun k => match nth_error (names (pg st)) k with Some nm => Ok nm | None => Err IndexError end) r.
Proof.
  intros st r. unfold gen_get_route_names, py_map_list, py_nth, rbind.
  destruct (traverse _ r); reflexivity.
Qed.
Print Assumptions C09_path_gen_get_route_names_eq.

Theorem C09_path_gen_get_routes_eq : forall st x, gen_get_routes st x = Path.get_routes st x.
Proof.
  intros st x. unfold gen_get_routes, Path.get_routes. cbv zeta.
  rewrite (py_for_append_traverse
             (fun i => match nth_error (proutes st) i with
                       | None => Err IndexError
                       | Some r => traverse (fun k => match nth_error (names (pg st)) k with
                                                      | Some nm => Ok nm | None => Err IndexError end) r
                       end)).
  - destruct (traverse _ (flatnonzero x)); reflexivity.
  - intros i acc. unfold gen_get_routes_loop1, py_nth, rbind.
    destruct (nth_error (proutes st) i) as [r|]; [|reflexivity].
    rewrite C09_path_gen_get_route_names_eq. destruct (traverse _ r); reflexivity.
Qed.
Print Assumptions C09_path_gen_get_routes_eq.
