(* C18_seq_gen -- the definitions GENERATED from sequence_based_rp.py (coq/gen/SeqGen.v, written by
   harness/translate_seqenum.py on every run of `bin/check C18`) compute the hand model Seq.v, and the
   C18 headline holds for the generated enumeration.

   Not part of the coq_makefile project (it depends on a generated file): ctx.gen_step compiles
   gen/SeqGen.v and then this file with
     coqc -Q theories VQ -Q props VQP -Q gen VQG -Q genprops VQGP genprops/C18_seq_gen.v
   and counts every theorem below as a proof obligation.

   Vocabulary (coq/theories/PySeq.v): `qstate` is the object; `seq_inst self` the problem it holds
   (graph, max_vehicles, max_sequence_length, vehicle_cost); `seq_coherent self`: the cache discipline
   (flag set -> var_mapping, num_variables, fixed_values, var_mapping_inverse are those of the problem);
   `seq_enumerated self I`: self with the five enumeration attributes set; `seq_lift self0 (vm, fx, inv, k)`
   is the loop state of the generated loops; fix_step / free_step / cell_step / enum_literal are the
   enumeration loops written literally (dict and array item assignments), and
   PySeq_facts.enum_literal_spec proves that they compute (vars I, fixed_items I, inverse_of I,
   num_variables I) -- this is where "every key is assigned once" is proved.

   Every statement quantifies over ALL object states (any previous var_mapping, fixed_values, inverse
   table, counter): a re-enumeration that forgets to clear var_mapping, a changed rule, a swapped
   index ... changes the generated term and breaks the theorem named after the loop or method. *)
From Coq Require Import ZifyBool.
From VQ Require Import Base Vrptw Seq Seq_facts PyEnumCore PyEnumCore_facts PySeq PySeq_facts.
From VQG Require Import SeqGen.

(* ---------- the vehicle loops: six that fix a value, one that records free variables ---------- *)

Theorem C18_seq_gen_fix_loops_eq : forall self0 s n v e,
  gen_enumerate_variables_body3 s n v (fst (seq_lift self0 e)) = (CNext, fst (seq_lift self0 (fix_step 1 s n v e))) /\
  gen_enumerate_variables_body4 s n v (fst (seq_lift self0 e)) = (CNext, fst (seq_lift self0 (fix_step 0 s n v e))) /\
  gen_enumerate_variables_body5 s n v (fst (seq_lift self0 e)) = (CNext, fst (seq_lift self0 (fix_step 0 s n v e))) /\
  gen_enumerate_variables_body6 s n v (fst (seq_lift self0 e)) = (CNext, fst (seq_lift self0 (fix_step 1 s n v e))) /\
  gen_enumerate_variables_body7 s n v (fst (seq_lift self0 e)) = (CNext, fst (seq_lift self0 (fix_step 0 s n v e))) /\
  gen_enumerate_variables_body8 s n v (fst (seq_lift self0 e)) = (CNext, fst (seq_lift self0 (fix_step 0 s n v e))).
Proof. intros self0 s n v [[[vm fx] inv] k]. repeat split; reflexivity. Qed.
Print Assumptions C18_seq_gen_fix_loops_eq.

Theorem C18_seq_gen_free_loop_eq : forall self0 s n v e,
  gen_enumerate_variables_body9 s n v (seq_lift self0 e) = (CNext, seq_lift self0 (free_step s n v e)).
Proof.
  intros self0 s n v [[[vm fx] inv] k].
  unfold gen_enumerate_variables_body9, seq_lift, free_step, py_append. cbn.
  rewrite Nat.add_1_r. reflexivity.
Qed.
Print Assumptions C18_seq_gen_free_loop_eq.


(* ---------- one (si, ni): the six rules in code order (`si == L-1` is computed in Z by the generated
   code and is Seq.rule's `S s = L`), then the loop over ni ---------- *)

Theorem C18_seq_gen_cell_eq : forall self0 s n e,
  gen_enumerate_variables_body2 s n (seq_lift self0 e) =
  (CNext, seq_lift self0 (cell_step (seq_inst self0) e (s, n))).
Proof.
  intros self0 s n e.
  (* the six fixing loops and the free loop, as folds of the literal steps *)
  assert (Hfix : forall z body,
             (forall v e', body v (fst (seq_lift self0 e')) = (CNext, fst (seq_lift self0 (fix_step z s n v e')))) ->
             (py_for body (py_range (q_max_vehicles self0)) (fst (seq_lift self0 e)), snd (seq_lift self0 e)) =
             seq_lift self0 (fold_left (fun e v => fix_step z s n v e) (seq 0 (q_max_vehicles self0)) e)).
  { intros z body Hb. rewrite (seq_lift_eta self0 (fold_left _ _ _)), fix_fold_count. f_equal.
    apply (py_for_fold_lift (fun e => fst (seq_lift self0 e))). intros v e' _. apply Hb. }
  assert (Hfree : py_for (gen_enumerate_variables_body9 s n) (py_range (q_max_vehicles self0)) (seq_lift self0 e) =
                  seq_lift self0 (fold_left (fun e v => free_step s n v e) (seq 0 (q_max_vehicles self0)) e)).
  { apply (py_for_fold_lift (seq_lift self0)). intros v e' _. apply C18_seq_gen_free_loop_eq. }
  pose proof (fun v e' => proj1 (C18_seq_gen_fix_loops_eq self0 s n v e')) as H3.
  pose proof (fun v e' => proj1 (proj2 (C18_seq_gen_fix_loops_eq self0 s n v e'))) as H4.
  pose proof (fun v e' => proj1 (proj2 (proj2 (C18_seq_gen_fix_loops_eq self0 s n v e')))) as H5.
  pose proof (fun v e' => proj1 (proj2 (proj2 (proj2 (C18_seq_gen_fix_loops_eq self0 s n v e'))))) as H6.
  pose proof (fun v e' => proj1 (proj2 (proj2 (proj2 (proj2 (C18_seq_gen_fix_loops_eq self0 s n v e')))))) as H7.
  pose proof (fun v e' => proj2 (proj2 (proj2 (proj2 (proj2 (C18_seq_gen_fix_loops_eq self0 s n v e')))))) as H8.
  apply Hfix in H3, H4, H5, H6, H7, H8. clear Hfix.
  (* the loop state: only var_mapping, fixed_values, var_mapping_inverse differ from self0 *)
  destruct (seq_lift self0 e) as [self k] eqn:El.
  assert (EV : q_max_vehicles self = q_max_vehicles self0 /\ q_max_sequence_length self = q_max_sequence_length self0 /\
               q_graph self = q_graph self0).
  { destruct e as [[[vm fx] inv] k']. inversion El. repeat split; reflexivity. }
  destruct EV as (EV & EL & EG).
  cbn [fst snd] in H3, H4, H5, H6, H7, H8.
  unfold gen_enumerate_variables_body2, gen_check_arc, py_dict_contains, py_arcs.
  rewrite EV, EL, EG, z_eq_pred1, z_eq_pred2.
  unfold cell_step, rule, check_arc, seq_inst. cbn [fst snd ig iV iL].
  destruct (Nat.eqb s 0 && Nat.eqb n 0); [rewrite H3; reflexivity|].
  destruct (Nat.eqb s 0 && negb (Nat.eqb n 0)); [rewrite H4; reflexivity|].
  destruct (Nat.eqb s 1 && negb (dict_mem (0%nat, n) (arcs (q_graph self0)))); [rewrite H5; reflexivity|].
  destruct (Nat.eqb (S s) (q_max_sequence_length self0) && Nat.eqb n 0); [rewrite H6; reflexivity|].
  destruct (Nat.eqb (S s) (q_max_sequence_length self0) && negb (Nat.eqb n 0)); [rewrite H7; reflexivity|].
  destruct (Nat.eqb (S (S s)) (q_max_sequence_length self0) && negb (dict_mem (n, 0%nat) (arcs (q_graph self0))));
    [rewrite H8; reflexivity|].
  rewrite Hfree. destruct (seq_lift self0 (fold_left _ _ _)); reflexivity.
Qed.
Print Assumptions C18_seq_gen_cell_eq.

Theorem C18_seq_gen_row_eq : forall self0 s e,
  gen_enumerate_variables_body1 s (seq_lift self0 e) =
  (CNext, seq_lift self0 (fold_left (fun e n => cell_step (seq_inst self0) e (s, n)) (seq 0 (iN (seq_inst self0))) e)).
Proof.
  intros self0 s e.
  assert (Hin : py_for (gen_enumerate_variables_body2 s) (py_range (length (nodes (q_graph self0)))) (seq_lift self0 e) =
                seq_lift self0 (fold_left (fun e n => cell_step (seq_inst self0) e (s, n)) (seq 0 (iN (seq_inst self0))) e)).
  { apply (py_for_fold_lift (seq_lift self0)). intros n e' _. apply C18_seq_gen_cell_eq. }
  destruct (seq_lift self0 e) as [self k] eqn:El.
  assert (EG : q_graph self = q_graph self0) by (destruct e as [[[vm fx] inv] k']; inversion El; reflexivity).
  unfold gen_enumerate_variables_body1, py_nodes. rewrite EG, Hin.
  destruct (seq_lift self0 (fold_left _ _ _)); reflexivity.
Qed.
Print Assumptions C18_seq_gen_row_eq.


(* ---------- the whole enumeration: generated = hand model, for every object state ---------- *)

Theorem C18_seq_gen_enumerate_eq : forall self,
  gen_enumerate_variables self =
  (if q_variables_enumerated self then self else seq_enumerated self (seq_inst self), Datatypes.tt).
Proof.
  intros self. set (I := seq_inst self).
  assert (Hloop : py_for gen_enumerate_variables_body1 (py_range (q_max_sequence_length self))
                    (seq_lift self ([], [], np_neg3 (np_ones3 (iV I, iL I, iN I)), O)) =
                  seq_lift self (enum_literal I)).
  { unfold enum_literal. apply (py_for_fold_lift (seq_lift self)). intros s e _. apply C18_seq_gen_row_eq. }
  rewrite enum_literal_spec in Hloop.
  unfold gen_enumerate_variables. destruct (q_variables_enumerated self); [reflexivity|].
  cbv zeta.
  match goal with
  | |- context [py_for ?b ?l ?s] =>
      change (py_for b l s) with
        (py_for gen_enumerate_variables_body1 (py_range (q_max_sequence_length self))
                (seq_lift self ([], [], np_neg3 (np_ones3 (iV I, iL I, iN I)), O)))
  end.
  rewrite Hloop. reflexivity.
Qed.
Print Assumptions C18_seq_gen_enumerate_eq.


(* ---------- the small methods, fixed_values, dispatcher, lookups, headline ---------- *)

Theorem C18_seq_gen_setters_eq : forall self k,
  gen_set_max_sequence_length self k = (qset_max_sequence_length k self, Datatypes.tt) /\
  gen_set_max_vehicles self k = (qset_vehicle_cost (repeat 0 k) (qset_max_vehicles k self), Datatypes.tt) /\
  seq_inst (fst (gen_set_max_sequence_length self k)) =
    mkInst (q_graph self) (q_max_vehicles self) k (q_vehicle_cost self) /\
  seq_inst (fst (gen_set_max_vehicles self k)) =
    mkInst (q_graph self) k (q_max_sequence_length self) (repeat 0 k).
Proof. intros. repeat split; reflexivity. Qed.
Print Assumptions C18_seq_gen_setters_eq.

Theorem C18_seq_gen_check_arc_eq : forall self k,
  gen_check_arc self k = check_arc (seq_inst self) k.
Proof. intros; reflexivity. Qed.
Print Assumptions C18_seq_gen_check_arc_eq.

(* fixed_values after an enumeration is Seq.fixed_items (as a list, in insertion order), hence its lookups are Seq.fixed *)
Theorem C18_seq_gen_fixed_eq : forall self,
  q_variables_enumerated self = false ->
  let self' := fst (gen_enumerate_variables self) in
  q_fixed_values self' = fixed_items (seq_inst self) /\
  (forall t, assoc_t t (q_fixed_values self') = fixed (seq_inst self) t).
Proof.
  intros self E self'. unfold self'. rewrite C18_seq_gen_enumerate_eq, E. split; reflexivity.
Qed.
Print Assumptions C18_seq_gen_fixed_eq.

Theorem C18_seq_gen_dispatch_eq : forall self, seq_coherent self ->
  let I := seq_inst self in
  let self' := fst (gen_enumerate_variables self) in
  q_var_mapping self' = vars I /\ q_num_variables self' = num_variables I /\
  q_fixed_values self' = fixed_items I /\ q_var_mapping_inverse self' = inverse_of I /\
  q_variables_enumerated self' = true /\ seq_inst self' = I /\ seq_coherent self'.
Proof.
  intros self Hc I self'. unfold self'. rewrite C18_seq_gen_enumerate_eq.
  destruct (q_variables_enumerated self) eqn:E; cbn [fst].
  - destruct (Hc E) as (H1 & H2 & H3 & H4). repeat split; assumption.
  - repeat split; reflexivity.
Qed.
Print Assumptions C18_seq_gen_dispatch_eq.

Theorem C18_seq_gen_get_num_variables_eq : forall self, seq_coherent self ->
  snd (gen_get_num_variables self) = num_variables (seq_inst self) /\
  fst (gen_get_num_variables self) = fst (gen_enumerate_variables self).
Proof.
  intros self Hc. destruct (C18_seq_gen_dispatch_eq self Hc) as (_ & H2 & _).
  revert H2. unfold gen_get_num_variables. rewrite C18_seq_gen_enumerate_eq.
  destruct (q_variables_enumerated self); cbn [fst snd negb]; auto.
Qed.
Print Assumptions C18_seq_gen_get_num_variables_eq.

(* get_var_index: IndexError outside V x L x N, None for a fixed tuple, else the position in var_mapping *)
Theorem C18_seq_gen_get_var_index_eq : forall self v s n, seq_coherent self ->
  let I := seq_inst self in
  gen_get_var_index self v s n =
  (fst (gen_enumerate_variables self),
   if Nat.ltb v (iV I) && Nat.ltb s (iL I) && Nat.ltb n (iN I)
   then Ok (option_map Z.of_nat (var_index I (v, s, n)))
   else Err IndexError).
Proof.
  intros self v s n Hc I. destruct (C18_seq_gen_dispatch_eq self Hc) as (_ & _ & _ & H4 & _).
  fold I in H4. unfold gen_get_var_index.
  destruct (gen_enumerate_variables self) as [self' u]. cbn [fst] in *.
  rewrite H4, py_nd3_get_inverse. unfold py_raising.
  destruct (_ && _); [|reflexivity].
  destruct (var_index I (v, s, n)) as [k|]; cbn [option_map].
  - assert (E : (Z.of_nat k <? 0)%Z = false) by lia. rewrite E. reflexivity.
  - reflexivity.
Qed.
Print Assumptions C18_seq_gen_get_var_index_eq.

Theorem C18_seq_gen_get_var_tuple_index_eq : forall self k, seq_coherent self ->
  gen_get_var_tuple_index self k = (fst (gen_enumerate_variables self), Ok (var_tuple (seq_inst self) k)).
Proof.
  intros self k Hc. destruct (C18_seq_gen_dispatch_eq self Hc) as (H1 & _).
  unfold gen_get_var_tuple_index.
  destruct (gen_enumerate_variables self) as [self' u]. cbn [fst] in *.
  unfold py_list_item, var_tuple, py_try. rewrite H1.
  destruct (nth_error _ k); reflexivity.
Qed.
Print Assumptions C18_seq_gen_get_var_tuple_index_eq.

(* the C18 headline for the GENERATED enumeration *)
Theorem C18_seq_gen_exact : forall self,
  q_variables_enumerated self = false ->
  let I := seq_inst self in
  let self' := fst (gen_enumerate_variables self) in
  (forall v s n,
     In (v, s, n) (q_var_mapping self') <->
     (v < iV I)%nat /\ (s < iL I)%nat /\ (n < iN I)%nat /\
     (s <> 0%nat /\ S s <> iL I /\
      (s = 1%nat -> In (0%nat, n) (map fst (arcs (ig I)))) /\
      (S (S s) = iL I -> In (n, 0%nat) (map fst (arcs (ig I)))))) /\
  NoDup (q_var_mapping self') /\
  q_num_variables self' = length (q_var_mapping self') /\
  (forall v s n, (v < iV I)%nat -> (s < iL I)%nat -> (n < iN I)%nat ->
     (In (v, s, n) (q_var_mapping self') /\ assoc_t (v, s, n) (q_fixed_values self') = None) \/
     (~ In (v, s, n) (q_var_mapping self') /\ exists z, assoc_t (v, s, n) (q_fixed_values self') = Some z)).
Proof.
  intros self E I self'. unfold self'. rewrite C18_seq_gen_enumerate_eq, E.
  cbn [fst seq_enumerated q_var_mapping q_num_variables q_fixed_values qset_variables_enumerated qset_num_variables
           qset_var_mapping qset_fixed_values qset_var_mapping_inverse].
  fold I. split; [|split; [|split]].
  - intros v s n. apply vars_exact.
  - apply NoDup_vars.
  - apply num_variables_length.
  - intros v s n Hv Hs Hn. destruct (fixed_or_free I v s n Hv Hs Hn) as [(k & Hk & Hf)|(z & Hk & Hf)].
    + left. split; [|exact Hf]. apply var_index_In_iff. exists k; exact Hk.
    + right. split; [|exists z; exact Hf]. intros Hin. apply var_index_In_iff in Hin. destruct Hin as [k Hk'].
      congruence.
Qed.
Print Assumptions C18_seq_gen_exact.

Theorem C18_seq_gen_lookup_laws : forall self, seq_coherent self ->
  let I := seq_inst self in
  (forall v s n, In (v, s, n) (vars I) ->
     exists k, snd (gen_get_var_index self v s n) = Ok (Some (Z.of_nat k)) /\
               snd (gen_get_var_tuple_index self k) = Ok (Some (v, s, n)) /\ (k < num_variables I)%nat) /\
  (forall k, (k < num_variables I)%nat ->
     exists v s n, snd (gen_get_var_tuple_index self k) = Ok (Some (v, s, n)) /\
                   snd (gen_get_var_index self v s n) = Ok (Some (Z.of_nat k))) /\
  (forall v s n, (v < iV I)%nat -> (s < iL I)%nat -> (n < iN I)%nat -> ~ In (v, s, n) (vars I) ->
     snd (gen_get_var_index self v s n) = Ok None) /\
  (forall k, (num_variables I <= k)%nat -> snd (gen_get_var_tuple_index self k) = Ok None).
Proof.
  intros self Hc I.
  assert (Hr : forall v s n, In (v, s, n) (vars I) ->
               Nat.ltb v (iV I) && Nat.ltb s (iL I) && Nat.ltb n (iN I) = true).
  { intros v s n Hin. apply in_vars in Hin. rewrite !andb_true_iff, !Nat.ltb_lt. tauto. }
  destruct (inverse_laws I) as (L1 & L2 & L3 & L4). rewrite <- num_variables_length in L2, L4.
  split; [|split; [|split]].
  - intros v s n Hin. destruct (L1 _ Hin) as (k & H1 & H2). exists k.
    rewrite C18_seq_gen_get_var_index_eq, C18_seq_gen_get_var_tuple_index_eq by exact Hc. cbn [snd]. fold I.
    rewrite (Hr _ _ _ Hin), H1, H2. repeat split.
    rewrite num_variables_length. eapply var_index_lt; exact H1.
  - intros k Hk. destruct (L2 k Hk) as ([[v s] n] & H1 & H2). exists v, s, n.
    rewrite C18_seq_gen_get_var_index_eq, C18_seq_gen_get_var_tuple_index_eq by exact Hc. cbn [snd]. fold I.
    assert (Hin : In (v, s, n) (vars I)) by (apply var_index_In_iff; exists k; exact H2).
    rewrite (Hr _ _ _ Hin), H1, H2. split; reflexivity.
  - intros v s n Hv Hs Hn Hnot.
    rewrite C18_seq_gen_get_var_index_eq by exact Hc. cbn [snd]. fold I.
    assert (E : Nat.ltb v (iV I) && Nat.ltb s (iL I) && Nat.ltb n (iN I) = true)
      by (rewrite !andb_true_iff, !Nat.ltb_lt; tauto).
    rewrite E, (L3 _ Hnot). reflexivity.
  - intros k Hk. rewrite C18_seq_gen_get_var_tuple_index_eq by exact Hc. cbn [snd]. fold I.
    rewrite (L4 k Hk). reflexivity.
Qed.
Print Assumptions C18_seq_gen_lookup_laws.
