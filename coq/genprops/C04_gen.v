(* C04_gen -- the definitions GENERATED from the three get_sufficient_penalty methods and from
   RoutingProblem.get_qubo (coq/gen/SuffPenGen.v, written by harness/translate_getqubo.py from the
   source under test on every run) compute the hand model's S_arc / S_path / S_seq (Penalty.v), and
   the default-penalty QUBO of the generated get_qubo fed with the generated sufficient penalty is
   the QUBO the C04 theorems are about (Penalty_facts.default_value).

   Compiled by ctx.gen_step("suffpen", ...) in harness/props/c04.py; every Theorem / Example is one
   proof obligation.  Integer carrier (PyMat.Zops), as in the hand model.

   How the Python data appear (theories/PyMat.v):
     self.arcs              VDict arcs        a dict in insertion order; its values are arbitrary
                                              objects a with  a.get_cost() = cost a  (m_get_cost is a parameter)
     self.time_points       any value with len() = nT  (a list VList l or an array Vec nT v)
     self.route_costs       VList (map Scal rc)
     self.vehicle_cost      VList (map Scal vcs)
     self.max_sequence_length   Scal L
     feasibility            any value f with bool(f) = t *)
From Coq Require Import ZArith List Bool Arith Lia.
From VQ Require Import Base LinAlg Penalty Penalty_facts PyMat PyMat_facts.
From VQG Require Import SuffPenGen.
Import ListNotations.
Open Scope Z_scope.

(* path:  sum(np.fabs(cost) for cost in self.route_costs) *)
Theorem C04_gen_S_path :
  forall (rc : list Z) (f : val Z) (t : bool),
    py_truth Zops f = Ok t ->
    gen_path_get_sufficient_penalty Zops f (VList (map (@Scal Z) rc))
    = Ok (Scal (if t then 0 else S_path rc)).
Proof.
  intros rc f t Ht. unfold gen_path_get_sufficient_penalty, e_if. cbn [pbind pret]. rewrite Ht.
  destruct t; [reflexivity|]. cbn [pbind].
  py_unfold. cbn [pbind pret py_iter].
  rewrite (g_each_ok Zops (map (@Scal Z) rc) _ (fun a => match a with Scal z => [Scal (Z.abs z)] | _ => [] end)).
  - rewrite (flat_map_of_map (@Scal Z)). rewrite (flat_map_single (fun z => Scal (Z.abs z))).
    rewrite <- (map_map Z.abs (@Scal Z)). cbn [pbind]. rewrite py_sum_scals_Z. reflexivity.
  - intros a Ha. apply in_map_iff in Ha. destruct Ha as [z [<- _]]. reflexivity.
Qed.

(* arc:  sum(np.fabs(arc.get_cost()) for arc in self.arcs.values()) * len(self.time_points)**2 *)
Theorem C04_gen_S_arc :
  forall (arcs : list (val Z * val Z)) (cost : val Z -> Z) (get_cost : val Z -> result (val Z))
         (tpv : val Z) (nT : nat) (f : val Z) (t : bool),
    py_truth Zops f = Ok t ->
    (forall a, In a (map snd arcs) -> get_cost a = Ok (Scal (cost a))) ->
    py_len Zops tpv = Ok (Scal (Z.of_nat nT)) ->
    gen_arc_get_sufficient_penalty Zops f get_cost (VDict arcs) tpv
    = Ok (Scal (if t then 0 else S_arc (map cost (map snd arcs)) nT)).
Proof.
  intros arcs cost get_cost tpv nT f t Ht Hc Hl.
  unfold gen_arc_get_sufficient_penalty, e_if. cbn [pbind pret]. rewrite Ht.
  destruct t; [reflexivity|]. cbn [pbind].
  py_unfold. cbn [pbind pret py_values py_iter].
  rewrite (g_each_ok Zops (map snd arcs) _ (fun a => [Scal (Z.abs (cost a))])).
  - rewrite (flat_map_single (fun a => Scal (Z.abs (cost a)))).
    rewrite <- (map_map (fun a => Z.abs (cost a)) (@Scal Z)). cbn [pbind].
    rewrite py_sum_scals_Z. cbn [pbind]. rewrite Hl. cbn [pbind pret py_pow py_mul kpow rmul r1 Zops].
    unfold S_arc, pret. rewrite !map_map. apply (f_equal (fun z : Z => Ok (Scal z))). change (rK Zops) with Z. ring.
  - intros a Ha. rewrite (Hc a Ha). reflexivity.
Qed.

(* sequence:  self.max_sequence_length * sum(np.fabs(arc.get_cost() + v_cost)
                                             for arc in self.arcs.values() for v_cost in self.vehicle_cost) *)
Theorem C04_gen_S_seq :
  forall (arcs : list (val Z * val Z)) (cost : val Z -> Z) (get_cost : val Z -> result (val Z))
         (L : Z) (vcs : list Z) (f : val Z) (t : bool),
    py_truth Zops f = Ok t ->
    (forall a, In a (map snd arcs) -> get_cost a = Ok (Scal (cost a))) ->
    gen_seq_get_sufficient_penalty Zops f get_cost (VDict arcs) (Scal L) (VList (map (@Scal Z) vcs))
    = Ok (Scal (if t then 0 else S_seq L (map cost (map snd arcs)) vcs)).
Proof.
  intros arcs cost get_cost L vcs f t Ht Hc.
  unfold gen_seq_get_sufficient_penalty, e_if. cbn [pbind pret]. rewrite Ht.
  destruct t; [reflexivity|]. cbn [pbind].
  py_unfold. cbn [pbind pret py_values py_iter].
  rewrite (g_each_ok Zops (map snd arcs) _
             (fun a => map (@Scal Z) (map (fun v => Z.abs (cost a + v)) vcs))).
  - rewrite flat_map_map_scal. cbn [pbind]. rewrite py_sum_scals_Z. cbn [pbind pret py_mul rmul Zops].
    unfold S_seq, pret. rewrite (flat_map_of_map cost). apply (f_equal (fun z : Z => Ok (Scal z))). change (rK Zops) with Z. ring.
  - intros a Ha. rewrite (Hc a Ha). cbn [pbind].
    rewrite (g_each_ok Zops (map (@Scal Z) vcs) _
               (fun v => match v with Scal z => [Scal (Z.abs (cost a + z))] | _ => [] end)).
    + rewrite (flat_map_of_map (@Scal Z)). rewrite (flat_map_single (fun z => Scal (Z.abs (cost a + z)))).
      rewrite map_map. reflexivity.
    + intros v Hv. apply in_map_iff in Hv. destruct Hv as [z [<- _]]. reflexivity.
Qed.

(* get_qubo as regenerated in SuffPenGen.v: entrywise the hand model (integer instance; the statement
   over every commutative ring is C02_gen_get_qubo_eq in genprops/C02_gen.v) *)
Local Arguments Z.add : simpl never.
Local Arguments Z.mul : simpl never.
Local Arguments Z.opp : simpl never.
Theorem C04_gen_get_qubo_eq :
  forall (m n : nat) (A : mat Z) (b : vec Z) (R : mat Z) (c : vec Z) (Qo : mat Z) (pp : option Z) (S : Z)
         (f : val Z) (t : bool) (suff : val Z -> result (val Z)),
    py_truth Zops f = Ok t ->
    suff f = Ok (Scal (if t then 0 else S)) ->
    exists Q k,
      gen_get_qubo Zops f (opt_val pp) (Ok (Mat m n A, Vec m b, Mat n n R, Scal 0))
                   (Ok (Vec n c, Mat n n Qo)) suff = Ok (Mat n n Q, Scal k) /\
      (forall i j, Q i j = fst (Zget_qubo m t (Zchoose_rho t S pp) (A, b, R) (c, Qo)) i j) /\
      k = snd (Zget_qubo m t (Zchoose_rho t S pp) (A, b, R) (c, Qo)).
Proof.
  intros m n A b R c Qo pp S f t suff Ht Hs.
  unfold gen_get_qubo. cbn. rewrite Hs. py_simpl.
  unfold e_if, py_not. rewrite Ht.
  destruct pp as [r|], t; py_simpl;
    (eexists; eexists; split; [reflexivity|]; split;
     [intros i j; unfold pen_matrix, obj_matrix, AtA, Atb, mv, transpose, two, sufficient;
      destruct (Nat.eqb i j); ring
     | unfold sufficient; try ring]).
Qed.

(* The default-penalty QUBO of the generated code.  get_qubo(feasibility, None) of an object whose
   get_sufficient_penalty is the generated method returns a matrix and a constant whose value
   x'Qx + k is, for every x, Penalty_facts.default_value ... S_F x  -- the function whose binary minimisers
   C04_arc / C04_path / C04_seq (props/C04.v) prove to be the constrained optima. *)
Theorem C04_gen_default_value_arc :
  forall (arcs : list (val Z * val Z)) (cost : val Z -> Z) (get_cost : val Z -> result (val Z))
         (tpv : val Z) (nT : nat) (m n : nat) A b R c Qo (f : val Z),
    py_truth Zops f = Ok false ->
    (forall a, In a (map snd arcs) -> get_cost a = Ok (Scal (cost a))) ->
    py_len Zops tpv = Ok (Scal (Z.of_nat nT)) ->
    exists Q k,
      gen_get_qubo Zops f VNone (Ok (Mat m n A, Vec m b, Mat n n R, Scal 0)) (Ok (Vec n c, Mat n n Qo))
                   (fun fv => gen_arc_get_sufficient_penalty Zops fv get_cost (VDict arcs) tpv)
      = Ok (Mat n n Q, Scal k) /\
      forall x, Zqf n Q x + k = default_value n m A b R c Qo (S_arc (map cost (map snd arcs)) nT) x.
Proof.
  intros arcs cost get_cost tpv nT m n A b R c Qo f Ht Hc Hl.
  destruct (C04_gen_get_qubo_eq m n A b R c Qo None (S_arc (map cost (map snd arcs)) nT) f false
              (fun fv => gen_arc_get_sufficient_penalty Zops fv get_cost (VDict arcs) tpv) Ht
              (C04_gen_S_arc arcs cost get_cost tpv nT f false Ht Hc Hl)) as [Q [k [E [HQ Hk]]]].
  exists Q, k. split; [exact E|]. intros x.
  unfold default_value, default_Qk, Zqubo_value, qubo_value. rewrite Hk. f_equal.
  apply (qf_ext Z 0 Z.add Z.mul). intros i j _ _. apply HQ.
Qed.

Theorem C04_gen_default_value_path :
  forall (rc : list Z) (m n : nat) A b R c Qo (f : val Z),
    py_truth Zops f = Ok false ->
    exists Q k,
      gen_get_qubo Zops f VNone (Ok (Mat m n A, Vec m b, Mat n n R, Scal 0)) (Ok (Vec n c, Mat n n Qo))
                   (fun fv => gen_path_get_sufficient_penalty Zops fv (VList (map (@Scal Z) rc)))
      = Ok (Mat n n Q, Scal k) /\
      forall x, Zqf n Q x + k = default_value n m A b R c Qo (S_path rc) x.
Proof.
  intros rc m n A b R c Qo f Ht.
  destruct (C04_gen_get_qubo_eq m n A b R c Qo None (S_path rc) f false
              (fun fv => gen_path_get_sufficient_penalty Zops fv (VList (map (@Scal Z) rc))) Ht
              (C04_gen_S_path rc f false Ht)) as [Q [k [E [HQ Hk]]]].
  exists Q, k. split; [exact E|]. intros x.
  unfold default_value, default_Qk, Zqubo_value, qubo_value. rewrite Hk. f_equal.
  apply (qf_ext Z 0 Z.add Z.mul). intros i j _ _. apply HQ.
Qed.

Theorem C04_gen_default_value_seq :
  forall (arcs : list (val Z * val Z)) (cost : val Z -> Z) (get_cost : val Z -> result (val Z))
         (L : Z) (vcs : list Z) (m n : nat) A b R c Qo (f : val Z),
    py_truth Zops f = Ok false ->
    (forall a, In a (map snd arcs) -> get_cost a = Ok (Scal (cost a))) ->
    exists Q k,
      gen_get_qubo Zops f VNone (Ok (Mat m n A, Vec m b, Mat n n R, Scal 0)) (Ok (Vec n c, Mat n n Qo))
                   (fun fv => gen_seq_get_sufficient_penalty Zops fv get_cost (VDict arcs) (Scal L)
                                                              (VList (map (@Scal Z) vcs)))
      = Ok (Mat n n Q, Scal k) /\
      forall x, Zqf n Q x + k = default_value n m A b R c Qo (S_seq L (map cost (map snd arcs)) vcs) x.
Proof.
  intros arcs cost get_cost L vcs m n A b R c Qo f Ht Hc.
  destruct (C04_gen_get_qubo_eq m n A b R c Qo None (S_seq L (map cost (map snd arcs)) vcs) f false
              (fun fv => gen_seq_get_sufficient_penalty Zops fv get_cost (VDict arcs) (Scal L)
                                                         (VList (map (@Scal Z) vcs))) Ht
              (C04_gen_S_seq arcs cost get_cost L vcs f false Ht Hc)) as [Q [k [E [HQ Hk]]]].
  exists Q, k. split; [exact E|]. intros x.
  unfold default_value, default_Qk, Zqubo_value, qubo_value. rewrite Hk. f_equal.
  apply (qf_ext Z 0 Z.add Z.mul). intros i j _ _. apply HQ.
Qed.

(* Non-vacuity by evaluation of the generated methods on the data of C04_example_structures: two arcs of
   costs 4 and -3 (objects 10 and 11 of a dict keyed 0, 1), a grid of two time points: S_arc = 7 * 4 = 28;
   route costs 4, -3: S_path = 7; L = 3, arcs of costs 1 and -2, one vehicle with surcharge 10:
   S_seq = 3 * (11 + 8) = 57; feasibility mode: 0. *)
Example C04_gen_example :
  let get_cost (tbl : list (Z * Z)) (a : val Z) : result (val Z) :=
      match a with
      | Scal i => match find (fun p => Z.eqb (fst p) i) tbl with
                  | Some p => Ok (Scal (snd p)) | None => Err AttributeError end
      | _ => Err AttributeError
      end in
  let arcs := VDict [(Scal 0, Scal 10); (Scal 1, Scal 11)] in
  gen_arc_get_sufficient_penalty Zops (VBool false) (get_cost [(10, 4); (11, -3)]) arcs (Vec 2 (fun _ => 5))
    = Ok (Scal 28) /\
  gen_arc_get_sufficient_penalty Zops (VBool true) (get_cost [(10, 4); (11, -3)]) arcs (Vec 2 (fun _ => 5))
    = Ok (Scal 0) /\
  gen_path_get_sufficient_penalty Zops (VBool false) (VList [Scal 4; Scal (-3)]) = Ok (Scal 7) /\
  gen_seq_get_sufficient_penalty Zops (Scal 0) (get_cost [(10, 1); (11, -2)]) arcs (Scal 3) (VList [Scal 10])
    = Ok (Scal 57) /\
  S_arc [4; -3] 2 = 28 /\ S_path [4; -3] = 7 /\ S_seq 3 [1; -2] [10] = 57.
Proof. vm_compute. repeat split. Qed.

Print Assumptions C04_gen_S_path.
Print Assumptions C04_gen_S_arc.
Print Assumptions C04_gen_S_seq.
Print Assumptions C04_gen_get_qubo_eq.
Print Assumptions C04_gen_default_value_arc.
Print Assumptions C04_gen_default_value_path.
Print Assumptions C04_gen_default_value_seq.
Print Assumptions C04_gen_example.
