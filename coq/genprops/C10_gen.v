(* C10_gen -- the definitions GENERATED from QUBOContainer.export (coq/gen/ExportGen.v, written by
   harness/translate_export.py on every run of bin/check C10) coincide with the hand model Export.v at the
   level of the bytes of the written file, and the byte-level round trip holds for the generated function.

   Not part of the coq_makefile project (depends on a generated file); compiled by ctx.gen_step.  Every theorem
   is one proof obligation of C10.

   gen_export_for1 is the body of `for i in range(N)` (state: contents, nDiagonals), gen_export_for2 the body of
   `for (r, c, v) in zip(rows, cols, vals)` (state: contents, nElements); gen_export returns
   (file name, text handed to f.write).  now_text is the text of `datetime.datetime.today()`;
   PyExport.export_problem is the record (as_ising, n, Mat, h, constant) the hand model works from.

   gen_load_matrix_for1 (coq/gen/LoadGen.v, from tools/load_tools.py) is the body of `for line in file_lines` of
   load_matrix in the exception monad (Base.result); its state is the tuple of loop-carried variables
   (data, row, col, constant, mat_length, numrows, numcols).  PyExport.lg_abs maps it to the hand model's state
   (entries = zip(row, col, data), constant, mat_length), PyExport.lg_inv is the invariant (parallel lists, running
   maxima) under which generated and hand-written loader agree; file_lines is what f.readlines() returned. *)
From Coq Require Import ZArith QArith List Bool String Ascii PeanoNat Lia.
From VQ Require Import Base LinAlg PyReport Export Export_facts PyExport PyExport_facts.
From VQG Require Import ExportGen LoadGen.
Import ListNotations.

(* body of the diagonal loop: appends the record line of (i, i, d[i]) preceded by its newline iff d[i] != 0 *)
Theorem C10_gen_diag_step_eq : forall (d : qvec) (cs : list string) (k i : nat),
  gen_export_for1 d (cs, k) i =
  if is_zero (d i) then (cs, k) else (cs ++ [nl_line (record_line i i (d i))], (k + 1)%nat).
Proof.
  intros d cs k i. cbv beta iota zeta delta [gen_export_for1].
  destruct (is_zero (d i)); reflexivity.
Qed.
Print Assumptions C10_gen_diag_step_eq.

(* body of the off-diagonal loop: skips r == c, otherwise appends the record line of (r, c, v) *)
Theorem C10_gen_offdiag_step_eq : forall (cs : list string) (k r c : nat) (v : Q),
  gen_export_for2 (cs, k) (r, c, v) =
  if (r =? c)%nat then (cs, k) else (cs ++ [nl_line (record_line r c v)], (k + 1)%nat).
Proof.
  intros cs k r c v. cbv beta iota zeta delta [gen_export_for2].
  destruct (r =? c)%nat; reflexivity.
Qed.
Print Assumptions C10_gen_offdiag_step_eq.

(* the pieces collected by the two loops, from any state *)
Theorem C10_gen_loops_eq : forall (n : nat) (M : qmat) (d : qvec) (cs : list string) (k : nat),
  fst (range_fold 0 n (gen_export_for1 d) (cs, k)) =
    cs ++ map nl_line (flat_map (fun i => if is_zero (d i) then [] else [record_line i i (d i)]) (seq 0 n)) /\
  fst (for_each (find_entries n M) gen_export_for2 (cs, k)) =
    cs ++ map nl_line (flat_map (fun t => match t with (r, c, v) => if (r =? c)%nat then [] else [record_line r c v] end)
                                (find_entries n M)).
Proof.
  intros n M d cs k. split.
  - unfold range_fold. rewrite Nat.sub_0_r.
    rewrite (fold_left_appends (gen_export_for1 d)
               (fun i => if is_zero (d i) then [] else [nl_line (record_line i i (d i))])).
    + cbn [fst]. f_equal. rewrite map_flat_map. apply flat_map_ext_all.
      intros i. destruct (is_zero (d i)); reflexivity.
    + intros [cs' k'] i. rewrite C10_gen_diag_step_eq.
      destruct (is_zero (d i)); cbn [fst]; [rewrite app_nil_r|]; reflexivity.
  - unfold for_each.
    rewrite (fold_left_appends gen_export_for2
               (fun t => match t with (r, c, v) => if (r =? c)%nat then [] else [nl_line (record_line r c v)] end)).
    + cbn [fst]. f_equal. rewrite map_flat_map. apply flat_map_ext_all.
      intros [[r c] v]. destruct (r =? c)%nat; reflexivity.
    + intros [cs' k'] [[r c] v]. rewrite C10_gen_offdiag_step_eq.
      destruct (r =? c)%nat; cbn [fst]; [rewrite app_nil_r|]; reflexivity.
Qed.
Print Assumptions C10_gen_loops_eq.

(* the whole generated function: choice of (Mat, d, constant, extension) by as_ising, header lines, both loops,
   the default file name, "".join -- for every container (n, Q, J, h, constants), clock text, file name
   argument and value of as_ising: the written text is, byte for byte, the hand model's export_bytes *)
Theorem C10_gen_export_eq : forall (n : nat) (Qm Jm : qmat) (h : qvec) (cq ci : Q) (now : string) (fname : option string) (ising : bool),
  gen_export n Qm Jm h cq ci now fname ising =
  (match fname with Some s => s | None => ("fubo" ++ (if ising then ".rudy" else ".qubo"))%string end,
   export_bytes (" Generated " ++ now) (export_problem n Qm Jm h cq ci ising)).
Proof.
  intros n Qm Jm h cq ci now fname ising.
  unfold gen_export, export_bytes, export_problem. cbv zeta.
  destruct ising; cbv beta iota.
  - pose proof (zip3_sp_find n Jm) as Hz.
    destruct (sp_find n Jm) as [[rows cols] vals]. cbn [fst snd] in Hz. rewrite Hz.
    destruct (range_fold 0 n (gen_export_for1 h) _) as [cs1 k1] eqn:E1.
    apply (f_equal fst) in E1. rewrite (proj1 (C10_gen_loops_eq n Jm h _ _)) in E1. cbn [fst] in E1. subst cs1.
    destruct (for_each (find_entries n Jm) gen_export_for2 _) as [cs2 k2] eqn:E2.
    apply (f_equal fst) in E2. rewrite (proj2 (C10_gen_loops_eq n Jm h _ _)) in E2. cbn [fst] in E2. subst cs2.
    apply f_equal2.
    + destruct fname; reflexivity.
    + rewrite <- concat_nl_lines. f_equal.
      unfold export_text, dvec. cbn [p_ising p_n p_mat p_h p_const map app].
      rewrite map_app. cbn [map]. rewrite <- !app_assoc. reflexivity.
  - pose proof (zip3_sp_find n Qm) as Hz.
    destruct (sp_find n Qm) as [[rows cols] vals]. cbn [fst snd] in Hz. rewrite Hz.
    destruct (range_fold 0 n (gen_export_for1 (qdiag Qm)) _) as [cs1 k1] eqn:E1.
    apply (f_equal fst) in E1. rewrite (proj1 (C10_gen_loops_eq n Qm (qdiag Qm) _ _)) in E1. cbn [fst] in E1. subst cs1.
    destruct (for_each (find_entries n Qm) gen_export_for2 _) as [cs2 k2] eqn:E2.
    apply (f_equal fst) in E2. rewrite (proj2 (C10_gen_loops_eq n Qm (qdiag Qm) _ _)) in E2. cbn [fst] in E2. subst cs2.
    apply f_equal2.
    + destruct fname; reflexivity.
    + rewrite <- concat_nl_lines. f_equal.
      unfold export_text, dvec, qdiag. cbn [p_ising p_n p_mat p_h p_const map app].
      rewrite map_app. cbn [map]. rewrite <- !app_assoc. reflexivity.
Qed.
Print Assumptions C10_gen_export_eq.

(* C10_roundtrip_bytes for the GENERATED export: the loader run on the bytes the generated function writes
   returns the rounded in-memory coefficients (clock text without '=' and newline, as str(datetime) is) *)
Theorem C10_gen_roundtrip_bytes : forall (n : nat) (Qm Jm : qmat) (h : qvec) (cq ci : Q) (now : string) (fname : option string) (ising : bool),
  sall (not_char "=") now = true -> sall (not_char nl) now = true ->
  load_bytes (comment_char ising) (snd (gen_export n Qm Jm h cq ci now fname ising)) =
  Ok (load_entries (export_entries (export_problem n Qm Jm h cq ci ising))).
Proof.
  intros n Qm Jm h cq ci now fname ising H1 H2. rewrite C10_gen_export_eq. cbn [snd].
  apply load_export_bytes.
  - destruct ising; reflexivity.
  - exact H1.
  - exact H2.
Qed.
Print Assumptions C10_gen_roundtrip_bytes.

(* body of the loader's loop: under the invariant, one line takes the generated state to a state with the
   invariant whose abstraction is the hand model's next state, and raises exactly the exception class the hand
   model raises (IndexError for an empty line / a missing field, ValueError for a field that does not parse) *)
Theorem C10_gen_load_step_eq : forall (cc : ascii) (g : lgstate) (line : string), lg_inv g ->
  match gen_load_matrix_for1 cc g line with
  | Ok g' => lg_inv g' /\ load_line cc (lg_abs g) line = Ok (lg_abs g')
  | Err e => load_line cc (lg_abs g) line = Err e
  end.
Proof.
  intros cc [[[[[[data row] col] k] ml] nr] nc] line (Hr & Hc & Hnr & Hnc).
  unfold gen_load_matrix_for1, load_line, lg_abs, lg_inv.
  destruct line as [|c0 rest]; [reflexivity|].
  unfold str_get. cbn [String.get rbind].
  set (line := String c0 rest).
  destruct (Ascii.eqb c0 cc) eqn:E1; cbn [rbind orb].
  - (* comment line *)
    destruct (split_on "=" line) as [|a [|b r]]; cbn [List.length Nat.ltb Nat.leb rbind list_get nth_error].
    + repeat split; assumption.
    + repeat split; assumption.
    + unfold py_float. cbn [l_entries l_const l_matlen]. destruct (parse_dec2 b); cbn [rbind].
      * repeat split; assumption.
      * reflexivity.
  - destruct (Ascii.eqb c0 "#") eqn:E2; cbn [rbind].
    + destruct (split_on "=" line) as [|a [|b r]]; cbn [List.length Nat.ltb Nat.leb rbind list_get nth_error].
      * repeat split; assumption.
      * repeat split; assumption.
      * unfold py_float. cbn [l_entries l_const l_matlen]. destruct (parse_dec2 b); cbn [rbind].
        -- repeat split; assumption.
        -- reflexivity.
    + destruct (Ascii.eqb c0 "p") eqn:E3; cbn [rbind].
      * (* sentinel *)
        unfold int_field, list_get, py_int.
        destruct (nth_error (split_ws line) 4) as [s4|]; cbn [rbind]; [|reflexivity].
        destruct (parse_nat s4) as [a|]; cbn [rbind]; [|reflexivity].
        destruct (nth_error (split_ws line) 5) as [s5|]; cbn [rbind]; [|reflexivity].
        destruct (parse_nat s5) as [b|]; cbn [rbind]; [|reflexivity].
        cbn [l_entries l_const l_matlen]. repeat split; assumption.
      * destruct (List.length (split_ws line) =? 2)%nat; cbn [rbind].
        -- unfold int_field, list_get, py_int.
           destruct (nth_error (split_ws line) 1) as [s1|]; cbn [rbind]; [|reflexivity].
           destruct (parse_nat s1) as [a|]; cbn [rbind]; [|reflexivity].
           cbn [l_entries l_const l_matlen]. repeat split; assumption.
        -- unfold int_field, float_field, list_get, py_int, py_float.
           destruct (nth_error (split_ws line) 0) as [s0|]; cbn [rbind]; [|reflexivity].
           destruct (parse_nat s0) as [r|]; cbn [rbind]; [|reflexivity].
           destruct (nth_error (split_ws line) 1) as [s1|]; cbn [rbind]; [|reflexivity].
           destruct (parse_nat s1) as [c|]; cbn [rbind]; [|reflexivity].
           destruct (nth_error (split_ws line) 2) as [s2|]; cbn [rbind]; [|reflexivity].
           destruct (parse_dec2 s2) as [v|]; cbn [rbind]; [|reflexivity].
           rewrite !list_max_r_snoc. cbn [rbind l_entries l_const l_matlen].
           rewrite zip3_snoc by assumption.
           split; [|reflexivity].
           rewrite !app_length, !fold_left_app. cbn [List.length fold_left]. subst nr nc.
           repeat split; lia.
Qed.
Print Assumptions C10_gen_load_step_eq.

(* the whole loop over the lines of a file, from any state with the invariant *)
Theorem C10_gen_load_loop_eq : forall (cc : ascii) (lines : list string) (g : lgstate), lg_inv g ->
  match for_each_r lines (gen_load_matrix_for1 cc) g with
  | Ok g' => lg_inv g' /\ load_lines cc (lg_abs g) lines = Ok (lg_abs g')
  | Err e => load_lines cc (lg_abs g) lines = Err e
  end.
Proof.
  intros cc. apply (for_each_r_sim lg_inv lg_abs (gen_load_matrix_for1 cc) (load_line cc) (load_lines cc)).
  - reflexivity.
  - reflexivity.
  - apply C10_gen_load_step_eq.
Qed.
Print Assumptions C10_gen_load_loop_eq.

(* the generated load_matrix (initial values, the loop, the mat_length assertion, size = max(numrows, numcols) + 1,
   coo_array with the explicit square shape) is the hand model's load_text: same (shape, matrix, constant), same
   exception class -- for every list of lines and every comment character *)
Theorem C10_gen_load_matrix_eq : forall (lines : list string) (fname : string) (cc : ascii),
  gen_load_matrix lines fname cc = loaded_value (load_text cc lines).
Proof.
  intros lines fname cc. unfold gen_load_matrix, load_text. cbv zeta.
  pose proof (C10_gen_load_loop_eq cc lines ([], [], [], 0%Z, None, O, O)) as H.
  cbn [lg_abs zip3 combine] in H.
  destruct (for_each_r lines (gen_load_matrix_for1 cc) _) as [g'|e]; cbn [rbind].
  - destruct H as [Hinv Hl]; [repeat split; reflexivity|].
    assert (Hl' : load_lines cc (mkL [] 0%Z None) lines = Ok (lg_abs g')) by exact Hl. rewrite Hl'. clear Hl Hl'.
    destruct g' as [[[[[[data row] col] k] ml] nr] nc]. destruct Hinv as (Hr & Hc & Hnr & Hnc).
    cbn [lg_abs l_matlen l_entries l_const].
    unfold entry. rewrite (zip3_length row col data Hr Hc).
    assert (E : load_entries (k, zip3 row col data) = (S (Nat.max nr nc), coo_dense (zip3 row col data), k)).
    { unfold load_entries, load_size. cbn [fst snd].
      destruct (fold_max_rows row col data O Hr Hc) as [E1 E2]. rewrite E1, E2, <- Hnr, <- Hnc. reflexivity. }
    destruct ml as [m|].
    + destruct (List.length row =? m)%nat; cbn [rbind loaded_value].
      * rewrite E. unfold py_coo_array. rewrite Nat.add_1_r. reflexivity.
      * reflexivity.
    + cbn [rbind loaded_value]. rewrite E. unfold py_coo_array. rewrite Nat.add_1_r. reflexivity.
  - assert (Hl' : load_lines cc (mkL [] 0%Z None) lines = Err e) by (apply H; repeat split; reflexivity).
    rewrite Hl'. reflexivity.
Qed.
Print Assumptions C10_gen_load_matrix_eq.

(* the two wrappers pass the comment characters of Export.comment_char *)
Theorem C10_gen_load_wrappers_eq : forall (lines : list string) (fname : string),
  gen_load_ising_matrix lines fname = loaded_value (load_text (comment_char true) lines) /\
  gen_load_qubo_matrix lines fname = loaded_value (load_text (comment_char false) lines).
Proof. intros. split; apply C10_gen_load_matrix_eq. Qed.
Print Assumptions C10_gen_load_wrappers_eq.

(* headline for the two GENERATED functions together: the generated loader, run on the lines readlines() cuts out
   of the bytes the generated export writes, returns the rounded in-memory problem: shape (m, m), matrix and
   constant of load_entries (export_entries p), whose relation to the coefficients is C10_roundtrip / C10_exactly_once *)
Theorem C10_gen_roundtrip_generated : forall (n : nat) (Qm Jm : qmat) (h : qvec) (cq ci : Q) (now : string)
    (fname : option string) (ising : bool),
  sall (not_char "=") now = true -> sall (not_char nl) now = true ->
  let file := gen_export n Qm Jm h cq ci now fname ising in
  (if ising then gen_load_ising_matrix else gen_load_qubo_matrix) (read_lines (snd file)) (fst file) =
  loaded_value (Ok (load_entries (export_entries (export_problem n Qm Jm h cq ci ising)))).
Proof.
  intros n Qm Jm h cq ci now fname ising H1 H2. cbv zeta.
  rewrite <- (C10_gen_roundtrip_bytes n Qm Jm h cq ci now fname ising H1 H2).
  unfold load_bytes.
  destruct ising; apply C10_gen_load_wrappers_eq.
Qed.
Print Assumptions C10_gen_roundtrip_generated.

(* default arguments: file name chosen by the function, QUBO form *)
Theorem C10_gen_defaults : gen_export_default_filename = None /\ gen_export_default_as_ising = false.
Proof. split; reflexivity. Qed.
Print Assumptions C10_gen_defaults.
