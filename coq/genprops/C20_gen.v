(* C20_gen -- the definitions GENERATED from QUBOContainer.report (coq/gen/ReportGen.v, written by
   harness/translate_report.py on every run of bin/check C20) coincide with the hand model Report.v,
   and the C20 headline theorem holds for the generated scan.

   Not part of the coq_makefile project (depends on a generated file); compiled by ctx.gen_step with
     coqc -Q theories VQ -Q props VQP -Q gen VQG -Q genprops VQGP genprops/C20_gen.v
   Every theorem is one proof obligation of C20.

   Reading guide.  gen_report_for1 is the body of `for v in range(1, N)`; its state is the tuple of the
   loop-carried variables in the order of their first assignment in the source,
   (opt_val, second_best, opt_count, exp_val), where exp_val is the exact fraction (numerator, N):
   PyReport.to_gen n embeds the hand model's state (sum, opt, second, count) as
   (opt, second, count, (sum, 2^n)).  gen_report returns the result dictionary as an association list
   in insertion order; PyReport.report_dict says how the hand model's result reads as that dictionary. *)
From Coq Require Import ZArith List Bool String PeanoNat Lia.
From VQ Require Import Base LinAlg Report Report_facts PyReport PyReport_facts.
From VQG Require Import ReportGen.
Import ListNotations.
Open Scope Z_scope.

(* x = [int(s) for s in format(v, '0{}b'.format(n))] is the hand model's digit vector on every v the
   loop visits (Python pads but never truncates: outside 1 <= v < 2^n the two differ) *)
Theorem C20_gen_digits_eq : forall (n v : nat), (0 < v < 2 ^ n)%nat ->
  map (fun s => int_of_digit s) (format_0b n v) = bits n v.
Proof. exact digits_bits. Qed.
Print Assumptions C20_gen_digits_eq.

(* the generated loop body is the hand model's scan step: every tolerance, every state, every v,
   every objective function (the value handed to the step is that of the decoded digit vector) *)
Theorem C20_gen_step_eq : forall (n : nat) (f : list bool -> Z) (tol : Z) (st : sstate) (v : nat),
  gen_report_for1 tol n f (2 ^ n) (to_gen n st) v =
  to_gen n (scan_step tol st (f (map (fun s => int_of_digit s) (format_0b n v)))).
Proof.
  intros n f tol [[[sm opt] sec] cnt] v.
  cbv beta iota zeta delta [gen_report_for1 to_gen scan_step quot_add mkquot fst snd].
  rewrite Z.eqb_refl.
  set (val := f _).
  destruct (Z.abs (val - opt) <=? tol).
  - rewrite Nat.add_1_r. reflexivity.
  - destruct (val <? opt).
    + reflexivity.
    + destruct sec as [s|].
      * destruct (val <? s); reflexivity.
      * reflexivity.
Qed.
Print Assumptions C20_gen_step_eq.

(* the generated loop `for v in range(1, 2 ** n)` from ANY state is the hand model's fold over the
   values of the assignments loop_assignments n *)
Theorem C20_gen_loop_eq : forall (n : nat) (f : list bool -> Z) (tol : Z) (st : sstate),
  range_fold 1 (2 ^ n) (gen_report_for1 tol n f (2 ^ n)) (to_gen n st) =
  to_gen n (fold_left (scan_step tol) (map f (loop_assignments n)) st).
Proof.
  intros n f tol st. rewrite range_fold_seq. unfold loop_assignments. rewrite map_map.
  apply (fold_left_embed (to_gen n) (gen_report_for1 tol n f (2 ^ n)) (scan_step tol) (fun v => f (bits n v))).
  intros s v Hin. apply in_seq in Hin.
  rewrite C20_gen_step_eq. rewrite digits_bits by lia. reflexivity.
Qed.
Print Assumptions C20_gen_loop_eq.

(* the whole generated function with obj_stats: initialisation from const_qubo, N = 2 ** n, the loop,
   and the entries written into the dictionary (optimality_gap only with a runner-up) -- for every
   matrix, n, constant, objective function f and tolerance: the hand model's scan *)
Theorem C20_gen_scan_eq : forall (Q : zmat) (n : nat) (c : Z) (f : list bool -> Z) (tol : Z),
  gen_report Q n c f true tol =
  metrics_entries (metrics_of n (to_upper Q)) ++ stats_entries n (scan tol n c f).
Proof.
  intros Q n c f tol. unfold gen_report. cbv zeta.
  change (c, @None Z, 1%nat, mkquot c (Z.of_nat (Nat.pow 2 n))) with (to_gen n (c, c, @None Z, 1%nat)).
  rewrite C20_gen_loop_eq.
  unfold scan, scan_list.
  destruct (fold_left (scan_step tol) (map f (loop_assignments n)) (c, c, None, 1%nat)) as [[[sm opt] sec] cnt].
  unfold to_gen, mkquot, metrics_of, metrics_entries, stats_entries, distinct_diag, py_unique, py_diagonal.
  rewrite density_den.
  destruct sec as [s|]; reflexivity.
Qed.
Print Assumptions C20_gen_scan_eq.

(* without obj_stats the dictionary holds the four structural metrics only; with it they come first *)
Theorem C20_gen_metrics_eq : forall (p : pattern) (n : nat) (M : zmat) (c : Z) (f : list bool -> Z) (os : bool) (tol : Z),
  firstn 4 (gen_report (container_Q p M) n c f os tol) = metrics_entries (fst (report p n M c os tol)) /\
  gen_report (container_Q p M) n c f false tol = metrics_entries (fst (report p n M c false tol)).
Proof.
  intros p n M c f os tol.
  assert (E : gen_report (container_Q p M) n c f false tol = metrics_entries (metrics_of n (to_upper (container_Q p M)))).
  { unfold gen_report. cbv zeta. unfold mkquot, metrics_of, metrics_entries, distinct_diag, py_unique, py_diagonal.
    rewrite density_den. reflexivity. }
  split.
  - destruct os.
    + rewrite C20_gen_scan_eq. reflexivity.
    + rewrite E. reflexivity.
  - exact E.
Qed.
Print Assumptions C20_gen_metrics_eq.

(* the generated function on the container's own objective x'Qx + c is the hand model's report, read
   as a dictionary: all patterns, sizes, matrices, constants, both values of obj_stats, every tol *)
Theorem C20_gen_report_eq : forall (p : pattern) (n : nat) (M : zmat) (c : Z) (os : bool) (tol : Z),
  gen_report (container_Q p M) n c (eval_qubo n (container_Q p M) c) os tol = report_dict n (report p n M c os tol).
Proof.
  intros p n M c os tol. destruct os.
  - rewrite C20_gen_scan_eq. reflexivity.
  - apply (C20_gen_metrics_eq p n M c _ false tol).
Qed.
Print Assumptions C20_gen_report_eq.

(* C20_metrics for the generated function: size = n, num_observables = number N of monomials x_i x_j
   (i <= j < n) with a non-zero coefficient, density = 2N / ((n+1) n) *)
Theorem C20_gen_metrics_correct : forall (p : pattern) (n : nat) (M : zmat) (c : Z) (f : list bool -> Z) (os : bool) (tol : Z),
  let Q := container_Q p M in
  let N := zsum n (fun j => zsum (S j) (fun i => nz (coef Q i j))) in
  firstn 4 (gen_report Q n c f os tol) =
  [("size"%string, VNat n); ("num_observables"%string, VInt N);
   ("density"%string, VQuot (2 * N, (Z.of_nat n + 1) * Z.of_nat n));
   ("distinct_eigenvalues"%string, VNat (distinct_diag n (to_upper Q)))].
Proof.
  intros p n M c f os tol. cbv zeta.
  rewrite (proj1 (C20_gen_metrics_eq p n M c f os tol)).
  rewrite (report_metrics p n M c os tol). reflexivity.
Qed.
Print Assumptions C20_gen_metrics_correct.

(* C20 headline (C20_scan / C20_scan_meaning) for the GENERATED scan: for every n and every objective
   f with f(0...0) = c, report(obj_stats=True) at tolerance 0 writes, after the metrics,
   expected_value = (sum of f over all 2^n assignments) / 2^n, optimal_value = the minimum (attained,
   a lower bound), num_solutions = the number of assignments attaining it, and optimality_gap =
   runner-up - minimum where the runner-up is the least value strictly above the minimum (attained);
   the key is absent exactly when f is constant *)
Theorem C20_gen_scan_correct : forall (Q : zmat) (n : nat) (f : list bool -> Z) (c : Z),
  f (repeat false n) = c ->
  gen_report Q n c f true 0 = metrics_entries (metrics_of n (to_upper Q)) ++ stats_entries n (brute n f) /\
  exists sm opt sec cnt,
    gen_report Q n c f true 0 = metrics_entries (metrics_of n (to_upper Q)) ++ stats_entries n (sm, opt, sec, cnt) /\
    sm = ref_sum (map f (enum n)) /\
    (exists x, length x = n /\ f x = opt) /\
    (forall x, length x = n -> opt <= f x) /\
    cnt = length (filter (fun x => opt =? f x) (enum n)) /\
    match sec with
    | None => forall x, length x = n -> f x = opt
    | Some s => (exists x, length x = n /\ f x = s) /\ opt < s /\
                (forall x, length x = n -> opt < f x -> s <= f x)
    end.
Proof.
  intros Q n f c H. split.
  - rewrite C20_gen_scan_eq. rewrite (scan_brute n c f H). reflexivity.
  - pose proof (scan_meaning n f c H) as Hm.
    destruct (scan 0 n c f) as [[[sm opt] sec] cnt] eqn:E.
    exists sm, opt, sec, cnt. split.
    + rewrite C20_gen_scan_eq. rewrite E. reflexivity.
    + exact Hm.
Qed.
Print Assumptions C20_gen_scan_correct.

(* the default arguments: no statistics unless asked; 0 <= tol < 1/16, so that on the multiples of
   1/16 the correspondence check feeds, `abs(a - b) <= tol` is `a = b` (tolerance 0 of the model) *)
Theorem C20_gen_defaults :
  gen_report_default_obj_stats = false /\
  0 <= fst gen_report_default_tol /\ 0 < snd gen_report_default_tol /\
  16 * fst gen_report_default_tol < snd gen_report_default_tol.
Proof. vm_compute. repeat split; discriminate. Qed.
Print Assumptions C20_gen_defaults.
