(* C11_gen -- the definitions GENERATED from applications/mirp.py (coq/gen/MirpGen.v, written by
   harness/translate_mirp.py on every run of bin/check C11) coincide with the hand model Mirp.v, and
   the C11 theorem about add_nodes holds for the generated function.

   Not part of the coq_makefile project (it depends on a generated file); harness/props/c11.py compiles
   gen/MirpGen.v and then this file (ctx.gen_step) and counts every theorem below as a proof obligation.
   The MIRP object is MirpWrap.wstate = (state of Mirp.v, port_frequency); a generated method is a
   computation PyMirp.M: object -> (object reached, value or exception class). *)
From Coq Require Import QArith Qabs List Arith Lia.
From VQ Require Import Base Mirp Mirp_facts MirpWrap PyMirp PyMirp_facts.
From VQG Require Import MirpGen.
Import ListNotations.
Local Open Scope Q_scope.

(* MIRP(size, H): running the generated __init__ on the blank object gives Mirp.init_state with an empty
   port_frequency, and does not raise *)
Theorem C11_gen_init_eq : forall size H,
  gen_init size H blank_state = (winit size H, Ok tt).
Proof.
  intros. unfold gen_init. py_red. change (Qeq_bool (inject_Z 0) 0) with true. cbv iota.
  rewrite Qeq_bool_refl. reflexivity.
Qed.
Print Assumptions C11_gen_init_eq.

(* MIRP.add_node is VRPTW.add_node: Mirp.g_add_node with a finite window *)
Theorem C11_gen_add_node_eq : forall x d tw w,
  gen_add_node x d tw w =
  match g_add_node (gr (wst w)) x d (fst tw) (QFin (snd tw)) with
  | Ok g' => (mkW (set_gr (wst w) g') (wpf w), Ok tt)
  | Err e => (w, Err e)
  end.
Proof.
  intros. unfold gen_add_node, vrptw_add_node, with_graph, bind, ret.
  destruct (g_add_node (gr (wst w)) x d (fst tw) (QFin (snd tw))); reflexivity.
Qed.
Print Assumptions C11_gen_add_node_eq.

(* one iteration of the `while True` loop of add_nodes (the generated loop body), on an explicit object:
   leave when the window of visit k ends after the horizon; otherwise add the node name-k (an exception of
   add_node ends the call), append the name to port_mapping[name] (KeyError if that entry is missing) and
   go on with k+1 *)
Theorem C11_gen_add_nodes_body_eq : forall name init rate cap dl g sp dp pm cs hz pf k acc,
  gen_add_nodes_loop1 name init rate cap dl (acc, k) (mkW (mkState g sp dp pm cs hz) pf) =
  if Qltb hz (snd (window cs k init rate cap))
  then (mkW (mkState g sp dp pm cs hz) pf, Ok (Break (acc, k)))
  else match g_add_node g (NVisit name k) dl (fst (window cs k init rate cap)) (QFin (snd (window cs k init rate cap))) with
       | Err e => (mkW (mkState g sp dp pm cs hz) pf, Err e)
       | Ok g' =>
           match pm_get name pm with
           | None => (mkW (mkState g' sp dp pm cs hz) pf, Err KeyError)
           | Some _ => (mkW (mkState g' sp dp (pm_append name (NVisit name k) pm) cs hz) pf,
                        Ok (Continue (acc ++ [NVisit name k], S k)))
           end
       end.
Proof.
  intros. unfold gen_add_nodes_loop1, gen_add_node. py_red.
  destruct (Qltb hz (snd (window cs k init rate cap))); [reflexivity|].
  rewrite (rev_unit acc (NVisit name k)). py_red.
  destruct (g_add_node g (NVisit name k) dl (fst (window cs k init rate cap)) (QFin (snd (window cs k init rate cap))))
    as [g'|e]; [|reflexivity].
  py_red. destruct (pm_get name pm) as [l|] eqn:Eget; [|reflexivity].
  py_red. rewrite Eget. rewrite Nat.add_1_r. reflexivity.
Qed.
Print Assumptions C11_gen_add_nodes_body_eq.

(* the whole loop, from any iteration on: the generated body run by PyMirp.while_true is Mirp.add_nodes_loop
   (in the form add_nodes_loop_k that also returns the counter num_prior_visits, the second local the Python
   loop carries), for every amount of fuel; port_mapping[name] exists because add_nodes sets it just before *)
Theorem C11_gen_add_nodes_loop_eq : forall name init rate cap dl fuel g sp dp pm cs hz pf k acc,
  pm_get name pm <> None ->
  while_true fuel (gen_add_nodes_loop1 name init rate cap dl) (acc, k) (mkW (mkState g sp dp pm cs hz) pf) =
  (mkW (fst (add_nodes_loop_k fuel (mkState g sp dp pm cs hz) name init rate cap dl k acc)) pf,
   snd (add_nodes_loop_k fuel (mkState g sp dp pm cs hz) name init rate cap dl k acc)).
Proof.
  intros name init rate cap dl fuel. induction fuel as [|f IH]; intros g sp dp pm cs hz pf k acc Hpm.
  - reflexivity.
  - cbn [while_true add_nodes_loop_k]. unfold bind at 1. rewrite C11_gen_add_nodes_body_eq.
    cbn [csize horizon gr sports dports pmap].
    destruct (Qltb hz (snd (window cs k init rate cap))); [reflexivity|].
    destruct (g_add_node g (NVisit name k) dl (fst (window cs k init rate cap)) (QFin (snd (window cs k init rate cap))))
      as [g'|e]; [|reflexivity].
    destruct (pm_get name pm) as [l|] eqn:Eget; [|congruence].
    apply IH. rewrite (pm_get_append_same name (NVisit name k) l pm Eget). discriminate.
Qed.
Print Assumptions C11_gen_add_nodes_loop_eq.

(* generated add_nodes = hand model, for all parameters, every object and every amount of fuel: the state
   reached is that of Mirp.add_nodes_fuel, port_frequency is updated as MirpWrap.pf_step says, and the
   value / exception is the same *)
Theorem C11_gen_add_nodes_eq : forall fuel w name init rate cap,
  gen_add_nodes fuel name init rate cap w =
  (mkW (fst (add_nodes_fuel fuel (wst w) name init rate cap)) (pf_step (wpf w) (AddNodes name init rate cap)),
   snd (add_nodes_fuel fuel (wst w) name init rate cap)).
Proof.
  intros fuel [[g sp dp pm cs hz] pf] name init rate cap.
  unfold gen_add_nodes, add_nodes_fuel, pf_step, demand_level, port_freq.
  change (inject_Z 0) with 0. py_red.
  destruct (Qltb 0 rate); py_red; (destruct (Qeq_bool rate 0); [reflexivity|]); py_red;
    rewrite C11_gen_add_nodes_loop_eq by (rewrite pm_get_set_same; discriminate);
    rewrite add_nodes_loop_k_spec;
    match goal with |- context [add_nodes_loop_k ?a ?b ?c ?d ?e ?f ?g ?h ?i] =>
      destruct (add_nodes_loop_k a b c d e f g h i) as [s' [[l k']|e']] end; reflexivity.
Qed.
Print Assumptions C11_gen_add_nodes_eq.

(* the C11 headline for the GENERATED add_nodes (C11_nodes restated): on any MIRP object with cargo size > 0,
   for rate <> 0, a cargo that fits the tank and a port name not used yet, run with any fuel > K, where
   K = nvisits is the first k whose window ends after the horizon: it returns normally; the nodes added are
   EXACTLY the visits 0..K-1 -- those whose windows end within the horizon (first clause) -- named name-k
   with demand -size / +size and window (tw0 k, tw1 k); arcs untouched; the port is registered and
   port_mapping[name] lists the new names; port_frequency[name] = |cap / rate|. *)
Theorem C11_gen_nodes : forall w name init rate cap fuel,
  let s := wst w in
  0 < csize s -> ~ rate == 0 -> csize s <= cap ->
  (forall j, has_name (NVisit name j) (mnodes (gr s)) = false) ->
  let size := csize s in
  let H := horizon s in
  let K := nvisits size H init rate cap in
  (K < fuel)%nat ->
  (forall k, H < tw1 size k init rate cap <-> (K <= k)%nat) /\
  exists w',
    gen_add_nodes fuel name init rate cap w = (w', Ok (map (NVisit name) (seq 0 K))) /\
    mnodes (gr (wst w')) = mnodes (gr s) ++
      map (fun k => mkNode (NVisit name k) (if Qltb 0 rate then - size else size)
                           (tw0 size k init rate cap) (QFin (tw1 size k init rate cap))) (seq 0 K) /\
    marcs (gr (wst w')) = marcs (gr s) /\
    sports (wst w') = (if Qltb 0 rate then sports s ++ [name] else sports s) /\
    dports (wst w') = (if Qltb 0 rate then dports s else dports s ++ [name]) /\
    pm_get name (pmap (wst w')) = Some (map (NVisit name) (seq 0 K)) /\
    (forall p, p <> name -> pm_get p (pmap (wst w')) = pm_get p (pmap s)) /\
    csize (wst w') = csize s /\ horizon (wst w') = horizon s /\
    wpf w' = pf_set name (Qabs (cap / rate)) (wpf w).
Proof.
  intros w name init rate cap fuel s Hs Hr Hc Hfresh size H K Hf.
  destruct (add_nodes_spec s name init rate cap fuel Hs Hr Hc Hfresh Hf) as [Hcut [s' [E [_ [A [B [C [D [E1 [E2 [E3 E4]]]]]]]]]]].
  split; [exact Hcut|].
  exists (mkW s' (pf_set name (Qabs (cap / rate)) (wpf w))).
  rewrite C11_gen_add_nodes_eq. fold s. rewrite E. cbn [fst snd wst wpf pf_step].
  apply Qeq_bool_false in Hr. rewrite Hr.
  repeat split; auto.
Qed.
Print Assumptions C11_gen_nodes.

(* a cargo larger than the tank (C11_nodes_cargo_exceeds_tank restated for the generated function) *)
Theorem C11_gen_nodes_cargo_exceeds_tank : forall w name init rate cap fuel,
  let s := wst w in
  0 < csize s -> ~ rate == 0 -> cap < csize s -> (0 < fuel)%nat ->
  (forall j, has_name (NVisit name j) (mnodes (gr s)) = false) ->
  exists w',
    gen_add_nodes fuel name init rate cap w
    = (w', if Qltb (horizon s) (tw1 (csize s) 0 init rate cap) then Ok [] else Err ValueError) /\
    gr (wst w') = gr s /\
    sports (wst w') = (if Qltb 0 rate then sports s ++ [name] else sports s) /\
    dports (wst w') = (if Qltb 0 rate then dports s else dports s ++ [name]) /\
    pm_get name (pmap (wst w')) = Some [].
Proof.
  intros w name init rate cap fuel s Hs Hr Hc Hf Hfresh.
  destruct (add_nodes_too_big_spec s name init rate cap fuel Hs Hr Hc Hf Hfresh) as [s' [E [A [B [C D]]]]].
  exists (mkW s' (pf_step (wpf w) (AddNodes name init rate cap))).
  rewrite C11_gen_add_nodes_eq. fold s. rewrite E. cbn [fst snd wst].
  repeat split; auto.
Qed.
Print Assumptions C11_gen_nodes_cargo_exceeds_tank.
