(* C07_routes_gen.v -- SequenceBasedRoutingProblem.get_routes as GENERATED from the source
   (coq/gen/SeqRoutesGen.v on top of coq/gen/SeqGen.v, both written on every run by
   harness/translate_seqroutes.py) equals the hand model Seq.decode, values and exception classes, and
   C07_decode holds for it.
     coqc -Q theories VQ -Q props VQP -Q gen VQG -Q genprops VQGP genprops/C07_routes_gen.v
   Only Theorems.  Every statement is for ALL object states `self` that obey the cache discipline of the
   enumeration (PySeq.seq_coherent: a set variables_enumerated flag means the maps are those of the problem
   `seq_inst self` the object holds) and ALL solution vectors x with at most one entry per variable.
   It re-uses the theorems of genprops/C18_seq_gen.v about the generated enumeration (compiled by the seqenum
   step that precedes this one in harness/props/c07.py), as C07_gen.v does. *)
From Coq Require Import ZifyBool.
From VQ Require Import Base LinAlg Vrptw Seq Seq_facts PyEnumCore PyEnumCore_facts PySeq PySeq_facts PyRoutes
  PyRoutes_facts PySeqRoutes.
From VQG Require Import SeqGen SeqRoutesGen.
From VQGP Require Import C18_seq_gen.
From VQP Require C07.

(* ---------- the generated enumeration methods, as get_routes calls them ---------- *)
(* self.enumerate_variables(): the object becomes `seq_done self`, which holds the same problem, is coherent
   and has its flag set; every later call changes nothing *)
Theorem C07_routes_gen_enumerate_call : forall self, seq_coherent self ->
  gen_enumerate_variables self = (seq_done self, Datatypes.tt) /\
  gen_enumerate_variables (seq_done self) = (seq_done self, Datatypes.tt) /\
  seq_inst (seq_done self) = seq_inst self /\ seq_coherent (seq_done self) /\
  q_fixed_values (seq_done self) = fixed_items (seq_inst self) /\
  q_max_vehicles (seq_done self) = iV (seq_inst self) /\
  q_max_sequence_length (seq_done self) = iL (seq_inst self).
Proof.
  intros self Hc. pose proof (C18_seq_gen_enumerate_eq self) as He. fold (seq_done self) in He.
  destruct (C18_seq_gen_dispatch_eq self Hc) as (_ & _ & H3 & _ & H5 & H6 & H7).
  rewrite He in H3, H5, H6, H7. cbn [fst] in *.
  split; [exact He|]. split; [rewrite C18_seq_gen_enumerate_eq, H5; reflexivity|].
  split; [exact H6|]. split; [exact H7|]. split; [exact H3|].
  rewrite <- H6. split; reflexivity.
Qed.
Print Assumptions C07_routes_gen_enumerate_call.

(* self.get_var_tuple_index(k) after the enumeration: var_mapping[k], None beyond the list; nothing changes *)
Theorem C07_routes_gen_tuple_index : forall self k, seq_coherent self ->
  gen_get_var_tuple_index (seq_done self) k = (seq_done self, Ok (nth_error (vars (seq_inst self)) k)).
Proof.
  intros self k Hc. destruct (C07_routes_gen_enumerate_call self Hc) as (_ & He & HI & Hc' & _).
  rewrite (C18_seq_gen_get_var_tuple_index_eq (seq_done self) k Hc'), He, HI. reflexivity.
Qed.
Print Assumptions C07_routes_gen_tuple_index.

(* ---------- the sorting pipeline ---------- *)
(* tuples_to_sort = np.flip(np.array(soln_var_tuples), -1); arg_sorted = np.lexsort(tuples_to_sort.T);
   tuples_ordered = [soln_var_tuples[i] for i in arg_sorted]   for a list of tuples without None: the hand
   model's stable insertion sort by (vehicle, position, node) -- whatever ties there are *)
Theorem C07_routes_gen_sort_eq : forall sel : list tuple, sel <> [] ->
  exists idxs,
    np_lexsort (np_T (np_flip (Nd2 (map row3 sel)) (-1))) = Ok (NdIdx idxs) /\
    py_mapE (fun i => py_bind (py_list_item (map Some sel) i) (fun t => Ok t)) idxs = Ok (map Some (sort_t sel)).
Proof.
  intros sel Hne. rewrite sort_t_sort_by.
  apply (lexsort_pipeline row3 lex_le 3 sel Hne); [lia | reflexivity | exact row3_leb].
Qed.
Print Assumptions C07_routes_gen_sort_eq.

(* ---------- the loops ---------- *)
(* `for si in range(self.max_sequence_length)`: Seq.decode_pos -- one tuple is popped per position (IndexError
   when none is left); it is skipped with a warning when it is not (vi, si, .) or when the arc from the
   previous node is not allowed (`prev_node and not check_arc(..)`: None and node 0 are falsy) *)
Theorem C07_routes_gen_pos_loop_eq : forall self v ss q prev r rs,
  exists prev',
    py_forE (gen_get_routes_body2 v) ss (self, map Some q, rs ++ [r], prev) =
    match decode_pos (seq_inst self) v ss q prev r with
    | Ok (r', q') => Ok (self, map Some q', rs ++ [r'], prev')
    | Err e => Err e
    end.
Proof.
  intros self v ss. induction ss as [|s ss IH]; intros q prev r rs.
  - exists prev. reflexivity.
  - cbn [py_forE decode_pos]. unfold gen_get_routes_body2 at 1.
    destruct q as [|[[tv ts] tn] q].
    + cbn [map]. rewrite py_list_pop_nil. exists prev. reflexivity.
    + cbn [map]. rewrite py_list_pop_head. cbn [py_bind py_tuple_of fst snd].
      destruct (negb (Nat.eqb tv v) || negb (Nat.eqb ts s)); [apply IH|].
      rewrite and_optnat_truthy, C18_seq_gen_check_arc_eq.
      destruct (truthy prev && negb (check_arc (seq_inst self) (match prev with Some p => p | None => O end, tn)));
        [apply IH|].
      rewrite py_list_getitem_last. cbn [py_bind]. rewrite py_list_setitem_last. cbn [py_bind].
      unfold py_append. apply IH.
Qed.
Print Assumptions C07_routes_gen_pos_loop_eq.

(* `for vi in range(self.max_vehicles)`: Seq.decode_veh -- a new route per vehicle, prev_node reset *)
Theorem C07_routes_gen_veh_loop_eq : forall self vs q rs, seq_coherent self ->
  exists q',
    py_forE gen_get_routes_body1 vs (seq_done self, rs, map Some q) =
    match decode_veh (seq_inst self) vs q rs with
    | Ok rs' => Ok (seq_done self, rs', map Some q')
    | Err e => Err e
    end.
Proof.
  intros self vs q rs Hc. destruct (C07_routes_gen_enumerate_call self Hc) as (_ & _ & HI & _ & _ & _ & HL).
  revert q rs. induction vs as [|v vs IH]; intros q rs.
  - exists q. reflexivity.
  - cbn [py_forE decode_veh]. unfold gen_get_routes_body1 at 1. unfold py_append, py_range.
    destruct (C07_routes_gen_pos_loop_eq (seq_done self) v (seq 0 (q_max_sequence_length (seq_done self))) q None [] rs)
      as [prev' Hp].
    rewrite Hp, HL, HI. clear Hp.
    destruct (decode_pos (seq_inst self) v (seq 0 (iL (seq_inst self))) q None []) as [[r' q1]|e]; cbn [py_bind].
    + apply IH.
    + exists q. reflexivity.
Qed.
Print Assumptions C07_routes_gen_veh_loop_eq.

(* ---------- get_routes ---------- *)
(* For every coherent object (enumerated or not, whatever else it stores) and every vector x with at most one
   entry per variable: the generated get_routes returns what the hand model's decode returns -- the same
   routes, or the same exception class (IndexError when the tuples run out) -- and leaves the object with its
   variables enumerated. *)
Theorem C07_routes_gen_get_routes_eq : forall self x, seq_coherent self ->
  (length x <= num_variables (seq_inst self))%nat ->
  gen_get_routes self x = seq_routes_result (seq_done self) (decode (seq_inst self) x).
Proof.
  intros self x Hc Hl.
  destruct (C07_routes_gen_enumerate_call self Hc) as (He & _ & HI & _ & Hfx & HV & HL).
  pose proof (flatnonzero_sel (seq_inst self) x Hl) as Hsel.
  pose proof (fixed_ones_comp (fixed_items (seq_inst self))) as Hfo.
  pose proof (fun a => C07_routes_gen_tuple_index self a Hc) as Hti.
  unfold gen_get_routes. rewrite He. cbn [py_call_m py_bind]. cbv zeta.
  unfold decode, sel_free in *.
  set (nz := map fst (filter (fun tx : tuple * Z => negb (snd tx =? 0)) (combine (vars (seq_inst self)) x))) in *.
  set (ones := map fst (filter (fun tz : tuple * Z => snd tz =? 1) (fixed_items (seq_inst self)))) in *.
  unfold tuple in *.
  destruct (np_flatnonzero x) as [|k ks] eqn:En.
  - cbn [length Nat.eqb]. destruct nz; [reflexivity | discriminate Hsel].
  - cbn [length Nat.eqb]. set (idx := k :: ks) in *.
    rewrite (py_mapM_settle _ (nth_error (vars (seq_inst self))) (seq_done self) (seq_done self) idx); cycle 1.
    { discriminate. }
    { intros a. rewrite (Hti a). reflexivity. }
    { intros a. rewrite (Hti a). reflexivity. }
    cbn [py_bind]. unfold tuple in *. rewrite Hsel, Hfx, Hfo.
    unfold py_list_concat. rewrite <- map_app.
    set (sel := nz ++ ones).
    assert (Hne : sel <> []).
    { unfold sel. destruct nz; [discriminate Hsel | discriminate]. }
    change (fun t_ : nat * nat * nat => [Z.of_nat (fst (fst t_)); Z.of_nat (snd (fst t_)); Z.of_nat (snd t_)]) with row3.
    pose proof (np_array_rows_all (A:=nat * nat * nat) row3 sel) as Hrows.
    destruct (C07_routes_gen_sort_eq sel Hne) as (idxs & H1 & H2).
    destruct (C07_routes_gen_veh_loop_eq self (py_range (q_max_vehicles (seq_done self))) (sort_t sel) [] Hc) as [q' Hv].
    unfold tuple in *. rewrite Hrows. cbn [py_bind].
    rewrite H1. cbn [py_bind np_iter]. rewrite H2. cbn [py_bind].
    rewrite Hv. unfold py_range. rewrite HV.
    destruct nz as [|t0 sf] eqn:Esf; [discriminate Hsel|]. fold sel.
    destruct (decode_veh (seq_inst self) (seq 0 (iV (seq_inst self))) (sort_t sel) []); reflexivity.
Qed.
Print Assumptions C07_routes_gen_get_routes_eq.

(* beyond the quantifier: a vector that selects a position beyond the variables while some tuple is fixed to
   one (always the case when there is a vehicle, a position and a node: (v, 0, depot) is fixed to one):
   get_var_tuple_index returns None for that position, the list handed to np.array mixes tuples and None, and
   np.array raises ValueError.  (The hand model's decode ignores the entries beyond the variables there.) *)
Theorem C07_routes_gen_get_routes_beyond : forall self x k, seq_coherent self ->
  In k (np_flatnonzero x) -> (num_variables (seq_inst self) <= k)%nat -> fixed_ones (seq_inst self) <> [] ->
  gen_get_routes self x = Err ValueError.
Proof.
  intros self x k Hc Hk Hbig Hones.
  destruct (C07_routes_gen_enumerate_call self Hc) as (He & _ & HI & _ & Hfx & HV & HL).
  pose proof (fixed_ones_comp (fixed_items (seq_inst self))) as Hfo.
  pose proof (fun a => C07_routes_gen_tuple_index self a Hc) as Hti.
  unfold gen_get_routes. rewrite He. cbn [py_call_m py_bind]. cbv zeta.
  unfold fixed_ones in *.
  set (ones := map fst (filter (fun tz : tuple * Z => snd tz =? 1) (fixed_items (seq_inst self)))) in *.
  unfold tuple in *.
  destruct (np_flatnonzero x) as [|k0 ks] eqn:En; [destruct Hk|].
  cbn [length Nat.eqb]. set (idx := k0 :: ks) in *.
  rewrite (py_mapM_settle _ (nth_error (vars (seq_inst self))) (seq_done self) (seq_done self) idx); cycle 1.
  { discriminate. }
  { intros a. rewrite (Hti a). reflexivity. }
  { intros a. rewrite (Hti a). reflexivity. }
  cbn [py_bind]. unfold tuple in *. rewrite Hfx, Hfo. unfold py_list_concat.
  change (fun t_ : nat * nat * nat => [Z.of_nat (fst (fst t_)); Z.of_nat (snd (fst t_)); Z.of_nat (snd t_)]) with row3.
  set (l := map (nth_error (vars (seq_inst self))) idx ++ map (@Some _) ones).
  assert (HNone : In None l).
  { unfold l. apply in_or_app. left. apply in_map_iff. exists k. split; [|exact Hk].
    apply nth_error_None. rewrite <- num_variables_length. exact Hbig. }
  assert (HSome : exists t, In (Some t) l).
  { destruct ones as [|t ones']; [congruence|]. exists t. unfold l. apply in_or_app. right. left. reflexivity. }
  destruct (np_array_rows_cases (A:=nat * nat * nat) row3 l) as [[sel Hs] | [(_ & Hall & _) | (_ & _ & E)]]; unfold tuple in *.
  - rewrite Hs in HNone. apply in_map_iff in HNone. destruct HNone as (a & Ha & _). discriminate Ha.
  - destruct HSome as [t Ht]. specialize (Hall (Some t) Ht). discriminate Hall.
  - fold l. rewrite E. reflexivity.
Qed.
Print Assumptions C07_routes_gen_get_routes_beyond.

(* ---------- C07_decode for the GENERATED get_routes ---------- *)
(* On every coherent object: the generated get_routes, run on the indicator vector of a walk assignment W of
   the problem the object holds, returns the walks (no warning branch, no IndexError) -- props/C07.v, C07_decode. *)
Theorem C07_routes_gen_decode : forall self (W : nat -> nat -> nat) (xl : list Z),
  seq_coherent self ->
  let I := seq_inst self in
  seq_ok I -> (3 <= iL I)%nat -> walk_assignment I W ->
  length xl = num_variables I ->
  (forall k, (k < num_variables I)%nat -> nth k xl 0 = indicator_free I W k) ->
  gen_get_routes self xl = Ok (seq_done self, walks I W).
Proof.
  intros self W xl Hc I Hok HL HW Hlen Hx.
  rewrite (C07_routes_gen_get_routes_eq self xl Hc) by (fold I; lia).
  fold I. rewrite (C07.C07_decode I W xl Hok HL HW Hlen Hx). reflexivity.
Qed.
Print Assumptions C07_routes_gen_decode.

(* the hypotheses are satisfiable: a fresh object holding the example of props/C07.v (nothing enumerated yet) is
   coherent; the generated get_routes decodes the indicator vector of "vehicle 0 drives D-A-B-D, vehicle 1
   stays" to these walks and leaves the variables enumerated *)
Example C07_routes_gen_example :
  let I := C07.C07_example in
  let self := mkQS (ig I) (iL I) (iV I) (ivc I) O false [] (np_ones3 (O, O, O)) [] in
  let xl := map (indicator_free I (pad_walks [[1; 2]%nat])) (seq 0 (num_variables I)) in
  seq_coherent self /\ seq_inst self = I /\
  gen_get_routes self xl = Ok (seq_enumerated self I, [[0; 1; 2; 0]; [0; 0; 0; 0]]%nat).
Proof.
  intros I self xl.
  assert (Hc : seq_coherent self) by (intros E; discriminate E).
  split; [exact Hc|]. split; [reflexivity|].
  rewrite (C07_routes_gen_get_routes_eq self xl Hc); [vm_compute; reflexivity | vm_compute; lia].
Qed.
Print Assumptions C07_routes_gen_example.
