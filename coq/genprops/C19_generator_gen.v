(* C19_generator_gen -- the model GENERATED from examples/mirp_random.py:get_generator (coq/gen/GeneratorGen.v, written
   by harness/translate_generator.py on every run of bin/check C19): the sampler expressions from which RandomMIRP draws
   its port data, the default leaf distributions and the RandomMIRP(...) call.

   Carrier Qc (exact rationals, `/` is the field division Qcdiv: the generic kdiv of the C19 theorems instantiated).
   Leaves: 0 travel_times, 1 time_windows, 2 time_between_windows (parameters; a None is replaced by the default
   distribution, a raw distribution is wrapped into a WrapperSampler), 3 the distribution uniform(loc=0, scale=cargo_size)
   created in the body.  [d i k m] is the array the k-th rvs call of leaf i returns when asked for m values: different
   calls of the same leaf are different arrays, i.e. INDEPENDENT draws.

   Not part of the coq_makefile project (it depends on a generated file); harness/props/c19.py compiles
   gen/GeneratorGen.v and then this file (ctx.gen_step) and counts every theorem as a proof obligation. *)
From Coq Require Import List Arith Bool ZArith QArith Qcanon String Lia.
From VQ Require Import Base Sampler Sampler_facts PyGenerator PyGenerator_facts.
From VQP Require Import C19.
From VQG Require Import GeneratorGen.
Import ListNotations.
Local Open Scope string_scope.
Local Open Scope list_scope.

(* ------------------------------------------------------------------------------------------ *)
(* what was built: signature, leaves, kinds, constructor call, expressions                      *)
(* ------------------------------------------------------------------------------------------ *)
Theorem C19_generator_gen_signature :
  gen_params = [("num_supply_ports", false); ("num_demand_ports", false); ("time_horizon", false);
                ("travel_times", true); ("time_windows", true); ("time_between_windows", true)].
Proof. reflexivity. Qed.
Print Assumptions C19_generator_gen_signature.

(* the four leaf objects and their distributions uniform(loc, scale), support [loc, loc + scale]:
   travel_times -> uniform(10, 10) = [10, 20]; time_windows -> uniform(2, 2) = [2, 4];
   time_between_windows -> uniform(10, 20) = [10, 30] (each only when the caller passes None);
   the initial supply inventory is ALWAYS uniform(0, cargo_size) = [0, 1] *)
Theorem C19_generator_gen_leaves :
  map li_id gen_leaves = [0; 1; 2; 3]%nat /\
  exists d0 d1 d2 d3,
    map li_src gen_leaves = [LParam "travel_times" (Some d0); LParam "time_windows" (Some d1);
                             LParam "time_between_windows" (Some d2); LFresh d3] /\
    (cval (fst d0) = qlit 10 1 /\ cval (snd d0) = qlit 10 1 /\ supp_of d0 = (qlit 10 1, qlit 20 1)) /\
    (cval (fst d1) = qlit 2 1 /\ cval (snd d1) = qlit 2 1 /\ supp_of d1 = (qlit 2 1, qlit 4 1)) /\
    (cval (fst d2) = qlit 10 1 /\ cval (snd d2) = qlit 20 1 /\ supp_of d2 = (qlit 10 1, qlit 30 1)) /\
    (cval (fst d3) = qlit 0 1 /\ cval (snd d3) = qlit 1 1 /\ supp_of d3 = (qlit 0 1, qlit 1 1)).
Proof.
  split; [reflexivity|]. do 4 eexists. split; [reflexivity|].
  repeat split; try (apply Qc_is_canon; vm_compute; reflexivity);
    unfold supp_of; (apply f_equal2; apply Qc_is_canon; vm_compute; reflexivity).
Qed.
Print Assumptions C19_generator_gen_leaves.

(* every leaf object that is an operand of an operator is a SimpleSampler at that point (never None, never a raw scipy
   distribution: the `is None` replacement and the WrapperSampler wrapping come first), and every leaf object handed to
   the constructor as it is can be sampled (a SimpleSampler or a raw distribution, never None) *)
Theorem C19_generator_gen_leaves_are_samplers :
  uses_ok gen_uses = true /\
  forall u, In u gen_uses ->
    lu_none u = false /\ (lu_operator u = true -> lu_raw u = false /\ lu_sampler u = true) /\
    (lu_operator u = false -> lu_raw u = true \/ lu_sampler u = true).
Proof.
  assert (H : uses_ok gen_uses = true) by (vm_compute; reflexivity).
  split; [exact H|]. intros u Hu. unfold uses_ok in H. rewrite forallb_forall in H. specialize (H u Hu).
  unfold use_ok in H. destruct (lu_operator u), (lu_none u), (lu_raw u), (lu_sampler u); cbn in H; try discriminate;
    repeat split; intros; try discriminate; auto.
Qed.
Print Assumptions C19_generator_gen_leaves_are_samplers.

(* the call RandomMIRP(...): a well-formed call of the dataclass constructor (every field without a default bound once);
   the arguments go to these fields in this order; the cargo size is the number 1, horizon and port counts are the
   parameters of get_generator, the optional fields (cost per unit time, port fees, seed) are left at their defaults *)
Theorem C19_generator_gen_call :
  call_ok gen_class_fields gen_call = true /\
  map fst gen_call = ["cargo_size"; "time_horizon"; "num_supply_ports"; "num_demand_ports"; "inventory_init_supply";
                      "inventory_init_demand"; "inventory_rate_supply"; "inventory_rate_demand"; "inventory_cap_supply";
                      "inventory_cap_demand"; "travel_times"] /\
  fnum gen_call "cargo_size" = Some (qlit 1 1) /\
  field_of gen_call "time_horizon" = Some (FPar "time_horizon") /\
  field_of gen_call "num_supply_ports" = Some (FPar "num_supply_ports") /\
  field_of gen_call "num_demand_ports" = Some (FPar "num_demand_ports") /\
  field_of gen_call "travel_cost_per_unit_time" = None /\ field_of gen_call "supply_port_fees" = None /\
  field_of gen_call "demand_port_fees" = None /\ field_of gen_call "seed" = None.
Proof. repeat split; reflexivity. Qed.
Print Assumptions C19_generator_gen_call.

(* the expression bound to each sampled field, as Python's operator dispatch builds it: constants on the side they are
   written on (1/tbw is constant / sampler: __rtruediv__; tw * rate + 1 is sampler + constant: __add__; ...) *)
Theorem C19_generator_gen_fields :
  fexp gen_call "inventory_rate_supply" = ADiv (AConst (qlit 1 1)) (ALeaf 2) /\
  fexp gen_call "inventory_rate_demand" = ADiv (ANeg (AConst (qlit 1 1))) (ALeaf 2) /\
  fexp gen_call "inventory_cap_supply" = AAdd (AMul (ALeaf 1) (ADiv (AConst (qlit 1 1)) (ALeaf 2))) (AConst (qlit 1 1)) /\
  fexp gen_call "inventory_cap_demand" =
    AAdd (ANeg (AMul (ALeaf 1) (ADiv (ANeg (AConst (qlit 1 1))) (ALeaf 2)))) (AConst (qlit 1 1)) /\
  fexp gen_call "inventory_init_supply" = ALeaf 3 /\
  fexp gen_call "inventory_init_demand" =
    ASub (AAdd (ANeg (AMul (ALeaf 1) (ADiv (ANeg (AConst (qlit 1 1))) (ALeaf 2)))) (AConst (qlit 1 1)))
         (ADiv (AConst (qlit 1 1)) (AConst (qlit 2 1))) /\
  fexp gen_call "travel_times" = ALeaf 0.
Proof. repeat split; reflexivity. Qed.
Print Assumptions C19_generator_gen_fields.

(* the initial demand inventory is built from the OBJECT inventory_cap_demand: its expression contains that of the
   capacity as the left operand of the subtraction *)
Theorem C19_generator_gen_init_demand_contains_cap :
  fexp gen_call "inventory_init_demand" =
  ASub (fexp gen_call "inventory_cap_demand") (ADiv (AConst (qlit 1 1)) (AConst (qlit 2 1))).
Proof. reflexivity. Qed.
Print Assumptions C19_generator_gen_init_demand_contains_cap.

(* ------------------------------------------------------------------------------------------ *)
(* every field is a sampler object (C19_compile_total): no AttributeError-style failure         *)
(* ------------------------------------------------------------------------------------------ *)
Theorem C19_generator_gen_compiles :
  forall name, In name ["inventory_init_supply"; "inventory_init_demand"; "inventory_rate_supply"; "inventory_rate_demand";
                        "inventory_cap_supply"; "inventory_cap_demand"; "travel_times"] ->
    has_leaf (fexp gen_call name) = true /\ exists s, gcompile (fexp gen_call name) = Ok s.
Proof.
  intros name H.
  assert (L : has_leaf (fexp gen_call name) = true)
    by (cbn [In] in H; repeat (destruct H as [<-|H]; [reflexivity|]); destruct H).
  split; [exact L|].
  exact (proj1 (C19_compile_total Qc Qcplus Qcmult Qcminus Qcdiv Qcopp (fexp gen_call name)) L).
Qed.
Print Assumptions C19_generator_gen_compiles.

(* ------------------------------------------------------------------------------------------ *)
(* what each field samples (C19_eval, in the pointwise form C19_eval_pointwise)                  *)
(* ------------------------------------------------------------------------------------------ *)
(* For every leaf oracle d returning arrays of the requested size, every size m and every draw log st, rvs(m) of the
   object bound to the field returns an array of shape (m,) whose entry j is the closed form applied to entry j of the
   arrays of its leaf occurrences; each leaf occurrence is drawn by exactly one rvs(m) call, in the stated order
   (samples1 / samples2 of PyGenerator.v):
     rate_supply = 1 / tbw                  one call of time_between_windows
     rate_demand = (-1) / tbw               one call of time_between_windows
     cap_supply  = tw * (1 / tbw) + 1       one call of time_windows, then one of time_between_windows
     cap_demand  = -(tw * ((-1) / tbw)) + 1 one call of time_windows, then one of time_between_windows
     init_supply = u                        one call of the uniform(0, 1) leaf
     init_demand = cap_demand(tw, tbw) - 1/2   one call of time_windows, then one of time_between_windows
     travel_times = tt                      one call of travel_times (RandomMIRP asks it for an (n, n) table)
   So ONE instance, in which RandomMIRP.get_random_mirp samples each of the six port fields once, calls
   time_between_windows.rvs five times and time_windows.rvs three times (C19_generator_gen_draws_per_instance). *)
Theorem C19_generator_gen_values : forall d : nat -> nat -> nat -> list Qc, leaf_shape d ->
  samples1 d (fexp gen_call "inventory_rate_supply") 2 cf_rate_supply /\
  samples1 d (fexp gen_call "inventory_rate_demand") 2 cf_rate_demand /\
  samples2 d (fexp gen_call "inventory_cap_supply") 1 2 cf_cap_supply /\
  samples2 d (fexp gen_call "inventory_cap_demand") 1 2 cf_cap_demand /\
  samples1 d (fexp gen_call "inventory_init_supply") 3 (fun u => u) /\
  samples2 d (fexp gen_call "inventory_init_demand") 1 2 cf_init_demand /\
  samples1 d (fexp gen_call "travel_times") 0 (fun t => t).
Proof.
  intros d Hd. destruct C19_generator_gen_fields as (F1 & F2 & F3 & F4 & F5 & F6 & F7).
  rewrite F1, F2, F3, F4, F5, F6, F7.
  repeat split;
    first [ apply samples1_intro; [exact Hd | reflexivity | reflexivity | intros vals; reflexivity]
          | apply samples2_intro; [exact Hd | reflexivity | reflexivity | discriminate | intros vals; reflexivity] ].
Qed.
Print Assumptions C19_generator_gen_values.

(* One instance: the six port fields sampled one after the other, in the order in which get_random_mirp samples them
   (init, rate, cap of the supply ports with size ns, then init, rate, cap of the demand ports with size nd), from any
   draw log st.  The (leaf, call number) pairs each field reads: time_between_windows (leaf 2) is called FIVE times, its
   calls number k .. k+4 go to rate_supply, cap_supply, init_demand, rate_demand, cap_demand; time_windows (leaf 1) is
   called three times (cap_supply, init_demand, cap_demand); leaf 3 once.  All pairs are distinct: no two fields share
   a draw.  In particular the capacity INSIDE inventory_init_demand (calls l+1 of tw, k+2 of tbw) and the capacity of the
   port, inventory_cap_demand (calls l+2, k+4), are independent draws. *)
Theorem C19_generator_gen_draws_per_instance : forall (ns nd : nat) (st : dlog),
  let fields := [(fexp gen_call "inventory_init_supply", ns); (fexp gen_call "inventory_rate_supply", ns);
                 (fexp gen_call "inventory_cap_supply", ns); (fexp gen_call "inventory_init_demand", nd);
                 (fexp gen_call "inventory_rate_demand", nd); (fexp gen_call "inventory_cap_demand", nd)] in
  let k := occ 2 st in let l := occ 1 st in
  seq_reads fields st =
    [[(3, occ 3 st)]; [(2, k)]; [(1, l); (2, 1 + k)]; [(1, 1 + l); (2, 2 + k)]; [(2, 3 + k)]; [(1, 2 + l); (2, 4 + k)]]%nat /\
  seq_log fields st = st ++ [(3, ns); (2, ns); (1, ns); (2, ns); (1, nd); (2, nd); (2, nd); (1, nd); (2, nd)]%nat /\
  occ 2 (seq_log fields st) = (5 + k)%nat /\ occ 1 (seq_log fields st) = (3 + l)%nat /\
  occ 3 (seq_log fields st) = (1 + occ 3 st)%nat /\ occ 0 (seq_log fields st) = occ 0 st /\
  NoDup (concat (seq_reads fields st)).
Proof.
  intros ns nd st fields k l. subst fields.
  destruct C19_generator_gen_fields as (F1 & F2 & F3 & F4 & F5 & F6 & F7). rewrite F1, F2, F3, F4, F5, F6. clear F1 F2 F3 F4 F5 F6 F7.
  assert (R : seq_reads
      [(ALeaf 3, ns); (ADiv (AConst (qlit 1 1)) (ALeaf 2), ns);
       (AAdd (AMul (ALeaf 1) (ADiv (AConst (qlit 1 1)) (ALeaf 2))) (AConst (qlit 1 1)), ns);
       (ASub (AAdd (ANeg (AMul (ALeaf 1) (ADiv (ANeg (AConst (qlit 1 1))) (ALeaf 2)))) (AConst (qlit 1 1)))
             (ADiv (AConst (qlit 1 1)) (AConst (qlit 2 1))), nd);
       (ADiv (ANeg (AConst (qlit 1 1))) (ALeaf 2), nd);
       (AAdd (ANeg (AMul (ALeaf 1) (ADiv (ANeg (AConst (qlit 1 1))) (ALeaf 2)))) (AConst (qlit 1 1)), nd)] st =
    [[(3, occ 3 st)]; [(2, k)]; [(1, l); (2, 1 + k)]; [(1, 1 + l); (2, 2 + k)]; [(2, 3 + k)]; [(1, 2 + l); (2, 4 + k)]]%nat).
  { cbn [seq_reads occ_reads leaves app map]. rewrite !occ_app. cbn [occ Nat.eqb]. subst k l.
    repeat (f_equal; try lia). }
  split; [exact R|]. split; [cbn [seq_log leaves app map]; rewrite <- !app_assoc; reflexivity|].
  cbn [seq_log leaves app map]. rewrite !occ_app. cbn [occ Nat.eqb]. subst k l.
  repeat (split; [lia|]). rewrite R. cbn [concat app].
  repeat (constructor; [cbn [In]; intros H; repeat (destruct H as [H|H]; [inversion H; lia|]); exact H|]).
  constructor.
Qed.
Print Assumptions C19_generator_gen_draws_per_instance.

(* ------------------------------------------------------------------------------------------ *)
(* side conditions over the default supports                                                    *)
(* ------------------------------------------------------------------------------------------ *)
(* ranges of the closed forms for one draw tw in [2, 4], tbw in [10, 30] (both ends are attained at corners) *)
Theorem C19_generator_gen_ranges : forall tw tbw : Qc,
  in_supp (qlit 2 1) (qlit 4 1) tw -> in_supp (qlit 10 1) (qlit 30 1) tbw ->
  in_supp (qlit 1 30) (qlit 1 10) (cf_rate_supply tbw) /\
  in_supp (qlit (-1) 10) (qlit (-1) 30) (cf_rate_demand tbw) /\
  in_supp (qlit 16 15) (qlit 7 5) (cf_cap_supply tw tbw) /\
  in_supp (qlit 16 15) (qlit 7 5) (cf_cap_demand tw tbw) /\
  in_supp (qlit 17 30) (qlit 9 10) (cf_init_demand tw tbw).
Proof.
  intros tw tbw Htw Htbw.
  split; [apply rate_supply_range; exact Htbw|]. split; [apply rate_demand_range; exact Htbw|].
  split; [apply cap_supply_range; assumption|]. split; [apply cap_demand_range; assumption|].
  apply init_demand_range; assumption.
Qed.
Print Assumptions C19_generator_gen_ranges.

Theorem C19_generator_gen_ranges_tight :
  cf_rate_supply (qlit 30 1) = qlit 1 30 /\ cf_rate_supply (qlit 10 1) = qlit 1 10 /\
  cf_cap_supply (qlit 2 1) (qlit 30 1) = qlit 16 15 /\ cf_cap_supply (qlit 4 1) (qlit 10 1) = qlit 7 5 /\
  cf_cap_demand (qlit 2 1) (qlit 30 1) = qlit 16 15 /\ cf_cap_demand (qlit 4 1) (qlit 10 1) = qlit 7 5 /\
  cf_init_demand (qlit 2 1) (qlit 30 1) = qlit 17 30 /\ cf_init_demand (qlit 4 1) (qlit 10 1) = qlit 9 10.
Proof. repeat split; apply Qc_is_canon; vm_compute; reflexivity. Qed.
Print Assumptions C19_generator_gen_ranges_tight.

(* The side conditions, for INDEPENDENT draws: every field has its own draws of time_windows / time_between_windows
   (tbw_rs for rate_supply, tw_cs tbw_cs for cap_supply, u for init_supply, tw_id tbw_id for the capacity inside
   init_demand, tbw_rd for rate_demand, tw_cd tbw_cd for cap_demand), all inside the default supports.  Cargo size 1.
   rate_supply > 0, rate_demand < 0, both capacities >= cargo size, 0 <= init_supply <= cap_supply,
   init_supply <= cargo size (first supply window starts at a time >= 0), 0 < init_demand <= cap_demand although the two
   capacities are different draws (init_demand <= 9/10 < 16/15 <= cap_demand), and cap_demand - cargo size < init_demand
   (first demand window starts at a positive time). *)
Theorem C19_generator_gen_side_conditions :
  forall tbw_rs tw_cs tbw_cs u tw_id tbw_id tbw_rd tw_cd tbw_cd : Qc,
  in_supp (qlit 10 1) (qlit 30 1) tbw_rs ->
  in_supp (qlit 2 1) (qlit 4 1) tw_cs -> in_supp (qlit 10 1) (qlit 30 1) tbw_cs ->
  in_supp (qlit 0 1) (qlit 1 1) u ->
  in_supp (qlit 2 1) (qlit 4 1) tw_id -> in_supp (qlit 10 1) (qlit 30 1) tbw_id ->
  in_supp (qlit 10 1) (qlit 30 1) tbw_rd ->
  in_supp (qlit 2 1) (qlit 4 1) tw_cd -> in_supp (qlit 10 1) (qlit 30 1) tbw_cd ->
  let size := qlit 1 1 in
  (qlit 0 1 < size /\
   qlit 0 1 < cf_rate_supply tbw_rs /\ cf_rate_demand tbw_rd < qlit 0 1 /\
   size <= cf_cap_supply tw_cs tbw_cs /\ size <= cf_cap_demand tw_cd tbw_cd /\
   (qlit 0 1 <= u /\ u <= cf_cap_supply tw_cs tbw_cs) /\ u <= size /\
   (qlit 0 1 < cf_init_demand tw_id tbw_id /\ cf_init_demand tw_id tbw_id <= cf_cap_demand tw_cd tbw_cd) /\
   cf_cap_demand tw_cd tbw_cd - size < cf_init_demand tw_id tbw_id)%Qc.
Proof.
  intros tbw_rs tw_cs tbw_cs u tw_id tbw_id tbw_rd tw_cd tbw_cd H1 H2 H3 H4 H5 H6 H7 H8 H9 size. subst size.
  pose proof (rate_supply_range tbw_rs H1) as R1. pose proof (rate_demand_range tbw_rd H7) as R2.
  pose proof (cap_supply_range tw_cs tbw_cs H2 H3) as R3. pose proof (cap_demand_range tw_cd tbw_cd H8 H9) as R4.
  pose proof (init_demand_range tw_id tbw_id H5 H6) as R5.
  set (rs := cf_rate_supply tbw_rs) in *. set (rd := cf_rate_demand tbw_rd) in *.
  set (cs := cf_cap_supply tw_cs tbw_cs) in *. set (cd := cf_cap_demand tw_cd tbw_cd) in *.
  set (id := cf_init_demand tw_id tbw_id) in *. clearbody rs rd cs cd id.
  clear H1 H2 H3 H5 H6 H7 H8 H9. destruct R1, R2, R3, R4, R5, H4. qc2q.
  repeat split; Lqa.lra.
Qed.
Print Assumptions C19_generator_gen_side_conditions.

(* The author's derivation (comments of get_generator: "init > cap - size", init = cap - size/2) is about ONE capacity:
   with the SAME draw, cap - size < init_demand <= cap holds for ALL values of the draws.  The code draws the capacity
   inside init_demand and the capacity of the port independently (C19_generator_gen_draws_per_instance); then
   init_demand(tw', tbw') <= cap_demand(tw, tbw) iff tw'/tbw' - tw/tbw <= 1/2.  Over the default supports the
   left side is at most 4/10 - 2/30 = 1/3, so the bound holds there -- by the numbers of the defaults, not by
   construction. *)
Theorem C19_generator_gen_init_demand_cap_independent : forall tw tbw tw' tbw' : Qc,
  (cf_init_demand tw tbw <= cf_cap_demand tw tbw /\ cf_cap_demand tw tbw - qlit 1 1 < cf_init_demand tw tbw)%Qc /\
  (cf_init_demand tw' tbw' <= cf_cap_demand tw tbw <-> tw' / tbw' - tw / tbw <= qlit 1 2)%Qc.
Proof. intros. split; [apply init_demand_same_draw | apply init_demand_le_cap_iff]. Qed.
Print Assumptions C19_generator_gen_init_demand_cap_independent.

(* ... and it is FALSE for independent draws outside the default supports: the default time windows [2, 4] with a
   caller-supplied time_between_windows whose support is [2, 30] (e.g. uniform(loc=2, scale=28)): the capacity inside
   init_demand drawn as (4, 2), the capacity of the port as (2, 30): initial inventory 5/2 > capacity 16/15. *)
Theorem C19_generator_gen_init_demand_le_cap_nondefault_refuted :
  exists tw tbw tw' tbw' : Qc,
    in_supp (qlit 2 1) (qlit 4 1) tw /\ in_supp (qlit 2 1) (qlit 4 1) tw' /\
    in_supp (qlit 2 1) (qlit 30 1) tbw /\ in_supp (qlit 2 1) (qlit 30 1) tbw' /\
    cf_cap_demand tw tbw = qlit 16 15 /\ cf_init_demand tw' tbw' = qlit 5 2 /\
    (cf_cap_demand tw tbw < cf_init_demand tw' tbw')%Qc.
Proof.
  exists (qlit 2 1), (qlit 30 1), (qlit 4 1), (qlit 2 1).
  repeat split; try (apply Qc_is_canon; vm_compute; reflexivity); try (vm_compute; discriminate); vm_compute; reflexivity.
Qed.
Print Assumptions C19_generator_gen_init_demand_le_cap_nondefault_refuted.

(* ------------------------------------------------------------------------------------------ *)
(* the explicit hypotheses of the C12_examples_gen_random_* theorems, discharged                *)
(* ------------------------------------------------------------------------------------------ *)
(* get_random_mirp passes every field through sample(field, size): a sampler object is sampled by rvs(size), the number
   cargo_size is returned as it is (C19_sample_helper; size = 1 for the scalar) *)
Theorem C19_generator_gen_sampled_through_helper :
  forall (d : nat -> nat -> nat -> list Qc) (st : dlog),
    (forall size, fnum gen_call "cargo_size" = Some size -> gsample d (PScalar size) 1 st = (Ok (PScalar size), st)) /\
    (forall name s n, gcompile (fexp gen_call name) = Ok s ->
       gsample d (PSampler s) n st = (Ok (PSeq (fst (grvs d n s st))), snd (grvs d n s st))).
Proof.
  intros d st. destruct (C19_sample_helper Qc q1 Qcplus Qcmult Qcdiv Qcopp d 1 st) as [N _]. split.
  - intros size _. apply (N (PScalar size)); [intros s; discriminate|]. left. split; reflexivity.
  - intros name s n _. apply (proj2 (C19_sample_helper Qc q1 Qcplus Qcmult Qcdiv Qcopp d n st)).
Qed.
Print Assumptions C19_generator_gen_sampled_through_helper.

(* For every leaf oracle whose arrays have the requested size and whose entries lie in the default supports
   (time_windows in [2, 4], time_between_windows in [10, 30], the init-supply leaf in [0, 1]), for all port counts and
   for ANY draw logs st1 .. st6 from which the six fields are sampled (so: for independent draws, in any order):
   with size = the cargo_size argument, is_ / rs_ / cs the supply arrays and id / rd / cd the demand arrays,
   (a) the two hypotheses the C12_examples_gen_random_alternation / _load / _arcset theorems leave open, in the form they
       have there (over Q):  0 < size  and  forall x in cs ++ cd, size <= x;
   (b) the assertions of get_random_mirp on these arrays cannot fail, EXCEPT `inventory_init_supply > 0` which needs a
       draw > 0 (only 0 <= is provable: see C19_generator_gen_init_supply_assert_refuted);
   (c) the hypotheses of the C11 window / safety theorems for every port assembled from these arrays, whichever entries
       are combined: rate <> 0, 0 <= init <= cap, size <= cap. *)
Theorem C19_generator_gen_discharges : forall d : nat -> nat -> nat -> list Qc, leaf_shape d ->
  draws_in d 1 (qlit 2 1) (qlit 4 1) -> draws_in d 2 (qlit 10 1) (qlit 30 1) -> draws_in d 3 (qlit 0 1) (qlit 1 1) ->
  forall (ns nd : nat) (st1 st2 st3 st4 st5 st6 : dlog) size s_is s_rs s_cs s_id s_rd s_cd,
  fnum gen_call "cargo_size" = Some size ->
  gcompile (fexp gen_call "inventory_init_supply") = Ok s_is -> gcompile (fexp gen_call "inventory_rate_supply") = Ok s_rs ->
  gcompile (fexp gen_call "inventory_cap_supply") = Ok s_cs -> gcompile (fexp gen_call "inventory_init_demand") = Ok s_id ->
  gcompile (fexp gen_call "inventory_rate_demand") = Ok s_rd -> gcompile (fexp gen_call "inventory_cap_demand") = Ok s_cd ->
  let is_ := fst (grvs d ns s_is st1) in let rs_ := fst (grvs d ns s_rs st2) in let cs := fst (grvs d ns s_cs st3) in
  let id := fst (grvs d nd s_id st4) in let rd := fst (grvs d nd s_rd st5) in let cd := fst (grvs d nd s_cd st6) in
  ((0 < this size)%Q /\ (forall x, In x (map this (cs ++ cd)) -> (this size <= x)%Q)) /\
  ((length is_ = ns /\ length rs_ = ns /\ length cs = ns /\ length id = nd /\ length rd = nd /\ length cd = nd) /\
   (forall x, In x is_ -> qlit 0 1 <= x)%Qc /\ (forall r, In r rs_ -> qlit 0 1 < r)%Qc /\ (forall x, In x cs -> qlit 0 1 < x)%Qc /\
   (forall x, In x id -> qlit 0 1 < x)%Qc /\ (forall r, In r rd -> r < qlit 0 1)%Qc /\ (forall x, In x cd -> qlit 0 1 < x)%Qc) /\
  ((forall r, In r (rs_ ++ rd) -> r <> qlit 0 1) /\
   (forall i c, In i is_ -> In c cs -> qlit 0 1 <= i /\ i <= c /\ size <= c)%Qc /\
   (forall i c, In i id -> In c cd -> qlit 0 1 <= i /\ i <= c /\ size <= c)%Qc).
Proof.
  intros d Hd D1 D2 D3 ns nd st1 st2 st3 st4 st5 st6 size s_is s_rs s_cs s_id s_rd s_cd Hsize C1 C2 C3 C4 C5 C6.
  destruct (C19_generator_gen_values d Hd) as (V1 & V2 & V3 & V4 & V5 & V6 & _).
  assert (Es : size = qlit 1 1).
  { destruct C19_generator_gen_call as (_ & _ & E & _). rewrite E in Hsize. inversion Hsize. reflexivity. }
  subst size.
  destruct (samples1_range d _ 3 _ _ _ (qlit 0 1) (qlit 1 1) Hd V5 D3 (fun a H => H) s_is ns st1 C1) as [L1 R1].
  destruct (samples1_range d _ 2 _ _ _ _ _ Hd V1 D2 rate_supply_range s_rs ns st2 C2) as [L2 R2].
  destruct (samples2_range d _ 1 2 _ _ _ _ _ _ _ Hd V3 D1 D2 cap_supply_range s_cs ns st3 C3) as [L3 R3].
  destruct (samples2_range d _ 1 2 _ _ _ _ _ _ _ Hd V6 D1 D2 init_demand_range s_id nd st4 C4) as [L4 R4].
  destruct (samples1_range d _ 2 _ _ _ _ _ Hd V2 D2 rate_demand_range s_rd nd st5 C5) as [L5 R5].
  destruct (samples2_range d _ 1 2 _ _ _ _ _ _ _ Hd V4 D1 D2 cap_demand_range s_cd nd st6 C6) as [L6 R6].
  intros is_ rs_ cs id rd cd. fold is_ in L1, R1. fold rs_ in L2, R2. fold cs in L3, R3. fold id in L4, R4.
  fold rd in L5, R5. fold cd in L6, R6. clearbody is_ rs_ cs id rd cd.
  rewrite Forall_forall in R1, R2, R3, R4, R5, R6.
  assert (Q1 : forall x, In x is_ -> (0 <= this x)%Q /\ (this x <= 1)%Q)
    by (intros x Hx; destruct (R1 x Hx); qc2q; split; assumption).
  assert (Q2 : forall x, In x rs_ -> ((1 # 30) <= this x)%Q /\ (this x <= (1 # 10))%Q)
    by (intros x Hx; destruct (R2 x Hx); qc2q; split; assumption).
  assert (Q3 : forall x, In x cs -> ((16 # 15) <= this x)%Q /\ (this x <= (7 # 5))%Q)
    by (intros x Hx; destruct (R3 x Hx); qc2q; split; assumption).
  assert (Q4 : forall x, In x id -> ((17 # 30) <= this x)%Q /\ (this x <= (9 # 10))%Q)
    by (intros x Hx; destruct (R4 x Hx); qc2q; split; assumption).
  assert (Q5 : forall x, In x rd -> ((-1 # 10) <= this x)%Q /\ (this x <= (-1 # 30))%Q)
    by (intros x Hx; destruct (R5 x Hx); qc2q; split; assumption).
  assert (Q6 : forall x, In x cd -> ((16 # 15) <= this x)%Q /\ (this x <= (7 # 5))%Q)
    by (intros x Hx; destruct (R6 x Hx); qc2q; split; assumption).
  clear R1 R2 R3 R4 R5 R6.
  split; [split|split; [split; [repeat split; assumption|]|]].
  - rewrite this_qlit. Lqa.lra.
  - intros x Hx. apply in_map_iff in Hx. destruct Hx as [y [<- Hy]]. rewrite this_qlit.
    apply in_app_or in Hy. destruct Hy as [Hy|Hy]; [destruct (Q3 y Hy)|destruct (Q6 y Hy)]; Lqa.lra.
  - repeat split; intros x Hx; qc2q;
      first [destruct (Q1 x Hx) | destruct (Q2 x Hx) | destruct (Q3 x Hx) | destruct (Q4 x Hx) | destruct (Q5 x Hx)
            | destruct (Q6 x Hx)]; Lqa.lra.
  - split; [|split].
    + intros r Hr E. subst r. apply in_app_or in Hr.
      destruct Hr as [Hr|Hr]; [destruct (Q2 _ Hr) as [A _]|destruct (Q5 _ Hr) as [_ A]]; rewrite this_qlit in A; Lqa.lra.
    + intros i c Hi Hc. destruct (Q1 i Hi), (Q3 c Hc). qc2q. repeat split; Lqa.lra.
    + intros i c Hi Hc. destruct (Q4 i Hi), (Q6 c Hc). qc2q. repeat split; Lqa.lra.
Qed.
Print Assumptions C19_generator_gen_discharges.

(* (b) cannot be improved: the support of uniform(loc=0, scale=cargo_size) contains 0 (scipy draws loc + scale * U with U
   in [0, 1), so 0.0 is a possible value), and get_random_mirp asserts (inventory_init_supply > 0).all().  A leaf oracle
   inside all default supports for which the sampled initial supply inventory has an entry that is not > 0: on such a
   draw get_random_mirp raises AssertionError("Supply initial inventory should be positive") instead of returning. *)
Theorem C19_generator_gen_init_supply_assert_refuted :
  exists d : nat -> nat -> nat -> list Qc,
    leaf_shape d /\ draws_in d 1 (qlit 2 1) (qlit 4 1) /\ draws_in d 2 (qlit 10 1) (qlit 30 1) /\
    draws_in d 3 (qlit 0 1) (qlit 1 1) /\
    forall s, gcompile (fexp gen_call "inventory_init_supply") = Ok s ->
      exists x, In x (fst (grvs d 1 s [])) /\ ~ (qlit 0 1 < x)%Qc.
Proof.
  exists (fun i k m => repeat (if Nat.eqb i 3 then qlit 0 1 else if Nat.eqb i 1 then qlit 3 1 else qlit 20 1) m).
  split; [intros i k m; apply repeat_length|].
  split; [|split; [|split]];
    try (intros k m x Hx; apply repeat_spec in Hx; subst x; cbn [Nat.eqb]; split; vm_compute; discriminate).
  intros s Hs. destruct C19_generator_gen_fields as (_ & _ & _ & _ & F5 & _). rewrite F5 in Hs.
  inversion Hs; subst s. exists (qlit 0 1). split; [left; reflexivity|]. vm_compute. discriminate.
Qed.
Print Assumptions C19_generator_gen_init_supply_assert_refuted.

(* ------------------------------------------------------------------------------------------ *)
(* non-vacuity: an oracle inside the supports, one instance with 2 + 1 ports                    *)
(* ------------------------------------------------------------------------------------------ *)
(* time_windows always 3, time_between_windows 20 at its first call and 12 afterwards, the init-supply leaf 1/2:
   rate_supply = [1/20; 1/20], cap_supply = [5/4; 5/4] (3/12 + 1: its time_between_windows call is the SECOND one),
   init_demand = [3/4], cap_demand = [5/4]; the draw log has the nine calls of C19_generator_gen_draws_per_instance *)
Example C19_generator_gen_example :
  let d := fun i k m : nat => repeat (if Nat.eqb i 3 then qlit 1 2 else if Nat.eqb i 1 then qlit 3 1
                                      else if Nat.eqb k 0 then qlit 20 1 else qlit 12 1) m in
  leaf_shape d /\ draws_in d 1 (qlit 2 1) (qlit 4 1) /\ draws_in d 2 (qlit 10 1) (qlit 30 1) /\
  draws_in d 3 (qlit 0 1) (qlit 1 1) /\
  exists s_is s_rs s_cs s_id s_rd s_cd,
    gcompile (fexp gen_call "inventory_init_supply") = Ok s_is /\ gcompile (fexp gen_call "inventory_rate_supply") = Ok s_rs /\
    gcompile (fexp gen_call "inventory_cap_supply") = Ok s_cs /\ gcompile (fexp gen_call "inventory_init_demand") = Ok s_id /\
    gcompile (fexp gen_call "inventory_rate_demand") = Ok s_rd /\ gcompile (fexp gen_call "inventory_cap_demand") = Ok s_cd /\
    let '(a1, l1) := grvs d 2 s_is [] in let '(a2, l2) := grvs d 2 s_rs l1 in let '(a3, l3) := grvs d 2 s_cs l2 in
    let '(a4, l4) := grvs d 1 s_id l3 in let '(a5, l5) := grvs d 1 s_rd l4 in let '(a6, l6) := grvs d 1 s_cd l5 in
    qvec_eqb a1 [qlit 1 2; qlit 1 2] && qvec_eqb a2 [qlit 1 20; qlit 1 20] && qvec_eqb a3 [qlit 5 4; qlit 5 4] &&
    qvec_eqb a4 [qlit 3 4] && qvec_eqb a5 [qlit (-1) 12] && qvec_eqb a6 [qlit 5 4] = true /\
    l6 = [(3, 2); (2, 2); (1, 2); (2, 2); (1, 1); (2, 1); (2, 1); (1, 1); (2, 1)]%nat.
Proof.
  intros d. split; [intros i k m; apply repeat_length|].
  split; [|split; [|split]];
    try (intros k m x Hx; apply repeat_spec in Hx; subst x; cbn [Nat.eqb]; try destruct (Nat.eqb k 0);
         split; vm_compute; discriminate).
  do 6 eexists. repeat (split; [reflexivity|]). vm_compute. split; reflexivity.
Qed.
Print Assumptions C19_generator_gen_example.
