(* C19_gen -- the definitions GENERATED from tools/sampling.py (coq/gen/SamplerGen.v, written by
   harness/translate_sampling.py on every run) coincide with the hand model of Sampler.v, and the
   C19 theorems hold for the generated overload table.

   This file is not part of the coq_makefile project (it depends on a generated file): the check
   harness/props/c19.py compiles gen/SamplerGen.v and then this file with
     coqc -Q theories VQ -Q props VQP -Q gen VQG -Q genprops VQGP genprops/C19_gen.v
   and counts every theorem below as a proof obligation.  A change of an operator overload in
   the Python source (swapped operands, a forgotten minus, a missing wrap) changes the generated
   term and breaks the corresponding theorem.  Each theorem is self-contained up to the lemmas of
   Sampler_facts.v, except C19_gen_eval / C19_gen_compile_total which use C19_gen_table. *)
From Coq Require Import List Arith Bool.
From VQ Require Import Base Sampler Sampler_facts.
From VQG Require Import SamplerGen.
Import ListNotations.

Theorem C19_gen_neg : forall (K : Type) (k1 : K) (kadd kmul kdiv : K -> K -> K) (kopp : K -> K) self,
  gen_neg K k1 kadd kmul kdiv kopp self = hand_neg self.
Proof. intros; reflexivity. Qed.

Theorem C19_gen_ratio_init : forall (K : Type) (k1 : K) (kadd kmul kdiv : K -> K -> K) (kopp : K -> K) numerator denominator,
  gen_ratio_init K k1 kadd kmul kdiv kopp numerator denominator = hand_ratio_init numerator denominator.
Proof. intros; destruct numerator, denominator; reflexivity. Qed.

Theorem C19_gen_add : forall (K : Type) (k1 : K) (kadd kmul kdiv : K -> K -> K) (kopp : K -> K) self other,
  gen_add K k1 kadd kmul kdiv kopp self other = hand_add self other.
Proof. intros; destruct other; reflexivity. Qed.

Theorem C19_gen_radd : forall (K : Type) (k1 : K) (kadd kmul kdiv : K -> K -> K) (kopp : K -> K) self other,
  gen_radd K k1 kadd kmul kdiv kopp self other = hand_radd self other.
Proof. intros; destruct other; reflexivity. Qed.

Theorem C19_gen_sub : forall (K : Type) (k1 : K) (kadd kmul kdiv : K -> K -> K) (kopp : K -> K) self other,
  gen_sub K k1 kadd kmul kdiv kopp self other = hand_sub kopp self other.
Proof. intros; destruct other; reflexivity. Qed.

Theorem C19_gen_rsub : forall (K : Type) (k1 : K) (kadd kmul kdiv : K -> K -> K) (kopp : K -> K) self other,
  gen_rsub K k1 kadd kmul kdiv kopp self other = hand_rsub self other.
Proof. intros; destruct other; reflexivity. Qed.

Theorem C19_gen_mul : forall (K : Type) (k1 : K) (kadd kmul kdiv : K -> K -> K) (kopp : K -> K) self other,
  gen_mul K k1 kadd kmul kdiv kopp self other = hand_mul self other.
Proof. intros; destruct other; reflexivity. Qed.

Theorem C19_gen_rmul : forall (K : Type) (k1 : K) (kadd kmul kdiv : K -> K -> K) (kopp : K -> K) self other,
  gen_rmul K k1 kadd kmul kdiv kopp self other = hand_rmul self other.
Proof. intros; destruct other; reflexivity. Qed.

Theorem C19_gen_truediv : forall (K : Type) (k1 : K) (kadd kmul kdiv : K -> K -> K) (kopp : K -> K) self other,
  gen_truediv K k1 kadd kmul kdiv kopp self other = hand_truediv self other.
Proof. intros; destruct other; reflexivity. Qed.

Theorem C19_gen_rtruediv : forall (K : Type) (k1 : K) (kadd kmul kdiv : K -> K -> K) (kopp : K -> K) self other,
  gen_rtruediv K k1 kadd kmul kdiv kopp self other = hand_rtruediv self other.
Proof. intros; destruct other; reflexivity. Qed.

(* the rvs methods: generated computation = hand computation, as functions *)
Theorem C19_gen_rvs_Constant : forall (K : Type) (k1 : K) (kadd kmul kdiv : K -> K -> K) (kopp : K -> K),
  gen_rvs_Constant K k1 kadd kmul kdiv kopp = hand_rvs_Constant k1 kmul.
Proof. intros; reflexivity. Qed.

Theorem C19_gen_rvs_Negated : forall (K : Type) (k1 : K) (kadd kmul kdiv : K -> K -> K) (kopp : K -> K),
  gen_rvs_Negated K k1 kadd kmul kdiv kopp = hand_rvs_Negated kopp.
Proof. intros; reflexivity. Qed.

Theorem C19_gen_rvs_Sum : forall (K : Type) (k1 : K) (kadd kmul kdiv : K -> K -> K) (kopp : K -> K),
  gen_rvs_Sum K k1 kadd kmul kdiv kopp = hand_rvs_Sum kadd.
Proof. intros; reflexivity. Qed.

Theorem C19_gen_rvs_Product : forall (K : Type) (k1 : K) (kadd kmul kdiv : K -> K -> K) (kopp : K -> K),
  gen_rvs_Product K k1 kadd kmul kdiv kopp = hand_rvs_Product kmul.
Proof. intros; reflexivity. Qed.

Theorem C19_gen_rvs_Ratio : forall (K : Type) (k1 : K) (kadd kmul kdiv : K -> K -> K) (kopp : K -> K),
  gen_rvs_Ratio K k1 kadd kmul kdiv kopp = hand_rvs_Ratio kdiv.
Proof. intros; reflexivity. Qed.

(* rvs of the model is, constructor by constructor, the generated method applied to the rvs calls of
   the fields (these equations determine rvs, which is defined by structural recursion) *)
Theorem C19_gen_rvs_equations :
  forall (K : Type) (k1 : K) (kadd kmul kdiv : K -> K -> K) (kopp : K -> K) (d : nat -> nat -> nat -> list K) (m : nat),
    let R := rvs k1 kadd kmul kdiv kopp d m in
    (forall i, R (Leaf i) = draw_leaf d m i) /\
    (forall c, R (Const c) = gen_rvs_Constant K k1 kadd kmul kdiv kopp c m) /\
    (forall p, R (Neg p) = gen_rvs_Negated K k1 kadd kmul kdiv kopp (R p)) /\
    (forall l, R (Sum l) = gen_rvs_Sum K k1 kadd kmul kdiv kopp (map R l)) /\
    (forall l, R (Prod l) = gen_rvs_Product K k1 kadd kmul kdiv kopp (map R l)) /\
    (forall n dn, R (Ratio n dn) = gen_rvs_Ratio K k1 kadd kmul kdiv kopp (R n) (R dn)).
Proof. intros. repeat split; intros; reflexivity. Qed.

Theorem C19_gen_table : forall (K : Type) (k1 : K) (kadd kmul kdiv : K -> K -> K) (kopp : K -> K),
  table_eq K (gen_table K k1 kadd kmul kdiv kopp) (hand_table kopp).
Proof.
  intros. unfold table_eq. cbn [gen_table hand_table o_neg o_add o_radd o_sub o_rsub o_mul o_rmul o_truediv o_rtruediv].
  repeat split; intros; try destruct x; reflexivity.
Qed.

(* C19_compile_total and C19_eval for expressions compiled with the GENERATED operator table *)
Theorem C19_gen_compile_total :
  forall (K : Type) (k1 : K) (kadd kmul ksub kdiv : K -> K -> K) (kopp : K -> K) (e : aexp K),
    has_leaf e = true ->
    exists s, compile_with kadd kmul ksub kdiv kopp (gen_table K k1 kadd kmul kdiv kopp) e = Ok s.
Proof. intros. apply compile_total_with. assumption. Qed.

Theorem C19_gen_eval :
  forall (K : Type) (k0 k1 : K) (kadd kmul ksub kdiv : K -> K -> K) (kopp : K -> K),
    ring_theory k0 k1 kadd kmul ksub kopp eq ->
    forall (d : nat -> nat -> nat -> list K) (m : nat) (e : aexp K) (s : sampler K),
      compile_with kadd kmul ksub kdiv kopp (gen_table K k1 kadd kmul kdiv kopp) e = Ok s ->
      forall st : dlog,
        rvs k1 kadd kmul kdiv kopp d m s st = spec kadd kmul ksub kdiv kopp d m e st.
Proof.
  intros K k0 k1 kadd kmul ksub kdiv kopp R d m e s H st.
  rewrite (compile_with_ext K kadd kmul ksub kdiv kopp _ _ e (C19_gen_table K k1 kadd kmul kdiv kopp)) in H.
  exact (compile_eval K k0 k1 kadd kmul ksub kdiv kopp R d m e s H st).
Qed.

Print Assumptions C19_gen_table.
Print Assumptions C19_gen_rvs_equations.
Print Assumptions C19_gen_eval.
