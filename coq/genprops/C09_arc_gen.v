(* C09_arc_gen.v -- the model of ArcBasedRoutingProblem.make_feasible / check_and_add_exit_arc GENERATED from
   the source (coq/gen/HeurArcGen.v, harness/translate_heursa.py) equals the hand model Heur_arc.mf_arc, and
   the C09 postcondition holds for the generated procedure.  [C09, arc half; sequence half: C09_gen.v]

   The generated procedures call the GENERATED check_arc / get_arrival_time / enumerate_variables /
   get_var_index (HaArcEnumGen.v = the model of the arcenum package regenerated from the same tree) and the
   GENERATED add_arc / estimate_max_vehicles (HaVrptwGen.v = the model of the vrptw package); their equality
   theorems (HaArcEnum_eq.v, HaVrptw_eq.v = C18_arc_gen.v / C15_gen.v re-checked against these copies) are
   used here.  The object is PyHeurArc.ha; `ha_holds self I`: it holds the problem I and its caches are
   coherent with the enumeration flag.  Python's `while` has no bound; the generated procedure takes a fuel
   (PyHeur.py_whileM: Err OtherError when it runs out): equality holds for EVERY fuel that is at least the
   number of nodes; for every smaller fuel the answer is the same or Err OtherError (..._any_fuel_eq); the hand
   model never answers OtherError (C09_arc_fuel_suffices).

   `Print Assumptions` is issued for the headline theorems; the loop-body theorems before them are used in
   the proof of make_feasible_sim, so its report covers them. *)
From Coq Require Import ZArith List Bool Lia Arith.
From VQ Require Import Base LinAlg Vrptw Vrptw_facts Arc Arc_ref Arc_facts Arc_routes Arc_complete Path Path_facts.
From VQ Require Import Heur Heur_facts Heur_arc Heur_arc_facts.
From VQ Require Import PyEnumCore PyEnumCore_facts PyArc PyArc_facts PyHeur PyHeur_facts PyHeurArc PyHeurArc_facts.
From VQ Require PyVrptw.
From VQP Require C09_arc.
From VQG Require Import HaArcEnumGen HaVrptwGen HaArcEnum_eq HaVrptw_eq HeurArcGen.
Import ListNotations.

(* ---------- the calls of methods translated by other packages ---------- *)
(* add_arc (base class) on the object = Vrptw.add_arc on its graph *)
Theorem C09_gen_arc_call_add_arc_eq : forall self a b t c,
  length (names (ha_graph self)) = length (nodes (ha_graph self)) ->
  ha_call_g (fun g_ => gen_rp_add_arc g_ a b t c) self =
  match add_arc (ha_graph self) a b t c with
  | Ok (g', r) => Ok (ha_set_graph g' self, r)
  | Err e => Err e
  end.
Proof.
  intros self a b t c Hl. unfold ha_call_g, py_call_part.
  destruct C15_gen_rp_delegates as (_ & _ & Ra & _). rewrite Ra, (C15_gen_add_arc _ _ _ _ _ Hl).
  destruct (add_arc (ha_graph self) a b t c) as [[g' r]|e]; reflexivity.
Qed.

(* estimate_max_vehicles = Heur.max_vehicles of the graph; the object is unchanged *)
Theorem C09_gen_arc_call_estimate_eq : forall self,
  ha_call_g (fun g_ => gen_rp_estimate_max_vehicles g_ gen_depot_index_init) self =
  Ok (self, Z.of_nat (Heur.max_vehicles (ha_graph self))).
Proof.
  intros self. unfold ha_call_g, py_call_part.
  destruct C15_gen_rp_delegates as (_ & _ & _ & _ & Re). rewrite Re, C15_gen_estimate_max_vehicles.
  unfold ha_set_graph, aset_graph, ha_graph. destruct self as [[g tps vm nv en] cb ob fs]; reflexivity.
Qed.

(* get_arrival_time on an arc that exists *)
Theorem C09_gen_arc_call_arrival_eq : forall self I dep i j,
  ha_holds self I -> Inv (ig I) -> dict_mem (i, j) (arcs (ig I)) = true ->
  gen_get_arrival_time (ha_a self) dep (i, j) = arrival_time I dep i j.
Proof.
  intros self I dep i j [Hh _] HI Hm. apply dict_mem_get in Hm. destruct Hm as [a Ha].
  exact (C18_arc_gen_arrival_time_eq _ _ dep i j a Hh HI Ha).
Qed.

(* ---------- the scan `for n in unvisited_indices` = Heur_arc.pick_best ---------- *)
Theorem C09_gen_arc_pick_loop_eq : forall l fuel self I cur time best,
  ha_holds self I -> Inv (ig I) ->
  py_forM (gen_make_feasible_body3 fuel self cur time) l (enc_best best) =
  Ok (enc_best (fold_left (fun best n =>
               if dict_mem (cur, n) (arcs (ig I)) then
                 match arrival_time I time cur n with
                 | (_, false) => best
                 | (a, true) =>
                     if ext_leb (Fin a) (win_hi (ig I) n) &&
                        match best with None => true | Some (_, b) => (a <=? b)%Z end
                     then Some (n, a) else best
                 end
               else best) l best)).
Proof.
  induction l as [|n l IH]; intros fuel self I cur time best Hh HI; [reflexivity|].
  cbn [py_forM fold_left]. rewrite <- (IH fuel self I cur time _ Hh HI). clear IH.
  unfold gen_make_feasible_body3 at 1.
  change (gen_check_arc (ha_a self) (cur, n)) with (dict_mem (cur, n) (arcs (ha_graph self))).
  change (snd (ha_get_window (ha_nodes_item self n))) with (win_hi (ha_graph self) n).
  rewrite (ha_holds_graph _ _ Hh).
  destruct (dict_mem (cur, n) (arcs (ig I))) eqn:Em; [|destruct best as [[bn ba]|]; reflexivity].
  rewrite (C09_gen_arc_call_arrival_eq self I time cur n Hh HI Em).
  destruct (arrival_time I time cur n) as [a [|]]; [|destruct best as [[bn ba]|]; reflexivity].
  destruct best as [[bn ba]|]; cbn [enc_best negb]; rewrite ext_leb_min.
  - change (ext_leb (Fin a) (Fin ba)) with (a <=? ba)%Z.
    destruct (ext_leb (Fin a) (win_hi (ig I) n) && (a <=? ba)%Z); reflexivity.
  - change (ext_leb (Fin a) PInf) with true.
    destruct (ext_leb (Fin a) (win_hi (ig I) n) && true); reflexivity.
Qed.

(* ---------- `while building_route` = Heur_arc.route_loop: enough fuel on both sides ---------- *)
Theorem C09_gen_arc_route_loop_eq : forall f F F0 self I cond cur time unv used,
  (forall u c t v b, cond (u, c, t, v, b) = b) ->
  ha_holds self I -> Inv (ig I) -> (length unv < f)%nat -> (length unv < F)%nat ->
  while_sim (py_whileM F cond (gen_make_feasible_body2 F0 self) (map ext4 used, cur, time, unv, true))
            (route_loop f I cur time unv used).
Proof.
  induction f as [|f IH]; intros F F0 self I cond cur time unv used Hcond Hh HI Hf HF; [lia|].
  destruct F as [|F]; [lia|].
  cbn [py_whileM route_loop]. rewrite Hcond. unfold gen_make_feasible_body2 at 1.
  change (None : option nat, PInf) with (enc_best None).
  rewrite (C09_gen_arc_pick_loop_eq unv F0 self I cur time None Hh HI).
  match goal with |- context [enc_best ?X] => change X with (pick_best I cur time unv) end.
  destruct (pick_best I cur time unv) as [[n a]|]; cbn [enc_best py_bind py_finite].
  - rewrite py_list_remove_nat.
    destruct (remove_first n unv) as [unv1|] eqn:Er; cbn [py_bind]; [|reflexivity].
    pose proof (remove_first_length _ _ _ Er) as Hlen.
    unfold py_append. change [(cur, time, n, Fin a)] with (map ext4 [(cur, time, n, a)]). rewrite <- map_app.
    apply IH; auto; lia.
  - destruct (Nat.eqb cur 0); [cbn [while_sim]; eauto|].
    change (gen_check_arc (ha_a self) (cur, 0%nat)) with (dict_mem (cur, 0%nat) (arcs (ha_graph self))).
    rewrite (ha_holds_graph _ _ Hh).
    destruct (dict_mem (cur, 0%nat) (arcs (ig I))) eqn:Em; cbn [negb]; [|reflexivity].
    rewrite (C09_gen_arc_call_arrival_eq self I time cur 0 Hh HI Em).
    destruct (arrival_time I time cur 0) as [a [|]]; [|reflexivity].
    unfold py_append. change [(cur, time, 0%nat, Fin a)] with (map ext4 [(cur, time, 0%nat, a)]). rewrite <- map_app.
    destruct F as [|F]; cbn [py_whileM]; rewrite Hcond; cbn [while_sim]; eauto.
Qed.

(* ---------- `for _ in range(max_vehicles)` = Heur_arc.arc_vehicles ---------- *)
Theorem C09_gen_arc_vehicles_loop_eq : forall (l : list nat) fuel self I unv used,
  ha_holds self I -> Inv (ig I) -> (length unv < fuel)%nat ->
  veh_sim (py_forM (gen_make_feasible_body1 fuel self) l (map ext4 used, unv)) (arc_vehicles (length l) I unv used).
Proof.
  induction l as [|x l IH]; intros fuel self I unv used Hh HI Hf; [reflexivity|].
  cbn [py_forM length arc_vehicles]. unfold gen_make_feasible_body1 at 1.
  unfold py_list_item at 1. rewrite (ha_holds_tp _ _ Hh).
  destruct (tp I) as [|t0 tps]; cbn [nth_error py_bind]; [reflexivity|].
  match goal with |- context [py_whileM fuel ?c _ _] =>
    pose proof (C09_gen_arc_route_loop_eq (S (length unv)) fuel fuel self I c 0%nat t0 unv used
                  ltac:(intros; reflexivity) Hh HI ltac:(lia) Hf) as W end.
  destruct (route_loop (S (length unv)) I 0 t0 unv used) as [[unv1 used1]|e] eqn:Er; cbn [while_sim] in W.
  - destruct W as (c' & t' & b & ->). cbn [py_bind].
    pose proof (route_loop_length _ _ _ _ _ _ _ _ Er). apply IH; auto; lia.
  - rewrite W. reflexivity.
Qed.

(* with ANY fuel the loops either behave as the hand model or run out of fuel (Err OtherError) *)
Theorem C09_gen_arc_route_loop_any_fuel : forall f F F0 self I cond cur time unv used,
  (forall u c t v b, cond (u, c, t, v, b) = b) ->
  ha_holds self I -> Inv (ig I) -> (length unv < f)%nat ->
  or_exhausted (fun rg => while_sim rg (route_loop f I cur time unv used))
               (py_whileM F cond (gen_make_feasible_body2 F0 self) (map ext4 used, cur, time, unv, true)).
Proof.
  induction f as [|f IH]; intros F F0 self I cond cur time unv used Hcond Hh HI Hf; [lia|].
  destruct F as [|F]; [right; cbn [py_whileM]; rewrite Hcond; reflexivity|].
  cbn [py_whileM route_loop]. rewrite Hcond. unfold gen_make_feasible_body2 at 1.
  change (None : option nat, PInf) with (enc_best None).
  rewrite (C09_gen_arc_pick_loop_eq unv F0 self I cur time None Hh HI).
  match goal with |- context [enc_best ?X] => change X with (pick_best I cur time unv) end.
  destruct (pick_best I cur time unv) as [[n a]|]; cbn [enc_best py_bind py_finite].
  - rewrite py_list_remove_nat.
    destruct (remove_first n unv) as [unv1|] eqn:Er; cbn [py_bind]; [|left; reflexivity].
    pose proof (remove_first_length _ _ _ Er) as Hlen.
    unfold py_append. change [(cur, time, n, Fin a)] with (map ext4 [(cur, time, n, a)]). rewrite <- map_app.
    apply IH; auto; lia.
  - left. destruct (Nat.eqb cur 0); [cbn [while_sim]; eauto|].
    change (gen_check_arc (ha_a self) (cur, 0%nat)) with (dict_mem (cur, 0%nat) (arcs (ha_graph self))).
    rewrite (ha_holds_graph _ _ Hh).
    destruct (dict_mem (cur, 0%nat) (arcs (ig I))) eqn:Em; cbn [negb]; [|reflexivity].
    rewrite (C09_gen_arc_call_arrival_eq self I time cur 0 Hh HI Em).
    destruct (arrival_time I time cur 0) as [a [|]]; [|reflexivity].
    unfold py_append. change [(cur, time, 0%nat, Fin a)] with (map ext4 [(cur, time, 0%nat, a)]). rewrite <- map_app.
    destruct F as [|F]; cbn [py_whileM]; rewrite Hcond; cbn [while_sim]; eauto.
Qed.

Theorem C09_gen_arc_vehicles_loop_any_fuel : forall (l : list nat) fuel self I unv used,
  ha_holds self I -> Inv (ig I) ->
  or_exhausted (fun rg => veh_sim rg (arc_vehicles (length l) I unv used))
               (py_forM (gen_make_feasible_body1 fuel self) l (map ext4 used, unv)).
Proof.
  induction l as [|x l IH]; intros fuel self I unv used Hh HI; [left; reflexivity|].
  cbn [py_forM length arc_vehicles]. unfold gen_make_feasible_body1 at 1.
  unfold py_list_item at 1. rewrite (ha_holds_tp _ _ Hh).
  destruct (tp I) as [|t0 tps]; cbn [nth_error py_bind]; [left; reflexivity|].
  match goal with |- context [py_whileM fuel ?c _ _] =>
    pose proof (C09_gen_arc_route_loop_any_fuel (S (length unv)) fuel fuel self I c 0%nat t0 unv used
                  ltac:(intros; reflexivity) Hh HI ltac:(lia)) as [W|W] end.
  - destruct (route_loop (S (length unv)) I 0 t0 unv used) as [[unv1 used1]|e] eqn:Er; cbn [while_sim] in W.
    + destruct W as (c' & t' & b & ->). cbn [py_bind]. apply IH; auto.
    + rewrite W. left. reflexivity.
  - rewrite W. right. reflexivity.
Qed.

(* ---------- check_and_add_exit_arc ---------- *)
Theorem C09_gen_check_and_add_exit_arc_eq : forall self g grid n cost,
  ha_holds self (mkInst g grid) -> length (names g) = length (nodes g) ->
  exit_sim grid self (gen_check_and_add_exit_arc self n cost) (exit_arc_model g n cost).
Proof.
  intros self g grid n cost Hh Hl. unfold gen_check_and_add_exit_arc, exit_arc_model.
  change (gen_check_arc (ha_a self) (n, 0%nat)) with (dict_mem (n, 0%nat) (arcs (ha_graph self))).
  pose proof (ha_holds_graph _ _ Hh) as Eg. cbn [ig] in Eg. rewrite Eg.
  destruct (dict_mem (n, 0%nat) (arcs g)); cbn [negb py_bind exit_sim]; [exists self; auto using ha_flags_ok_refl|].
  unfold py_list_item, ha_node_names. rewrite Eg.
  destruct (nth_error (names g) n) as [nn|]; cbn [py_bind]; [|reflexivity].
  destruct (nth_error (names g) 0) as [dn|]; cbn [py_bind]; [|reflexivity].
  rewrite C09_gen_arc_call_add_arc_eq by (rewrite Eg; exact Hl). rewrite Eg.
  unfold add_arc_assert. destruct (add_arc g nn dn 0 cost) as [[g1 [|]]|e]; cbn [py_bind exit_sim]; try reflexivity.
  eexists. split; [reflexivity|]. split; [|apply ha_flags_ok_down; reflexivity].
  apply ha_holds_stale; [reflexivity|reflexivity|]. exact (ha_holds_tp _ _ Hh).
Qed.

(* ---------- the dummy routes `for n in unvisited_indices` = Heur_arc.arc_dummies ---------- *)
Theorem C09_gen_arc_dummy_loop_eq : forall us fuel high self g grid used,
  ha_holds self (mkInst g grid) -> Inv g ->
  dum_sim grid self (py_forM (gen_make_feasible_body4 fuel high) us (self, map ext4 used)) (arc_dummies high g grid us used).
Proof.
  induction us as [|n us IH]; intros fuel high self g grid used Hh HI.
  - cbn [py_forM arc_dummies dum_sim]. exists self. auto using ha_flags_ok_refl.
  - cbn [py_forM arc_dummies]. unfold gen_make_feasible_body4 at 1.
    pose proof (ha_holds_graph _ _ Hh) as Eg. cbn [ig] in Eg.
    pose proof (Inv_names_length _ HI) as Hl.
    match goal with |- context [py_list_item (ha_node_names ?s) 0%nat] => set (self1 := s) end.
    assert (Hh1 : ha_holds self1 (mkInst g grid)).
    { apply ha_holds_stale; [reflexivity | exact Eg | exact (ha_holds_tp _ _ Hh)]. }
    assert (Eg1 : ha_graph self1 = g) by exact Eg.
    assert (Hen1 : ha_variables_enumerated self1 = false) by reflexivity.
    assert (Hf1 : ha_objective_built self1 = false /\ ha_constraints_built self1 = false) by (split; reflexivity).
    clearbody self1.
    unfold py_list_item at 1 2, ha_node_names. rewrite Eg1.
    destruct (nth_error (names g) 0) as [dn|] eqn:Hd; cbn [py_bind]; [|reflexivity].
    destruct (nth_error (names g) n) as [nn|] eqn:Hn; cbn [py_bind]; [|reflexivity].
    change (gen_check_arc (ha_a self1) (0%nat, n)) with (dict_mem (0%nat, n) (arcs (ha_graph self1))). rewrite Eg1.
    destruct (dict_mem (0%nat, n) (arcs g)); cbn [negb]; [reflexivity|].
    rewrite C09_gen_arc_call_add_arc_eq by (rewrite Eg1; exact Hl). rewrite Eg1.
    destruct (add_arc_assert g dn nn high) as [g1|e] eqn:Ea.
    2:{ unfold add_arc_assert in Ea. destruct (add_arc g dn nn 0 high) as [[g1 [|]]|e1]; cbn [py_bind]; congruence. }
    destruct (add_arc_assert_key g 0 n dn nn high g1 HI Hd Hn Ea) as (HI1 & Hm1 & Fn1 & Fd1).
    unfold add_arc_assert in Ea. destruct (add_arc g dn nn 0 high) as [[g1' [|]]|e1]; try discriminate.
    inversion Ea; subst g1'. cbn [py_bind].
    set (self2 := ha_set_graph g1 self1).
    assert (Hh2 : ha_holds self2 (mkInst g1 grid)).
    { apply ha_holds_stale; [exact Hen1|reflexivity|exact (ha_holds_tp _ _ Hh1)]. }
    assert (Hf2 : ha_objective_built self2 = false /\ ha_constraints_built self2 = false) by exact Hf1.
    clearbody self2.
    unfold py_list_item at 1. rewrite (ha_holds_tp _ _ Hh2).
    destruct (tp (mkInst g1 grid)) as [|t0 tps]; cbn [nth_error py_bind]; [reflexivity|].
    rewrite (C09_gen_arc_call_arrival_eq self2 (mkInst g1 grid) t0 0 n Hh2 HI1 Hm1).
    destruct (arrival_time (mkInst g1 grid) t0 0 n) as [a1 [|]]; [|reflexivity].
    pose proof (C09_gen_check_and_add_exit_arc_eq self2 g1 grid n high Hh2 (Inv_names_length _ HI1)) as X.
    unfold exit_arc_model in X. rewrite Fn1, Hn, Hd in X. cbv beta iota in X.
    destruct (if dict_mem (n, 0%nat) (arcs g1) then Ok g1 else add_arc_assert g1 nn dn high) as [g2|e] eqn:Ex.
    2:{ cbn [exit_sim] in X. rewrite X. reflexivity. }
    assert (Hg2 : Inv g2 /\ dict_mem (n, 0%nat) (arcs g2) = true).
    { destruct (dict_mem (n, 0%nat) (arcs g1)) eqn:Em; [inversion Ex; subst; auto|].
      assert (Hn1 : nth_error (names g1) n = Some nn) by (rewrite Fn1; exact Hn).
      assert (Hd1 : nth_error (names g1) 0 = Some dn) by (rewrite Fn1; exact Hd).
      destruct (add_arc_assert_key g1 n 0 nn dn high g2 HI1 Hn1 Hd1 Ex) as (A & B & _). auto. }
    destruct Hg2 as [HI2 Hm2].
    cbn [exit_sim] in X. destruct X as (self3 & -> & Hh3 & Fk3). cbn [py_bind].
    rewrite (C09_gen_arc_call_arrival_eq self3 (mkInst g2 grid) a1 n 0 Hh3 HI2 Hm2).
    destruct (arrival_time (mkInst g2 grid) a1 n 0) as [a2 [|]]; [|reflexivity].
    unfold py_append. rewrite <- app_assoc.
    change ([(0%nat, t0, n, Fin a1)] ++ [(n, a1, 0%nat, Fin a2)]) with (map ext4 [(0%nat, t0, n, a1); (n, a1, 0%nat, a2)]).
    rewrite <- map_app.
    pose proof (IH fuel high self3 g2 grid (used ++ [(0%nat, t0, n, a1); (n, a1, 0%nat, a2)]) Hh3 HI2) as R.
    destruct (arc_dummies high g2 grid us (used ++ [(0%nat, t0, n, a1); (n, a1, 0%nat, a2)])) as [[g' used']|e];
      cbn [dum_sim] in R |- *; [|exact R].
    destruct R as (s4 & -> & H4 & F4). exists s4. split; [reflexivity|]. split; [exact H4|].
    destruct Hf2 as [Hf2a Hf2b].
    exact (ha_flags_ok_after_down self self2 s4 Hf2a Hf2b (ha_flags_ok_trans _ _ _ Fk3 F4)).
Qed.

(* ---------- `for a in used_arcs: feasible_solution[self.get_var_index( *a )] = 1` = Heur_arc.mark_vars ---------- *)
Theorem C09_gen_arc_mark_loop_eq : forall used fuel self x I,
  ha_holds self I -> ha_variables_enumerated self = true -> length x = num_variables I ->
  py_forM (gen_make_feasible_body5 fuel) (map ext4 used) (self, x) =
  match mark_vars I used x with Ok x' => Ok (self, x') | Err e => Err e end.
Proof.
  induction used as [|[[[i s] j] t] used IH]; intros fuel self x I Hh Hen Hx; [reflexivity|].
  cbn [map ext4 py_forM mark_vars]. unfold gen_make_feasible_body5 at 1. cbn [fst snd py_finite py_bind].
  unfold ha_call_a, py_call_part. destruct Hh as [Hh Hc].
  rewrite (C18_arc_gen_get_var_index_eq _ I i s j t Hh Hc).
  destruct (C18_arc_gen_dispatch_eq _ I Hh Hc) as [He _]. rewrite He.
  unfold ha_variables_enumerated in Hen. rewrite Hen. cbn [fst]. rewrite ha_set_a_id.
  destruct (get_var_index I (i, s, j, t)) as [k|] eqn:Ek; cbn [py_bind]; [|reflexivity].
  assert (Hk : (k < length x)%nat).
  { rewrite Hx, num_variables_length. unfold get_var_index in Ek. exact (find_index_lt var_eqb var_eqb_eq _ _ _ Ek). }
  rewrite (np_set_item_nat _ _ _ Hk). cbn [py_bind].
  apply (IH fuel self _ I); [exact (conj Hh Hc) | exact Hen | rewrite path_set_nth_length; exact Hx].
Qed.

(* ---------- make_feasible ---------- *)
(* one proof for both statements: with enough fuel the generated procedure simulates Heur_arc.mf_arc; with any
   fuel it does so or answers Err OtherError (fuel of the `while` exhausted) *)
Theorem C09_gen_arc_make_feasible_fuel : forall fuel self I high,
  ha_holds self I -> Inv (ig I) ->
  ((length (nodes (ig I)) <= fuel)%nat -> mf_sim self (gen_make_feasible fuel self high) (mf_arc I high)) /\
  or_exhausted (fun rg => mf_sim self rg (mf_arc I high)) (gen_make_feasible fuel self high).
Proof.
  intros fuel self I high Hh HI. unfold or_exhausted.
  pose proof (ha_holds_graph _ _ Hh) as Eg.
  unfold gen_make_feasible, mf_arc. unfold py_range, ha_nodes. rewrite Eg, py_list_remove_nat.
  destruct (remove_first 0 (seq 0 (length (nodes (ig I))))) as [unv|] eqn:Er; cbn [py_bind mf_sim];
    [|split; [intros _|left]; reflexivity].
  pose proof (remove_first_length _ _ _ Er) as Hlen. rewrite seq_length in Hlen.
  rewrite C09_gen_arc_call_estimate_eq, Eg. cbn [py_bind]. unfold py_range_z. rewrite Nat2Z.id.
  change (@nil (nat * Z * nat * ext)) with (map ext4 []).
  set (rg := py_forM (gen_make_feasible_body1 fuel self) (seq 0 (Heur.max_vehicles (ig I))) (map ext4 [], unv)).
  match goal with |- (_ -> mf_sim _ (py_bind rg ?K) ?H) /\ _ =>
    assert (Tail : forall rg', veh_sim rg' (arc_vehicles (Heur.max_vehicles (ig I)) I unv []) ->
                               mf_sim self (py_bind rg' K) H) end.
  { intros rg' S1.
    destruct (arc_vehicles (Heur.max_vehicles (ig I)) I unv []) as [[unv1 used1]|e]; cbn [veh_sim] in S1;
      rewrite S1; cbn [py_bind]; [|reflexivity].
    assert (Hh0 : ha_holds self (mkInst (ig I) (igrid I))) by (destruct I; exact Hh).
    pose proof (C09_gen_arc_dummy_loop_eq unv1 fuel high self (ig I) (igrid I) used1 Hh0 HI) as S2.
    destruct (arc_dummies high (ig I) (igrid I) unv1 used1) as [[g2 used2]|e]; cbn [dum_sim] in S2;
      [|rewrite S2; reflexivity].
    destruct S2 as (self2 & -> & Hh2 & Fk2). cbn [py_bind].
    set (I2 := mkInst g2 (igrid I)) in *.
    unfold ha_call_a_total, py_call_part_total. destruct Hh2 as [A1 A2].
    destruct (C18_arc_gen_dispatch_eq _ I2 A1 A2) as (_ & _ & B2 & B3 & B4 & B5). cbv zeta in B2, B3, B4, B5.
    destruct (gen_enumerate_variables (ha_a self2)) as [a' u]. cbn [fst] in *. cbn [py_bind].
    assert (Hh3 : ha_holds (ha_set_a a' self2) I2) by exact (conj B4 B5).
    rewrite (C09_gen_arc_mark_loop_eq used2 fuel (ha_set_a a' self2) _ I2 Hh3 B3)
      by (unfold np_zeros; rewrite repeat_length; exact B2).
    unfold np_zeros. change (ha_num_variables (ha_set_a a' self2)) with (s_num_variables a'). rewrite B2.
    destruct (mark_vars I2 used2 (repeat 0%Z (num_variables I2))) as [x|e]; cbn [py_bind mf_sim]; [|reflexivity].
    exists (ha_set_feasible_solution x (ha_set_a a' self2)). split; [reflexivity|]. split; [exact (conj B4 B5)|].
    split; [reflexivity|].
    assert (Eg2 : ha_graph (ha_set_feasible_solution x (ha_set_a a' self2)) = ha_graph self2).
    { destruct A1 as [G1 _]. destruct B4 as [G2 _]. unfold ha_graph. cbn. congruence. }
    destruct Fk2 as [K1 K2]. split; intros Hflag; rewrite Eg2; [exact (K1 Hflag)|exact (K2 Hflag)]. }
  split.
  - intros Hfuel. apply Tail. subst rg.
    pose proof (C09_gen_arc_vehicles_loop_eq (seq 0 (Heur.max_vehicles (ig I))) fuel self I unv [] Hh HI ltac:(lia)) as S1.
    rewrite seq_length in S1. exact S1.
  - pose proof (C09_gen_arc_vehicles_loop_any_fuel (seq 0 (Heur.max_vehicles (ig I))) fuel self I unv [] Hh HI) as [S1|S1].
    + left. apply Tail. rewrite seq_length in S1. exact S1.
    + right. fold rg in S1. rewrite S1. reflexivity.
Qed.
Print Assumptions C09_gen_arc_make_feasible_fuel.

Theorem C09_gen_arc_make_feasible_sim : forall fuel self I high,
  ha_holds self I -> Inv (ig I) -> (length (nodes (ig I)) <= fuel)%nat ->
  mf_sim self (gen_make_feasible fuel self high) (mf_arc I high).
Proof. intros fuel self I high Hh HI Hf. exact (proj1 (C09_gen_arc_make_feasible_fuel fuel self I high Hh HI) Hf). Qed.
Print Assumptions C09_gen_arc_make_feasible_sim.

(* generated make_feasible = hand model Heur_arc.mf_arc, for every object that holds the problem with coherent
   caches, every high cost and EVERY fuel that is at least the number of nodes: same exception class, or the
   same graph, grid and vector *)
Theorem C09_gen_arc_make_feasible_eq : forall fuel self I high,
  ha_holds self I -> Inv (ig I) -> (length (nodes (ig I)) <= fuel)%nat ->
  ha_obs (gen_make_feasible fuel self high) = mf_arc_obs (mf_arc I high).
Proof. intros fuel self I high Hh HI Hf. apply (mf_sim_obs self). apply C09_gen_arc_make_feasible_sim; assumption. Qed.
Print Assumptions C09_gen_arc_make_feasible_eq.

(* ... and for EVERY fuel whatsoever: the same, or the fuel of the `while` ran out *)
Theorem C09_gen_arc_make_feasible_any_fuel_eq : forall fuel self I high,
  ha_holds self I -> Inv (ig I) ->
  ha_obs (gen_make_feasible fuel self high) = mf_arc_obs (mf_arc I high) \/
  gen_make_feasible fuel self high = Err OtherError.
Proof.
  intros fuel self I high Hh HI.
  destruct (proj2 (C09_gen_arc_make_feasible_fuel fuel self I high Hh HI)) as [S|E]; [left|right; exact E].
  exact (mf_sim_obs self _ _ S).
Qed.
Print Assumptions C09_gen_arc_make_feasible_any_fuel_eq.

(* ... in particular on the object that holds I and has never enumerated, and the fuel never matters *)
Theorem C09_gen_arc_make_feasible_fresh_eq : forall fuel I high,
  Inv (ig I) -> (length (nodes (ig I)) <= fuel)%nat ->
  ha_obs (gen_make_feasible fuel (ha_fresh I) high) = mf_arc_obs (mf_arc I high) /\
  gen_make_feasible fuel (ha_fresh I) high <> Err OtherError.
Proof.
  intros fuel I high HI Hf. split; [apply C09_gen_arc_make_feasible_eq; auto using ha_fresh_holds|].
  pose proof (C09_gen_arc_make_feasible_sim fuel (ha_fresh I) I high (ha_fresh_holds I) HI Hf) as S.
  pose proof (C09_arc.C09_arc_fuel_suffices I high) as Hne.
  destruct (mf_arc I high) as [[I' x]|e]; cbn [mf_sim] in S.
  - destruct S as (self' & -> & _). discriminate.
  - rewrite S. congruence.
Qed.
Print Assumptions C09_gen_arc_make_feasible_fresh_eq.

(* ---------- the C09 postcondition for the GENERATED procedure ---------- *)
(* C09_post_arc: a normal return leaves an object that holds a problem I' (arcs possibly extended, same grid)
   and a 0/1 vector with one entry per variable of I' and A x = b; the used tuples are depot-to-depot chains
   entering every customer once (full statement of props/C09_arc.v) *)
Theorem C09_gen_post_arc : forall fuel self I high self' u,
  ha_holds self I -> Inv (ig I) -> NoDup (igrid I) -> (length (nodes (ig I)) <= fuel)%nat ->
  gen_make_feasible fuel self high = Ok (self', u) ->
  exists I', ha_holds self' I' /\ igrid I' = igrid I /\
    let x := ha_feasible_solution self' in
    length x = num_variables I' /\ Arc_facts.binary x /\ Ax I' x = rhs I' /\
    exists routes : list (list var),
      Forall walk routes /\ NoDup (concat routes) /\
      (forall a, In a (concat routes) -> In a (vars I')) /\
      (forall j, (1 <= j < length (nodes (ig I')))%nat -> cnt (into_node j) (concat routes) = 1%nat) /\
      x = Arc_ref.indicator I' (concat routes) /\ Permutation.Permutation (selected I' x) (concat routes).
Proof.
  intros fuel self I high self' u Hh HI Hg Hf H.
  pose proof (C09_gen_arc_make_feasible_sim fuel self I high Hh HI Hf) as S. rewrite H in S.
  destruct (mf_arc I high) as [[I' x]|e] eqn:E; cbn [mf_sim] in S; [|discriminate].
  destruct S as (s & Es & Hh' & Hx & _). inversion Es; subst s. exists I'. split; [exact Hh'|].
  split.
  - unfold mf_arc in E. destruct (remove_first 0 (seq 0 (length (nodes (ig I))))); [|discriminate].
    destruct (arc_vehicles _ _ _ _) as [[? ?]|]; [|discriminate].
    destruct (arc_dummies _ _ _ _ _) as [[? ?]|]; [|discriminate].
    destruct (mark_vars _ _ _); [|discriminate]. inversion E; reflexivity.
  - cbv zeta. rewrite Hx. exact (C09_arc.C09_post_arc I high I' x HI Hg E).
Qed.
Print Assumptions C09_gen_post_arc.

(* non-vacuity: the example of props/C09_arc.v (greedy route + dummy route) through the GENERATED procedure,
   with exactly as much fuel as there are nodes; with too little fuel the answer is OtherError *)
Example C09_gen_example_arc :
  (exists self',
     gen_make_feasible 4 (ha_fresh C09_arc.ex_arc) 7 = Ok (self', Datatypes.tt) /\
     ha_feasible_solution self' = [1; 0; 0; 0; 0; 0; 1; 0; 0; 0; 0; 0; 1; 0; 0; 1; 0; 0; 0; 0; 0; 0;
                                   1; 0; 0; 0; 0; 0; 0; 0; 0; 0]%Z /\
     map fst (arcs (ha_graph self')) = [(0, 1); (1, 2); (2, 0); (3, 0); (0, 3)]%nat /\
     ha_variables_enumerated self' = true) /\
  gen_make_feasible 2 (ha_fresh C09_arc.ex_arc) 7 = Err OtherError.
Proof. split; [eexists; vm_compute; repeat split; reflexivity | vm_compute; reflexivity]. Qed.
Print Assumptions C09_gen_example_arc.
