(* C09_gen.v -- the model of SequenceBasedRoutingProblem.make_feasible GENERATED from the source
   (coq/gen/HeurSeqGen.v, harness/translate_heursa.py) equals the hand model Heur.mf_seq, and the C09
   theorems hold for the generated procedure.  [C09, sequence half; the arc half is C09_arc_gen.v]

   The generated make_feasible calls the GENERATED check_arc / enumerate_variables / get_var_index
   (HsSeqEnumGen.v = the model of the seqenum package, regenerated from the same tree) and the
   GENERATED add_arc (HsVrptwGen.v = the model of the vrptw package); their equality theorems
   (HsSeqEnum_eq.v, HsVrptw_eq.v = C18_seq_gen.v / C15_gen.v re-checked against these copies) are used
   here, so the chain source -> generated heuristic -> generated callees -> hand model is closed inside
   Coq.  The object is PyHeurSeq.hq; `hq_holds self strict I` says that it holds the hand model's
   state and that its enumeration caches are coherent with their flag (true of every object whose
   caches were written by enumerate_variables only).

   `Print Assumptions` is issued for the headline theorems (make_feasible_sim / _eq / _fresh_eq, post, total,
   example); the loop-body theorems before them are used in the proof of make_feasible_sim, so its
   report covers them (each Print Assumptions costs about half a second here). *)
From Coq Require Import ZArith List Bool Lia Arith.
From VQ Require Import Base LinAlg Vrptw Vrptw_facts Penalty Penalty_facts Seq Seq_facts Path Heur Heur_facts Heur_seq_facts.
From VQ Require Import PyEnumCore PyEnumCore_facts PySeq PySeq_facts PyHeur PyHeur_facts PyHeurSeq PyHeurSeq_facts.
From VQ Require PyVrptw.
From VQP Require C09.
From VQG Require Import HsSeqEnumGen HsVrptwGen HsSeqEnum_eq HsVrptw_eq HeurSeqGen.
Import ListNotations.

(* ---------- the calls of methods translated by other packages ---------- *)
(* add_arc of the sequence class on the object = Vrptw.add_arc_gen with the object's strict flag *)
Theorem C09_gen_seq_call_add_arc_eq : forall self a b t c,
  length (names (hq_graph self)) = length (nodes (hq_graph self)) ->
  hq_call_g (fun strict_ g_ => gen_seq_add_arc strict_ g_ a b t c) self =
  match add_arc_gen (hq_strict self) (hq_graph self) a b t c with
  | Ok (g', r) => Ok (hq_set_graph g' self, r)
  | Err e => Err e
  end.
Proof.
  intros self a b t c Hl. unfold hq_call_g, py_call_part.
  rewrite (C15_gen_seq_add_arc _ _ _ _ _ _ Hl).
  destruct (add_arc_gen (hq_strict self) (hq_graph self) a b t c) as [[g' r]|e]; reflexivity.
Qed.

(* reset_build_flags: the enumeration flag goes down, the problem and the strict flag stay *)
Theorem C09_gen_seq_reset_build_flags_eq : forall self, exists self',
  gen_reset_build_flags self = Ok (self', Datatypes.tt) /\
  hq_variables_enumerated self' = false /\ hq_objective_built self' = false /\
  hq_lin_con_built self' = false /\ hq_quad_con_built self' = false /\
  hq_strict self' = hq_strict self /\ hq_inst self' = hq_inst self /\
  hq_feasible_solution self' = hq_feasible_solution self.
Proof. intros self. eexists. split; [reflexivity|]. repeat split. Qed.

(* ---------- the search `for ni in unvisited_indices: if check_arc((current_node, ni)): ... break` ---------- *)
Theorem C09_gen_seq_search_loop_eq : forall self vi si l used unv cur nn,
  py_forM (gen_make_feasible_body3 self vi si) l (used, unv, cur, nn) =
  match find (fun ni => dict_mem (cur, ni) (arcs (hq_graph self))) l with
  | Some ni => match remove_first ni unv with
               | Some unv' => Ok (used ++ [(vi, si, ni)], unv', ni, false)
               | None => Err ValueError
               end
  | None => Ok (used, unv, cur, nn)
  end.
Proof.
  intros self vi si l used unv cur nn. induction l as [|n l IH]; [reflexivity|].
  cbn [py_forM find]. unfold gen_make_feasible_body3 at 1.
  change (gen_check_arc (hq_q self) (cur, n)) with (dict_mem (cur, n) (arcs (hq_graph self))).
  destruct (dict_mem (cur, n) (arcs (hq_graph self))).
  - rewrite py_list_remove_nat. destruct (remove_first n unv); reflexivity.
  - exact IH.
Qed.

(* ---------- `for si in range(1, L-1)`: one vehicle's walk = Heur.veh_loop ---------- *)
(* the tail `added = self.add_arc(nm, depot_nm, 0, 0); if not added: raise ...; self.reset_build_flags()` *)
Ltac add_arc_reset_tail Hh Hl g strict :=
  rewrite C09_gen_seq_call_add_arc_eq by (rewrite (hq_holds_graph _ _ _ Hh); exact Hl);
  rewrite (hq_holds_strict _ _ _ Hh), (hq_holds_graph _ _ _ Hh); cbn [ig];
  match goal with |- context [add_arc_gen strict g ?a ?b ?t ?c] =>
    destruct (add_arc_gen strict g a b t c) as [[?g1 [|]]|?e]; cbn [py_bind negb]; try reflexivity end;
  match goal with |- context [gen_reset_build_flags (hq_set_graph ?g1 ?self)] =>
    let s' := fresh "s'" in let E1 := fresh "E1" in let E2 := fresh "E2" in let E3 := fresh "E3" in
    let D1 := fresh "D1" in let D2 := fresh "D2" in let D3 := fresh "D3" in
    destruct (C09_gen_seq_reset_build_flags_eq (hq_set_graph g1 self)) as (s' & -> & E1 & D1 & D2 & D3 & E2 & E3 & _);
    cbn [py_bind]; exists s'; split; [reflexivity|];
    let H1 := fresh "H1" in let H2 := fresh "H2" in let H3 := fresh "H3" in
    destruct Hh as (H1 & H2 & H3);
    split; [apply hq_holds_stale; [exact E1 | rewrite E2; exact H1 | rewrite E3, hq_inst_set_graph, H2; reflexivity]
           | apply hq_flags_ok_down; repeat split; assumption] end.

Theorem C09_gen_seq_vehicle_loop_eq : forall k s depot_nm vi self used unv cur strict g V L vc,
  hq_holds self strict (mkInst g V L vc) ->
  length (names g) = length (nodes g) -> nth_error (names g) 0 = Some depot_nm ->
  (k <> 0 -> s + k = L - 1)%nat ->
  veh_sim strict V L vc self (py_forM (gen_make_feasible_body2 depot_nm vi) (seq s k) (self, used, unv, cur))
          (veh_loop strict g vi (seq s k) cur unv used).
Proof.
  induction k as [|k IH]; intros s depot_nm vi self used unv cur strict g V L vc Hh Hl Hd Hs.
  - cbn [seq veh_loop py_forM veh_sim]. exists self. auto using hq_flags_ok_refl.
  - cbn [seq veh_loop py_forM]. unfold gen_make_feasible_body2 at 1.
    rewrite C09_gen_seq_search_loop_eq, (hq_holds_graph _ _ _ Hh). cbn [ig].
    destruct (find (fun ni => dict_mem (cur, ni) (arcs g)) unv) as [ni|] eqn:Ef.
    + destruct (remove_first ni unv) as [unv1|]; cbn [py_bind].
      * apply (IH (S s)); auto; lia.
      * reflexivity.
    + cbn [py_bind].
      match goal with |- context [py_bind (if negb (gen_check_arc (hq_q self) (cur, 0%nat)) then ?X else Ok self) _] =>
        set (E := if negb (gen_check_arc (hq_q self) (cur, 0%nat)) then X else Ok self) end.
      assert (HE : ens_sim strict V L vc self E (ensure_arc strict g cur 0 0)).
      { subst E. unfold ensure_arc.
        change (gen_check_arc (hq_q self) (cur, 0%nat)) with (dict_mem (cur, 0%nat) (arcs (hq_graph self))).
        rewrite (hq_holds_graph _ _ _ Hh); cbn [ig].
        destruct (dict_mem (cur, 0%nat) (arcs g)); cbn [negb ens_sim]; [exists self; auto using hq_flags_ok_refl|].
        unfold py_list_item, hq_node_names. rewrite (hq_holds_graph _ _ _ Hh); cbn [ig]. rewrite Hd.
        destruct (nth_error (names g) cur) as [nm|]; cbn [py_bind]; [|reflexivity].
        add_arc_reset_tail Hh Hl g strict. }
      destruct (ensure_arc strict g cur 0 0) as [g1|e]; cbn [ens_sim] in HE.
      * destruct HE as (self' & -> & Hh' & Fk'). cbn [py_bind].
        rewrite (py_forM_append (fun sii => (vi, sii, 0%nat))) by (intros; reflexivity).
        rewrite (hq_holds_L _ _ _ Hh'); cbn [iL]. rewrite py_range2_z_sub1.
        replace (L - 1 - s)%nat with (S k) by lia. cbn [py_bind seq veh_sim].
        exists self'. split; [reflexivity | split; [exact Hh' | exact Fk']].
      * rewrite HE. reflexivity.
Qed.

(* ---------- one iteration of `for vi in range(self.max_vehicles)` = Heur.veh_step ---------- *)
Theorem C09_gen_seq_vehicle_step_eq : forall depot_nm vi self used unv strict g V L vc,
  hq_holds self strict (mkInst g V L vc) ->
  length (names g) = length (nodes g) -> nth_error (names g) 0 = Some depot_nm ->
  exists rs, next_of (gen_make_feasible_body1 depot_nm vi (self, used, unv)) rs /\
             step_sim strict V L vc self rs (veh_step strict L g vi unv used).
Proof.
  intros depot_nm vi self used unv strict g V L vc Hh Hl Hd.
  unfold gen_make_feasible_body1, veh_step.
  rewrite (hq_holds_L _ _ _ Hh); cbn [iL].
  change (py_range2_z 1 (Z.of_nat L - 1)) with (py_range2_z (Z.of_nat 1) (Z.of_nat L - 1)).
  rewrite py_range2_z_sub1. replace (L - 1 - 1)%nat with (L - 2)%nat by lia.
  pose proof (C09_gen_seq_vehicle_loop_eq (L - 2) 1 depot_nm vi self used unv 0 strict g V L vc Hh Hl Hd ltac:(lia)) as Hsim.
  destruct (veh_loop strict g vi (seq 1 (L - 2)) 0 unv used) as [[[[g1 cur] unv1] used1]|e] eqn:Ev; cbn [veh_sim] in Hsim.
  - destruct Hsim as (self1 & -> & Hh1 & Fk1). cbn [py_bind].
    destruct (veh_loop_frame _ _ _ _ _ _ _ _ _ _ _ Ev) as (Fn & Fd).
    destruct (Nat.eqb cur 0); cbn [negb andb].
    + exists (Ok (self1, used1, unv1)). split; [reflexivity|]. exists self1. auto.
    + unfold ensure_arc.
      change (gen_check_arc (hq_q self1) (cur, 0%nat)) with (dict_mem (cur, 0%nat) (arcs (hq_graph self1))).
      rewrite (hq_holds_graph _ _ _ Hh1); cbn [ig].
      destruct (dict_mem (cur, 0%nat) (arcs g1)); cbn [negb].
      * exists (Ok (self1, used1, unv1)). split; [reflexivity|]. exists self1. auto.
      * unfold py_list_item, hq_node_names. rewrite (hq_holds_graph _ _ _ Hh1); cbn [ig]. rewrite Fn, Hd.
        destruct (nth_error (names g) cur) as [nm|]; cbn [py_bind]; [|exists (Err IndexError); split; reflexivity].
        rewrite C09_gen_seq_call_add_arc_eq by (rewrite (hq_holds_graph _ _ _ Hh1); cbn [ig]; congruence).
        rewrite (hq_holds_strict _ _ _ Hh1), (hq_holds_graph _ _ _ Hh1); cbn [ig].
        destruct (add_arc_gen strict g1 nm depot_nm 0 0) as [[g2 [|]]|e2]; cbn [py_bind negb].
        -- destruct (C09_gen_seq_reset_build_flags_eq (hq_set_graph g2 self1)) as (s' & -> & E1 & D1 & D2 & D3 & E2 & E3 & _).
           cbn [py_bind]. exists (Ok (s', used1, unv1)). split; [reflexivity|]. exists s'. split; [reflexivity|].
           destruct Hh1 as (H1 & H2 & H3).
           split; [apply hq_holds_stale; [exact E1 | rewrite E2; exact H1 | rewrite E3, hq_inst_set_graph, H2; reflexivity]
                  | apply hq_flags_ok_down; repeat split; assumption].
        -- exists (Err ValueError). split; reflexivity.
        -- exists (Err e2). split; reflexivity.
  - rewrite Hsim. exists (Err e). split; reflexivity.
Qed.

(* ---------- `for vi in range(self.max_vehicles)` = Heur.veh_all ---------- *)
Theorem C09_gen_seq_vehicles_loop_eq : forall vs depot_nm self used unv strict g V L vc,
  hq_holds self strict (mkInst g V L vc) ->
  length (names g) = length (nodes g) -> nth_error (names g) 0 = Some depot_nm ->
  step_sim strict V L vc self (py_forM (gen_make_feasible_body1 depot_nm) vs (self, used, unv))
           (veh_all strict L g vs unv used).
Proof.
  induction vs as [|v vs IH]; intros depot_nm self used unv strict g V L vc Hh Hl Hd.
  - cbn [py_forM veh_all step_sim]. exists self. auto using hq_flags_ok_refl.
  - destruct (C09_gen_seq_vehicle_step_eq depot_nm v self used unv strict g V L vc Hh Hl Hd) as (rs & Hn & Hs).
    rewrite (py_forM_cons_next _ _ _ _ _ Hn). cbn [veh_all].
    destruct (veh_step strict L g v unv used) as [[[g1 unv1] used1]|e] eqn:Es; cbn [step_sim] in Hs.
    + destruct Hs as (self1 & -> & Hh1 & Fk1). cbn [py_bind].
      destruct (veh_step_frame _ _ _ _ _ _ _ _ _ Es) as (Fn & Fd).
      pose proof (IH depot_nm self1 used1 unv1 strict g1 V L vc Hh1 ltac:(congruence) ltac:(congruence)) as R.
      destruct (veh_all strict L g1 vs unv1 used1) as [[[g2 unv2] used2]|e]; cbn [step_sim] in R |- *; [|exact R].
      destruct R as (s2 & R1 & H2 & F2). exists s2. split; [exact R1|]. split; [exact H2|].
      exact (hq_flags_ok_trans _ _ _ Fk1 F2).
    + rewrite Hs. reflexivity.
Qed.

(* `if not self.check_arc((i, j)): added = self.add_arc(a, b, 0, c); if not added: raise ...` without reset *)
Ltac ens_noreset Hh Hen Hdn Hl g strict :=
  unfold ensure_arc;
  match goal with |- context [gen_check_arc (hq_q ?self) (?i, ?j)] =>
    change (gen_check_arc (hq_q self) (i, j)) with (dict_mem (i, j) (arcs (hq_graph self)));
    rewrite (hq_holds_graph _ _ _ Hh); cbn [ig];
    destruct (dict_mem (i, j) (arcs g)); cbn [negb ens_sim_stale]; [exists self; auto|];
    repeat match goal with H : nth_error (names g) _ = Some _ |- _ => rewrite H end;
    rewrite C09_gen_seq_call_add_arc_eq by (rewrite (hq_holds_graph _ _ _ Hh); cbn [ig]; congruence);
    rewrite (hq_holds_strict _ _ _ Hh), (hq_holds_graph _ _ _ Hh); cbn [ig];
    match goal with |- context [add_arc_gen strict g ?a ?b ?t ?c] =>
      let g1 := fresh "g1" in
      destruct (add_arc_gen strict g a b t c) as [[g1 [|]]|?e]; cbn [py_bind negb]; try reflexivity;
      exists (hq_set_graph g1 self); split; [reflexivity|]; split; [|split; [exact Hen|exact Hdn]];
      let H1 := fresh "H1" in let H2 := fresh "H2" in let H3 := fresh "H3" in
      destruct Hh as (H1 & H2 & H3);
      apply hq_holds_stale; [exact Hen | exact H1 | rewrite hq_inst_set_graph, H2; reflexivity]
    end
  end.

(* ---------- `for ni in unvisited_indices`: one dummy vehicle per customer left = Heur.dummy_vehicles ---------- *)
Theorem C09_gen_seq_dummy_loop_eq : forall us high depot_nm self used strict g V L vc N,
  hq_holds self strict (mkInst g V L vc) ->
  length (names g) = N -> length (nodes g) = N -> nth_error (names g) 0 = Some depot_nm ->
  Forall (fun n => n < N)%nat us ->
  dum_sim strict L self (py_forM (gen_make_feasible_body5 high depot_nm) us (self, used))
          (dummy_vehicles strict L high g V vc us used).
Proof.
  induction us as [|ni us IH]; intros high depot_nm self used strict g V L vc N Hh Hn Hd0 Hd HF.
  - cbn [py_forM dummy_vehicles dum_sim]. exists self. auto using hq_flags_ok_refl.
  - cbn [py_forM dummy_vehicles]. unfold gen_make_feasible_body5 at 1.
    inversion HF as [|? ? Hni HF']; subst.
    match goal with |- context [hq_set_vehicle_cost ?a ?b] => set (self3 := hq_set_vehicle_cost a b) end.
    assert (Hh3 : hq_holds self3 strict (mkInst g (S V) L (vc ++ [high]))).
    { destruct Hh as (H1 & H2 & H3). apply hq_holds_stale; [reflexivity | exact H1 |].
      subst self3. rewrite hq_inst_eta. cbn. unfold hq_inst, seq_inst in H2. injection H2 as Eg EV EL Evc.
      rewrite Eg, EV, EL, Evc, Nat.add_1_r. reflexivity. }
    assert (Hen3 : hq_variables_enumerated self3 = false) by reflexivity.
    assert (Hdn3 : hq_flags_down self3) by (repeat split).
    repeat match goal with |- context [hq_max_vehicles (?f false ?s)] =>
      change (hq_max_vehicles (f false s)) with (hq_max_vehicles s) end.   (* the flag assignments, in whatever order *)
    rewrite (hq_holds_V _ _ _ Hh); cbn [iV].
    clearbody self3.
    unfold py_list_item at 1, hq_node_names at 1. rewrite (hq_holds_graph _ _ _ Hh3); cbn [ig].
    destruct (nth_error (names g) ni) as [nm|] eqn:En; [|apply nth_error_None in En; lia].
    cbn [py_bind].
    match goal with |- context [py_bind (if negb (gen_check_arc (hq_q self3) (0%nat, ni)) then ?X else Ok self3) _] =>
      set (E := if negb (gen_check_arc (hq_q self3) (0%nat, ni)) then X else Ok self3) end.
    assert (HE : ens_sim_stale strict (S V) L (vc ++ [high]) E (ensure_arc strict g 0 ni high)).
    { subst E. ens_noreset Hh3 Hen3 Hdn3 Hd0 g strict. }
    destruct (ensure_arc strict g 0 ni high) as [g1|e] eqn:Ee1; cbn [ens_sim_stale] in HE; [|rewrite HE; reflexivity].
    destruct HE as (self4 & -> & Hh4 & Hen4 & Hdn4). cbn [py_bind].
    destruct (ensure_arc_frame _ _ _ _ _ _ Ee1) as (Fn1 & Fd1).
    assert (Hd1 : nth_error (names g1) 0 = Some depot_nm) by (rewrite Fn1; exact Hd).
    assert (En1 : nth_error (names g1) ni = Some nm) by (rewrite Fn1; exact En).
    assert (Hl1 : length (nodes g1) = length (names g1)) by congruence.
    match goal with |- context [py_bind (if negb (gen_check_arc (hq_q self4) (ni, 0%nat)) then ?X else Ok self4) _] =>
      set (E := if negb (gen_check_arc (hq_q self4) (ni, 0%nat)) then X else Ok self4) end.
    assert (HE : ens_sim_stale strict (S V) L (vc ++ [high]) E (ensure_arc strict g1 ni 0 high)).
    { subst E. ens_noreset Hh4 Hen4 Hdn4 Hl1 g1 strict. }
    destruct (ensure_arc strict g1 ni 0 high) as [g2|e] eqn:Ee2; cbn [ens_sim_stale] in HE; [|rewrite HE; reflexivity].
    destruct HE as (self5 & -> & Hh5 & Hen5 & Hdn5). cbn [py_bind].
    destruct (ensure_arc_frame _ _ _ _ _ _ Ee2) as (Fn2 & Fd2).
    rewrite (py_forM_append (fun si => (V, si, 0%nat))) by (intros; reflexivity).
    rewrite (hq_holds_L _ _ _ Hh5); cbn [iL].
    change (py_range2_z 2 (Z.of_nat L - 1)) with (py_range2_z (Z.of_nat 2) (Z.of_nat L - 1)).
    rewrite py_range2_z_sub1. replace (L - 1 - 2)%nat with (L - 3)%nat by lia.
    cbn [py_bind]. unfold py_append. rewrite <- app_assoc. cbn [app].
    apply (dum_sim_after_down strict L self self5 _ _ Hdn5).
    apply (IH high depot_nm self5 _ strict g2 (S V) L (vc ++ [high]) (length (names g))); [exact Hh5 | congruence | congruence | congruence | exact HF'].
Qed.

(* ---------- `for seq in used_sequences: feasible_solution[self.get_var_index( *seq )] = 1` = Heur.mark_tuples ---------- *)
Theorem C09_gen_seq_mark_loop_eq : forall used self x strict I,
  hq_holds self strict I -> hq_variables_enumerated self = true -> length x = num_variables I ->
  py_forM gen_make_feasible_body7 used (self, x) =
  match mark_tuples I used x with Ok x' => Ok (self, x') | Err e => Err e end.
Proof.
  induction used as [|[[v s] n] used IH]; intros self x strict I Hh Hen Hx; [reflexivity|].
  cbn [py_forM mark_tuples]. unfold gen_make_feasible_body7 at 1. cbn [fst snd].
  unfold hq_call_q, py_call_part.
  destruct Hh as (H1 & H2 & H3).
  rewrite (C18_seq_gen_get_var_index_eq _ _ _ _ H3). cbv zeta.
  rewrite C18_seq_gen_enumerate_eq. unfold hq_variables_enumerated in Hen. rewrite Hen. cbn [fst].
  change (seq_inst (hq_q self)) with (hq_inst self). rewrite H2, hq_set_q_id.
  destruct ((v <? iV I)%nat && (s <? iL I)%nat && (n <? iN I)%nat); cbn [negb py_bind]; [|reflexivity].
  destruct (var_index I (v, s, n)) as [k|] eqn:Ek; cbn [option_map]; [|reflexivity].
  assert (Hk : (k < length x)%nat).
  { rewrite Hx, num_variables_length. apply nth_error_Some. unfold var_index in Ek.
    rewrite (find_index_Some _ _ _ Ek). discriminate. }
  rewrite (np_set_item_nat _ _ _ Hk). cbn [py_bind].
  apply (IH self _ strict I); [exact (conj H1 (conj H2 H3)) | exact Hen | rewrite path_set_nth_length; exact Hx].
Qed.

(* ---------- make_feasible ---------- *)
Theorem C09_gen_seq_make_feasible_sim : forall self high,
  seq_coherent (hq_q self) -> length (names (hq_graph self)) = length (nodes (hq_graph self)) ->
  mf_sim (hq_strict self) self (gen_make_feasible self high) (mf_seq (hq_strict self) (hq_inst self) high).
Proof.
  intros self high Hc Hl.
  set (strict := hq_strict self). set (g := hq_graph self) in *.
  set (V := hq_max_vehicles self). set (L := hq_max_sequence_length self). set (vc := hq_vehicle_cost self).
  assert (Hh : hq_holds self strict (mkInst g V L vc)) by (split; [reflexivity|]; split; [reflexivity|exact Hc]).
  rewrite hq_inst_eta. fold g V L vc.
  unfold gen_make_feasible, mf_seq. cbn [ig iV iL ivc]. unfold iN. cbn [ig].
  unfold py_range, hq_nodes. fold g.
  rewrite py_list_remove_nat.
  destruct (remove_first 0 (seq 0 (length (nodes g)))) as [cust|] eqn:Ec; cbn [py_bind mf_sim]; [|reflexivity].
  rewrite sort_key_eq. fold g.
  unfold py_list_item at 1, hq_node_names at 1. fold g.
  destruct (nth_error (names g) 0) as [depot_nm|] eqn:Hd.
  2:{ apply nth_error_None in Hd. assert (E0 : length (nodes g) = 0%nat) by lia. rewrite E0 in Ec. discriminate. }
  cbn [py_bind].
  pose proof (customers_below _ _ Ec) as HFc. rewrite <- Hl in HFc.
  pose proof (sort_by_end_Forall _ g _ HFc) as HFu.
  fold V. change (@nil (nat * nat * nat)%type) with (@nil tuple).
  pose proof (C09_gen_seq_vehicles_loop_eq (seq 0 V) depot_nm self (@nil tuple) (sort_by_end g cust) strict g V L vc Hh Hl Hd) as S1.
  destruct (veh_all strict L g (seq 0 V) (sort_by_end g cust) []) as [[[g1 unv1] used1]|e] eqn:Ev; cbn [step_sim] in S1;
    [|rewrite S1; reflexivity].
  destruct S1 as (self1 & -> & Hh1 & Fk1). cbn [py_bind].
  destruct (veh_all_frame _ _ _ _ _ _ _ _ _ _ Ev HFu) as (Fn & Fd & HF1).
  pose proof (C09_gen_seq_dummy_loop_eq unv1 high depot_nm self1 used1 strict g1 V L vc (length (names g)) Hh1
                ltac:(congruence) ltac:(congruence) ltac:(congruence) HF1) as S2.
  destruct (dummy_vehicles strict L high g1 V vc unv1 used1) as [[[[g2 V2] vc2] used2]|e] eqn:Edv; cbn [dum_sim] in S2;
    [|rewrite S2; reflexivity].
  destruct S2 as (self2 & -> & Hh2 & Fk2). cbn [py_bind].
  set (I2 := mkInst g2 V2 L vc2) in *.
  unfold hq_call_q_total, py_call_part_total.
  destruct Hh2 as (A1 & A2 & A3).
  destruct (C18_seq_gen_dispatch_eq (hq_q self2) A3) as (_ & B2 & _ & _ & B5 & B6 & B7).
  cbv zeta in B2, B5, B6, B7. change (seq_inst (hq_q self2)) with (hq_inst self2) in *. rewrite A2 in *.
  destruct (gen_enumerate_variables (hq_q self2)) as [q' u]. cbn [fst] in *. cbn [py_bind].
  assert (Hh3 : hq_holds (hq_set_q q' self2) strict I2) by (split; [exact A1|]; split; [exact B6|exact B7]).
  rewrite (C09_gen_seq_mark_loop_eq used2 (hq_set_q q' self2) _ strict I2 Hh3 B5)
    by (unfold np_zeros; rewrite repeat_length; exact B2).
  unfold np_zeros. change (hq_num_variables (hq_set_q q' self2)) with (q_num_variables q'). rewrite B2.
  destruct (mark_tuples I2 used2 (repeat 0%Z (num_variables I2))) as [x|e]; cbn [py_bind mf_sim]; [|reflexivity].
  exists (hq_set_feasible_solution x (hq_set_q q' self2)). split; [reflexivity|].
  destruct Hh3 as (C1 & C2 & C3). split; [split; [exact C1|]; split; [exact C2|exact C3]|]. split; [reflexivity|].
  assert (Ei : hq_inst (hq_set_feasible_solution x (hq_set_q q' self2)) = hq_inst self2) by (rewrite A2; exact C2).
  destruct (hq_flags_ok_trans _ _ _ Fk1 Fk2) as (K1 & K2 & K3).
  split; [|split]; intros Hflag; rewrite Ei; [exact (K1 Hflag)|exact (K2 Hflag)|exact (K3 Hflag)].
Qed.
Print Assumptions C09_gen_seq_make_feasible_sim.

(* generated make_feasible = hand model Heur.mf_seq, for every object state (coherent caches, one name per
   node) and every high cost: same exception class, or the same instance and the same vector *)
Theorem C09_gen_seq_make_feasible_eq : forall self high,
  seq_coherent (hq_q self) -> length (names (hq_graph self)) = length (nodes (hq_graph self)) ->
  hq_obs (gen_make_feasible self high) = mf_seq (hq_strict self) (hq_inst self) high.
Proof. intros self high Hc Hl. apply (mf_sim_obs (hq_strict self) self). apply C09_gen_seq_make_feasible_sim; assumption. Qed.
Print Assumptions C09_gen_seq_make_feasible_eq.

(* ... in particular on the object that holds the instance I and has never enumerated: every I of the hand model *)
Theorem C09_gen_seq_make_feasible_fresh_eq : forall strict I high,
  length (names (ig I)) = length (nodes (ig I)) ->
  hq_obs (gen_make_feasible (hq_fresh strict I) high) = mf_seq strict I high.
Proof.
  intros strict I high Hl. destruct (hq_fresh_holds strict I) as (A & B & C).
  rewrite (C09_gen_seq_make_feasible_eq (hq_fresh strict I) high C Hl), A, B. reflexivity.
Qed.
Print Assumptions C09_gen_seq_make_feasible_fresh_eq.

(* ---------- the C09 theorems for the GENERATED procedure ---------- *)
(* C09_post_seq: a normal return leaves a 0/1 vector of the right length with A x = b and x'Rx = 0 for the data
   the object then reports (full statement of props/C09.v, about hq_inst self' and self'.feasible_solution) *)
Theorem C09_gen_post_seq : forall self high self' u,
  Inv (hq_graph self) -> seq_ok (hq_inst self) -> (3 <= hq_max_sequence_length self)%nat ->
  seq_coherent (hq_q self) ->
  gen_make_feasible self high = Ok (self', u) ->
  let I' := hq_inst self' in
  let x := hq_feasible_solution self' in
  let n := Seq.num_variables I' in
  (exists routes,
     length routes = iV I' /\ Forall (Seq_facts.valid_route I') routes /\
     (forall c, (1 <= c)%nat -> (c < iN I')%nat -> count_occ Nat.eq_dec (concat routes) c = 1%nat) /\
     walk_assignment I' (pad_walks routes) /\
     forall k, (k < n)%nat -> nth k x 0%Z = indicator_free I' (pad_walks routes) k) /\
  length x = n /\ Forall (fun v => v = 0 \/ v = 1)%Z x /\ zbinary n (Zvec_of x) /\
  exists E, R_entries I' = Ok E /\
    (forall r, (r < num_rows I')%nat -> zmv n (Amat I') (Zvec_of x) r = bvec I' r) /\
    zqf n (Rmat E) (Zvec_of x) = 0%Z.
Proof.
  intros self high self' u HI Hok HL Hc H.
  pose proof (C09_gen_seq_make_feasible_eq self high Hc (Inv_names_length _ HI)) as E.
  rewrite H in E. cbn [hq_obs] in E. symmetry in E.
  exact (C09.C09_post_seq (hq_strict self) (hq_inst self) high _ _ HI Hok HL E).
Qed.
Print Assumptions C09_gen_post_seq.

(* C09_total_seq: under the hypotheses of props/C09.v the generated procedure returns normally, and the new
   object satisfies every hypothesis again (so does every later invocation) *)
Theorem C09_gen_total_seq : forall self high,
  Inv (hq_graph self) -> seq_ok (hq_inst self) -> (3 <= hq_max_sequence_length self)%nat -> SeqHyp (hq_graph self) ->
  seq_coherent (hq_q self) ->
  exists self', gen_make_feasible self high = Ok (self', Datatypes.tt) /\
                Inv (hq_graph self') /\ seq_ok (hq_inst self') /\
                hq_max_sequence_length self' = hq_max_sequence_length self /\ SeqHyp (hq_graph self') /\
                seq_coherent (hq_q self') /\ hq_strict self' = hq_strict self.
Proof.
  intros self high HI Hok HL HH Hc.
  destruct (C09.C09_total_seq (hq_strict self) (hq_inst self) high HI Hok HL HH) as (I' & x & E & A & B & C & D).
  pose proof (C09_gen_seq_make_feasible_sim self high Hc (Inv_names_length _ HI)) as S.
  rewrite E in S. cbn [mf_sim] in S. destruct S as (self' & Eg & (S1 & S2 & S3) & _ & _).
  exists self'. split; [exact Eg|]. change (hq_graph self') with (ig (hq_inst self')).
  change (hq_max_sequence_length self') with (iL (hq_inst self')). rewrite S2. auto 10.
Qed.
Print Assumptions C09_gen_total_seq.

(* non-vacuity: the example of props/C09.v (strict class, one vehicle, four positions; the vehicle fills both
   free positions, customer 3 gets a dummy vehicle) run through the GENERATED procedure on a fresh object *)
Example C09_gen_example_seq :
  let J := mkInst (run (Vrptw.Seq true) C09.ex_seq_ops empty_graph) 1 4 [0%Z] in
  exists self',
    gen_make_feasible (hq_fresh true J) 7 = Ok (self', Datatypes.tt) /\
    hq_feasible_solution self' = [0; 0; 1; 0; 0; 1; 0; 1; 1; 0; 0; 0]%Z /\
    hq_max_vehicles self' = 2%nat /\ hq_vehicle_cost self' = [0; 7]%Z /\
    map fst (arcs (hq_graph self')) = [(0, 0); (0, 1); (1, 2); (2, 0); (0, 3); (3, 0)]%nat /\
    hq_variables_enumerated self' = true.
Proof. eexists. vm_compute. repeat split; reflexivity. Qed.
Print Assumptions C09_gen_example_seq.
