(* C05_routes_gen.v -- ArcBasedRoutingProblem.get_routes as GENERATED from the source (coq/gen/ArcRoutesGen.v
   on top of coq/gen/ArcGen.v, both written on every run by harness/translate_arcroutes.py) equals the hand
   model Arc.get_routes (= Arc.decode), values and exception classes, and C05_decode holds for it.
     coqc -Q theories VQ -Q props VQP -Q gen VQG -Q genprops VQGP genprops/C05_routes_gen.v
   Only Theorems.  Every statement is for ALL object states `self` that hold the problem I
   (PyArc.arc_holds: its graph and sorted grid) and obey the cache discipline of the enumeration
   (PyArc.arc_coherent: a set variables_enumerated flag means var_mapping / num_variables are those of I), ALL
   solution vectors x (any length, any integers) and EVERY fuel > len(x) for the two `while` loops.
   The first block re-proves, for the copy of ArcGen.v this package writes, what C18_arc_gen.v proves about the
   enumeration (same proofs), so that this file depends on no other genprops file. *)
From Coq Require Import ZifyBool Sorting.Permutation.
From VQ Require Import Base Vrptw Vrptw_facts Arc Arc_ref Arc_facts Arc_routes Arc_complete PyEnumCore PyEnumCore_facts
  PyArc PyArc_facts PyRoutes PyRoutes_facts PyArcRoutes.
From VQP Require Import C05.
From VQG Require Import ArcGen ArcRoutesGen.

(* ---------- the enumeration get_routes calls through get_var_tuple_index (ArcGen.v) ---------- *)
Theorem C05_routes_gen_base_loop_t : forall self0 i j s t e,
  gen_enumerate_variables_quicker_body3 i j s t (arc_lift self0 e) =
  if t <? win_lo (s_graph self0) j then (CNext, arc_lift self0 e)
  else if above t (win_hi (s_graph self0) j) then (CBreak, arc_lift self0 e)
  else (CNext, arc_lift self0 (enum_t i s j (att (arc_at (s_graph self0) i j)) t e)).
Proof.
  intros. unfold gen_enumerate_variables_quicker_body3, arc_lift. cbn [fst snd].
  unfold py_nodes_item, py_arcs_item, py_get_window, py_get_travel_time, win_lo, win_hi, enum_t, py_append,
    above, ext_gtb.
  cbn [fst snd s_graph set_var_mapping s_var_mapping s_time_points].
  destruct (t <? _); [reflexivity|].
  destruct (negb _); [reflexivity|].
  destruct (_ >? t); [reflexivity|].
  cbn [fst snd]. rewrite Nat.add_1_r. reflexivity.
Qed.
Print Assumptions C05_routes_gen_base_loop_t.

Theorem C05_routes_gen_base_loop_s : forall self0 i j s e,
  gen_enumerate_variables_quicker_body2 i j s (arc_lift self0 e) =
  if s <? win_lo (s_graph self0) i then (CNext, arc_lift self0 e)
  else if above s (win_hi (s_graph self0) i) then (CBreak, arc_lift self0 e)
  else (CNext, arc_lift self0 (enum_s (s_graph self0) (s_time_points self0) i j s e)).
Proof.
  intros.
  assert (Hin : forall e', py_for (gen_enumerate_variables_quicker_body3 i j s) (s_time_points self0) (arc_lift self0 e') =
                           arc_lift self0 (enum_s (s_graph self0) (s_time_points self0) i j s e')).
  { intros e'. unfold enum_s. apply (py_for_scan_lift (arc_lift self0) (fun t : Z => t)).
    intros t st. apply C05_routes_gen_base_loop_t. }
  specialize (Hin e). revert Hin.
  unfold gen_enumerate_variables_quicker_body2, arc_lift. cbn [fst snd].
  unfold py_nodes_item, py_get_window, win_lo, win_hi, above, ext_gtb.
  cbn [fst snd s_graph set_var_mapping s_time_points].
  intros Hin.
  destruct (s <? _); [reflexivity|].
  destruct (negb _); [reflexivity|].
  rewrite Hin. reflexivity.
Qed.
Print Assumptions C05_routes_gen_base_loop_s.

Theorem C05_routes_gen_base_loop_arc : forall self0 k e,
  gen_enumerate_variables_quicker_body1 k (arc_lift self0 e) =
  (CNext, arc_lift self0 (enum_arc (s_graph self0) (s_time_points self0) k e)).
Proof.
  intros self0 [i j] e.
  assert (Hin : py_for (gen_enumerate_variables_quicker_body2 i j) (s_time_points self0) (arc_lift self0 e) =
                arc_lift self0 (enum_arc (s_graph self0) (s_time_points self0) (i, j) e)).
  { unfold enum_arc. cbn [fst snd]. apply (py_for_scan_lift (arc_lift self0) (fun t : Z => t)).
    intros s st. apply C05_routes_gen_base_loop_s. }
  revert Hin.
  unfold gen_enumerate_variables_quicker_body1, arc_lift. cbn [fst snd s_time_points set_var_mapping].
  intros Hin. rewrite Hin. reflexivity.
Qed.
Print Assumptions C05_routes_gen_base_loop_arc.

Theorem C05_routes_gen_base_enumerate_quicker : forall self I, arc_holds self I ->
  gen_enumerate_variables_quicker self = (arc_enumerated self I, tt).
Proof.
  intros self I [Hg Ht].
  assert (Hloop : py_for gen_enumerate_variables_quicker_body1 (py_dict_keys (py_arcs self)) (arc_lift self ([], O)) =
                  arc_lift self (enumerate I)).
  { unfold py_dict_keys, py_arcs, enumerate. rewrite py_for_map, <- Hg, <- Ht.
    apply (py_for_fold_lift (arc_lift self)). intros kv st _. apply C05_routes_gen_base_loop_arc. }
  revert Hloop.
  unfold gen_enumerate_variables_quicker, arc_enumerated, vars, num_variables, arc_lift, py_arcs.
  cbn [fst snd s_graph set_var_mapping]. intros Hloop. rewrite Hloop. reflexivity.
Qed.
Print Assumptions C05_routes_gen_base_enumerate_quicker.

(* self.enumerate_variables() on an object that holds I: afterwards the object is `routes_done`, which is
   settled (maps of I, flag set) *)
Theorem C05_routes_gen_base_enumerate : forall self I, arc_holds self I -> arc_coherent self I ->
  gen_enumerate_variables self = (routes_done self I, tt) /\ routes_settled (routes_done self I) I.
Proof.
  intros self I Hh Hc. unfold gen_enumerate_variables, routes_done.
  rewrite (C05_routes_gen_base_enumerate_quicker _ I Hh).
  destruct (s_variables_enumerated self) eqn:E.
  - split; [reflexivity|]. destruct (Hc E) as [H1 H2]. repeat split; try assumption; apply Hh.
  - split; [reflexivity|]. repeat split; apply Hh.
Qed.
Print Assumptions C05_routes_gen_base_enumerate.

(* self.get_var_tuple_index(k): the first call enumerates (if that was not done), every later call changes
   nothing; the value is var_mapping[k] of I, None beyond the list *)
Theorem C05_routes_gen_base_tuple_index : forall self I k, arc_holds self I -> arc_coherent self I ->
  gen_get_var_tuple_index self k = (routes_done self I, Ok (nth_error (vars I) k)) /\
  gen_get_var_tuple_index (routes_done self I) k = (routes_done self I, Ok (nth_error (vars I) k)).
Proof.
  intros self I k Hh Hc. destruct (C05_routes_gen_base_enumerate self I Hh Hc) as [He (Hh' & Hv & Hn & Hf)].
  split.
  - unfold gen_get_var_tuple_index. rewrite He. unfold py_list_item. rewrite Hv.
    destruct (nth_error (vars I) k); reflexivity.
  - unfold gen_get_var_tuple_index, gen_enumerate_variables. rewrite Hf. unfold py_list_item. rewrite Hv.
    destruct (nth_error (vars I) k); reflexivity.
Qed.
Print Assumptions C05_routes_gen_base_tuple_index.

(* self.check_node_time_compat(j, t) *)
Theorem C05_routes_gen_base_compat : forall self j t,
  gen_check_node_time_compat self j t = compat (s_graph self) j t.
Proof. intros. reflexivity. Qed.
Print Assumptions C05_routes_gen_base_compat.

(* ---------- the sorting pipeline ---------- *)
(* tuples_to_sort = np.flip(np.array(soln_var_tuples), -1); arg_sorted = np.lexsort(tuples_to_sort.T);
   tuples_ordered = [soln_var_tuples[i] for i in arg_sorted]
   when every selected position is a variable (soln_var_tuples = the tuples `sel`, none of them None): the
   tuples in the order of the hand model's insertion sort by (i, s, j, t) -- whatever ties there are *)
Theorem C05_routes_gen_sort_eq : forall sel : list var, sel <> [] ->
  exists idxs,
    np_lexsort (np_T (np_flip (Nd2 (map row4 sel)) (-1))) = Ok (NdIdx idxs) /\
    py_mapE (fun i => py_bind (py_list_item (map Some sel) i) (fun t => Ok t)) idxs = Ok (map Some (sortV sel)).
Proof.
  intros sel Hne. rewrite sortV_sort_by.
  apply (lexsort_pipeline row4 var_leb 4 sel Hne); [lia | reflexivity | exact row4_leb].
Qed.
Print Assumptions C05_routes_gen_sort_eq.

(* ---------- the loops ---------- *)
(* `for i, a in enumerate(tuples_ordered): if node_to_find == (a[0], a[1]): arc = tuples_ordered.pop(i);
   node_found = True; break` is Arc.pop_first (stated for the part of the list still to be visited) *)
Theorem C05_routes_gen_find_loop_eq : forall F self p a0 suf pre,
  py_forE (gen_get_routes_body3 F p) (combine (seq (length pre) (length suf)) (map Some suf))
          (self, a0, map Some (pre ++ suf), false) =
  match pop_first p suf with
  | Some (b, suf') => Ok (self, Some b, map Some (pre ++ suf'), true)
  | None => Ok (self, a0, map Some (pre ++ suf), false)
  end.
Proof.
  intros F self p a0 suf. induction suf as [|a suf IH]; intros pre; [reflexivity|].
  cbn [length seq map combine py_forE pop_first].
  unfold gen_get_routes_body3 at 1. cbn [py_tuple_of py_bind].
  destruct a as [[[i s] j] t]. cbn [fst snd orig].
  change (py_pair_eqb Nat.eqb Z.eqb p (i, s)) with (nt_eqb p (i, s)).
  destruct (nt_eqb p (i, s)).
  - rewrite map_app. cbn [map]. rewrite <- (map_length Some pre), py_list_pop_app. cbn [py_bind].
    rewrite <- map_app. reflexivity.
  - specialize (IH (pre ++ [(i, s, j, t)])). rewrite app_length in IH. cbn [length] in IH.
    rewrite Nat.add_1_r, <- app_assoc in IH. cbn [app] in IH. rewrite IH.
    destruct (pop_first p suf) as [[b r]|]; [|reflexivity].
    rewrite <- app_assoc. reflexivity.
Qed.
Print Assumptions C05_routes_gen_find_loop_eq.

(* the inner `while not route_finished` loop is Arc.follow: started on the arc a with the route r under
   construction (the last item of routes), it returns the finished route, the tuples left and the visit
   counters -- or raises what follow raises (IndexError from visited[..], AssertionError from the window check).
   F is the fuel handed to the loop bodies, fuel the fuel of this loop; n is the hand model's fuel. *)
Theorem C05_routes_gen_follow_eq : forall F self n rest a r rs vis fuel,
  (length rest < n)%nat -> (S (length rest) < fuel)%nat ->
  exists alast,
    py_whileE fuel gen_get_routes_cond2 (gen_get_routes_body2 F)
              (self, rs ++ [r], vis, Some a, map Some rest, false) =
    match follow n (s_graph self) a rest r vis with
    | Ok (r', rest', vis') => Ok (self, rs ++ [r'], vis', Some alast, map Some rest', true)
    | Err e => Err e
    end.
Proof.
  intros F self n. induction n as [|n IH]; intros rest a r rs vis fuel Hn Hf; [lia|].
  destruct fuel as [|fuel]; [lia|].
  cbn [py_whileE follow]. unfold gen_get_routes_cond2 at 1. cbn [negb].
  unfold gen_get_routes_body2 at 1.
  rewrite py_list_getitem_last. cbn [py_bind py_tuple_of].
  rewrite py_list_setitem_last. cbn [py_bind].
  destruct a as [[[i s] j] t]. cbn [fst snd dnode dest orig arr].
  rewrite incr_getset_k. unfold py_append.
  destruct (incr j vis) as [vis1|]; [|exists (i, s, j, t); reflexivity].
  rewrite C05_routes_gen_base_compat.
  destruct (compat (s_graph self) j t); cbn [negb]; [|exists (i, s, j, t); reflexivity].
  unfold py_enumerate. rewrite map_length.
  pose proof (C05_routes_gen_find_loop_eq F self (j, t) (Some (i, s, j, t)) rest []) as Hfind.
  cbn [app length] in Hfind. rewrite Hfind. clear Hfind.
  destruct (pop_first (j, t) rest) as [[b rest1]|] eqn:E; cbn [py_bind negb].
  - apply pop_first_length in E. unfold var in *.
    destruct (IH rest1 b (r ++ [(i, s)]) rs vis1 fuel) as [al Hal]; [lia | lia|].
    exists al. exact Hal.
  - rewrite py_list_getitem_last. cbn [py_bind]. rewrite py_list_setitem_last. cbn [py_bind].
    exists (i, s, j, t). destruct fuel as [|fuel]; [lia|]. reflexivity.
Qed.
Print Assumptions C05_routes_gen_follow_eq.

(* the outer `while len(tuples_ordered) > 0` loop is Arc.routes_loop: every round opens a route, pops the first
   tuple left and follows it *)
Theorem C05_routes_gen_loop_eq : forall F self n rest rs vis fuel,
  (length rest <= n)%nat -> (length rest < fuel)%nat -> (length rest < F)%nat ->
  py_whileE fuel gen_get_routes_cond1 (gen_get_routes_body1 F) (self, rs, map Some rest, vis) =
  match routes_loop n (s_graph self) rest rs vis with
  | Ok (rs', vis') => Ok (self, rs', [], vis')
  | Err e => Err e
  end.
Proof.
  intros F self n. induction n as [|n IH]; intros rest rs vis fuel Hn Hf HF.
  - destruct rest as [|a rest0]; [|cbn [length] in Hn; lia]. destruct fuel; [lia|]. reflexivity.
  - destruct fuel as [|fuel]; [lia|]. destruct rest as [|a rest0]; [reflexivity|].
    cbn [length] in Hn, Hf, HF.
    cbn [py_whileE routes_loop map]. unfold gen_get_routes_cond1 at 1. cbn [length Nat.ltb Nat.leb].
    unfold gen_get_routes_body1 at 1. unfold py_append. rewrite py_list_pop_head. cbn [py_bind].
    destruct (C05_routes_gen_follow_eq F self (S (length rest0)) rest0 a [] rs vis F) as [al Hal]; [lia | lia|].
    rewrite Hal. clear Hal. unfold var, route, nt in *.
    match goal with |- context [follow ?n0 ?g0 ?a0 ?r0 ?x0 ?v0] =>
      destruct (follow n0 g0 a0 r0 x0 v0) as [[[r' rest'] vis']|e] eqn:Ef end; cbn [py_bind]; [|reflexivity].
    apply follow_length in Ef. unfold var in *. apply IH; lia.
Qed.
Print Assumptions C05_routes_gen_loop_eq.

(* ---------- get_routes ---------- *)
(* For every object that holds I (enumerated or not, whatever else it stores), every vector x and every fuel
   > len(x): the generated get_routes returns what the hand model returns -- the same routes in the same
   order, or the same exception class -- and leaves the object untouched (nothing selected) resp. with its
   variables enumerated.  Excluded: vectors that select ONLY positions beyond the variables (see
   C05_routes_gen_get_routes_beyond); they do not exist when len(x) <= number of variables. *)
Theorem C05_routes_gen_get_routes_eq : forall fuel self I x,
  arc_holds self I -> arc_coherent self I -> (length x < fuel)%nat -> ~ all_missing I x ->
  gen_get_routes fuel self x = routes_result (routes_state self I x) (get_routes I x).
Proof.
  intros fuel self I x Hh Hc Hfuel Hnm. pose proof Hh as [Hg Ht].
  unfold gen_get_routes, get_routes, routes_state, np_nonzero. cbn [fst].
  rewrite np_flatnonzero_nonzero. pose proof (nonzero_length_le x) as Hle.
  destruct (nonzero x) as [|k ks] eqn:En.
  - cbn [length Nat.eqb]. unfold py_nodes. rewrite Hg. destruct (Nat.leb _ 1); reflexivity.
  - cbn [length Nat.eqb]. set (idx := k :: ks) in *.
    rewrite (py_mapM_settle _ (nth_error (vars I)) self (routes_done self I) idx); cycle 1.
    { discriminate. }
    { intros a. rewrite (proj1 (C05_routes_gen_base_tuple_index self I a Hh Hc)). reflexivity. }
    { intros a. rewrite (proj2 (C05_routes_gen_base_tuple_index self I a Hh Hc)). reflexivity. }
    cbn [py_bind]. cbv zeta.
    pose proof (all_some_cases (map (nth_error (vars I)) idx)) as Hcases.
    destruct (all_some (map (nth_error (vars I)) idx)) as [sel|] eqn:Ea.
    + rewrite Hcases.
      assert (Hlen : length sel = length idx).
      { apply (f_equal (@length _)) in Hcases. rewrite !map_length in Hcases. congruence. }
      assert (Hne : sel <> []) by (destruct sel; [discriminate Hlen | discriminate]).
      change (fun t_ : nat * Z * nat * Z => [Z.of_nat (fst (fst (fst t_))); snd (fst (fst t_)); Z.of_nat (snd (fst t_)); snd t_])
        with row4.
      unfold var in *. rewrite (np_array_rows_all (A:=nat * Z * nat * Z) row4 sel). cbn [py_bind].
      destruct (C05_routes_gen_sort_eq sel Hne) as (idxs & H1 & H2). unfold var in *.
      rewrite H1. cbn [py_bind np_iter]. rewrite H2. cbn [py_bind].
      assert (Hsl : length (sortV sel) = length sel) by (apply Permutation_length, sortV_perm).
      assert (Hgd : s_graph (routes_done self I) = ig I).
      { unfold routes_done. destruct (s_variables_enumerated self); exact Hg. }
      unfold var in *.
      rewrite (C05_routes_gen_loop_eq fuel (routes_done self I) (length (sortV sel)) (sortV sel) []) by (unfold var in *; lia).
      unfold py_nodes, np_zeros1. rewrite Hgd.
      destruct (routes_loop _ _ _ _ _) as [[rs vis]|e]; cbn [py_bind routes_result]; [|reflexivity].
      rewrite all_ones_tl. destruct (forallb _ (tl vis)); reflexivity.
    + unfold var in *.
      destruct (np_array_rows_cases (A:=nat * Z * nat * Z) row4 (map (nth_error (vars I)) idx)) as [[sel Hs] | [(_ & Hall & _) | (_ & _ & E)]]; unfold var in *.
      * rewrite Hs in Hcases. apply in_map_iff in Hcases. destruct Hcases as (a & Ha & _). discriminate Ha.
      * exfalso. apply Hnm. split; [rewrite En; discriminate|]. intros k' Hk'. apply Hall.
        apply in_map. rewrite <- En. exact Hk'.
      * change (fun t_ : nat * Z * nat * Z => [Z.of_nat (fst (fst (fst t_))); snd (fst (fst t_)); Z.of_nat (snd (fst t_)); snd t_])
          with row4.
        unfold var in *. rewrite E. reflexivity.
Qed.
Print Assumptions C05_routes_gen_get_routes_eq.

(* the same for the vectors the property quantifies over (one entry per variable; shorter vectors too) *)
Theorem C05_routes_gen_get_routes_eq_len : forall fuel self I x,
  arc_holds self I -> arc_coherent self I -> (length x < fuel)%nat -> (length x <= num_variables I)%nat ->
  gen_get_routes fuel self x = routes_result (routes_state self I x) (get_routes I x).
Proof.
  intros fuel self I x Hh Hc Hf Hl. apply C05_routes_gen_get_routes_eq; try assumption.
  apply not_all_missing. exact Hl.
Qed.
Print Assumptions C05_routes_gen_get_routes_eq_len.

(* the excluded vectors: when every selected position lies beyond the variables, get_var_tuple_index returns
   None for each, np.array builds a 1-d object array, np.lexsort answers with a 0-d array and the list
   comprehension over it raises TypeError -- the hand model says ValueError there (it treats any position
   beyond the variables like the mixed case).  Both are exceptions; the classes differ. *)
Theorem C05_routes_gen_get_routes_beyond : forall fuel self I x,
  arc_holds self I -> arc_coherent self I -> all_missing I x ->
  gen_get_routes fuel self x = Err TypeError /\ get_routes I x = Err ValueError.
Proof.
  intros fuel self I x Hh Hc [Hne Hall].
  unfold gen_get_routes, get_routes, np_nonzero. cbn [fst]. rewrite np_flatnonzero_nonzero.
  destruct (nonzero x) as [|k ks] eqn:En; [congruence|]. set (idx := k :: ks) in *.
  assert (HN : forall o, In o (map (nth_error (vars I)) idx) -> o = None).
  { intros o Ho. apply in_map_iff in Ho. destruct Ho as (a & <- & Ha). apply Hall. exact Ha. }
  split.
  - cbn [length Nat.eqb].
    rewrite (py_mapM_settle _ (nth_error (vars I)) self (routes_done self I) idx); cycle 1.
    { discriminate. }
    { intros a. rewrite (proj1 (C05_routes_gen_base_tuple_index self I a Hh Hc)). reflexivity. }
    { intros a. rewrite (proj2 (C05_routes_gen_base_tuple_index self I a Hh Hc)). reflexivity. }
    cbn [py_bind]. cbv zeta. unfold var in *.
    destruct (np_array_rows_cases (A:=nat * Z * nat * Z) row4 (map (nth_error (vars I)) idx))
      as [[sel Hs] | [(_ & _ & E) | ((a & Ha) & _ & _)]]; unfold var in *.
    + exfalso. destruct sel as [|v sel]; [discriminate Hs|].
      specialize (HN (Some v)). rewrite Hs in HN. specialize (HN (or_introl eq_refl)). discriminate HN.
    + change (fun t_ : nat * Z * nat * Z => [Z.of_nat (fst (fst (fst t_))); snd (fst (fst t_)); Z.of_nat (snd (fst t_)); snd t_])
        with row4.
      unfold var in *. rewrite E. reflexivity.
    + exfalso. specialize (HN (Some a) Ha). discriminate HN.
  - pose proof (all_some_cases (map (nth_error (vars I)) idx)) as Hcases.
    destruct (all_some (map (nth_error (vars I)) idx)) as [sel|]; [|reflexivity].
    exfalso. destruct sel as [|v sel]; [discriminate Hcases|].
    specialize (HN (Some v)). rewrite Hcases in HN. specialize (HN (or_introl eq_refl)). discriminate HN.
Qed.
Print Assumptions C05_routes_gen_get_routes_beyond.

(* ---------- C05_decode for the GENERATED get_routes ---------- *)
(* On every object that holds I: the generated get_routes succeeds on every binary solution of A x = b and
   returns the (node, time) lists of depot-to-depot chains that use every selected move exactly once
   (props/C05.v, C05_decode), for every fuel > len(x). *)
Theorem C05_routes_gen_decode : forall fuel self I x,
  arc_holds self I -> arc_coherent self I -> (length x < fuel)%nat ->
  Inv (ig I) -> NoDup (igrid I) -> pos_cc I ->
  length x = num_variables I -> binary x -> Ax I x = rhs I ->
  exists mss : list (list var),
    gen_get_routes fuel self x = Ok (routes_state self I x, map route_of mss) /\
    Permutation (selected I x) (concat mss) /\ Forall walk mss /\
    Forall sroute (flat_map split_depot mss) /\ concat (flat_map split_depot mss) = concat mss.
Proof.
  intros fuel self I x Hh Hc Hf HI Hg Hpos Hl Hb HA.
  destruct (C05_decode I x HI Hg Hpos Hl Hb HA) as (mss & E & Hrest).
  exists mss. split; [|exact Hrest].
  rewrite (C05_routes_gen_get_routes_eq_len fuel self I x Hh Hc Hf) by lia. rewrite E. reflexivity.
Qed.
Print Assumptions C05_routes_gen_decode.

(* an empty selection: no routes when there is no customer, the visit assertion otherwise; the object is not
   touched (the early return comes before the first get_var_tuple_index) *)
Theorem C05_routes_gen_decode_empty_selection : forall fuel self I x,
  arc_holds self I -> arc_coherent self I -> (length x < fuel)%nat ->
  length x = num_variables I -> selected I x = [] ->
  gen_get_routes fuel self x =
  if Nat.leb (length (nodes (ig I))) 1 then Ok (self, []) else Err AssertionError.
Proof.
  intros fuel self I x Hh Hc Hf Hl Hs.
  rewrite (C05_routes_gen_get_routes_eq_len fuel self I x Hh Hc Hf) by lia.
  rewrite (C05_decode_empty_selection I x Hl Hs). unfold routes_state.
  pose proof (nonzero_length I x Hl) as Hn. rewrite Hs in Hn.
  destruct (nonzero x); [|discriminate Hn]. destruct (Nat.leb _ 1); reflexivity.
Qed.
Print Assumptions C05_routes_gen_decode_empty_selection.

(* the hypotheses are satisfiable: a fresh object on the example instance of props/C05.v holds it; the generated
   get_routes (fuel 27 > 26 = len(x)) decodes the example vector to the single route 0@0 -> 1@1 -> 2@3 -> 0@3
   and leaves the variables enumerated *)
Example C05_routes_gen_example :
  let self := mkAS ex_graph (sortZ (igrid ex_inst)) [] O false in
  arc_holds self ex_inst /\ arc_coherent self ex_inst /\ (length ex_x < 27)%nat /\
  gen_get_routes 27 self ex_x =
  Ok (arc_enumerated self ex_inst, [[(0%nat, 0); (1%nat, 1); (2%nat, 3); (0%nat, 3)]]).
Proof.
  intros self.
  assert (Hh : arc_holds self ex_inst) by (split; reflexivity).
  assert (Hc : arc_coherent self ex_inst) by (intros E; discriminate E).
  split; [exact Hh|]. split; [exact Hc|]. split; [vm_compute; lia|].
  rewrite (C05_routes_gen_get_routes_eq_len 27 self ex_inst ex_x Hh Hc); [vm_compute; reflexivity | vm_compute; lia | vm_compute; lia].
Qed.
Print Assumptions C05_routes_gen_example.
