(* C17_gen -- reproducible construction, established for the generator traffic READ OFF THE SOURCE.

   coq/gen/RngGen.v (printed by harness/translate_rngflow.py on every run) holds, for every function, method,
   class body and module body of vrptw.py, routing_problem.py, the three formulation classes, applications/mirp.py
   and examples/mirp_random.py, its control skeleton restricted to the calls into np.random.* / .rvs(..) and to
   calls.  theories/PyRng.v defines the semantics of skeletons over the oracle generator of Rng.v (`exec`: a
   deterministic interpreter in which every decision of the program is a function of the values it has observed
   from the generator), an abstract interpreter over three generator statuses and the decision procedure
   `rng_disciplined`; theories/PyRng_facts.v proves it sound.  Here the procedure is run on the generated table (a
   computation on one finite object) and the statements of C17 (C17_prior_state, C17_no_rng, C17_seeded) are
   concluded for the skeletons of the real functions: no hypothesis about the structure of the code is left. *)
From Coq Require Import String.
From VQ Require Import Base Rng PyRng PyRng_facts.
From VQG Require Import RngGen.
Local Open Scope string_scope.

(* 1. The generated table passes the check:
      - every function of Node / Arc / VRPTW / RoutingProblem / ArcBasedRoutingProblem /
        SequenceBasedRoutingProblem (for every possible class of self), MIRP.get_arc_based and
        MIRP.get_sequence_based, every property, special method, class body, module body and every closure:
        no generator event on any path, through any chain of calls;
      - MIRP.get_path_based: on every path every draw comes after np.random.seed(<int literal>) with no
        seed(None) / seed(<unknown>) / set_state in between, no get_state before it, and the generator is left
        seeded (or untouched, when the cached object is returned);
      - RandomMIRP with an explicit self.seed: __post_init__ seeds on every path; with reset_seed=True every
        draw of get_random_mirp comes after the re-seed; after the constructor, get_random_mirp() and
        random_mirp_gen() draw from a determined state only. *)
Theorem C17_gen_table_disciplined : rng_disciplined generated_table = true.
Proof. vm_cast_no_check (eq_refl true). Qed.
Print Assumptions C17_gen_table_disciplined.

(*    The functions the statements below are about exist in the source, and the named builders are among the
      functions covered by statement 3. *)
Theorem C17_gen_entries_covered :
  forallb (fun p => match find_fn generated_table (fst p) (snd p) with
                    | Some g => no_rng_fn g && String.eqb (f_cls g) (fst p)
                    | None => false
                    end)
          [(c_mirp, "get_arc_based"); (c_mirp, "get_sequence_based");
           ("ArcBasedRoutingProblem", "__init__"); ("ArcBasedRoutingProblem", "add_time_points");
           ("ArcBasedRoutingProblem", "enumerate_variables");
           ("ArcBasedRoutingProblem", "enumerate_variables_quicker");
           ("ArcBasedRoutingProblem", "enumerate_variables_exhaustive");
           ("ArcBasedRoutingProblem", "build_objective"); ("ArcBasedRoutingProblem", "build_constraints");
           ("ArcBasedRoutingProblem", "build_constraints_quicker");
           ("ArcBasedRoutingProblem", "build_constraints_exhaustive");
           ("ArcBasedRoutingProblem", "make_feasible");
           ("SequenceBasedRoutingProblem", "__init__"); ("SequenceBasedRoutingProblem", "enumerate_variables");
           ("SequenceBasedRoutingProblem", "build_objective");
           ("SequenceBasedRoutingProblem", "build_linear_constraints");
           ("SequenceBasedRoutingProblem", "build_quadratic_constraints");
           ("SequenceBasedRoutingProblem", "make_feasible");
           ("RoutingProblem", "get_qubo"); ("VRPTW", "add_arc")] = true.
Proof. vm_cast_no_check (eq_refl true). Qed.
Print Assumptions C17_gen_entries_covered.

(* 2. C17_prior_state for the generated getter.  Two runs of MIRP.get_path_based's skeleton, started in
      generator states g and g' (and in different outside worlds ext / ext': OS entropy, saved states), with the
      same program logic: if the first ends (fuel fc) with outcome o, the second ends with the same outcome and
      the same history -- the same values were observed from the generator and the same decisions were taken
      (so: the same routes were generated) -- and the generator is left in the same state, or (cached
      formulation returned at once) untouched in both.  `seed` is Rng.v's oracle with its one law. *)
Theorem C17_gen_prior_state_independent :
  forall (rng obs : Type) (seed : option Z -> rng -> rng),
  (forall z g g', seed (Some z) g = seed (Some z) g') ->
  forall (draw : string -> hist obs -> rng -> obs * rng) (peek : rng -> obs) (dec : hist obs -> bool)
         (fld : string -> option Z),
  exists gfn, find_fn generated_table c_mirp "get_path_based" = Some gfn /\
  forall ext ext' fc g g' h y o,
    exec rng obs seed draw peek dec fld generated_table ext fc false c_mirp c_mirp
         (unknown_env gfn) (f_body gfn) (mkX g h) = Some (y, o) ->
    exists y', exec rng obs seed draw peek dec fld generated_table ext' fc false c_mirp c_mirp
                    (unknown_env gfn) (f_body gfn) (mkX g' h) = Some (y', o) /\
               xh y' = xh y /\
               (xg y' = xg y \/ (xg y = g /\ xg y' = g' /\ obs_of (xh y) = obs_of h)).
Proof.
  intros rng obs seed SF draw peek dec fld.
  exact (disciplined_prior_state rng obs seed SF draw peek dec fld generated_table C17_gen_table_disciplined).
Qed.
Print Assumptions C17_gen_prior_state_independent.

(* 3. C17_no_rng for the generated builders.  Every function gfn of the table written in Node, Arc, VRPTW,
      RoutingProblem, ArcBasedRoutingProblem, SequenceBasedRoutingProblem, the MIRP getters for the arc- and
      sequence-based formulation, and everything that runs implicitly (properties, special methods, class and
      module bodies), for every class d of self, inside or outside a try: the generator state after the call is
      the state before it, no value was observed from it, and a run started in any other state g' does exactly
      the same and leaves g'. *)
Theorem C17_gen_no_rng_arc_seq :
  forall (rng obs : Type) (seed : option Z -> rng -> rng),
  (forall z g g', seed (Some z) g = seed (Some z) g') ->
  forall (draw : string -> hist obs -> rng -> obs * rng) (peek : rng -> obs) (dec : hist obs -> bool)
         (fld : string -> option Z) gfn d,
  In gfn (all_fns generated_table) -> (no_rng_fn gfn || implicit_fn gfn) = true ->
  In d (dyns_of generated_table (f_cls gfn)) ->
  forall ext ext' fc intr g g' h y o,
    exec rng obs seed draw peek dec fld generated_table ext fc intr (f_cls gfn) d
         (unknown_env gfn) (f_body gfn) (mkX g h) = Some (y, o) ->
    xg y = g /\ obs_of (xh y) = obs_of h /\
    exists y', exec rng obs seed draw peek dec fld generated_table ext' fc intr (f_cls gfn) d
                    (unknown_env gfn) (f_body gfn) (mkX g' h) = Some (y', o) /\
               xh y' = xh y /\ xg y' = g'.
Proof.
  intros rng obs seed SF draw peek dec fld gfn d.
  exact (disciplined_no_rng rng obs seed SF draw peek dec fld generated_table C17_gen_table_disciplined gfn d).
Qed.
Print Assumptions C17_gen_no_rng_arc_seq.

(* 4. C17_seeded for the generated RandomMIRP, when self.seed is an explicit integer (fld "seed" = Some z):
      (1) the constructor and (2) get_random_mirp(reset_seed=True), started in any two generator states, observe
      the same values and, unless they raise, leave the generator in the same state; (3) constructor followed
      by get_random_mirp(): the same values whatever the prior state; (4) random_mirp_gen() from a determined
      state does not depend on the outside world. *)
Theorem C17_gen_seeded_generator :
  forall (rng obs : Type) (seed : option Z -> rng -> rng),
  (forall z g g', seed (Some z) g = seed (Some z) g') ->
  forall (draw : string -> hist obs -> rng -> obs * rng) (peek : rng -> obs) (dec : hist obs -> bool)
         (fld : string -> option Z),
  fld "seed" <> None ->
  (exists gfn, find_fn generated_table c_rand "__post_init__" = Some gfn /\
     forall ext ext' fc g g' h y o,
       exec rng obs seed draw peek dec fld generated_table ext fc false c_rand c_rand
            (unknown_env gfn) (f_body gfn) (mkX g h) = Some (y, o) ->
       exists y', exec rng obs seed draw peek dec fld generated_table ext' fc false c_rand c_rand
                       (unknown_env gfn) (f_body gfn) (mkX g' h) = Some (y', o) /\
                  xh y' = xh y /\ (o <> XRaise -> xg y' = xg y)) /\
  (exists gfn, find_fn generated_table c_rand "get_random_mirp" = Some gfn /\
     forall ext ext' fc g g' h y o,
       exec rng obs seed draw peek dec fld generated_table ext fc false c_rand c_rand
            (env_with "reset_seed" true gfn) (f_body gfn) (mkX g h) = Some (y, o) ->
       exists y', exec rng obs seed draw peek dec fld generated_table ext' fc false c_rand c_rand
                       (env_with "reset_seed" true gfn) (f_body gfn) (mkX g' h) = Some (y', o) /\
                  xh y' = xh y /\ (o <> XRaise -> xg y' = xg y)) /\
  (forall ext ext' fc g g' h y o,
     exec rng obs seed draw peek dec fld generated_table ext fc false c_rand c_rand [] first_instance (mkX g h)
     = Some (y, o) ->
     exists y', exec rng obs seed draw peek dec fld generated_table ext' fc false c_rand c_rand [] first_instance
                     (mkX g' h) = Some (y', o) /\ xh y' = xh y) /\
  (exists gfn, find_fn generated_table c_rand "random_mirp_gen" = Some gfn /\
     forall ext ext' fc g h y o,
       exec rng obs seed draw peek dec fld generated_table ext fc false c_rand c_rand
            (unknown_env gfn) (f_body gfn) (mkX g h) = Some (y, o) ->
       exists y', exec rng obs seed draw peek dec fld generated_table ext' fc false c_rand c_rand
                       (unknown_env gfn) (f_body gfn) (mkX g h) = Some (y', o) /\ xh y' = xh y).
Proof.
  intros rng obs seed SF draw peek dec fld SEED.
  exact (disciplined_seeded rng obs seed SF draw peek dec fld generated_table C17_gen_table_disciplined SEED).
Qed.
Print Assumptions C17_gen_seeded_generator.

(* ---------- witnesses (hand-written tables PyRng.ex_tb, independent of the source) ----------
   ex_tb v w: a getter M.get_path_based (v = 0: seed(0), rounds of draws, optional heuristic; 1: the seed is
   missing -- seeded change C17_c; 2: get_state first and set_state before the heuristic -- C17_e; 3: seed(None))
   and a generator class R (w = 0: as the source; 1: the constructor seeds only `if self.seed` -- C17_b / C17_f;
   2: a draw before the re-seed -- C17_d).  The check accepts exactly the variants 0. *)
Example C17_gen_checker_rejects :
  map (fun v => path_entry_ok (ex_tb v 0) (transparent_set (ex_tb v 0)) "M" "get_path_based") [0; 1; 2; 3]%nat
  = [true; false; false; false] /\
  map (fun w => let t := ex_tb 0 w in let s := transparent_set t in
                (trans_ok t s, ctor_ok t s "R", reseed_ok t s "R", first_ok t s "R", stream_ok t s "R"))
      [0; 1; 2]%nat
  = [(true, true, true, true, true); (true, false, true, false, true); (true, true, false, true, true)].
Proof. vm_compute. split; reflexivity. Qed.
Print Assumptions C17_gen_checker_rejects.

(* The semantics is inhabited and separates the variants: on a toy generator (state = a number), with the same
   scripted decisions (two rounds, then the heuristic), started in states 5 and 9 and in outside worlds 77 / 88:
   variant 0 observes [0; 1; 2] in both runs and leaves the generator at 3; without the seed the runs observe
   [5; 6; 7] and [9; 10; 11]; with get_state / set_state the first observation and the draw after the restore
   differ; with seed(None) everything comes from outside. *)
Example C17_gen_semantics_witness :
  toy_run 0 toy_script 77 5 = Some ([0; 1; 2], 3, XRet)%Z /\ toy_run 0 toy_script 88 9 = Some ([0; 1; 2], 3, XRet)%Z /\
  toy_run 1 toy_script 77 5 = Some ([5; 6; 7], 8, XRet)%Z /\ toy_run 1 toy_script 88 9 = Some ([9; 10; 11], 12, XRet)%Z /\
  toy_run 2 toy_script 77 5 = Some ([5; 0; 1; 77], 78, XRet)%Z /\
  toy_run 2 toy_script 88 9 = Some ([9; 0; 1; 88], 89, XRet)%Z /\
  toy_run 3 toy_script 77 5 = Some ([77; 78; 79], 80, XRet)%Z /\
  toy_run 3 toy_script 88 9 = Some ([88; 89; 90], 91, XRet)%Z.
Proof. vm_compute. repeat split; reflexivity. Qed.
Print Assumptions C17_gen_semantics_witness.
