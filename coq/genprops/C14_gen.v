(* C14_gen -- the cache discipline of Cache.v, established for the flag protocol READ OFF THE SOURCE.

   coq/gen/CacheGen.v (printed by harness/translate_cacheflags.py on every run) holds, for every method of the
   three formulation classes and of RoutingProblem, its control skeleton restricted to what touches `self`.
   theories/PyCache.v defines the trace semantics of skeletons (`eval`, `call_of`), the monitor that turns a
   fine trace into the primitive actions of Cache.v (`abs_call`, `abs_history`) and the decision procedure
   `disciplined_skel`; theories/PyCache_facts.v proves the procedure sound.  Here the procedure is run on
   the generated table (a computation on one finite object) and the theorems of C14 are instantiated with
   it: no discipline hypothesis (wf_run / hist_ok / heur_ok) is left. *)
From Coq Require Import String.
From VQ Require Import Base Cache Cache_facts PyCache PyCache_facts.
From VQG Require Import CacheGen.
Local Open Scope nat_scope.

(* 1. The generated table passes the check: for each class, every query method (pure mode: no write to
      problem data or to the stored solution) and make_feasible, from each of the 8 / 16 / 1 clean flag
      configurations, on all paths: the monitor accepts every event, no builder segment is left open, nothing
      is left dirty (for make_feasible: whenever it returns). *)
Theorem C14_gen_table_disciplined : disciplined_skel generated_table = true.
Proof. vm_cast_no_check (eq_refl true). Qed.
Print Assumptions C14_gen_table_disciplined.

(*    make_feasible of the arc-based and of the path-based class leaves nothing dirty even when it raises
      (the sequence-based one can raise between add_arc and reset_build_flags). *)
Theorem C14_gen_raise_clean_arc_path :
  heuristic_raise_clean generated_table KArc = true /\ heuristic_raise_clean generated_table KPath = true.
Proof. split; vm_cast_no_check (eq_refl true). Qed.
Print Assumptions C14_gen_raise_clean_arc_path.

(* 2. Every query method, every class, every flag configuration, every trace of the method (every path
      through its skeleton, any number of loop iterations, whatever it raises): the trace has an abstraction
      into Cache.v actions, which contains no Mutate and which the flag discipline accepts from the clean
      state with the object's flags, ending clean with the flags the call ended with.  In particular every
      read of a cached attribute comes after the build of its cache, a flag is set only at the end of a
      builder segment that re-created every attribute of the cache, appends come after the list was emptied. *)
Theorem C14_gen_query_discipline : forall k m fl evs fl' o,
  In m (queries k) -> kind_okb k (getb fl) = true -> call_of generated_table k m fl evs fl' o ->
  exists tr s, abs_call k true fl evs o = Some (tr, s) /\ count_mut tr = 0 /\
    forall ws, clean ws -> (forall i, wflag ws i = getb fl i) ->
    exists ws', wf_run ws tr = Some ws' /\ clean ws' /\ (forall i, wflag ws' i = getb fl' i) /\
                kind_okb k (wflag ws') = true.
Proof.
  intros k m fl evs fl' o Im K C.
  pose proof (entry_sound generated_table k true true m
                (disciplined_query _ k m C14_gen_table_disciplined Im) fl evs fl' o K C) as CO.
  destruct (call_ok_wf k true true fl evs fl' o CO (or_introl eq_refl)) as (tr & s & A & P & W).
  exists tr, s. auto.
Qed.
Print Assumptions C14_gen_query_discipline.

(* 3. make_feasible (all classes) and check_and_add_exit_arc (arc-based) invalidate every flag whose data
      they may change: whatever is built when the call starts, every trace that returns passes the discipline
      and leaves nothing dirty (this is Cache.heur_ok for the trace, at the flag configuration it was
      produced from). *)
Theorem C14_gen_make_feasible_invalidates : forall k m fl evs fl' o,
  In m (mutators k) ->
  kind_okb k (getb fl) = true -> call_of generated_table k m fl evs fl' o -> o <> ORaise ->
  exists tr s, abs_call k false fl evs o = Some (tr, s) /\
    forall ws, clean ws -> (forall i, wflag ws i = getb fl i) ->
    exists ws', wf_run ws tr = Some ws' /\ clean ws' /\ (forall i, wflag ws' i = getb fl' i) /\
                kind_okb k (wflag ws') = true.
Proof.
  intros k m fl evs fl' o Im K C N.
  pose proof (entry_sound generated_table k false false m
                (disciplined_heur _ k m C14_gen_table_disciplined Im) fl evs fl' o K C) as CO.
  destruct (call_ok_wf k false false fl evs fl' o CO (or_intror N)) as (tr & s & A & _ & W).
  exists tr, s. auto.
Qed.
Print Assumptions C14_gen_make_feasible_invalidates.

(* 4. Refinement / purity for the generated table, no discipline hypothesis: any history of query calls
      (any outcome) and of make_feasible / check_and_add_exit_arc calls that return, on an object of class k, started in any model
      state satisfying the invariant whose flags are the object's: the history has an abstraction trs
      (one Cache.v trace per call) such that every read is fresh, the invariant holds after every call,
      every read hands out what a cache-free object computes from the current data (for all data `dat` and
      cache functions `F`), and if the history consists of queries only the data version is unchanged and
      every read returns current-version content (repeated / reordered queries read the same). *)
Theorem C14_gen_refinement : forall k fl h fl' st,
  history generated_table k fl h fl' -> kind_okb k (getb fl) = true -> Inv st -> flags_are st fl ->
  exists trs, abs_history k fl h = Some trs /\
    disciplined (concat trs) st = true /\ Forall Inv (hist_states st trs) /\ Inv (run st (concat trs)) /\
    (forall (D C : Type) (dat : nat -> D) (F : cid -> D -> D -> C),
       Forall (fun p => fst p = Some (snd p)) (read_contents D C dat F (concat trs) st)) /\
    (Forall (fun u : ucall => fst (fst u) = true) h ->
       version (run st (concat trs)) = version st /\
       reads (concat trs) st = map (fun i => (i, (Some (version st), Some (version st)))) (read_ids (concat trs))).
Proof.
  intros k fl h fl' st H K I F.
  exact (hist_concl_fresh k fl h fl' st (history_hist_ok _ k C14_gen_table_disciplined fl h fl' H K) I F).
Qed.
Print Assumptions C14_gen_refinement.

(*    The same with make_feasible calls that raise, for the arc-based and the path-based class. *)
Theorem C14_gen_refinement_raising : forall k fl h fl' st,
  k <> KSeq ->
  history_r generated_table k fl h fl' -> kind_okb k (getb fl) = true -> Inv st -> flags_are st fl ->
  exists trs, abs_history k fl h = Some trs /\
    disciplined (concat trs) st = true /\ Forall Inv (hist_states st trs) /\ Inv (run st (concat trs)) /\
    (forall (D C : Type) (dat : nat -> D) (F : cid -> D -> D -> C),
       Forall (fun p => fst p = Some (snd p)) (read_contents D C dat F (concat trs) st)).
Proof.
  intros k fl h fl' st NK H K I F.
  assert (S : heuristic_raise_clean generated_table k = true).
  { destruct C14_gen_raise_clean_arc_path as [A P]. destruct k; [exact A | exfalso; apply NK; reflexivity | exact P]. }
  destruct (hist_concl_fresh k fl h fl' st
              (history_r_hist_ok _ k C14_gen_table_disciplined S fl h fl' H K) I F)
    as (trs & A & B & C & D & E & _).
  exists trs. auto.
Qed.
Print Assumptions C14_gen_refinement_raising.

(*    A freshly constructed object: all flags down, model state Cache.init. *)
Theorem C14_gen_fresh_object : forall k h fl',
  history generated_table k none4 h fl' ->
  exists trs, abs_history k none4 h = Some trs /\
    disciplined (concat trs) init = true /\ Forall Inv (hist_states init trs) /\
    (forall (D C : Type) (dat : nat -> D) (F : cid -> D -> D -> C),
       Forall (fun p => fst p = Some (snd p)) (read_contents D C dat F (concat trs) init)).
Proof.
  intros k h fl' H.
  assert (K : kind_okb k (getb none4) = true) by (destruct k; reflexivity).
  assert (F : flags_are init none4) by (intros i; destruct i; reflexivity).
  destruct (C14_gen_refinement k none4 h fl' init H K Inv_init F) as (trs & A & B & C & _ & E & _).
  exists trs. auto.
Qed.
Print Assumptions C14_gen_fresh_object.

(* ---------- witnesses (hand-written two-method table PyCache.ex_tbl, independent of the source) ----------
   The semantics is inhabited and the abstraction is the modelled one: get_num_variables on a fresh object
   (flag test in the query, flag test in the builder, list emptied, one append, count assigned, flag set,
   count read) is a trace of the skeleton, the check accepts the table, and the trace abstracts to
   Cache.qtrace KArc QNum = [Build Vars; Read Vars]. *)
Example C14_gen_semantics_witness :
  call_of (ex_tbl true) KArc "get_num_variables" none4 (ex_evs true) (true, false, false, false) ORet /\
  check_entry (ex_tbl true) KArc true true "get_num_variables" = true /\
  option_map fst (abs_call KArc true none4 (ex_evs true) ORet) = Some (qtrace KArc QNum).
Proof.
  split; [|split; vm_compute; reflexivity].
  eexists. split; [reflexivity|]. unfold pseq. simpl.
  eapply (E_Seq _ _ _ _ _ _ _ [_;_;_;_;_;_] _ [_]).
  - eapply (E_IfFlag _ _ _ _ _ Vars); [reflexivity|]. simpl.
    eapply (E_Call _ _ _ _ "enumerate_variables" _ _ _ _ _ ONorm); [reflexivity|]. simpl.
    eapply (E_Seq _ _ _ _ _ _ _ [_] _ [_;_;_;_]).
    + eapply (E_IfFlag _ _ _ _ _ Vars); [reflexivity|]. simpl. constructor.
    + eapply (E_Seq _ _ _ _ _ _ _ [_] _ [_;_;_]); [apply (E_Init _ _ _ _ _ _ false)|].
      eapply (E_Seq _ _ _ _ _ _ _ [_] _ [_;_]).
      * eapply (E_LoopIter _ _ _ _ _ _ [_] _ ONorm []); [constructor | auto | constructor].
      * eapply (E_Seq _ _ _ _ _ _ _ [_] _ [_]); [apply (E_Init _ _ _ _ _ _ false)|].
        eapply (E_Seq _ _ _ _ _ _ _ [_] _ []); [apply E_InitB | constructor].
  - eapply (E_Seq _ _ _ _ _ _ _ [_] _ []); [constructor|].
    eapply E_SeqStop; [constructor | discriminate].
Qed.
Print Assumptions C14_gen_semantics_witness.

(* The same table without `self.var_mapping = []` (re-enumeration appends to the old list: the defect
   repaired by /repo 2f9adad, seeded change C18_a): the check rejects it and the monitor rejects the trace,
   at the append.  A lookup that does not enumerate first (before /repo 4965782) is rejected as well. *)
Example C14_gen_checker_rejects :
  check_entry (ex_tbl false) KArc true true "get_num_variables" = false /\
  abs_call KArc true none4 (ex_evs false) ORet = None /\
  abs_call KArc true none4 [FRead "var_mapping"] ORet = None /\
  mrun KArc true (mstart none4) [FTest "variables_enumerated" false; FTest "variables_enumerated" false]
    <> None /\
  mrun KArc true (mstart none4)
       [FTest "variables_enumerated" false; FTest "variables_enumerated" false; FMeth "var_mapping" "append"]
    = None.
Proof. vm_compute. repeat split; try reflexivity. discriminate. Qed.
Print Assumptions C14_gen_checker_rejects.
