(* C08_small_gen -- the example every test of test_small.py is built on (src/vrpqubo/examples/small.py, the instance of
   Desrochers / Desrosiers / Solomon), regenerated on every run by harness/translate_small.py into gen/SmallGen.v as the
   list of calls the builder makes (what the calls do: Vrptw.v / Path.v, tied to the classes by C15_gen, C06_gen and
   the correspondence checks).  Proved here about the GENERATED call list:
     - the builder only edits the graph, the route loop only adds routes; every add_arc is accepted;
     - the eleven routes get_path_based lists ("From paper, we know there are 11") are all accepted and are EVERY valid
       route of that VRPTW, so the path-based model of small.py meets the hypotheses stored_current / pool_complete of
       the C08 theorems (nothing is assumed about the pool);
     - hence C08_path_equiv and C08_path_qubo hold for it: its 0-1 program attains exactly the costs of the route
       partitions, and the minimisers of its default-penalty QUBO are the indicator vectors of the optimal partitions;
     - the optimum is 5 (what test_small.py hard-codes), attained by the single route D-1-2-3-D. *)
From Coq Require Import ZArith List Lia Bool.
From VQ Require Import Base LinAlg Vrptw Vrptw_facts Path Path_facts Penalty Penalty_facts Routes Routes_facts.
From VQP Require Import C08.
From VQG Require Import SmallGen.
Import ListNotations.
Open Scope Z_scope.

Definition small_ops : list pop := small_build ++ small_route_ops.
Notation small_st := (prun small_ops (pempty small_cap small_init)).

(* a pool that contains a complete pool of a state with the same graph and vehicle data is complete *)
Lemma pool_complete_transfer st st' :
  pg st = pg st' -> pcap st = pcap st' -> pinit st = pinit st' -> pool_complete st' ->
  forallb (fun r => existsb (list_eqb Nat.eqb r) (proutes st)) (proutes st') = true ->
  pool_complete st.
Proof.
  intros Hg Hc Hi Hp Hall r Hv.
  assert (Hv' : valid_route st' r) by (eapply valid_route_frame; [| | |exact Hv]; auto).
  apply Hp in Hv'. rewrite forallb_forall in Hall. apply Hall in Hv'.
  apply existsb_exists in Hv'. destruct Hv' as (r' & Hin & E). apply list_eqb_nat_eq in E. subst r'. exact Hin.
Qed.

(* the shape of the builder: get_vrptw makes no route call, the route loop makes no graph call *)
Theorem C08_small_gen_builder_shape :
  forallb (fun o => negb (route_op o)) small_build = true /\
  forallb (fun o => negb (graph_op o)) small_route_ops = true /\
  forallb route_op small_route_ops = true.
Proof. repeat split; reflexivity. Qed.
Print Assumptions C08_small_gen_builder_shape.

(* the graph: well formed, the node named in set_depot is the first node, every add_arc call was accepted (as many
   stored arcs as add_arc calls, the calls name pairwise different pairs), no depot self-arc *)
Theorem C08_small_gen_graph :
  Inv (pg small_st) /\
  index_of small_depot_name (names (pg small_st)) = Some 0%nat /\
  length (arcs (pg small_st)) = length (filter (fun o => match o with PAddArc _ _ _ _ => true | _ => false end) small_build) /\
  num_nodes small_st = length (filter (fun o => match o with PAddNode _ _ _ _ => true | _ => false end) small_build) /\
  no_depot_loop small_st.
Proof.
  split.
  { apply (pi_graph _ (proj1 (prun_stored small_ops (pempty small_cap small_init) (PInv_empty small_cap small_init)))). }
  vm_compute. repeat split; reflexivity.
Qed.
Print Assumptions C08_small_gen_graph.

(* the listed routes: all accepted, costs as stored, and they are ALL valid routes of the graph *)
Theorem C08_small_gen_pool :
  length (proutes small_st) = length small_route_ops /\
  stored_current small_st /\ pool_complete small_st.
Proof.
  split; [vm_compute; reflexivity|]. split.
  - apply stored_current_build_then_routes; [reflexivity | reflexivity].
  - destruct (enumerated_pool small_cap small_init small_build eq_refl) as (_ & Hpool & Hg).
    eapply pool_complete_transfer; [| | |exact Hpool|].
    + rewrite Hg. unfold small_ops. rewrite prun_app.
      apply (prun_frame small_route_ops). reflexivity.
    + vm_compute. reflexivity.
    + vm_compute. reflexivity.
    + vm_compute. reflexivity.
Qed.
Print Assumptions C08_small_gen_pool.

(* C08, path-based clause, for small.py: the 0-1 program of get_path_based() (3 rows, 11 columns) attains exactly the
   costs of the route partitions of get_vrptw() *)
Lemma small_num_nodes : num_nodes small_st = 4%nat.
Proof. vm_compute. reflexivity. Qed.
Lemma small_num_routes : length (proutes small_st) = 11%nat.
Proof. vm_compute. reflexivity. Qed.

Theorem C08_small_gen_path_equiv :
  exists s, path_sys small_st = Ok s /\
    zs_rows s = 3%nat /\ zs_cols s = 11%nat /\
    forall v, (exists xl, list_solution s xl /\ sys_value s (Zvec_of xl) = v) <->
              (exists R, partition small_st R /\ total_cost small_st R = v).
Proof.
  destruct C08_small_gen_pool as (Hlen & Hcur & Hpool).
  pose proof (C08_path_equiv small_cap small_init small_ops) as H. cbv zeta in H.
  assert (Hn : (0 < num_nodes small_st)%nat) by (rewrite small_num_nodes; lia).
  destruct (H Hn Hcur Hpool) as (s & Es & Hr & Hc & Hv). clear H.
  exists s. split; [exact Es|]. split; [rewrite Hr, small_num_nodes; reflexivity|].
  split; [rewrite Hc; exact small_num_routes | exact Hv].
Qed.
Print Assumptions C08_small_gen_path_equiv.

(* the single route D-1-2-3-D is a partition of cost 5 *)
Theorem C08_small_gen_partition_5 :
  partition small_st [[0; 1; 2; 3; 0]%nat] /\ total_cost small_st [[0; 1; 2; 3; 0]%nat] = 5.
Proof.
  destruct C08_small_gen_pool as (_ & Hcur & _).
  split; [|vm_compute; reflexivity].
  split; [constructor; [intros []|constructor]|]. split.
  - constructor; [|constructor].
    apply (Hcur 8%nat). vm_compute. reflexivity.
  - intros k Hk. rewrite small_num_nodes in Hk.
    destruct k as [|[|[|[|k]]]]; try lia; vm_compute; reflexivity.
Qed.
Print Assumptions C08_small_gen_partition_5.

(* 5 is the OPTIMUM (what test_small.py hard-codes).  Lower bound by a dual argument read off the pool: every valid route r
   satisfies 2 cost(r) >= 5 [2 on r] + 5 [3 on r] (checked on the eleven routes, which are all valid routes), and a partition
   visits customers 2 and 3 exactly once each *)
Lemma small_dual_bound r :
  In r (proutes small_st) -> 5 * on_route 2 r + 5 * on_route 3 r <= 2 * route_cost (pg small_st) r.
Proof.
  assert (H : forallb (fun r => 5 * on_route 2 r + 5 * on_route 3 r <=? 2 * route_cost (pg small_st) r) (proutes small_st) = true)
    by (vm_compute; reflexivity).
  rewrite forallb_forall in H. intros Hin. apply Z.leb_le. apply H. exact Hin.
Qed.

Lemma sum_dual R : sumZ (map (fun r => 5 * on_route 2 r + 5 * on_route 3 r) R) = 5 * visits R 2 + 5 * visits R 3.
Proof.
  unfold visits. induction R as [|r R IH]; [reflexivity|].
  cbn [map]. rewrite !sumZ_cons, IH. lia.
Qed.

Lemma sum_twice (f : list nat -> Z) R : sumZ (map (fun r => 2 * f r) R) = 2 * sumZ (map f R).
Proof. induction R as [|r R IH]; [reflexivity|]. cbn [map]. rewrite !sumZ_cons, IH. lia. Qed.

(* the argument for an abstract state (so that no tactic ever looks inside the concrete one) *)
Lemma optimum_from_dual (st : pstate) (R0 : list (list nat)) :
  pool_complete st -> num_nodes st = 4%nat ->
  (forall r, In r (proutes st) -> 5 * on_route 2 r + 5 * on_route 3 r <= 2 * route_cost (pg st) r) ->
  partition st R0 -> total_cost st R0 = 5 ->
  optimal_partition st R0 /\ forall R, optimal_partition st R -> total_cost st R = 5.
Proof.
  intros Hpool Hn Hdual Hp Hc.
  assert (Hlb : forall R, partition st R -> 5 <= total_cost st R).
  { intros R (_ & Hval & Hvis). unfold total_cost.
    assert (H2 : visits R 2 = 1) by (apply Hvis; rewrite Hn; lia).
    assert (H3 : visits R 3 = 1) by (apply Hvis; rewrite Hn; lia).
    pose proof (sumZ_map_le (fun r => 5 * on_route 2 r + 5 * on_route 3 r) (fun r => 2 * route_cost (pg st) r) R) as Hle.
    rewrite sum_dual, sum_twice, H2, H3 in Hle.
    assert (Hall : forall r, In r R -> 5 * on_route 2 r + 5 * on_route 3 r <= 2 * route_cost (pg st) r).
    { intros r Hin. apply Hdual. apply Hpool. rewrite Forall_forall in Hval. apply Hval. exact Hin. }
    specialize (Hle Hall). generalize dependent (sumZ (map (route_cost (pg st)) R)). intros z Hz. lia. }
  split.
  - split; [exact Hp|]. intros R' HR'. rewrite Hc. apply Hlb. exact HR'.
  - intros R (HR & Hmin). specialize (Hmin _ Hp). rewrite Hc in Hmin. specialize (Hlb _ HR). lia.
Qed.

Theorem C08_small_gen_optimum :
  optimal_partition small_st [[0; 1; 2; 3; 0]%nat] /\
  forall R, optimal_partition small_st R -> total_cost small_st R = 5.
Proof.
  apply optimum_from_dual.
  - exact (proj2 (proj2 C08_small_gen_pool)).
  - exact small_num_nodes.
  - exact small_dual_bound.
  - exact (proj1 C08_small_gen_partition_5).
  - exact (proj2 C08_small_gen_partition_5).
Qed.
Print Assumptions C08_small_gen_optimum.

(* capacity is not binding on small.py although its demands are not zero (hypothesis of the arc / sequence clauses of C08) *)
Theorem C08_small_gen_capacity_free : capacity_free small_st.
Proof. apply C08_capacity_free_nonneg_demands; vm_compute; reflexivity. Qed.
Print Assumptions C08_small_gen_capacity_free.

(* ... and the default-penalty QUBO of get_path_based().get_qubo(): its minimisers over all binary vectors are exactly
   the indicator vectors of the optimal partitions, with the optimal routing cost as value *)
Theorem C08_small_gen_path_qubo :
  exists s, path_sys small_st = Ok s /\
    let S := S_path (pcosts small_st) in
    (forall x, sys_qubo_min s S x <->
               exists R, optimal_partition small_st R /\ indicator_of small_st R x /\ Zbinary (zs_cols s) x) /\
    (forall x R, sys_qubo_min s S x -> optimal_partition small_st R -> sys_qubo_value s S x = total_cost small_st R).
Proof.
  destruct C08_small_gen_pool as (Hlen & Hcur & Hpool).
  pose proof (C08_path_qubo small_cap small_init small_ops) as H. cbv zeta in H.
  assert (Hn : (0 < num_nodes small_st)%nat) by (rewrite small_num_nodes; lia).
  apply (H Hn Hcur Hpool). exists [[0; 1; 2; 3; 0]%nat]. apply C08_small_gen_partition_5.
Qed.
Print Assumptions C08_small_gen_path_qubo.
