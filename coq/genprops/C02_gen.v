(* C02_gen -- the definition GENERATED from RoutingProblem.get_qubo (coq/gen/GetQuboGen.v, written by
   harness/translate_getqubo.py from the source under test on every run) computes the hand model
   Penalty.get_qubo / Penalty.get_qubo_checked, and the C02 identity holds for the generated
   program itself.

   Not part of the coq_makefile project (it depends on a generated file); compiled by
   ctx.gen_step("getqubo", ...) in harness/props/c02.py with
     coqc -Q theories VQ -Q props VQP -Q gen VQG -Q genprops VQGP genprops/C02_gen.v
   Every Theorem / Example below is one proof obligation.

   The generated program is a term over the dynamically typed Python values of theories/PyMat.v:
     gen_get_qubo Ops feasibility penalty_parameter
                  self_get_constraint_data self_get_objective_data self_get_sufficient_penalty
   `feasibility` is ANY Python value f whose truth value bool(f) is t (True/False, 0/1, numpy
   booleans ...), `penalty_parameter` is None or a number (opt_val pp), the three `self_...` are what
   the method calls return.  The statements are over an arbitrary commutative ring with a boolean
   equality (bundled as `ring_ops`); the unbundled forms and the Z / Qc instances follow the
   section. *)
From Coq Require Import ZArith QArith Qcanon Qcabs List Bool Arith Ring.
From VQ Require Import Base LinAlg Penalty Penalty_facts PyMat PyMat_facts.
From VQG Require Import GetQuboGen.
Import ListNotations.

Section Generic.
  Variable Ops : ring_ops.
  Hypothesis Oring : ring_theory (r0 Ops) (r1 Ops) (radd Ops) (rmul Ops) (rsub Ops) (ropp Ops) eq.
  Hypothesis Oeqb : forall a b, reqb Ops a b = true <-> a = b.
  Add Ring OpsRing : Oring.
  Notation K := (rK Ops).
  Notation hand := (get_qubo (rK Ops) (r0 Ops) (r1 Ops) (radd Ops) (rmul Ops) (ropp Ops)).
  Notation hand_checked :=
    (get_qubo_checked (rK Ops) (r0 Ops) (r1 Ops) (radd Ops) (rmul Ops) (ropp Ops) (reqb Ops)).
  Notation hsuff := (sufficient (rK Ops) (r0 Ops)).
  Notation hrho := (choose_rho (rK Ops) (r0 Ops) (r1 Ops) (radd Ops)).

  (* the default arguments in the signature: feasibility=False, penalty_parameter=None *)
  Theorem C02_gen_defaults_ops :
    gen_get_qubo_default_feasibility Ops = Ok (VBool false) /\
    gen_get_qubo_default_penalty_parameter Ops = Ok VNone.
  Proof. split; reflexivity. Qed.

  (* MAIN: on data of consistent shapes (A m x n, b m, R n x n, r_eq = 0, c n, Qo n x n) the generated
     program returns an n x n matrix value and a number, and they are, entry by entry, the matrix and
     the constant of Penalty.get_qubo with the weight chosen by Penalty.choose_rho. *)
  Theorem C02_gen_get_qubo_eq_ops :
    forall (m n : nat) (A : mat K) (b : vec K) (R : mat K) (c : vec K) (Qo : mat K) (pp : option K) (S : K)
           (f : val K) (t : bool) (suff : val K -> result (val K)),
      py_truth Ops f = Ok t ->
      suff f = Ok (Scal (hsuff t S)) ->
      exists Q k,
        gen_get_qubo Ops f (opt_val pp) (Ok (Mat m n A, Vec m b, Mat n n R, Scal (r0 Ops)))
                     (Ok (Vec n c, Mat n n Qo)) suff = Ok (Mat n n Q, Scal k) /\
        (forall i j, Q i j = fst (hand m t (hrho t S pp) (A, b, R) (c, Qo)) i j) /\
        k = snd (hand m t (hrho t S pp) (A, b, R) (c, Qo)).
  Proof.
    intros m n A b R c Qo pp S f t suff Ht Hs.
    assert (E0 : reqb Ops (r0 Ops) (r0 Ops) = true) by (apply Oeqb; reflexivity).
    unfold gen_get_qubo. cbn. rewrite Hs, ?E0. py_simpl.
    unfold e_if, py_not. rewrite Ht.
    destruct pp as [r|], t; py_simpl;
      (eexists; eexists; split; [reflexivity|]; split;
       [intros i j; unfold pen_matrix, obj_matrix, AtA, Atb, mv, transpose, two, sufficient;
        destruct (Nat.eqb i j); ring
       | unfold sufficient; try ring]).
  Qed.

  (* penalty_parameter None is the same computation as penalty_parameter = sufficient + 1, whatever
     the constraint / objective data are (and a number is used as it is: see C02_gen_get_qubo_eq) *)
  Theorem C02_gen_default_rho_ops :
    forall (f : val K) (s : K) cd od (suff : val K -> result (val K)),
      suff f = Ok (Scal s) ->
      gen_get_qubo Ops f VNone cd od suff = gen_get_qubo Ops f (Scal (radd Ops s (r1 Ops))) cd od suff.
  Proof.
    intros f s cd od suff Hs. unfold gen_get_qubo. cbn. rewrite Hs. cbn. reflexivity.
  Qed.

  (* r_eq != 0 raises ValueError before any matrix is touched (whatever the other data are) *)
  Theorem C02_gen_r_eq_rejected_ops :
    forall (f ppv Av bv Rv : val K) (r s : K) od (suff : val K -> result (val K)),
      suff f = Ok (Scal s) ->
      r <> r0 Ops ->
      gen_get_qubo Ops f ppv (Ok (Av, bv, Rv, Scal r)) od suff = Err ValueError.
  Proof.
    intros f ppv Av bv Rv r s od suff Hs Hr.
    assert (E : reqb Ops r (r0 Ops) = false).
    { destruct (reqb Ops r (r0 Ops)) eqn:E; [apply Oeqb in E; contradiction | reflexivity]. }
    unfold gen_get_qubo. cbn. rewrite Hs. cbn.
    destruct ppv; cbn; rewrite E; reflexivity.
  Qed.

  (* the C02 identity for the GENERATED program:
       x'Qx + k = [c'x + x'Qo x] + rho * (|Ax-b|^2 + x'Rx)      for every binary x *)
  Theorem C02_gen_identity_ops :
    forall (m n : nat) (A : mat K) (b : vec K) (R : mat K) (c : vec K) (Qo : mat K) (pp : option K) (S : K)
           (f : val K) (t : bool) (suff : val K -> result (val K)),
      py_truth Ops f = Ok t ->
      suff f = Ok (Scal (hsuff t S)) ->
      exists Q k,
        gen_get_qubo Ops f (opt_val pp) (Ok (Mat m n A, Vec m b, Mat n n R, Scal (r0 Ops)))
                     (Ok (Vec n c, Mat n n Qo)) suff = Ok (Mat n n Q, Scal k) /\
        forall x : vec K,
          binary K (r0 Ops) (r1 Ops) n x ->
          radd Ops (qf K (r0 Ops) (radd Ops) (rmul Ops) n Q x) k =
          radd Ops (if t then r0 Ops
                    else radd Ops (dot K (r0 Ops) (radd Ops) (rmul Ops) n c x)
                                  (qf K (r0 Ops) (radd Ops) (rmul Ops) n Qo x))
               (rmul Ops (hrho t S pp)
                     (radd Ops (resid_sq K (r0 Ops) (radd Ops) (rmul Ops) (rsub Ops) m n A b x)
                               (qf K (r0 Ops) (radd Ops) (rmul Ops) n R x))).
  Proof.
    intros m n A b R c Qo pp S f t suff Ht Hs.
    destruct (C02_gen_get_qubo_eq_ops m n A b R c Qo pp S f t suff Ht Hs) as [Q [k [E [HQ Hk]]]].
    exists Q, k. split; [exact E|]. intros x Hx.
    rewrite (qf_ext K (r0 Ops) (radd Ops) (rmul Ops) n Q
               (fst (hand m t (hrho t S pp) (A, b, R) (c, Qo))) x) by (intros; apply HQ).
    rewrite Hk.
    exact (get_qubo_identity_expanded K (r0 Ops) (r1 Ops) (radd Ops) (rmul Ops) (rsub Ops) (ropp Ops)
             Oring n m A b R c Qo (hrho t S pp) t x Hx).
  Qed.

  (* ALL shapes: on the data of a `qdata` record (entries plus the shapes the containers report, r_eq)
     the generated program and the shape-checked builder Penalty.get_qubo_checked have the same
     outcome -- the same exception class (ValueError for r_eq != 0 and for every shape mismatch, raised
     by the same operation), or an (n, n) matrix with the same entries and the same constant.  Hence
     C02_dims_ok / C02_dims_fail_iff are statements about the generated program too. *)
  Theorem C02_gen_checked_eq_ops :
    forall (d : qdata K) (pp : option K) (S : K) (f : val K) (t : bool) (suff : val K -> result (val K)),
      py_truth Ops f = Ok t ->
      suff f = Ok (Scal (hsuff t S)) ->
      same_outcome
        (gen_get_qubo Ops f (opt_val pp) (Ok (constraint_vals Ops d)) (Ok (objective_vals Ops d)) suff)
        (hand_checked t (hrho t S pp) d).
  Proof.
    intros d pp S f t suff Ht Hs.
    destruct d as [xA [ra ca] xb xR [rr cr] xr xc xQo [rq cq]].
    unfold get_qubo_checked, constraint_vals, objective_vals.
    cbn [dA dA_shape db dR dR_shape dr dc dQo dQo_shape fst snd].
    generalize (mat_of K (r0 Ops) xA) (vec_of K (r0 Ops) xb) (mat_of K (r0 Ops) xR)
               (vec_of K (r0 Ops) xc) (mat_of K (r0 Ops) xQo) (length xb) (length xc).
    intros A b R c Qo m lc.
    assert (Epp : forall T (k : val K -> result T),
               pbind (e_if (e_is_none (pret (opt_val pp)))
                        (pbind (e_add (pret (Scal (hsuff t S))) (e_num 1)) (fun p => pret p))
                        (pret (opt_val pp))) k
               = k (Scal (hrho t S pp))) by (intros T k; destruct pp; reflexivity).
    unfold gen_get_qubo. cbn [e_call1 pbind pret]. rewrite Hs. cbn [pbind]. rewrite Epp. clear Epp.
    generalize (hrho t S pp). intros rho.
    py_unfold. py_step.
    destruct (reqb Ops xr (r0 Ops)); py_step; [|reflexivity].
    destruct (Nat.eqb_spec ra m) as [E1|E1]; py_step; [subst ra|reflexivity].
    py_step.
    rewrite (same_shape_natpair rr cr ca ca).
    destruct (natpair_eqb (rr, cr) (ca, ca)) eqn:E2; py_step; [|reflexivity].
    apply natpair_eqb_eq in E2. inversion E2; subst rr cr. clear E2.
    py_step. rewrite Ht. py_step.
    destruct t; py_step.
    - cbn [same_outcome]. repeat split.
      apply mat_tab_ext. intros i j _ _. cbn [get_qubo fst].
      unfold pen_matrix, AtA, Atb, mv, transpose, two. destruct (Nat.eqb i j); ring.
    - rewrite (same_shape_natpair rq cq lc lc).
      destruct (natpair_eqb (rq, cq) (lc, lc)) eqn:E3; py_step; [|reflexivity].
      apply natpair_eqb_eq in E3. inversion E3; subst rq cq. clear E3.
      unfold same_shape. rewrite (Nat.eqb_sym ca lc).
      destruct (Nat.eqb_spec lc ca) as [E4|E4]; py_step; [subst lc|reflexivity].
      cbn [same_outcome]. repeat split.
      apply mat_tab_ext. intros i j _ _. cbn [get_qubo fst].
      unfold pen_matrix, obj_matrix, AtA, Atb, mv, transpose, two. destruct (Nat.eqb i j); ring.
  Qed.
End Generic.

(* ================= the statements over an unbundled commutative ring ================= *)

Theorem C02_gen_get_qubo_eq :
  forall (K : Type) (k0 k1 : K) (kadd kmul ksub : K -> K -> K) (kopp : K -> K)
         (keqb : K -> K -> bool) (kabs : K -> K),
    ring_theory k0 k1 kadd kmul ksub kopp eq ->
    (forall a b : K, keqb a b = true <-> a = b) ->
    let Ops := mkOps K k0 k1 kadd kmul ksub kopp keqb kabs in
    forall (m n : nat) (A : mat K) (b : vec K) (R : mat K) (c : vec K) (Qo : mat K) (pp : option K) (S : K)
           (f : val K) (t : bool) (suff : val K -> result (val K)),
      py_truth Ops f = Ok t ->
      suff f = Ok (Scal (if t then k0 else S)) ->
      exists Q k,
        gen_get_qubo Ops f (opt_val pp) (Ok (Mat m n A, Vec m b, Mat n n R, Scal k0))
                     (Ok (Vec n c, Mat n n Qo)) suff = Ok (Mat n n Q, Scal k) /\
        (forall i j,
            Q i j = fst (get_qubo K k0 k1 kadd kmul kopp m t (choose_rho K k0 k1 kadd t S pp)
                                  (A, b, R) (c, Qo)) i j) /\
        k = snd (get_qubo K k0 k1 kadd kmul kopp m t (choose_rho K k0 k1 kadd t S pp) (A, b, R) (c, Qo)).
Proof.
  intros K k0 k1 kadd kmul ksub kopp keqb kabs HR HE Ops.
  exact (C02_gen_get_qubo_eq_ops Ops HR HE).
Qed.

Theorem C02_gen_default_rho :
  forall (K : Type) (k0 k1 : K) (kadd kmul ksub : K -> K -> K) (kopp : K -> K)
         (keqb : K -> K -> bool) (kabs : K -> K),
    let Ops := mkOps K k0 k1 kadd kmul ksub kopp keqb kabs in
    forall (f : val K) (t : bool) (S : K) cd od (suff : val K -> result (val K)),
      suff f = Ok (Scal (if t then k0 else S)) ->
      (* None: the weight is sufficient + 1 (sufficient = 0 in feasibility mode) *)
      gen_get_qubo Ops f VNone cd od suff
      = gen_get_qubo Ops f (Scal (kadd (if t then k0 else S) k1)) cd od suff /\
      (* in general: the weight is Penalty.choose_rho *)
      forall pp : option K,
        gen_get_qubo Ops f (opt_val pp) cd od suff
        = gen_get_qubo Ops f (Scal (choose_rho K k0 k1 kadd t S pp)) cd od suff.
Proof.
  intros K k0 k1 kadd kmul ksub kopp keqb kabs Ops f t S cd od suff Hs.
  split; [exact (C02_gen_default_rho_ops Ops f _ cd od suff Hs)|].
  intros [r|]; [reflexivity | exact (C02_gen_default_rho_ops Ops f _ cd od suff Hs)].
Qed.

Theorem C02_gen_r_eq_rejected :
  forall (K : Type) (k0 k1 : K) (kadd kmul ksub : K -> K -> K) (kopp : K -> K)
         (keqb : K -> K -> bool) (kabs : K -> K),
    (forall a b : K, keqb a b = true <-> a = b) ->
    let Ops := mkOps K k0 k1 kadd kmul ksub kopp keqb kabs in
    forall (f ppv Av bv Rv : val K) (r s : K) od (suff : val K -> result (val K)),
      suff f = Ok (Scal s) ->
      r <> k0 ->
      gen_get_qubo Ops f ppv (Ok (Av, bv, Rv, Scal r)) od suff = Err ValueError.
Proof.
  intros K k0 k1 kadd kmul ksub kopp keqb kabs HE Ops.
  exact (C02_gen_r_eq_rejected_ops Ops HE).
Qed.

Theorem C02_gen_identity :
  forall (K : Type) (k0 k1 : K) (kadd kmul ksub : K -> K -> K) (kopp : K -> K)
         (keqb : K -> K -> bool) (kabs : K -> K),
    ring_theory k0 k1 kadd kmul ksub kopp eq ->
    (forall a b : K, keqb a b = true <-> a = b) ->
    let Ops := mkOps K k0 k1 kadd kmul ksub kopp keqb kabs in
    forall (m n : nat) (A : mat K) (b : vec K) (R : mat K) (c : vec K) (Qo : mat K) (pp : option K) (S : K)
           (f : val K) (t : bool) (suff : val K -> result (val K)),
      py_truth Ops f = Ok t ->
      suff f = Ok (Scal (if t then k0 else S)) ->
      exists Q k,
        gen_get_qubo Ops f (opt_val pp) (Ok (Mat m n A, Vec m b, Mat n n R, Scal k0))
                     (Ok (Vec n c, Mat n n Qo)) suff = Ok (Mat n n Q, Scal k) /\
        forall x : vec K,
          binary K k0 k1 n x ->
          kadd (qf K k0 kadd kmul n Q x) k =
          kadd (if t then k0 else kadd (dot K k0 kadd kmul n c x) (qf K k0 kadd kmul n Qo x))
               (kmul (choose_rho K k0 k1 kadd t S pp)
                     (kadd (resid_sq K k0 kadd kmul ksub m n A b x) (qf K k0 kadd kmul n R x))).
Proof.
  intros K k0 k1 kadd kmul ksub kopp keqb kabs HR HE Ops.
  exact (C02_gen_identity_ops Ops HR HE).
Qed.

Theorem C02_gen_checked_eq :
  forall (K : Type) (k0 k1 : K) (kadd kmul ksub : K -> K -> K) (kopp : K -> K)
         (keqb : K -> K -> bool) (kabs : K -> K),
    ring_theory k0 k1 kadd kmul ksub kopp eq ->
    let Ops := mkOps K k0 k1 kadd kmul ksub kopp keqb kabs in
    forall (d : qdata K) (pp : option K) (S : K) (f : val K) (t : bool) (suff : val K -> result (val K)),
      py_truth Ops f = Ok t ->
      suff f = Ok (Scal (if t then k0 else S)) ->
      same_outcome
        (gen_get_qubo Ops f (opt_val pp) (Ok (constraint_vals Ops d)) (Ok (objective_vals Ops d)) suff)
        (get_qubo_checked K k0 k1 kadd kmul kopp keqb t (choose_rho K k0 k1 kadd t S pp) d).
Proof.
  intros K k0 k1 kadd kmul ksub kopp keqb kabs HR Ops.
  exact (C02_gen_checked_eq_ops Ops HR).
Qed.

(* ================= instances: Z and Qc (the carrier the correspondence evaluates) ================= *)
Theorem C02_gen_identity_Z :
  forall (m n : nat) (A : mat Z) (b : vec Z) (R : mat Z) (c : vec Z) (Qo : mat Z) (pp : option Z) (S : Z)
         (f : val Z) (t : bool) (suff : val Z -> result (val Z)),
    py_truth Zops f = Ok t ->
    suff f = Ok (Scal (if t then 0 else S)%Z) ->
    exists Q k,
      gen_get_qubo Zops f (opt_val pp) (Ok (Mat m n A, Vec m b, Mat n n R, Scal 0%Z))
                   (Ok (Vec n c, Mat n n Qo)) suff = Ok (Mat n n Q, Scal k) /\
      (forall i j, Q i j = fst (Zget_qubo m t (Zchoose_rho t S pp) (A, b, R) (c, Qo)) i j) /\
      k = snd (Zget_qubo m t (Zchoose_rho t S pp) (A, b, R) (c, Qo)) /\
      forall x : vec Z,
        Zbinary n x ->
        (Zqf n Q x + k =
         (if t then 0 else Zdot n c x + Zqf n Qo x)
         + Zchoose_rho t S pp * (resid_sq Z 0 Z.add Z.mul Z.sub m n A b x + Zqf n R x))%Z.
Proof.
  intros m n A b R c Qo pp S f t suff Ht Hs.
  destruct (C02_gen_get_qubo_eq Z 0%Z 1%Z Z.add Z.mul Z.sub Z.opp Z.eqb Z.abs Zth Z.eqb_eq
              m n A b R c Qo pp S f t suff Ht Hs) as [Q [k [E [HQ Hk]]]].
  destruct (C02_gen_identity Z 0%Z 1%Z Z.add Z.mul Z.sub Z.opp Z.eqb Z.abs Zth Z.eqb_eq
              m n A b R c Qo pp S f t suff Ht Hs) as [Q' [k' [E' HI]]].
  assert (EQ : Ok (Mat n n Q, Scal k) = Ok (Mat n n Q', Scal k')) by (rewrite <- E, <- E'; reflexivity).
  inversion EQ; subst Q' k'.
  exists Q, k. repeat split; auto.
Qed.

Theorem C02_gen_identity_Qc :
  forall (m n : nat) (A : mat Qc) (b : vec Qc) (R : mat Qc) (c : vec Qc) (Qo : mat Qc) (pp : option Qc)
         (S : Qc) (f : val Qc) (t : bool) (suff : val Qc -> result (val Qc)),
    py_truth Qcops f = Ok t ->
    suff f = Ok (Scal (if t then Qc0 else S)) ->
    exists Q k,
      gen_get_qubo Qcops f (opt_val pp) (Ok (Mat m n A, Vec m b, Mat n n R, Scal Qc0))
                   (Ok (Vec n c, Mat n n Qo)) suff = Ok (Mat n n Q, Scal k) /\
      (forall i j, Q i j = fst (Qcget_qubo m t (choose_rho Qc Qc0 Qc1 Qcplus t S pp) (A, b, R) (c, Qo)) i j) /\
      k = snd (Qcget_qubo m t (choose_rho Qc Qc0 Qc1 Qcplus t S pp) (A, b, R) (c, Qo)) /\
      forall x : vec Qc,
        binary Qc Qc0 Qc1 n x ->
        (qf Qc Qc0 Qcplus Qcmult n Q x + k =
         (if t then Qc0 else dot Qc Qc0 Qcplus Qcmult n c x + qf Qc Qc0 Qcplus Qcmult n Qo x)
         + choose_rho Qc Qc0 Qc1 Qcplus t S pp
           * (resid_sq Qc Qc0 Qcplus Qcmult Qcminus m n A b x + qf Qc Qc0 Qcplus Qcmult n R x))%Qc.
Proof.
  intros m n A b R c Qo pp S f t suff Ht Hs.
  destruct (C02_gen_get_qubo_eq Qc Qc0 Qc1 Qcplus Qcmult Qcminus Qcopp Qc_eq_bool Qcabs Qcrt Qc_eq_bool_iff
              m n A b R c Qo pp S f t suff Ht Hs) as [Q [k [E [HQ Hk]]]].
  destruct (C02_gen_identity Qc Qc0 Qc1 Qcplus Qcmult Qcminus Qcopp Qc_eq_bool Qcabs Qcrt Qc_eq_bool_iff
              m n A b R c Qo pp S f t suff Ht Hs) as [Q' [k' [E' HI]]].
  assert (EQ : Ok (Mat n n Q, Scal k) = Ok (Mat n n Q', Scal k')) by (rewrite <- E, <- E'; reflexivity).
  inversion EQ; subst Q' k'.
  exists Q, k. repeat split; auto.
Qed.

(* C03 for the generated program: in feasibility mode (any truthy flag) with penalty_parameter None the value
   x'Qx + k of the returned matrix and constant is the penalty |Ax-b|^2 + x'Rx on every binary x; hence, for
   R >= 0 entrywise, it is >= 0 and it is 0 exactly on the feasible vectors (C03_nonneg / C03_zero_iff for
   the generated term). *)
Theorem C02_gen_feasibility_value_Z :
  forall (m n : nat) (A : mat Z) (b : vec Z) (R : mat Z) (c : vec Z) (Qo : mat Z) (S : Z)
         (f : val Z) (suff : val Z -> result (val Z)),
    py_truth Zops f = Ok true ->
    suff f = Ok (Scal 0%Z) ->
    exists Q k,
      gen_get_qubo Zops f VNone (Ok (Mat m n A, Vec m b, Mat n n R, Scal 0%Z))
                   (Ok (Vec n c, Mat n n Qo)) suff = Ok (Mat n n Q, Scal k) /\
      forall x : vec Z,
        Zbinary n x ->
        (Zqf n Q x + k = Zpenalty m n A b R x)%Z /\
        ((forall i j, (i < n)%nat -> (j < n)%nat -> (0 <= R i j)%Z) ->
         (0 <= Zqf n Q x + k)%Z /\
         ((Zqf n Q x + k = 0)%Z <-> Zfeasible m n A b R x)).
Proof.
  intros m n A b R c Qo S f suff Ht Hs.
  destruct (C02_gen_identity_Z m n A b R c Qo None S f true suff Ht Hs) as [Q [k [E [HQ [Hk HI]]]]].
  exists Q, k. split; [exact E|]. intros x Hx.
  assert (EV : (Zqf n Q x + k = Zpenalty m n A b R x)%Z).
  { rewrite (HI x Hx). unfold Zpenalty, penalty, Zqf, Zchoose_rho, choose_rho, sufficient.
    cbn [Z.add]. ring. }
  split; [exact EV|]. intros HR. rewrite EV. split.
  - apply penalty_nonneg; assumption.
  - apply penalty_zero_iff; assumption.
Qed.

(* the mode flag is a truth value, not a bool: 0 / 1 (numbers) select the same program as False / True *)
Theorem C02_gen_flag_by_truth_Z :
  forall (z : Z) pp cd od (suff : val Z -> result (val Z)),
    suff (Scal z) = suff (VBool (negb (Z.eqb z 0))) ->
    gen_get_qubo Zops (Scal z) pp cd od suff = gen_get_qubo Zops (VBool (negb (Z.eqb z 0))) pp cd od suff.
Proof.
  intros z pp cd od suff Hs. unfold gen_get_qubo. cbn. rewrite Hs. reflexivity.
Qed.

(* Non-vacuity, by evaluation of the generated program on the data of C02_example_ok (2 variables,
   x0 + x1 = 1, R = e0 e1', c = (3,-2), Qo = 5 e0 e1', rho = 7): the matrix [[-4,19],[7,-9]] and the
   constant 7; with penalty_parameter None and S = 6 the weight is 7 as well; r_eq = 1 is rejected; an A
   that lost its last column gives ValueError. *)
Example C02_gen_example :
  let cd r := Ok (constraint_vals Zops
                    (mkQdata [[1; 1]]%Z (1, 2)%nat [1]%Z [[0; 1]; [0; 0]]%Z (2, 2)%nat r
                             [3; -2]%Z [[0; 5]; [0; 0]]%Z (2, 2)%nat)) in
  let od := Ok (objective_vals Zops
                  (mkQdata [[1; 1]]%Z (1, 2)%nat [1]%Z [[0; 1]; [0; 0]]%Z (2, 2)%nat 0%Z
                           [3; -2]%Z [[0; 5]; [0; 0]]%Z (2, 2)%nat)) in
  let suff (f : val Z) := pbind (py_truth Zops f) (fun t => Ok (Scal (if t then 0 else 6)%Z)) in
  let show (g : result (val Z * val Z)) :=
      match g with
      | Ok (Mat r c Q, Scal k) => Ok (r, c, mat_tab Z r c Q, k)
      | Ok _ => Err OtherError
      | Err e => Err e
      end in
  show (gen_get_qubo Zops (VBool false) (Scal 7%Z) (cd 0%Z) od suff)
    = Ok (2%nat, 2%nat, [[-4; 19]; [7; -9]]%Z, 7%Z) /\
  show (gen_get_qubo Zops (VBool false) VNone (cd 0%Z) od suff)
    = Ok (2%nat, 2%nat, [[-4; 19]; [7; -9]]%Z, 7%Z) /\
  show (gen_get_qubo Zops (VBool true) VNone (cd 0%Z) od suff)
    = Ok (2%nat, 2%nat, [[-1; 2]; [1; -1]]%Z, 1%Z) /\
  show (gen_get_qubo Zops (VBool false) (Scal 7%Z) (cd 1%Z) od suff) = Err ValueError /\
  show (gen_get_qubo Zops (VBool false) (Scal 7%Z)
          (Ok (Mat 1 1 (Zmat_of [[1]]%Z), Vec 1 (Zvec_of [1]%Z), Mat 2 2 (Zmat_of [[0; 1]; [0; 0]]%Z),
               Scal 0%Z)) od suff) = Err ValueError.
Proof. vm_compute. repeat split. Qed.

Print Assumptions C02_gen_defaults_ops.
Print Assumptions C02_gen_get_qubo_eq.
Print Assumptions C02_gen_default_rho.
Print Assumptions C02_gen_r_eq_rejected.
Print Assumptions C02_gen_identity.
Print Assumptions C02_gen_checked_eq.
Print Assumptions C02_gen_identity_Z.
Print Assumptions C02_gen_identity_Qc.
Print Assumptions C02_gen_feasibility_value_Z.
Print Assumptions C02_gen_flag_by_truth_Z.
Print Assumptions C02_gen_example.
