(* C15_gen -- the definitions GENERATED on every run from the Python source of Node / Arc / VRPTW /
   RoutingProblem / SequenceBasedRoutingProblem (coq/gen/VrptwGen.v, written by
   harness/translate_vrptw.py) coincide with the hand model Vrptw.v, and the C15 invariant holds for
   histories executed with the generated methods.

   Not part of the coq_makefile project (it depends on a generated file): harness/props/c15.py compiles
   gen/VrptwGen.v and then this file through ctx.gen_step and counts every theorem as an obligation.

   Reading guide.  A generated method is a function  graph -> args -> M T = graph * result T  (state after
   the call -- also after a raise -- and value / exception class).  The hand model returns `result graph`;
   `lift_unit g r` / `lift_bool g r` (PyVrptw.v) read it as a method outcome in which an exception leaves the
   state g untouched.  So `gen_f g args = lift_.. g (f g args)` says: same value, same exception class,
   same final state, and nothing was mutated before a raise.
   Hypotheses.  `length (names g) = length (nodes g)`: the generated code indexes self.nodes with a
   position found in self.node_names and Python would raise IndexError where the hand model reads a
   default.  `NoDup (map fst (arcs g))`: set_depot refills the dict by `update`, which would merge equal keys.
   The sequence class's set_depot (strict, depot moved) re-adds the stored arcs by the names of their
   endpoints: it is proved equal under the whole invariant `Inv g` (every arc names two nodes of the graph, so
   no iteration of the loop raises and no half-rebuilt dict is left behind).
   All are parts of the C15 invariant `Inv`; C15_gen_step_eq / C15_gen_invariant discharge them along
   every history that starts from the empty graph. *)
From Coq Require Import List Arith Bool ZArith Lia.
From VQ Require Import Base Vrptw Vrptw_facts PyVrptw PyVrptw_facts Heur.
From VQG Require Import VrptwGen.
Import ListNotations.

(* ---------- constants and value classes ---------- *)
Theorem C15_gen_depot_index : gen_depot_index_init = O.
Proof. reflexivity. Qed.
Print Assumptions C15_gen_depot_index.

(* VRPTW.__init__: the object starts as the empty graph of the hand model *)
Theorem C15_gen_init : gen_VRPTW_init = empty_graph.
Proof. reflexivity. Qed.
Print Assumptions C15_gen_init.

Theorem C15_gen_defaults :
  gen_add_node_default_t_w = (0%Z, PInf) /\ gen_add_arc_default_cost = 0%Z /\
  gen_rp_add_node_default_t_w = (0%Z, PInf) /\ gen_rp_add_arc_default_cost = 0%Z /\
  gen_seq_add_arc_default_cost = 0%Z.
Proof. repeat split; reflexivity. Qed.
Print Assumptions C15_gen_defaults.

(* Node.__init__: ValueError iff the window is inverted, else the node record; get_window reads it back *)
Theorem C15_gen_Node_init : forall nm dem lo hi,
  gen_Node_init nm dem (lo, hi) = (if negb (window_ok lo hi) then Err ValueError else Ok (mkNode nm dem lo hi)) /\
  gen_Node_get_window (mkNode nm dem lo hi) = (lo, hi) /\
  gen_Node_get_name (mkNode nm dem lo hi) = nm /\ gen_Node_get_demand (mkNode nm dem lo hi) = dem.
Proof. intros. repeat split; reflexivity. Qed.
Print Assumptions C15_gen_Node_init.

Theorem C15_gen_Arc_init : forall o d tm cost,
  gen_Arc_init o d tm cost = Ok (mkArc (nname o) (nname d) tm cost).
Proof. intros; reflexivity. Qed.
Print Assumptions C15_gen_Arc_init.

(* ---------- VRPTW methods ---------- *)
Theorem C15_gen_get_node_index : forall g nm,
  gen_get_node_index g nm = (g, match index_of nm (names g) with Some i => Ok i | None => Err ValueError end).
Proof. intros. unfold gen_get_node_index, py_index. destruct (index_of nm (names g)); reflexivity. Qed.
Print Assumptions C15_gen_get_node_index.

Theorem C15_gen_add_node : forall g nm dem lo hi,
  gen_add_node g nm dem (lo, hi) = lift_unit g (add_node g nm dem lo hi).
Proof.
  intros. unfold gen_add_node, add_node, py_in.
  destruct (memb nm (names g)); [reflexivity|].
  unfold gen_Node_init, fl_gt, window_ok. cbn [fst snd].
  destruct (ext_leb (Fin lo) hi); reflexivity.
Qed.
Print Assumptions C15_gen_add_node.

(* base class add_arc = add_arc_gen false *)
Theorem C15_gen_add_arc : forall g o d tm cost,
  length (names g) = length (nodes g) ->
  gen_add_arc g o d tm cost = lift_bool g (add_arc g o d tm cost).
Proof.
  intros g o d tm cost Hl. unfold gen_add_arc, add_arc, add_arc_gen.
  (* whichever of the two lookups the source does first: a miss of either gives ValueError *)
  destruct (index_of o (names g)) as [i|] eqn:Ei; destruct (index_of d (names g)) as [j|] eqn:Ej;
    repeat (rewrite C15_gen_get_node_index, ?Ei, ?Ej; cbn [call]); try reflexivity.
  apply index_of_lt in Ei, Ej. rewrite Hl in Ei, Ej.
  rewrite !(py_getitem_nth dummy_node _ i Ei), !(py_getitem_nth dummy_node _ j Ej). cbn [try_ andb].
  unfold base_filter, fl_le, node_time_window. cbn [fst snd].
  destruct (ext_leb _ _); reflexivity.
Qed.
Print Assumptions C15_gen_add_arc.

Theorem C15_gen_set_depot : forall g nm,
  length (names g) = length (nodes g) -> NoDup (map fst (arcs g)) ->
  gen_set_depot g nm = lift_unit g (set_depot g nm).
Proof.
  intros g nm Hl Hk. unfold gen_set_depot, set_depot, py_index.
  destruct (index_of nm (names g)) as [d|] eqn:Ed; [|reflexivity]. cbn [try_].
  pose proof (index_of_lt _ _ _ Ed) as Hd. rewrite Hl in Hd.
  rewrite (py_getitem_nth dummy_node _ d Hd). cbn [try_].
  destruct d as [|d]; [reflexivity|].
  change (nat_eq (S d) 0) with false. cbv iota.
  rewrite (py_pop_nth dummy_node _ _ Hd). cbn [try_ fst snd set_nodes set_names set_arcs names nodes arcs].
  rewrite (py_remove_index _ _ _ Ed). cbn [try_ fst snd set_nodes set_names set_arcs names nodes arcs].
  rewrite (move_front_names _ _ _ Ed), py_insert_0.
  unfold ret, lift_unit, set_arcs, set_names, set_nodes; cbn [names nodes arcs].
  match goal with |- (_, _) = (mkGraph _ _ (rekey ?k ?a), _) =>
    match goal with |- context [dict_update ?m _] => assert (E : m = rekey k a) end end.
  { (* the nested helper new_position agrees with new_pos, however its case analysis is written *)
    unfold rekey, dict_items. apply map_ext. intros [[i j] x]. cbn [fst snd].
    unfold new_pos, nat_eq, nat_ne, nat_lt, nat_le, nat_gt, nat_ge. rewrite ?Nat.add_1_r, ?Nat.add_1_l.
    repeat match goal with
           | |- context [Nat.eqb ?a ?b] => destruct (Nat.eqb_spec a b)
           | |- context [Nat.ltb ?a ?b] => destruct (Nat.ltb_spec a b)
           | |- context [Nat.leb ?a ?b] => destruct (Nat.leb_spec a b)
           end; cbn [negb]; try reflexivity; exfalso; lia. }
  rewrite E, dict_update_clear; [reflexivity|]. apply rekey_keys_NoDup. exact Hk.
Qed.
Print Assumptions C15_gen_set_depot.

(* min(#keys leaving position depot_index, #keys entering it), with depot_index as VRPTW.__init__ sets it *)
Theorem C15_gen_estimate_max_vehicles : forall g,
  gen_estimate_max_vehicles g gen_depot_index_init = (g, Ok (Z.of_nat (Heur.max_vehicles g))).
Proof.
  intros g. unfold gen_estimate_max_vehicles, gen_depot_index_init, Heur.max_vehicles.
  rewrite (fold_counts _ (fun k => Nat.eqb (fst k) 0) (fun k => Nat.eqb (snd k) 0)).
  - unfold cnt. rewrite !filter_keys_length, !Z.add_0_l, <- Nat2Z.inj_min. reflexivity.
  - intros a b k. unfold nat_eq. destruct (Nat.eqb (fst k) 0), (Nat.eqb (snd k) 0); rewrite ?Z.add_0_r; reflexivity.
Qed.
Print Assumptions C15_gen_estimate_max_vehicles.

(* ---------- RoutingProblem: plain delegation to self.vrptw ---------- *)
Theorem C15_gen_rp_delegates :
  (forall g nm, gen_rp_get_node_index g nm = gen_get_node_index g nm) /\
  (forall g nm dem tw, gen_rp_add_node g nm dem tw = gen_add_node g nm dem tw) /\
  (forall g o d tm cost, gen_rp_add_arc g o d tm cost = gen_add_arc g o d tm cost) /\
  (forall g nm, gen_rp_set_depot g nm = gen_set_depot g nm) /\
  (forall g di, gen_rp_estimate_max_vehicles g di = gen_estimate_max_vehicles g di).
Proof. repeat split; intros; apply call_ret. Qed.
Print Assumptions C15_gen_rp_delegates.

(* ---------- SequenceBasedRoutingProblem overrides ---------- *)
(* add_arc with the strict rule (origin window END + travel time <= destination window end unless the
   origin is at position 0) = add_arc_gen strict; this is the arc rule C07's strict-time theorems use *)
Theorem C15_gen_seq_add_arc : forall strict g o d tm cost,
  length (names g) = length (nodes g) ->
  gen_seq_add_arc strict g o d tm cost = lift_bool g (add_arc_gen strict g o d tm cost).
Proof.
  intros strict g o d tm cost Hl. unfold gen_seq_add_arc.
  destruct C15_gen_rp_delegates as (Ri & _ & Ra & _). rewrite Ri, C15_gen_get_node_index.
  destruct (index_of o (names g)) as [i|] eqn:Ei; cbn [call].
  2:{ unfold add_arc_gen. rewrite Ei. reflexivity. }
  destruct (strict && nat_ne i 0)%bool eqn:Es.
  - rewrite Ri, C15_gen_get_node_index. unfold add_arc_gen. rewrite Ei.
    destruct (index_of d (names g)) as [j|] eqn:Ej; [|reflexivity]. cbn [call].
    apply index_of_lt in Ei, Ej. rewrite Hl in Ei, Ej.
    rewrite !(py_getitem_nth dummy_node _ i Ei), !(py_getitem_nth dummy_node _ j Ej). cbn [try_].
    unfold nat_ne in Es. rewrite Es.
    unfold strict_filter, fl_le, fl_plus, gen_Node_get_window, node_time_window. cbn [fst snd].
    destruct (ext_leb _ _); reflexivity.
  - rewrite Ra, call_ret, (C15_gen_add_arc _ _ _ _ _ Hl). unfold add_arc, add_arc_gen. rewrite Ei.
    destruct (index_of d (names g)) as [j|]; [|reflexivity].
    unfold nat_ne in Es. rewrite Es. reflexivity.
Qed.
Print Assumptions C15_gen_seq_add_arc.

(* the strict set_depot: the local `moved`, the base behaviour, and -- when strict and moved -- the
   re-adding of every stored arc, by the names of its endpoints and in dict order, into a fresh dict;
   then the depot self-arc.  Needs the whole invariant: the loop body calls add_arc for names read back
   from stored arcs, which exist because every arc is filed under its own endpoints (inv_arcs). *)
Theorem C15_gen_seq_set_depot : forall strict g nm,
  Inv g ->
  gen_seq_set_depot strict g nm = lift_unit g (seq_set_depot strict g nm).
Proof.
  intros strict g nm HI. pose proof (Inv_lengths _ HI) as Hl. pose proof (inv_keys _ HI) as Hk.
  unfold gen_seq_set_depot, seq_set_depot, py_index.
  destruct (index_of nm (names g)) as [d0|] eqn:Ed; [|reflexivity]. cbn [try_]. cbv zeta.
  destruct C15_gen_rp_delegates as (_ & _ & _ & Rd & _). rewrite Rd, (C15_gen_set_depot _ _ Hl Hk), call_lift_unit.
  destruct (set_depot g nm) as [g1|e] eqn:E; [|reflexivity].
  pose proof (set_depot_nonempty _ _ _ Hl E) as Hn.
  pose proof (set_depot_inv _ _ _ HI E) as HI1. pose proof (Inv_lengths _ HI1) as Hl1.
  assert (Hb : forall s a, length (names s) = length (nodes s) ->
            call (gen_seq_add_arc strict s (arc_origin_name a) (arc_destination_name a) (att a) (acost a))
                 (fun s' _ => ret s' tt)
            = lift_unit s (match add_arc_gen strict s (aorig a) (adest a) (att a) (acost a) with
                           | Ok (g', _) => Ok g' | Err e => Err e end)).
  { intros s a Hs. rewrite (C15_gen_seq_add_arc _ _ _ _ _ _ Hs). unfold arc_origin_name, arc_destination_name.
    destruct (add_arc_gen strict s (aorig a) (adest a) (att a) (acost a)) as [[g' b]|e]; reflexivity. }
  assert (Hnm : forall kv, In kv (arcs g1) ->
            In (aorig (snd kv)) (names (mkGraph (names g1) (nodes g1) [])) /\
            In (adest (snd kv)) (names (mkGraph (names g1) (nodes g1) []))).
  { intros [k a] Hin. cbn [names snd]. eapply arc_names_in; eauto. }
  (* the test `self.strict and moved`, whichever way round it is written *)
  unfold nat_ne, nat_eq. destruct strict; destruct (Nat.eqb d0 0); cbn [andb orb negb];
    try (rewrite !(py_getitem_nth dummy_node _ 0 Hn); reflexivity).
  (* strict and moved: the loop is readd_arcs on the graph with a fresh arc dict *)
  change (set_arcs dict_new g1) with (mkGraph (names g1) (nodes g1) []).
  rewrite (for_each_readd true _ Hb (arcs g1) (mkGraph (names g1) (nodes g1) []) Hl1 Hnm).
  destruct (readd_arcs_ok true _ _ Hnm) as [g2 E2]. rewrite E2. cbn [lift_unit call].
  destruct (readd_arcs_frame _ _ _ _ E2) as [_ En2]. cbn [nodes] in En2.
  assert (Hn2 : (0 < length (nodes g2))%nat) by (rewrite En2; exact Hn).
  rewrite !(py_getitem_nth dummy_node _ 0 Hn2). reflexivity.
Qed.
Print Assumptions C15_gen_seq_set_depot.

(* ---------- histories run with the generated methods ---------- *)
(* one call: on a graph satisfying the C15 invariant the generated method and Vrptw.step agree on the
   final state (also after a raise) and on the outcome *)
Theorem C15_gen_step_eq : forall c g o, Inv g ->
  gstep gen_add_node gen_add_arc gen_set_depot
        (fun _ => gen_rp_add_node) gen_seq_add_arc gen_seq_set_depot c g o = step c g o.
Proof.
  intros c g o HI. pose proof (Inv_lengths _ HI) as Hl. pose proof (inv_keys _ HI) as Hk.
  destruct C15_gen_rp_delegates as (_ & Rn & _).
  destruct o as [nm dem lo hi|o d tm cost|nm], c as [|s]; cbn [gstep step]; unfold add_arc.
  - rewrite C15_gen_add_node. destruct (add_node g nm dem lo hi); reflexivity.
  - rewrite Rn, C15_gen_add_node. destruct (add_node g nm dem lo hi); reflexivity.
  - rewrite (C15_gen_add_arc _ _ _ _ _ Hl). unfold add_arc.
    destruct (add_arc_gen false g o d tm cost) as [[g' b]|e]; reflexivity.
  - rewrite (C15_gen_seq_add_arc _ _ _ _ _ _ Hl).
    destruct (add_arc_gen s g o d tm cost) as [[g' b]|e]; reflexivity.
  - rewrite (C15_gen_set_depot _ _ Hl Hk). destruct (set_depot g nm); reflexivity.
  - rewrite (C15_gen_seq_set_depot _ _ _ HI). destruct (seq_set_depot s g nm); reflexivity.
Qed.
Print Assumptions C15_gen_step_eq.

(* every history from the empty graph: same observations after every call as the hand model (the ones the
   correspondence check compares with the implementation) *)
Theorem C15_gen_trace_eq : forall c ops g, Inv g ->
  gtrace gen_add_node gen_add_arc gen_set_depot
         (fun _ => gen_rp_add_node) gen_seq_add_arc gen_seq_set_depot c ops g = trace c ops g.
Proof.
  intros c ops. induction ops as [|o ops IH]; intros g HI; [reflexivity|].
  cbn [gtrace trace]. rewrite (C15_gen_step_eq c g o HI). cbv zeta. f_equal.
  apply IH. apply step_inv. exact HI.
Qed.
Print Assumptions C15_gen_trace_eq.

(* C15_inv restated for the generated methods: every history of add_node / add_arc / set_depot executed
   with the generated code, for the base class and both sequence classes, from the generated initial
   object, ends in a
   graph with unique aligned names, ordered windows, unique arc keys, every arc filed under the positions
   of its own endpoints and satisfying the timing filter. *)
Theorem C15_gen_invariant : forall (c : gclass) (ops : list gop),
  Inv (grun gen_add_node gen_add_arc gen_set_depot
            (fun _ => gen_rp_add_node) gen_seq_add_arc gen_seq_set_depot c ops gen_VRPTW_init).
Proof.
  intros c ops. unfold grun.
  assert (H : forall g, Inv g ->
            Inv (fold_left (fun g o => fst (gstep gen_add_node gen_add_arc gen_set_depot
                   (fun _ => gen_rp_add_node) gen_seq_add_arc gen_seq_set_depot c g o)) ops g)).
  { induction ops as [|o ops IH]; intros g HI; [exact HI|].
    cbn [fold_left]. apply IH. rewrite (C15_gen_step_eq c g o HI). apply step_inv. exact HI. }
  apply H. rewrite C15_gen_init. exact Inv_empty.
Qed.
Print Assumptions C15_gen_invariant.

(* the depot chosen through the generated set_depot (either class) is first *)
Theorem C15_gen_depot_first : forall strict g nm g',
  Inv g ->
  (gen_set_depot g nm = (g', Ok tt) \/ gen_seq_set_depot strict g nm = (g', Ok tt)) ->
  hd_error (names g') = Some nm.
Proof.
  intros strict g nm g' HI H. pose proof (Inv_lengths _ HI) as Hl. pose proof (inv_keys _ HI) as Hk.
  rewrite (C15_gen_set_depot _ _ Hl Hk), (C15_gen_seq_set_depot _ _ _ HI) in H.
  destruct H as [H|H].
  - destruct (set_depot g nm) as [g1|e] eqn:E; inversion H; subst. eapply set_depot_first; eauto.
  - destruct (seq_set_depot strict g nm) as [g1|e] eqn:E; inversion H; subst. eapply seq_set_depot_first; eauto.
Qed.
Print Assumptions C15_gen_depot_first.
