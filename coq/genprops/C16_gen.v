(* C16_gen -- isolation of formulations, established for the reference flow READ OFF THE SOURCE.

   coq/gen/AliasGen.v (printed by harness/translate_aliasflow.py on every run) holds, for every class, method and
   function of vrptw.py, routing_problem.py, the three formulation files and applications/mirp.py, its statement
   skeleton over abstract expressions (which names, attributes, items, calls, displays occur where), the class-body
   assignments and the imports.  theories/PyAlias.v defines a flow analysis over these skeletons (what an expression
   may denote: the receiver's own graph, one of its three containers, a Node / Arc of it, a parameter, an object
   made by the call, ...), the meaning of a write in the object store of Store.v (`classify`, `cstep`, `mtrace`),
   the decision procedure `alias_disciplined`, and the meaning of a MIRP getter as a step of Store.v's getter
   machine (`gexec`); theories/PyAlias_facts.v proves the procedure sound.  Here it is run on the generated table
   (a computation on one finite object) and the statements of C16 are concluded for the skeletons of the real
   methods.  The only hypothesis left is the library contract of copy.deepcopy (the three clauses of props/C16.v). *)
From Coq Require Import String List.
From VQ Require Import Base Store Store_facts PyAlias PyAlias_facts.
From VQG Require Import AliasGen.
Import ListNotations.
Close Scope Z_scope.
Local Open Scope string_scope.

(* 1. The generated table passes the check:
      - every in-place change (attribute / item assignment, del, augmented assignment, append / pop / remove / insert /
        clear / update / ... call) in every method of every class changes a container of the receiver's own graph,
        re-binds a container attribute of it to a new object, changes an object made by the call, or changes
        non-graph state of the receiver -- never a Node or Arc, never anything reached through a constructor
        parameter or a module-level / class-level object, never anything the analysis cannot place;
      - self.vrptw is assigned in constructors only and holds VRPTW() or copy.deepcopy(<one argument>), `deepcopy`
        being the name imported from `copy`; no other attribute ever holds a graph or one of its containers;
      - VRPTW, Node and Arc have no base class and define none of __deepcopy__ / __copy__ / __reduce__ /
        __getstate__ / __setstate__ / __new__ / __getattr__ / __setattr__ / ... : the deep copy is the library's;
      - no class of the table has a class-level attribute that is not an immutable literal;
      - references to the own graph, its containers, nodes and arcs are handed only to copy.deepcopy, to reading
        library functions and to functions / methods / constructors of the table (whose parameters then carry them in
        the analysis); containers are returned only by the property forwarders;
      - the three MIRP getters test their cache with `is not None` / `is None`, build with C(self.vrptw[, strict]),
        store the result in their own attribute only, mention no other cache, return their cache, and neither they
        nor what they call on self change the MIRP's graph or an object held in another attribute. *)
Theorem C16_gen_table_disciplined : alias_disciplined generated_table = true.
Proof. vm_cast_no_check (eq_refl true). Qed.
Print Assumptions C16_gen_table_disciplined.

(* 2. Every write class of every method of the table is one of the good ones; hence every run of every method (any
      interleaving of its writes, of the writes of what it calls, and of allocations) on a graph handle g keeps the
      frame conditions of C16_frame relative to the store the call started in: nothing that existed and is not a
      container of g changes, and g's containers afterwards are old containers of g or new objects. *)
Theorem C16_gen_writes_in_footprint :
  forallb wclass_good (all_classes (analyse generated_table)) = true /\
  forall c m s0 g s,
    mtrace s0 g (method_classes generated_table (analyse generated_table) c m) s ->
    (length s0 <= length s)%nat /\
    (forall l, (l < length s0)%nat -> ~ In l (footprint s0 g) -> rd s l = rd s0 l) /\
    (forall l, In l (footprint s g) -> In l (footprint s0 g) \/ (length s0 <= l)%nat).
Proof.
  split; [exact (all_classes_good generated_table C16_gen_table_disciplined)|].
  intros c m s0 g s T. exact (method_run_frame generated_table C16_gen_table_disciplined c m s0 g s T).
Qed.
Print Assumptions C16_gen_writes_in_footprint.

(* 3. Source untouched.  Start from a store with one well-formed graph src (a VRPTW, or the graph of a MIRP).  Any
      history of constructions of formulations from src or from graphs made earlier (each constructor obtaining its
      graph the way the generated RoutingProblem.__init__ does: VRPTW() or deepcopy) and of calls of ANY methods of
      the table on those formulations' graphs -- but no call on src itself -- leaves the view of src unchanged.
      `deepcopy` is any function meeting the library contract. *)
Theorem C16_gen_source_untouched :
  forall (deepcopy : store -> loc -> store * loc),
  (forall s g l, (l < length s)%nat -> rd (fst (deepcopy s g)) l = rd s l) ->
  (forall s g l, In l (reach (fst (deepcopy s g)) (snd (deepcopy s g))) ->
                 (length s <= l)%nat /\ (l < length (fst (deepcopy s g)))%nat) ->
  (forall s g, view (fst (deepcopy s g)) (snd (deepcopy s g)) = view s g) ->
  forall s src acts hs' s',
    wt s src ->
    wrun deepcopy (all_classes (analyse generated_table)) (graph_sources (analyse generated_table))
         ([src], s) acts (hs', s') ->
    ~ In (ACall src) acts ->
    view s' src = view s src.
Proof.
  intros dc H1 H2 H3 s src acts hs' s' W R Hn.
  destruct (world_run dc H1 H2 H3 _ _ _ _ _
              (all_classes_good generated_table C16_gen_table_disciplined)
              (sources_not_shared generated_table C16_gen_table_disciplined) R) as (_ & _ & V).
  - split.
    + intros h [<-|[]]. exact W.
    + intros h1 h2 [<-|[]] [<-|[]] Hne. congruence.
  - apply (V src); simpl; auto.
Qed.
Print Assumptions C16_gen_source_untouched.

(* 4. Siblings untouched.  In any world of well-formed graphs with pairwise distinct containers (sources, MIRP
      graphs, formulations' copies), any history of constructions and method calls keeps that invariant and changes
      the view of a graph ONLY by calls on that graph: not by constructing formulations from it or from anything
      else, not by heuristics / queries / edits of any sibling; and a formulation's graph starts with the view of its
      source.  (Applied from the store in which a formulation was created, this covers formulations made in the
      middle of a history.) *)
Theorem C16_gen_siblings_untouched :
  forall (deepcopy : store -> loc -> store * loc),
  (forall s g l, (l < length s)%nat -> rd (fst (deepcopy s g)) l = rd s l) ->
  (forall s g l, In l (reach (fst (deepcopy s g)) (snd (deepcopy s g))) ->
                 (length s <= l)%nat /\ (l < length (fst (deepcopy s g)))%nat) ->
  (forall s g, view (fst (deepcopy s g)) (snd (deepcopy s g)) = view s g) ->
  let ws := all_classes (analyse generated_table) in
  let srcs := graph_sources (analyse generated_table) in
  (forall hs s acts hs' s',
     world s hs -> wrun deepcopy ws srcs (hs, s) acts (hs', s') ->
     world s' hs' /\ incl hs hs' /\
     forall h, In h hs -> ~ In (ACall h) acts -> view s' h = view s h) /\
  (forall hs s src hs' s',
     world s hs -> wstep deepcopy ws srcs (hs, s) (AMake src GCopy) (hs', s') ->
     exists g', hs' = (hs ++ [g'])%list /\ view s' g' = view s src) /\
  ~ In GShare srcs.
Proof.
  intros dc H1 H2 H3 ws srcs.
  pose proof (all_classes_good generated_table C16_gen_table_disciplined) as G.
  pose proof (sources_not_shared generated_table C16_gen_table_disciplined) as N.
  split; [|split; [|exact N]].
  - intros hs s acts hs' s' W R.
    exact (world_run dc H1 H2 H3 ws srcs (hs, s) acts (hs', s') G N R W).
  - intros hs s src hs' s' W St.
    destruct (world_step dc H1 H2 H3 ws srcs hs s _ hs' s' G N W St) as (_ & _ & _ & C). apply C. reflexivity.
Qed.
Print Assumptions C16_gen_siblings_untouched.

(* 5. The getters.  Running the skeletons of the generated MIRP.get_arc_based / get_path_based / get_sequence_based
      by the getter semantics, from a MIRP with empty caches, for EVERY sequence of requests: each answer is the
      formulation built from the unchanged data (the sequence-based one with the strictness of its FIRST request),
      whatever the order; a repeated request returns the cached object; the data is never changed. *)
Theorem C16_gen_getters_cached :
  forall (D A P Sq : Type) (ba : D -> A) (bp : D -> P) (bs : D -> bool -> Sq) (d : D) (ops : list mop),
  let m0 := mkM D A P Sq d None None None in
  exists m' outs,
    grun D A P Sq ba bp bs generated_table m0 ops = Some (m', outs) /\
    outs = expected_outs D A P Sq ba bp bs d None ops /\
    mdata D A P Sq m' = d /\
    forall m o, grequest D A P Sq ba bp bs generated_table m o = lift_step D A P Sq (mstep D A P Sq ba bp bs m o).
Proof.
  intros D A P Sq ba bp bs d ops m0.
  exists (fst (mrun D A P Sq ba bp bs m0 ops)), (snd (mrun D A P Sq ba bp bs m0 ops)).
  split; [|split; [|split]].
  - rewrite (grun_mrun D A P Sq ba bp bs generated_table C16_gen_table_disciplined m0 ops).
    destruct (mrun D A P Sq ba bp bs m0 ops); reflexivity.
  - apply (mrun_order_independent D A P Sq ba bp bs d None m0 ops).
    + unfold coherent, m0; simpl. repeat split; auto; discriminate.
    + reflexivity.
  - apply (mrun_order_independent D A P Sq ba bp bs d None m0 ops).
    + unfold coherent, m0; simpl. repeat split; auto; discriminate.
    + reflexivity.
  - intros m o. apply (grequest_mstep D A P Sq ba bp bs generated_table C16_gen_table_disciplined).
Qed.
Print Assumptions C16_gen_getters_cached.

(* ---------- witnesses (hand-written, independent of the source) ----------
   PyAlias.ex_tb v w: a formulation base class whose constructor stores  v = 0: VRPTW() / deepcopy(vrptw) (as the
   source);  1: the graph it was given;  2: copy(vrptw);  3: deepcopy(vrptw, memo) -- and a method that  w = 0: appends
   to self.vrptw.nodes;  1: assigns an attribute of self.vrptw.nodes[0].  Columns: every write acceptable / graph
   attribute acceptable / analysis gave up nowhere.  The check accepts exactly (0, 0). *)
Example C16_gen_checker_rejects :
  map (fun v => ex_verdict v 0) [0; 1; 2; 3]%nat =
    [(true, true, true); (false, false, true); (false, false, true); (false, false, false)] /\
  ex_verdict 0 1 = (false, true, true).
Proof. vm_compute. split; reflexivity. Qed.
Print Assumptions C16_gen_checker_rejects.

(* The store semantics is inhabited and separates the classes: on the store of props/C16.v (source = handle 4, deep
   copy = handle 9) the step `add_node` of the hand model Store.v IS a run of the write classes of VRPTW.add_node
   (an allocation, an in-place change of the names container, one of the nodes container), and it leaves the view
   of the source alone; while a step of the rejected class (here: re-writing the source's node object, location 3)
   changes what the source shows. *)
Example C16_gen_semantics_witness :
  mtrace ex_store 9 [WCont CNames; WCont CNodes] (srun 9 [SAddNode 8 1%Z 0%Z (Fin 5%Z)] ex_store) /\
  view (srun 9 [SAddNode 8 1%Z 0%Z (Fin 5%Z)] ex_store) 4 = view ex_store 4 /\
  cstep ex_store 9 WAny ex_store (upd 3 (ONode 7 5%Z 0%Z PInf) ex_store) /\
  view (upd 3 (ONode 7 5%Z 0%Z PInf) ex_store) 4 <> view ex_store 4.
Proof.
  split; [|split; [|split]].
  - set (s1 := (ex_store ++ [ONode 8 1%Z 0%Z (Fin 5%Z)])%list).
    set (s2 := upd 5 (ONames [7; 8]%nat) s1).
    change (srun 9 [SAddNode 8 1%Z 0%Z (Fin 5%Z)] ex_store) with (upd 6 (OList [8; 10]%nat) s2).
    apply (MT_step _ _ _ s2 _ (WCont CNodes)); [|simpl; auto|].
    + apply (MT_step _ _ _ s1 _ (WCont CNames)); [|simpl; auto|].
      * apply (MT_alloc _ _ _ ex_store); [apply MT_start|]. apply AS_alloc; simpl; auto.
      * apply (CS_cont _ _ CNames s1 5 (ONames [7]%nat)); simpl; auto.
    + apply (CS_cont _ _ CNodes s2 6 (OList [8]%nat)); simpl; auto.
      repeat constructor; unfold is_node; simpl; eauto.
  - vm_compute. reflexivity.
  - apply CS_any.
  - vm_compute. discriminate.
Qed.
Print Assumptions C16_gen_semantics_witness.
